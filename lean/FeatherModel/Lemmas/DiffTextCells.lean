import FeatherModel.Model.DiffSpec

/-!
# `.tinydiff` text, bottom layer: splitting into lines and cells, action cells, comments, parameter indices
-/

namespace TinyDiff
open DiffModel

/-- no TAB, LF, CR -/
def Clean (s : List Nat) : Prop := 9 ∉ s ∧ 10 ∉ s ∧ 13 ∉ s

theorem clean_nil : Clean [] := by simp [Clean]

/-! ## `split` -/

theorem splitOn_append (sep : Nat) : ∀ (f : List Nat), sep ∉ f → ∀ rest : List Nat,
    splitOn sep (f ++ sep :: rest) = f :: splitOn sep rest
  | [], _, rest => by simp [splitOn]
  | c :: f, h, rest => by
    have hc : c ≠ sep := by intro e; subst e; simp at h
    have hf : sep ∉ f := by intro e; exact h (List.mem_cons_of_mem _ e)
    simp only [List.cons_append, splitOn, hc, if_false]
    rw [splitOn_append sep f hf rest]

theorem splitOn_single (sep : Nat) : ∀ (f : List Nat), sep ∉ f → splitOn sep f = [f]
  | [], _ => by simp [splitOn]
  | c :: f, h => by
    have hc : c ≠ sep := by intro e; subst e; simp at h
    have hf : sep ∉ f := by intro e; exact h (List.mem_cons_of_mem _ e)
    simp only [splitOn, hc, if_false]
    rw [splitOn_single sep f hf]

theorem splitOn_joinTab : ∀ (cells : List JStr), cells ≠ [] → (∀ c ∈ cells, TAB ∉ c) →
    splitOn TAB (joinTab cells) = cells
  | [], h, _ => absurd rfl h
  | [c], _, hc => by
    simp only [joinTab]
    exact splitOn_single TAB c (hc c (by simp))
  | c :: c' :: rest, _, hc => by
    simp only [joinTab]
    rw [splitOn_append TAB c (hc c (by simp))]
    rw [splitOn_joinTab (c' :: rest) (by simp) (fun x hx => hc x (List.mem_cons_of_mem _ hx))]

theorem takeWhile_tabs : ∀ (n : Nat) (rest : List Nat), rest.head? ≠ some TAB →
    ((List.replicate n TAB ++ rest).takeWhile (· = TAB)) = List.replicate n TAB
  | 0, [], _ => by simp
  | 0, c :: r, h => by
    have hc : c ≠ TAB := by intro e; subst e; simp at h
    simp [hc]
  | n + 1, rest, h => by
    simp only [List.replicate_succ, List.cons_append, List.takeWhile_cons, decide_true, if_true]
    rw [takeWhile_tabs n rest h]

theorem head_joinTab (f : JStr) (fs : List JStr) (hf : f ≠ []) : (joinTab (f :: fs)).head? = f.head? := by
  cases f with
  | nil => exact absurd rfl hf
  | cons x xs => cases fs <;> simp [joinTab]

/-- `TinyLine::new` on a written row -/
theorem mkLine_row (i : Nat) (f : JStr) (fs : List JStr) (hf : f ≠ []) (hc : ∀ c ∈ f :: fs, TAB ∉ c) :
    mkLine (List.replicate i TAB ++ joinTab (f :: fs)) = { idents := i, first := f, fields := fs } := by
  have hh : (joinTab (f :: fs)).head? ≠ some TAB := by
    rw [head_joinTab f fs hf]
    cases f with
    | nil => exact absurd rfl hf
    | cons x xs =>
      have : TAB ∉ x :: xs := hc _ (by simp)
      intro e
      simp only [List.head?_cons, Option.some.injEq] at e
      subst e
      simp at this
  unfold mkLine
  simp only [takeWhile_tabs i _ hh, List.length_replicate]
  have hd : List.drop i (List.replicate i TAB ++ joinTab (f :: fs)) = joinTab (f :: fs) := by
    exact List.drop_left' (by simp)
  rw [hd, splitOn_joinTab (f :: fs) (by simp) hc]

/-! ## lines -/

theorem splitOn_lines : ∀ (raw : List (List Nat)), (∀ l ∈ raw, LF ∉ l) →
    splitOn LF (raw.flatMap (· ++ [LF])) = raw ++ [[]]
  | [], _ => by simp [splitOn]
  | l :: rest, h => by
    simp only [List.flatMap_cons, List.append_assoc, List.cons_append, List.nil_append]
    rw [splitOn_append LF l (h l (by simp))]
    rw [splitOn_lines rest (fun x hx => h x (List.mem_cons_of_mem _ hx))]

theorem stripCR_of_clean {l : List Nat} (h : CR ∉ l) : stripCR l = l := by
  unfold stripCR
  split
  · rename_i hl
    exact absurd (List.mem_of_getLast? hl) h
  · rfl

/-- text that is a sequence of LF-terminated rows `raw` whose `TinyLine`s are `ls` -/
def Good (t : List Nat) (ls : List Line) : Prop :=
  ∃ raw : List (List Nat), t = raw.flatMap (· ++ [LF]) ∧ (∀ l ∈ raw, LF ∉ l ∧ CR ∉ l) ∧ raw.map mkLine = ls

theorem Good.nil : Good [] [] := ⟨[], rfl, by simp, rfl⟩

theorem Good.append {t1 t2 : List Nat} {l1 l2 : List Line} (h1 : Good t1 l1) (h2 : Good t2 l2) :
    Good (t1 ++ t2) (l1 ++ l2) := by
  obtain ⟨r1, e1, c1, m1⟩ := h1
  obtain ⟨r2, e2, c2, m2⟩ := h2
  refine ⟨r1 ++ r2, by simp [e1, e2], ?_, by simp [m1, m2]⟩
  intro l hl
  rcases List.mem_append.mp hl with h | h
  · exact c1 l h
  · exact c2 l h

theorem Good.flatten {α : Type} (f : α → List Nat) (g : α → List Line) :
    ∀ (xs : List α), (∀ x ∈ xs, Good (f x) (g x)) → Good (xs.map f).flatten (xs.flatMap g)
  | [], _ => by simpa using Good.nil
  | x :: rest, h => by
    simp only [List.map_cons, List.flatten_cons, List.flatMap_cons]
    exact Good.append (h x (by simp)) (Good.flatten f g rest (fun y hy => h y (List.mem_cons_of_mem _ hy)))

theorem Good.textLines {t : List Nat} {ls : List Line} (h : Good t ls) : (textLines t).map mkLine = ls := by
  obtain ⟨raw, e, c, m⟩ := h
  subst e
  unfold TinyDiff.textLines
  simp only [splitOn_lines raw (fun l hl => (c l hl).1), List.dropLast_concat, List.getLast?_concat, List.append_nil]
  have : raw.map stripCR = raw := by
    conv => rhs; rw [← List.map_id raw]
    apply List.map_congr_left
    intro l hl
    exact stripCR_of_clean (c l hl).2
  rw [this, m]

/-- one written row -/
theorem Good.row (i : Nat) (f : JStr) (fs : List JStr) (hf : f ≠ []) (hc : ∀ c ∈ f :: fs, Clean c) :
    Good (row i (f :: fs)) [{ idents := i, first := f, fields := fs }] := by
  refine ⟨[List.replicate i TAB ++ joinTab (f :: fs)], by simp [TinyDiff.row], ?_, ?_⟩
  · intro l hl
    simp only [List.mem_singleton] at hl
    subst hl
    have key : ∀ x, x ≠ TAB → x ∈ List.replicate i TAB ++ joinTab (f :: fs) → ∃ c ∈ f :: fs, x ∈ c := by
      intro x hx hm
      rcases List.mem_append.mp hm with hm | hm
      · exact absurd (List.eq_of_mem_replicate hm) hx
      · clear hf hc
        generalize f :: fs = cells at hm
        induction cells with
        | nil => simp [joinTab] at hm
        | cons c rest ih =>
          cases rest with
          | nil => exact ⟨c, by simp, by simpa [joinTab] using hm⟩
          | cons c' rest' =>
            simp only [joinTab, List.mem_append, List.mem_cons] at hm
            rcases hm with hm | hm | hm
            · exact ⟨c, by simp, hm⟩
            · exact absurd hm hx
            · obtain ⟨c2, hc2, hx2⟩ := ih hm
              exact ⟨c2, List.mem_cons_of_mem _ hc2, hx2⟩
    constructor
    · intro hm
      obtain ⟨c, hcm, hx⟩ := key LF (by decide) hm
      exact (hc c hcm).2.1 hx
    · intro hm
      obtain ⟨c, hcm, hx⟩ := key CR (by decide) hm
      exact (hc c hcm).2.2 hx
  · simp only [List.map_cons, List.map_nil]
    rw [mkLine_row i f fs hf (fun c hcm => (hc c hcm).1)]

/-! ## action cells -/

theorem plainCell_clean {s : JStr} (h : plainCell s = true) : Clean s := by
  unfold plainCell at h
  rw [List.all_eq_true] at h
  refine ⟨?_, ?_, ?_⟩ <;> intro hm <;> have := h _ hm <;> simp at this

theorem parseAction_cells {valid : JStr → Bool} (hv : ∀ s, valid s = true → s ≠ []) (a : Action JStr)
    (h : actionAll valid a = true) : parseAction valid (actionCells a) = some (normAction a) := by
  cases a with
  | none => simp [parseAction, actionCells, Action.toTuple, cellOf, cell, normAction]
  | add b =>
    simp only [actionAll] at h
    simp [parseAction, actionCells, Action.toTuple, cellOf, cell, normAction, h, hv b h]
  | remove x =>
    simp only [actionAll] at h
    simp [parseAction, actionCells, Action.toTuple, cellOf, cell, normAction, h, hv x h]
  | edit x y =>
    simp only [actionAll, Bool.and_eq_true] at h
    simp [parseAction, actionCells, Action.toTuple, cellOf, cell, normAction, h.1, h.2, hv x h.1, hv y h.2]

theorem actionCells_clean {p : JStr → Bool} (hp : ∀ s, p s = true → Clean s) (a : Action JStr)
    (h : actionAll p a = true) : ∀ c ∈ actionCells a, Clean c := by
  intro c hc
  cases a with
  | none => simp [actionCells, Action.toTuple, cellOf] at hc; subst hc; exact clean_nil
  | add b =>
    simp only [actionAll] at h
    simp [actionCells, Action.toTuple, cellOf] at hc
    rcases hc with rfl | rfl
    · exact clean_nil
    · exact hp _ h
  | remove x =>
    simp only [actionAll] at h
    simp [actionCells, Action.toTuple, cellOf] at hc
    rcases hc with rfl | rfl
    · exact hp _ h
    · exact clean_nil
  | edit x y =>
    simp only [actionAll, Bool.and_eq_true] at h
    simp [actionCells, Action.toTuple, cellOf] at hc
    rcases hc with rfl | rfl
    · exact hp _ h.1
    · exact hp _ h.2

/-! ## comments -/

theorem unescape_cons (c : Nat) (rest : List Nat) (h : c ≠ 92) : unescape (c :: rest) = c :: unescape rest := by
  rw [unescape.eq_5] <;> intro rest' h1 <;> exact absurd h1 h

theorem unescape_escape : ∀ d : JStr, unescape (escape d) = d
  | [] => by simp [escape, unescape]
  | c :: rest => by
    have ih := unescape_escape rest
    simp only [escape]
    split
    · rename_i h; subst h; rw [unescape.eq_1, ih]
    · split
      · rename_i h; subst h; rw [unescape.eq_2, ih]
      · split
        · rename_i h; subst h; rw [unescape.eq_3, ih]
        · split
          · rename_i h; subst h; rw [unescape.eq_4, ih]
          · rename_i h _ _ _; rw [unescape_cons c _ h, ih]

theorem escape_eq_nil {s : JStr} : escape s = [] ↔ s = [] := by
  cases s with
  | nil => simp [escape]
  | cons c r =>
    simp only [escape]
    by_cases h1 : c = 92
    · simp [h1]
    · by_cases h2 : c = 10
      · simp [h2]
      · by_cases h3 : c = 13
        · simp [h3]
        · by_cases h4 : c = 9 <;> simp [h1, h2, h3, h4]

theorem escape_inj {x y : JStr} : escape x = escape y ↔ x = y := by
  constructor
  · intro e
    have := congrArg unescape e
    rwa [unescape_escape x, unescape_escape y] at this
  · intro e; rw [e]

theorem plainDoc_ne_nil {s : JStr} (h : plainDoc s = true) : s ≠ [] := by
  intro e; subst e; simp [plainDoc] at h

theorem mem_escape {x : Nat} : ∀ {s : JStr}, x ∈ escape s → x = 92 ∨ x = 110 ∨ x = 114 ∨ x = 116 ∨ (x ≠ 10 ∧ x ≠ 13 ∧ x ≠ 9)
  | [], h => by simp [escape] at h
  | c :: r, h => by
    simp only [escape] at h
    split at h
    · simp only [List.mem_cons] at h
      rcases h with h | h | h
      · exact Or.inl h
      · exact Or.inl h
      · exact mem_escape h
    · split at h
      · simp only [List.mem_cons] at h
        rcases h with h | h | h
        · exact Or.inl h
        · exact Or.inr (Or.inl h)
        · exact mem_escape h
      · split at h
        · simp only [List.mem_cons] at h
          rcases h with h | h | h
          · exact Or.inl h
          · exact Or.inr (Or.inr (Or.inl h))
          · exact mem_escape h
        · split at h
          · simp only [List.mem_cons] at h
            rcases h with h | h | h
            · exact Or.inl h
            · exact Or.inr (Or.inr (Or.inr (Or.inl h)))
            · exact mem_escape h
          · rename_i h92 h10 h13 h9
            simp only [List.mem_cons] at h
            rcases h with h | h
            · subst h; exact Or.inr (Or.inr (Or.inr (Or.inr ⟨h10, h13, h9⟩)))
            · exact mem_escape h

/-- an escaped comment has no TAB, LF, CR at all -/
theorem escape_clean (s : JStr) : Clean (escape s) := by
  refine ⟨?_, ?_, ?_⟩ <;> intro hm <;> rcases mem_escape hm with h | h | h | h | ⟨h1, h2, h3⟩ <;> simp_all

theorem docCells_clean (a : Action JStr) (h : actionAll plainDoc a = true) :
    ∀ c ∈ (actionCells a).map escape, Clean c := by
  intro c hc
  cases a with
  | none => simp [actionCells, Action.toTuple, cellOf, escape] at hc; subst hc; exact clean_nil
  | add b =>
    simp only [actionAll] at h
    simp [actionCells, Action.toTuple, cellOf, escape] at hc
    rcases hc with rfl | rfl
    · exact clean_nil
    · exact escape_clean _
  | remove x =>
    simp only [actionAll] at h
    simp [actionCells, Action.toTuple, cellOf, escape] at hc
    rcases hc with rfl | rfl
    · exact escape_clean _
    · exact clean_nil
  | edit x y =>
    simp only [actionAll, Bool.and_eq_true] at h
    simp [actionCells, Action.toTuple, cellOf] at hc
    rcases hc with rfl | rfl
    · exact escape_clean _
    · exact escape_clean _

/-- `add_comment` on a written comment row -/
theorem addComment_cells (a : Action JStr) (h : actionAll plainDoc a = true) :
    addComment false ((actionCells a).map escape) = some (normAction a) := by
  cases a with
  | none => simp [addComment, parseAction, actionCells, Action.toTuple, cellOf, cell, normAction, escape, Action.mapA]
  | add b =>
    simp only [actionAll] at h
    simp [addComment, parseAction, actionCells, Action.toTuple, cellOf, cell, normAction, escape, Action.mapA,
      escape_eq_nil, plainDoc_ne_nil h, unescape_escape]
  | remove x =>
    simp only [actionAll] at h
    simp [addComment, parseAction, actionCells, Action.toTuple, cellOf, cell, normAction, escape, Action.mapA,
      escape_eq_nil, plainDoc_ne_nil h, unescape_escape]
  | edit x y =>
    simp only [actionAll, Bool.and_eq_true] at h
    have hnx := plainDoc_ne_nil h.1
    have hny := plainDoc_ne_nil h.2
    by_cases hxy : x = y
    · subst hxy
      simp [addComment, parseAction, actionCells, Action.toTuple, cellOf, cell, normAction, Action.mapA,
        escape_eq_nil, hnx]
    · simp [addComment, parseAction, actionCells, Action.toTuple, cellOf, cell, normAction, Action.mapA,
        escape_eq_nil, hnx, hny, escape_inj, hxy, unescape_escape]

/-! ## parameter indices -/

theorem decimal_digits (n : Nat) : ∀ c ∈ decimal n, isDigit c = true := by
  intro c hc
  unfold decimal at hc
  obtain ⟨ch, hch, rfl⟩ := List.mem_map.mp hc
  have := Nat.isDigit_of_mem_toDigits (b := 10) (by decide) (by decide) hch
  simp only [Char.isDigit, Bool.and_eq_true, decide_eq_true_eq, ge_iff_le, UInt32.le_iff_toNat_le] at this
  simp only [isDigit, Bool.and_eq_true, decide_eq_true_eq, Char.toNat]
  exact this

theorem decimal_ne_nil (n : Nat) : decimal n ≠ [] := by
  unfold decimal
  simp [Nat.toDigits_ne_nil]

theorem decimal_clean (n : Nat) : Clean (decimal n) := by
  refine ⟨?_, ?_, ?_⟩ <;> intro hm <;> have := decimal_digits n _ hm <;> simp [isDigit] at this

theorem decimal_value (n : Nat) : (decimal n).foldl (fun acc c => acc * 10 + (c - 48)) 0 = n := by
  unfold decimal
  rw [List.foldl_map]
  have := Nat.ofDigitChars_ten_toDigits (n := n)
  rw [Nat.ofDigitChars_eq_foldl] at this
  have hf : (fun (acc : Nat) (c : Char) => acc * 10 + (c.toNat - 48)) =
      (fun sofar c => 10 * sofar + (c.toNat - '0'.toNat)) := by
    funext acc c
    rw [Nat.mul_comm]
    rfl
  rw [hf]
  exact this

theorem parseUsize_digits (s : JStr) (hne : s ≠ []) (hd : ∀ c ∈ s, isDigit c = true)
    (hv : s.foldl (fun acc c => acc * 10 + (c - 48)) 0 < 18446744073709551616) :
    parseUsize s = some (s.foldl (fun acc c => acc * 10 + (c - 48)) 0) := by
  have hall : s.all isDigit = true := List.all_eq_true.mpr hd
  unfold parseUsize
  split
  · rename_i rest
    have := hd 43 (by simp)
    simp [isDigit] at this
  · simp only [hne, if_false, hall, if_true, hv]

theorem parseUsize_decimal (n : Nat) (h : n < 18446744073709551616) : parseUsize (decimal n) = some n := by
  rw [parseUsize_digits (decimal n) (decimal_ne_nil n) (decimal_digits n) (by rw [decimal_value]; exact h), decimal_value]

end TinyDiff
