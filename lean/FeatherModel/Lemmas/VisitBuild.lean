import FeatherModel.Model.VisitTree

/-!
# C17 lemmas — the shape of the trees the builder produces; attribute slots are rebuilt by replaying them
-/

set_option linter.unusedSimpArgs false

namespace Visit

/-- slots as a tree object of a visitor trait offering the kinds `ord` can have them: `insert_if_empty` slots only for
single-valued kinds of `ord`, annotation vectors only for the annotation kinds of `ord` -/
def Slots.ShapedFor (ord : List K) (s : Slots) : Prop :=
  (∀ k, (k ∉ ord ∨ isMulti k = true) → s.single k = none) ∧ (∀ k, (k ∉ ord ∨ isMulti k = false) → s.multi k = [])

def CodeTree.Shaped (k : CodeTree) : Prop := k.slots.ShapedFor codeOrder

def MethodTree.Shaped (m : MethodTree) : Prop := m.slots.ShapedFor methodOrder ∧ ∀ k, m.code = some k → k.Shaped

def ClassTree.Shaped (t : ClassTree) : Prop :=
  t.slots.ShapedFor classOrder ∧ (∀ r ∈ t.recs, r.slots.ShapedFor recOrder) ∧
    (∀ f ∈ t.fields, f.slots.ShapedFor fieldOrder) ∧ (∀ m ∈ t.methods, m.Shaped)

theorem Slots.ext' {a b : Slots} (h1 : a.single = b.single) (h2 : a.multi = b.multi) (h3 : a.attrs = b.attrs) : a = b := by
  cases a; cases b; simp_all

theorem shaped_empty (ord : List K) : ({} : Slots).ShapedFor ord := ⟨fun _ _ => rfl, fun _ _ => rfl⟩

theorem add_shaped {ord : List K} {s s' : Slots} {unk : Bool} {k : K} {pay : Pay}
    (hs : s.ShapedFor ord) (h : s.add ord unk k pay = some s') : s'.ShapedFor ord := by
  unfold Slots.add at h
  split at h
  · simp at h; subst h; exact hs
  · split at h
    · simp at h
    · rename_i hin
      have hk : k ∈ ord := by simpa using hin
      split at h
      · rename_i hmu
        simp at h; subst h
        refine ⟨hs.1, ?_⟩
        intro k' hk'
        simp only [upd]
        split
        · rename_i heq
          subst heq
          rcases hk' with hk' | hk'
          · exact absurd hk hk'
          · rw [hmu] at hk'; simp at hk'
        · exact hs.2 k' hk'
      · rename_i hmu
        split at h
        · simp at h
        · simp at h; subst h
          refine ⟨?_, hs.2⟩
          intro k' hk'
          simp only [upd]
          split
          · rename_i heq
            subst heq
            rcases hk' with hk' | hk'
            · exact absurd hk hk'
            · exact absurd hk' hmu
          · exact hs.1 k' hk'

/-! ## the builder keeps every object in shape -/

structure BSt.Shaped (st : BSt) : Prop where
  cls : ∀ c, st.cls = some c → c.Shaped
  rc : ∀ r, st.rc = some r → r.slots.ShapedFor recOrder
  fld : ∀ f, st.fld = some f → f.slots.ShapedFor fieldOrder
  mth : ∀ m, st.mth = some m → m.Shaped
  code : ∀ k, st.code = some k → k.Shaped

theorem bind_some {α β : Type} {x : Option α} {f : α → Option β} {b : β} :
    (x >>= f) = some b ↔ ∃ a, x = some a ∧ f a = some b := by
  cases x <;> simp [bind, Option.bind]

theorem step_shaped {st st' : BSt} {e : Ev} (hs : st.Shaped) (h : step st e = some st') : st'.Shaped := by
  obtain ⟨h1, h2, h3, h4, h5⟩ := hs
  cases e <;> simp only [step] at h
  case classBegin hh =>
    split at h
    · simp at h
    · simp at h; subst h
      exact ⟨by intro c hc; simp at hc; subst hc; exact ⟨shaped_empty _, by simp, by simp, by simp⟩, h2, h3, h4, h5⟩
  case cAttr unk k pay =>
    obtain ⟨c, hc, h⟩ := bind_some.mp h
    obtain ⟨s, hadd, h⟩ := bind_some.mp h
    simp [pure] at h; subst h
    have hcs := h1 c hc
    exact ⟨by intro c' hc'; simp at hc'; subst hc'; exact ⟨add_shaped hcs.1 hadd, hcs.2⟩, h2, h3, h4, h5⟩
  case recBegin r hh =>
    simp at h; subst h
    exact ⟨h1, by intro r' hr'; simp at hr'; subst hr'; exact shaped_empty _, h3, h4, h5⟩
  case rAttr r unk k pay =>
    obtain ⟨rc, hrc, h⟩ := bind_some.mp h
    obtain ⟨s, hadd, h⟩ := bind_some.mp h
    simp [pure] at h; subst h
    exact ⟨h1, by intro r' hr'; simp at hr'; subst hr'; exact add_shaped (h2 rc hrc) hadd, h3, h4, h5⟩
  case recEnd r =>
    obtain ⟨c, hc, h⟩ := bind_some.mp h
    obtain ⟨rc, hrc, h⟩ := bind_some.mp h
    simp [pure] at h; subst h
    have hcs := h1 c hc
    refine ⟨?_, by intro r' hr'; simp at hr', h3, h4, h5⟩
    intro c' hc'; simp at hc'; subst hc'
    refine ⟨hcs.1, ?_, hcs.2.2⟩
    intro r' hr'
    simp at hr'
    rcases hr' with hr' | hr'
    · exact hcs.2.1 r' hr'
    · subst hr'; exact h2 _ hrc
  case classFlags d s =>
    obtain ⟨c, hc, h⟩ := bind_some.mp h
    simp [pure] at h; subst h
    have hcs := h1 c hc
    exact ⟨by intro c' hc'; simp at hc'; subst hc'; exact hcs, h2, h3, h4, h5⟩
  case fieldBegin i hh =>
    simp at h; subst h
    exact ⟨h1, h2, by intro r' hr'; simp at hr'; subst hr'; exact shaped_empty _, h4, h5⟩
  case fAttr i unk k pay =>
    obtain ⟨f, hf, h⟩ := bind_some.mp h
    obtain ⟨s, hadd, h⟩ := bind_some.mp h
    simp [pure] at h; subst h
    exact ⟨h1, h2, by intro r' hr'; simp at hr'; subst hr'; exact add_shaped (h3 f hf) hadd, h4, h5⟩
  case fieldFlags i d s =>
    obtain ⟨f, hf, h⟩ := bind_some.mp h
    simp [pure] at h; subst h
    exact ⟨h1, h2, by intro r' hr'; simp at hr'; subst hr'; exact h3 f hf, h4, h5⟩
  case fieldEnd i =>
    obtain ⟨c, hc, h⟩ := bind_some.mp h
    obtain ⟨f, hf, h⟩ := bind_some.mp h
    simp [pure] at h; subst h
    have hcs := h1 c hc
    refine ⟨?_, h2, by intro r' hr'; simp at hr', h4, h5⟩
    intro c' hc'; simp at hc'; subst hc'
    refine ⟨hcs.1, hcs.2.1, ?_, hcs.2.2.2⟩
    intro r' hr'
    simp at hr'
    rcases hr' with hr' | hr'
    · exact hcs.2.2.1 r' hr'
    · subst hr'; exact h3 _ hf
  case methodBegin i hh =>
    simp at h; subst h
    exact ⟨h1, h2, h3, by intro r' hr'; simp at hr'; subst hr'; exact ⟨shaped_empty _, by simp⟩, h5⟩
  case mAttr i unk k pay =>
    obtain ⟨m, hm, h⟩ := bind_some.mp h
    obtain ⟨s, hadd, h⟩ := bind_some.mp h
    simp [pure] at h; subst h
    have hms := h4 m hm
    exact ⟨h1, h2, h3, by intro r' hr'; simp at hr'; subst hr'; exact ⟨add_shaped hms.1 hadd, hms.2⟩, h5⟩
  case methodFlags i d s =>
    obtain ⟨m, hm, h⟩ := bind_some.mp h
    simp [pure] at h; subst h
    exact ⟨h1, h2, h3, by intro r' hr'; simp at hr'; subst hr'; exact h4 m hm, h5⟩
  case methodEnd i =>
    obtain ⟨c, hc, h⟩ := bind_some.mp h
    obtain ⟨m, hm, h⟩ := bind_some.mp h
    simp [pure] at h; subst h
    have hcs := h1 c hc
    refine ⟨?_, h2, h3, by intro r' hr'; simp at hr', h5⟩
    intro c' hc'; simp at hc'; subst hc'
    refine ⟨hcs.1, hcs.2.1, hcs.2.2.1, ?_⟩
    intro r' hr'
    simp at hr'
    rcases hr' with hr' | hr'
    · exact hcs.2.2.2 r' hr'
    · subst hr'; exact h4 _ hm
  case codeBegin i =>
    simp at h; subst h
    exact ⟨h1, h2, h3, h4, by intro r' hr'; simp at hr'; subst hr'; exact shaped_empty _⟩
  case codeMaxs i hh =>
    obtain ⟨k, hk, h⟩ := bind_some.mp h
    simp [pure] at h; subst h
    exact ⟨h1, h2, h3, h4, by intro r' hr'; simp at hr'; subst hr'; exact h5 k hk⟩
  case kAttr i unk k pay =>
    obtain ⟨c, hc, h⟩ := bind_some.mp h
    obtain ⟨s, hadd, h⟩ := bind_some.mp h
    simp [pure] at h; subst h
    exact ⟨h1, h2, h3, h4, by intro r' hr'; simp at hr'; subst hr'; exact add_shaped (h5 c hc) hadd⟩
  case codeInsns i fr hh =>
    obtain ⟨k, hk, h⟩ := bind_some.mp h
    simp [pure] at h; subst h
    exact ⟨h1, h2, h3, h4, by intro r' hr'; simp at hr'; subst hr'; exact h5 k hk⟩
  case codeExc i hh =>
    obtain ⟨k, hk, h⟩ := bind_some.mp h
    simp [pure] at h; subst h
    exact ⟨h1, h2, h3, h4, by intro r' hr'; simp at hr'; subst hr'; exact h5 k hk⟩
  case codeLines i parts =>
    obtain ⟨k, hk, h⟩ := bind_some.mp h
    split at h
    · simp at h
    · simp [pure] at h; subst h
      exact ⟨h1, h2, h3, h4, by intro r' hr'; simp at hr'; subst hr'; exact h5 k hk⟩
  case codeLocals i parts =>
    obtain ⟨k, hk, h⟩ := bind_some.mp h
    split at h
    · simp at h
    · simp [pure] at h; subst h
      exact ⟨h1, h2, h3, h4, by intro r' hr'; simp at hr'; subst hr'; exact h5 k hk⟩
  case codeEnd i =>
    obtain ⟨m, hm, h⟩ := bind_some.mp h
    obtain ⟨k, hk, h⟩ := bind_some.mp h
    split at h
    · simp at h
    · simp [pure] at h; subst h
      have hms := h4 m hm
      refine ⟨h1, h2, h3, ?_, by intro r' hr'; simp at hr'⟩
      intro r' hr'; simp at hr'; subst hr'
      exact ⟨hms.1, by intro k' hk'; simp at hk'; subst hk'; exact h5 k hk⟩
  case classEnd =>
    simp at h; subst h
    exact ⟨h1, h2, h3, h4, h5⟩

theorem run_shaped : ∀ (evs : List Ev) (st st' : BSt), st.Shaped → run st evs = some st' → st'.Shaped := by
  intro evs
  induction evs with
  | nil => intro st st' hs h; simp [run] at h; subst h; exact hs
  | cons e evs ih =>
    intro st st' hs h
    simp only [run, List.foldlM_cons] at h
    obtain ⟨st1, h1, h⟩ := bind_some.mp h
    exact ih st1 st' (step_shaped hs h1) h

theorem build_isShaped {evs : List Ev} {t : ClassTree} (h : build evs = some t) : t.Shaped := by
  unfold build at h
  obtain ⟨st, hst, h⟩ := bind_some.mp h
  have hs : st.Shaped := run_shaped evs {} st
    ⟨by intro c hc; simp at hc, by intro c hc; simp at hc, by intro c hc; simp at hc, by intro c hc; simp at hc,
     by intro c hc; simp at hc⟩ hst
  split at h
  · exact hs.cls t h
  · simp at h

end Visit
