import FeatherModel.Model.Reorder

/-!
# Descriptor lemmas for C08: `MapDesc.go` under change of the class map, identity, composition
-/

namespace Reorder
open MapDesc

/-- the accumulator of `go` is only ever prepended to -/
theorem go_out (f : JStr → JStr) : ∀ (cs : List Nat) (mode : Mode) (out : List Nat),
    go f cs mode out = (go f cs mode []).map (out.reverse ++ ·) := by
  intro cs
  induction cs with
  | nil =>
    intro mode out
    cases mode <;> simp [go]
  | cons c rest ih =>
    intro mode out
    cases mode with
    | copy =>
      simp only [go]
      split
      · rw [ih .first (c :: out), ih .first [c]]
        simp [Option.map_map, Function.comp_def]
      · rw [ih .copy (c :: out), ih .copy [c]]
        simp [Option.map_map, Function.comp_def]
    | first =>
      simp only [go]
      split
      · rfl
      · exact ih _ _
    | name acc =>
      simp only [go]
      split
      · rw [ih .copy (SEMI :: (f acc.reverse).reverse ++ out), ih .copy (SEMI :: (f acc.reverse).reverse ++ [])]
        simp [Option.map_map, Function.comp_def]
      · exact ih _ _

/-- only the values of the class map on the mentioned classes matter -/
theorem go_congr {f f' : JStr → JStr} : ∀ (cs : List Nat) (mode : Mode) (out : List Nat),
    (∀ x ∈ classesGo cs mode, f x = f' x) → go f cs mode out = go f' cs mode out := by
  intro cs
  induction cs with
  | nil => intro mode out _; cases mode <;> rfl
  | cons c rest ih =>
    intro mode out h
    cases mode with
    | copy =>
      simp only [go]
      simp only [classesGo] at h
      split
      · rename_i hc; simp only [hc, if_true] at h; exact ih _ _ h
      · rename_i hc; simp only [hc, if_false] at h; exact ih _ _ h
    | first =>
      simp only [go]
      simp only [classesGo] at h
      split
      · rfl
      · rename_i hc; simp only [hc, if_false] at h; exact ih _ _ h
    | name acc =>
      simp only [go]
      simp only [classesGo] at h
      split
      · rename_i hc
        simp only [hc, if_true, List.mem_cons] at h
        rw [h _ (Or.inl rfl)]
        exact ih _ _ (fun x hx => h x (Or.inr hx))
      · rename_i hc; simp only [hc, if_false] at h; exact ih _ _ h

/-- text read but not yet written in a mode -/
def pend : Mode → List Nat
  | .copy => []
  | .first => []
  | .name acc => acc.reverse

/-- whenever `map_desc` accepts a descriptor, the identity class map reproduces it -/
theorem go_id {f : JStr → JStr} : ∀ (cs : List Nat) (mode : Mode) (out out' : List Nat),
    (go f cs mode out).isSome = true → go id cs mode out' = some (out'.reverse ++ pend mode ++ cs) := by
  intro cs
  induction cs with
  | nil => intro mode out out' h; cases mode <;> simp [go, pend] at h ⊢
  | cons c rest ih =>
    intro mode out out' h
    cases mode with
    | copy =>
      simp only [go] at h ⊢
      split
      · rename_i hc
        simp only [hc, if_true] at h
        rw [ih _ _ _ h]; simp [pend]
      · rename_i hc
        simp only [hc, if_false] at h
        rw [ih _ _ _ h]; simp [pend]
    | first =>
      simp only [go] at h ⊢
      split
      · rename_i hc; simp [hc] at h
      · rename_i hc
        simp only [hc, if_false] at h
        rw [ih _ _ _ h]; simp [pend]
    | name acc =>
      simp only [go] at h ⊢
      split
      · rename_i hc
        simp only [hc, if_true] at h
        rw [ih _ _ _ h]; simp [pend, hc]
      · rename_i hc
        simp only [hc, if_false] at h
        rw [ih _ _ _ h]; simp [pend]

theorem mapDesc_id_of_isSome {f : JStr → JStr} {d : JStr} (h : (mapDesc f d).isSome = true) :
    mapDesc id d = some d := by
  unfold mapDesc at h ⊢
  rw [go_id d .copy [] [] h]
  simp [pend]

/-- a name without `;` is read back as one name -/
theorem go_name_run (g : JStr → JStr) : ∀ (ys acc out rest : List Nat), SEMI ∉ ys →
    go g (ys ++ SEMI :: rest) (.name acc) out = go g rest .copy (SEMI :: (g (acc.reverse ++ ys)).reverse ++ out) := by
  intro ys
  induction ys with
  | nil => intro acc out rest _; simp [go]
  | cons y ys ih =>
    intro acc out rest h
    simp only [List.mem_cons, not_or] at h
    have hy : ¬ y = SEMI := fun e => h.1 e.symm
    simp only [List.cons_append, go, hy, if_false]
    rw [ih _ _ _ h.2]
    simp

/-- the mentioned class names are non-empty and free of `;` -/
theorem classesGo_clean : ∀ (cs : List Nat) (mode : Mode),
    (match mode with | .name acc => acc ≠ [] ∧ SEMI ∉ acc | _ => True) →
    ∀ x ∈ classesGo cs mode, x ≠ [] ∧ SEMI ∉ x := by
  intro cs
  induction cs with
  | nil => intro mode _ x hx; simp [classesGo] at hx
  | cons c rest ih =>
    intro mode hm x hx
    cases mode with
    | copy =>
      simp only [classesGo] at hx
      split at hx
      · exact ih .first trivial x hx
      · exact ih .copy trivial x hx
    | first =>
      simp only [classesGo] at hx
      split at hx
      · simp at hx
      · rename_i hc
        refine ih (.name [c]) ?_ x hx
        simp only [List.mem_singleton]
        exact ⟨by simp, fun e => hc e.symm⟩
    | name acc =>
      simp only [classesGo] at hx
      simp only at hm
      split at hx
      · rcases List.mem_cons.mp hx with rfl | hx
        · simp only [ne_eq, List.reverse_eq_nil_iff, List.mem_reverse]
          exact hm
        · exact ih .copy trivial x hx
      · rename_i hc
        refine ih (.name (c :: acc)) ?_ x hx
        simp only [List.mem_cons, not_or]
        exact ⟨by simp, fun e => hc e.symm, hm.2⟩

theorem classesOf_clean {d x : JStr} (hx : x ∈ classesOf d) : x ≠ [] ∧ SEMI ∉ x :=
  classesGo_clean d .copy trivial x hx

/-- rewriting with `f` and then with `g` is rewriting with `g ∘ f`, provided the names `f` produces can be written
into a descriptor (non-empty, no `;`). The second pass starts in `.first` when the first one was inside a name. -/
theorem go_comp (f g : JStr → JStr) : ∀ (cs : List Nat) (mode : Mode) (r : List Nat),
    go f cs mode [] = some r →
    (∀ x ∈ classesGo cs mode, f x ≠ [] ∧ SEMI ∉ f x) →
    go g r (match mode with | .copy => .copy | _ => .first) [] = go (g ∘ f) cs mode [] := by
  intro cs
  induction cs with
  | nil =>
    intro mode r h _
    cases mode <;> simp [go] at h
    subst h; rfl
  | cons c rest ih =>
    intro mode r h hcl
    cases mode with
    | copy =>
      simp only [go] at h ⊢
      simp only [classesGo] at hcl
      by_cases hc : c = CH_L
      · simp only [hc, if_true] at h hcl ⊢
        rw [go_out] at h
        cases h0 : go f rest .first [] with
        | none => rw [h0] at h; simp at h
        | some r0 =>
          rw [h0] at h
          simp only [Option.map_some, List.reverse_cons, List.reverse_nil, List.nil_append, List.singleton_append,
            Option.some.injEq] at h
          subst h
          have := ih .first r0 h0 hcl
          simp only at this
          simp only [go, if_true]
          rw [go_out g, this, go_out (g ∘ f) rest .first [CH_L]]
      · simp only [hc, if_false] at h hcl ⊢
        rw [go_out] at h
        cases h0 : go f rest .copy [] with
        | none => rw [h0] at h; simp at h
        | some r0 =>
          rw [h0] at h
          simp only [Option.map_some, List.reverse_cons, List.reverse_nil, List.nil_append, List.singleton_append,
            Option.some.injEq] at h
          subst h
          have := ih .copy r0 h0 hcl
          simp only at this
          simp only [go, hc, if_false]
          rw [go_out g, this, go_out (g ∘ f) rest .copy [c]]
    | first =>
      simp only [go] at h ⊢
      simp only [classesGo] at hcl
      by_cases hc : c = SEMI
      · simp [hc] at h
      · simp only [hc, if_false] at h hcl ⊢
        exact ih (.name [c]) r h hcl
    | name acc =>
      simp only [go] at h ⊢
      simp only [classesGo] at hcl
      by_cases hc : c = SEMI
      · simp only [hc, if_true, List.mem_cons] at h hcl ⊢
        rw [go_out] at h
        cases h0 : go f rest .copy [] with
        | none => rw [h0] at h; simp at h
        | some r0 =>
          rw [h0] at h
          simp only [Option.map_some, Option.some.injEq] at h
          subst h
          obtain ⟨hne, hsemi⟩ := hcl _ (Or.inl rfl)
          have hrec := ih .copy r0 h0 (fun x hx => hcl x (Or.inr hx))
          simp only at hrec
          cases hfx : f acc.reverse with
          | nil => exact absurd hfx hne
          | cons y ys =>
            rw [hfx] at hsemi
            simp only [List.mem_cons, not_or] at hsemi
            have hy : ¬ y = SEMI := fun e => hsemi.1 e.symm
            simp only [List.append_nil, List.reverse_cons, List.reverse_append, List.reverse_nil, List.nil_append,
              List.reverse_reverse, List.cons_append, List.append_assoc, go, hy, if_false]
            rw [go_name_run g ys [y] [] r0 hsemi.2, go_out g, hrec]
            conv => rhs; rw [go_out]
            simp [Function.comp_def, hfx]
      · simp only [hc, if_false] at h hcl ⊢
        exact ih (.name (c :: acc)) r h hcl

/-- rewriting back with a class map that inverts `f` on the mentioned classes restores the descriptor -/
theorem mapDesc_roundtrip {f g : JStr → JStr} {d d' : JStr} (h : mapDesc f d = some d')
    (hgf : ∀ x ∈ classesOf d, g (f x) = x)
    (hclean : ∀ x ∈ classesOf d, f x ≠ [] ∧ SEMI ∉ f x) :
    mapDesc g d' = some d := by
  unfold mapDesc at h ⊢
  have h1 := go_comp f g d .copy d' h hclean
  simp only at h1
  rw [h1, go_congr d .copy [] (f' := id) (fun x hx => by simp [hgf x hx])]
  have := go_id d .copy [] [] (f := f) (by rw [h]; rfl)
  simpa [pend] using this

end Reorder
