import FeatherModel.Lemmas.ArmsDefs

/-!
# duke's constants (`Gen/Constants.lean`) against the JVMS tables (`Spec/Opcodes.lean`) and against the model's constants

All finite: `decide +kernel` over the whole tables.
-/

namespace Arms

open JvmsTables

/-- the JVMS tables are in the shape the lookups assume: `opcodes` lists 0..201 in order (position = opcode), the
reserved opcodes are outside, `forms` / `wideForms` / `negations` name real opcodes -/
theorem jvms_tables_consistent :
    opcodes.map (·.1) = List.range 202 ∧
    (reserved.all fun r => decide (202 ≤ r.1 ∧ r.1 < 256)) = true ∧
    (forms.all fun f => (mnemonic? f.1).isSome && (mnemonic? f.2.1).isSome && !(forms.lookup f.2.1).isSome) = true ∧
    (wideForms.all fun f => (mnemonic? f.1).isSome) = true ∧
    (negations.all fun f => negations.lookup f.2 == some f.1 && operands? f.1 == some .branch16) = true := by
  decide +kernel

/-- every numeric module of `class_constants.rs` is one of the seven per-module tables (no constant is outside the
theorems below), and there is exactly one module of string constants -/
theorem constants_covered :
    (Gen.Constants.numeric.map fun m => (m.1, m.2.map fun e => (e.1, e.2.1))) =
      [([], Gen.Constants.rootConsts), (jstr "pool", Gen.Constants.poolConsts),
       (jstr "pool::method_handle_reference", Gen.Constants.poolMethodHandleReferenceConsts),
       (jstr "type_annotation", Gen.Constants.typeAnnotationConsts), (jstr "opcode", Gen.Constants.opcodeConsts),
       (jstr "atype", Gen.Constants.atypeConsts)] ∧
    Gen.Constants.strings = [(jstr "attribute", Gen.Constants.attributeConsts)] ∧
    Gen.Constants.modules = [[], jstr "pool", jstr "pool::method_handle_reference", jstr "attribute", jstr "type_annotation",
      jstr "opcode", jstr "atype"] ∧
    (Gen.Constants.numeric.all fun m => m.2.all fun e => decide (e.2.1 < 2 ^ e.2.2)) = true := by
  decide +kernel

theorem opcode_constants :
    Gen.Constants.opcodeConsts.map (fun e => (e.2, lower e.1)) =
      (opcodes.map (fun r => (r.1, r.2.1)) ++ reserved).map
        (fun r => (r.1, if r.1 = 0xbe then jstr "arraylenght" else r.2)) := by decide +kernel

theorem pool_constants :
    Gen.Constants.poolConsts.map (fun e => (e.2, squash e.1)) = poolTags.map (fun r => (r.1, squash r.2.1)) ∧
    Gen.Constants.poolMethodHandleReferenceConsts.map (fun e => (e.2, squash e.1)) =
      methodHandleKinds.map (fun r => (r.1, squash r.2)) := by decide +kernel

theorem other_constants :
    Gen.Constants.typeAnnotationConsts.map (fun e => (e.2, squash e.1)) = targetTypes.map (fun r => (r.1, squash r.2.1)) ∧
    Gen.Constants.atypeConsts.map (fun e => (e.2, e.1)) = arrayTypes ∧
    Gen.Constants.rootConsts = [(jstr "MAGIC", magic)] := by decide +kernel

theorem attribute_constants :
    (Gen.Constants.attributeConsts.all fun e => squash e.1 == squash e.2) = true ∧
    (Gen.Constants.attributeConsts.all fun e => (attributeNames ++ cldcAttributeNames).contains e.2) = true ∧
    ((attributeNames ++ cldcAttributeNames).all fun n => (Gen.Constants.attributeConsts.map (·.2)).contains n) = true ∧
    Gen.Constants.attributeConsts.length = (attributeNames ++ cldcAttributeNames).length := by decide +kernel

/-- the flag structs in the order the translator finds them (files of `duke/src/tree` sorted by path) with the JVMS table
each mirrors -/
def flagSpecs : List (JStr × List (JStr × Nat)) := [
  (jstr "ClassAccess", classFlags), (jstr "InnerClassFlags", innerClassFlags), (jstr "FieldAccess", fieldFlags),
  (jstr "MethodAccess", methodFlags), (jstr "ParameterFlags", parameterFlags), (jstr "ModuleFlags", moduleFlags),
  (jstr "ModuleRequiresFlags", requiresFlags), (jstr "ModuleExportsFlags", exportsFlags),
  (jstr "ModuleOpensFlags", opensFlags)]

theorem flags_read_write : Gen.Constants.flagsRead = Gen.Constants.flagsWrite := by decide +kernel

/-- all nine flag structs carry exactly the flags and masks of the JVMS tables (since ccf470b also `ModuleFlags`) -/
theorem flags_jvms : Gen.Constants.flagsRead = flagSpecs := by decide +kernel

/-- regression of ccf470b: `ModuleFlags::is_open` is `ACC_OPEN = 0x0020` (was `0x0010`) -/
theorem module_open_flag :
    Gen.Constants.flagsRead.lookup (jstr "ModuleFlags") = some [(jstr "open", 0x0020), (jstr "synthetic", 0x1000), (jstr "mandated", 0x8000)] ∧
    moduleFlags = [(jstr "open", 0x0020), (jstr "synthetic", 0x1000), (jstr "mandated", 0x8000)] := by decide +kernel

theorem model_constants :
    (modelAttributeNames.all fun e => Gen.Constants.attributeConsts.lookup e.1 == some e.2) = true ∧
    modelAttributeNames.length = Gen.Constants.attributeConsts.length ∧
    (modelMasks.all fun e => maskOf Gen.Constants.flagsRead e.1 == e.2) = true ∧
    modelMasks.map (·.1) = Gen.Constants.flagsRead.map (·.1) := by decide +kernel

end Arms
