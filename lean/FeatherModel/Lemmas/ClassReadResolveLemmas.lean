import FeatherModel.Lemmas.ClassReadCodeLoop
import FeatherModel.Model.ClassReadResolve

/-! C01 lemmas: reading the label ids of the delivered `Code` back as instruction positions gives the facts of
the layout. -/

namespace ClassRead
open Outcome Spec

theorem mapM'_map {α β γ : Type} (f : β → Option γ) (g : α → β) (h : α → γ) (xs : List α)
    (hx : ∀ x ∈ xs, f (g x) = some (h x)) : mapM' f (xs.map g) = some (xs.map h) := by
  induction xs with
  | nil => rfl
  | cons x xs ih =>
    have h1 := hx x (by simp)
    have h2 := ih (fun y hy => hx y (by simp [hy]))
    simp [mapM', h1, h2]

theorem entriesFrom_cons (l : Labels) (pos : Nat → Nat) (rem : List SFrame) (k : Nat) (x : SInsn) (xs : List SInsn) :
    ∃ fr rem', entriesFrom l pos rem k (x :: xs) = ⟨l.get (pos k), fr, mapT (labOf l pos) x.insn⟩ :: entriesFrom l pos rem' (k + 1) xs := by
  cases rem with
  | nil => exact ⟨none, [], rfl⟩
  | cons f rest =>
    by_cases h : f.at_ = k
    · exact ⟨some (f.kind.raw l pos), rest, by simp [entriesFrom, h]⟩
    · exact ⟨none, f :: rest, by simp [entriesFrom, h]⟩

/-- the label carriers from instruction `k` on: the id at offset `pos j` is carried by entry `j` -/
theorem lookup_go (lf : Labels) (hwf : lf.WF) (pos : Nat → Nat) (N : Nat)
    (hinj : ∀ i j, i ≤ N → j ≤ N → pos i = pos j → i = j) (xs : List SInsn) (k : Nat) (hk : k + xs.length = N)
    (t id : Nat) (hkt : k ≤ t) (htN : t ≤ N) (hg : lf.get (pos t) = some id) (rem : List SFrame) :
    lookupLabel (labelIndex.go (lf.get (pos N)) (entriesFrom lf pos rem k xs) k) id = some t := by
  induction xs generalizing k rem with
  | nil =>
    simp only [List.length_nil, Nat.add_zero] at hk
    have hkN : k = N := hk
    have htk : t = N := by omega
    subst htk
    cases rem <;> simp [entriesFrom, labelIndex.go, hg, lookupLabel, hkN]
  | cons x xs ih =>
    simp only [List.length_cons] at hk
    obtain ⟨fr, rem', he⟩ := entriesFrom_cons lf pos rem k x xs
    rw [he]
    simp only [labelIndex.go]
    cases hgk : lf.get (pos k) with
    | none =>
      have : k ≠ t := by intro e; subst e; rw [hg] at hgk; simp at hgk
      simp only []
      exact ih (k + 1) (by omega) (by omega) rem'
    | some idk =>
      simp only [lookupLabel, List.find?]
      by_cases he : idk = id
      · subst he
        have hp := hwf.inj _ _ _ hgk hg
        have := hinj k t (by omega) htN hp
        subst this
        simp
      · have hne : (idk == id) = false := by simp [he]
        simp only [hne]
        have : k ≠ t := by intro e; subst e; rw [hg] at hgk; simp at hgk; exact he hgk.symm
        exact ih (k + 1) (by omega) (by omega) rem'

/-- all labels the raw code mentions resolve through the carriers -/
structure Resolves (m : List (Nat × Nat)) (lf : Labels) (pos : Nat → Nat) (N : Nat) : Prop where
  ok : ∀ t, t ≤ N → (lf.get (pos t)).isSome = true → lookupLabel m (labOf lf pos t) = some t

theorem resolves_of_wf (lf : Labels) (hwf : lf.WF) (insns : List SInsn) (rem : List SFrame) :
    Resolves (labelIndex (entriesFrom lf (codePos insns) rem 0 insns) (lf.get (codePos insns insns.length))) lf
      (codePos insns) insns.length := by
  refine ⟨fun t ht hs => ?_⟩
  cases hg : lf.get (codePos insns t) with
  | none => simp [hg] at hs
  | some id =>
    have : labOf lf (codePos insns) t = id := by simp [labOf, hg]
    rw [this]
    exact lookup_go lf hwf (codePos insns) insns.length (fun i j hi hj h => codePos_inj insns i j hi hj h) insns 0
      (by simp) t id (Nat.zero_le _) ht hg rem

theorem insn_resolve (m : List (Nat × Nat)) (lf : Labels) (pos : Nat → Nat) (N : Nat) (hr : Resolves m lf pos N) (i : Insn)
    (ht : ∀ t ∈ targetsOf i, t ≤ N ∧ (lf.get (pos t)).isSome = true) :
    Insn.resolve m (mapT (labOf lf pos) i) = some i := by
  cases i with
  | branch op t =>
    have := ht t (by simp [targetsOf])
    simp [Insn.resolve, mapT, hr.ok t this.1 this.2]
  | goto t =>
    have := ht t (by simp [targetsOf])
    simp [Insn.resolve, mapT, hr.ok t this.1 this.2]
  | jsr t =>
    have := ht t (by simp [targetsOf])
    simp [Insn.resolve, mapT, hr.ok t this.1 this.2]
  | tableswitch d lo hi tbl =>
    have hd := ht d (by simp [targetsOf])
    have htbl : mapM' (lookupLabel m) (tbl.map (labOf lf pos)) = some (tbl.map id) :=
      mapM'_map (lookupLabel m) (labOf lf pos) id tbl (fun t htm => by
        have := ht t (by simp [targetsOf, htm])
        simpa using hr.ok t this.1 this.2)
    simp [Insn.resolve, mapT, hr.ok d hd.1 hd.2, htbl]
  | lookupswitch d pairs =>
    have hd := ht d (by simp [targetsOf])
    have hp : mapM' (fun (kt : Int × Nat) => do let t ← lookupLabel m kt.2; pure (kt.1, t))
        (pairs.map (fun kt => (kt.1, labOf lf pos kt.2))) = some (pairs.map id) :=
      mapM'_map _ (fun kt => (kt.1, labOf lf pos kt.2)) id pairs (fun kt hkt => by
        have := ht kt.2 (by simp only [targetsOf, List.mem_cons, List.mem_map]; exact Or.inr ⟨kt, hkt, rfl⟩)
        simp [hr.ok kt.2 this.1 this.2])
    simp only [List.map_id] at hp
    have hp' : mapM' (fun (x : Int × Nat) => (lookupLabel m x.2).bind fun t => some (x.1, t))
        (pairs.map (fun kt => (kt.1, labOf lf pos kt.2))) = some pairs := hp
    simp [Insn.resolve, mapT, hr.ok d hd.1 hd.2, hp']
  | _ => simp [Insn.resolve, mapT]

end ClassRead
