import FeatherModel.Lemmas.FramePool

/-!
# What the `StackMapTable` writer emits, read by the decoder of JVMS §4.7.4

Each lemma: if the writer function succeeds from a good pool, the pool stays good and only grows, and the bytes —
whatever follows them — decode to an item that denotes the input in the resulting pool (and in every later pool).
-/

namespace FrameWrite
open CodeWrite (Fail u16b)
open PoolWrite (Pool)
open FrameDecode FrameDenote FramePool

theorem u2_u16b (n : Nat) (h : n ≤ 65535) (r : Bytes) : u2 (u16b n ++ r) = some (n, r) := by
  simp only [u16b, List.cons_append, List.nil_append, u2, Option.some.injEq, Prod.mk.injEq, and_true]
  omega

theorem denotesV_le {lp : Nat → Option Nat} {p q : Pool} (h : Le p q) {v : VType} {d : DType}
    (hd : denotesV lp p v d = true) : denotesV lp q v d = true := by
  cases v <;> cases d <;> simp only [denotesV, Bool.false_eq_true] at hd ⊢
  · exact clsAt_le h hd
  · exact hd

theorem denotesVs_le {lp : Nat → Option Nat} {p q : Pool} (h : Le p q) :
    ∀ {vs : List VType} {ds : List DType}, denotesVs lp p vs ds = true → denotesVs lp q vs ds = true
  | [], [], _ => rfl
  | [], _ :: _, hd => by simp [denotesVs] at hd
  | _ :: _, [], hd => by simp [denotesVs] at hd
  | v :: vs, d :: ds, hd => by
    simp only [denotesVs, Bool.and_eq_true] at hd ⊢
    exact ⟨denotesV_le h hd.1, denotesVs_le h hd.2⟩

theorem denotesF_le {lp : Nat → Option Nat} {p q : Pool} (h : Le p q) {f : Frame} {d : DFrame}
    (hd : denotesF lp p f d = true) : denotesF lp q f d = true := by
  cases f <;> cases d <;> simp only [denotesF, Bool.false_eq_true, Bool.and_eq_true] at hd ⊢
  · exact denotesV_le h hd
  · exact hd
  · exact denotesVs_le h hd
  · exact ⟨denotesVs_le h hd.1, denotesVs_le h hd.2⟩

theorem denotesAll_le {lp : Nat → Option Nat} {p q : Pool} (h : Le p q) :
    ∀ {fs : List (Nat × Frame)} {ds : List (Nat × DFrame)}, denotesAll lp p fs ds = true → denotesAll lp q fs ds = true
  | [], [], _ => rfl
  | [], _ :: _, hd => by simp [denotesAll] at hd
  | _ :: _, [], hd => by simp [denotesAll] at hd
  | (o, f) :: fs, (o', d) :: ds, hd => by
    simp only [denotesAll, Bool.and_eq_true] at hd ⊢
    exact ⟨⟨hd.1.1, denotesF_le h hd.1.2⟩, denotesAll_le h hd.2⟩

/-- `write_verification_type_info` -/
theorem writeVType_spec {lp : Nat → Option Nat} (hlp : LpOk lp) {p p' : Pool} (hg : Good p) {v : VType} {b : Bytes}
    (h : writeVType lp p v = .ok (b, p')) :
    Good p' ∧ Le p p' ∧ p.count ≤ p'.count ∧ ∃ d, (∀ r, vtype (b ++ r) = some (d, r)) ∧ denotesV lp p' v d = true := by
  cases v with
  | object c =>
    simp only [writeVType] at h
    split at h
    · cases h
    · rename_i i p1 hp
      cases h
      obtain ⟨g, l, hc, hi, hcnt⟩ := putClass_good hg hp
      refine ⟨g, l, hcnt, .object i, fun r => ?_, hc⟩
      simp [vtype, u1, u2_u16b i hi r]
  | uninit l =>
    simp only [writeVType] at h
    split at h
    · cases h
    · rename_i o ho
      cases h
      refine ⟨hg, Le.refl _, Nat.le_refl _, .uninit o, fun r => ?_, by simp [denotesV, ho]⟩
      simp [vtype, u1, u2_u16b o (hlp _ _ ho) r]
  | top => cases h; exact ⟨hg, Le.refl _, Nat.le_refl _, .top, fun r => by simp [vtype, u1], rfl⟩
  | int => cases h; exact ⟨hg, Le.refl _, Nat.le_refl _, .int, fun r => by simp [vtype, u1], rfl⟩
  | float => cases h; exact ⟨hg, Le.refl _, Nat.le_refl _, .float, fun r => by simp [vtype, u1], rfl⟩
  | double => cases h; exact ⟨hg, Le.refl _, Nat.le_refl _, .double, fun r => by simp [vtype, u1], rfl⟩
  | long => cases h; exact ⟨hg, Le.refl _, Nat.le_refl _, .long, fun r => by simp [vtype, u1], rfl⟩
  | null => cases h; exact ⟨hg, Le.refl _, Nat.le_refl _, .null, fun r => by simp [vtype, u1], rfl⟩
  | uninitThis => cases h; exact ⟨hg, Le.refl _, Nat.le_refl _, .uninitThis, fun r => by simp [vtype, u1], rfl⟩

/-- the loop over a list of verification types -/
theorem writeVTypes_spec {lp : Nat → Option Nat} (hlp : LpOk lp) :
    ∀ (vs : List VType) {p p' : Pool} (_ : Good p) {b : Bytes}, writeVTypes lp p vs = .ok (b, p') →
      Good p' ∧ Le p p' ∧ p.count ≤ p'.count ∧
        ∃ ds, (∀ r, vtypes vs.length (b ++ r) = some (ds, r)) ∧ denotesVs lp p' vs ds = true
  | [], p, p', hg, b, h => by
    simp only [writeVTypes, Except.ok.injEq, Prod.mk.injEq] at h
    obtain ⟨rfl, rfl⟩ := h
    exact ⟨hg, Le.refl _, Nat.le_refl _, [], fun r => by simp [vtypes], rfl⟩
  | v :: vs, p, p', hg, b, h => by
    simp only [writeVTypes] at h
    split at h
    · cases h
    · rename_i b1 p1 h1
      split at h
      · cases h
      · rename_i bs p2 h2
        cases h
        obtain ⟨g1, l1, c1, d, hd, hv⟩ := writeVType_spec hlp hg h1
        obtain ⟨g2, l2, c2, ds, hds, hvs⟩ := writeVTypes_spec hlp vs g1 h2
        refine ⟨g2, l1.trans l2, by omega, d :: ds, fun r => ?_, ?_⟩
        · simp only [List.length_cons, vtypes, List.append_assoc, hd, hds]
        · simp only [denotesVs, Bool.and_eq_true]
          exact ⟨denotesV_le l2 hv, hvs⟩

theorem writeVTypes16_spec {lp : Nat → Option Nat} (hlp : LpOk lp) (vs : List VType) {p p' : Pool} (hg : Good p)
    {b : Bytes} (h : writeVTypes16 lp p vs = .ok (b, p')) :
    vs.length ≤ 65535 ∧ Good p' ∧ Le p p' ∧ p.count ≤ p'.count ∧
      ∃ ds, (∀ r, vtypes16 (b ++ r) = some (ds, r)) ∧ denotesVs lp p' vs ds = true := by
  unfold writeVTypes16 at h
  split at h
  · cases h
  · rename_i hlen
    split at h
    · cases h
    · rename_i bs p1 h1
      cases h
      obtain ⟨g, l, c, ds, hds, hv⟩ := writeVTypes_spec hlp vs hg h1
      refine ⟨by omega, g, l, c, ds, fun r => ?_, hv⟩
      simp only [vtypes16, List.append_assoc, u2_u16b _ (by omega : vs.length ≤ 65535), hds]

/-- one frame with `offset_delta = d` -/
theorem writeFrame_spec {lp : Nat → Option Nat} (hlp : LpOk lp) {p p' : Pool} (hg : Good p) {d : Nat}
    (hd : d ≤ 65535) {f : Frame} {b : Bytes} (h : writeFrame lp p d f = .ok (b, p')) :
    Good p' ∧ Le p p' ∧ p.count ≤ p'.count ∧
      ∃ df, (∀ r, frame (b ++ r) = some ((d, df), r)) ∧ denotesF lp p' f df = true := by
  cases f with
  | same =>
    simp only [writeFrame] at h
    split at h
    · rename_i h63
      cases h
      exact ⟨hg, Le.refl _, Nat.le_refl _, .same, fun r => by simp [frame, u1, h63], rfl⟩
    · rename_i h63
      cases h
      refine ⟨hg, Le.refl _, Nat.le_refl _, .same, fun r => ?_, rfl⟩
      simp [frame, u1, u2_u16b d hd r]
  | same1 v =>
    simp only [writeFrame] at h
    split at h
    · cases h
    · rename_i bv p1 h1
      cases h
      obtain ⟨g, l, c, dv, hdv, hv⟩ := writeVType_spec hlp hg h1
      refine ⟨g, l, c, .same1 dv, fun r => ?_, hv⟩
      by_cases h63 : d ≤ 63
      · have a1 : ¬ (64 + d ≤ 63) := by omega
        have a2 : 64 + d ≤ 127 := by omega
        have a3 : 64 + d - 64 = d := by omega
        simp [frame, u1, h63, a1, a2, a3, hdv]
      · simp [frame, u1, h63, u2_u16b d hd, hdv]
  | chop k =>
    simp only [writeFrame] at h
    split at h
    · rename_i hk
      cases h
      refine ⟨hg, Le.refl _, Nat.le_refl _, .chop k, fun r => ?_, by simp [denotesF]⟩
      have a1 : ¬ (251 - k ≤ 63) := by omega
      have a2 : ¬ (251 - k ≤ 127) := by omega
      have a3 : ¬ (251 - k ≤ 246) := by omega
      have a4 : ¬ (251 - k = 247) := by omega
      have a5 : 251 - k ≤ 250 := by omega
      have a6 : 251 - (251 - k) = k := by omega
      simp [frame, u1, a1, a2, a3, a4, a5, a6, u2_u16b d hd]
    · cases h
  | append ls =>
    simp only [writeFrame] at h
    split at h
    · rename_i hk
      split at h
      · cases h
      · rename_i bs p1 h1
        cases h
        obtain ⟨g, l, c, ds, hds, hv⟩ := writeVTypes_spec hlp ls hg h1
        refine ⟨g, l, c, .append ds, fun r => ?_, hv⟩
        have a1 : ¬ (251 + ls.length ≤ 63) := by omega
        have a2 : ¬ (251 + ls.length ≤ 127) := by omega
        have a3 : ¬ (251 + ls.length ≤ 246) := by omega
        have a4 : ¬ (251 + ls.length = 247) := by omega
        have a5 : ¬ (251 + ls.length ≤ 250) := by omega
        have a6 : ¬ (251 + ls.length = 251) := by omega
        have a7 : 251 + ls.length ≤ 254 := by omega
        have a8 : 251 + ls.length - 251 = ls.length := by omega
        simp only [frame, u1, List.cons_append, List.append_assoc, a1, a2, a3, a4, a5, a6, a7, a8, if_false, if_true,
          u2_u16b d hd, hds]
    · cases h
  | full ls ss =>
    simp only [writeFrame] at h
    split at h
    · cases h
    · rename_i b1 p1 h1
      split at h
      · cases h
      · rename_i b2 p2 h2
        cases h
        obtain ⟨_, g1, l1, c1, dl, hdl, hv1⟩ := writeVTypes16_spec hlp ls hg h1
        obtain ⟨_, g2, l2, c2, dss, hdss, hv2⟩ := writeVTypes16_spec hlp ss g1 h2
        refine ⟨g2, l1.trans l2, by omega, .full dl dss, fun r => ?_, ?_⟩
        · simp [frame, u1, List.append_assoc, u2_u16b d hd, hdl, hdss]
        · simp only [denotesF, Bool.and_eq_true]
          exact ⟨denotesVs_le l2 hv1, hv2⟩

theorem offsetDelta_ok {prev : Option Nat} {o : Nat} (h : match prev with | none => True | some q => q < o)
    (ho : o ≤ 65535) : ∃ d, offsetDelta prev o = .ok d ∧ d ≤ 65535 ∧ applyOffset prev d = o := by
  cases prev with
  | none => exact ⟨o, rfl, ho, rfl⟩
  | some q =>
    simp only at h
    have : ¬ o < q + 1 := by omega
    refine ⟨o - q - 1, by simp [offsetDelta, this], by omega, ?_⟩
    simp only [applyOffset]; omega

/-- the frame loop -/
theorem writeFrames_spec {lp : Nat → Option Nat} (hlp : LpOk lp) :
    ∀ (fs : List (Nat × Frame)) {p p' : Pool} (_ : Good p) (prev : Option Nat) (_ : Incr prev fs) {b : Bytes},
      writeFrames lp p prev fs = .ok (b, p') →
      Good p' ∧ Le p p' ∧ p.count ≤ p'.count ∧
        ∃ ds, (∀ r, frames fs.length prev (b ++ r) = some (ds, r)) ∧ denotesAll lp p' fs ds = true
  | [], p, p', hg, prev, _, b, h => by
    simp only [writeFrames, Except.ok.injEq, Prod.mk.injEq] at h
    obtain ⟨rfl, rfl⟩ := h
    exact ⟨hg, Le.refl _, Nat.le_refl _, [], fun r => by simp [frames], rfl⟩
  | (o, f) :: fs, p, p', hg, prev, hinc, b, h => by
    obtain ⟨hprev, ho, hrest⟩ := hinc
    obtain ⟨d, hd, hd16, happ⟩ := offsetDelta_ok hprev ho
    simp only [writeFrames, hd] at h
    split at h
    · cases h
    · rename_i b1 p1 h1
      split at h
      · cases h
      · rename_i bs p2 h2
        cases h
        obtain ⟨g1, l1, c1, df, hdf, hv⟩ := writeFrame_spec hlp hg hd16 h1
        obtain ⟨g2, l2, c2, ds, hds, hvs⟩ := writeFrames_spec hlp fs g1 (some o) hrest h2
        refine ⟨g2, l1.trans l2, by omega, (o, df) :: ds, fun r => ?_, ?_⟩
        · simp only [List.length_cons, frames, List.append_assoc, hdf, happ, hds]
        · simp only [denotesAll, Bool.and_eq_true, beq_self_eq_true, true_and]
          exact ⟨denotesF_le l2 hv, hvs⟩

/-- the attribute body -/
theorem body_spec {lp : Nat → Option Nat} (hlp : LpOk lp) (fs : List (Nat × Frame)) {p p' : Pool} (hg : Good p)
    (hinc : Incr none fs) {b : Bytes} (h : body lp p fs = .ok (b, p')) :
    fs.length ≤ 65535 ∧ Good p' ∧ Le p p' ∧ p.count ≤ p'.count ∧
      ∃ ds, table b = some ds ∧ denotesAll lp p' fs ds = true ∧
        ∃ bs, b = u16b fs.length ++ bs ∧ writeFrames lp p none fs = .ok (bs, p') := by
  unfold body at h
  split at h
  · cases h
  · rename_i hlen
    split at h
    · cases h
    · rename_i bs p1 h1
      cases h
      obtain ⟨g, l, c, ds, hds, hv⟩ := writeFrames_spec hlp fs hg none hinc h1
      refine ⟨by omega, g, l, c, ds, ?_, hv, bs, rfl, h1⟩
      have := hds []
      simp only [List.append_nil] at this
      simp only [table, u2_u16b _ (by omega : fs.length ≤ 65535), this]

theorem denotesVs_length {lp : Nat → Option Nat} {p : Pool} :
    ∀ {vs : List VType} {ds : List DType}, denotesVs lp p vs ds = true → ds.length = vs.length
  | [], [], _ => rfl
  | [], _ :: _, hd => by simp [denotesVs] at hd
  | _ :: _, [], hd => by simp [denotesVs] at hd
  | _ :: vs, _ :: ds, hd => by
    simp only [denotesVs, Bool.and_eq_true] at hd
    simp [denotesVs_length hd.2]

theorem denotesAll_length {lp : Nat → Option Nat} {p : Pool} :
    ∀ {fs : List (Nat × Frame)} {ds : List (Nat × DFrame)}, denotesAll lp p fs ds = true → ds.length = fs.length
  | [], [], _ => rfl
  | [], _ :: _, hd => by simp [denotesAll] at hd
  | _ :: _, [], hd => by simp [denotesAll] at hd
  | (_, _) :: fs, (_, _) :: ds, hd => by
    simp only [denotesAll, Bool.and_eq_true] at hd
    simp [denotesAll_length hd.2]

/-- frame `j` of the tree and decoded frame `j`: same offset, the decoded frame denotes the tree's -/
theorem denotesAll_get {lp : Nat → Option Nat} {p : Pool} :
    ∀ {fs : List (Nat × Frame)} {ds : List (Nat × DFrame)}, denotesAll lp p fs ds = true →
      ∀ (j : Nat) (o : Nat) (f : Frame), fs[j]? = some (o, f) → ∃ d, ds[j]? = some (o, d) ∧ denotesF lp p f d = true
  | [], _, _, j, o, f, hj => by simp at hj
  | _ :: _, [], hd, _, _, _, _ => by simp [denotesAll] at hd
  | (o0, f0) :: fs, (o1, d1) :: ds, hd, j, o, f, hj => by
    simp only [denotesAll, Bool.and_eq_true, beq_iff_eq] at hd
    obtain ⟨⟨rfl, h2⟩, h3⟩ := hd
    cases j with
    | zero =>
      simp only [List.getElem?_cons_zero, Option.some.injEq, Prod.mk.injEq] at hj
      obtain ⟨rfl, rfl⟩ := hj
      exact ⟨d1, by simp, h2⟩
    | succ j =>
      simp only [List.getElem?_cons_succ] at hj ⊢
      exact denotesAll_get h3 j o f hj

/-- conversely, decoded frame `j` is at the offset of the tree's frame `j` and denotes it -/
theorem denotesAll_get_rev {lp : Nat → Option Nat} {p : Pool} :
    ∀ {fs : List (Nat × Frame)} {ds : List (Nat × DFrame)}, denotesAll lp p fs ds = true →
      ∀ (j : Nat) (o : Nat) (d : DFrame), ds[j]? = some (o, d) → ∃ f, fs[j]? = some (o, f) ∧ denotesF lp p f d = true
  | _, [], _, j, o, d, hj => by simp at hj
  | [], _ :: _, hd, _, _, _, _ => by simp [denotesAll] at hd
  | (o0, f0) :: fs, (o1, d1) :: ds, hd, j, o, d, hj => by
    simp only [denotesAll, Bool.and_eq_true, beq_iff_eq] at hd
    obtain ⟨⟨rfl, h2⟩, h3⟩ := hd
    cases j with
    | zero =>
      simp only [List.getElem?_cons_zero, Option.some.injEq, Prod.mk.injEq] at hj
      obtain ⟨rfl, rfl⟩ := hj
      exact ⟨f0, by simp, h2⟩
    | succ j =>
      simp only [List.getElem?_cons_succ] at hj ⊢
      exact denotesAll_get_rev h3 j o d hj

end FrameWrite
