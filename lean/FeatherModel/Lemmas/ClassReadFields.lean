import FeatherModel.Lemmas.ClassReadFrames
import FeatherModel.Lemmas.ClassReadNames
import FeatherModel.Lemmas.ClassReadAnnoLemmas

/-! C01 lemmas: `read_field` on an encoded field. -/

namespace ClassRead
open Outcome Spec

theorem insertIfEmpty_none {α : Type} (a : α) : insertIfEmpty (none : Option α) a = ok (some a) := rfl

theorem readFieldAttr_enc (p : Pool) (a : SFieldAttr) (ha : a.Legal p) (f f' : FieldFacts) (h : a.apply f = some f') (r : Bytes) :
    readFieldAttr p f (attrFrame a.raw.1 a.raw.2 ++ r) = ok (f', r) := by
  cases a with
  | deprecated nc =>
    obtain ⟨h1, h2⟩ := ha
    simp only [SFieldAttr.apply, Option.some.injEq] at h; subst h
    simp [readFieldAttr, SFieldAttr.raw, attrFrame, u16_be16 _ h1, h2, u32_be32 0 (by decide)]
  | synthetic nc =>
    obtain ⟨h1, h2⟩ := ha
    simp only [SFieldAttr.apply, Option.some.injEq] at h; subst h
    simp [readFieldAttr, SFieldAttr.raw, attrFrame, u16_be16 _ h1, h2, u32_be32 0 (by decide), fieldNe_Synthetic]
  | constantValue nc cp v =>
    obtain ⟨h1, h2, h3, h4⟩ := ha
    obtain ⟨n1, n2⟩ := fieldNe_ConstantValue
    simp only [SFieldAttr.apply] at h
    cases hc : f.constant with
    | some _ => simp [hc] at h
    | none =>
      simp only [hc, Option.isNone_none, if_true, Option.some.injEq] at h; subst h
      simp [readFieldAttr, SFieldAttr.raw, attrFrame, u16_be16 _ h1, h2, be16_length, u32_be32 2 (by decide), n1, n2,
        u16_be16 _ h3, h4, hc, insertIfEmpty_none]
  | signature nc cp sig =>
    obtain ⟨h1, h2, h3, h4⟩ := ha
    obtain ⟨n1, n2, n3⟩ := fieldNe_Signature
    simp only [SFieldAttr.apply] at h
    cases hc : f.signature with
    | some _ => simp [hc] at h
    | none =>
      simp only [hc, Option.isNone_none, if_true, Option.some.injEq] at h; subst h
      simp [readFieldAttr, SFieldAttr.raw, attrFrame, u16_be16 _ h1, h2, be16_length, u32_be32 2 (by decide), n1, n2, n3,
        readUtf8Ref, u16_be16 _ h3, h4, hc, insertIfEmpty_none]
  | annotations nc visible as =>
    obtain ⟨h1, h2, h3, h4, h5⟩ := ha
    have hread := readAnnotations_enc p as h3 h4 r
    cases visible with
    | true =>
      obtain ⟨n1, n2, n3, n4⟩ := fieldNe_RVA
      simp only [SFieldAttr.apply, if_true, Option.some.injEq] at h; subst h
      simp only [if_true] at h2
      simp only [readFieldAttr, SFieldAttr.raw, attrFrame, List.append_assoc, u16_be16 _ h1, ok_bind, h2, u32_be32 _ h5,
        n1, n2, n3, n4, if_false, if_true, hread, pure_eq]
    | false =>
      obtain ⟨n1, n2, n3, n4, n5⟩ := fieldNe_RIA
      simp only [SFieldAttr.apply, Bool.false_eq_true, if_false, Option.some.injEq] at h; subst h
      simp only [Bool.false_eq_true, if_false] at h2
      simp only [readFieldAttr, SFieldAttr.raw, attrFrame, List.append_assoc, u16_be16 _ h1, ok_bind, h2, u32_be32 _ h5,
        n1, n2, n3, n4, n5, if_false, if_true, hread, pure_eq]
  | typeAnnotations nc visible as =>
    obtain ⟨h1, h2, h3, h4, h5⟩ := ha
    have hread : readTypeAnnos p readTargetField (encTypeAnnos as ++ r) = ok (as.map STypeAnno.fact, r) :=
      readTypeAnnos_enc p .field as h3 h4 r
    cases visible with
    | true =>
      obtain ⟨n1, n2, n3, n4, n5, n6⟩ := fieldNe_RVTA
      simp only [SFieldAttr.apply, if_true, Option.some.injEq] at h; subst h
      simp only [if_true] at h2
      simp only [readFieldAttr, SFieldAttr.raw, attrFrame, List.append_assoc, u16_be16 _ h1, ok_bind, h2, u32_be32 _ h5,
        n1, n2, n3, n4, n5, n6, if_false, if_true, hread, pure_eq]
    | false =>
      obtain ⟨n1, n2, n3, n4, n5, n6, n7⟩ := fieldNe_RITA
      simp only [SFieldAttr.apply, Bool.false_eq_true, if_false, Option.some.injEq] at h; subst h
      simp only [Bool.false_eq_true, if_false] at h2
      simp only [readFieldAttr, SFieldAttr.raw, attrFrame, List.append_assoc, u16_be16 _ h1, ok_bind, h2, u32_be32 _ h5,
        n1, n2, n3, n4, n5, n6, n7, if_false, if_true, hread, pure_eq]
  | unknown nc name b =>
    obtain ⟨h1, h2, hnot, hlen⟩ := ha
    simp only [fieldAttrNames, List.mem_cons, List.not_mem_nil, or_false, not_or] at hnot
    obtain ⟨n1, n2, n3, n4, n5, n6, n7, n8⟩ := hnot
    simp only [SFieldAttr.apply, Option.some.injEq] at h; subst h
    simp only [readFieldAttr, SFieldAttr.raw, attrFrame, List.append_assoc, u16_be16 _ h1, ok_bind, h2, u32_be32 _ hlen,
      n1, n2, n3, n4, n5, n6, n7, n8, if_false, readUnknown, takeN_append, pure_eq]

theorem fieldFrameOk (p : Pool) (a : SFieldAttr) (ha : a.Legal p) : FrameOk a.raw := by
  cases a with
  | annotations nc visible as => exact ⟨ha.1, ha.2.2.2.2⟩
  | typeAnnotations nc visible as => exact ⟨ha.1, ha.2.2.2.2⟩
  | unknown nc name b => exact ⟨ha.1, ha.2.2.2⟩
  | deprecated nc => exact ⟨ha.1, by simp [SFieldAttr.raw]⟩
  | synthetic nc => exact ⟨ha.1, by simp [SFieldAttr.raw]⟩
  | constantValue nc cp v => exact ⟨ha.1, by simp [SFieldAttr.raw, be16_length]⟩
  | signature nc cp sig => exact ⟨ha.1, by simp [SFieldAttr.raw, be16_length]⟩

theorem readField_enc (p : Pool) (f : FieldLayout) (hf : f.Legal p) (ff : FieldFacts) (hfacts : f.facts = some ff) (r : Bytes) :
    readField p (f.encode ++ r) = ok (ff, r) := by
  obtain ⟨h1, h2, h3, h4, h5, h6, h7, h8⟩ := hf
  have hn : (f.attrs.map SFieldAttr.raw).length < 65536 := by simpa using h7
  have hloop := attrLoop_enc (readFieldAttrs p) (readFieldAttr p) (fun _ _ => rfl) (fun _ _ _ => rfl) SFieldAttr.raw SFieldAttr.apply f.attrs
    (fun a ha st st' r hs => readFieldAttr_enc p a (h8 a ha) st st' hs r) _ ff hfacts r
  simp only [readField, FieldLayout.encode, encAttrs, List.append_assoc, u16_be16 _ h1, u16_be16 _ h2, ok_bind, h4, checked, h5,
    if_true, readUtf8Ref, u16_be16 _ h3, h6, pure_eq, u16_be16 _ hn]
  simpa using hloop

end ClassRead
