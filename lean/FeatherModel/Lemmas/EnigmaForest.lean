import FeatherModel.Lemmas.EnigmaTree

/-!
# C12, placement: the trees written by `figure_out_files` / `write_one_tree_starting_at` partition the classes
`Anc classes a x`: `x` is `a` or one of its ancestors *along parents that are present in the set*.
-/

namespace Enigma

inductive Anc (classes : AList JStr Class) : JStr → JStr → Prop
  | refl (a : JStr) : Anc classes a a
  | step {a p x : JStr} : parentInSet classes a = some p → Anc classes p x → Anc classes a x

theorem Anc.length_le {classes : AList JStr Class} {a x : JStr} (h : Anc classes a x) : x.length ≤ a.length := by
  induction h with
  | refl a => exact Nat.le_refl _
  | step hp _ ih => have := parentInSet_length hp; omega

theorem Anc.trans {classes : AList JStr Class} {a b c : JStr} (h1 : Anc classes a b) (h2 : Anc classes b c) :
    Anc classes a c := by
  induction h1 with
  | refl a => exact h2
  | step hp _ ih => exact Anc.step hp (ih h2)

/-- two different classes with the same (present or absent) parent have no common descendant -/
theorem anc_sibling_false {classes : AList JStr Class} {y x x' : JStr} (h1 : Anc classes y x) (h2 : Anc classes y x')
    (hne : x ≠ x') (hpar : parentInSet classes x = parentInSet classes x') : False := by
  induction h1 with
  | refl a =>
    cases h2 with
    | refl => exact hne rfl
    | step hp h =>
      rw [hpar] at hp
      have := parentInSet_length hp
      have := h.length_le
      omega
  | step hp h1' ih =>
    cases h2 with
    | refl =>
      rw [← hpar] at hp
      have := parentInSet_length hp
      have := h1'.length_le
      omega
    | step hp' h =>
      rw [hp] at hp'
      simp only [Option.some.injEq] at hp'
      subst hp'
      exact ih h hne hpar

theorem mem_postRaw {classes : AList JStr Class} : ∀ (fuel : Nat) (key : JStr) (c : Class) (y : JStr × Class),
    y ∈ postRaw classes fuel key c → (key, c) ∈ classes → y ∈ classes ∧ Anc classes y.1 key
  | 0, _, _, y, h, _ => by simp [postRaw] at h
  | fuel + 1, key, c, y, h, hin => by
    simp only [postRaw, List.mem_append, List.mem_flatMap, List.mem_singleton] at h
    rcases h with ⟨e, he, hy⟩ | rfl
    · obtain ⟨hec, hep⟩ := mem_childrenOf he
      obtain ⟨h1, h2⟩ := mem_postRaw fuel e.1 e.2 y hy hec
      exact ⟨h1, h2.trans (Anc.step hep (Anc.refl _))⟩
    · exact ⟨hin, Anc.refl _⟩

theorem nodup_flatMap_of {α β : Type} (f : α → List β) : ∀ l : List α, (∀ a ∈ l, (f a).Nodup) →
    l.Pairwise (fun a b => ∀ x ∈ f a, ∀ y ∈ f b, x ≠ y) → (l.flatMap f).Nodup
  | [], _, _ => by simp
  | a :: l, h1, h2 => by
    have hp := List.pairwise_cons.mp h2
    rw [List.flatMap_cons, List.nodup_append]
    refine ⟨h1 a List.mem_cons_self, nodup_flatMap_of f l (fun b hb => h1 b (List.mem_cons_of_mem _ hb)) hp.2, ?_⟩
    intro x hx y hy
    obtain ⟨b, hb, hyb⟩ := List.mem_flatMap.mp hy
    exact hp.1 b hb x hx y hyb

theorem childrenOf_nodup {classes : AList JStr Class} (hnd : (classes.map Prod.fst).Nodup) (key : JStr) :
    ((childrenOf classes key).map Prod.fst).Nodup := by
  unfold childrenOf
  refine ((isort_perm keyLe _).map Prod.fst).nodup_iff.mpr ?_
  exact List.Nodup.sublist (List.Sublist.map _ List.filter_sublist) hnd

/-- the keys of the classes of a list of trees are distinct when the roots are distinct siblings -/
theorem forest_nodup {classes : AList JStr Class} (fuel : Nat)
    (H : ∀ e ∈ classes, ((postRaw classes fuel e.1 e.2).map Prod.fst).Nodup) (nodes : List (JStr × Class))
    (hin : ∀ e ∈ nodes, e ∈ classes) (hnd : (nodes.map Prod.fst).Nodup)
    (hsib : ∀ a ∈ nodes, ∀ b ∈ nodes, parentInSet classes a.1 = parentInSet classes b.1) :
    ((nodes.flatMap fun e => postRaw classes fuel e.1 e.2).map Prod.fst).Nodup := by
  rw [List.map_flatMap]
  refine nodup_flatMap_of _ nodes (fun a ha => H a (hin a ha)) ?_
  have hpw : nodes.Pairwise (fun a b => a.1 ≠ b.1) := List.pairwise_map.mp hnd
  refine List.Pairwise.imp_of_mem ?_ hpw
  intro a b ha hb hab x hx y hy hxy
  obtain ⟨x', hx', rfl⟩ := List.mem_map.mp hx
  obtain ⟨y', hy', hxy'⟩ := List.mem_map.mp hy
  have h1 := (mem_postRaw fuel a.1 a.2 x' hx' (hin a ha)).2
  have h2 := (mem_postRaw fuel b.1 b.2 y' hy' (hin b hb)).2
  rw [hxy', ← hxy] at h2
  exact anc_sibling_false h1 h2 hab (hsib a ha b hb)

theorem postRaw_nodup {classes : AList JStr Class} (hnd : (classes.map Prod.fst).Nodup) :
    ∀ (fuel : Nat), ∀ e ∈ classes, ((postRaw classes fuel e.1 e.2).map Prod.fst).Nodup
  | 0, e, _ => by simp [postRaw]
  | fuel + 1, e, he => by
    simp only [postRaw, List.map_append, List.map_cons, List.map_nil]
    rw [List.nodup_append]
    refine ⟨?_, by simp, ?_⟩
    · refine forest_nodup fuel (postRaw_nodup hnd fuel) (childrenOf classes e.1) (fun x hx => (mem_childrenOf hx).1)
        (childrenOf_nodup hnd e.1) ?_
      intro a ha b hb
      rw [(mem_childrenOf ha).2, (mem_childrenOf hb).2]
    · intro x hx y hy hxy
      simp only [List.mem_singleton] at hy
      subst hy
      obtain ⟨x', hx', rfl⟩ := List.mem_map.mp hx
      obtain ⟨k, hk, hxk⟩ := List.mem_flatMap.mp hx'
      obtain ⟨hkc, hkp⟩ := mem_childrenOf hk
      have h1 := (mem_postRaw fuel k.1 k.2 x' hxk hkc).2.length_le
      have h2 := parentInSet_length hkp
      rw [hxy] at h1
      omega

/-! ## every class is reached -/

theorem le_maxKeyLen {classes : AList JStr Class} {e : JStr × Class} (h : e ∈ classes) : e.1.length ≤ maxKeyLen classes := by
  unfold maxKeyLen
  have gen : ∀ (l : AList JStr Class) (init : Nat),
      init ≤ l.foldl (fun a e => max a e.1.length) init ∧
      ∀ e ∈ l, e.1.length ≤ l.foldl (fun a e => max a e.1.length) init := by
    intro l
    induction l with
    | nil => intro init; simp
    | cons x l ih =>
      intro init
      obtain ⟨h1, h2⟩ := ih (max init x.1.length)
      simp only [List.foldl_cons]
      refine ⟨by omega, ?_⟩
      intro e he
      rcases List.mem_cons.mp he with rfl | he
      · omega
      · exact h2 e he
  exact (gen classes 0).2 e h

theorem mem_childrenOf_iff {classes : AList JStr Class} {key : JStr} {e : JStr × Class} :
    e ∈ childrenOf classes key ↔ e ∈ classes ∧ parentInSet classes e.1 = some key := by
  unfold childrenOf
  rw [mem_isort]
  simp [List.mem_filter]

theorem self_mem_postRaw (classes : AList JStr Class) (n : Nat) (e : JStr × Class) : e ∈ postRaw classes (n + 1) e.1 e.2 := by
  simp [postRaw]

/-- a child of a class in the tree of `r` is in the tree of `r`, when the fuel is enough for the longest key -/
theorem mem_postRaw_child {classes : AList JStr Class} : ∀ (n : Nat) (r p a : JStr × Class),
    p ∈ postRaw classes n r.1 r.2 → maxKeyLen classes < n + r.1.length → r ∈ classes → a ∈ classes →
    parentInSet classes a.1 = some p.1 → a ∈ postRaw classes n r.1 r.2
  | 0, _, _, _, h, _, _, _, _ => by simp [postRaw] at h
  | n + 1, r, p, a, h, hfuel, hr, ha, hpar => by
    simp only [postRaw, List.mem_append, List.mem_flatMap, List.mem_singleton] at h ⊢
    left
    rcases h with ⟨k, hk, hpk⟩ | rfl
    · have hkc := mem_childrenOf hk
      have := parentInSet_length hkc.2
      exact ⟨k, hk, mem_postRaw_child n k p a hpk (by omega) hkc.1 ha hpar⟩
    · refine ⟨a, mem_childrenOf_iff.mpr ⟨ha, hpar⟩, ?_⟩
      have h1 := parentInSet_length hpar
      have h2 := le_maxKeyLen ha
      simp only at h1
      obtain ⟨n', rfl⟩ : ∃ n', n = n' + 1 := ⟨n - 1, by omega⟩
      exact self_mem_postRaw classes n' a

def isRoot (classes : AList JStr Class) (e : JStr × Class) : Bool := (parentInSet classes e.1).isNone

def rootsOf (classes : AList JStr Class) : List (JStr × Class) := classes.filter (isRoot classes)

theorem forest_cover {classes : AList JStr Class} (hnd : (classes.map Prod.fst).Nodup) :
    ∀ (n : Nat), ∀ a ∈ classes, a.1.length ≤ n →
      ∃ r ∈ rootsOf classes, a ∈ postRaw classes (treeFuel classes) r.1 r.2
  | 0, a, ha, hn => by
    cases hp : parentInSet classes a.1 with
    | none =>
      exact ⟨a, by simp [rootsOf, isRoot, ha, hp], self_mem_postRaw classes _ a⟩
    | some p => have := parentInSet_length hp; omega
  | n + 1, a, ha, hn => by
    cases hp : parentInSet classes a.1 with
    | none =>
      exact ⟨a, by simp [rootsOf, isRoot, ha, hp], self_mem_postRaw classes _ a⟩
    | some p =>
      obtain ⟨_, _, hc⟩ := parentInSet_some hp
      obtain ⟨pe, hpe, hpk⟩ := List.mem_map.mp ((contains_eq_true_iff p classes).mp hc)
      have hlen := parentInSet_length hp
      obtain ⟨r, hr, hpr⟩ := forest_cover hnd n pe hpe (by rw [hpk]; omega)
      refine ⟨r, hr, ?_⟩
      have hrc : r ∈ classes := (List.mem_filter.mp hr).1
      exact mem_postRaw_child _ r pe a hpr (by simp [treeFuel]; omega) hrc ha (by rw [hpk]; exact hp)

/-- **every class lands in exactly one tree, exactly once**: the post-order listing of the trees of the roots (in any
order of the roots) is a permutation of the class entries -/
theorem forest_perm {classes : AList JStr Class} (hnd : (classes.map Prod.fst).Nodup) (roots : List (JStr × Class))
    (hr : roots.Perm (rootsOf classes)) :
    (roots.flatMap fun e => postRaw classes (treeFuel classes) e.1 e.2).Perm classes := by
  have hrin : ∀ e ∈ roots, e ∈ classes := fun e he => (List.mem_filter.mp (hr.subset he)).1
  have hrroot : ∀ e ∈ roots, parentInSet classes e.1 = none := by
    intro e he
    have := (List.mem_filter.mp (hr.subset he)).2
    simpa [isRoot] using this
  have hrnd : (roots.map Prod.fst).Nodup := by
    refine ((hr.map Prod.fst).nodup_iff).mpr ?_
    exact List.Nodup.sublist (List.Sublist.map _ List.filter_sublist) hnd
  have hn1 := forest_nodup (treeFuel classes) (postRaw_nodup hnd _) roots hrin hrnd
    (by intro a ha b hb; rw [hrroot a ha, hrroot b hb])
  rw [List.perm_ext_iff_of_nodup (nodup_of_map Prod.fst hn1) (nodup_of_map Prod.fst hnd)]
  intro a
  constructor
  · intro ha
    obtain ⟨r, hr', har⟩ := List.mem_flatMap.mp ha
    exact (mem_postRaw _ r.1 r.2 a har (hrin r hr')).1
  · intro ha
    obtain ⟨r, hr', har⟩ := forest_cover hnd a.1.length a ha (Nat.le_refl _)
    exact List.mem_flatMap.mpr ⟨r, hr.symm.subset hr', har⟩

end Enigma
