import FeatherModel.Lemmas.EnigmaMembers

/-!
# C12, layer 5: the reader on the pre-order text of a class tree (induction on the nesting)
-/

namespace Enigma

/-! ## the domain predicate of a class, unpacked -/

theorem parentInSet_some {classes : AList JStr Class} {key p : JStr} (h : parentInSet classes key = some p) :
    ∃ i, InnerNames.split key = some (p, i) ∧ AList.contains p classes = true := by
  unfold parentInSet at h
  cases hs : InnerNames.split key with
  | none => rw [hs] at h; simp at h
  | some pi =>
    obtain ⟨p', i⟩ := pi
    rw [hs] at h
    simp only at h
    split at h
    · rename_i hc
      simp only [Option.some.injEq] at h
      subst h
      exact ⟨i, rfl, hc⟩
    · simp at h

theorem parentInSet_length {classes : AList JStr Class} {key p : JStr} (h : parentInSet classes key = some p) :
    p.length < key.length := by
  obtain ⟨i, hs, _⟩ := parentInSet_some h
  exact InnerNames.split_length hs

theorem classOk_spec {classes : AList JStr Class} {e : JStr × Class} (h : classOk classes e = true) :
    ∃ dst, e.2.names = [some e.1, dst] ∧ docOk e.2.doc = true ∧ tokOk e.1 = true ∧ validObjClass e.1 = true ∧
      classDstOk classes e.1 dst = true ∧ (∀ f ∈ e.2.fields, fieldOk f = true) ∧ (e.2.fields.map Prod.fst).Nodup ∧
      (∀ m ∈ e.2.methods, methodOk m = true) ∧ (e.2.methods.map Prod.fst).Nodup := by
  simp only [classOk, Bool.and_eq_true] at h
  obtain ⟨⟨⟨⟨⟨h1, h2⟩, h3⟩, h4⟩, h5⟩, h6⟩ := h
  split at h2
  · rename_i n dst hn
    simp only [Bool.and_eq_true, beq_iff_eq] at h2
    obtain ⟨⟨⟨h7, h8⟩, h9⟩, h10⟩ := h2
    refine ⟨dst, by rw [hn, h7], h1, by rw [h7]; exact h8, by rw [h7]; exact h9, h10, List.all_eq_true.mp h3,
      (nodupB_iff _).mp h4, List.all_eq_true.mp h5, (nodupB_iff _).mp h6⟩
  · exact absurd h2 (by simp)

theorem classDstOk_spec {classes : AList JStr Class} {key d : JStr} (h : classDstOk classes key (some d) = true) :
    tokOk d = true ∧ validObjClass d = true ∧
      (parentInSet classes key = none → isModifier d = false) ∧
      (∀ p, parentInSet classes key = some p → ∃ pc di, AList.lookup p classes = some pc ∧
        InnerNames.split d = some (fileNameOf p pc, di) ∧ isModifier di = false) := by
  simp only [classDstOk, Bool.and_eq_true] at h
  obtain ⟨⟨h1, h2⟩, h3⟩ := h
  refine ⟨h1, h2, ?_, ?_⟩
  · intro hp
    rw [hp] at h3
    simpa using h3
  · intro p hp
    rw [hp] at h3
    simp only at h3
    split at h3
    · rename_i pc dp di hl hsp
      simp only [Bool.and_eq_true, beq_iff_eq, Bool.not_eq_true'] at h3
      exact ⟨pc, di, hl, by rw [hsp, h3.1], h3.2⟩
    · exact absurd h3 (by simp)

/-! ## the `CLASS` line -/

/-- `parent` of `parse_class` for the innermost open class -/
def ctxOf : List Frame → Option (JStr × JStr)
  | [] => none
  | fr :: _ => some (fr.key, fr.pdst)

theorem handle_class (cs : AList JStr Class) (st : List Frame) (l : ELine) (h : l.first = kwCLASS) :
    handle ⟨cs, st, .idle⟩ l = (openClass (ctxOf st) l).map fun fr => ⟨cs, fr :: st, .idle⟩ := by
  cases st with
  | nil =>
    simp only [handle, h, if_true, ctxOf]
    cases openClass none l <;> rfl
  | cons fr rest =>
    simp only [handle, h, if_true, ctxOf]
    cases openClass (some (fr.key, fr.pdst)) l <;> rfl

/-- the class `key` is written in the right place below the open classes `st` -/
def Link (classes : AList JStr Class) : List Frame → JStr → Prop
  | [], key => parentInSet classes key = none
  | fr :: _, key => parentInSet classes key = some fr.key ∧
      ∃ pc, AList.lookup fr.key classes = some pc ∧ fr.pdst = fileNameOf fr.key pc

theorem classArgs_ok (src : JStr) (dst : Option JStr) (h : ∀ d, dst = some d → isModifier d = false) :
    classArgs (src :: dst.toList) = some (src, dst) := by
  cases dst with
  | none => rfl
  | some d => simp [classArgs, h d rfl]

theorem fileNameOf_eq {key : JStr} {c : Class} {dst : Option JStr} (hn : c.names = [some key, dst]) :
    fileNameOf key c = dst.getD key := by
  simp [fileNameOf, hn, dstOf]

theorem openClass_root (n : Nat) (key : JStr) (dst : Option JStr) (hv : validObjClass key = true)
    (hvd : optAll validObjClass dst = true) (hmod : ∀ d, dst = some d → isModifier d = false) :
    openClass none ⟨n, kwCLASS, key :: dst.toList⟩ =
      some ⟨key, dst.getD key, { names := [some key, dst], doc := none, fields := [], methods := [] }⟩ := by
  unfold openClass
  simp only [classArgs_ok key dst hmod, hv, hvd, Bool.and_self, if_true]

theorem openClass_nested (n : Nat) (pk ppd inner : JStr) (di : Option JStr)
    (hv : validObjClass (pk ++ DOLLAR :: inner) = true)
    (hvd : optAll validObjClass (di.map fun d => ppd ++ DOLLAR :: d) = true)
    (hmod : ∀ d, di = some d → isModifier d = false) :
    openClass (some (pk, ppd)) ⟨n, kwCLASS, inner :: di.toList⟩ =
      some ⟨pk ++ DOLLAR :: inner, (di.map fun d => ppd ++ DOLLAR :: d).getD (pk ++ DOLLAR :: inner),
        { names := [some (pk ++ DOLLAR :: inner), di.map fun d => ppd ++ DOLLAR :: d], doc := none, fields := [],
          methods := [] }⟩ := by
  unfold openClass
  simp only [classArgs_ok inner di hmod, hv, hvd, Bool.and_self, if_true]

/-- prefix stripping on write, prefix re-attachment on read: the reader rebuilds the full names -/
theorem openClass_link (classes : AList JStr Class) (st : List Frame) (key : JStr) (c : Class)
    (hok : classOk classes (key, c) = true) (hl : Link classes st key) :
    openClass (ctxOf st) ⟨st.length, kwCLASS,
        shortName (st.length != 0) key :: ((dstOf c.names).map (shortName (st.length != 0))).toList⟩ =
      some ⟨key, fileNameOf key c, { names := c.names, doc := none, fields := [], methods := [] }⟩ := by
  obtain ⟨dst, hn, _, _, hv, hdo, _⟩ := classOk_spec hok
  simp only at hn hv hdo
  have hd : dstOf c.names = dst := by rw [hn, dstOf_pair]
  rw [fileNameOf_eq hn, hd, hn]
  cases st with
  | nil =>
    simp only [Link] at hl
    have hmod : ∀ d, dst = some d → isModifier d = false := by
      intro d hdd; subst hdd
      exact (classDstOk_spec hdo).2.2.1 hl
    have hvd : optAll validObjClass dst = true := by
      cases dst with
      | none => rfl
      | some d => exact (classDstOk_spec hdo).2.1
    have e1 : shortName (([] : List Frame).length != 0) = id := by
      funext x; simp [shortName]
    rw [e1, Option.map_id, ctxOf]
    exact openClass_root _ key dst hv hvd hmod
  | cons fr rest =>
    obtain ⟨hp, pc, hpc, hpd⟩ := hl
    obtain ⟨inner, hsk, _⟩ := parentInSet_some hp
    have hkey : key = fr.key ++ DOLLAR :: inner := (InnerNames.split_some hsk).1
    have e1 : ((fr :: rest).length != 0) = true := by simp
    have e2 : shortName true key = inner := by simp [shortName, hsk]
    rw [e1, e2, ctxOf]
    cases dst with
    | none =>
      have := openClass_nested (fr :: rest).length fr.key fr.pdst inner none (by rw [← hkey]; exact hv) rfl
        (by intro d hd; simp at hd)
      simp only [Option.map_none, Option.toList_none, Option.getD_none, ← hkey] at this ⊢
      exact this
    | some d =>
      obtain ⟨_, hvd, _, hnest⟩ := classDstOk_spec hdo
      obtain ⟨pc', di, hpc', hsd, hmod⟩ := hnest fr.key hp
      have : pc' = pc := by rw [hpc] at hpc'; simpa using hpc'.symm
      subst this
      have hdeq : d = fr.pdst ++ DOLLAR :: di := by rw [hpd]; exact (InnerNames.split_some hsd).1
      have e3 : shortName true d = di := by simp [shortName, hsd]
      have := openClass_nested (fr :: rest).length fr.key fr.pdst inner (some di) (by rw [← hkey]; exact hv)
        (by simp only [Option.map_some, optAll]; rw [← hdeq]; exact hvd)
        (by intro x hx; simp only [Option.some.injEq] at hx; subst hx; exact hmod)
      simp only [Option.map_some, Option.toList_some, Option.getD_some, ← hkey, ← hdeq, e3] at this ⊢
      exact this

/-! ## trees -/

def canonE (e : JStr × Class) : JStr × Class := (e.1, canonClass e.2)

/-- the `EnigmaLine`s of `write_one_tree_starting_at` -/
def treeEL (classes : AList JStr Class) : Nat → JStr → Class → Nat → List ELine
  | 0, _, _, _ => []
  | fuel + 1, key, c, d =>
    classEL key c d ++ (childrenOf classes key).flatMap fun e => treeEL classes fuel e.1 e.2 (d + 1)

/-- the classes of a tree in the order in which the reader adds them: children first (post-order) -/
def postRaw (classes : AList JStr Class) : Nat → JStr → Class → List (JStr × Class)
  | 0, _, _ => []
  | fuel + 1, key, c => ((childrenOf classes key).flatMap fun e => postRaw classes fuel e.1 e.2) ++ [(key, c)]

/-- reading the text of one tree, below the open classes `st`, adds the classes of the tree in post-order -/
def TreeRun (classes : AList JStr Class) (fuel : Nat) : Prop :=
  ∀ key c, (key, c) ∈ classes → ∀ (cs : AList JStr Class) (st : List Frame) (s : St),
    Link classes st key → Settle st.length s ⟨cs, st, .idle⟩ →
    (cs.map Prod.fst ++ (postRaw classes fuel key c).map Prod.fst).Nodup →
    ∃ s', run (treeEL classes fuel key c st.length) s = some s' ∧
      Settle st.length s' ⟨cs ++ (postRaw classes fuel key c).map canonE, st, .idle⟩

theorem run_forest (classes : AList JStr Class) (fuel : Nat) (H : TreeRun classes fuel) (st : List Frame) :
    ∀ (nodes : List (JStr × Class)), (∀ e ∈ nodes, e ∈ classes ∧ Link classes st e.1) →
    ∀ (cs : AList JStr Class) (s : St), Settle st.length s ⟨cs, st, .idle⟩ →
    (cs.map Prod.fst ++ (nodes.flatMap fun e => postRaw classes fuel e.1 e.2).map Prod.fst).Nodup →
    ∃ s', run (nodes.flatMap fun e => treeEL classes fuel e.1 e.2 st.length) s = some s' ∧
      Settle st.length s' ⟨cs ++ (nodes.flatMap fun e => postRaw classes fuel e.1 e.2).map canonE, st, .idle⟩
  | [], _, cs, s, hs, _ => ⟨s, rfl, by simpa using hs⟩
  | e :: nodes, hn, cs, s, hs, hnd => by
    obtain ⟨hin, hl⟩ := hn e List.mem_cons_self
    simp only [List.flatMap_cons, List.map_append] at hnd
    rw [← List.append_assoc] at hnd
    obtain ⟨s1, hr1, hs1⟩ := H e.1 e.2 hin cs st s hl hs (List.nodup_append.mp hnd).1
    have hnd2 : ((cs ++ (postRaw classes fuel e.1 e.2).map canonE).map Prod.fst ++
        (nodes.flatMap fun e => postRaw classes fuel e.1 e.2).map Prod.fst).Nodup := by
      have : ((postRaw classes fuel e.1 e.2).map canonE).map Prod.fst = (postRaw classes fuel e.1 e.2).map Prod.fst := by
        simp [canonE, Function.comp_def]
      rw [List.map_append, this]
      exact hnd
    obtain ⟨s2, hr2, hs2⟩ := run_forest classes fuel H st nodes (fun x hx => hn x (List.mem_cons_of_mem _ hx)) _ s1 hs1 hnd2
    refine ⟨s2, ?_, ?_⟩
    · simp only [List.flatMap_cons]
      rw [run_append, hr1, Option.bind_some, hr2]
    · simpa [List.flatMap_cons, List.map_append, List.append_assoc] using hs2

theorem canonE_fst (l : List (JStr × Class)) : (l.map canonE).map Prod.fst = l.map Prod.fst := by
  simp [canonE, Function.comp_def]

theorem mem_childrenOf {classes : AList JStr Class} {key : JStr} {e : JStr × Class} (h : e ∈ childrenOf classes key) :
    e ∈ classes ∧ parentInSet classes e.1 = some key := by
  have := mem_isort.mp h
  simp only [List.mem_filter, beq_iff_eq] at this
  exact this

/-- **the class-tree print/parse round trip**, by induction on the nesting depth -/
theorem treeRun (classes : AList JStr Class) (hok : ∀ e ∈ classes, classOk classes e = true)
    (hnd : (classes.map Prod.fst).Nodup) : ∀ fuel, TreeRun classes fuel
  | 0 => by
    intro key c _ cs st s _ hs _
    exact ⟨s, rfl, by simpa [postRaw] using hs⟩
  | fuel + 1 => by
    intro key c hin cs st s hl hs hnd'
    have hcok := hok (key, c) hin
    obtain ⟨dst, hn, hdoc, _, _, _, hfs, hfnd, hms, hmnd⟩ := classOk_spec hcok
    simp only at hn hdoc hfs hfnd hms hmnd
    -- the `CLASS` line
    have h1 := step_of_settle hs (l := ⟨st.length, kwCLASS,
      shortName (st.length != 0) key :: ((dstOf c.names).map (shortName (st.length != 0))).toList⟩) rfl
    rw [handle_class _ _ _ rfl, openClass_link classes st key c hcok hl, Option.map_some] at h1
    -- the javadoc of the class
    let mk : Option JStr → St := fun doc =>
      ⟨cs, ⟨key, fileNameOf key c, { names := c.names, doc := doc, fields := [], methods := [] }⟩ :: st, .idle⟩
    have h2 := run_commentEL mk (st.length + 1) (fun _ => by simp [mk, St.depth, Mem.depth])
      (by intro doc l hl; simp [mk, handle, hl, kwCOMMENT, kwCLASS, kwFIELD, kwMETHOD]) c.doc hdoc
    -- fields
    obtain ⟨s2, hr2, hs2⟩ := run_fields cs st (isort fieldLe c.fields)
      ⟨key, fileNameOf key c, { names := c.names, doc := c.doc, fields := [], methods := [] }⟩ (mk c.doc)
      (mem_isort_all hfs)
      (by simpa using ((isort_perm fieldLe c.fields).map Prod.fst).nodup_iff.mpr hfnd)
      (Settle.of_depth (by simp [mk, St.depth, Mem.depth]))
    simp only [List.nil_append] at hs2
    -- methods
    obtain ⟨s3, hr3, hs3⟩ := run_methods cs st (isort methodLe c.methods)
      ⟨key, fileNameOf key c, { names := c.names, doc := c.doc, fields := isort fieldLe c.fields, methods := [] }⟩ s2
      (mem_isort_all hms)
      (by simpa using ((isort_perm methodLe c.methods).map Prod.fst).nodup_iff.mpr hmnd)
      hs2
    simp only [List.nil_append] at hs3
    have hcanon : (⟨c.names, c.doc, isort fieldLe c.fields,
        (isort methodLe c.methods).map (fun e => (e.1, canonMethod e.2))⟩ : Class) = canonClass c := rfl
    rw [hcanon] at hs3
    -- nested classes
    simp only [postRaw, List.map_append, List.map_cons, List.map_nil] at hnd'
    rw [← List.append_assoc] at hnd'
    have hnd3 := List.nodup_append.mp hnd'
    obtain ⟨s4, hr4, hs4⟩ := run_forest classes fuel (treeRun classes hok hnd fuel)
      (⟨key, fileNameOf key c, canonClass c⟩ :: st) (childrenOf classes key)
      (by
        intro e he
        obtain ⟨hec, hep⟩ := mem_childrenOf he
        exact ⟨hec, hep, c, lookup_of_mem hnd hin, rfl⟩)
      cs s3 hs3 hnd3.1
    -- the `CLASS` loop of this class ends
    have hfresh : AList.contains key (cs ++ ((childrenOf classes key).flatMap fun e => postRaw classes fuel e.1 e.2).map canonE) = false := by
      rw [contains_eq_false_iff, List.map_append, canonE_fst]
      intro hm
      exact hnd3.2.2 _ hm _ List.mem_cons_self rfl
    have h5 := Settle.trans (Nat.le_succ _) hs4 (settle_class _ ⟨key, fileNameOf key c, canonClass c⟩ st hfresh)
    refine ⟨s4, ?_, ?_⟩
    · simp only [treeEL, classEL, List.cons_append, List.append_assoc]
      rw [run_cons, h1, Option.bind_some, run_append]
      show (run (commentEL (st.length + 1) c.doc) (mk none)).bind _ = _
      rw [h2, Option.bind_some, run_append, hr2, Option.bind_some, run_append, hr3, Option.bind_some]
      exact hr4
    · simpa [postRaw, List.map_append, canonE, List.append_assoc] using h5

end Enigma
