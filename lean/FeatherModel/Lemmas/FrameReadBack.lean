import FeatherModel.Lemmas.ClassReadFramesSM
import FeatherModel.Lemmas.FramePositions

/-!
# The written `StackMapTable`, read by C01's *reader model* (`ClassRead.readFrames`)

Two steps:

1. what the writer model emits for frames attached to instructions is, byte for byte, the encoding C01's specification
   (`ClassRead.Spec.encFrames`, written from JVMS §4.7.4 for the reader proof) assigns to the layout `sFrames` — the
   frames with the instruction index they describe, the compact / extended choice `offset_delta ≤ 63`, the pool index
   of every `Object` type;
2. that layout is legal (`framesLegal`), so C01's lemma `readFrames_ok` applies: the reader model reads the frames
   back, each attached to the label of the offset of its instruction, `Uninitialized` types carrying the label of the
   offset of their `new` instruction.
-/

namespace FrameReadBack
open FrameWrite FrameDenote FramePool
open CodeWrite (Fail u16b)
open PoolWrite (Pool)
open ClassRead (be16)
open ClassRead.Spec (SVType SFrameKind SFrame encFrames frameDelta framesLegal)

/-- the writer's label table as a total function (labels without offset are never looked at) -/
def posOf (lp : Nat → Option Nat) (t : Nat) : Nat := (lp t).getD 0

theorem u16b_be16 (n : Nat) : u16b n = be16 n := rfl

/-! ## the layout the writer realises -/

def sVType (lp : Nat → Option Nat) (p : Pool) : VType → Option (SVType × Pool)
  | .top => some (.top, p)
  | .int => some (.int, p)
  | .float => some (.float, p)
  | .double => some (.double, p)
  | .long => some (.long, p)
  | .null => some (.null, p)
  | .uninitThis => some (.uninitThis, p)
  | .object c =>
    match PoolWrite.putClass p c with
    | none => none
    | some (i, p') => some (.object i c, p')
  | .uninit l =>
    match lp l with
    | none => none
    | some _ => some (.uninit l, p)

def sVTypes (lp : Nat → Option Nat) : Pool → List VType → Option (List SVType × Pool)
  | p, [] => some ([], p)
  | p, v :: vs =>
    match sVType lp p v with
    | none => none
    | some (s, p1) =>
      match sVTypes lp p1 vs with
      | none => none
      | some (ss, p2) => some (s :: ss, p2)

def sKind (lp : Nat → Option Nat) (p : Pool) : Frame → Option (SFrameKind × Pool)
  | .same => some (.same, p)
  | .same1 v =>
    match sVType lp p v with
    | none => none
    | some (s, p1) => some (.same1 s, p1)
  | .chop k => some (.chop k, p)
  | .append ls =>
    match sVTypes lp p ls with
    | none => none
    | some (ss, p1) => some (.append ss, p1)
  | .full ls st =>
    match sVTypes lp p ls with
    | none => none
    | some (sl, p1) =>
      match sVTypes lp p1 st with
      | none => none
      | some (ss, p2) => some (.full sl ss, p2)

/-- frames `(instruction index, frame)`; `prev` = index of the instruction of the previous frame -/
def sFrames (lp : Nat → Option Nat) : Pool → Option Nat → List (Nat × Frame) → Option (List SFrame × Pool)
  | p, _, [] => some ([], p)
  | p, prev, (k, f) :: rest =>
    match sKind lp p f with
    | none => none
    | some (sk, p1) =>
      match sFrames lp p1 (some k) rest with
      | none => none
      | some (sfs, p2) =>
        some (⟨k, !decide (frameDelta (prev.map (posOf lp)) (posOf lp k) ≤ 63), sk⟩ :: sfs, p2)

/-- the writer's input for frames attached to instruction indices: `(opcode_pos, frame)` -/
def atPositions (lp : Nat → Option Nat) (ifs : List (Nat × Frame)) : List (Nat × Frame) :=
  ifs.map (fun x => (posOf lp x.1, x.2))

/-! ## step 1: the bytes are the specification's encoding of that layout -/

theorem writeVType_enc {lp : Nat → Option Nat} {p p' : Pool} {v : VType} {b : Bytes}
    (h : writeVType lp p v = .ok (b, p')) :
    ∃ s, sVType lp p v = some (s, p') ∧ b = s.encode (posOf lp) := by
  cases v with
  | object c =>
    simp only [writeVType] at h
    split at h
    · cases h
    · rename_i i p1 hp
      cases h
      exact ⟨.object i c, by simp [sVType, hp], rfl⟩
  | uninit l =>
    simp only [writeVType] at h
    split at h
    · cases h
    · rename_i o ho
      cases h
      exact ⟨.uninit l, by simp [sVType, ho], by simp [SVType.encode, posOf, ho, u16b_be16]⟩
  | top => cases h; exact ⟨.top, rfl, rfl⟩
  | int => cases h; exact ⟨.int, rfl, rfl⟩
  | float => cases h; exact ⟨.float, rfl, rfl⟩
  | double => cases h; exact ⟨.double, rfl, rfl⟩
  | long => cases h; exact ⟨.long, rfl, rfl⟩
  | null => cases h; exact ⟨.null, rfl, rfl⟩
  | uninitThis => cases h; exact ⟨.uninitThis, rfl, rfl⟩

theorem writeVTypes_enc {lp : Nat → Option Nat} : ∀ (vs : List VType) {p p' : Pool} {b : Bytes},
    writeVTypes lp p vs = .ok (b, p') →
    ∃ ss, sVTypes lp p vs = some (ss, p') ∧ b = ss.flatMap (SVType.encode (posOf lp)) ∧ ss.length = vs.length
  | [], p, p', b, h => by
    simp only [writeVTypes, Except.ok.injEq, Prod.mk.injEq] at h
    obtain ⟨rfl, rfl⟩ := h
    exact ⟨[], rfl, rfl, rfl⟩
  | v :: vs, p, p', b, h => by
    simp only [writeVTypes] at h
    split at h
    · cases h
    · rename_i b1 p1 h1
      split at h
      · cases h
      · rename_i bs p2 h2
        cases h
        obtain ⟨s, hs, hb⟩ := writeVType_enc h1
        obtain ⟨ss, hss, hbs, hl⟩ := writeVTypes_enc vs h2
        exact ⟨s :: ss, by simp [sVTypes, hs, hss], by simp [List.flatMap_cons, hb, hbs], by simp [hl]⟩

theorem writeFrame_enc {lp : Nat → Option Nat} {p p' : Pool} {d : Nat} {f : Frame} {b : Bytes}
    (h : writeFrame lp p d f = .ok (b, p')) (k : Nat) (prev : Option Nat)
    (hd : frameDelta prev (posOf lp k) = d) :
    ∃ sk, sKind lp p f = some (sk, p') ∧
      b = (SFrame.mk k (!decide (d ≤ 63)) sk).encode (posOf lp) prev := by
  cases f with
  | same =>
    simp only [writeFrame] at h
    split at h
    · rename_i h63; cases h
      exact ⟨.same, rfl, by simp [SFrame.encode, hd, h63]⟩
    · rename_i h63; cases h
      exact ⟨.same, rfl, by simp [SFrame.encode, hd, h63, u16b_be16]⟩
  | same1 v =>
    simp only [writeFrame] at h
    split at h
    · cases h
    · rename_i bv p1 h1
      cases h
      obtain ⟨s, hs, hb⟩ := writeVType_enc h1
      refine ⟨.same1 s, by simp [sKind, hs], ?_⟩
      by_cases h63 : d ≤ 63
      · simp [SFrame.encode, hd, h63, hb]
      · simp [SFrame.encode, hd, h63, hb, u16b_be16]
  | chop c =>
    simp only [writeFrame] at h
    split at h
    · cases h
      exact ⟨.chop c, rfl, by simp [SFrame.encode, hd, u16b_be16]⟩
    · cases h
  | append ls =>
    simp only [writeFrame] at h
    split at h
    · split at h
      · cases h
      · rename_i bs p1 h1
        cases h
        obtain ⟨ss, hss, hbs, hl⟩ := writeVTypes_enc ls h1
        exact ⟨.append ss, by simp [sKind, hss], by simp [SFrame.encode, hd, hbs, hl, u16b_be16]⟩
    · cases h
  | full ls st =>
    simp only [writeFrame, writeVTypes16] at h
    split at h
    · cases h
    · rename_i b1 p1 h1
      split at h1
      · cases h1
      · split at h1
        · cases h1
        · rename_i bs1 q1 hw1
          cases h1
          split at h
          · cases h
          · rename_i b2 p2 h2
            split at h2
            · cases h2
            · split at h2
              · cases h2
              · rename_i bs2 q2 hw2
                cases h2
                cases h
                obtain ⟨sl, hsl, hb1, hl1⟩ := writeVTypes_enc ls hw1
                obtain ⟨ss, hss, hb2, hl2⟩ := writeVTypes_enc st hw2
                exact ⟨.full sl ss, by simp [sKind, hsl, hss],
                  by simp [SFrame.encode, hd, hb1, hb2, hl1, hl2, u16b_be16, List.append_assoc]⟩

/-- instruction indices increase strictly and their positions are increasing `u16`s -/
def IdxIncr (lp : Nat → Option Nat) : Option Nat → List (Nat × Frame) → Prop
  | _, [] => True
  | prev, (k, _) :: rest =>
    (match prev with | none => True | some q => q < k ∧ posOf lp q < posOf lp k) ∧ posOf lp k ≤ 65535 ∧
      IdxIncr lp (some k) rest

theorem idxIncr_incr {lp : Nat → Option Nat} : ∀ (ifs : List (Nat × Frame)) (prev : Option Nat),
    IdxIncr lp prev ifs → Incr (prev.map (posOf lp)) (atPositions lp ifs)
  | [], _, _ => trivial
  | (k, f) :: rest, prev, ⟨a, b, c⟩ => by
    simp only [atPositions, List.map_cons, Incr]
    refine ⟨?_, b, idxIncr_incr rest (some k) c⟩
    cases prev with
    | none => trivial
    | some q => exact a.2

/-- **the written bytes are the JVMS encoding of the layout** -/
theorem writeFrames_enc {lp : Nat → Option Nat} : ∀ (ifs : List (Nat × Frame)) {p p' : Pool} (prev : Option Nat)
    (_ : IdxIncr lp prev ifs) {b : Bytes},
    writeFrames lp p (prev.map (posOf lp)) (atPositions lp ifs) = .ok (b, p') →
    ∃ sfs, sFrames lp p prev ifs = some (sfs, p') ∧ b = encFrames (posOf lp) (prev.map (posOf lp)) sfs ∧
      sfs.length = ifs.length
  | [], p, p', prev, _, b, h => by
    simp only [atPositions, List.map_nil, writeFrames, Except.ok.injEq, Prod.mk.injEq] at h
    obtain ⟨rfl, rfl⟩ := h
    exact ⟨[], rfl, rfl, rfl⟩
  | (k, f) :: rest, p, p', prev, ⟨hprev, ho, hrest⟩, b, h => by
    have hdelta : offsetDelta (prev.map (posOf lp)) (posOf lp k) = .ok (frameDelta (prev.map (posOf lp)) (posOf lp k)) := by
      cases prev with
      | none => rfl
      | some q =>
        have : ¬ posOf lp k < posOf lp q + 1 := by have := hprev.2; omega
        simp [offsetDelta, frameDelta, this]
    simp only [atPositions, List.map_cons, writeFrames, hdelta] at h
    split at h
    · cases h
    · rename_i b1 p1 h1
      split at h
      · cases h
      · rename_i bs p2 h2
        cases h
        obtain ⟨sk, hsk, hb1⟩ := writeFrame_enc h1 k (prev.map (posOf lp)) rfl
        obtain ⟨sfs, hsfs, hbs, hl⟩ := writeFrames_enc rest (some k) hrest h2
        refine ⟨⟨k, !decide (frameDelta (prev.map (posOf lp)) (posOf lp k) ≤ 63), sk⟩ :: sfs,
          by simp only [sFrames, hsk, hsfs], ?_, by simp [hl]⟩
        simp only [encFrames, hb1, hbs, Option.map_some]

/-! ## step 2: the layout is legal for the reader -/

/-- the reader's pool resolves a class index wherever the writer's pool holds that class (what reading the written
pool gives; class names valid) -/
def PoolAgrees (p : Pool) (rp : ClassRead.Pool) : Prop :=
  ∀ c i, clsAt p c i = true → rp.getClass i = .ok c

/-- the labels of `Uninitialized` types are instructions (`new` instructions in a valid class), not the end of the code -/
def uninitBelow (n : Nat) : List VType → Prop
  | [] => True
  | .uninit l :: vs => l < n ∧ uninitBelow n vs
  | _ :: vs => uninitBelow n vs

def frameUninitBelow (n : Nat) : Frame → Prop
  | .same1 v => uninitBelow n [v]
  | .append ls => uninitBelow n ls
  | .full ls st => uninitBelow n ls ∧ uninitBelow n st
  | _ => True

theorem sVTypes_legal {lp : Nat → Option Nat} {rp : ClassRead.Pool} {n : Nat} :
    ∀ (vs : List VType) {p p' : Pool} {ss : List SVType}, Good p → sVTypes lp p vs = some (ss, p') → uninitBelow n vs →
      Good p' ∧ Le p p' ∧ ∀ q : Pool, Le p' q → PoolAgrees q rp → ∀ s ∈ ss, s.Legal rp n
  | [], p, p', ss, hg, h, _ => by
    simp only [sVTypes, Option.some.injEq, Prod.mk.injEq] at h
    obtain ⟨rfl, rfl⟩ := h
    exact ⟨hg, Le.refl _, fun _ _ _ s hs => by cases hs⟩
  | v :: vs, p, p', ss, hg, h, hu => by
    simp only [sVTypes] at h
    split at h
    · cases h
    · rename_i s p1 h1
      split at h
      · cases h
      · rename_i ss' p2 h2
        cases h
        -- the head
        have hhead : Good p1 ∧ Le p p1 ∧ uninitBelow n vs ∧ ∀ q : Pool, Le p1 q → PoolAgrees q rp → s.Legal rp n := by
          cases v with
          | object c =>
            simp only [sVType] at h1
            split at h1
            · cases h1
            · rename_i i p1' hp
              cases h1
              obtain ⟨g, l, hc, hi, _⟩ := putClass_good hg hp
              exact ⟨g, l, hu, fun q hq ha => ⟨by omega, ha c i (clsAt_le hq hc)⟩⟩
          | uninit l =>
            simp only [sVType] at h1
            split at h1
            · cases h1
            · cases h1
              exact ⟨hg, Le.refl _, hu.2, fun _ _ _ => hu.1⟩
          | top | int | float | double | long | null | uninitThis =>
            cases h1
            exact ⟨hg, Le.refl _, hu, fun _ _ _ => trivial⟩
        obtain ⟨g1, l1, hu', hleg⟩ := hhead
        obtain ⟨g2, l2, hrest⟩ := sVTypes_legal vs g1 h2 hu'
        refine ⟨g2, l1.trans l2, fun q hq ha s' hs' => ?_⟩
        rcases List.mem_cons.mp hs' with rfl | hm
        · exact hleg q (l2.trans hq) ha
        · exact hrest q hq ha s' hm

theorem sVTypes_length {lp : Nat → Option Nat} : ∀ (vs : List VType) {p p' : Pool} {ss : List SVType},
    sVTypes lp p vs = some (ss, p') → ss.length = vs.length
  | [], _, _, _, h => by simp only [sVTypes, Option.some.injEq, Prod.mk.injEq] at h; obtain ⟨rfl, _⟩ := h; rfl
  | v :: vs, p, p', ss, h => by
    simp only [sVTypes] at h
    split at h
    · cases h
    · split at h
      · cases h
      · rename_i _ _ _ ss' p2 h2
        cases h
        simp [sVTypes_length vs h2]

theorem sKind_legal {lp : Nat → Option Nat} {rp : ClassRead.Pool} {n : Nat} {f : Frame} {p p' : Pool} {sk : SFrameKind}
    (hg : Good p) (h : sKind lp p f = some (sk, p')) (hok : frameOk lp f = true) (hu : frameUninitBelow n f) :
    Good p' ∧ Le p p' ∧ ∀ q : Pool, Le p' q → PoolAgrees q rp → sk.Legal rp n := by
  cases f with
  | same => cases h; exact ⟨hg, Le.refl _, fun _ _ _ => trivial⟩
  | chop k =>
    cases h
    simp only [frameOk, decide_eq_true_eq] at hok
    exact ⟨hg, Le.refl _, fun _ _ _ => hok⟩
  | same1 v =>
    simp only [sKind] at h
    split at h
    · cases h
    · rename_i s p1 h1
      cases h
      have h1' : sVTypes lp p [v] = some ([s], p') := by simp [sVTypes, h1]
      obtain ⟨g, l, hleg⟩ := sVTypes_legal (rp := rp) (n := n) [v] hg h1' hu
      exact ⟨g, l, fun q hq ha => hleg q hq ha s (by simp)⟩
  | append ls =>
    simp only [sKind] at h
    split at h
    · cases h
    · rename_i ss p1 h1
      cases h
      simp only [frameOk, Bool.and_eq_true, decide_eq_true_eq] at hok
      have hl := sVTypes_length ls h1
      obtain ⟨g, l, hleg⟩ := sVTypes_legal (rp := rp) (n := n) ls hg h1 hu
      exact ⟨g, l, fun q hq ha => ⟨by omega, by omega, hleg q hq ha⟩⟩
  | full ls st =>
    simp only [sKind] at h
    split at h
    · cases h
    · rename_i sl p1 h1
      split at h
      · cases h
      · rename_i ss p2 h2
        cases h
        simp only [frameOk, Bool.and_eq_true, decide_eq_true_eq] at hok
        have hl1 := sVTypes_length ls h1
        have hl2 := sVTypes_length st h2
        obtain ⟨g1, l1, hleg1⟩ := sVTypes_legal (rp := rp) (n := n) ls hg h1 hu.1
        obtain ⟨g2, l2, hleg2⟩ := sVTypes_legal (rp := rp) (n := n) st g1 h2 hu.2
        exact ⟨g2, l1.trans l2, fun q hq ha =>
          ⟨by omega, by omega, hleg1 q (l2.trans hq) ha, hleg2 q hq ha⟩⟩

theorem sFrames_legal {lp : Nat → Option Nat} {rp : ClassRead.Pool} {n : Nat} :
    ∀ (ifs : List (Nat × Frame)) {p p' : Pool} {sfs : List SFrame} (prev : Option Nat), Good p →
      sFrames lp p prev ifs = some (sfs, p') → IdxIncr lp prev ifs → (∀ x ∈ ifs, x.1 < n) →
      (∀ x ∈ ifs, frameOk lp x.2 = true) → (∀ x ∈ ifs, frameUninitBelow n x.2) →
      Good p' ∧ Le p p' ∧ ∀ q : Pool, Le p' q → PoolAgrees q rp → framesLegal rp n (posOf lp) prev sfs
  | [], p, p', sfs, prev, hg, h, _, _, _, _ => by
    simp only [sFrames, Option.some.injEq, Prod.mk.injEq] at h
    obtain ⟨rfl, rfl⟩ := h
    exact ⟨hg, Le.refl _, fun _ _ _ => trivial⟩
  | (k, f) :: rest, p, p', sfs, prev, hg, h, ⟨hprev, ho, hrest⟩, hn, hok, hu => by
    simp only [sFrames] at h
    split at h
    · cases h
    · rename_i sk p1 hsk
      split at h
      · cases h
      · rename_i sfs' p2 hsfs
        cases h
        obtain ⟨g1, l1, hleg1⟩ := sKind_legal (rp := rp) (n := n) hg hsk (hok (k, f) (by simp)) (hu (k, f) (by simp))
        obtain ⟨g2, l2, hleg2⟩ := sFrames_legal rest (some k) g1 hsfs hrest
          (fun x hx => hn x (by simp [hx])) (fun x hx => hok x (by simp [hx])) (fun x hx => hu x (by simp [hx]))
        refine ⟨g2, l1.trans l2, fun q hq ha => ?_⟩
        simp only [framesLegal]
        refine ⟨hn (k, f) (by simp), ?_, hleg1 q (l2.trans hq) ha, ?_, hleg2 q hq ha⟩
        · cases prev with
          | none => trivial
          | some i => exact hprev.1
        · intro hext
          simpa using hext

/-! ## the reader model reads the written frames back -/

/-- the reader's frame for a frame of the tree: the same item, `Uninitialized` carrying the reader's label of the
offset of the writer's label -/
def readVType (lf : ClassRead.Labels) (lp : Nat → Option Nat) : VType → ClassRead.VType
  | .top => .top | .int => .int | .float => .float | .double => .double | .long => .long | .null => .null
  | .uninitThis => .uninitThis
  | .object c => .object c
  | .uninit l => .uninit (ClassRead.labOf lf (posOf lp) l)

def readFrameOf (lf : ClassRead.Labels) (lp : Nat → Option Nat) : Frame → ClassRead.Frame
  | .same => .same
  | .same1 v => .same1 (readVType lf lp v)
  | .chop k => .chop k
  | .append ls => .append (ls.map (readVType lf lp))
  | .full ls st => .full (ls.map (readVType lf lp)) (st.map (readVType lf lp))

theorem sVTypes_raw {lp : Nat → Option Nat} (lf : ClassRead.Labels) : ∀ (vs : List VType) {p p' : Pool} {ss : List SVType},
    sVTypes lp p vs = some (ss, p') → ss.map (SVType.raw lf (posOf lp)) = vs.map (readVType lf lp)
  | [], _, _, _, h => by simp only [sVTypes, Option.some.injEq, Prod.mk.injEq] at h; obtain ⟨rfl, _⟩ := h; rfl
  | v :: vs, p, p', ss, h => by
    simp only [sVTypes] at h
    split at h
    · cases h
    · rename_i s p1 h1
      split at h
      · cases h
      · rename_i ss' p2 h2
        cases h
        have hs : s.raw lf (posOf lp) = readVType lf lp v := by
          cases v <;> simp only [sVType] at h1
          case object c => split at h1 <;> cases h1; rfl
          case uninit l => split at h1 <;> cases h1; rfl
          all_goals (cases h1; rfl)
        simp [hs, sVTypes_raw lf vs h2]

theorem sKind_raw {lp : Nat → Option Nat} (lf : ClassRead.Labels) {f : Frame} {p p' : Pool} {sk : SFrameKind}
    (h : sKind lp p f = some (sk, p')) : sk.raw lf (posOf lp) = readFrameOf lf lp f := by
  cases f with
  | same => cases h; rfl
  | chop k => cases h; rfl
  | same1 v =>
    simp only [sKind] at h
    split at h
    · cases h
    · rename_i s p1 h1
      cases h
      have := sVTypes_raw (lp := lp) lf [v] (p := p) (p' := p') (ss := [s]) (by simp [sVTypes, h1])
      simp only [List.map_cons, List.map_nil, List.cons.injEq, and_true] at this
      simp [SFrameKind.raw, readFrameOf, this]
  | append ls =>
    simp only [sKind] at h
    split at h
    · cases h
    · rename_i ss p1 h1
      cases h
      simp [SFrameKind.raw, readFrameOf, sVTypes_raw lf ls h1]
  | full ls st =>
    simp only [sKind] at h
    split at h
    · cases h
    · rename_i sl p1 h1
      split at h
      · cases h
      · rename_i ss p2 h2
        cases h
        simp [SFrameKind.raw, readFrameOf, sVTypes_raw lf ls h1, sVTypes_raw lf st h2]

theorem sFrames_raw {lp : Nat → Option Nat} (lf : ClassRead.Labels) : ∀ (ifs : List (Nat × Frame)) {p p' : Pool}
    {sfs : List SFrame} (prev : Option Nat), sFrames lp p prev ifs = some (sfs, p') →
    sfs.map (fun f => (ClassRead.labOf lf (posOf lp) f.at_, f.kind.raw lf (posOf lp))) =
      ifs.map (fun x => (ClassRead.labOf lf (posOf lp) x.1, readFrameOf lf lp x.2))
  | [], _, _, _, _, h => by simp only [sFrames, Option.some.injEq, Prod.mk.injEq] at h; obtain ⟨rfl, _⟩ := h; rfl
  | (k, f) :: rest, p, p', sfs, prev, h => by
    simp only [sFrames] at h
    split at h
    · cases h
    · rename_i sk p1 hsk
      split at h
      · cases h
      · rename_i sfs' p2 hsfs
        cases h
        simp [sKind_raw lf hsk, sFrames_raw lf rest (some k) hsfs]

/-- **Read-back by the reader model.** Frames attached to instruction indices `ifs` (strictly increasing, `< n`, at
increasing `u16` positions), written by the writer model from a good pool: for every reader pool that resolves the
written class indices, every well-formed reader label table `l` for a code array of `cl` bytes with room for the new
labels, `ClassRead.readFrames` reads the written entries (whatever follows them) back to exactly these frames — frame
`j` attached to the reader's label of the offset of its instruction, `Uninitialized` types carrying the reader's label of
the offset of their label — and consumes exactly the written bytes. -/
theorem readFrames_written {lp : Nat → Option Nat} (ifs : List (Nat × Frame)) {p p' : Pool} (hg : Good p) {bs : Bytes}
    (hw : writeFrames lp p none (atPositions lp ifs) = .ok (bs, p'))
    (n cl : Nat) (hp : ClassRead.PosOk (posOf lp) n cl)
    (hmono : ∀ a b, a < b → b ≤ n → posOf lp a < posOf lp b)
    (hinc : IdxIncr lp none ifs) (hn : ∀ x ∈ ifs, x.1 < n) (hu : ∀ x ∈ ifs, frameUninitBelow n x.2)
    (rp : ClassRead.Pool) (ha : PoolAgrees p' rp)
    (l : ClassRead.Labels) (hwf : l.WF) (hcl : l.codeLength = cl) (r : Bytes) :
    ∃ sfs, sFrames lp p none ifs = some (sfs, p') ∧ sfs.length = ifs.length ∧
      (l.count + (sfs.map (fun f => f.kind.labelRefs + 1)).sum < 65536 →
        ∃ v l', ClassRead.readFrames rp ifs.length true 0 l (bs ++ r) = .ok (v, l', r) ∧ l'.WF ∧ ClassRead.Labels.Le l l' ∧
          ∀ lf, ClassRead.Labels.Le l' lf →
            v = ifs.map (fun x => (ClassRead.labOf lf (posOf lp) x.1, readFrameOf lf lp x.2))) := by
  obtain ⟨sfs, hs, hb, hl⟩ := writeFrames_enc ifs none hinc hw
  have hok : ∀ x ∈ ifs, frameOk lp x.2 = true := by
    have := writeFrames_ok_imp (atPositions lp ifs) hw
    intro x hx
    simp only [atPositions, List.all_map, List.all_eq_true] at this
    exact this x hx
  obtain ⟨_, _, hleg⟩ := sFrames_legal (rp := rp) (n := n) ifs none hg hs hinc hn hok hu
  refine ⟨sfs, hs, hl, fun hcnt => ?_⟩
  obtain ⟨v, l', h1, h2, h3, _, _, h6⟩ := ClassRead.readFrames_ok rp (posOf lp) n cl hp hmono sfs none
    (hleg p' (Le.refl _) ha) l r hwf hcl hcnt
  refine ⟨v, l', ?_, h2, h3, fun lf hlf => ?_⟩
  · simpa [hb, hl, ClassRead.prevOff] using h1
  · rw [h6 lf hlf]
    exact sFrames_raw lf ifs none hs

end FrameReadBack
