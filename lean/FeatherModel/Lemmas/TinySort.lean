import FeatherModel.Model.Tiny

/-! Order and sorting lemmas for the Tiny v2 writer (C03). -/

namespace Tiny

/-- a total order given by a Boolean `≤` -/
structure TotalOrd {α : Type} (le : α → α → Bool) : Prop where
  total : ∀ a b, le a b = true ∨ le b a = true
  trans : ∀ a b c, le a b = true → le b c = true → le a c = true
  antisymm : ∀ a b, le a b = true → le b a = true → a = b

theorem natLe_ord : TotalOrd natLe where
  total a b := by simp only [natLe, decide_eq_true_eq]; omega
  trans a b c := by simp only [natLe, decide_eq_true_eq]; omega
  antisymm a b := by simp only [natLe, decide_eq_true_eq]; omega

section lex
variable {α : Type} {le : α → α → Bool}

theorem lexLe_cons_cons (a b : α) (as bs : List α) :
    lexLe le (a :: as) (b :: bs) = true ↔ le a b = true ∧ (le b a = true → lexLe le as bs = true) := by
  simp only [lexLe]
  by_cases h1 : le a b = true
  · by_cases h2 : le b a = true
    · simp [h1, h2]
    · simp [h1, h2]
  · simp [h1]

theorem lexLe_total (h : TotalOrd le) : ∀ x y : List α, lexLe le x y = true ∨ lexLe le y x = true
  | [], _ => Or.inl (by simp [lexLe])
  | _ :: _, [] => Or.inr (by simp [lexLe])
  | a :: as, b :: bs => by
    rw [lexLe_cons_cons, lexLe_cons_cons]
    rcases lexLe_total h as bs with ih | ih
    · rcases h.total a b with hab | hba
      · exact Or.inl ⟨hab, fun _ => ih⟩
      · by_cases hab : le a b = true
        · exact Or.inl ⟨hab, fun _ => ih⟩
        · exact Or.inr ⟨hba, fun h' => absurd h' hab⟩
    · rcases h.total a b with hab | hba
      · by_cases hba : le b a = true
        · exact Or.inr ⟨hba, fun _ => ih⟩
        · exact Or.inl ⟨hab, fun h' => absurd h' hba⟩
      · exact Or.inr ⟨hba, fun _ => ih⟩

theorem lexLe_trans (h : TotalOrd le) : ∀ x y z : List α, lexLe le x y = true → lexLe le y z = true → lexLe le x z = true
  | [], _, _, _, _ => by simp [lexLe]
  | _ :: _, [], _, h1, _ => by simp [lexLe] at h1
  | _ :: _, _ :: _, [], _, h2 => by simp [lexLe] at h2
  | a :: as, b :: bs, c :: cs, h1, h2 => by
    rw [lexLe_cons_cons] at h1 h2 ⊢
    refine ⟨h.trans a b c h1.1 h2.1, fun hca => ?_⟩
    have hcb := h.trans c a b hca h1.1
    have hba := h.trans b c a h2.1 hca
    exact lexLe_trans h as bs cs (h1.2 hba) (h2.2 hcb)

theorem lexLe_antisymm (h : TotalOrd le) : ∀ x y : List α, lexLe le x y = true → lexLe le y x = true → x = y
  | [], [], _, _ => rfl
  | [], _ :: _, _, h2 => by simp [lexLe] at h2
  | _ :: _, [], h1, _ => by simp [lexLe] at h1
  | a :: as, b :: bs, h1, h2 => by
    rw [lexLe_cons_cons] at h1 h2
    have hab := h.antisymm a b h1.1 h2.1
    have := lexLe_antisymm h as bs (h1.2 h2.1) (h2.2 h1.1)
    rw [hab, this]

theorem lexLe_ord (h : TotalOrd le) : TotalOrd (lexLe le) :=
  ⟨lexLe_total h, lexLe_trans h, lexLe_antisymm h⟩

theorem optLe_ord (h : TotalOrd le) : TotalOrd (optLe le) where
  total a b := by
    cases a <;> cases b <;> simp [optLe]
    exact h.total _ _
  trans a b c := by
    cases a <;> cases b <;> cases c <;> simp [optLe]
    exact h.trans _ _ _
  antisymm a b := by
    cases a <;> cases b <;> simp [optLe]
    exact h.antisymm _ _

end lex

theorem pairLe_iff {α β : Type} {le1 : α → α → Bool} {le2 : β → β → Bool} (a b : α × β) :
    pairLe le1 le2 a b = true ↔ le1 a.1 b.1 = true ∧ (le1 b.1 a.1 = true → le2 a.2 b.2 = true) := by
  simp only [pairLe]
  by_cases h1 : le1 a.1 b.1 = true
  · by_cases h2 : le1 b.1 a.1 = true
    · simp [h1, h2]
    · simp [h1, h2]
  · simp [h1]

theorem pairLe_ord {α β : Type} {le1 : α → α → Bool} {le2 : β → β → Bool}
    (h1 : TotalOrd le1) (h2 : TotalOrd le2) : TotalOrd (pairLe le1 le2) where
  total a b := by
    rw [pairLe_iff, pairLe_iff]
    rcases h2.total a.2 b.2 with ih | ih
    · rcases h1.total a.1 b.1 with hab | hba
      · exact Or.inl ⟨hab, fun _ => ih⟩
      · by_cases hab : le1 a.1 b.1 = true
        · exact Or.inl ⟨hab, fun _ => ih⟩
        · exact Or.inr ⟨hba, fun h' => absurd h' hab⟩
    · rcases h1.total a.1 b.1 with hab | hba
      · by_cases hba : le1 b.1 a.1 = true
        · exact Or.inr ⟨hba, fun _ => ih⟩
        · exact Or.inl ⟨hab, fun h' => absurd h' hba⟩
      · exact Or.inr ⟨hba, fun _ => ih⟩
  trans a b c := by
    rw [pairLe_iff, pairLe_iff, pairLe_iff]
    intro x y
    refine ⟨h1.trans _ _ _ x.1 y.1, fun hca => ?_⟩
    have hcb := h1.trans _ _ _ hca x.1
    have hba := h1.trans _ _ _ y.1 hca
    exact h2.trans _ _ _ (x.2 hba) (y.2 hcb)
  antisymm a b := by
    rw [pairLe_iff, pairLe_iff]
    intro x y
    have e1 := h1.antisymm _ _ x.1 y.1
    have e2 := h2.antisymm _ _ (x.2 y.1) (y.2 x.1)
    exact Prod.ext e1 e2

theorem strLe_ord : TotalOrd strLe := lexLe_ord natLe_ord
theorem namesLe_ord : TotalOrd namesLe := lexLe_ord (optLe_ord strLe_ord)
theorem descNamesLe_ord : TotalOrd (pairLe strLe namesLe) := pairLe_ord strLe_ord namesLe_ord
theorem indexNamesLe_ord : TotalOrd (pairLe natLe namesLe) := pairLe_ord natLe_ord namesLe_ord

/-! ## insertion sort -/

section sort
variable {α β : Type}

theorem insertBy_perm (le : α → α → Bool) (a : α) : ∀ l : List α, (insertBy le a l).Perm (a :: l)
  | [] => List.Perm.refl _
  | b :: l => by
    simp only [insertBy]
    split
    · exact List.Perm.refl _
    · exact ((insertBy_perm le a l).cons b).trans (List.Perm.swap a b l)

theorem sortBy_perm (le : α → α → Bool) : ∀ l : List α, (sortBy le l).Perm l
  | [] => List.Perm.refl _
  | a :: l => by
    show (insertBy le a (sortBy le l)).Perm (a :: l)
    exact (insertBy_perm le a _).trans ((sortBy_perm le l).cons a)

theorem sortBy_cons (le : α → α → Bool) (a : α) (l : List α) : sortBy le (a :: l) = insertBy le a (sortBy le l) := rfl

theorem mem_sortBy {le : α → α → Bool} {l : List α} {a : α} : a ∈ sortBy le l ↔ a ∈ l :=
  (sortBy_perm le l).mem_iff

theorem insertBy_pairwise {le : α → α → Bool}
    (total : ∀ a b, le a b = true ∨ le b a = true) (trans : ∀ a b c, le a b = true → le b c = true → le a c = true)
    (a : α) : ∀ l : List α, l.Pairwise (fun x y => le x y = true) → (insertBy le a l).Pairwise (fun x y => le x y = true)
  | [], _ => by simp [insertBy]
  | b :: l, h => by
    simp only [insertBy]
    have hb := List.pairwise_cons.mp h
    split
    · rename_i hab
      refine List.pairwise_cons.mpr ⟨?_, h⟩
      intro x hx
      rcases List.mem_cons.mp hx with rfl | hx
      · exact hab
      · exact trans _ _ _ hab (hb.1 x hx)
    · rename_i hab
      have hba : le b a = true := by
        rcases total a b with h' | h'
        · exact absurd h' hab
        · exact h'
      refine List.pairwise_cons.mpr ⟨?_, insertBy_pairwise total trans a l hb.2⟩
      intro x hx
      rcases List.mem_cons.mp ((insertBy_perm le a l).subset hx) with rfl | hx
      · exact hba
      · exact hb.1 x hx

theorem sortBy_pairwise {le : α → α → Bool}
    (total : ∀ a b, le a b = true ∨ le b a = true) (trans : ∀ a b c, le a b = true → le b c = true → le a c = true) :
    ∀ l : List α, (sortBy le l).Pairwise (fun x y => le x y = true)
  | [] => List.Pairwise.nil
  | a :: l => insertBy_pairwise total trans a _ (sortBy_pairwise total trans l)

/-- permutations sort to the same list when the order separates the elements of the list -/
theorem sortBy_eq_of_perm {le : α → α → Bool}
    (total : ∀ a b, le a b = true ∨ le b a = true) (trans : ∀ a b c, le a b = true → le b c = true → le a c = true)
    {l l' : List α} (anti : ∀ a b, a ∈ l → b ∈ l → le a b = true → le b a = true → a = b)
    (h : l.Perm l') : sortBy le l = sortBy le l' := by
  apply List.Perm.eq_of_pairwise (le := fun x y => le x y = true)
  · intro a b ha hb
    exact anti a b (mem_sortBy.mp ha) (h.symm.subset (mem_sortBy.mp hb))
  · exact sortBy_pairwise total trans l
  · exact sortBy_pairwise total trans l'
  · exact (sortBy_perm le l).trans (h.trans (sortBy_perm le l').symm)

theorem insertBy_map {le : α → α → Bool} {le' : β → β → Bool} (f : α → β)
    (hf : ∀ a b, le' (f a) (f b) = le a b) (a : α) :
    ∀ l : List α, (insertBy le a l).map f = insertBy le' (f a) (l.map f)
  | [] => rfl
  | b :: l => by
    simp only [insertBy, List.map_cons, hf]
    split
    · rfl
    · simp only [List.map_cons, insertBy_map f hf a l]

theorem sortBy_map {le : α → α → Bool} {le' : β → β → Bool} (f : α → β)
    (hf : ∀ a b, le' (f a) (f b) = le a b) :
    ∀ l : List α, (sortBy le l).map f = sortBy le' (l.map f)
  | [] => rfl
  | a :: l => by
    simp only [sortBy_cons, List.map_cons]
    rw [insertBy_map f hf, sortBy_map f hf l]

/-- a sorted list is not changed -/
theorem sortBy_of_pairwise {le : α → α → Bool} :
    ∀ l : List α, l.Pairwise (fun x y => le x y = true) → sortBy le l = l
  | [], _ => rfl
  | a :: l, h => by
    have hb := List.pairwise_cons.mp h
    rw [sortBy_cons, sortBy_of_pairwise l hb.2]
    cases l with
    | nil => rfl
    | cons b l => simp [insertBy, hb.1 b List.mem_cons_self]

end sort

end Tiny
