import FeatherModel.Lemmas.CodeWriteMain
import FeatherModel.Lemmas.FrameFail

/-!
# The frames `write_code` collects sit at strictly increasing `u16` offsets

Every instruction is written with at least one byte, so the positions recorded by an attempt increase strictly; the
`frames` vector holds, after the retry loop, exactly the pushes of the final attempt (`frames.clear()`).
-/

namespace CodeWrite

/-- every instruction occupies at least one byte -/
theorem encInsn_len_pos {isWide : Bool} {lbl : Nat → Option Nat} {p k : Nat} {i : Insn} {r : Bytes × List Unwritten}
    (h : encInsn isWide lbl p k i = .ok r) : 1 ≤ r.1.length := by
  cases i with
  | ifc c t =>
    simp only [encInsn, encIf] at h
    split at h
    · split at h
      · cases h; simp
      · split at h
        · cases h
        · cases h; simp
    · split at h
      · split at h
        · cases h
        · cases h; simp
      · cases h; simp
  | goto t =>
    simp only [encInsn, encGoto] at h
    split at h
    · split at h <;> (cases h; simp)
    · split at h <;> (cases h; simp)
  | jsr t =>
    simp only [encInsn, encGoto] at h
    split at h
    · split at h <;> (cases h; simp)
    · split at h <;> (cases h; simp)
  | tableswitch d lo hi tb =>
    simp only [encInsn, encTableSwitch] at h
    split at h
    · cases h
    · split at h
      · cases h
      · split at h
        · cases h
        · cases h; simp
  | lookupswitch d ps =>
    simp only [encInsn, encLookupSwitch] at h
    split at h
    · cases h
    · cases h; simp
  | invokeinterface idx desc =>
    simp only [encInsn] at h
    split at h
    · cases h
    · cases h; simp
  | ldc idx two =>
    simp only [encInsn] at h; cases h
    simp only [encLdc]; split
    · simp
    · split <;> simp
  | load kind idx =>
    simp only [encInsn] at h; cases h
    simp only [encLocal]; split
    · simp
    · split <;> simp
  | store kind idx =>
    simp only [encInsn] at h; cases h
    simp only [encLocal]; split
    · simp
    · split <;> simp
  | iinc idx v =>
    simp only [encInsn] at h; cases h
    simp only [encIinc]; split <;> simp
  | ret idx =>
    simp only [encInsn] at h; cases h
    simp only [encRet]; split <;> simp
  | _ => simp only [encInsn] at h; cases h; simp

/-- a list of `u16` values, each at least one above its predecessor, the first at least `lo` -/
def SortedFrom : Nat → List Nat → Prop
  | _, [] => True
  | lo, x :: xs => lo ≤ x ∧ x ≤ 65535 ∧ SortedFrom (x + 1) xs

theorem sortedFrom_mono {lo lo' : Nat} (h : lo' ≤ lo) : ∀ {xs : List Nat}, SortedFrom lo xs → SortedFrom lo' xs
  | [], _ => trivial
  | _ :: _, ⟨a, b, c⟩ => ⟨by omega, b, c⟩

/-- the positions recorded for the instructions of an attempt, from instruction `k` on -/
theorem chunks_sorted {wide : List Nat} {pos : Array Nat} {k p : Nat} {is : List Insn}
    {cs : List (Bytes × List Unwritten)} (hc : Chunks wide pos k p is cs) (hsz : pos.size = k + is.length) :
    SortedFrom p (pos.toList.drop k) := by
  induction hc with
  | nil k p =>
    have : pos.toList.drop k = [] := by
      apply List.drop_eq_nil_of_le
      simp only [Array.length_toList]; simp at hsz; omega
    rw [this]; trivial
  | @cons k p i is r cs hp hk henc _ ih =>
    have hlt : k < pos.toList.length := by
      simp only [Array.length_toList, List.length_cons] at hsz ⊢; omega
    rw [List.drop_eq_getElem_cons hlt]
    have hx : pos.toList[k] = p := by
      have := (Array.getElem?_eq_some_iff.mp hk)
      obtain ⟨h1, h2⟩ := this
      simpa using h2
    rw [hx]
    refine ⟨Nat.le_refl _, hp, ?_⟩
    have := ih (by simp only [List.length_cons] at hsz; omega)
    exact sortedFrom_mono (by have := encInsn_len_pos henc; omega) this

theorem sortedFrom_spec : ∀ {lo : Nat} {xs : List Nat}, SortedFrom lo xs →
    xs.Pairwise (· < ·) ∧ ∀ x ∈ xs, lo ≤ x ∧ x ≤ 65535
  | _, [], _ => ⟨List.Pairwise.nil, fun _ h => by cases h⟩
  | lo, x :: xs, ⟨a, b, c⟩ => by
    obtain ⟨h1, h2⟩ := sortedFrom_spec c
    refine ⟨List.Pairwise.cons (fun y hy => by have := (h2 y hy).1; omega) h1, fun y hy => ?_⟩
    rcases List.mem_cons.mp hy with rfl | hy
    · exact ⟨a, b⟩
    · have := h2 y hy; exact ⟨by omega, this.2⟩

/-- the positions of a successful `write_code` increase strictly and are `u16`s -/
theorem writeCode_pos_sorted (is : List Insn) (res : Result) (h : writeCode is = .ok res) :
    SortedFrom 0 res.pos.toList := by
  have hposz := writeCode_pos_size is res h
  obtain ⟨wide', s, w', hs, _, _, _, rfl⟩ := write_ok_attempt is _ _ res h
  obtain ⟨cs, hc, _, _, hsz, _⟩ := pass_chunks wide' is St.init s hs
  simp only [St.init, List.size_toArray, List.length_nil, Nat.zero_add] at hc hsz
  have := chunks_sorted hc (by simpa using hsz)
  simpa using this

/-- every label of the final label table has a `u16` offset -/
theorem result_label_le (is : List Insn) (res : Result) (h : writeCode is = .ok res) (t x : Nat)
    (ht : res.label t = some x) : x ≤ 65535 := by
  have hs := (sortedFrom_spec (writeCode_pos_sorted is res h)).2
  unfold Result.label labelPos at ht
  split at ht
  · rename_i q hq
    cases ht
    have hm : x ∈ res.pos.toList := by
      have := Array.getElem?_eq_some_iff.mp hq
      obtain ⟨h1, h2⟩ := this
      rw [← h2]
      exact Array.getElem_mem_toList h1
    exact (hs x hm).2
  · split at ht
    · cases ht; omega
    · cases ht

end CodeWrite

namespace FrameWrite
open CodeWrite (SortedFrom)
open FrameDenote

/-- frames attached to instructions at increasing positions are at increasing offsets -/
theorem collect_incr : ∀ (ps : List Nat) (fs : List (Option Frame)) (lo : Nat) (prev : Option Nat),
    SortedFrom lo ps → (match prev with | none => True | some q => q < lo) → Incr prev (collect ps fs)
  | [], _, _, _, _, _ => by simp [collect, Incr]
  | _ :: _, [], _, _, _, _ => by simp [collect, Incr]
  | p :: ps, some f :: fs, lo, prev, ⟨a, b, c⟩, hprev => by
    simp only [collect, Incr]
    refine ⟨?_, b, collect_incr ps fs (p + 1) (some p) c (by simp)⟩
    cases prev with
    | none => trivial
    | some q => simp only at hprev ⊢; omega
  | p :: ps, none :: fs, lo, prev, ⟨a, b, c⟩, hprev => by
    simp only [collect]
    refine collect_incr ps fs (p + 1) prev c ?_
    cases prev with
    | none => trivial
    | some q => simp only at hprev ⊢; omega

/-- the frame of instruction `k` is in the collected list, at the position of instruction `k` -/
theorem collect_mem : ∀ (ps : List Nat) (fs : List (Option Frame)) (k : Nat) (pc : Nat) (f : Frame),
    ps[k]? = some pc → fs[k]? = some (some f) → (pc, f) ∈ collect ps fs
  | [], _, k, _, _, hp, _ => by simp at hp
  | _ :: _, [], k, _, _, _, hf => by simp at hf
  | p :: ps, some f0 :: fs, k, pc, f, hp, hf => by
    cases k with
    | zero =>
      simp only [List.getElem?_cons_zero, Option.some.injEq] at hp hf
      subst hp; subst hf
      simp [collect]
    | succ k =>
      simp only [List.getElem?_cons_succ] at hp hf
      simp only [collect, List.mem_cons]
      exact Or.inr (collect_mem ps fs k pc f hp hf)
  | p :: ps, none :: fs, k, pc, f, hp, hf => by
    cases k with
    | zero => simp at hf
    | succ k =>
      simp only [List.getElem?_cons_succ] at hp hf
      simp only [collect]
      exact collect_mem ps fs k pc f hp hf

/-- and nothing else is: every collected frame is the frame of some instruction, at that instruction's position -/
theorem mem_collect : ∀ (ps : List Nat) (fs : List (Option Frame)) (pc : Nat) (f : Frame),
    (pc, f) ∈ collect ps fs → ∃ k : Nat, ps[k]? = some pc ∧ fs[k]? = some (some f)
  | [], _, _, _, h => by simp [collect] at h
  | _ :: _, [], _, _, h => by simp [collect] at h
  | p :: ps, some f0 :: fs, pc, f, h => by
    simp only [collect, List.mem_cons, Prod.mk.injEq] at h
    rcases h with ⟨rfl, rfl⟩ | h
    · exact ⟨0, by simp, by simp⟩
    · obtain ⟨k, h1, h2⟩ := mem_collect ps fs pc f h
      exact ⟨k + 1, by simpa using h1, by simpa using h2⟩
  | p :: ps, none :: fs, pc, f, h => by
    simp only [collect] at h
    obtain ⟨k, h1, h2⟩ := mem_collect ps fs pc f h
    exact ⟨k + 1, by simpa using h1, by simpa using h2⟩

/-- the retry loop with the `frames` vector: the loop without the vector, and the vector holds the pushes of the
final attempt only -/
theorem writeF_spec (is : List CodeWrite.Insn) (fs : List (Option Frame)) :
    ∀ (fuel : Nat) (wide : List Nat),
      (writeF is fs fuel wide []).1 = CodeWrite.write is fuel wide ∧
      ∀ res, CodeWrite.write is fuel wide = .ok res → (writeF is fs fuel wide []).2 = framesOf res fs := by
  intro fuel
  induction fuel with
  | zero => intro wide; simp [writeF, CodeWrite.write]
  | succ fuel ih =>
    intro wide
    simp only [writeF, CodeWrite.write]
    cases hs : CodeWrite.pass wide is CodeWrite.St.init with
    | error e => cases e <;> simp
    | ok s =>
      simp only []
      cases hres : CodeWrite.resolve (CodeWrite.labelPos s.pos s.w.size) s.unw.toList s.w with
      | fail => simp
      | retry idx => exact ih (idx :: wide)
      | done w =>
        simp only []
        split
        · simp
        · refine ⟨rfl, fun res hr => ?_⟩
          cases hr
          simp [framesOf]

end FrameWrite
