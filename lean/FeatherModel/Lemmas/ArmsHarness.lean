import FeatherModel.Lemmas.ArmsDefs
import FeatherModel.Gen.HarnessGlue

/-!
# The projection glue of the C01 harness against the Rust reader's own arm table

`harness/src/c01facts.rs` prints duke's `Instruction` values in the model's vocabulary, which names the operand-less
instructions, conditional branches and field accesses by opcode and the local-variable instructions by kind. That
table is hand-written (a transcription of the JVMS); `translate/harness_glue_to_lean.py` extracts it and here it is compared
with what `read_code` itself does: the opcode printed for constructor `Y` is an opcode whose arm builds `Y`.
-/

namespace Arms

open JvmsTables Gen.HarnessGlue

theorem harness_glue_matches_reader :
    -- every constructor of `enum Instruction` is printed by exactly one arm of the harness
    ((simple ++ branch ++ field ++ load ++ store).map (·.1) ++ other.map (·.1)).length = Gen.ReaderArms.ctorNames.length ∧
    (Gen.ReaderArms.ctorNames.all fun n => ((simple ++ branch ++ field ++ load ++ store).map (·.1) ++ other.map (·.1)).contains n) = true ∧
    -- `(simple op)` / `(branch op ..)` / `(field op ..)`: the Rust arm of `op` builds that constructor
    ((simple ++ branch ++ field).all fun e => (rArm e.2).ctor?.map ctorName == some e.1) = true ∧
    (simple.all fun e => (rArm e.2).isUnit) = true ∧
    -- `(load k ..)` / `(store k ..)`: kind `k` is the offset from `iload` / `istore`
    (load.all fun e => (rArm (0x15 + e.2)).ctor?.map ctorName == some e.1) = true ∧
    (store.all fun e => (rArm (0x36 + e.2)).ctor?.map ctorName == some e.1) = true ∧
    -- everything else is printed under the constructor's own name
    (other.all fun e => squash e.1 == squash e.2) = true := by decide +kernel

end Arms
