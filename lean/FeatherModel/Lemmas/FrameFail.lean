import FeatherModel.Lemmas.FrameDecodeEq

/-!
# When the `StackMapTable` writer fails: never with a panic (for frames at increasing offsets), and exactly for the
frames JVMS §4.7.4 cannot express, a label without offset, or a full constant pool
-/

namespace FrameWrite
open CodeWrite (Fail u16b)
open PoolWrite (Pool)
open FrameDecode FrameDenote FramePool

/-! ## no panic -/

theorem writeVType_err (lp : Nat → Option Nat) (p : Pool) (v : VType) (e : Fail)
    (h : writeVType lp p v = .error e) : e = .err := by
  cases v <;> simp only [writeVType] at h <;> try cases h
  all_goals (split at h <;> cases h; rfl)

theorem writeVTypes_err (lp : Nat → Option Nat) : ∀ (vs : List VType) (p : Pool) (e : Fail),
    writeVTypes lp p vs = .error e → e = .err
  | [], _, _, h => by cases h
  | v :: vs, p, e, h => by
    simp only [writeVTypes] at h
    split at h
    · rename_i e1 h1; cases h; exact writeVType_err lp p v _ h1
    · rename_i b1 p1 h1
      split at h
      · rename_i e2 h2; cases h; exact writeVTypes_err lp vs p1 _ h2
      · cases h

theorem writeVTypes16_err (lp : Nat → Option Nat) (vs : List VType) (p : Pool) (e : Fail)
    (h : writeVTypes16 lp p vs = .error e) : e = .err := by
  unfold writeVTypes16 at h
  split at h
  · cases h; rfl
  · split at h
    · rename_i e1 h1; cases h; exact writeVTypes_err lp vs p _ h1
    · cases h

theorem writeFrame_err (lp : Nat → Option Nat) (p : Pool) (d : Nat) (f : Frame) (e : Fail)
    (h : writeFrame lp p d f = .error e) : e = .err := by
  cases f with
  | same => simp only [writeFrame] at h; split at h <;> cases h
  | same1 v =>
    simp only [writeFrame] at h
    split at h
    · rename_i e1 h1; cases h; exact writeVType_err lp p v _ h1
    · cases h
  | chop k => simp only [writeFrame] at h; split at h <;> cases h; rfl
  | append ls =>
    simp only [writeFrame] at h
    split at h
    · split at h
      · rename_i e1 h1; cases h; exact writeVTypes_err lp ls p _ h1
      · cases h
    · cases h; rfl
  | full ls ss =>
    simp only [writeFrame] at h
    split at h
    · rename_i e1 h1; cases h; exact writeVTypes16_err lp ls p _ h1
    · rename_i b1 p1 h1
      split at h
      · rename_i e2 h2; cases h; exact writeVTypes16_err lp ss p1 _ h2
      · cases h

theorem writeFrames_err (lp : Nat → Option Nat) : ∀ (fs : List (Nat × Frame)) (p : Pool) (prev : Option Nat)
    (_ : Incr prev fs) (e : Fail), writeFrames lp p prev fs = .error e → e = .err
  | [], _, _, _, _, h => by cases h
  | (o, f) :: fs, p, prev, hinc, e, h => by
    obtain ⟨hprev, ho, hrest⟩ := hinc
    obtain ⟨d, hd, _, _⟩ := offsetDelta_ok hprev ho
    simp only [writeFrames, hd] at h
    split at h
    · rename_i e1 h1; cases h; exact writeFrame_err lp p d f _ h1
    · rename_i b1 p1 h1
      split at h
      · rename_i e2 h2; cases h; exact writeFrames_err lp fs p1 (some o) hrest _ h2
      · cases h

theorem body_err (lp : Nat → Option Nat) (fs : List (Nat × Frame)) (p : Pool) (hinc : Incr none fs) (e : Fail)
    (h : body lp p fs = .error e) : e = .err := by
  unfold body at h
  split at h
  · cases h; rfl
  · split at h
    · rename_i e1 h1; cases h; exact writeFrames_err lp fs p none hinc _ h1
    · cases h

theorem attr_err (lp : Nat → Option Nat) (fs : List (Nat × Frame)) (p : Pool) (hinc : Incr none fs) (e : Fail)
    (h : attr lp p fs = .error e) : e = .err := by
  unfold attr at h
  split at h
  · cases h
  · split at h
    · rename_i e1 h1; cases h; exact body_err lp fs p hinc _ h1
    · split at h
      · cases h; rfl
      · split at h <;> cases h; rfl

/-! ## success ⇒ every frame is acceptable -/

theorem writeVType_ok_imp {lp : Nat → Option Nat} {p p' : Pool} {v : VType} {b : Bytes}
    (h : writeVType lp p v = .ok (b, p')) : vtypeOk lp v = true := by
  cases v <;> simp only [vtypeOk]
  simp only [writeVType] at h
  split at h
  · cases h
  · rename_i o ho; simp [ho]

theorem writeVTypes_ok_imp {lp : Nat → Option Nat} : ∀ (vs : List VType) {p p' : Pool} {b : Bytes},
    writeVTypes lp p vs = .ok (b, p') → vs.all (vtypeOk lp) = true
  | [], _, _, _, _ => rfl
  | v :: vs, p, p', b, h => by
    simp only [writeVTypes] at h
    split at h
    · cases h
    · rename_i b1 p1 h1
      split at h
      · cases h
      · rename_i bs p2 h2
        simp only [List.all_cons, Bool.and_eq_true]
        exact ⟨writeVType_ok_imp h1, writeVTypes_ok_imp vs h2⟩

theorem writeVTypes16_ok_imp {lp : Nat → Option Nat} {vs : List VType} {p p' : Pool} {b : Bytes}
    (h : writeVTypes16 lp p vs = .ok (b, p')) : vs.length ≤ 65535 ∧ vs.all (vtypeOk lp) = true := by
  unfold writeVTypes16 at h
  split at h
  · cases h
  · split at h
    · cases h
    · rename_i bs p1 h1
      exact ⟨by omega, writeVTypes_ok_imp vs h1⟩

theorem writeFrame_ok_imp {lp : Nat → Option Nat} {p p' : Pool} {d : Nat} {f : Frame} {b : Bytes}
    (h : writeFrame lp p d f = .ok (b, p')) : frameOk lp f = true := by
  cases f with
  | same => rfl
  | same1 v =>
    simp only [writeFrame] at h
    split at h
    · cases h
    · rename_i bv p1 h1; exact writeVType_ok_imp h1
  | chop k =>
    simp only [writeFrame] at h
    split at h
    · rename_i hk; simp [frameOk, hk]
    · cases h
  | append ls =>
    simp only [writeFrame] at h
    split at h
    · rename_i hk
      split at h
      · cases h
      · rename_i bs p1 h1
        simp only [frameOk, Bool.and_eq_true, decide_eq_true_eq]
        exact ⟨hk, writeVTypes_ok_imp ls h1⟩
    · cases h
  | full ls ss =>
    simp only [writeFrame] at h
    split at h
    · cases h
    · rename_i b1 p1 h1
      split at h
      · cases h
      · rename_i b2 p2 h2
        obtain ⟨a1, a2⟩ := writeVTypes16_ok_imp h1
        obtain ⟨a3, a4⟩ := writeVTypes16_ok_imp h2
        simp only [frameOk, Bool.and_eq_true, decide_eq_true_eq]
        exact ⟨⟨a1, a2⟩, a3, a4⟩

theorem writeFrames_ok_imp {lp : Nat → Option Nat} : ∀ (fs : List (Nat × Frame)) {p p' : Pool} {prev : Option Nat}
    {b : Bytes}, writeFrames lp p prev fs = .ok (b, p') → fs.all (fun f => frameOk lp f.2) = true
  | [], _, _, _, _, _ => rfl
  | (o, f) :: fs, p, p', prev, b, h => by
    simp only [writeFrames] at h
    split at h
    · cases h
    · rename_i d hd
      split at h
      · cases h
      · rename_i b1 p1 h1
        split at h
        · cases h
        · rename_i bs p2 h2
          simp only [List.all_cons, Bool.and_eq_true]
          exact ⟨writeFrame_ok_imp h1, writeFrames_ok_imp fs h2⟩

theorem body_ok_imp {lp : Nat → Option Nat} {fs : List (Nat × Frame)} {p p' : Pool} {b : Bytes}
    (h : body lp p fs = .ok (b, p')) : tableOk lp fs = true := by
  unfold body at h
  split at h
  · cases h
  · split at h
    · cases h
    · rename_i bs p1 h1
      simp only [tableOk, Bool.and_eq_true, decide_eq_true_eq]
      exact ⟨by omega, writeFrames_ok_imp fs h1⟩

/-! ## acceptable frames + room in the pool ⇒ success -/

theorem writeVTypes_ok_of {lp : Nat → Option Nat} : ∀ (vs : List VType) (p : Pool),
    vs.all (vtypeOk lp) = true → p.count + 2 * vObjects vs ≤ 65535 →
    ∃ b p', writeVTypes lp p vs = .ok (b, p') ∧ p'.count ≤ p.count + 2 * vObjects vs
  | [], p, _, _ => ⟨[], p, rfl, by simp [vObjects]⟩
  | v :: vs, p, hok, hroom => by
    simp only [List.all_cons, Bool.and_eq_true] at hok
    obtain ⟨hv, hvs⟩ := hok
    cases v with
    | object c =>
      simp only [vObjects] at hroom ⊢
      obtain ⟨i, p1, h1, c1⟩ := putClass_room p c (by omega)
      obtain ⟨bs, p2, h2, c2⟩ := writeVTypes_ok_of vs p1 hvs (by omega)
      refine ⟨?w1, p2, ?h1, by omega⟩
      case h1 => simp only [writeVTypes, writeVType, h1, h2]; first | rfl | done
    | uninit l =>
      simp only [vObjects] at hroom ⊢
      simp only [vtypeOk] at hv
      cases ho : lp l with
      | none => simp [ho] at hv
      | some o =>
        obtain ⟨bs, p2, h2, c2⟩ := writeVTypes_ok_of vs p hvs hroom
        refine ⟨?w2, p2, ?h2, c2⟩
        case h2 => simp only [writeVTypes, writeVType, ho, h2]; first | rfl | done
    | top | int | float | double | long | null | uninitThis =>
      simp only [vObjects] at hroom ⊢
      obtain ⟨bs, p2, h2, c2⟩ := writeVTypes_ok_of vs p hvs hroom
      exact ⟨_, p2, by simp only [writeVTypes, writeVType, h2]; rfl, c2⟩

theorem writeVType_ok_of {lp : Nat → Option Nat} (v : VType) (p : Pool) (hv : vtypeOk lp v = true)
    (hroom : p.count + 2 * vObjects [v] ≤ 65535) :
    ∃ b p', writeVType lp p v = .ok (b, p') ∧ p'.count ≤ p.count + 2 * vObjects [v] := by
  obtain ⟨b, p', h, c⟩ := writeVTypes_ok_of (lp := lp) [v] p (by simp [hv]) hroom
  simp only [writeVTypes] at h
  split at h
  · cases h
  · rename_i b1 p1 h1
    simp only [Except.ok.injEq, Prod.mk.injEq] at h
    obtain ⟨_, rfl⟩ := h
    exact ⟨b1, p1, h1, c⟩

theorem writeVTypes16_ok_of {lp : Nat → Option Nat} (vs : List VType) (p : Pool) (hlen : vs.length ≤ 65535)
    (hok : vs.all (vtypeOk lp) = true) (hroom : p.count + 2 * vObjects vs ≤ 65535) :
    ∃ b p', writeVTypes16 lp p vs = .ok (b, p') ∧ p'.count ≤ p.count + 2 * vObjects vs := by
  obtain ⟨bs, p1, h1, c1⟩ := writeVTypes_ok_of (lp := lp) vs p hok hroom
  have : ¬ vs.length > 65535 := by omega
  refine ⟨?w4, p1, ?h4, c1⟩
  case h4 => simp only [writeVTypes16, this, h1]; first | rfl | done

theorem writeFrame_ok_of {lp : Nat → Option Nat} (f : Frame) (p : Pool) (d : Nat) (hok : frameOk lp f = true)
    (hroom : p.count + 2 * objects f ≤ 65535) :
    ∃ b p', writeFrame lp p d f = .ok (b, p') ∧ p'.count ≤ p.count + 2 * objects f := by
  cases f with
  | same =>
    by_cases h63 : d ≤ 63
    · exact ⟨_, p, by simp only [writeFrame, h63, if_true]; rfl, by simp [objects]⟩
    · exact ⟨_, p, by simp only [writeFrame, h63, if_false]; rfl, by simp [objects]⟩
  | same1 v =>
    simp only [frameOk] at hok
    simp only [objects] at hroom ⊢
    obtain ⟨b, p1, h1, c1⟩ := writeVType_ok_of (lp := lp) v p hok hroom
    refine ⟨?w5, p1, ?h5, c1⟩
    case h5 => simp only [writeFrame, h1]; first | rfl | done
  | chop k =>
    simp only [frameOk, decide_eq_true_eq] at hok
    refine ⟨?w6, p, ?h6, by simp [objects]⟩
    case h6 => simp only [writeFrame, hok]; first | rfl | done
  | append ls =>
    simp only [frameOk, Bool.and_eq_true, decide_eq_true_eq] at hok
    simp only [objects] at hroom ⊢
    obtain ⟨bs, p1, h1, c1⟩ := writeVTypes_ok_of (lp := lp) ls p hok.2 hroom
    refine ⟨?w7, p1, ?h7, c1⟩
    case h7 => simp only [writeFrame, hok.1, h1]; first | rfl | done
  | full ls ss =>
    simp only [frameOk, Bool.and_eq_true, decide_eq_true_eq] at hok
    simp only [objects] at hroom ⊢
    obtain ⟨⟨a1, a2⟩, a3, a4⟩ := hok
    obtain ⟨b1, p1, h1, c1⟩ := writeVTypes16_ok_of (lp := lp) ls p a1 a2 (by omega)
    obtain ⟨b2, p2, h2, c2⟩ := writeVTypes16_ok_of (lp := lp) ss p1 a3 a4 (by omega)
    refine ⟨?w8, p2, ?h8, by omega⟩
    case h8 => simp only [writeFrame, h1, h2]; first | rfl | done

theorem writeFrames_ok_of {lp : Nat → Option Nat} : ∀ (fs : List (Nat × Frame)) (p : Pool) (prev : Option Nat),
    Incr prev fs → fs.all (fun f => frameOk lp f.2) = true → p.count + 2 * objectsAll fs ≤ 65535 →
    ∃ b p', writeFrames lp p prev fs = .ok (b, p') ∧ p'.count ≤ p.count + 2 * objectsAll fs
  | [], p, _, _, _, _ => ⟨[], p, rfl, by simp [objectsAll]⟩
  | (o, f) :: fs, p, prev, hinc, hok, hroom => by
    obtain ⟨hprev, ho, hrest⟩ := hinc
    obtain ⟨d, hd, _, _⟩ := offsetDelta_ok hprev ho
    simp only [List.all_cons, Bool.and_eq_true] at hok
    simp only [objectsAll] at hroom ⊢
    obtain ⟨b1, p1, h1, c1⟩ := writeFrame_ok_of (lp := lp) f p d hok.1 (by omega)
    obtain ⟨bs, p2, h2, c2⟩ := writeFrames_ok_of fs p1 (some o) hrest hok.2 (by omega)
    refine ⟨?w9, p2, ?h9, by omega⟩
    case h9 => simp only [writeFrames, hd, h1, h2]; first | rfl | done

theorem body_ok_of {lp : Nat → Option Nat} (fs : List (Nat × Frame)) (p : Pool) (hinc : Incr none fs)
    (hok : tableOk lp fs = true) (hroom : p.count + 2 * objectsAll fs ≤ 65535) :
    ∃ b p', body lp p fs = .ok (b, p') := by
  simp only [tableOk, Bool.and_eq_true, decide_eq_true_eq] at hok
  obtain ⟨bs, p1, h1, _⟩ := writeFrames_ok_of (lp := lp) fs p none hinc hok.2 hroom
  have : ¬ fs.length > 65535 := by omega
  exact ⟨_, p1, by simp only [body, this, if_false, h1]; rfl⟩

end FrameWrite
