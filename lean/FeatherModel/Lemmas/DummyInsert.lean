import FeatherModel.Lemmas.DummyList

/-! C10 helper lemmas: the model of `insert_dummy_and_contract_inner_names` equals its truth-table specification;
the per-node functions are idempotent. -/

namespace DummyInsert
open Dummy DummySpec DummyList DummyDiff

theorem leaf_eq (ph : JStr) (info doc : Action JStr) :
    (if (validate ph info).1 && ((validate ph info).2.isDiff || doc.isDiff) then some (validate ph info).2 else none)
      = leafRule ph info doc := by
  cases info with
  | none => simp [validate, leafRule, Action.isDiff]
  | add b => simp [validate, leafRule]
  | remove a => simp [validate, leafRule, Action.isDiff]
  | edit a b => simp [validate, leafRule, Action.isDiff]

theorem parent_eq (ph : JStr) (info doc : Action JStr) (ch : Bool) :
    (if ((validate ph info).1 && ((validate ph info).2.isDiff || doc.isDiff)) || ch then some (validate ph info).2 else none)
      = parentRule ph info doc ch := by
  cases info with
  | none => simp [validate, parentRule, Action.isDiff]
  | add b => simp [validate, parentRule]
  | remove a => simp [validate, parentRule, Action.isDiff, or_assoc]
  | edit a b => simp [validate, parentRule, Action.isDiff, or_assoc]

theorem insertParam_eq (k : Nat) (p : PDiff) : insertParam k p = specParam k p := by
  unfold insertParam specParam
  rw [← leaf_eq]
  simp only
  split <;> rfl

theorem insertField_eq (k : MKey) (f : FDiff) : insertField k f = specField k f := by
  unfold insertField specField
  rw [← leaf_eq]
  simp only
  split <;> rfl

theorem insertMethod_eq (k : MKey) (m : MDiff) : insertMethod k m = specMethod k m := by
  unfold insertMethod specMethod
  simp only
  rw [← parent_eq, retainK_congr insertParam_eq]
  split <;> rfl

theorem insertClass_eq (k : JStr) (c : CDiff) : insertClass k c = specClass k c := by
  unfold insertClass specClass
  simp only
  rw [← parent_eq, retainK_congr insertField_eq, retainK_congr insertMethod_eq]
  simp only [Bool.or_assoc]
  split <;> rfl

theorem insertDummy_eq (d : Diff) : insertDummy d = insertSpec d := by
  unfold insertDummy insertSpec
  rw [retainK_congr insertClass_eq]

/-! ### idempotence of the per-node functions -/

theorem validate_snd_idem (ph : JStr) (i : Action JStr) : (validate ph (validate ph i).2).2 = (validate ph i).2 := by
  cases i <;> rfl

theorem validate_fst_idem (ph : JStr) (i : Action JStr) (h : (validate ph i).1 = true) :
    (validate ph (validate ph i).2).1 = true := by
  cases i <;> first | rfl | (simp [validate] at h)

theorem insertParam_idem (k : Nat) (p p' : PDiff) (h : insertParam k p = some p') : insertParam k p' = some p' := by
  unfold insertParam at h
  simp only at h
  split at h
  · rename_i hc
    simp only [Option.some.injEq] at h
    subst h
    simp only [Bool.and_eq_true] at hc
    unfold insertParam
    simp only [validate_snd_idem, validate_fst_idem _ _ hc.1, hc.2, Bool.and_self, if_true]
  · simp at h

theorem insertField_idem (k : MKey) (f f' : FDiff) (h : insertField k f = some f') : insertField k f' = some f' := by
  unfold insertField at h
  simp only at h
  split at h
  · rename_i hc
    simp only [Option.some.injEq] at h
    subst h
    simp only [Bool.and_eq_true] at hc
    unfold insertField
    simp only [validate_snd_idem, validate_fst_idem _ _ hc.1, hc.2, Bool.and_self, if_true]
  · simp at h

theorem insertMethod_idem (k : MKey) (m m' : MDiff) (h : insertMethod k m = some m') : insertMethod k m' = some m' := by
  unfold insertMethod at h
  simp only at h
  split at h
  · rename_i hc
    simp only [Option.some.injEq] at h
    subst h
    unfold insertMethod
    simp only [validate_snd_idem, retainK_idem insertParam insertParam_idem]
    rw [if_pos]
    simp only [Bool.or_eq_true, Bool.and_eq_true] at hc ⊢
    rcases hc with ⟨h1, h2⟩ | h3
    · exact Or.inl ⟨validate_fst_idem _ _ h1, h2⟩
    · exact Or.inr h3
  · simp at h

theorem insertClass_idem (k : JStr) (c c' : CDiff) (h : insertClass k c = some c') : insertClass k c' = some c' := by
  unfold insertClass at h
  simp only at h
  split at h
  · rename_i hc
    simp only [Option.some.injEq] at h
    subst h
    unfold insertClass
    simp only [validate_snd_idem, retainK_idem insertField insertField_idem, retainK_idem insertMethod insertMethod_idem]
    rw [if_pos]
    simp only [Bool.or_eq_true, Bool.and_eq_true] at hc ⊢
    rcases hc with (⟨h1, h2⟩ | h3) | h4
    · exact Or.inl (Or.inl ⟨validate_fst_idem _ _ h1, h2⟩)
    · exact Or.inl (Or.inr h3)
    · exact Or.inr h4
  · simp at h

end DummyInsert
