import FeatherModel.Model.Maven

/-! String lemmas for the printers / parsers of C19: `splitOn`, `rsplitOnce`, `splitOnceAt` on concatenations,
and the three print ∘ parse round trips. -/

namespace Maven

/-! ## `str::split(c)` -/

theorem splitOn_not_mem {c : Nat} {a : List Nat} (h : c ∉ a) : splitOn c a = [a] := by
  induction a with
  | nil => rfl
  | cons x xs ih =>
    have hx : x ≠ c := fun e => h (by simp [e])
    have hxs : c ∉ xs := fun e => h (by simp [e])
    simp [splitOn, hx, ih hxs]

theorem splitOn_append {c : Nat} {a : List Nat} (b : List Nat) (h : c ∉ a) :
    splitOn c (a ++ c :: b) = a :: splitOn c b := by
  induction a with
  | nil => simp [splitOn]
  | cons x xs ih =>
    have hx : x ≠ c := fun e => h (by simp [e])
    have hxs : c ∉ xs := fun e => h (by simp [e])
    simp [splitOn, hx, ih hxs]

/-! ## `str::rsplit_once(c)` -/

theorem rsplitOnce_not_mem {c : Nat} {a : List Nat} (h : c ∉ a) : rsplitOnce c a = none := by
  induction a with
  | nil => rfl
  | cons x xs ih =>
    have hx : x ≠ c := fun e => h (by simp [e])
    have hxs : c ∉ xs := fun e => h (by simp [e])
    simp [rsplitOnce, hx, ih hxs]

theorem rsplitOnce_append {c : Nat} (a : List Nat) {b : List Nat} (h : c ∉ b) :
    rsplitOnce c (a ++ c :: b) = some (a, b) := by
  induction a with
  | nil => simp [rsplitOnce, rsplitOnce_not_mem h]
  | cons x xs ih => simp [rsplitOnce, ih]

/-! ## `str::split_once(" @ ")` -/

theorem splitOnceAt_nil : splitOnceAt [] = none := rfl

theorem splitOnceAt_cons (x : Nat) (xs : List Nat) :
    splitOnceAt (x :: xs) =
      match startsSep (x :: xs) with
      | some rest => some ([], rest)
      | none => (splitOnceAt xs).map (fun p => (x :: p.1, p.2)) := by
  rw [splitOnceAt]
  cases startsSep (x :: xs) with
  | some r => rfl
  | none => cases splitOnceAt xs <;> rfl

/-- a string without `" @ "` that does not end in `" @"`, followed by `" @ "` and anything, splits at that place -/
theorem splitOnceAt_append (l u : List Nat) (h : splitOnceAt (l ++ [32, 64]) = none) :
    splitOnceAt (l ++ 32 :: 64 :: 32 :: u) = some (l, u) := by
  induction l with
  | nil => simp [splitOnceAt_cons, startsSep]
  | cons x xs ih =>
    rw [List.cons_append, splitOnceAt_cons] at h
    rw [List.cons_append, splitOnceAt_cons]
    have hs : startsSep (x :: (xs ++ [32, 64])) = none := by
      cases hh : startsSep (x :: (xs ++ [32, 64])) with
      | none => rfl
      | some r => rw [hh] at h; simp at h
    rw [hs] at h
    have hrec : splitOnceAt (xs ++ [32, 64]) = none := by
      cases hh : splitOnceAt (xs ++ [32, 64]) with
      | none => rfl
      | some r => rw [hh] at h; simp at h
    have hs' : startsSep (x :: (xs ++ 32 :: 64 :: 32 :: u)) = none := by
      rcases xs with _ | ⟨y, _ | ⟨z, zs⟩⟩
      · simp [startsSep]
      · simp [startsSep] at hs ⊢
        omega
      · simpa [startsSep] using hs
    rw [hs', ih hrec]
    rfl

/-- no `" @ "` in `a`, none in `b`: none in `a ++ ":" ++ b` -/
theorem splitOnceAt_colon (a b : List Nat) (ha : splitOnceAt a = none) (hb : splitOnceAt b = none) :
    splitOnceAt (a ++ 58 :: b) = none := by
  induction a with
  | nil =>
    rw [List.nil_append, splitOnceAt_cons, hb]
    rcases b with _ | ⟨y, _ | ⟨z, zs⟩⟩ <;> simp [startsSep]
  | cons x xs ih =>
    rw [splitOnceAt_cons] at ha
    rw [List.cons_append, splitOnceAt_cons]
    have hs : startsSep (x :: xs) = none := by
      cases hh : startsSep (x :: xs) with
      | none => rfl
      | some r => rw [hh] at ha; simp at ha
    rw [hs] at ha
    have hrec : splitOnceAt xs = none := by
      cases hh : splitOnceAt xs with
      | none => rfl
      | some r => rw [hh] at ha; simp at ha
    have hs' : startsSep (x :: (xs ++ 58 :: b)) = none := by
      rcases xs with _ | ⟨y, _ | ⟨z, zs⟩⟩
      · rcases b with _ | ⟨w, ws⟩ <;> simp [startsSep]
      · simp [startsSep]
      · simpa [startsSep] using hs
    rw [hs', ih hrec]
    rfl

/-! ## Scopes -/

theorem scope_parse_print (s : Scope) : Scope.parse s.print = some s := by
  cases s <;> decide

theorem scope_print_no_colon (s : Scope) : COLON ∉ s.print := by
  cases s <;> decide

theorem scope_print_sepfree (s : Scope) : splitOnceAt (s.print ++ [32, 64]) = none := by
  cases s <;> decide

/-! ## Coordinates -/

/-- no field of the coordinate contains `:` -/
def Coord.colonFree (c : Coord) : Prop :=
  COLON ∉ c.group ∧ COLON ∉ c.artifact ∧ COLON ∉ c.version ∧ COLON ∉ c.type_ ∧ ∀ k, c.classifier = some k → COLON ∉ k

theorem coord_parse_print (c : Coord) (h : c.colonFree) : Coord.parse c.print = some c := by
  obtain ⟨hg, ha, hv, ht, hk⟩ := h
  obtain ⟨g, a, v, k, t⟩ := c
  cases k with
  | none =>
    simp only [Coord.print, Coord.parse, List.append_nil]
    rw [splitOn_append _ hg, splitOn_append _ ha, splitOn_append _ ht, splitOn_not_mem hv]
  | some k =>
    have hk' : COLON ∉ k := hk k rfl
    simp only [Coord.print, Coord.parse, List.append_assoc, List.cons_append]
    rw [splitOn_append _ hg, splitOn_append _ ha, splitOn_append _ ht, splitOn_append _ hk', splitOn_not_mem hv]

/-! ## Found dependencies -/

theorem found_parse_print (f : Found) (h : f.coord.colonFree) (hs : splitOnceAt f.coord.print = none) :
    Found.parse f.print =
      some { resolver := { name := f.resolver.maven, maven := f.resolver.maven }, coord := f.coord, scope := f.scope } := by
  have e : f.print = (f.coord.print ++ COLON :: f.scope.print) ++ 32 :: 64 :: 32 :: f.resolver.maven := by
    simp [Found.print, SPACE, AT]
  have h1 : splitOnceAt ((f.coord.print ++ COLON :: f.scope.print) ++ [32, 64]) = none := by
    rw [List.append_assoc, List.cons_append]
    exact splitOnceAt_colon _ _ hs (scope_print_sepfree f.scope)
  unfold Found.parse
  rw [e, splitOnceAt_append _ _ h1]
  simp only [rsplitOnce_append _ (scope_print_no_colon f.scope), coord_parse_print _ h, scope_parse_print]

end Maven
