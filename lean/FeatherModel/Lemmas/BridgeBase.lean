import FeatherModel.Model.Bridge

/-! Lemmas about the `IndexMap` / `IndexSet` operations of `Model/Bridge.lean` (C15). -/

namespace Bridge

variable {K V : Type}

theorem lookup_upsert_self [BEq K] [LawfulBEq K] (k : K) (v : V) (m : AList K V) :
    AList.lookup k (upsert k v m) = some v := by
  induction m with
  | nil => simp [upsert, AList.lookup]
  | cons e rest ih =>
    obtain ⟨k', v'⟩ := e
    by_cases h : (k' == k) = true
    · simp [upsert, AList.lookup, h]
    · simp [upsert, AList.lookup, h, ih]

theorem lookup_upsert_ne [BEq K] [LawfulBEq K] {k k' : K} (v : V) (m : AList K V) (hne : k' ≠ k) :
    AList.lookup k' (upsert k v m) = AList.lookup k' m := by
  induction m with
  | nil =>
    have : (k == k') = false := by simp; exact fun h => hne h.symm
    simp [upsert, AList.lookup, this]
  | cons e rest ih =>
    obtain ⟨k₀, v₀⟩ := e
    by_cases h : (k₀ == k) = true
    · have hk : k₀ = k := by simpa using h
      have : (k₀ == k') = false := by simp [hk]; exact fun h => hne h.symm
      simp [upsert, AList.lookup, h, this]
    · by_cases h2 : (k₀ == k') = true
      · simp [upsert, AList.lookup, h, h2]
      · simp [upsert, AList.lookup, h, h2, ih]

theorem lookup_upsert [BEq K] [LawfulBEq K] [DecidableEq K] (k k' : K) (v : V) (m : AList K V) :
    AList.lookup k' (upsert k v m) = if k' = k then some v else AList.lookup k' m := by
  by_cases h : k' = k
  · subst h; simp [lookup_upsert_self]
  · simp [h, lookup_upsert_ne v m h]

/-- an existing key keeps the key list -/
theorem keys_upsert_of_some [BEq K] [LawfulBEq K] {k : K} {v₀ : V} (v : V) {m : AList K V}
    (h : AList.lookup k m = some v₀) : (upsert k v m).map Prod.fst = m.map Prod.fst := by
  induction m with
  | nil => simp [AList.lookup] at h
  | cons e rest ih =>
    obtain ⟨k', v'⟩ := e
    by_cases hk : (k' == k) = true
    · simp [upsert, hk]
    · simp [AList.lookup, hk] at h
      simp [upsert, hk, ih h]

/-- a new key is appended -/
theorem upsert_of_none [BEq K] {k : K} (v : V) {m : AList K V}
    (h : AList.lookup k m = none) : upsert k v m = m ++ [(k, v)] := by
  induction m with
  | nil => simp [upsert]
  | cons e rest ih =>
    obtain ⟨k', v'⟩ := e
    by_cases hk : (k' == k) = true
    · simp [AList.lookup, hk] at h
    · simp [AList.lookup, hk] at h
      simp [upsert, hk, ih h]

theorem lookup_none_of_not_mem_keys [BEq K] [LawfulBEq K] {k : K} {m : AList K V}
    (h : k ∉ m.map Prod.fst) : AList.lookup k m = none := by
  induction m with
  | nil => simp [AList.lookup]
  | cons e rest ih =>
    obtain ⟨k', v'⟩ := e
    simp at h
    have : (k' == k) = false := by simp; exact fun e => h.1 e.symm
    simp [AList.lookup, this]
    exact ih (by simpa using h.2)

theorem mem_keys_of_lookup [BEq K] [LawfulBEq K] {k : K} {v : V} {m : AList K V}
    (h : AList.lookup k m = some v) : (k, v) ∈ m := by
  induction m with
  | nil => simp [AList.lookup] at h
  | cons e rest ih =>
    obtain ⟨k', v'⟩ := e
    by_cases hk : (k' == k) = true
    · simp [AList.lookup, hk] at h
      have : k' = k := by simpa using hk
      simp [this, h]
    · simp [AList.lookup, hk] at h
      exact List.mem_cons_of_mem _ (ih h)

/-- with unique keys membership is lookup -/
theorem lookup_of_mem_nodup [BEq K] [LawfulBEq K] {k : K} {v : V} {m : AList K V}
    (hnd : (m.map Prod.fst).Nodup) (h : (k, v) ∈ m) : AList.lookup k m = some v := by
  induction m with
  | nil => simp at h
  | cons e rest ih =>
    obtain ⟨k', v'⟩ := e
    simp at hnd
    rcases List.mem_cons.mp h with h | h
    · cases h; simp [AList.lookup]
    · have : (k' == k) = false := by
        simp
        intro e
        subst e
        exact hnd.1 v h
      simp [AList.lookup, this]
      exact ih hnd.2 h

theorem mem_upsert [BEq K] [LawfulBEq K] {k : K} {v : V} {m : AList K V} {p : K × V} (h : p ∈ upsert k v m) :
    p ∈ m ∨ p = (k, v) := by
  induction m with
  | nil => simp [upsert] at h; exact Or.inr h
  | cons e rest ih =>
    obtain ⟨k', v'⟩ := e
    by_cases hk : (k' == k) = true
    · simp [upsert, hk] at h
      rcases h with h | h
      · have hkk : k' = k := by simpa using hk
        exact Or.inr (by rw [h, hkk])
      · exact Or.inl (List.mem_cons_of_mem _ h)
    · simp [upsert, hk] at h
      rcases h with h | h
      · exact Or.inl (by simp [h])
      · rcases ih h with h | h
        · exact Or.inl (List.mem_cons_of_mem _ h)
        · exact Or.inr h

theorem keys_upsert_nodup [BEq K] [LawfulBEq K] (k : K) (v : V) {m : AList K V}
    (h : (m.map Prod.fst).Nodup) : ((upsert k v m).map Prod.fst).Nodup := by
  cases hl : AList.lookup k m with
  | some v₀ => rw [keys_upsert_of_some v hl]; exact h
  | none =>
    rw [upsert_of_none v hl]
    simp [List.nodup_append, h]
    intro a b hab heq
    subst heq
    have := lookup_of_mem_nodup h hab
    simp [hl] at this

/-! ## `IndexSet` -/

theorem mem_setInsert {α : Type} [BEq α] [LawfulBEq α] (x y : α) (l : List α) :
    y ∈ setInsert x l ↔ y ∈ l ∨ y = x := by
  unfold setInsert
  by_cases h : x ∈ l
  · simp [h]
    intro e; subst e; exact h
  · simp [h]

theorem nodup_setInsert {α : Type} [BEq α] [LawfulBEq α] (x : α) {l : List α} (h : l.Nodup) :
    (setInsert x l).Nodup := by
  unfold setInsert
  by_cases hc : x ∈ l
  · simp [hc, h]
  · simp [hc, List.nodup_append, h]
    intro a ha e
    subst e
    exact hc ha

theorem mem_setExtend {α : Type} [BEq α] [LawfulBEq α] (y : α) (xs l : List α) :
    y ∈ setExtend l xs ↔ y ∈ l ∨ y ∈ xs := by
  unfold setExtend
  induction xs generalizing l with
  | nil => simp
  | cons x rest ih =>
    simp only [List.foldl_cons]
    rw [ih, mem_setInsert]
    simp only [List.mem_cons]
    constructor
    · rintro ((h | h) | h)
      · exact Or.inl h
      · exact Or.inr (Or.inl h)
      · exact Or.inr (Or.inr h)
    · rintro (h | h | h)
      · exact Or.inl (Or.inl h)
      · exact Or.inl (Or.inr h)
      · exact Or.inr h

theorem nodup_setExtend {α : Type} [BEq α] [LawfulBEq α] (xs : List α) {l : List α} (h : l.Nodup) :
    (setExtend l xs).Nodup := by
  unfold setExtend
  induction xs generalizing l with
  | nil => simpa
  | cons x rest ih => exact ih (nodup_setInsert x h)

end Bridge
