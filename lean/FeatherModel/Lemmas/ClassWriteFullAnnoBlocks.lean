import FeatherModel.Lemmas.ClassWriteFullAnno

/-!
# C02 (whole writer) — the four annotation blocks every owner has
-/

namespace ClassWriteFull
open PoolWrite (Entry)
open FramePool (Good Le)
open ClassRead ClassRead.Spec

/-- annotations the reader accepts again: well-typed constants, nesting within the reader's limit of 255 levels -/
def AnnosOk (as : List Annotation) : Prop := ∀ a ∈ as, a.ok ∧ a.depth ≤ 255

instance (o : Owner) (t : Target) : Decidable (targetOk o t) := by
  cases o <;> cases t <;> simp only [targetOk] <;> infer_instance

instance (path : List (Nat × Nat)) : Decidable (typePathOk path) := by unfold typePathOk; infer_instance

/-- type annotations of an owner: a target the owner admits with operands in range, a well-formed type path, and an
annotation as in `AnnosOk` -/
def TypeAnnosOk (o : Owner) (as : List TypeAnno) : Prop :=
  ∀ a ∈ as, targetOk o a.target ∧ typePathOk a.path ∧ a.anno.ok ∧ a.anno.depth ≤ 255

instance (as : List Annotation) : Decidable (AnnosOk as) := by unfold AnnosOk; infer_instance
instance (o : Owner) (as : List TypeAnno) : Decidable (TypeAnnosOk o as) := by unfold TypeAnnosOk; infer_instance

/-- `writeList_spec` for lists whose elements satisfy a side condition -/
theorem writeList_spec' {α β : Type} (f : Pool → α → W) (enc : β → Bytes) (P : α → Prop) (R : Pool → α → β → Prop)
    (hmono : ∀ p p' a l, Le p p' → R p a l → R p' a l)
    (hf : ∀ p p' a b, Good p → P a → f p a = .ok (b, p') → Step p p' ∧ ∃ l, b = enc l ∧ R p' a l) :
    ∀ (xs : List α) (p p' : Pool) (b : Bytes), Good p → (∀ x ∈ xs, P x) → writeList f p xs = .ok (b, p') →
      Step p p' ∧ ∃ ls : List β, b = ls.flatMap enc ∧ ls.length = xs.length ∧ ∀ x ∈ ls.zip xs, R p' x.2 x.1 := by
  intro xs
  induction xs with
  | nil =>
    intro p p' b hg _ h
    obtain ⟨rfl, rfl⟩ := writeList_nil_inv h
    exact ⟨Step.refl hg, [], rfl, rfl, by simp⟩
  | cons a as ih =>
    intro p p' b hg hP h
    obtain ⟨b1, p1, b2, h1, h2, rfl⟩ := writeList_cons_inv h
    obtain ⟨s1, l, rfl, r1⟩ := hf p p1 a b1 hg (hP a (by simp)) h1
    obtain ⟨s2, ls, rfl, hl, r2⟩ := ih p1 p' b2 s1.good (fun x hx => hP x (by simp [hx])) h2
    refine ⟨s1.trans s2, l :: ls, by simp, by simp [hl], ?_⟩
    intro x hx
    simp only [List.zip_cons_cons, List.mem_cons] at hx
    rcases hx with rfl | hx
    · exact hmono _ _ _ _ s2.le r1
    · exact r2 x hx

theorem forall_of_zip {α β : Type} {Q : α → Prop} {ls : List α} {xs : List β} (hl : ls.length = xs.length)
    (h : ∀ x ∈ ls.zip xs, Q x.1) : ∀ l ∈ ls, Q l := by
  intro l hm
  obtain ⟨k, hk, hlk⟩ := List.getElem_of_mem hm
  have hz : (l, xs[k]'(by omega)) ∈ ls.zip xs := by
    rw [← hlk]
    exact List.mem_iff_getElem.mpr ⟨k, by rw [List.length_zip]; omega, by simp⟩
  exact h _ hz

theorem annosAttr_spec {name : JStr} {as : List Annotation} {p p' : Pool} {o : Option Bytes} (hg : Good p)
    (hok : AnnosOk as) (h : annosAttr name as p = .ok (o, p')) :
    Step p p' ∧ ((as = [] ∧ o = none) ∨
      ∃ sas : List SAnno, Present o p' name (encAnnos sas) ∧ sas.map SAnno.fact = as ∧ sas.length < 65536 ∧
        (encAnnos sas).length < 4294967296 ∧ ∀ sa ∈ sas, Sound p' (fun rp => sa.Ok rp)) := by
  rcases onlyIf_inv h with ⟨_, b, hb, rfl⟩ | ⟨hc, rfl, rfl⟩
  · obtain ⟨bb, p1, i, h1, h2, hlen, rfl⟩ := attrBuf_inv hb
    obtain ⟨hl, bb', h3, rfl⟩ := writeSlice16_inv h1
    obtain ⟨s1, sas, rfl, hlen', hr⟩ := writeList_spec' writeAnnotation SAnno.encode (fun a => a.ok ∧ a.depth ≤ 255)
      (fun p a sa => sa.fact = a ∧ sa.nest ≤ 255 ∧ ∀ q, Ext p q → sa.Legal (rpool q))
      (fun p p' a l hle hr => ⟨hr.1, hr.2.1, fun q hq => hr.2.2 q (hq.of_le hle)⟩)
      (fun p p' a b hg hP h => by
        obtain ⟨s, sa, rfl, hf, hn, hleg⟩ := writeAnnotation_spec a hg hP.1 h
        exact ⟨s, sa, rfl, hf, by rw [hn]; exact hP.2, hleg⟩) as p p1 bb' hg hok h3
    obtain ⟨s2, a2, hi⟩ := putUtf8_spec s1.good h2
    refine ⟨s1.trans s2, Or.inr ⟨sas, ⟨i, by simp [encAnnos, hlen'], hi, a2⟩,
      map_eq_of_zip _ sas as hlen' (fun x hx => (hr x hx).1), by omega, ?_, ?_⟩⟩
    · have : (encAnnos sas).length = (be16 as.length ++ sas.flatMap SAnno.encode).length := by simp [encAnnos, hlen']
      omega
    · refine forall_of_zip (Q := fun sa => Sound p' (fun rp => SAnno.Ok rp sa)) hlen' ?_
      intro x hx q hq
      exact ⟨(hr x hx).2.2 q (hq.of_le s2.le), (hr x hx).2.1⟩
  · refine ⟨Step.refl hg, Or.inl ⟨?_, rfl⟩⟩
    cases as with
    | nil => rfl
    | cons _ _ => simp at hc

theorem writeTypePath_eq {path : List (Nat × Nat)} {b : Bytes} (h : writeTypePath path = .ok b) : b = encTypePath path := by
  obtain ⟨c, h1, h2⟩ := bind_eq_ok.mp h
  obtain ⟨_, rfl⟩ := cnt8_eq_ok.mp h1
  have := pure_eq_ok.mp h2
  subst this
  simp [encTypePath]

theorem typeAnnosAttr_spec {wt : Target → Except Fail Bytes} {own : Owner}
    (hwt : ∀ t b, wt t = .ok b → targetOk own t → b = encTarget t)
    {name : JStr} {as : List TypeAnno} {p p' : Pool} {o : Option Bytes} (hg : Good p)
    (hok : TypeAnnosOk own as) (h : typeAnnosAttr wt name as p = .ok (o, p')) :
    Step p p' ∧ ((as = [] ∧ o = none) ∨
      ∃ sas : List STypeAnno, Present o p' name (encTypeAnnos sas) ∧ sas.map STypeAnno.fact = as ∧ sas.length < 65536 ∧
        (encTypeAnnos sas).length < 4294967296 ∧ ∀ sa ∈ sas, Sound p' (fun rp => sa.Legal rp own)) := by
  rcases onlyIf_inv h with ⟨_, b, hb, rfl⟩ | ⟨hc, rfl, rfl⟩
  · obtain ⟨bb, p1, i, h1, h2, hlen, rfl⟩ := attrBuf_inv hb
    obtain ⟨hl, bb', h3, rfl⟩ := writeSlice16_inv h1
    obtain ⟨s1, sas, rfl, hlen', hr⟩ := writeList_spec' _ STypeAnno.encode
      (fun (a : TypeAnno) => targetOk own a.target ∧ typePathOk a.path ∧ a.anno.ok ∧ a.anno.depth ≤ 255)
      (fun p (a : TypeAnno) (sa : STypeAnno) => sa.fact = a ∧ ∀ q, Ext p q → sa.Legal (rpool q) own)
      (fun p p' a l hle hr => ⟨hr.1, fun q hq => hr.2 q (hq.of_le hle)⟩)
      (fun p p' a b hg hP h => by
        obtain ⟨t, ht, h⟩ := bind_eq_ok.mp h
        obtain ⟨tp, htp, h⟩ := bind_eq_ok.mp h
        obtain ⟨⟨ab, p2⟩, ha, h⟩ := bind_eq_ok.mp h
        have := pure_eq_ok.mp h
        cases this
        obtain ⟨s, sa, rfl, hf, hn, hleg⟩ := writeAnnotation_spec a.anno hg hP.2.2.1 ha
        refine ⟨s, ⟨a.target, a.path, sa⟩, ?_, ?_, ?_⟩
        · simp [STypeAnno.encode, hwt _ _ ht hP.1, writeTypePath_eq htp]
        · cases a; simp_all [STypeAnno.fact]
        · intro q hq
          exact ⟨hP.1, hP.2.1, hleg q hq, by rw [hn]; exact hP.2.2.2⟩) as p p1 bb' hg hok h3
    obtain ⟨s2, a2, hi⟩ := putUtf8_spec s1.good h2
    refine ⟨s1.trans s2, Or.inr ⟨sas, ⟨i, by simp [encTypeAnnos, hlen'], hi, a2⟩,
      map_eq_of_zip _ sas as hlen' (fun x hx => (hr x hx).1), by omega, ?_, ?_⟩⟩
    · have : (encTypeAnnos sas).length = (be16 as.length ++ sas.flatMap STypeAnno.encode).length := by simp [encTypeAnnos, hlen']
      omega
    · refine forall_of_zip (Q := fun sa => Sound p' (fun rp => STypeAnno.Legal rp own sa)) hlen' ?_
      intro x hx q hq
      exact (hr x hx).2 q (hq.of_le s2.le)
  · refine ⟨Step.refl hg, Or.inl ⟨?_, rfl⟩⟩
    cases as with
    | nil => rfl
    | cons _ _ => simp at hc

theorem writeTargetField_eq (t : Target) (b : Bytes) (h : writeTargetField t = .ok b) (_ : targetOk .field t) : b = encTarget t := by
  cases t <;> simp only [writeTargetField] at h <;> first | (have := ok_inj.mp h; subst this; rfl) | cases h

theorem writeTargetClass_eq (t : Target) (b : Bytes) (h : writeTargetClass t = .ok b) (hok : targetOk .cls t) : b = encTarget t := by
  cases t <;> simp only [writeTargetClass, targetOk] at h hok <;>
    first
    | (have := ok_inj.mp h; subst this; rfl)
    | (obtain ⟨rfl, _⟩ := hok; simp at h; subst h; rfl)
    | cases h

theorem writeTargetMethod_eq (t : Target) (b : Bytes) (h : writeTargetMethod t = .ok b) (hok : targetOk .method t) : b = encTarget t := by
  cases t <;> simp only [writeTargetMethod, targetOk] at h hok <;>
    first
    | (have := ok_inj.mp h; subst this; rfl)
    | (obtain ⟨rfl, _⟩ := hok; simp at h; subst h; rfl)
    | cases h

/-- the four blocks, one after the other -/
theorem annoBlocks_inv {wt : Target → Except Fail Bytes} {rva ria : List Annotation} {rvta rita : List TypeAnno}
    {p p' : Pool} {bs : List Bytes} (h : runAttrs (annoBlocks wt rva ria rvta rita) p = .ok (bs, p')) :
    ∃ o1 q1 o2 q2 o3 q3 o4, annosAttr sRVA rva p = .ok (o1, q1) ∧ annosAttr sRIA ria q1 = .ok (o2, q2) ∧
      typeAnnosAttr wt sRVTA rvta q2 = .ok (o3, q3) ∧ typeAnnosAttr wt sRITA rita q3 = .ok (o4, p') ∧
      bs = o1.toList ++ (o2.toList ++ (o3.toList ++ (o4.toList ++ []))) := by
  unfold annoBlocks at h
  obtain ⟨o1, q1, r1, e1, k1, rfl⟩ := runAttrs_cons_inv h
  obtain ⟨o2, q2, r2, e2, k2, rfl⟩ := runAttrs_cons_inv k1
  obtain ⟨o3, q3, r3, e3, k3, rfl⟩ := runAttrs_cons_inv k2
  obtain ⟨o4, q4, r4, e4, k4, rfl⟩ := runAttrs_cons_inv k3
  obtain ⟨rfl, rfl⟩ := runAttrs_nil_inv k4
  exact ⟨o1, q1, o2, q2, o3, q3, o4, e1, e2, e3, e4, rfl⟩

end ClassWriteFull
