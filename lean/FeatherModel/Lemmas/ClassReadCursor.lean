import FeatherModel.Spec.ClassEncode
import FeatherModel.Lemmas.ClassReadBytes
import FeatherModel.Lemmas.ClassReadLabels

/-! C01 lemmas: the cursor primitives of the code reader on encoded operands. -/

namespace ClassRead
open Outcome Spec

theorem cU8_cons (a b : Nat) (r : Bytes) : cU8 (a, b :: r) = ok (b, (a + 1, r)) := by
  simp [cU8, u8]

theorem cU16_be (a n : Nat) (h : n < 65536) (r : Bytes) : cU16 (a, be16 n ++ r) = ok (n, (a + 2, r)) := by
  simp [cU16, u16_be16 n h]

theorem cI8_of (a : Nat) (v : Int) (h : inI8 v) (r : Bytes) : cI8 (a, ofI8 v :: r) = ok (v, (a + 1, r)) := by
  have := i8_be v h r
  simp only [be8, Nat.mod_eq_of_lt (ofI8_lt v), List.singleton_append] at this
  simp [cI8, this]

theorem cI16_of (a : Nat) (v : Int) (h : inI16 v) (r : Bytes) : cI16 (a, be16 (ofI16 v) ++ r) = ok (v, (a + 2, r)) := by
  simp [cI16, i16_be v h r]

theorem cI32_of (a : Nat) (v : Int) (h : inI32 v) (r : Bytes) : cI32 (a, be32 (ofI32 v) ++ r) = ok (v, (a + 4, r)) := by
  simp [cI32, i32_be v h r]

theorem branchTarget_rel (pos : Nat → Nat) (a t : Nat) (ht : pos t ≤ 65535) :
    branchTarget a (relOff pos a t) = ok (pos t) := by
  unfold branchTarget relOff
  have h1 : ¬ ((a : Int) + ((pos t : Int) - (a : Int)) < 0) := by omega
  have h2 : ¬ ((a : Int) + ((pos t : Int) - (a : Int)) > 65535) := by omega
  simp only [h1, h2, decide_false, Bool.or_self, Bool.false_eq_true, if_false]
  congr 1; omega

theorem cBranch16_rel (pos : Nat → Nat) (a c t : Nat) (h : inI16 (relOff pos a t)) (ht : pos t ≤ 65535) (r : Bytes) :
    cBranch16 a (c, be16 (ofI16 (relOff pos a t)) ++ r) = ok (pos t, (c + 2, r)) := by
  simp [cBranch16, cI16_of c _ h r, branchTarget_rel pos a t ht]

theorem inI32_rel (pos : Nat → Nat) (a t : Nat) (ha : a ≤ 65535) (ht : pos t ≤ 65535) : inI32 (relOff pos a t) := by
  unfold inI32 relOff; omega

theorem cBranch32_rel (pos : Nat → Nat) (a c t : Nat) (ha : a ≤ 65535) (ht : pos t ≤ 65535) (r : Bytes) :
    cBranch32 a (c, be32 (ofI32 (relOff pos a t)) ++ r) = ok (pos t, (c + 4, r)) := by
  simp [cBranch32, cI32_of c _ (inI32_rel pos a t ha ht) r, branchTarget_rel pos a t ht]

/-- alignment after the opcode byte at offset `a`: exactly `padLen a` bytes are consumed, whatever they are -/
theorem cAlign_pad (a pad : Nat) (r : Bytes) :
    cAlign (a + 1, List.replicate (padLen a) pad ++ r) = ok (a + 1 + padLen a, r) := by
  unfold cAlign padLen
  have h4 : a % 4 < 4 := Nat.mod_lt _ (by decide)
  rcases Nat.lt_or_ge (a % 4) 1 with h0 | h0
  · have e : a % 4 = 0 := by omega
    have e1 : (a + 1) % 4 = 1 := by omega
    simp [e, e1, cU8_cons]
  · rcases Nat.lt_or_ge (a % 4) 2 with h1 | h1
    · have e : a % 4 = 1 := by omega
      have e1 : (a + 1) % 4 = 2 := by omega
      simp [e, e1, cU8_cons]
    · rcases Nat.lt_or_ge (a % 4) 3 with h2 | h2
      · have e : a % 4 = 2 := by omega
        have e1 : (a + 1) % 4 = 3 := by omega
        simp [e, e1, cU8_cons]
      · have e : a % 4 = 3 := by omega
        have e1 : (a + 1) % 4 = 0 := by omega
        simp [e, e1]

theorem cSkip_append (n a : Nat) (b r : Bytes) (h : b.length = n) : cSkip n (a, b ++ r) = ok (a + n, r) := by
  subst h
  simp [cSkip, lengthGe_iff]

end ClassRead
