import FeatherModel.Model.Enigma

/-!
# C12: the insertion sort of the Enigma writer, the orders it is used with, duplicate-freeness
-/

namespace Enigma

section sort
variable {α β : Type}

theorem insertBy_perm (le : α → α → Bool) (a : α) : ∀ l : List α, (insertBy le a l).Perm (a :: l)
  | [] => List.Perm.refl _
  | b :: l => by
    simp only [insertBy]
    split
    · exact List.Perm.refl _
    · exact ((insertBy_perm le a l).cons b).trans (List.Perm.swap a b l)

theorem isort_perm (le : α → α → Bool) : ∀ l : List α, (isort le l).Perm l
  | [] => List.Perm.refl _
  | a :: l => by
    show (insertBy le a (isort le l)).Perm (a :: l)
    exact (insertBy_perm le a _).trans ((isort_perm le l).cons a)

theorem mem_isort {le : α → α → Bool} {l : List α} {a : α} : a ∈ isort le l ↔ a ∈ l :=
  (isort_perm le l).mem_iff

theorem insertBy_pairwise {le : α → α → Bool}
    (total : ∀ a b, le a b = true ∨ le b a = true) (trans : ∀ a b c, le a b = true → le b c = true → le a c = true)
    (a : α) : ∀ l : List α, l.Pairwise (fun x y => le x y = true) → (insertBy le a l).Pairwise (fun x y => le x y = true)
  | [], _ => by simp [insertBy]
  | b :: l, h => by
    simp only [insertBy]
    have hb := List.pairwise_cons.mp h
    split
    · rename_i hab
      refine List.pairwise_cons.mpr ⟨?_, h⟩
      intro x hx
      rcases List.mem_cons.mp hx with rfl | hx
      · exact hab
      · exact trans _ _ _ hab (hb.1 x hx)
    · rename_i hab
      have hba : le b a = true := by
        rcases total a b with h' | h'
        · exact absurd h' hab
        · exact h'
      refine List.pairwise_cons.mpr ⟨?_, insertBy_pairwise total trans a l hb.2⟩
      intro x hx
      rcases List.mem_cons.mp ((insertBy_perm le a l).subset hx) with rfl | hx
      · exact hba
      · exact hb.1 x hx

/-- the output of the sort is sorted -/
theorem isort_pairwise {le : α → α → Bool}
    (total : ∀ a b, le a b = true ∨ le b a = true) (trans : ∀ a b c, le a b = true → le b c = true → le a c = true) :
    ∀ l : List α, (isort le l).Pairwise (fun x y => le x y = true)
  | [] => List.Pairwise.nil
  | a :: l => insertBy_pairwise total trans a _ (isort_pairwise total trans l)

/-- permutations sort to the same list when the order separates the elements of the list -/
theorem isort_eq_of_perm {le : α → α → Bool}
    (total : ∀ a b, le a b = true ∨ le b a = true) (trans : ∀ a b c, le a b = true → le b c = true → le a c = true)
    {l l' : List α} (anti : ∀ a b, a ∈ l → b ∈ l → le a b = true → le b a = true → a = b)
    (h : l.Perm l') : isort le l = isort le l' := by
  apply List.Perm.eq_of_pairwise (le := fun x y => le x y = true)
  · intro a b ha hb
    exact anti a b (mem_isort.mp ha) (h.symm.subset (mem_isort.mp hb))
  · exact isort_pairwise total trans l
  · exact isort_pairwise total trans l'
  · exact (isort_perm le l).trans (h.trans (isort_perm le l').symm)

theorem insertBy_map {le : α → α → Bool} {le' : β → β → Bool} (f : α → β)
    (hf : ∀ a b, le' (f a) (f b) = le a b) (a : α) :
    ∀ l : List α, (insertBy le a l).map f = insertBy le' (f a) (l.map f)
  | [] => rfl
  | b :: l => by
    simp only [insertBy, List.map_cons, hf]
    split
    · rfl
    · simp only [List.map_cons, insertBy_map f hf a l]

theorem isort_map {le : α → α → Bool} {le' : β → β → Bool} (f : α → β)
    (hf : ∀ a b, le' (f a) (f b) = le a b) :
    ∀ l : List α, (isort le l).map f = isort le' (l.map f)
  | [] => rfl
  | a :: l => by
    simp only [isort, List.map_cons]
    rw [insertBy_map f hf, isort_map f hf l]

/-- a sorted list is not changed -/
theorem isort_of_pairwise {le : α → α → Bool} :
    ∀ l : List α, l.Pairwise (fun x y => le x y = true) → isort le l = l
  | [], _ => rfl
  | a :: l, h => by
    have hb := List.pairwise_cons.mp h
    simp only [isort]
    rw [isort_of_pairwise l hb.2]
    cases l with
    | nil => rfl
    | cons b l => simp [insertBy, hb.1 b List.mem_cons_self]

end sort

/-! ## `nodupB`, `AList.contains` -/

theorem nodupB_iff {α : Type} [BEq α] [LawfulBEq α] : ∀ l : List α, nodupB l = true ↔ l.Nodup
  | [] => by simp [nodupB]
  | a :: l => by
    simp only [nodupB, Bool.and_eq_true, Bool.not_eq_true', List.nodup_cons, nodupB_iff l]
    constructor
    · intro ⟨h1, h2⟩
      refine ⟨?_, h2⟩
      intro hm
      have := List.contains_iff_mem.mpr hm
      rw [this] at h1; exact absurd h1 (by simp)
    · intro ⟨h1, h2⟩
      refine ⟨?_, h2⟩
      cases hc : l.contains a with
      | false => rfl
      | true => exact absurd (List.contains_iff_mem.mp hc) h1

theorem contains_eq_false_iff {K V : Type} [BEq K] [LawfulBEq K] (k : K) :
    ∀ m : AList K V, AList.contains k m = false ↔ k ∉ m.map Prod.fst
  | [] => by simp [AList.contains, AList.lookup]
  | (k', v) :: rest => by
    have ih := contains_eq_false_iff k rest
    simp only [AList.contains, AList.lookup] at ih ⊢
    by_cases hk : k' = k
    · subst hk; simp
    · have : (k' == k) = false := beq_eq_false_iff_ne.mpr hk
      simp only [this, Bool.false_eq_true, if_false, List.map_cons, List.mem_cons, not_or]
      rw [ih]
      exact ⟨fun h => ⟨fun e => hk e.symm, h⟩, fun h => h.2⟩

theorem contains_eq_true_iff {K V : Type} [BEq K] [LawfulBEq K] (k : K) (m : AList K V) :
    AList.contains k m = true ↔ k ∈ m.map Prod.fst := by
  have := contains_eq_false_iff k m
  cases hc : AList.contains k m with
  | false => simp [this.mp hc]
  | true =>
    simp only [true_iff]
    apply Classical.byContradiction
    intro hn
    rw [this.mpr hn] at hc
    exact absurd hc (by simp)

theorem lookup_of_mem {K V : Type} [BEq K] [LawfulBEq K] {k : K} {v : V} :
    ∀ {m : AList K V}, (m.map Prod.fst).Nodup → (k, v) ∈ m → AList.lookup k m = some v
  | [], _, h => by simp at h
  | (k', v') :: rest, hnd, h => by
    simp only [List.map_cons, List.nodup_cons] at hnd
    rcases List.mem_cons.mp h with e | h
    · simp only [Prod.mk.injEq] at e
      obtain ⟨rfl, rfl⟩ := e
      simp [AList.lookup]
    · have hne : k' ≠ k := by
        intro e
        subst e
        exact hnd.1 (List.mem_map.mpr ⟨(k', v), h, rfl⟩)
      simp only [AList.lookup, beq_eq_false_iff_ne.mpr hne, Bool.false_eq_true, if_false]
      exact lookup_of_mem hnd.2 h

theorem mem_of_lookup {K V : Type} [BEq K] [LawfulBEq K] {k : K} {v : V} :
    ∀ {m : AList K V}, AList.lookup k m = some v → (k, v) ∈ m
  | [], h => by simp [AList.lookup] at h
  | (k', v') :: rest, h => by
    simp only [AList.lookup] at h
    split at h
    · rename_i hk
      have : k' = k := by simpa using hk
      subst this
      simp only [Option.some.injEq] at h
      subst h
      exact List.mem_cons_self
    · exact List.mem_cons_of_mem _ (mem_of_lookup h)

/-- permutations of duplicate-free association lists have the same `lookup` -/
theorem lookup_perm {K V : Type} [BEq K] [LawfulBEq K] {m m' : AList K V} (hnd : (m.map Prod.fst).Nodup)
    (h : m.Perm m') (k : K) : AList.lookup k m = AList.lookup k m' := by
  have hnd' : (m'.map Prod.fst).Nodup := (h.map Prod.fst).nodup_iff.mp hnd
  cases h1 : AList.lookup k m with
  | some v => exact (lookup_of_mem hnd' (h.subset (mem_of_lookup h1))).symm
  | none =>
    cases h2 : AList.lookup k m' with
    | none => rfl
    | some v =>
      have := lookup_of_mem hnd (h.symm.subset (mem_of_lookup h2))
      rw [h1] at this
      exact absurd this (by simp)

theorem nodup_of_map {α β : Type} (f : α → β) {l : List α} (h : (l.map f).Nodup) : l.Nodup := by
  have := List.pairwise_map.mp h
  exact this.imp (fun hab e => hab (congrArg f e))

end Enigma
