import FeatherModel.Spec.ClassEncode
import FeatherModel.Lemmas.ClassReadBytes

/-! C01 lemmas: annotations and element values are read back from their encoding, at any nesting depth the reader admits. -/

namespace ClassRead
open Outcome Spec

mutual
/-- recursion fuel an element value needs: one unit per nesting level and per loop iteration on the path -/
def Spec.SElem.need : SElem → Nat
  | .anno a => 1 + a.need
  | .arr vs => 1 + needElems vs
  | _ => 1
def Spec.SAnno.need : SAnno → Nat
  | .mk _ _ ps => needPairs ps
def Spec.SPair.need : SPair → Nat
  | .mk _ _ v => v.need
def needElems : List SElem → Nat
  | [] => 1
  | v :: r => 1 + max v.need (needElems r)
def needPairs : List SPair → Nat
  | [] => 1
  | q :: r => 1 + max q.need (needPairs r)
end

theorem readConstElem_enc (p : Pool) (tag cp : Nat) (v : Int) (hcp : cp < 65536) (hv : constValue p tag cp = ok v) (r : Bytes) :
    isConstTag tag = true ∧ readConstElem p tag (be16 cp ++ r) = ok (.const tag v, r) := by
  unfold constValue at hv
  split at hv
  all_goals first
    | (simp at hv; done)
    | skip
  all_goals
    refine ⟨by decide, ?_⟩
    simp only [readConstElem, u16_be16 _ hcp, ok_bind]
  · cases h : p.getInteger cp <;> simp [h] at hv ⊢; exact hv
  · cases h : p.getInteger cp <;> simp [h] at hv ⊢; exact hv
  · cases h : p.getDouble cp <;> simp [h] at hv ⊢; exact hv
  · cases h : p.getFloat cp <;> simp [h] at hv ⊢; exact hv
  · cases h : p.getInteger cp <;> simp [h] at hv ⊢; exact hv
  · cases h : p.getLong cp <;> simp [h] at hv ⊢; exact hv
  · cases h : p.getInteger cp <;> simp [h] at hv ⊢; exact hv
  · cases h : p.getInteger cp <;> simp [h] at hv ⊢; exact hv

mutual
theorem readElemVal_enc (p : Pool) (e : SElem) (he : e.Legal p) (fuel : Nat) (hf : e.need ≤ fuel) (d : Nat)
    (hd : d + e.nest ≤ 255) (r : Bytes) : readElemVal p fuel d (e.encode ++ r) = ok (e.fact, r) := by
  cases fuel with
  | zero => cases e <;> simp [SElem.need] at hf
  | succ fuel =>
    cases e with
    | const tag cp v =>
      obtain ⟨h1, h2⟩ := he
      obtain ⟨k1, k2⟩ := readConstElem_enc p tag cp v h1 h2 r
      simp [readElemVal, SElem.encode, u8, k1, k2, SElem.fact]
    | str cp s =>
      obtain ⟨h1, h2⟩ := he
      simp [readElemVal, SElem.encode, u8, isConstTag, readConstElem, u16_be16 _ h1, h2, SElem.fact]
    | enum tcp ty ncp name =>
      obtain ⟨h1, h2, h3, h4⟩ := he
      simp [readElemVal, SElem.encode, u8, isConstTag, u16_be16 _ h1, u16_be16 _ h2, h3, h4, SElem.fact]
    | cls cp d =>
      obtain ⟨h1, h2⟩ := he
      simp [readElemVal, SElem.encode, u8, isConstTag, u16_be16 _ h1, h2, SElem.fact]
    | anno a =>
      cases a with
      | mk tcp ty ps =>
        simp only [SElem.Legal, SAnno.Legal] at he
        obtain ⟨h1, h2, h3, h4⟩ := he
        simp only [SElem.need, SAnno.need] at hf
        simp only [SElem.nest, SAnno.nest] at hd
        have := readNamedPairs_enc p ps h4 fuel (by omega) (d + 1) (by omega) r
        have hdd : ¬ d + 1 > maxElemDepth := by unfold maxElemDepth; omega
        simp [readElemVal, SElem.encode, SAnno.encode, u8, isConstTag, u16_be16 _ h1, h2, u16_be16 _ h3, this, SElem.fact, SAnno.fact, hdd]
    | arr vs =>
      simp only [SElem.Legal] at he
      obtain ⟨h1, h2⟩ := he
      simp only [SElem.need] at hf
      simp only [SElem.nest] at hd
      have := readUnnamed_enc p vs h2 fuel (by omega) (d + 1) (by omega) r
      have hdd : ¬ d + 1 > maxElemDepth := by unfold maxElemDepth; omega
      simp [readElemVal, SElem.encode, u8, isConstTag, u16_be16 _ h1, this, SElem.fact, hdd]
theorem readNamedPairs_enc (p : Pool) (ps : List SPair) (hps : pairsLegal p ps) (fuel : Nat) (hf : needPairs ps ≤ fuel) (d : Nat)
    (hd : d + pairsNest ps ≤ 255) (r : Bytes) : readNamedPairs p fuel d ps.length (encPairs ps ++ r) = ok (pairFacts ps, r) := by
  cases fuel with
  | zero => cases ps <;> simp [needPairs] at hf
  | succ fuel =>
    cases ps with
    | nil => simp [readNamedPairs, encPairs, pairFacts]
    | cons q qs =>
      cases q with
      | mk ncp name v =>
        simp only [pairsLegal, SPair.Legal] at hps
        obtain ⟨⟨h1, h2, h3⟩, h4⟩ := hps
        simp only [needPairs, SPair.need] at hf
        simp only [pairsNest, SPair.nest] at hd
        have e1 := readElemVal_enc p v h3 fuel (by omega) d (by omega) (encPairs qs ++ r)
        have e2 := readNamedPairs_enc p qs h4 fuel (by omega) d (by omega) r
        simp [readNamedPairs, encPairs, SPair.encode, List.append_assoc, u16_be16 _ h1, h2, e1, e2, pairFacts, SPair.fact]
theorem readUnnamed_enc (p : Pool) (vs : List SElem) (hvs : elemsLegal p vs) (fuel : Nat) (hf : needElems vs ≤ fuel) (d : Nat)
    (hd : d + elemsNest vs ≤ 255) (r : Bytes) : readUnnamed p fuel d vs.length (encElems vs ++ r) = ok (elemFacts vs, r) := by
  cases fuel with
  | zero => cases vs <;> simp [needElems] at hf
  | succ fuel =>
    cases vs with
    | nil => simp [readUnnamed, encElems, elemFacts]
    | cons v ws =>
      simp only [elemsLegal] at hvs
      simp only [needElems] at hf
      simp only [elemsNest] at hd
      have e1 := readElemVal_enc p v hvs.1 fuel (by omega) d (by omega) (encElems ws ++ r)
      have e2 := readUnnamed_enc p ws hvs.2 fuel (by omega) d (by omega) r
      simp [readUnnamed, encElems, List.append_assoc, e1, e2, elemFacts]
end

end ClassRead

namespace ClassRead
open Outcome Spec

theorem need_pos_elem (e : SElem) : 1 ≤ e.need := by cases e <;> simp [SElem.need] <;> omega

mutual
theorem need_le_elem (e : SElem) : e.need ≤ e.encode.length := by
  cases e with
  | const tag cp v => simp [SElem.need, SElem.encode, be16_length]
  | str cp s => simp [SElem.need, SElem.encode, be16_length]
  | enum a b c d => simp [SElem.need, SElem.encode, be16_length]
  | cls cp d => simp [SElem.need, SElem.encode, be16_length]
  | anno a =>
    have := need_le_anno a
    simp [SElem.need, SElem.encode]; omega
  | arr vs =>
    have := need_le_elems vs
    simp [SElem.need, SElem.encode, be16_length]; omega
theorem need_le_anno (a : SAnno) : a.need ≤ a.encode.length := by
  cases a with
  | mk tcp ty ps =>
    have := need_le_pairs ps
    simp [SAnno.need, SAnno.encode, be16_length]; omega
theorem need_le_pair (q : SPair) : q.need ≤ q.encode.length := by
  cases q with
  | mk ncp name v =>
    have := need_le_elem v
    simp [SPair.need, SPair.encode, be16_length]; omega
theorem need_le_elems (vs : List SElem) : needElems vs ≤ 1 + (encElems vs).length := by
  cases vs with
  | nil => simp [needElems, encElems]
  | cons v ws =>
    have := need_le_elem v
    have := need_le_elems ws
    have := need_pos_elem v
    simp [needElems, encElems]; omega
theorem need_le_pairs (ps : List SPair) : needPairs ps ≤ 1 + (encPairs ps).length := by
  cases ps with
  | nil => simp [needPairs, encPairs]
  | cons q qs =>
    have := need_le_pair q
    have := need_le_pairs qs
    have : 1 ≤ q.need := by cases q with | mk _ _ v => simpa [SPair.need] using need_pos_elem v
    simp [needPairs, encPairs]; omega
end

/-- `readAnnotation` (fuel `2 * bytes + 2` is always enough) -/
theorem readAnnotation_enc (p : Pool) (a : SAnno) (ha : a.Ok p) (r : Bytes) :
    readAnnotation p (a.encode ++ r) = ok (a.fact, r) := by
  cases a with
  | mk tcp ty ps =>
    simp only [SAnno.Ok, SAnno.Legal, SAnno.nest] at ha
    obtain ⟨⟨h1, h2, h3, h4⟩, hnest⟩ := ha
    have hn := need_le_pairs ps
    have := readNamedPairs_enc p ps h4 (annoFuel (encPairs ps ++ r)) (by simp [annoFuel]; omega) 0 (by omega) r
    simp [readAnnotation, SAnno.encode, List.append_assoc, u16_be16 _ h1, h2, u16_be16 _ h3, this, SAnno.fact]

/-! ### the depth limit: legal element values nested deeper than 255 levels are rejected -/

mutual
theorem readElemVal_deep (p : Pool) (e : SElem) (he : e.Legal p) (fuel : Nat) (hf : e.need ≤ fuel) (d : Nat) (hd0 : d ≤ 255)
    (hd : 255 < d + e.nest) (r : Bytes) : readElemVal p fuel d (e.encode ++ r) = err := by
  cases fuel with
  | zero => simp [readElemVal]
  | succ fuel =>
    cases e with
    | const tag cp v => simp only [SElem.nest] at hd; omega
    | str cp s => simp only [SElem.nest] at hd; omega
    | enum tcp ty ncp name => simp only [SElem.nest] at hd; omega
    | cls cp d' => simp only [SElem.nest] at hd; omega
    | anno a =>
      cases a with
      | mk tcp ty ps =>
        simp only [SElem.Legal, SAnno.Legal] at he
        obtain ⟨h1, h2, h3, h4⟩ := he
        simp only [SElem.need, SAnno.need] at hf
        simp only [SElem.nest, SAnno.nest] at hd
        by_cases hdd : d + 1 > maxElemDepth
        · simp [readElemVal, SElem.encode, SAnno.encode, u8, isConstTag, u16_be16 _ h1, h2, hdd]
        · have hle : d + 1 ≤ 255 := by unfold maxElemDepth at hdd; omega
          have := readNamedPairs_deep p ps h4 fuel (by omega) (d + 1) hle (by omega) r
          simp [readElemVal, SElem.encode, SAnno.encode, u8, isConstTag, u16_be16 _ h1, h2, u16_be16 _ h3, this, hdd]
    | arr vs =>
      simp only [SElem.Legal] at he
      obtain ⟨h1, h2⟩ := he
      simp only [SElem.need] at hf
      simp only [SElem.nest] at hd
      by_cases hdd : d + 1 > maxElemDepth
      · simp [readElemVal, SElem.encode, u8, isConstTag, hdd]
      · have hle : d + 1 ≤ 255 := by unfold maxElemDepth at hdd; omega
        have := readUnnamed_deep p vs h2 fuel (by omega) (d + 1) hle (by omega) r
        simp [readElemVal, SElem.encode, u8, isConstTag, u16_be16 _ h1, this, hdd]
theorem readNamedPairs_deep (p : Pool) (ps : List SPair) (hps : pairsLegal p ps) (fuel : Nat) (hf : needPairs ps ≤ fuel) (d : Nat)
    (hd0 : d ≤ 255) (hd : 255 < d + pairsNest ps) (r : Bytes) : readNamedPairs p fuel d ps.length (encPairs ps ++ r) = err := by
  cases fuel with
  | zero => simp [readNamedPairs]
  | succ fuel =>
    cases ps with
    | nil => simp only [pairsNest] at hd; omega
    | cons q qs =>
      cases q with
      | mk ncp name v =>
        simp only [pairsLegal, SPair.Legal] at hps
        obtain ⟨⟨h1, h2, h3⟩, h4⟩ := hps
        simp only [needPairs, SPair.need] at hf
        simp only [pairsNest, SPair.nest] at hd
        by_cases hv : d + v.nest ≤ 255
        · have e1 := readElemVal_enc p v h3 fuel (by omega) d hv (encPairs qs ++ r)
          have e2 := readNamedPairs_deep p qs h4 fuel (by omega) d hd0 (by omega) r
          simp [readNamedPairs, encPairs, SPair.encode, List.append_assoc, u16_be16 _ h1, h2, e1, e2]
        · have e1 := readElemVal_deep p v h3 fuel (by omega) d hd0 (by omega) (encPairs qs ++ r)
          simp [readNamedPairs, encPairs, SPair.encode, List.append_assoc, u16_be16 _ h1, h2, e1]
theorem readUnnamed_deep (p : Pool) (vs : List SElem) (hvs : elemsLegal p vs) (fuel : Nat) (hf : needElems vs ≤ fuel) (d : Nat)
    (hd0 : d ≤ 255) (hd : 255 < d + elemsNest vs) (r : Bytes) : readUnnamed p fuel d vs.length (encElems vs ++ r) = err := by
  cases fuel with
  | zero => simp [readUnnamed]
  | succ fuel =>
    cases vs with
    | nil => simp only [elemsNest] at hd; omega
    | cons v ws =>
      simp only [elemsLegal] at hvs
      simp only [needElems] at hf
      simp only [elemsNest] at hd
      by_cases hv : d + v.nest ≤ 255
      · have e1 := readElemVal_enc p v hvs.1 fuel (by omega) d hv (encElems ws ++ r)
        have e2 := readUnnamed_deep p ws hvs.2 fuel (by omega) d hd0 (by omega) r
        simp [readUnnamed, encElems, List.append_assoc, e1, e2]
      · have e1 := readElemVal_deep p v hvs.1 fuel (by omega) d hd0 (by omega) (encElems ws ++ r)
        simp [readUnnamed, encElems, List.append_assoc, e1]
end

/-- a legal annotation whose element values nest deeper than 255 levels is rejected -/
theorem readAnnotation_deep (p : Pool) (a : SAnno) (ha : a.Legal p) (hn : 255 < a.nest) (r : Bytes) :
    readAnnotation p (a.encode ++ r) = err := by
  cases a with
  | mk tcp ty ps =>
    simp only [SAnno.Legal] at ha
    simp only [SAnno.nest] at hn
    obtain ⟨h1, h2, h3, h4⟩ := ha
    have hn' := need_le_pairs ps
    have := readNamedPairs_deep p ps h4 (annoFuel (encPairs ps ++ r)) (by simp [annoFuel]; omega) 0 (by omega) (by omega) r
    simp [readAnnotation, SAnno.encode, List.append_assoc, u16_be16 _ h1, h2, u16_be16 _ h3, this]

theorem readAnnotations_enc (p : Pool) (as : List SAnno) (hn : as.length < 65536) (has : ∀ a ∈ as, a.Ok p) (r : Bytes) :
    readAnnotations p (encAnnos as ++ r) = ok (as.map SAnno.fact, r) := by
  have := readVec16_flatMap (readAnnotation p) SAnno.encode SAnno.fact as hn (fun a ha r => readAnnotation_enc p a (has a ha) r) r
  simpa [readAnnotations, encAnnos, List.append_assoc] using this

theorem readAnnotationDefault_enc (p : Pool) (e : SElem) (he : e.Ok p) (r : Bytes) :
    readAnnotationDefault p (e.encode ++ r) = ok (e.fact, r) := by
  have hn := need_le_elem e
  exact readElemVal_enc p e he.1 (annoFuel (e.encode ++ r)) (by simp [annoFuel]; omega) 0 (by have := he.2; omega) r

end ClassRead

namespace ClassRead
open Outcome Spec

/-! ### type annotations outside `Code` -/

theorem readTypePath_enc (path : List (Nat × Nat)) (h : typePathOk path) (r : Bytes) :
    readTypePath (encTypePath path ++ r) = ok (path, r) := by
  obtain ⟨hn, hall⟩ := h
  have := readVec_flatMap (fun s => do
      let (kind, s) ← u8 s
      let (idx, s) ← u8 s
      if kind ≤ 2 then (if idx != 0 then err else pure ((kind, 0), s))
      else if kind = 3 then pure ((3, idx), s)
      else err) (fun q : Nat × Nat => [q.1, q.2]) id path
    (fun q hq r => by
      rcases hall q hq with ⟨h1, h2⟩ | ⟨h1, h2⟩
      · obtain ⟨a, b⟩ := q
        simp only [] at h1 h2
        subst h2
        simp [u8, h1]
      · obtain ⟨a, b⟩ := q
        simp only [] at h1 h2
        subst h1
        simp [u8]) r
  simp only [List.map_id] at this
  have hu : u8 (path.length :: (path.flatMap (fun q => [q.1, q.2]) ++ r)) = ok (path.length, path.flatMap (fun q => [q.1, q.2]) ++ r) := rfl
  simp only [readTypePath, encTypePath, List.cons_append, hu, ok_bind]
  exact this

theorem readTarget_enc (o : Owner) (t : Target) (h : targetOk o t) (r : Bytes) :
    (match o with | .cls => readTargetClass | .field => readTargetField | .method => readTargetMethod) (encTarget t ++ r) = ok (t, r) := by
  cases o <;> cases t <;> simp only [targetOk] at h
  all_goals first
    | exact h.elim
    | skip
  · obtain ⟨rfl, h2⟩ := h; simp [readTargetClass, encTarget, u8]
  · simp [readTargetClass, encTarget, u8, u16_be16 65535 (by decide)]
  · have h16 : _ < 65536 := Nat.lt_trans h (by decide)
    have hne : ¬ (_ = 65535) := Nat.ne_of_lt h
    simp [readTargetClass, encTarget, u8, u16_be16 _ h16, hne]
  · obtain ⟨rfl, h2, h3⟩ := h; simp [readTargetClass, encTarget, u8]
  · simp [readTargetField, encTarget, u8]
  · obtain ⟨rfl, h2⟩ := h; simp [readTargetMethod, encTarget, u8]
  · obtain ⟨rfl, h2, h3⟩ := h; simp [readTargetMethod, encTarget, u8]
  · simp [readTargetMethod, encTarget, u8]
  · simp [readTargetMethod, encTarget, u8]
  · simp [readTargetMethod, encTarget, u8]
  · simp [readTargetMethod, encTarget, u8, u16_be16 _ h]

/-- the target reader of an owner -/
def targetReader : Owner → Rd Target
  | .cls => readTargetClass
  | .field => readTargetField
  | .method => readTargetMethod

theorem readTypeAnnos_enc (p : Pool) (o : Owner) (as : List STypeAnno) (hn : as.length < 65536) (has : ∀ a ∈ as, a.Legal p o) (r : Bytes) :
    readTypeAnnos p (targetReader o) (encTypeAnnos as ++ r) = ok (as.map STypeAnno.fact, r) := by
  have := readVec16_flatMap (fun s => do
      let (t, s) ← targetReader o s
      let (path, s) ← readTypePath s
      let (a, s) ← readAnnotation p s
      pure ((⟨t, path, a⟩ : TypeAnno), s)) STypeAnno.encode STypeAnno.fact as hn
    (fun a ha r => by
      obtain ⟨h1, h2, h3⟩ := has a ha
      have e1 : targetReader o (encTarget a.target ++ (encTypePath a.path ++ (a.anno.encode ++ r))) =
          ok (a.target, encTypePath a.path ++ (a.anno.encode ++ r)) := by
        have := readTarget_enc o a.target h1 (encTypePath a.path ++ (a.anno.encode ++ r))
        cases o <;> exact this
      simp only [STypeAnno.encode, List.append_assoc, e1, ok_bind, readTypePath_enc a.path h2, readAnnotation_enc p a.anno h3,
        pure_eq, STypeAnno.fact]) r
  simpa [readTypeAnnos, encTypeAnnos, List.append_assoc] using this

end ClassRead
