import FeatherModel.Lemmas.MavenPom

/-! On an acyclic (ranked) universe the fuel `rank + 2` suffices (C19). -/

namespace Maven

theorem tryGetPom_ne_fuel (U : Universe) (c : Coord) : ∀ rs : List Resolver, tryGetPom U rs c ≠ .fuel := by
  intro rs
  induction rs with
  | nil => simp [tryGetPom]
  | cons r rest ih =>
    rw [tryGetPom]
    cases AList.lookup (c.pomUrl r) U with
    | none => exact ih
    | some o =>
      cases o with
      | none => simp
      | some p => simp only []; split <;> simp

theorem makeDMOwn_fuel {imp : Coord → Res PomDone} :
    ∀ l : List (RawDep (Option Scope)), makeDMOwn imp l = .fuel →
      ∃ x ∈ l, ∃ v, x.scope = some none ∧ x.version = some v ∧
        imp (depCoord x.group x.artifact v x.type_ x.classifier) = .fuel := by
  intro l
  induction l with
  | nil => intro h; rw [makeDMOwn] at h; cases h
  | cons x rest ih =>
    intro h
    have lift : makeDMOwn imp rest = .fuel → ∃ y ∈ x :: rest, ∃ v, y.scope = some none ∧ y.version = some v ∧
        imp (depCoord y.group y.artifact v y.type_ y.classifier) = .fuel := by
      intro hr
      obtain ⟨y, hy, v, h1, h2, h3⟩ := ih hr
      exact ⟨y, by simp [hy], v, h1, h2, h3⟩
    rw [makeDMOwn] at h
    cases hv : x.version with
    | none => rw [hv] at h; cases h
    | some v =>
      rw [hv] at h
      simp only [] at h
      cases hs : x.scope with
      | none =>
        rw [hs] at h
        simp only [] at h
        cases hr : makeDMOwn imp rest with
        | ok r => rw [hr] at h; cases h
        | err => rw [hr] at h; cases h
        | fuel => exact lift hr
      | some o =>
        cases o with
        | some sc =>
          rw [hs] at h
          simp only [] at h
          cases hr : makeDMOwn imp rest with
          | ok r => rw [hr] at h; cases h
          | err => rw [hr] at h; cases h
          | fuel => exact lift hr
        | none =>
          rw [hs] at h
          simp only [] at h
          cases hi : imp (depCoord x.group x.artifact v x.type_ x.classifier) with
          | fuel => exact ⟨x, by simp, v, hs, hv, hi⟩
          | err => rw [hi] at h; cases h
          | ok target =>
            rw [hi] at h
            simp only [] at h
            cases hr : makeDMOwn imp rest with
            | ok r => rw [hr] at h; cases h
            | err => rw [hr] at h; cases h
            | fuel => exact lift hr

theorem mergeParent_fuel {imp : Coord → Res PomDone} {par : Option PomDone} {child : Pom}
    (h : mergeParent imp par child = .fuel) : makeDMOwn imp child.depMgmt = .fuel := by
  rw [mergeParent_eq] at h
  cases hc : inheritCoord par child with
  | none => rw [hc] at h; cases h
  | some coord =>
    rw [hc] at h
    simp only [] at h
    cases ho : makeDMOwn imp child.depMgmt with
    | fuel => rfl
    | err => rw [ho] at h; cases h
    | ok own =>
      rw [ho] at h
      simp only [] at h
      cases hd : fillDeps (own ++ parDM par) child.deps <;> rw [hd] at h <;> cases h

theorem mergeChain_fuel {imp : Coord → Res PomDone} :
    ∀ (l : List Pom) (acc : Option PomDone), mergeChain imp acc l = .fuel →
      ∃ p ∈ l, makeDMOwn imp p.depMgmt = .fuel := by
  intro l
  induction l with
  | nil => intro acc h; rw [mergeChain] at h; cases h
  | cons p rest ih =>
    intro acc h
    rw [mergeChain] at h
    cases hm : mergeParent imp acc p with
    | fuel => exact ⟨p, by simp, mergeParent_fuel hm⟩
    | err => rw [hm] at h; cases h
    | ok m =>
      rw [hm] at h
      obtain ⟨q, hq, hf⟩ := ih (some m) h
      exact ⟨q, by simp [hq], hf⟩

variable (U : Universe) (rs : List Resolver) (rank : Coord → Nat) (hr : Ranked U rs rank)
include hr

theorem collectParents_ne_fuel : ∀ (n : Nat) (oc : Option Coord), (∀ pc, oc = some pc → rank pc < n) →
    collectParents U rs n oc ≠ .fuel := by
  intro n
  induction n with
  | zero =>
    intro oc h
    cases oc with
    | none => simp [collectParents]
    | some pc => exact absurd (h pc rfl) (by omega)
  | succ n ih =>
    intro oc h
    cases oc with
    | none => simp [collectParents]
    | some pc =>
      rw [collectParents]
      cases ht : tryGetPom U rs pc with
      | err => simp
      | fuel => exact absurd ht (tryGetPom_ne_fuel U pc rs)
      | ok p =>
        obtain ⟨r, p1⟩ := p
        simp only []
        have := ih p1.parentCoord (fun pc2 h2 => by
          have := hr.parent pc r p1 pc2 ht h2
          have := h pc rfl
          omega)
        cases hc : collectParents U rs n p1.parentCoord with
        | fuel => exact absurd hc this
        | err => simp
        | ok rest => simp

theorem collectParents_ranks : ∀ (n : Nat) (oc : Option Coord) (stack : List Pom) (B : Nat),
    collectParents U rs n oc = .ok stack → (∀ pc, oc = some pc → rank pc < B) →
      ∀ p ∈ stack, ∃ q r, tryGetPom U rs q = .ok (r, p) ∧ rank q < B := by
  intro n
  induction n with
  | zero =>
    intro oc stack B h _
    cases oc with
    | none => simp [collectParents] at h; subst h; simp
    | some pc => simp [collectParents] at h
  | succ n ih =>
    intro oc stack B h hB
    cases oc with
    | none => simp [collectParents] at h; subst h; simp
    | some pc =>
      obtain ⟨k, r, p1, rest, hk, ht, hc, hs⟩ := (collectParents_some_ok_iff U rs (n + 1) pc stack).1 h
      have hkn : k = n := by omega
      subst hkn hs
      intro p hp
      rcases List.mem_cons.1 hp with hp | hp
      · subst hp
        exact ⟨pc, r, ht, hB pc rfl⟩
      · exact ih p1.parentCoord rest B hc (fun pc2 h2 => by
          have := hr.parent pc r p1 pc2 ht h2
          have := hB pc rfl
          omega) p hp

omit hr in
theorem impOf_fuel_iff (n : Nat) (c : Coord) : impOf U rs n c = .fuel ↔ getMergedPom U rs n c = .fuel := by
  unfold impOf
  cases getMergedPom U rs n c with
  | ok p => obtain ⟨r, q⟩ := p; simp
  | err => simp
  | fuel => simp

theorem getMergedPom_ne_fuel : ∀ (n : Nat) (c : Coord), rank c < n → getMergedPom U rs n c ≠ .fuel := by
  intro n
  induction n with
  | zero => intro c h; omega
  | succ k ih =>
    intro c hc
    have himp : ∀ (q : Coord) (r : Resolver) (p : Pom), tryGetPom U rs q = .ok (r, p) → rank q ≤ rank c →
        makeDMOwn (impOf U rs k) p.depMgmt ≠ .fuel := by
      intro q r p hq hqc hf
      obtain ⟨x, hx, v, h1, h2, h3⟩ := makeDMOwn_fuel _ hf
      have := hr.imports q r p x v hq hx h1 h2
      rw [impOf_fuel_iff U rs] at h3
      exact ih _ (by omega) h3
    rw [getMergedPom_succ]
    cases h1 : tryGetPom U rs c with
    | err => simp
    | fuel => exact absurd h1 (tryGetPom_ne_fuel U c rs)
    | ok p =>
      obtain ⟨r, pom⟩ := p
      simp only []
      have hpar : ∀ pc, pom.parentCoord = some pc → rank pc < rank c := fun pc h => hr.parent c r pom pc h1 h
      cases h2 : collectParents U rs k pom.parentCoord with
      | err => simp
      | fuel =>
        exact absurd h2 (collectParents_ne_fuel U rs rank hr k _ (fun pc h => by have := hpar pc h; omega))
      | ok stack =>
        simp only []
        cases h3 : mergeChain (impOf U rs k) none stack.reverse with
        | err => simp
        | fuel =>
          obtain ⟨p, hp, hf⟩ := mergeChain_fuel _ _ h3
          obtain ⟨q, r', hq, hqr⟩ := collectParents_ranks U rs rank hr k _ stack (rank c) h2 hpar p
            (List.mem_reverse.1 hp)
          exact absurd hf (himp q r' p hq (by omega))
        | ok parent =>
          simp only []
          cases h4 : mergeParent (impOf U rs k) parent pom with
          | err => simp
          | ok m => simp
          | fuel => exact absurd (mergeParent_fuel h4) (himp c r pom h1 (Nat.le_refl _))

omit hr in
theorem depChildren_fuel {rec : Coord → Scope → Res (Tree Found)} (scope : Scope) :
    ∀ deps : List DepDone, depChildren rec scope deps = .fuel → ∃ d ∈ deps, ∃ sc, rec d.coord sc = .fuel := by
  intro deps
  induction deps with
  | nil => intro h; rw [depChildren] at h; cases h
  | cons d rest ih =>
    intro h
    have lift : depChildren rec scope rest = .fuel → ∃ y ∈ d :: rest, ∃ sc, rec y.coord sc = .fuel := by
      intro hr
      obtain ⟨y, hy, sc, h1⟩ := ih hr
      exact ⟨y, by simp [hy], sc, h1⟩
    rw [depChildren] at h
    split at h
    · exact lift h
    · cases ht : theScopeTable scope (d.scope.getD .compile) with
      | none => rw [ht] at h; exact lift h
      | some sc =>
        rw [ht] at h
        simp only [] at h
        cases hc : rec d.coord sc with
        | fuel => exact ⟨d, by simp, sc, hc⟩
        | err => rw [hc] at h; cases h
        | ok c =>
          rw [hc] at h
          simp only [] at h
          cases hrest : depChildren rec scope rest with
          | fuel => exact lift hrest
          | err => rw [hrest] at h; cases h
          | ok cs => rw [hrest] at h; cases h

theorem depTree_ne_fuel : ∀ (k : Nat) (c : Coord) (s : Scope), rank c + 1 < k → depTree U rs k c s ≠ .fuel := by
  intro k
  induction k with
  | zero => intro c s h; omega
  | succ j ih =>
    intro c s hc
    rw [depTree]
    cases h1 : getMergedPom U rs j c with
    | err => simp
    | fuel => exact absurd h1 (getMergedPom_ne_fuel U rs rank hr j c (by omega))
    | ok p =>
      obtain ⟨r, e⟩ := p
      simp only []
      cases h2 : depChildren (fun c s => depTree U rs j c s) s e.deps with
      | err => simp
      | ok cs => simp
      | fuel =>
        obtain ⟨d, hd, sc, hf⟩ := depChildren_fuel s _ h2
        have := hr.deps c r e d ⟨j, h1⟩ hd
        exact absurd hf (ih d.coord sc (by omega))

omit hr in
theorem depForest_fuel (n : Nat) : ∀ roots : List (Coord × Scope), depForest U rs n roots = .fuel →
    ∃ p ∈ roots, depTree U rs n p.1 p.2 = .fuel := by
  intro roots
  induction roots with
  | nil => intro h; rw [depForest] at h; cases h
  | cons x rest ih =>
    intro h
    obtain ⟨c, s⟩ := x
    rw [depForest] at h
    cases h1 : depTree U rs n c s with
    | fuel => exact ⟨(c, s), by simp, h1⟩
    | err => rw [h1] at h; cases h
    | ok t =>
      rw [h1] at h
      simp only [] at h
      cases h2 : depForest U rs n rest with
      | fuel =>
        obtain ⟨p, hp, hf⟩ := ih h2
        exact ⟨p, by simp [hp], hf⟩
      | err => rw [h2] at h; cases h
      | ok ts => rw [h2] at h; cases h

theorem resolve_ne_fuel (roots : List (Coord × Scope)) (bound : Nat) (hb : ∀ p ∈ roots, rank p.1 ≤ bound) :
    resolve U rs (bound + 2) roots ≠ .fuel := by
  unfold resolve
  cases h : depForest U rs (bound + 2) roots with
  | err => simp
  | ok f => simp
  | fuel =>
    obtain ⟨p, hp, hf⟩ := depForest_fuel U rs _ roots h
    have := hb p hp
    exact absurd hf (depTree_ne_fuel U rs rank hr _ p.1 p.2 (by omega))

end Maven
