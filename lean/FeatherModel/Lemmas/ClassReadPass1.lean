import FeatherModel.Lemmas.ClassReadInsn

/-! C01 lemma `pass1Step_encode`: on a legal encoding the first pass creates exactly the labels of the branch targets,
in order, and consumes exactly the instruction. -/

namespace ClassRead
open Outcome Spec

/-- `labels.create` for a list of offsets, in order -/
def createAll : Labels → List Nat → Outcome Labels
  | l, [] => ok l
  | l, pc :: r => do let l ← l.create pc; createAll l r

theorem pass1Table_enc (pos : Nat → Nat) (a c : Nat) (ha : a ≤ 65535) (tbl : List Nat) (l : Labels)
    (ht : ∀ t ∈ tbl, pos t ≤ 65535) (r : Bytes) :
    pass1Table a tbl.length l (c, tbl.flatMap (fun t => be32 (ofI32 (relOff pos a t))) ++ r)
      = (do let l' ← createAll l (tbl.map pos); pure (l', (c + 4 * tbl.length, r))) := by
  induction tbl generalizing c l with
  | nil => simp [pass1Table, createAll]
  | cons t ts ih =>
    have h1 := ht t (by simp)
    simp only [List.flatMap_cons, List.append_assoc, List.length_cons, pass1Table,
      cBranch32_rel pos a c t ha h1, ok_bind, List.map_cons, createAll]
    cases hc : l.create (pos t) with
    | err => simp
    | crash s => simp
    | ok l1 =>
      simp only [ok_bind]
      rw [ih (c + 4) l1 (fun x hx => ht x (by simp [hx]))]
      have e : c + 4 + 4 * ts.length = c + 4 * (ts.length + 1) := by omega
      rw [e]

theorem pass1Pairs_enc (pos : Nat → Nat) (a c : Nat) (ha : a ≤ 65535) (pairs : List (Int × Nat)) (l : Labels)
    (ht : ∀ kt ∈ pairs, pos kt.2 ≤ 65535 ∧ inI32 kt.1) (r : Bytes) :
    pass1Pairs a pairs.length l
        (c, pairs.flatMap (fun kt => be32 (ofI32 kt.1) ++ be32 (ofI32 (relOff pos a kt.2))) ++ r)
      = (do let l' ← createAll l (pairs.map (fun kt => pos kt.2)); pure (l', (c + 8 * pairs.length, r))) := by
  induction pairs generalizing c l with
  | nil => simp [pass1Pairs, createAll]
  | cons kt ts ih =>
    have h1 := ht kt (by simp)
    simp only [List.flatMap_cons, List.append_assoc, List.length_cons, pass1Pairs,
      cI32_of c kt.1 h1.2, cBranch32_rel pos a (c + 4) kt.2 ha h1.1, ok_bind, List.map_cons, createAll]
    cases hc : l.create (pos kt.2) with
    | err => simp
    | crash s => simp
    | ok l1 =>
      simp only [ok_bind]
      rw [ih (c + 4 + 4) l1 (fun x hx => ht x (by simp [hx]))]
      have e : c + 4 + 4 + 8 * ts.length = c + 8 * (ts.length + 1) := by omega
      rw [e]

set_option maxHeartbeats 1000000 in
theorem pass1Step_encode (p : Pool) (bsms : Option (List Bsm)) (l : Labels) (n : Nat) (pos : Nat → Nat) (a : Nat)
    (si : SInsn) (hleg : si.Legal p bsms n pos a) (ha : a ≤ 65535) (hpos : ∀ t, t < n → pos t ≤ 65535) (r : Bytes) :
    pass1Step l (a, si.encode pos a ++ r)
      = (do let l' ← createAll l ((targetsOf si.insn).map pos); pure (l', (a + si.size a, r))) := by
  obtain ⟨insn, form, cp, pad⟩ := si
  cases insn with
  | simple op =>
    simp only [SInsn.Legal] at hleg
    simp [SInsn.encode, SInsn.size, pass1Step, cU8_cons, p1Kind_simple op hleg, targetsOf, createAll]
  | bipush v =>
    have hk : p1Kind 0x10 = .skip 1 := by decide
    simp [SInsn.encode, SInsn.size, pass1Step, cU8_cons, hk, cSkip, lengthGe, targetsOf, createAll]
  | sipush v =>
    have hk : p1Kind 0x11 = .skip 2 := by decide
    simp [SInsn.encode, SInsn.size, pass1Step, cU8_cons, hk, cSkip, lengthGe, be16, targetsOf, createAll]
  | ldc k =>
    cases form with
    | short =>
      have hk : p1Kind 0x12 = .skip 1 := by decide
      simp [SInsn.encode, SInsn.size, pass1Step, cU8_cons, hk, cSkip, lengthGe, targetsOf, createAll]
    | plain =>
      have hk : p1Kind 0x13 = .skip 2 := by decide
      simp [SInsn.encode, SInsn.size, pass1Step, cU8_cons, hk, cSkip, lengthGe, be16, targetsOf, createAll]
    | wide =>
      have hk : p1Kind 0x14 = .skip 2 := by decide
      simp [SInsn.encode, SInsn.size, pass1Step, cU8_cons, hk, cSkip, lengthGe, be16, targetsOf, createAll]
  | load k i =>
    cases form with
    | short =>
      simp only [SInsn.Legal] at hleg
      simp [SInsn.encode, SInsn.size, pass1Step, cU8_cons, p1Kind_loadN_aux k hleg.1 i hleg.2, targetsOf, createAll]
    | plain =>
      simp only [SInsn.Legal] at hleg
      simp [SInsn.encode, SInsn.size, pass1Step, cU8_cons, p1Kind_load_aux k hleg.1, cSkip, lengthGe, targetsOf, createAll]
    | wide =>
      simp only [SInsn.Legal] at hleg
      have hk : p1Kind 0xc4 = .wide := by decide
      have h1 : 21 + k ≤ 25 := by omega
      simp [SInsn.encode, SInsn.size, pass1Step, cU8_cons, hk, h1, cSkip, lengthGe, be16, targetsOf, createAll]
  | store k i =>
    cases form with
    | short =>
      simp only [SInsn.Legal] at hleg
      simp [SInsn.encode, SInsn.size, pass1Step, cU8_cons, p1Kind_storeN_aux k hleg.1 i hleg.2, targetsOf, createAll]
    | plain =>
      simp only [SInsn.Legal] at hleg
      simp [SInsn.encode, SInsn.size, pass1Step, cU8_cons, p1Kind_store_aux k hleg.1, cSkip, lengthGe, targetsOf, createAll]
    | wide =>
      simp only [SInsn.Legal] at hleg
      have hk : p1Kind 0xc4 = .wide := by decide
      have h1 : ¬ (54 + k ≤ 25) := by omega
      have h2 : 54 + k ≤ 58 := by omega
      simp [SInsn.encode, SInsn.size, pass1Step, cU8_cons, hk, h1, h2, cSkip, lengthGe, be16, targetsOf, createAll]
  | iinc i v =>
    cases form with
    | short => simp [SInsn.Legal] at hleg
    | plain =>
      have hk : p1Kind 0x84 = .skip 2 := by decide
      simp [SInsn.encode, SInsn.size, pass1Step, cU8_cons, hk, cSkip, lengthGe, targetsOf, createAll]
    | wide =>
      have hk : p1Kind 0xc4 = .wide := by decide
      simp [SInsn.encode, SInsn.size, pass1Step, cU8_cons, hk, cSkip, lengthGe, be16, targetsOf, createAll]
  | branch op t =>
    simp only [SInsn.Legal] at hleg
    simp only [SInsn.encode, SInsn.size, pass1Step, List.cons_append, cU8_cons, ok_bind, p1Kind_cond op hleg.1,
      cBranch16_rel pos a (a + 1) t hleg.2.2 (hpos t hleg.2.1), targetsOf, List.map_cons, List.map_nil, createAll]
    cases l.create (pos t) <;> simp
  | goto t =>
    cases form with
    | short => simp [SInsn.Legal] at hleg
    | plain =>
      simp only [SInsn.Legal] at hleg
      have hk : p1Kind 0xa7 = .branch16 := by decide
      simp only [SInsn.encode, SInsn.size, pass1Step, List.cons_append, cU8_cons, ok_bind, hk,
        cBranch16_rel pos a (a + 1) t hleg.2 (hpos t hleg.1), targetsOf, List.map_cons, List.map_nil, createAll]
      cases l.create (pos t) <;> simp
    | wide =>
      simp only [SInsn.Legal] at hleg
      have hk : p1Kind 0xc8 = .branch32 := by decide
      simp only [SInsn.encode, SInsn.size, pass1Step, List.cons_append, cU8_cons, ok_bind, hk,
        cBranch32_rel pos a (a + 1) t ha (hpos t hleg), targetsOf, List.map_cons, List.map_nil, createAll]
      cases l.create (pos t) <;> simp
  | jsr t =>
    cases form with
    | short => simp [SInsn.Legal] at hleg
    | plain =>
      simp only [SInsn.Legal] at hleg
      have hk : p1Kind 0xa8 = .branch16 := by decide
      simp only [SInsn.encode, SInsn.size, pass1Step, List.cons_append, cU8_cons, ok_bind, hk,
        cBranch16_rel pos a (a + 1) t hleg.2 (hpos t hleg.1), targetsOf, List.map_cons, List.map_nil, createAll]
      cases l.create (pos t) <;> simp
    | wide =>
      simp only [SInsn.Legal] at hleg
      have hk : p1Kind 0xc9 = .branch32 := by decide
      simp only [SInsn.encode, SInsn.size, pass1Step, List.cons_append, cU8_cons, ok_bind, hk,
        cBranch32_rel pos a (a + 1) t ha (hpos t hleg), targetsOf, List.map_cons, List.map_nil, createAll]
      cases l.create (pos t) <;> simp
  | ret i =>
    cases form with
    | short => simp [SInsn.Legal] at hleg
    | plain =>
      have hk : p1Kind 0xa9 = .skip 1 := by decide
      simp [SInsn.encode, SInsn.size, pass1Step, cU8_cons, hk, cSkip, lengthGe, targetsOf, createAll]
    | wide =>
      have hk : p1Kind 0xc4 = .wide := by decide
      simp [SInsn.encode, SInsn.size, pass1Step, cU8_cons, hk, cSkip, lengthGe, be16, targetsOf, createAll]
  | tableswitch d lo hi tbl =>
    have hk : p1Kind 0xaa = .tableswitch := by decide
    have hleg' : d < n ∧ (∀ t ∈ tbl, t < n) ∧ inI32 lo ∧ inI32 hi ∧ lo ≤ hi ∧ (tbl.length : Int) = hi - lo + 1 ∧ tbl.length < 16384 ∧ pad < 256 := by
      cases form <;> simpa [SInsn.Legal] using hleg
    obtain ⟨hd, htb, hlo, hhi, hle, hlen, hsmall, _⟩ := hleg'
    have htl : ∀ t ∈ tbl, pos t ≤ 65535 := fun t ht => hpos t (htb t ht)
    have hcnt : tableCount lo hi = ok tbl.length := tableCount_ok lo hi tbl.length hle hlen hlo hhi (by omega)
    have henc : SInsn.encode pos a ⟨.tableswitch d lo hi tbl, form, cp, pad⟩ =
        0xaa :: (List.replicate (padLen a) pad ++ (be32 (ofI32 (relOff pos a d)) ++ (be32 (ofI32 lo) ++ (be32 (ofI32 hi)
          ++ tbl.flatMap (fun t => be32 (ofI32 (relOff pos a t))))))) := by
      cases form <;> simp [SInsn.encode, List.append_assoc]
    have hsize : SInsn.size a ⟨.tableswitch d lo hi tbl, form, cp, pad⟩ = 1 + padLen a + 12 + 4 * tbl.length := by
      cases form <;> simp [SInsn.size]
    rw [henc, hsize]
    simp only [pass1Step, List.cons_append, List.append_assoc, cU8_cons, ok_bind, hk, cAlign_pad a pad,
      cBranch32_rel pos a _ d ha (hpos d hd), targetsOf, List.map_cons, createAll]
    cases hc : l.create (pos d) with
    | err => simp
    | crash s => simp
    | ok l1 =>
      simp only [ok_bind, cI32_of _ lo hlo, cI32_of _ hi hhi, hcnt, pass1Table_enc pos a _ ha tbl l1 htl]
      have e : a + 1 + padLen a + 4 + 4 + 4 + 4 * tbl.length = a + (1 + padLen a + 12 + 4 * tbl.length) := by omega
      rw [e]
  | lookupswitch d pairs =>
    have hk : p1Kind 0xab = .lookupswitch := by decide
    have hleg' : d < n ∧ (∀ kt ∈ pairs, kt.2 < n ∧ inI32 kt.1) ∧ pairs.length < 8192 ∧ pad < 256 := by
      cases form <;> simpa [SInsn.Legal] using hleg
    obtain ⟨hd, htb, hlen, _⟩ := hleg'
    have htl : ∀ kt ∈ pairs, pos kt.2 ≤ 65535 ∧ inI32 kt.1 := fun kt hkt => ⟨hpos kt.2 (htb kt hkt).1, (htb kt hkt).2⟩
    have henc : SInsn.encode pos a ⟨.lookupswitch d pairs, form, cp, pad⟩ =
        0xab :: (List.replicate (padLen a) pad ++ (be32 (ofI32 (relOff pos a d)) ++ (be32 pairs.length
          ++ pairs.flatMap (fun kt => be32 (ofI32 kt.1) ++ be32 (ofI32 (relOff pos a kt.2)))))) := by
      cases form <;> simp [SInsn.encode, List.append_assoc]
    have hsize : SInsn.size a ⟨.lookupswitch d pairs, form, cp, pad⟩ = 1 + padLen a + 8 + 8 * pairs.length := by
      cases form <;> simp [SInsn.size]
    have hn : cI32 (a + 1 + padLen a + 4, be32 pairs.length ++
        (pairs.flatMap (fun kt => be32 (ofI32 kt.1) ++ be32 (ofI32 (relOff pos a kt.2))) ++ r))
        = ok ((pairs.length : Int), (a + 1 + padLen a + 4 + 4, pairs.flatMap (fun kt => be32 (ofI32 kt.1) ++ be32 (ofI32 (relOff pos a kt.2))) ++ r)) := by
      have := cI32_of (a + 1 + padLen a + 4) (pairs.length : Int) (by unfold inI32; omega)
        (pairs.flatMap (fun kt => be32 (ofI32 kt.1) ++ be32 (ofI32 (relOff pos a kt.2))) ++ r)
      have e : ofI32 (pairs.length : Int) = pairs.length := by unfold ofI32; omega
      rw [e] at this; exact this
    have hneg : ¬ ((pairs.length : Int) < 0) := by omega
    rw [henc, hsize]
    simp only [pass1Step, List.cons_append, List.append_assoc, cU8_cons, ok_bind, hk, cAlign_pad a pad,
      cBranch32_rel pos a _ d ha (hpos d hd), targetsOf, List.map_cons, List.map_map, createAll]
    cases hc : l.create (pos d) with
    | err => simp
    | crash s => simp
    | ok l1 =>
      simp only [ok_bind, hn, hneg, if_false, Int.toNat_natCast, pass1Pairs_enc pos a _ ha pairs l1 htl]
      have e : a + 1 + padLen a + 4 + 4 + 8 * pairs.length = a + (1 + padLen a + 8 + 8 * pairs.length) := by omega
      rw [e]
      rfl
  | field op rf =>
    simp only [SInsn.Legal] at hleg
    have hop : op < 256 := by omega
    simp [SInsn.encode, SInsn.size, pass1Step, cU8_cons, p1Kind_field_aux op hop hleg.1 hleg.2.1, cSkip, lengthGe, be16, targetsOf, createAll]
  | invokevirtual m =>
    have hk : p1Kind 0xb6 = .skip 2 := by decide
    simp [SInsn.encode, SInsn.size, pass1Step, cU8_cons, hk, cSkip, lengthGe, be16, targetsOf, createAll]
  | invokespecial m itf =>
    have hk : p1Kind 0xb7 = .skip 2 := by decide
    simp [SInsn.encode, SInsn.size, pass1Step, cU8_cons, hk, cSkip, lengthGe, be16, targetsOf, createAll]
  | invokestatic m itf =>
    have hk : p1Kind 0xb8 = .skip 2 := by decide
    simp [SInsn.encode, SInsn.size, pass1Step, cU8_cons, hk, cSkip, lengthGe, be16, targetsOf, createAll]
  | invokeinterface m =>
    have hk : p1Kind 0xb9 = .skip 4 := by decide
    simp [SInsn.encode, SInsn.size, pass1Step, cU8_cons, hk, cSkip, lengthGe, be16, targetsOf, createAll]
  | invokedynamic dd =>
    have hk : p1Kind 0xba = .skip 4 := by decide
    simp [SInsn.encode, SInsn.size, pass1Step, cU8_cons, hk, cSkip, lengthGe, be16, targetsOf, createAll]
  | new c =>
    have hk : p1Kind 0xbb = .skip 2 := by decide
    simp [SInsn.encode, SInsn.size, pass1Step, cU8_cons, hk, cSkip, lengthGe, be16, targetsOf, createAll]
  | newarray at_ =>
    have hk : p1Kind 0xbc = .skip 1 := by decide
    simp [SInsn.encode, SInsn.size, pass1Step, cU8_cons, hk, cSkip, lengthGe, targetsOf, createAll]
  | anewarray c =>
    have hk : p1Kind 0xbd = .skip 2 := by decide
    simp [SInsn.encode, SInsn.size, pass1Step, cU8_cons, hk, cSkip, lengthGe, be16, targetsOf, createAll]
  | checkcast c =>
    have hk : p1Kind 0xc0 = .skip 2 := by decide
    simp [SInsn.encode, SInsn.size, pass1Step, cU8_cons, hk, cSkip, lengthGe, be16, targetsOf, createAll]
  | instanceof c =>
    have hk : p1Kind 0xc1 = .skip 2 := by decide
    simp [SInsn.encode, SInsn.size, pass1Step, cU8_cons, hk, cSkip, lengthGe, be16, targetsOf, createAll]
  | multianewarray c dims =>
    have hk : p1Kind 0xc5 = .skip 3 := by decide
    simp [SInsn.encode, SInsn.size, pass1Step, cU8_cons, hk, cSkip, lengthGe, be16, targetsOf, createAll]

end ClassRead
