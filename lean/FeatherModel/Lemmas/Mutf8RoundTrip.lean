import FeatherModel.Lemmas.Mutf8Steps

/-! C01 lemmas: `JavaString::from_modified_utf8` reads back the JVMS §4.4.7 encoding of every encodable string. -/

namespace Mutf8

/-- code points whose modified-UTF-8 form is also strict UTF-8: not NUL, not a surrogate, below U+10000 -/
def plain (c : Nat) : Prop := (1 ≤ c ∧ c < 0xd800) ∨ (0xe000 ≤ c ∧ c < 0x10000)

theorem strictStep_plain (c : Nat) (h : plain c) (r : Bytes) : strictStep (encCp c ++ r) = some (c, r) := by
  unfold plain at h
  unfold encCp
  have h0 : ¬ c = 0 := by omega
  by_cases h1 : c < 128
  · simp only [h0, h1, if_false, if_true, List.cons_append, List.nil_append]
    exact strict1 c r h1
  · by_cases h2 : c < 2048
    · simp only [h0, h1, h2, if_false, if_true, List.cons_append, List.nil_append]
      rw [strict2 (192 + c / 64) (128 + c % 64) r (by omega) (by omega) (by omega) (by omega)]
      have e : (192 + c / 64 - 192) * 64 + (128 + c % 64 - 128) = c := by omega
      rw [e]
    · have h3 : c < 65536 := by omega
      simp only [h0, h1, h2, h3, if_false, if_true, List.cons_append, List.nil_append]
      rw [strict3 (224 + c / 4096) (128 + c / 64 % 64) (128 + c % 64) r (by omega) (by omega) (by omega) (by omega) (by omega) (by omega) (by omega) (by omega)]
      have e : ((224 + c / 4096 - 224) * 64 + (128 + c / 64 % 64 - 128)) * 64 + (128 + c % 64 - 128) = c := by omega
      rw [e]

theorem strictStep_not_plain (c : Nat) (hc : c < 0x110000) (h : ¬ plain c) (r : Bytes) : strictStep (encCp c ++ r) = none := by
  unfold plain at h
  unfold encCp
  by_cases h0 : c = 0
  · subst h0; simp only [if_true, List.cons_append, List.nil_append]; exact strict_c0 _
  · have h1 : ¬ c < 128 := by omega
    have h2 : ¬ c < 2048 := by omega
    by_cases h3 : c < 65536
    · have e1 : 224 + c / 4096 = 237 := by omega
      simp only [h0, h1, h2, h3, if_false, if_true, List.cons_append, List.nil_append, e1]
      exact strict_surrogate _ _ (by omega)
    · simp only [h0, h1, h2, h3, if_false, List.cons_append, List.nil_append]
      exact strict_surrogate _ _ (by omega)

theorem encCp_not_startsLow (d : Nat) (hd : d < 0x110000) (hl : isLow d = false) (r : Bytes) : ¬ startsLow (encCp d ++ r) := by
  intro ⟨b4, b5, r', he, h1, h2, _⟩
  unfold encCp at he
  simp only [isLow, Bool.and_eq_false_iff, decide_eq_false_iff_not] at hl
  split at he
  · simp at he
  · split at he
    · simp at he; omega
    · split at he
      · simp at he; omega
      · split at he
        · simp only [List.cons_append, List.nil_append, List.cons.injEq] at he
          omega
        · simp only [List.cons_append, List.nil_append, List.cons.injEq] at he
          omega

theorem internalStep_enc (c : Nat) (hc : c < 0x110000) (r : Bytes) (hr : isHigh c = true → ¬ startsLow r) :
    internalStep (encCp c ++ r) = some (c, r) := by
  unfold encCp
  by_cases h0 : c = 0
  · subst h0; simp only [if_true, List.cons_append, List.nil_append]; exact internalNul r
  · by_cases h1 : c < 128
    · simp only [h0, h1, if_false, if_true, List.cons_append, List.nil_append]
      exact internal1 c r h0 h1
    · by_cases h2 : c < 2048
      · simp only [h0, h1, h2, if_false, if_true, List.cons_append, List.nil_append]
        rw [internal2 (192 + c / 64) (128 + c % 64) r (by omega) (by omega) (by omega) (by omega)]
        have e : (192 + c / 64 - 192) * 64 + (128 + c % 64 - 128) = c := by omega
        rw [e]
      · by_cases h3 : c < 65536
        · simp only [h0, h1, h2, h3, if_false, if_true, List.cons_append, List.nil_append]
          by_cases hs : 0xd800 ≤ c ∧ c < 0xdc00
          · have hh : isHigh c = true := by simp only [isHigh, Bool.and_eq_true, decide_eq_true_eq]; exact hs
            have e1 : 224 + c / 4096 = 237 := by omega
            rw [e1, internal3_high (128 + c / 64 % 64) (128 + c % 64) r (by omega) (by omega) (by omega) (by omega) (hr hh)]
            have e : ((237 - 224) * 64 + (128 + c / 64 % 64 - 128)) * 64 + (128 + c % 64 - 128) = c := by omega
            rw [e]
          · rw [internal3 (224 + c / 4096) (128 + c / 64 % 64) (128 + c % 64) r (by omega) (by omega) (by omega) (by omega) (by omega) (by omega) (by omega) (by omega)]
            have e : ((224 + c / 4096 - 224) * 64 + (128 + c / 64 % 64 - 128)) * 64 + (128 + c % 64 - 128) = c := by omega
            rw [e]
        · simp only [h0, h1, h2, h3, if_false, List.cons_append, List.nil_append]
          rw [internal6 (128 + (0xd800 + (c - 65536) / 1024) / 64 % 64) (128 + (0xd800 + (c - 65536) / 1024) % 64) (128 + (0xdc00 + (c - 65536) % 1024) / 64 % 64) (128 + (0xdc00 + (c - 65536) % 1024) % 64) r (by omega) (by omega) (by omega) (by omega) (by omega) (by omega) (by omega) (by omega)]
          have e : 0x10000 + ((0xd000 + (128 + (0xd800 + (c - 65536) / 1024) / 64 % 64 - 128) * 64 + (128 + (0xd800 + (c - 65536) / 1024) % 64 - 128) - 0xd800) * 1024
              + (0xd000 + (128 + (0xdc00 + (c - 65536) % 1024) / 64 % 64 - 128) * 64 + (128 + (0xdc00 + (c - 65536) % 1024) % 64 - 128) - 0xdc00)) = c := by omega
          rw [e]

theorem encCp_ne_nil (c : Nat) : encCp c ≠ [] := by
  unfold encCp; split <;> (try split) <;> (try split) <;> (try split) <;> simp

theorem encode_cons (c : Nat) (s : JStr) : encode (c :: s) = encCp c ++ encode s := by
  simp [encode, List.flatMap_cons]

theorem decodeAll_internal (s : JStr) (hs : Encodable s = true) (fuel : Nat) (hf : s.length ≤ fuel) :
    decodeAll internalStep fuel (encode s) = some s := by
  induction s generalizing fuel with
  | nil => cases fuel <;> simp [encode, decodeAll]
  | cons c s ih =>
    cases fuel with
    | zero => simp at hf
    | succ fuel =>
      have hc : c < 0x110000 ∧ Encodable s = true ∧ (isHigh c = true → ¬ startsLow (encode s)) := by
        cases s with
        | nil => simp [Encodable] at hs; exact ⟨hs, rfl, fun _ => by simp [encode, startsLow]⟩
        | cons d s' =>
          simp only [Encodable, Bool.and_eq_true, decide_eq_true_eq, Bool.not_eq_true'] at hs
          refine ⟨hs.1.1, hs.2, fun hh => ?_⟩
          rw [encode_cons]
          apply encCp_not_startsLow d (by have := hs.2; cases s' <;> simp_all [Encodable])
          have := hs.1.2
          simp only [Bool.and_eq_false_iff] at this
          rcases this with h | h
          · rw [hh] at h; simp at h
          · exact h
      rw [encode_cons]
      have hne : encCp c ++ encode s ≠ [] := by
        intro h; exact encCp_ne_nil c (List.append_eq_nil_iff.mp h).1
      have hstep := internalStep_enc c hc.1 (encode s) hc.2.2
      cases hl : encCp c ++ encode s with
      | nil => exact absurd hl hne
      | cons b bs =>
        rw [hl] at hstep
        simp only [decodeAll, hstep, ih hc.2.1 fuel (by simp at hf; omega), Option.map_some]

theorem decodeAll_strict (s : JStr) (hs : ∀ c ∈ s, c < 0x110000) (fuel : Nat) (s' : JStr)
    (h : decodeAll strictStep fuel (encode s) = some s') : s' = s := by
  induction s generalizing fuel s' with
  | nil => cases fuel <;> simp [encode, decodeAll] at h <;> exact h
  | cons c s ih =>
    rw [encode_cons] at h
    have hne : encCp c ++ encode s ≠ [] := by
      intro h; exact encCp_ne_nil c (List.append_eq_nil_iff.mp h).1
    cases hl : encCp c ++ encode s with
    | nil => exact absurd hl hne
    | cons b bs =>
      cases fuel with
      | zero => rw [hl] at h; simp [decodeAll] at h
      | succ fuel =>
        by_cases hp : plain c
        · have hstep := strictStep_plain c hp (encode s)
          rw [hl] at hstep h
          simp only [decodeAll, hstep] at h
          cases hd : decodeAll strictStep fuel (encode s) with
          | none => simp [hd] at h
          | some t =>
            simp only [hd, Option.map_some, Option.some.injEq] at h
            rw [← h, ih (fun d hd' => hs d (by simp [hd'])) fuel t hd]
        · have hstep := strictStep_not_plain c (hs c (by simp)) hp (encode s)
          rw [hl] at hstep h
          simp [decodeAll, hstep] at h

theorem encodable_lt (s : JStr) (hs : Encodable s = true) : ∀ c ∈ s, c < 0x110000 := by
  induction s with
  | nil => simp
  | cons c s ih =>
    intro d hd
    cases s with
    | nil => simp [Encodable] at hs; simp at hd; omega
    | cons e s' =>
      simp only [Encodable, Bool.and_eq_true, decide_eq_true_eq] at hs
      rcases List.mem_cons.mp hd with rfl | hd
      · exact hs.1.1
      · exact ih hs.2 d hd

theorem encode_length_ge (s : JStr) : s.length ≤ (encode s).length := by
  induction s with
  | nil => simp [encode]
  | cons c s ih =>
    rw [encode_cons, List.length_append]
    have : 1 ≤ (encCp c).length := by
      cases h : encCp c with
      | nil => exact absurd h (encCp_ne_nil c)
      | cons _ _ => simp
    simp; omega

/-- `from_modified_utf8 (encode s) = s` -/
theorem decode_encode (s : JStr) (hs : Encodable s = true) : decode (encode s) = some s := by
  unfold decode utf8Strict mutf8Internal
  cases h : decodeAll strictStep (encode s).length (encode s) with
  | some s' => rw [decodeAll_strict s (encodable_lt s hs) _ s' h]
  | none => exact decodeAll_internal s hs _ (encode_length_ge s)

end Mutf8
