import FeatherModel.Lemmas.ClassWriteFullBlocks

/-!
# C02 (whole writer) — annotations: what `write_annotations_attribute` / `write_element_value_unnamed` emit is the JVMS
encoding of an `SAnno` / `SElem` that denotes the annotation and is legal in every pool still reachable
-/

namespace ClassRead

/-- the value of a constant element value is a value of the Rust type its tag stands for (`i8`, `u16`, `f64` bits,
`f32` bits, `i32`, `i64`, `i16`, `bool`) -/
def constOk (tag : Nat) (v : Int) : Prop :=
  (tag = 66 ∧ -128 ≤ v ∧ v < 128) ∨ (tag = 67 ∧ 0 ≤ v ∧ v < 65536) ∨ (tag = 68 ∧ 0 ≤ v) ∨ (tag = 70 ∧ 0 ≤ v) ∨
    tag = 73 ∨ tag = 74 ∨ (tag = 83 ∧ -32768 ≤ v ∧ v < 32768) ∨ (tag = 90 ∧ (v = 0 ∨ v = 1))

instance (tag : Nat) (v : Int) : Decidable (constOk tag v) := by unfold constOk; infer_instance

mutual
/-- every constant is well typed -/
def ElemVal.ok : ElemVal → Prop
  | .const tag v => constOk tag v
  | .anno a => a.ok
  | .arr vs => elemsOk vs
  | _ => True
def Annotation.ok : Annotation → Prop
  | .mk _ ps => pairsOk ps
def pairsOk : List (JStr × ElemVal) → Prop
  | [] => True
  | (_, v) :: r => v.ok ∧ pairsOk r
def elemsOk : List ElemVal → Prop
  | [] => True
  | v :: r => v.ok ∧ elemsOk r
end

mutual
/-- how many levels of `@` / `[` an element value nests below itself (`SElem.nest` of what is written) -/
def ElemVal.depth : ElemVal → Nat
  | .anno a => a.depth + 1
  | .arr vs => elemsDepth vs + 1
  | _ => 0
def Annotation.depth : Annotation → Nat
  | .mk _ ps => pairsDepth ps
def pairsDepth : List (JStr × ElemVal) → Nat
  | [] => 0
  | (_, v) :: r => max v.depth (pairsDepth r)
def elemsDepth : List ElemVal → Nat
  | [] => 0
  | v :: r => max v.depth (elemsDepth r)
end

mutual
def decElemOk : (v : ElemVal) → Decidable v.ok
  | .const tag x => by unfold ElemVal.ok; infer_instance
  | .str _ => by unfold ElemVal.ok; infer_instance
  | .enum _ _ => by unfold ElemVal.ok; infer_instance
  | .cls _ => by unfold ElemVal.ok; infer_instance
  | .anno a => by unfold ElemVal.ok; exact decAnnoOk a
  | .arr vs => by unfold ElemVal.ok; exact decElemsOk vs
def decAnnoOk : (a : Annotation) → Decidable a.ok
  | .mk _ ps => by unfold Annotation.ok; exact decPairsOk ps
def decPairsOk : (ps : List (JStr × ElemVal)) → Decidable (pairsOk ps)
  | [] => by unfold pairsOk; infer_instance
  | (_, v) :: r => by
    unfold pairsOk
    exact @instDecidableAnd _ _ (decElemOk v) (decPairsOk r)
def decElemsOk : (vs : List ElemVal) → Decidable (elemsOk vs)
  | [] => by unfold elemsOk; infer_instance
  | v :: r => by
    unfold elemsOk
    exact @instDecidableAnd _ _ (decElemOk v) (decElemsOk r)
end

instance (v : ElemVal) : Decidable v.ok := decElemOk v
instance (a : Annotation) : Decidable a.ok := decAnnoOk a

end ClassRead

namespace ClassWriteFull
open PoolWrite (Entry)
open FramePool (Good Le)
open ClassRead ClassRead.Spec

/-! ## constants -/

theorem wrapI8_id {v : Int} (h1 : -128 ≤ v) (h2 : v < 128) : wrapI8 v = v := by
  unfold wrapI8 toI8
  split <;> omega

theorem wrapI16_id {v : Int} (h1 : -32768 ≤ v) (h2 : v < 32768) : wrapI16 v = v := by
  unfold wrapI16 toI16
  split <;> omega

theorem wrapU16_id {v : Int} (h1 : 0 ≤ v) (h2 : v < 65536) : wrapU16 v = v := by
  unfold wrapU16
  omega

/-- the pool entry written for a well-typed constant resolves, through the reader's narrowing for the tag, to the value -/
theorem constValue_of {q : Pool} (hq : Good q) {tag : Nat} {v : Int} {e : Entry} {i : Nat} (hc : constEntry tag v = some e)
    (hok : constOk tag v) (hg : q.get i = some e) : constValue (rpool q) tag i = .ok v := by
  have hr := rget_of_get hq.1 hg
  unfold constEntry at hc
  unfold constOk at hok
  split at hc
  · cases hc
    rename_i ht
    rcases ht with rfl | rfl | rfl | rfl | rfl
    · have : -128 ≤ v ∧ v < 128 := by omega
      simp [constValue, Pool.getInteger, hr, conv, bind, Outcome.bind, wrapI8_id this.1 this.2]
    · have : 0 ≤ v ∧ v < 65536 := by omega
      simp [constValue, Pool.getInteger, hr, conv, bind, Outcome.bind, wrapU16_id this.1 this.2]
    · simp [constValue, Pool.getInteger, hr, conv, bind, Outcome.bind]
    · have : -32768 ≤ v ∧ v < 32768 := by omega
      simp [constValue, Pool.getInteger, hr, conv, bind, Outcome.bind, wrapI16_id this.1 this.2]
    · have : v = 0 ∨ v = 1 := by omega
      rcases this with rfl | rfl <;> simp [constValue, Pool.getInteger, hr, conv, bind, Outcome.bind]
  · split at hc
    · cases hc
      rename_i ht
      subst ht
      have : 0 ≤ v := by omega
      simp [constValue, Pool.getDouble, hr, conv, bind, Outcome.bind, Int.toNat_of_nonneg this]
    · split at hc
      · cases hc
        rename_i ht
        subst ht
        have : 0 ≤ v := by omega
        simp [constValue, Pool.getFloat, hr, conv, bind, Outcome.bind, Int.toNat_of_nonneg this]
      · split at hc
        · cases hc
          rename_i ht
          subst ht
          simp [constValue, Pool.getLong, hr, conv, bind, Outcome.bind]
        · cases hc

/-! ## the recursion -/

/-- what a written element value is: the encoding of `se`, which denotes `v`, nests as deep as `v`, and is legal in
every pool still reachable -/
def ElemSpec (p' : Pool) (v : ElemVal) (b : Bytes) : Prop :=
  ∃ se : SElem, b = se.encode ∧ se.fact = v ∧ se.nest = v.depth ∧ ∀ q, Ext p' q → se.Legal (rpool q)

def AnnoSpec (p' : Pool) (a : Annotation) (b : Bytes) : Prop :=
  ∃ sa : SAnno, b = sa.encode ∧ sa.fact = a ∧ sa.nest = a.depth ∧ ∀ q, Ext p' q → sa.Legal (rpool q)

def PairsSpec (p' : Pool) (ps : List (JStr × ElemVal)) (b : Bytes) : Prop :=
  ∃ sps : List SPair, b = encPairs sps ∧ pairFacts sps = ps ∧ pairsNest sps = pairsDepth ps ∧ sps.length = ps.length ∧
    ∀ q, Ext p' q → pairsLegal (rpool q) sps

def ElemsSpec (p' : Pool) (vs : List ElemVal) (b : Bytes) : Prop :=
  ∃ ses : List SElem, b = encElems ses ∧ elemFacts ses = vs ∧ elemsNest ses = elemsDepth vs ∧ ses.length = vs.length ∧
    ∀ q, Ext p' q → elemsLegal (rpool q) ses

mutual
theorem writeElemVal_spec : ∀ (v : ElemVal) {p p' : Pool} {b : Bytes}, Good p → v.ok → writeElemVal p v = .ok (b, p') →
    Step p p' ∧ ElemSpec p' v b
  | .const tag x, p, p', b, hg, hok, h => by
    unfold writeElemVal at h
    unfold ElemVal.ok at hok
    split at h
    · cases h
    · rename_i e he
      split at h
      · cases h
      · rename_i i p1 hp
        have := ok_inj.mp h
        cases this
        obtain ⟨s, a, hi⟩ := put_spec hg hp
        refine ⟨s, .const tag i x, rfl, rfl, rfl, ?_⟩
        intro q hq
        exact ⟨hi, constValue_of hq.good he hok (hq.le _ _ a)⟩
  | .str s, p, p', b, hg, _, h => by
    unfold writeElemVal at h
    split at h
    · cases h
    · rename_i i p1 hp
      have := ok_inj.mp h
      cases this
      obtain ⟨st, a, hi⟩ := putUtf8_spec hg hp
      exact ⟨st, .str i s, rfl, rfl, rfl, fun q hq => ⟨hi, getUtf8_of hq.good (a.mono hq.le)⟩⟩
  | .enum ty name, p, p', b, hg, _, h => by
    unfold writeElemVal at h
    split at h
    · cases h
    · rename_i t p1 hp1
      split at h
      · cases h
      · rename_i n p2 hp2
        have := ok_inj.mp h
        cases this
        obtain ⟨s1, a1, h1⟩ := putUtf8_spec hg hp1
        obtain ⟨s2, a2, h2⟩ := putUtf8_spec s1.good hp2
        exact ⟨s1.trans s2, .enum t ty n name, rfl, rfl, rfl, fun q hq =>
          ⟨h1, h2, getUtf8_of hq.good (a1.mono (s2.le.trans hq.le)), getUtf8_of hq.good (a2.mono hq.le)⟩⟩
  | .cls d, p, p', b, hg, _, h => by
    unfold writeElemVal at h
    split at h
    · cases h
    · rename_i i p1 hp
      have := ok_inj.mp h
      cases this
      obtain ⟨st, a, hi⟩ := putUtf8_spec hg hp
      exact ⟨st, .cls i d, rfl, rfl, rfl, fun q hq => ⟨hi, getUtf8_of hq.good (a.mono hq.le)⟩⟩
  | .anno a, p, p', b, hg, hok, h => by
    unfold writeElemVal at h
    unfold ElemVal.ok at hok
    split at h
    · cases h
    · rename_i bb p1 hp
      have := ok_inj.mp h
      cases this
      obtain ⟨st, sa, rfl, hf, hn, hl⟩ := writeAnnotation_spec a hg hok hp
      exact ⟨st, .anno sa, rfl, by simp [SElem.fact, hf], by simp [SElem.nest, ElemVal.depth, hn], fun q hq => hl q hq⟩
  | .arr vs, p, p', b, hg, hok, h => by
    unfold writeElemVal at h
    unfold ElemVal.ok at hok
    split at h
    · cases h
    · rename_i c hc
      obtain ⟨hlen, rfl⟩ := cnt16_eq_ok.mp hc
      split at h
      · cases h
      · rename_i bb p1 hp
        have := ok_inj.mp h
        cases this
        obtain ⟨st, ses, rfl, hf, hn, hl, hleg⟩ := writeElemVals_spec vs hg hok hp
        refine ⟨st, .arr ses, by simp [SElem.encode, hl], by simp [SElem.fact, hf], by simp [SElem.nest, ElemVal.depth, hn], ?_⟩
        intro q hq
        exact ⟨by omega, hleg q hq⟩
theorem writeAnnotation_spec : ∀ (a : Annotation) {p p' : Pool} {b : Bytes}, Good p → a.ok → writeAnnotation p a = .ok (b, p') →
    Step p p' ∧ AnnoSpec p' a b
  | .mk ty pairs, p, p', b, hg, hok, h => by
    unfold writeAnnotation at h
    unfold Annotation.ok at hok
    split at h
    · cases h
    · rename_i t p1 hp1
      split at h
      · cases h
      · rename_i c hc
        obtain ⟨hlen, rfl⟩ := cnt16_eq_ok.mp hc
        split at h
        · cases h
        · rename_i bb p2 hp2
          have := ok_inj.mp h
          cases this
          obtain ⟨s1, a1, h1⟩ := putUtf8_spec hg hp1
          obtain ⟨s2, sps, rfl, hf, hn, hl, hleg⟩ := writePairs_spec pairs s1.good hok hp2
          refine ⟨s1.trans s2, .mk t ty sps, by simp [SAnno.encode, hl], by simp [SAnno.fact, hf],
            by simp [SAnno.nest, Annotation.depth, hn], ?_⟩
          intro q hq
          exact ⟨h1, getUtf8_of hq.good (a1.mono (s2.le.trans hq.le)), by omega, hleg q hq⟩
theorem writePairs_spec : ∀ (ps : List (JStr × ElemVal)) {p p' : Pool} {b : Bytes}, Good p → pairsOk ps →
    writePairs p ps = .ok (b, p') → Step p p' ∧ PairsSpec p' ps b
  | [], p, p', b, hg, _, h => by
    unfold writePairs at h
    have := ok_inj.mp h
    cases this
    exact ⟨Step.refl hg, [], rfl, rfl, rfl, rfl, fun _ _ => trivial⟩
  | (name, v) :: rest, p, p', b, hg, hok, h => by
    unfold writePairs at h
    unfold pairsOk at hok
    split at h
    · cases h
    · rename_i n p1 hp1
      split at h
      · cases h
      · rename_i b1 p2 hp2
        split at h
        · cases h
        · rename_i b2 p3 hp3
          have := ok_inj.mp h
          cases this
          obtain ⟨s1, a1, h1⟩ := putUtf8_spec hg hp1
          obtain ⟨s2, se, rfl, hf, hn, hleg⟩ := writeElemVal_spec v s1.good hok.1 hp2
          obtain ⟨s3, sps, rfl, hfs, hns, hl, hlegs⟩ := writePairs_spec rest s2.good hok.2 hp3
          refine ⟨s1.trans (s2.trans s3), .mk n name se :: sps, by simp [encPairs, SPair.encode, List.append_assoc],
            by simp [pairFacts, SPair.fact, hf, hfs], by simp [pairsNest, SPair.nest, pairsDepth, hn, hns], by simp [hl], ?_⟩
          intro q hq
          exact ⟨⟨h1, getUtf8_of hq.good (a1.mono ((s2.trans s3).le.trans hq.le)), hleg q (hq.of_le s3.le)⟩, hlegs q hq⟩
theorem writeElemVals_spec : ∀ (vs : List ElemVal) {p p' : Pool} {b : Bytes}, Good p → elemsOk vs →
    writeElemVals p vs = .ok (b, p') → Step p p' ∧ ElemsSpec p' vs b
  | [], p, p', b, hg, _, h => by
    unfold writeElemVals at h
    have := ok_inj.mp h
    cases this
    exact ⟨Step.refl hg, [], rfl, rfl, rfl, rfl, fun _ _ => trivial⟩
  | v :: rest, p, p', b, hg, hok, h => by
    unfold writeElemVals at h
    unfold elemsOk at hok
    split at h
    · cases h
    · rename_i b1 p1 hp1
      split at h
      · cases h
      · rename_i b2 p2 hp2
        have := ok_inj.mp h
        cases this
        obtain ⟨s1, se, rfl, hf, hn, hleg⟩ := writeElemVal_spec v hg hok.1 hp1
        obtain ⟨s2, ses, rfl, hfs, hns, hl, hlegs⟩ := writeElemVals_spec rest s1.good hok.2 hp2
        refine ⟨s1.trans s2, se :: ses, by simp [encElems], by simp [elemFacts, hf, hfs],
          by simp [elemsNest, elemsDepth, hn, hns], by simp [hl], ?_⟩
        intro q hq
        exact ⟨hleg q (hq.of_le s2.le), hlegs q hq⟩
end

end ClassWriteFull
