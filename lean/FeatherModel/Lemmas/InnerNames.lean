import FeatherModel.Model.InnerNames

namespace InnerNames

theorem rsplitOnce_some {c : Nat} {s p i : List Nat} (h : rsplitOnce c s = some (p, i)) :
    s = p ++ c :: i ∧ c ∉ i := by
  induction s generalizing p i with
  | nil => simp [rsplitOnce] at h
  | cons x xs ih =>
    simp only [rsplitOnce] at h
    cases hr : rsplitOnce c xs with
    | some pi =>
      obtain ⟨p', i'⟩ := pi
      rw [hr] at h
      simp only [Option.some.injEq, Prod.mk.injEq] at h
      obtain ⟨rfl, rfl⟩ := h
      obtain ⟨h1, h2⟩ := ih hr
      exact ⟨by rw [h1]; rfl, h2⟩
    | none =>
      rw [hr] at h
      simp only at h
      split at h
      · rename_i hx
        simp only [Option.some.injEq, Prod.mk.injEq] at h
        obtain ⟨rfl, rfl⟩ := h
        refine ⟨by simp [hx], ?_⟩
        -- c ∉ xs because rsplitOnce c xs = none
        clear ih
        induction xs with
        | nil => simp
        | cons y ys ihy =>
          simp only [rsplitOnce] at hr
          cases hr2 : rsplitOnce c ys with
          | some q => rw [hr2] at hr; simp at hr
          | none =>
            rw [hr2] at hr
            simp only at hr
            split at hr
            · simp at hr
            · rename_i hy
              simp only [List.mem_cons, not_or]
              exact ⟨fun h => hy h.symm, ihy hr2⟩
      · simp at h

theorem rsplitOnce_none_iff {c : Nat} {s : List Nat} : rsplitOnce c s = none ↔ c ∉ s := by
  induction s with
  | nil => simp [rsplitOnce]
  | cons x xs ih =>
    simp only [rsplitOnce]
    cases hr : rsplitOnce c xs with
    | some q =>
      simp only [List.mem_cons, not_or]
      constructor
      · intro h; simp at h
      · intro ⟨_, h2⟩
        have := ih.mpr h2
        rw [hr] at this; simp at this
    | none =>
      have hn := ih.mp hr
      simp only [List.mem_cons, not_or]
      constructor
      · intro h
        split at h
        · simp at h
        · rename_i hx; exact ⟨fun e => hx e.symm, hn⟩
      · intro ⟨h1, _⟩
        split
        · rename_i hx; exact absurd hx.symm h1
        · rfl

theorem rsplitOnce_append {c : Nat} (p i : List Nat) (hi : c ∉ i) :
    rsplitOnce c (p ++ c :: i) = some (p, i) := by
  induction p with
  | nil =>
    simp only [List.nil_append, rsplitOnce]
    rw [rsplitOnce_none_iff.mpr hi]
    simp
  | cons x xs ih =>
    simp only [List.cons_append, rsplitOnce, ih]

theorem rsplitOnce_length {c : Nat} {s p i : List Nat} (h : rsplitOnce c s = some (p, i)) :
    p.length < s.length := by
  obtain ⟨h1, _⟩ := rsplitOnce_some h
  rw [h1]; simp

theorem split_some {s p i : JStr} (h : split s = some (p, i)) :
    s = p ++ DOLLAR :: i ∧ DOLLAR ∉ i ∧ p ≠ [] ∧ i ≠ [] ∧ p.getLast? ≠ some SLASH ∧ SLASH ∉ i := by
  unfold split at h
  cases hr : rsplitOnce DOLLAR s with
  | none => rw [hr] at h; simp at h
  | some q =>
    obtain ⟨p', i'⟩ := q
    rw [hr] at h
    simp only at h
    split at h
    · rename_i hc
      simp only [Option.some.injEq, Prod.mk.injEq] at h
      obtain ⟨rfl, rfl⟩ := h
      obtain ⟨h1, h2⟩ := rsplitOnce_some hr
      exact ⟨h1, h2, hc.1, hc.2.1, hc.2.2.1, hc.2.2.2⟩
    · simp at h

theorem split_length {s p i : JStr} (h : split s = some (p, i)) : p.length < s.length := by
  obtain ⟨h1, _⟩ := split_some h
  rw [h1]; simp

end InnerNames
