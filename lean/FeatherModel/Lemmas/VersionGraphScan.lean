import FeatherModel.Model.VersionGraph

/-! The directory scan of the version graph for arbitrary (also ill-formed) directories; file-name arithmetic. -/

namespace VG

theorem addNode_root (g : Graph) (vs : JStr) : (addNode g vs).1.root = g.root := by
  unfold addNode
  split
  · rename_i client server _
    cases AList.lookup client g.versions with
    | some q =>
      simp only
      cases AList.lookup server g.versions <;> rfl
    | none =>
      simp only
      split <;> rfl
  · split <;> rfl

theorem addNode_edges (g : Graph) (vs : JStr) : (addNode g vs).1.edges = g.edges := by
  unfold addNode
  split
  · rename_i client server _
    cases AList.lookup client g.versions with
    | some q =>
      simp only
      cases AList.lookup server g.versions <;> rfl
    | none =>
      simp only
      split <;> rfl
  · split <;> rfl

theorem badDiffName_fileRoot {f : JStr × Bytes} (h : badDiffName f = true) : fileRoot f = none := by
  unfold badDiffName at h
  unfold fileRoot
  cases hs : stripSuffix EXT_TINY f.1 with
  | some _ => rw [hs] at h; simp at h
  | none => rfl

theorem addFile_none_iff (g : Graph) (f : JStr × Bytes) :
    addFile g f = none ↔ (badDiffName f = true ∨ ((fileRoot f).isSome = true ∧ g.root.isSome = true)) := by
  unfold addFile badDiffName fileRoot
  cases stripSuffix EXT_TINY f.1 with
  | some vs =>
    simp only
    rw [addNode_root]
    cases g.root <;> simp
  | none =>
    simp only
    cases stripSuffix EXT_DIFF f.1 with
    | none => simp
    | some raw =>
      simp only
      cases splitOnce HASH raw with
      | none => simp
      | some pv => obtain ⟨p, v⟩ := pv; simp

theorem addFile_root {g g' : Graph} {f : JStr × Bytes} (h : addFile g f = some g') :
    g'.root.isSome = (g.root.isSome || (fileRoot f).isSome) ∧ (fileRoot f = none → g'.root = g.root) := by
  unfold addFile at h
  unfold fileRoot
  cases ht : stripSuffix EXT_TINY f.1 with
  | some vs =>
    rw [ht] at h
    simp only at h
    rw [addNode_root] at h
    cases hr : g.root with
    | some r => rw [hr] at h; simp at h
    | none =>
      rw [hr] at h
      simp only [Option.some.injEq] at h
      subst h
      simp
  | none =>
    rw [ht] at h
    simp only at h
    cases hd : stripSuffix EXT_DIFF f.1 with
    | none =>
      rw [hd] at h
      simp only [Option.some.injEq] at h
      subst h
      simp
    | some raw =>
      rw [hd] at h
      simp only at h
      cases hh : splitOnce HASH raw with
      | none => rw [hh] at h; simp at h
      | some pv =>
        obtain ⟨p, v⟩ := pv
        rw [hh] at h
        simp only [Option.some.injEq] at h
        subst h
        simp [addNode_root]

def rootBit (g : Graph) : Nat := if g.root.isSome then 1 else 0

/-- the scan fails exactly on a `.tinydiff` without `#` or on a second `.tiny` — whatever the listing order -/
theorem addFiles_none_iff : ∀ (dir : List (JStr × Bytes)) (g : Graph),
    addFiles g dir = none ↔ (dir.any badDiffName = true ∨ 2 ≤ rootBit g + (dirRoots dir).length) := by
  intro dir
  induction dir with
  | nil =>
    intro g
    simp only [addFiles, dirRoots, List.any_nil, List.filterMap_nil, List.length_nil]
    unfold rootBit
    split <;> simp
  | cons f fs ih =>
    intro g
    simp only [addFiles]
    cases hf : addFile g f with
    | none =>
      simp only [true_iff]
      rcases (addFile_none_iff g f).mp hf with h | ⟨h1, h2⟩
      · left; simp [h]
      · right
        unfold rootBit
        simp only [h2, if_true, dirRoots, List.filterMap_cons]
        cases hfr : fileRoot f with
        | none => rw [hfr] at h1; simp at h1
        | some r => simp; omega
    | some g1 =>
      simp only
      rw [ih g1]
      have hnb : ¬ (badDiffName f = true ∨ ((fileRoot f).isSome = true ∧ g.root.isSome = true)) := by
        intro h
        have := (addFile_none_iff g f).mpr h
        rw [hf] at this; simp at this
      have hbad : badDiffName f = false := by
        cases hb : badDiffName f with
        | false => rfl
        | true => exact absurd (Or.inl hb) hnb
      obtain ⟨hroot, _⟩ := addFile_root hf
      simp only [List.any_cons, hbad, Bool.false_or, dirRoots, List.filterMap_cons]
      unfold rootBit
      rw [hroot]
      cases hfr : fileRoot f with
      | none => simp
      | some r =>
        have hg : g.root.isSome = false := by
          cases hgr : g.root.isSome with
          | false => rfl
          | true => exact absurd (Or.inr ⟨by simp [hfr], hgr⟩) hnb
        simp only [hg, Bool.false_or, Option.isSome_some, if_true, List.length_cons, Bool.false_eq_true, if_false]
        have : ∀ n : Nat, (2 ≤ 1 + n) ↔ (2 ≤ 0 + (n + 1)) := by intro n; omega
        rw [this]

theorem addFiles_root_none : ∀ (dir : List (JStr × Bytes)) {g g' : Graph},
    addFiles g dir = some g' → dirRoots dir = [] → g'.root = g.root := by
  intro dir
  induction dir with
  | nil => intro g g' h _; simp only [addFiles, Option.some.injEq] at h; subst h; rfl
  | cons f fs ih =>
    intro g g' h hr
    simp only [addFiles] at h
    cases hf : addFile g f with
    | none => rw [hf] at h; simp at h
    | some g1 =>
      rw [hf] at h
      simp only at h
      simp only [dirRoots, List.filterMap_cons] at hr
      cases hfr : fileRoot f with
      | some r => rw [hfr] at hr; simp at hr
      | none =>
        rw [hfr] at hr
        rw [ih h hr]
        exact (addFile_root hf).2 hfr

/-! ## file names -/

theorem stripSuffix_some {suf s r : List Nat} (h : stripSuffix suf s = some r) : s = r ++ suf := by
  unfold stripSuffix at h
  split at h
  · rename_i hc
    simp only [Option.some.injEq] at h
    subst h
    have := List.take_append_drop (s.length - suf.length) s
    rw [hc.2] at this
    exact this.symm
  · simp at h

theorem splitOnce_some {c : Nat} : ∀ {s a b : List Nat}, splitOnce c s = some (a, b) → s = a ++ c :: b := by
  intro s
  induction s with
  | nil => intro a b h; simp [splitOnce] at h
  | cons x xs ih =>
    intro a b h
    simp only [splitOnce] at h
    split at h
    · rename_i hx
      simp only [Option.some.injEq, Prod.mk.injEq] at h
      obtain ⟨h1, h2⟩ := h
      subst h1; subst h2; subst hx
      rfl
    · cases hs : splitOnce c xs with
      | none => rw [hs] at h; simp at h
      | some ab =>
        obtain ⟨a', b'⟩ := ab
        rw [hs] at h
        simp only [Option.some.injEq, Prod.mk.injEq] at h
        obtain ⟨h1, h2⟩ := h
        subst h1; subst h2
        rw [ih hs]
        rfl

/-- the name of a diff file is determined by the edge it stands for -/
theorem fileEdge_name {f : JStr × Bytes} {e : Edge} (h : fileEdge f = some e) :
    f.1 = (e.parent ++ HASH :: e.child) ++ EXT_DIFF ∧ e.content = f.2 := by
  unfold fileEdge at h
  cases ht : stripSuffix EXT_TINY f.1 with
  | some _ => rw [ht] at h; simp at h
  | none =>
    rw [ht] at h
    simp only at h
    cases hd : stripSuffix EXT_DIFF f.1 with
    | none => rw [hd] at h; simp at h
    | some raw =>
      rw [hd] at h
      simp only at h
      cases hh : splitOnce HASH raw with
      | none => rw [hh] at h; simp at h
      | some pv =>
        obtain ⟨p, v⟩ := pv
        rw [hh] at h
        simp only [Option.some.injEq] at h
        subst h
        exact ⟨by rw [stripSuffix_some hd, splitOnce_some hh], rfl⟩

theorem nodup_map_inj {α β : Type} {f : α → β} : ∀ {l : List α}, (l.map f).Nodup → ∀ {a b : α}, a ∈ l → b ∈ l →
    f a = f b → a = b := by
  intro l
  induction l with
  | nil => intro _ a b ha; simp at ha
  | cons x xs ih =>
    intro hnd a b ha hb hab
    simp only [List.map_cons, List.nodup_cons, List.mem_map, not_exists, not_and] at hnd
    obtain ⟨hx, hnd'⟩ := hnd
    rcases List.mem_cons.mp ha with h1 | h1 <;> rcases List.mem_cons.mp hb with h2 | h2
    · rw [h1, h2]
    · subst h1; exact absurd hab.symm (hx b h2)
    · subst h2; exact absurd hab (hx a h1)
    · exact ih hnd' h1 h2 hab

/-- a real directory (no two entries with the same name) yields no parallel diff files -/
theorem dirEdges_noParallel {dir : List (JStr × Bytes)} (hnd : (dir.map Prod.fst).Nodup) :
    ∀ e1, e1 ∈ dirEdges dir → ∀ e2, e2 ∈ dirEdges dir → e1.parent = e2.parent → e1.child = e2.child → e1 = e2 := by
  intro e1 h1 e2 h2 hp hc
  simp only [dirEdges, List.mem_filterMap] at h1 h2
  obtain ⟨f1, hf1, he1⟩ := h1
  obtain ⟨f2, hf2, he2⟩ := h2
  have hn1 := (fileEdge_name he1).1
  have hn2 := (fileEdge_name he2).1
  have : f1.1 = f2.1 := by rw [hn1, hn2, hp, hc]
  have := nodup_map_inj hnd hf1 hf2 this
  subst this
  rw [he1] at he2
  simpa using he2

/-! ## decidable well-formedness -/

theorem keysDisjointB_iff (vss : List JStr) : keysDisjointB vss = true ↔ KeysDisjoint vss := by
  unfold keysDisjointB KeysDisjoint
  simp only [List.all_eq_true, Bool.or_eq_true, beq_iff_eq, Bool.not_eq_true', List.contains_eq_mem, decide_eq_false_iff_not]
  constructor
  · intro h v1 h1 v2 h2 hne k hk
    rcases h v1 h1 v2 h2 with h' | h'
    · exact absurd h' hne
    · exact h' k hk
  · intro h v1 h1 v2 h2
    by_cases heq : v1 = v2
    · exact Or.inl heq
    · exact Or.inr (fun k hk => h v1 h1 v2 h2 heq k hk)

end VG
