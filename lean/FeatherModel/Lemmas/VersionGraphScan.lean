import FeatherModel.Model.VersionGraph

/-! The directory scan of the version graph for arbitrary (also ill-formed) directories; file-name arithmetic. -/

namespace VG

theorem addNodeRaw_root (g : Graph) (vs : JStr) : (addNodeRaw g vs).1.root = g.root := by
  unfold addNodeRaw
  split
  · rename_i client server _
    cases AList.lookup client g.versions with
    | some q =>
      simp only
      cases AList.lookup server g.versions <;> rfl
    | none =>
      simp only
      split <;> rfl
  · split <;> rfl

theorem addNodeRaw_edges (g : Graph) (vs : JStr) : (addNodeRaw g vs).1.edges = g.edges := by
  unfold addNodeRaw
  split
  · rename_i client server _
    cases AList.lookup client g.versions with
    | some q =>
      simp only
      cases AList.lookup server g.versions <;> rfl
    | none =>
      simp only
      split <;> rfl
  · split <;> rfl

theorem badDiffName_fileRoot {f : JStr × Bytes} (h : badDiffName f = true) : fileRoot f = none := by
  unfold badDiffName at h
  unfold fileRoot
  cases hs : stripSuffix EXT_TINY f.1 with
  | some _ => rw [hs] at h; simp at h
  | none => rfl

/-! ## file names -/

theorem stripSuffix_some {suf s r : List Nat} (h : stripSuffix suf s = some r) : s = r ++ suf := by
  unfold stripSuffix at h
  split at h
  · rename_i hc
    simp only [Option.some.injEq] at h
    subst h
    have := List.take_append_drop (s.length - suf.length) s
    rw [hc.2] at this
    exact this.symm
  · simp at h

theorem splitOnce_some {c : Nat} : ∀ {s a b : List Nat}, splitOnce c s = some (a, b) → s = a ++ c :: b := by
  intro s
  induction s with
  | nil => intro a b h; simp [splitOnce] at h
  | cons x xs ih =>
    intro a b h
    simp only [splitOnce] at h
    split at h
    · rename_i hx
      simp only [Option.some.injEq, Prod.mk.injEq] at h
      obtain ⟨h1, h2⟩ := h
      subst h1; subst h2; subst hx
      rfl
    · cases hs : splitOnce c xs with
      | none => rw [hs] at h; simp at h
      | some ab =>
        obtain ⟨a', b'⟩ := ab
        rw [hs] at h
        simp only [Option.some.injEq, Prod.mk.injEq] at h
        obtain ⟨h1, h2⟩ := h
        subst h1; subst h2
        rw [ih hs]
        rfl

/-- the name of a diff file is determined by the edge it stands for -/
theorem fileEdge_name {f : JStr × Bytes} {e : Edge} (h : fileEdge f = some e) :
    f.1 = (e.parent ++ HASH :: e.child) ++ EXT_DIFF ∧ e.content = f.2 := by
  unfold fileEdge at h
  cases ht : stripSuffix EXT_TINY f.1 with
  | some _ => rw [ht] at h; simp at h
  | none =>
    rw [ht] at h
    simp only at h
    cases hd : stripSuffix EXT_DIFF f.1 with
    | none => rw [hd] at h; simp at h
    | some raw =>
      rw [hd] at h
      simp only at h
      cases hh : splitOnce HASH raw with
      | none => rw [hh] at h; simp at h
      | some pv =>
        obtain ⟨p, v⟩ := pv
        rw [hh] at h
        simp only [Option.some.injEq] at h
        subst h
        exact ⟨by rw [stripSuffix_some hd, splitOnce_some hh], rfl⟩

theorem nodup_map_inj {α β : Type} {f : α → β} : ∀ {l : List α}, (l.map f).Nodup → ∀ {a b : α}, a ∈ l → b ∈ l →
    f a = f b → a = b := by
  intro l
  induction l with
  | nil => intro _ a b ha; simp at ha
  | cons x xs ih =>
    intro hnd a b ha hb hab
    simp only [List.map_cons, List.nodup_cons, List.mem_map, not_exists, not_and] at hnd
    obtain ⟨hx, hnd'⟩ := hnd
    rcases List.mem_cons.mp ha with h1 | h1 <;> rcases List.mem_cons.mp hb with h2 | h2
    · rw [h1, h2]
    · subst h1; exact absurd hab.symm (hx b h2)
    · subst h2; exact absurd hab (hx a h1)
    · exact ih hnd' h1 h2 hab

/-- a real directory (no two entries with the same name) yields no parallel diff files -/
theorem dirEdges_noParallel {dir : List (JStr × Bytes)} (hnd : (dir.map Prod.fst).Nodup) :
    ∀ e1, e1 ∈ dirEdges dir → ∀ e2, e2 ∈ dirEdges dir → e1.parent = e2.parent → e1.child = e2.child → e1 = e2 := by
  intro e1 h1 e2 h2 hp hc
  simp only [dirEdges, List.mem_filterMap] at h1 h2
  obtain ⟨f1, hf1, he1⟩ := h1
  obtain ⟨f2, hf2, he2⟩ := h2
  have hn1 := (fileEdge_name he1).1
  have hn2 := (fileEdge_name he2).1
  have : f1.1 = f2.1 := by rw [hn1, hn2, hp, hc]
  have := nodup_map_inj hnd hf1 hf2 this
  subst this
  rw [he1] at he2
  simpa using he2

/-! ## decidable well-formedness -/

theorem keysDisjointB_iff (vss : List JStr) : keysDisjointB vss = true ↔ KeysDisjoint vss := by
  unfold keysDisjointB KeysDisjoint
  simp only [List.all_eq_true, Bool.or_eq_true, beq_iff_eq, Bool.not_eq_true', List.contains_eq_mem, decide_eq_false_iff_not]
  constructor
  · intro h v1 h1 v2 h2 hne k hk
    rcases h v1 h1 v2 h2 with h' | h'
    · exact absurd h' hne
    · exact h' k hk
  · intro h v1 h1 v2 h2
    by_cases heq : v1 = v2
    · exact Or.inl heq
    · exact Or.inr (fun k hk => h v1 h1 v2 h2 heq k hk)

end VG
