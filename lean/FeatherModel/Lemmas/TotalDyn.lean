import FeatherModel.Lemmas.TotalBase
import FeatherModel.Model.TotalDyn

/-!
# C16 — `Dynamic` constants (after cb2ce34): no panic; every `with_capacity` is the length of an argument list
-/

namespace Total.Dyn

open TM

/-- every bootstrap method has at most `B` arguments -/
def ArgsLe (spec : Bsms) (B : Nat) : Prop := ∀ (i : Nat) (args : List Arg), spec[i]? = some args → args.length ≤ B

theorem sumArgs_spec {S : List Nat} {B : Nat} {inner : Option (Nat → TM Nat)}
    (hi : ∀ f, inner = some f → ∀ j, Spec S B (f j) (fun _ => True)) :
    ∀ args, Spec S B (sumArgs inner args) (fun _ => True)
  | [] => Spec.ret _ trivial
  | a :: rest => by
    unfold sumArgs
    cases inner with
    | none => exact Spec.fail
    | some f =>
      dsimp only
      refine Spec.bind (Q := fun _ => True) ?_ (fun _ _ => Spec.bind (sumArgs_spec hi rest) (fun _ _ => Spec.ret _ trivial))
      cases a with
      | int => exact Spec.ret _ trivial
      | dyn j => exact hi f rfl j

theorem resolveWith_spec {S : List Nat} {B : Nat} {spec : Bsms} (hB : ArgsLe spec B) {inner : Option (Nat → TM Nat)}
    (hi : ∀ f, inner = some f → ∀ j, Spec S B (f j) (fun _ => True)) (i : Nat) :
    Spec S B (resolveWith spec inner i) (fun _ => True) := by
  unfold resolveWith
  split
  · exact Spec.fail
  · rename_i args hargs
    refine Spec.bind (Spec.request (hB i args hargs)) (fun _ _ => ?_)
    exact Spec.bind (sumArgs_spec hi args) (fun _ _ => Spec.ret _ trivial)

theorem resolve_spec {S : List Nat} {B : Nat} {spec : Bsms} (hB : ArgsLe spec B) :
    ∀ rem i, Spec S B (resolve spec rem i) (fun _ => True)
  | 0, i => by
    unfold resolve
    exact resolveWith_spec hB (fun f h => by simp at h) i
  | rem + 1, i => by
    unfold resolve
    exact resolveWith_spec hB (fun f h j => by
      simp only [Option.some.injEq] at h; subst h; exact resolve_spec hB rem j) i

theorem mem_le_sum : ∀ (l : List Nat) (a : Nat), a ∈ l → a ≤ l.sum
  | [], a, h => by simp at h
  | b :: rest, a, h => by
    simp only [List.mem_cons] at h
    simp only [List.sum_cons]
    rcases h with h | h
    · omega
    · have := mem_le_sum rest a h
      omega

/-- a bound that works for any structure: the total number of arguments -/
theorem argsLe_sum (spec : Bsms) : ArgsLe spec ((spec.map List.length).sum) := by
  intro i args hi
  have hm : args ∈ spec := List.mem_of_getElem? hi
  exact mem_le_sum _ _ (List.mem_map.mpr ⟨args, hm, rfl⟩)

end Total.Dyn
