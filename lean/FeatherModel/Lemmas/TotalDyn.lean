import FeatherModel.Lemmas.TotalBase
import FeatherModel.Model.TotalDyn

/-!
# C16 — `Dynamic` constants: the only panic is the exhausted stack; a constant that names itself exhausts every stack;
forward-only (acyclic) argument structures need at most `k + 1` levels
-/

namespace Total.Dyn

open TM

def openSites : List Nat := [Sites.stackDynamic]

theorem sumArgs_spec {S : List Nat} {B : Nat} {f : Nat → TM Nat} (hf : ∀ j, Spec S B (f j) (fun _ => True)) :
    ∀ args, Spec S B (sumArgs f args) (fun _ => True)
  | [] => Spec.ret _ trivial
  | .int :: rest => by
    unfold sumArgs
    exact Spec.bind (sumArgs_spec hf rest) (fun _ _ => Spec.ret _ trivial)
  | .dyn j :: rest => by
    unfold sumArgs
    exact Spec.bind (hf j) (fun _ _ => Spec.bind (sumArgs_spec hf rest) (fun _ _ => Spec.ret _ trivial))

/-- every bootstrap method has at most `B` arguments -/
def ArgsLe (spec : Bsms) (B : Nat) : Prop := ∀ (i : Nat) (args : List Arg), spec[i]? = some args → args.length ≤ B

theorem resolve_spec {S : List Nat} {B : Nat} {spec : Dyn.Bsms} (hS : Sites.stackDynamic ∈ S) (hB : ArgsLe spec B) :
    ∀ gas level i, Total.Spec S B (resolve spec gas level i) (fun _ => True)
  | 0, level, i => by
    unfold resolve
    exact Spec.bind (Spec.enter _) (fun _ _ => Spec.crash hS)
  | gas + 1, level, i => by
    unfold resolve
    refine Spec.bind (Spec.enter _) (fun _ _ => ?_)
    split
    · exact Spec.fail
    · rename_i args hargs
      refine Spec.bind (Spec.request (hB i args hargs)) (fun _ _ => ?_)
      exact Spec.bind (sumArgs_spec (fun j => resolve_spec hS hB gas (level + 1) j) args) (fun _ _ => Spec.ret _ trivial)

/-! ## self reference -/

theorem selfRef_overflows : ∀ gas level st, (resolve selfRef gas level 0 st).1 = .panic Sites.stackDynamic
  | 0, level, st => by
    simp [resolve, bnd_apply, enter_apply, crash_apply]
  | gas + 1, level, st => by
    have ih := selfRef_overflows gas (level + 1)
    unfold resolve
    rw [bnd_apply, enter_apply]
    dsimp only
    show ((match selfRef[0]? with
      | none => TM.fail
      | some args => do
        request args.length
        let n ← sumArgs (resolve selfRef gas (level + 1)) args
        pure (1 + n)) _).1 = _
    simp only [selfRef, List.getElem?_cons_zero]
    rw [bnd_apply, request_apply]
    dsimp only
    apply bind_panic
    unfold sumArgs
    exact bind_panic (ih _)

/-! ## acyclic structures -/

/-- every argument refers to a constant with a larger index -/
def Forward (spec : Bsms) : Prop := ∀ (i : Nat) (args : List Arg), spec[i]? = some args → ∀ j, Arg.dyn j ∈ args → i < j

theorem sumArgs_short {f : Nat → TM Nat} {B : Nat} :
    ∀ args : List Arg, (∀ j, Arg.dyn j ∈ args → Total.Spec [] B (f j) (fun _ => True)) →
      Total.Spec [] B (sumArgs f args) (fun _ => True)
  | [], _ => Spec.ret _ trivial
  | .int :: rest, h => by
    unfold sumArgs
    exact Spec.bind (sumArgs_short rest (fun j hj => h j (List.mem_cons_of_mem _ hj))) (fun _ _ => Spec.ret _ trivial)
  | .dyn j :: rest, h => by
    unfold sumArgs
    exact Spec.bind (h j (List.mem_cons_self ..)) (fun _ _ =>
      Spec.bind (sumArgs_short rest (fun j hj => h j (List.mem_cons_of_mem _ hj))) (fun _ _ => Spec.ret _ trivial))

theorem resolve_forward {B : Nat} {spec : Dyn.Bsms} (hf : Forward spec) (hB : ArgsLe spec B) :
    ∀ gas level i, 1 ≤ gas → spec.length + 1 ≤ gas + i → Total.Spec [] B (resolve spec gas level i) (fun _ => True)
  | 0, _, _, h, _ => by omega
  | gas + 1, level, i, _, h => by
    unfold resolve
    refine Spec.bind (Spec.enter _) (fun _ _ => ?_)
    split
    · exact Spec.fail
    · rename_i args hargs
      have hi : i < spec.length := by
        have := List.getElem?_eq_some_iff.mp hargs
        exact this.1
      refine Spec.bind (Spec.request (hB i args hargs)) (fun _ _ => ?_)
      refine Spec.bind (sumArgs_short args (fun j hj => ?_)) (fun _ _ => Spec.ret _ trivial)
      have hij := hf i args hargs j hj
      exact resolve_forward hf hB gas (level + 1) j (by omega) (by omega)

theorem mem_le_sum : ∀ (l : List Nat) (a : Nat), a ∈ l → a ≤ l.sum
  | [], a, h => by simp at h
  | b :: rest, a, h => by
    simp only [List.mem_cons] at h
    simp only [List.sum_cons]
    rcases h with h | h
    · omega
    · have := mem_le_sum rest a h
      omega

/-- a bound that works for any structure: the total number of arguments -/
theorem argsLe_sum (spec : Bsms) : ArgsLe spec ((spec.map List.length).sum) := by
  intro i args hi
  have hm : args ∈ spec := List.mem_of_getElem? hi
  exact mem_le_sum _ _ (List.mem_map.mpr ⟨args, hm, rfl⟩)

end Total.Dyn
