import FeatherModel.Lemmas.TotalBase
import FeatherModel.Model.TotalDyn

/-!
# C16 — `Dynamic` constants (after cb2ce34 and the budget on the expansion): no panic; every `with_capacity` is the length of
an argument list; the number of nodes built plus the budget left is the budget handed in
-/

namespace Total.Dyn

open TM

/-- every bootstrap method has at most `B` arguments -/
def ArgsLe (spec : Bsms) (B : Nat) : Prop := ∀ (i : Nat) (args : List Arg), spec[i]? = some args → args.length ≤ B

/-- what a resolver does with its budget `b`: the nodes it builds are paid one unit each -/
def Paid (b : Nat) (r : Nat × Nat) : Prop := r.1 + r.2 = b

theorem sumArgs_spec {S : List Nat} {B : Nat} {inner : Option (Nat → Nat → TM (Nat × Nat))}
    (hi : ∀ f, inner = some f → ∀ j b, Spec S B (f j b) (Paid b)) :
    ∀ args b, Spec S B (sumArgs inner args b) (Paid b)
  | [], b => Spec.ret _ (by simp [Paid])
  | a :: rest, b => by
    unfold sumArgs
    cases inner with
    | none => exact Spec.fail
    | some f =>
      dsimp only
      refine Spec.bind (Q := Paid b) ?_ (fun xb hxb =>
        Spec.bind (sumArgs_spec hi rest xb.2) (fun nb hnb => Spec.ret _ (by simp only [Paid] at *; omega)))
      cases a with
      | int =>
        dsimp only
        split
        · exact Spec.fail
        · exact Spec.ret _ (by simp only [Paid]; omega)
      | dyn j => exact hi f rfl j b

theorem resolveWith_spec {S : List Nat} {B : Nat} {spec : Bsms} (hB : ArgsLe spec B)
    {inner : Option (Nat → Nat → TM (Nat × Nat))}
    (hi : ∀ f, inner = some f → ∀ j b, Spec S B (f j b) (Paid b)) (i b : Nat) :
    Spec S B (resolveWith spec inner i b) (Paid b) := by
  unfold resolveWith
  split
  · exact Spec.fail
  · rename_i hb
    split
    · exact Spec.fail
    · rename_i args hargs
      refine Spec.bind (Spec.request (hB i args hargs)) (fun _ _ => ?_)
      exact Spec.bind (sumArgs_spec hi args (b - 1)) (fun nb hnb => Spec.ret _ (by simp only [Paid] at *; omega))

theorem resolve_spec {S : List Nat} {B : Nat} {spec : Bsms} (hB : ArgsLe spec B) :
    ∀ rem i b, Spec S B (resolve spec rem i b) (Paid b)
  | 0, i, b => by
    unfold resolve
    exact resolveWith_spec hB (fun f h => by simp at h) i b
  | rem + 1, i, b => by
    unfold resolve
    exact resolveWith_spec hB (fun f h j b' => by
      simp only [Option.some.injEq] at h; subst h; exact resolve_spec hB rem j b') i b

/-- the `dyn` op: no panic outside `S`, allocation requests below `B`, and at most `maxNodes` nodes -/
theorem dynOp_spec {S : List Nat} {B : Nat} {spec : Bsms} (hB : ArgsLe spec B) :
    Spec S B (dynOp spec) (fun n => n ≤ maxNodes) := by
  unfold dynOp
  exact Spec.bind (resolve_spec hB maxDepth 0 maxNodes) (fun nb h => Spec.ret _ (by simp only [Paid] at h; omega))

theorem mem_le_sum : ∀ (l : List Nat) (a : Nat), a ∈ l → a ≤ l.sum
  | [], a, h => by simp at h
  | b :: rest, a, h => by
    simp only [List.mem_cons] at h
    simp only [List.sum_cons]
    rcases h with h | h
    · omega
    · have := mem_le_sum rest a h
      omega

/-- a bound that works for any structure: the total number of arguments -/
theorem argsLe_sum (spec : Bsms) : ArgsLe spec ((spec.map List.length).sum) := by
  intro i args hi
  have hm : args ∈ spec := List.mem_of_getElem? hi
  exact mem_le_sum _ _ (List.mem_map.mpr ⟨args, hm, rfl⟩)

end Total.Dyn
