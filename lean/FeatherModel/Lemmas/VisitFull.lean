import FeatherModel.Model.VisitFull
import FeatherModel.Lemmas.VisitProj4

/-!
# C17 lemmas — the full read of a well-formed class succeeds and delivers `fullEvents`
-/

set_option linter.unusedSimpArgs false

namespace Visit

theorem leaf1_full {avail : Nat} {act : K → Act} {mk : Bool → K → Pay → Ev} {a : Attr} {p : Nat}
    (hx : leafExact act a = true) (hle : p + a.len ≤ avail) :
    leaf1 avail act allMask mk a p =
      .ok ⟨p + a.len, (leafEv act mk a).1, (leafEv act mk a).2.1, (leafEv act mk a).2.2⟩ := by
  unfold leaf1 leafEv
  unfold leafExact at hx
  cases hact : act a.k <;> simp only [hact] at hx ⊢
  · simp at hx; simp [hx, exactly, bind, Except.bind, pure_ok]
  · simp at hx; simp [hx, exactly, bind, Except.bind, pure_ok]
  · simp at hx
    have : p + a.used ≤ avail := by omega
    simp [allMask, need, this, hle, hx, exactly, bind, Except.bind, pure_ok]
  · simp at hx
    have : p + a.used ≤ avail := by omega
    simp [need, this, hle, hx, exactly, bind, Except.bind, pure_ok]
  · simp [pure_ok]
  · simp [allMask, need, hle, bind, Except.bind, pure_ok]

theorem readLeafs_full {avail : Nat} {act : K → Act} {mk : Bool → K → Pay → Ev} :
    ∀ (as : List Attr) (p : Nat), as.all (leafExact act) = true → p + lensSize (attrLens as) ≤ avail →
      readLeafs avail act allMask mk as p =
        .ok (p + lensSize (attrLens as), (leafsEv act mk as).1, (leafsEv act mk as).2.1, (leafsEv act mk as).2.2) := by
  intro as
  induction as with
  | nil => intro p _ _; simp [readLeafs, leafsEv, attrLens]
  | cons a as ih =>
    intro p hx hle
    simp only [List.all_cons, Bool.and_eq_true] at hx
    simp only [attrLens, List.map_cons, lensSize_cons] at hle ⊢
    have h6 : p + 6 ≤ avail := by omega
    have h1 := leaf1_full (avail := avail) (mk := mk) (p := p + 6) hx.1 (by omega)
    have h2 := ih (p + 6 + a.len) hx.2 (by simp only [attrLens]; omega)
    simp only [attrLens] at h2
    simp only [readLeafs, need, h6, if_true, bind, Except.bind, h1, h2, pure_ok, leafsEv]
    congr 2
    omega

/-! ## record components -/

theorem readRecComp_full {avail : Nat} {r : Nat} {rc : RecComp} {p : Nat}
    (hx : rc.attrs.all (leafExact recAct) = true) (hle : p + rc.size ≤ avail) :
    readRecComp avail full r rc p = .ok (p + rc.size, recCompEv r rc) := by
  simp only [RecComp.size, attrsSize_eq] at hle ⊢
  have h4 : p + 4 ≤ avail := by omega
  have h2 : p + 4 + 2 ≤ avail := by omega
  have h3 := readLeafs_full (avail := avail) (mk := Ev.rAttr r) rc.attrs (p + 4 + 2) hx (by omega)
  simp only [readRecComp, full, need, h4, h2, if_true, bind, Except.bind, h3, pure_ok, recCompEv]
  congr 2
  omega

theorem readRecComps_full {avail : Nat} : ∀ (comps : List RecComp) (r p : Nat),
    comps.all (fun rc => rc.attrs.all (leafExact recAct)) = true → p + compsSize comps ≤ avail →
    readRecComps avail full r comps p = .ok (p + compsSize comps, recCompsEv r comps) := by
  intro comps
  induction comps with
  | nil => intro r p _ _; simp [readRecComps, recCompsEv, compsSize]
  | cons rc rcs ih =>
    intro r p hx hle
    simp only [List.all_cons, Bool.and_eq_true] at hx
    have hs : compsSize (rc :: rcs) = rc.size + compsSize rcs := by simp [compsSize]
    rw [hs] at hle ⊢
    have h1 := readRecComp_full (avail := avail) (r := r) (p := p) hx.1 (by omega)
    have h2 := ih (r + 1) (p + rc.size) hx.2 (by omega)
    simp only [readRecComps, h1, h2, bind, Except.bind, pure_ok, recCompsEv]
    congr 2
    omega

/-! ## class attributes -/

theorem readClassAttrs_full {avail : Nat} : ∀ (as : List CAttr) (st : CSt) (p : Nat),
    as.all cattrExact = true → classAttrsWf st as = true → p + lensSize (cattrLens as) ≤ avail →
    readClassAttrs avail full allMask st as p =
      .ok (p + lensSize (cattrLens as), (classAttrsEv as).1, (classAttrsEv as).2.1, (classAttrsEv as).2.2) := by
  intro as
  induction as with
  | nil => intro st p _ _ _; simp [readClassAttrs, classAttrsEv, cattrLens]
  | cons a as ih =>
    intro st p hx hwf hle
    simp only [List.all_cons, Bool.and_eq_true] at hx
    cases a with
    | leaf a =>
      simp only [cattrLens, List.map_cons, cattrLen, lensSize_cons] at hle ⊢
      have h6 : p + 6 ≤ avail := by omega
      have hx1 : leafExact classAct a = true := by simpa [cattrExact] using hx.1
      have h1 := leaf1_full (avail := avail) (mk := Ev.cAttr) (p := p + 6) hx1 (by omega)
      simp only [classAttrsWf] at hwf
      by_cases hal : classAct a.k = .always
      · simp only [hal, if_true, Bool.and_eq_true, Bool.not_eq_true'] at hwf
        have h2 := ih { st with hadBsm := true } (p + 6 + a.len) hx.2 hwf.2 (by simp only [cattrLens]; omega)
        simp only [cattrLens] at h2
        simp only [readClassAttrs, need, h6, if_true, bind, Except.bind, hal, hwf.1, true_and, Bool.false_eq_true,
          if_false, h1, h2, pure_ok, classAttrsEv]
        congr 2
        omega
      · simp only [hal, if_false] at hwf
        have h2 := ih st (p + 6 + a.len) hx.2 hwf (by simp only [cattrLens]; omega)
        simp only [cattrLens] at h2
        simp only [readClassAttrs, need, h6, if_true, bind, Except.bind, hal, false_and, if_false, h1, h2, pure_ok,
          classAttrsEv]
        congr 2
        omega
    | record len comps =>
      simp only [cattrLens, List.map_cons, cattrLen, lensSize_cons] at hle ⊢
      have hx1 := hx.1
      simp only [cattrExact, Bool.and_eq_true, beq_iff_eq] at hx1
      simp only [classAttrsWf, Bool.and_eq_true, Bool.not_eq_true'] at hwf
      have hlen : len = 2 + compsSize comps := by rw [hx1.1]; rfl
      have h6 : p + 6 ≤ avail := by omega
      have h8 : p + 6 + 2 ≤ avail := by omega
      have h1 := readRecComps_full (avail := avail) comps 0 (p + 6 + 2) hx1.2 (by omega)
      have h2 := ih { st with hadRecord := true } (p + 6 + len) hx.2 hwf.2 (by simp only [cattrLens]; omega)
      simp only [cattrLens] at h2
      have hex : exactly (p + 6 + len - (p + 6)) len = .ok () := by
        have : p + 6 + len - (p + 6) = len := by omega
        rw [this]; exact exactly_self _
      have hpos : p + 6 + 2 + compsSize comps = p + 6 + len := by omega
      simp only [readClassAttrs, need, h6, h8, if_true, bind, Except.bind, allMask, hwf.1, Bool.false_eq_true,
        if_false, h1, hex, hpos, h2, pure_ok, classAttrsEv]
      congr 2
      omega

/-! ## fields -/

theorem readField_full {avail : Nat} {i : Nat} {f : Field} {p : Nat}
    (hx : f.attrs.all (leafExact fieldAct) = true) (hn : f.ok = true) (hle : p + f.size ≤ avail) :
    readField avail full i f p = .ok (p + f.size, fieldEv i f) := by
  simp only [Field.size, attrsSize_eq] at hle ⊢
  have h4 : p + 6 ≤ avail := by omega
  have h2 : p + 6 + 2 ≤ avail := by omega
  have h3 := readLeafs_full (avail := avail) (mk := Ev.fAttr i) f.attrs (p + 6 + 2) hx (by omega)
  simp only [readField, full, need, h4, h2, if_true, bind, Except.bind, h3, pure_ok, fieldEv, hn, named_true]
  congr 2
  omega

theorem readFields_full {avail : Nat} : ∀ (fs : List Field) (i p : Nat),
    fs.all (fun f => f.attrs.all (leafExact fieldAct)) = true → fs.all (·.ok) = true → p + fieldsSize fs ≤ avail →
    readFields avail full i fs p = .ok (p + fieldsSize fs, fieldsEv i fs) := by
  intro fs
  induction fs with
  | nil => intro i p _ _ _; simp [readFields, fieldsEv, fieldsSize]
  | cons f fs ih =>
    intro i p hx hn hle
    simp only [List.all_cons, Bool.and_eq_true] at hx hn
    have hs : fieldsSize (f :: fs) = f.size + fieldsSize fs := by simp [fieldsSize]
    rw [hs] at hle ⊢
    have h1 := readField_full (avail := avail) (i := i) (p := p) hx.1 hn.1 (by omega)
    have h2 := ih (i + 1) (p + f.size) hx.2 hn.2 (by omega)
    simp only [readFields, h1, h2, bind, Except.bind, pure_ok, fieldsEv]
    congr 2
    omega

/-! ## code -/

theorem accAdd_full {i : Nat} {a : Attr} {acc : KAcc}
    (h : isFramesKind a.k = true → acc.frames = none) : accAdd i a acc = .ok (accAddPure i a acc) := by
  unfold accAdd accAddPure
  cases hk : a.k <;> simp only [hk, isFramesKind] at h ⊢ <;> simp [h]

theorem accAddPure_frames {i : Nat} {a : Attr} {acc : KAcc} :
    (accAddPure i a acc).frames = if isFramesKind a.k then some a.pay else acc.frames := by
  unfold accAddPure
  cases hk : a.k <;> simp [isFramesKind]

theorem readCodeAttrs_full {avail i : Nat} : ∀ (as : List Attr) (acc : KAcc) (p : Nat),
    as.all codeAttrExact = true → codeAttrsWf acc.frames.isSome as = true →
    p + lensSize (attrLens as) ≤ avail →
    readCodeAttrs avail i allMask acc as p = .ok (p + lensSize (attrLens as), codeAcc i acc as) := by
  intro as
  induction as with
  | nil => intro acc p _ _ _; simp [readCodeAttrs, codeAcc, attrLens]
  | cons a as ih =>
    intro acc p hx hwf hle
    simp only [List.all_cons, Bool.and_eq_true] at hx
    have hx1 := hx.1
    simp only [codeAttrExact, beq_iff_eq] at hx1
    simp only [attrLens, List.map_cons, lensSize_cons] at hle ⊢
    have h6 : p + 6 ≤ avail := by omega
    have hu : p + 6 + codeUsed a ≤ avail := by omega
    simp only [codeAttrsWf] at hwf
    have hadd : accAdd i a acc = .ok (accAddPure i a acc) := by
      apply accAdd_full
      intro hf
      simp only [hf, if_true, Bool.and_eq_true, Bool.not_eq_true'] at hwf
      cases hfr : acc.frames with
      | none => rfl
      | some _ => simp [hfr] at hwf
    have hwf' : codeAttrsWf (accAddPure i a acc).frames.isSome as = true := by
      rw [accAddPure_frames]
      by_cases hf : isFramesKind a.k = true
      · simp only [hf, if_true, Bool.and_eq_true] at hwf ⊢
        simpa using hwf.2
      · simp only [hf, Bool.false_eq_true, if_false] at hwf ⊢
        exact hwf
    have h2 := ih (accAddPure i a acc) (p + 6 + a.len) hx.2 hwf' (by simp only [attrLens]; omega)
    simp only [attrLens] at h2
    have hu' : p + 6 + a.len ≤ avail := by omega
    simp only [readCodeAttrs, need, h6, hu', if_true, bind, Except.bind, allMask, hx1, exactly_self, hadd,
      codeAcc, h2]
    congr 2
    omega

theorem readCode_full {avail i : Nat} {c : Code} {p : Nat}
    (hx : c.exact = true) (hwf : codeAttrsWf false c.attrs = true) (hle : p + c.len ≤ avail) :
    readCode avail i fullMc c p = .ok (p + c.len, codeEv i c) := by
  simp only [Code.exact, Bool.and_eq_true, beq_iff_eq] at hx
  have hlen := hx.1
  simp only [Code.size, attrsSize_eq] at hlen
  have h1 : p + c.hdr ≤ avail := by omega
  have h2 : p + c.hdr + 2 ≤ avail := by omega
  have h3 := readCodeAttrs_full (avail := avail) (i := i) c.attrs {} (p + c.hdr + 2) hx.2 (by simpa using hwf) (by omega)
  have hex : exactly (p + c.hdr + 2 + lensSize (attrLens c.attrs) - p) c.len = .ok () := by
    have : p + c.hdr + 2 + lensSize (attrLens c.attrs) - p = c.len := by omega
    rw [this]; exact exactly_self _
  simp only [readCode, fullMc, if_true, need, h1, h2, bind, Except.bind, h3, hex, pure_ok, codeEv]
  congr 2
  omega

/-! ## methods -/

theorem readMethodAttrs_full {avail i : Nat} : ∀ (as : List MAttr) (p : Nat),
    as.all mattrExact = true → as.all mattrWf = true → p + lensSize (mattrLens as) ≤ avail →
    readMethodAttrs avail i fullMc as p =
      .ok (p + lensSize (mattrLens as), (methodAttrsEv i as).1, (methodAttrsEv i as).2.1, (methodAttrsEv i as).2.2) := by
  intro as
  induction as with
  | nil => intro p _ _ _; simp [readMethodAttrs, methodAttrsEv, mattrLens]
  | cons a as ih =>
    intro p hx hwf hle
    simp only [List.all_cons, Bool.and_eq_true] at hx hwf
    cases a with
    | leaf a =>
      simp only [mattrLens, List.map_cons, mattrLen, lensSize_cons] at hle ⊢
      have h6 : p + 6 ≤ avail := by omega
      have hx1 : leafExact methodAct a = true := by simpa [mattrExact] using hx.1
      have h1 := leaf1_full (avail := avail) (mk := Ev.mAttr i) (p := p + 6) hx1 (by omega)
      have h2 := ih (p + 6 + a.len) hx.2 hwf.2 (by simp only [mattrLens]; omega)
      simp only [mattrLens] at h2
      simp only [readMethodAttrs, need, h6, if_true, bind, Except.bind, fullMc, h1, h2, pure_ok, methodAttrsEv]
      simp only [fullMc] at h1 h2
      simp only [h1, h2]
      congr 2
      omega
    | code c =>
      simp only [mattrLens, List.map_cons, mattrLen, lensSize_cons] at hle ⊢
      have h6 : p + 6 ≤ avail := by omega
      have h1 := readCode_full (avail := avail) (i := i) (c := c) (p := p + 6) (by simpa [mattrExact] using hx.1)
        (by simpa [mattrWf] using hwf.1) (by omega)
      have h2 := ih (p + 6 + c.len) hx.2 hwf.2 (by simp only [mattrLens]; omega)
      simp only [mattrLens] at h2
      simp only [readMethodAttrs, need, h6, if_true, bind, Except.bind, h1, h2, pure_ok, methodAttrsEv]
      congr 2
      omega

theorem readMethod_full {avail : Nat} {i : Nat} {mt : Method} {p : Nat}
    (hx : mt.attrs.all mattrExact = true) (hwf : mt.attrs.all mattrWf = true) (hn : mt.ok = true)
    (hle : p + mt.size ≤ avail) :
    readMethod avail full i mt p = .ok (p + mt.size, methodEv i mt) := by
  simp only [Method.size, attrsSize_eq] at hle ⊢
  have h4 : p + 6 ≤ avail := by omega
  have h2 : p + 6 + 2 ≤ avail := by omega
  have h3 := readMethodAttrs_full (avail := avail) (i := i) mt.attrs (p + 6 + 2) hx hwf (by omega)
  simp only [readMethod, full_method, need, h4, h2, if_true, bind, Except.bind, h3, pure_ok, methodEv, hn, named_true]
  congr 2
  omega

theorem readMethods_full {avail : Nat} : ∀ (ms : List Method) (i p : Nat),
    ms.all (fun m => m.attrs.all mattrExact) = true → ms.all (fun m => m.attrs.all mattrWf) = true →
    ms.all (·.ok) = true → p + methodsSize ms ≤ avail →
    readMethods avail full i ms p = .ok (p + methodsSize ms, methodsEv i ms) := by
  intro ms
  induction ms with
  | nil => intro i p _ _ _ _; simp [readMethods, methodsEv, methodsSize]
  | cons f fs ih =>
    intro i p hx hwf hn hle
    simp only [List.all_cons, Bool.and_eq_true] at hx hwf hn
    have hs : methodsSize (f :: fs) = f.size + methodsSize fs := by simp [methodsSize]
    rw [hs] at hle ⊢
    have h1 := readMethod_full (avail := avail) (i := i) (p := p) hx.1 hwf.1 hn.1 (by omega)
    have h2 := ih (i + 1) (p + f.size) hx.2 hwf.2 hn.2 (by omega)
    simp only [readMethods, h1, h2, bind, Except.bind, pure_ok, methodsEv]
    congr 2
    omega

/-! ## skipping never fails when the bytes are there -/

theorem skipAttrsGo_full {avail : Nat} : ∀ (lens : List Nat) (p : Nat), p + lensSize lens ≤ avail →
    skipAttrsGo avail lens p = .ok (p + lensSize lens) := by
  intro lens
  induction lens with
  | nil => intro p _; simp [skipAttrsGo]
  | cons l ls ih =>
    intro p hle
    simp only [lensSize_cons] at hle ⊢
    have h6 : p + 6 ≤ avail := by omega
    have h2 := ih (p + 6 + l) (by omega)
    simp only [skipAttrsGo, need, h6, if_true, bind, Except.bind, h2]
    congr 1
    omega

theorem skipAttrs_full {avail : Nat} (lens : List Nat) (p : Nat) (hle : p + attrsSize lens ≤ avail) :
    skipAttrs avail lens p = .ok (p + attrsSize lens) := by
  rw [attrsSize_eq] at hle ⊢
  have h2 : p + 2 ≤ avail := by omega
  have h := skipAttrsGo_full (avail := avail) lens (p + 2) (by omega)
  simp only [skipAttrs, need, h2, if_true, bind, Except.bind, h]
  congr 1
  omega

theorem skipMembers_full {avail : Nat} : ∀ (ls : List (List Nat)) (p : Nat),
    p + (ls.map (fun l => 6 + attrsSize l)).sum ≤ avail →
    skipMembers avail ls p = .ok (p + (ls.map (fun l => 6 + attrsSize l)).sum) := by
  intro ls
  induction ls with
  | nil => intro p _; simp [skipMembers]
  | cons l ls ih =>
    intro p hle
    simp only [List.map_cons, List.sum_cons] at hle ⊢
    have h1 := skipAttrs_full (avail := avail) l (p + 6) (by omega)
    have h2 := ih (p + 6 + attrsSize l) (by omega)
    simp only [skipMembers, h1, bind, Except.bind, h2]
    congr 1
    omega

/-! ## the whole class -/

/-- the full read of a well-formed class file succeeds as soon as its bytes are available, consumes exactly its
size and delivers `fullEvents` -/
theorem readWith_full {c : ClassFrame} {avail : Nat} (hwf : wellFormed c = true) (hle : c.size ≤ avail) :
    readWith full c avail = .ok (c.size, fullEvents c) := by
  simp only [wellFormed, Bool.and_eq_true] at hwf
  obtain ⟨⟨⟨⟨⟨hx, hok⟩, hcw⟩, hmw⟩, hfn⟩, hmn⟩ := hwf
  obtain ⟨hxf, hxm, hxa⟩ := framesExact_parts hx
  have hsz : c.size = c.hdr + (2 + fieldsSize c.fields) + (2 + methodsSize c.methods)
      + (2 + lensSize (cattrLens c.attrs)) := by
    simp [ClassFrame.size, fieldsSize, methodsSize, attrsSize_eq]
  rw [hsz] at hle ⊢
  have h0 : 0 + c.hdr ≤ avail := by omega
  have h1 : 0 + c.hdr + 2 ≤ avail := by omega
  have h2 := skipMembers_full (avail := avail) (c.fields.map (fun f => attrLens f.attrs)) (0 + c.hdr + 2)
    (by rw [fields_sum]; omega)
  rw [fields_sum] at h2
  have h3 : 0 + c.hdr + 2 + fieldsSize c.fields + 2 ≤ avail := by omega
  have h4 := skipMembers_full (avail := avail) (c.methods.map (fun m => mattrLens m.attrs))
    (0 + c.hdr + 2 + fieldsSize c.fields + 2) (by rw [methods_sum]; omega)
  rw [methods_sum] at h4
  have h5 : 0 + c.hdr + 2 + fieldsSize c.fields + 2 + methodsSize c.methods + 2 ≤ avail := by omega
  have h6 := readClassAttrs_full (avail := avail) c.attrs {}
    (0 + c.hdr + 2 + fieldsSize c.fields + 2 + methodsSize c.methods + 2) hxa hcw (by omega)
  have h7 := readFields_full (avail := avail) c.fields 0 (0 + c.hdr + 2) hxf hfn (by omega)
  have h8 := readMethods_full (avail := avail) c.methods 0 (0 + c.hdr + 2 + fieldsSize c.fields + 2) hxm hmw hmn
    (by omega)
  simp only [readWith, readFieldsI, readMethodsI, full_fieldsI, full_methodsI, full_cls, need, h0, h1, h3, h5, if_true,
    bind, Except.bind, hok, Bool.not_true, Bool.false_eq_true, if_false, h2, h4, h6, h7, h8, pure_ok, fullEvents]
  congr 2
  omega

end Visit
