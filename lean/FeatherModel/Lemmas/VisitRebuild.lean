import FeatherModel.Lemmas.VisitBuild

/-!
# C17 lemmas — replaying a tree into the tree builder reproduces it (slots)
-/

set_option linter.unusedSimpArgs false

namespace Visit

def addItems (ord : List K) (s : Slots) (items : List Item) : Option Slots :=
  items.foldlM (fun acc it => acc.add ord it.1 it.2.1 it.2.2) s

theorem addItems_nil (ord : List K) (s : Slots) : addItems ord s [] = some s := rfl

theorem addItems_cons (ord : List K) (s : Slots) (it : Item) (its : List Item) :
    addItems ord s (it :: its) = (s.add ord it.1 it.2.1 it.2.2).bind (fun s' => addItems ord s' its) := by
  simp [addItems, List.foldlM_cons, bind]

theorem addItems_append (ord : List K) (s : Slots) (a b : List Item) :
    addItems ord s (a ++ b) = (addItems ord s a).bind (fun s' => addItems ord s' b) := by
  simp [addItems, List.foldlM_append, bind]

theorem kindItems_cons (m : Mask) (k : K) (rest : List K) (s : Slots) :
    kindItems m (k :: rest) s = (match kindItem m s k with
      | some it => it :: kindItems m rest s
      | none => kindItems m rest s) := by
  simp only [kindItems, List.filterMap_cons]
  cases kindItem m s k <;> rfl

/-- the known attributes of a tree object, replayed in `accept`'s order, fill exactly their slots -/
theorem addItems_kinds {ord : List K} {s : Slots} :
    ∀ (post : List K) (acc : Slots), post.Nodup → (∀ k ∈ post, k ∈ ord) →
      (∀ k ∈ post, acc.single k = none ∧ acc.multi k = []) →
      (∀ k ∈ post, (isMulti k = true → s.single k = none) ∧ (isMulti k = false → s.multi k = [])) →
      addItems ord acc (kindItems allMask post s) = some { acc with
        single := fun k => if k ∈ post then s.single k else acc.single k,
        multi := fun k => if k ∈ post then s.multi k else acc.multi k } := by
  intro post
  induction post with
  | nil =>
    intro acc _ _ _ _
    simp [kindItems, addItems_nil]
  | cons k rest ih =>
    intro acc hnd hord hacc hs
    have hk_notin : k ∉ rest := (List.nodup_cons.mp hnd).1
    have hnd' : rest.Nodup := (List.nodup_cons.mp hnd).2
    have hk_ord : k ∈ ord := hord k (by simp)
    have hak := hacc k (by simp)
    have hsk := hs k (by simp)
    rw [kindItems_cons]
    cases hmu : isMulti k with
    | true =>
      have hss : s.single k = none := hsk.1 hmu
      cases hem : (s.multi k).isEmpty with
      | true =>
        have hsm : s.multi k = [] := by simpa using hem
        have hki : kindItem allMask s k = none := by simp [kindItem, allMask, hmu, hem]
        simp only [hki]
        rw [ih acc hnd' (fun k' h' => hord k' (by simp [h'])) (fun k' h' => hacc k' (by simp [h']))
          (fun k' h' => hs k' (by simp [h']))]
        congr 1
        apply Slots.ext'
        · funext k'
          by_cases hkk : k' = k
          · subst hkk; simp [hk_notin, hss, hak.1]
          · simp [hkk]
        · funext k'
          by_cases hkk : k' = k
          · subst hkk; simp [hk_notin, hsm, hak.2]
          · simp [hkk]
        · rfl
      | false =>
        have hki : kindItem allMask s k = some (false, k, s.multi k) := by simp [kindItem, allMask, hmu, hem]
        simp only [hki]
        rw [addItems_cons]
        have hadd : acc.add ord false k (s.multi k) = some { acc with multi := upd acc.multi k (s.multi k) } := by
          simp [Slots.add, hk_ord, hmu, hak.2]
        simp only [hadd, Option.bind]
        rw [ih _ hnd' (fun k' h' => hord k' (by simp [h']))
          (fun k' h' => by
            have hne : k' ≠ k := fun h => hk_notin (h ▸ h')
            have := hacc k' (by simp [h'])
            simp [upd, hne, this])
          (fun k' h' => hs k' (by simp [h']))]
        congr 1
        apply Slots.ext'
        · funext k'
          by_cases hkk : k' = k
          · subst hkk; simp [hk_notin, hss, hak.1]
          · simp [hkk]
        · funext k'
          by_cases hkk : k' = k
          · subst hkk; simp [hk_notin, upd]
          · simp [hkk, upd]
        · rfl
    | false =>
      have hsm : s.multi k = [] := hsk.2 hmu
      cases hsing : s.single k with
      | none =>
        have hki : kindItem allMask s k = none := by simp [kindItem, allMask, hmu, hsing]
        simp only [hki]
        rw [ih acc hnd' (fun k' h' => hord k' (by simp [h'])) (fun k' h' => hacc k' (by simp [h']))
          (fun k' h' => hs k' (by simp [h']))]
        congr 1
        apply Slots.ext'
        · funext k'
          by_cases hkk : k' = k
          · subst hkk; simp [hk_notin, hsing, hak.1]
          · simp [hkk]
        · funext k'
          by_cases hkk : k' = k
          · subst hkk; simp [hk_notin, hsm, hak.2]
          · simp [hkk]
        · rfl
      | some p =>
        have hki : kindItem allMask s k = some (false, k, p) := by simp [kindItem, allMask, hmu, hsing]
        simp only [hki]
        rw [addItems_cons]
        have hadd : acc.add ord false k p = some { acc with single := upd acc.single k (some p) } := by
          simp [Slots.add, hk_ord, hmu, hak.1]
        simp only [hadd, Option.bind]
        rw [ih _ hnd' (fun k' h' => hord k' (by simp [h']))
          (fun k' h' => by
            have hne : k' ≠ k := fun h => hk_notin (h ▸ h')
            have := hacc k' (by simp [h'])
            simp [upd, hne, this])
          (fun k' h' => hs k' (by simp [h']))]
        congr 1
        apply Slots.ext'
        · funext k'
          by_cases hkk : k' = k
          · subst hkk; simp [hk_notin, upd, hsing]
          · simp [hkk, upd]
        · funext k'
          by_cases hkk : k' = k
          · subst hkk; simp [hk_notin, hsm, hak.2]
          · simp [hkk]
        · rfl

theorem addItems_unknown (ord : List K) : ∀ (l : List (K × Pay)) (acc : Slots),
    addItems ord acc (l.map (fun kp => (true, kp.1, kp.2))) = some { acc with attrs := acc.attrs ++ l } := by
  intro l
  induction l with
  | nil => intro acc; simp [addItems_nil]
  | cons kp l ih =>
    intro acc
    simp only [List.map_cons, addItems_cons, Slots.add, if_true, Option.bind]
    rw [ih]
    simp

/-- replaying all attributes of a shaped object into an empty one gives the object's slots back -/
theorem addItems_rebuild {ord : List K} (hnd : ord.Nodup) {s : Slots} (hs : s.ShapedFor ord) :
    addItems ord {} (kindItems allMask ord s ++ unkItems allMask s) = some s := by
  rw [addItems_append]
  rw [addItems_kinds ord {} hnd (fun _ h => h) (fun _ _ => ⟨rfl, rfl⟩)
    (fun k _ => ⟨fun hm => hs.1 k (Or.inr hm), fun hm => hs.2 k (Or.inr hm)⟩)]
  simp only [Option.bind, unkItems, allMask, if_true]
  rw [addItems_unknown]
  congr 1
  apply Slots.ext'
  · funext k
    by_cases hk : k ∈ ord
    · simp [hk]
    · simp [hk, hs.1 k (Or.inl hk)]
  · funext k
    by_cases hk : k ∈ ord
    · simp [hk]
    · simp [hk, hs.2 k (Or.inl hk)]
  · simp

theorem classOrder_nodup : classOrder.Nodup := by decide
theorem fieldOrder_nodup : fieldOrder.Nodup := by decide
theorem methodOrder_nodup : methodOrder.Nodup := by decide
theorem recOrder_nodup : recOrder.Nodup := by decide
theorem codeOrder_nodup : codeOrder.Nodup := by decide

end Visit
