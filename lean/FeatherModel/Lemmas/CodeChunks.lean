import FeatherModel.Lemmas.CodeWriteTerm

/-!
# One attempt as a list of chunks

`pass` appends, for each instruction, a chunk of bytes and the unwritten labels of that chunk. `Chunks` says so in
terms of the *final* position table of the attempt.
-/

namespace CodeWrite

/-- the label table visible while instruction `k` is emitted: instructions `0..k` (their positions are final) -/
def lblUpTo (pos : Array Nat) (k : Nat) : Nat → Option Nat := fun t => if t ≤ k then pos[t]? else none

/-- `cs` are the chunks of the instructions `is`, the first of which is instruction number `k` at position `p` -/
inductive Chunks (wide : List Nat) (pos : Array Nat) : Nat → Nat → List Insn → List (Bytes × List Unwritten) → Prop
  | nil (k p : Nat) : Chunks wide pos k p [] []
  | cons {k p : Nat} {i : Insn} {is : List Insn} {r : Bytes × List Unwritten} {cs : List (Bytes × List Unwritten)} :
      p ≤ 65535 → pos[k]? = some p → encInsn (wide.contains k) (lblUpTo pos k) p k i = .ok r →
      Chunks wide pos (k + 1) (p + r.1.length) is cs → Chunks wide pos k p (i :: is) (r :: cs)

def chunkBytes (cs : List (Bytes × List Unwritten)) : Bytes := (cs.map (·.1)).flatten
def chunkUnw (cs : List (Bytes × List Unwritten)) : List Unwritten := (cs.map (·.2)).flatten

theorem pass_chunks (wide : List Nat) (is : List Insn) :
    ∀ (s s' : St), pass wide is s = .ok s' →
      ∃ cs, Chunks wide s'.pos s.pos.size s.w.size is cs ∧
        s'.w.toList = s.w.toList ++ chunkBytes cs ∧
        s'.unw.toList = s.unw.toList ++ chunkUnw cs ∧
        s'.pos.size = s.pos.size + is.length ∧
        (∀ t, t < s.pos.size → s'.pos[t]? = s.pos[t]?) := by
  induction is with
  | nil =>
    intro s s' h
    simp only [pass] at h
    cases h
    exact ⟨[], Chunks.nil _ _, by simp [chunkBytes], by simp [chunkUnw], by simp, fun _ _ => rfl⟩
  | cons i is ih =>
    intro s s' h
    simp only [pass] at h
    split at h
    · cases h
    · rename_i s1 hs1
      obtain ⟨hle, r, hr, rfl⟩ := step_ok hs1
      obtain ⟨cs, hc, hw, hu, hsz, hpre⟩ := ih _ s' h
      simp only [Array.size_push] at hc hsz hpre
      have hk : s'.pos[s.pos.size]? = some s.w.size := by
        rw [hpre s.pos.size (by omega)]
        simp
      have hl : (fun t => (s.pos.push s.w.size)[t]?) = lblUpTo s'.pos s.pos.size := by
        funext t
        unfold lblUpTo
        by_cases ht : t ≤ s.pos.size
        · simp only [ht, if_true]
          exact (hpre t (by omega)).symm
        · simp only [ht, if_false]
          apply Array.getElem?_eq_none
          simp; omega
      rw [hl] at hr
      have hc' : Chunks wide s'.pos (s.pos.size + 1) (s.w.size + r.1.length) is cs := by
        have e : (s.w ++ r.1).size = s.w.size + r.1.length := by
          rw [← Array.length_toList, Array.toList_appendList, List.length_append, Array.length_toList]
        rw [← e]; exact hc
      refine ⟨r :: cs, Chunks.cons hle hk hr hc', ?_, ?_, ?_, ?_⟩
      · rw [hw]; simp [chunkBytes]
      · rw [hu]; simp [chunkUnw]
      · rw [hsz]; simp; omega
      · intro t ht
        rw [hpre t (by omega)]
        simp [Array.getElem?_push, show t ≠ s.pos.size by omega]

end CodeWrite
