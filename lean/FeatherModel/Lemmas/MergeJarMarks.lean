import FeatherModel.Lemmas.MergeJarClass
import FeatherModel.Model.MergeJarDom

/-! Lemmas for C13, part 4: what a successful `merge_slice` / `class_merger_merge` put into the result. -/
set_option linter.unusedSectionVars false
namespace MergeJar
open Outcome

/-! ### members -/

theorem mergeMembers_mem {c s r : List Member} (h : mergeMembers c s = ok r) : ∀ m ∈ r,
    (∃ mc ∈ c, (∃ ms ∈ s, memberKey ms = memberKey mc) ∧ m = mc) ∨
    (∃ mc ∈ c, (∀ ms ∈ s, memberKey ms ≠ memberKey mc) ∧ m = markMember mc Side.client) ∨
    (∃ ms ∈ s, (∀ mc ∈ c, memberKey mc ≠ memberKey ms) ∧ m = markMember ms Side.server) := by
  intro m hm
  rw [mergeMembers_eq] at h
  obtain ⟨k, _, hk⟩ := mapM'_ok_mem h m hm
  obtain ⟨_, hcase⟩ := memberElem_ok hk
  rcases hcase with ⟨mc, hmc, hkc, hsub⟩ | ⟨hnc, ms, hms, hks, hm'⟩
  · rcases hsub with ⟨⟨ms, hms, hks⟩, e⟩ | ⟨hns, e⟩
    · exact Or.inl ⟨mc, hmc, ⟨ms, hms, by rw [hks, hkc]⟩, e⟩
    · exact Or.inr (Or.inl ⟨mc, hmc, fun ms hms => by rw [hkc]; exact hns ms hms, e⟩)
  · exact Or.inr (Or.inr ⟨ms, hms, fun mc hmc => by rw [hks]; exact hnc mc hmc, hm'⟩)

theorem memberKey_markMember (m : Member) (sd : Side) : memberKey (markMember m sd) = memberKey m := rfl

theorem envMarks_markMember (m : Member) (sd : Side) : envMarks (markMember m sd) = envMarks m ++ [sd] := by
  simp [envMarks, markMember, List.filterMap_append]

theorem envMarks_of_noEnv {ms : List Member} (h : noEnv ms = true) : ∀ m ∈ ms, envMarks m = [] := by
  intro m hm
  unfold noEnv at h
  simp only [List.all_eq_true] at h
  have hm' := h m hm
  unfold envMarks
  generalize m.anns = l at hm'
  induction l with
  | nil => rfl
  | cons a l ih =>
    have ha := hm' a List.mem_cons_self
    have hl : ∀ x ∈ l, (match x with | Ann.env _ => false | _ => true) = true :=
      fun x hx => hm' x (List.mem_cons_of_mem _ hx)
    cases a with
    | env s => simp at ha
    | envItfs ms => simp only [List.filterMap_cons]; exact ih hl
    | other n => simp only [List.filterMap_cons]; exact ih hl

/-! ### `collect` on duplicate-free keys finds every element -/
section Collect
variable {T K : Type} [BEq K] [LawfulBEq K]

theorem get_foldl_not_mem (key : T → K) (k : K) :
    ∀ (ms : List T) (acc : List (K × T)), (∀ m ∈ ms, key m ≠ k) →
      get k (ms.foldl (fun m x => upsert (key x) x m) acc) = get k acc := by
  intro ms
  induction ms with
  | nil => intro acc _; rfl
  | cons x xs ih =>
    intro acc h
    simp only [List.foldl_cons]
    rw [ih _ (fun m hm => h m (List.mem_cons_of_mem _ hm)), get_upsert]
    have : (key x == k) = false := by
      simp only [beq_eq_false_iff_ne, ne_eq]; exact h x List.mem_cons_self
    simp [this]

theorem get_foldl_of_mem (key : T → K) :
    ∀ (ms : List T) (acc : List (K × T)) (m : T), m ∈ ms → (ms.map key).Nodup →
      get (key m) (ms.foldl (fun a x => upsert (key x) x a) acc) = some m := by
  intro ms
  induction ms with
  | nil => intro acc m hm; simp at hm
  | cons x xs ih =>
    intro acc m hm hnd
    simp only [List.map_cons, List.nodup_cons, List.mem_map, not_exists, not_and] at hnd
    simp only [List.foldl_cons]
    simp only [List.mem_cons] at hm
    by_cases hx : m ∈ xs
    · exact ih _ m hx hnd.2
    · have e : m = x := by
        cases hm with
        | inl e => exact e
        | inr e => exact absurd e hx
      subst e
      rw [get_foldl_not_mem key (key m) xs _ (fun y hy => hnd.1 y hy), get_upsert]
      simp

theorem get_collect_of_mem {key : T → K} {ms : List T} {m : T} (hm : m ∈ ms) (hnd : (ms.map key).Nodup) :
    get (key m) (collect key ms) = some m := get_foldl_of_mem key ms [] m hm hnd
end Collect

/-! ### interfaces -/

theorem mem_itfMarks (c s : Class) (l : List JStr) (sd : Side) (i : JStr) :
    (sd, i) ∈ itfMarks c s l ↔ i ∈ l ∧
      (match sd with
       | Side.client => i ∈ c.interfaces ∧ i ∉ s.interfaces
       | Side.server => i ∉ c.interfaces ∧ i ∈ s.interfaces) := by
  unfold itfMarks onlyClient onlyServer
  cases sd <;> simp [List.mem_append, List.mem_map, List.mem_filter]

theorem itfMarks_nodup (c s : Class) (l : List JStr) (h : l.Nodup) : (itfMarks c s l).Nodup := by
  unfold itfMarks
  rw [List.nodup_append]
  refine ⟨?_, ?_, ?_⟩
  · have h1 : (onlyClient c s l).Nodup := by unfold onlyClient; exact h.filter _
    generalize onlyClient c s l = l1 at h1
    induction l1 with
    | nil => simp
    | cons x xs ih =>
      simp only [List.nodup_cons] at h1
      simp only [List.map_cons, List.nodup_cons, List.mem_map, Prod.mk.injEq, true_and, exists_eq_right]
      exact ⟨h1.1, ih h1.2⟩
  · have h1 : (onlyServer c s l).Nodup := by unfold onlyServer; exact h.filter _
    generalize onlyServer c s l = l1 at h1
    induction l1 with
    | nil => simp
    | cons x xs ih =>
      simp only [List.nodup_cons] at h1
      simp only [List.map_cons, List.nodup_cons, List.mem_map, Prod.mk.injEq, true_and, exists_eq_right]
      exact ⟨h1.1, ih h1.2⟩
  · intro a ha b hb hab
    simp only [List.mem_map] at ha hb
    obtain ⟨_, _, e1⟩ := ha
    obtain ⟨_, _, e2⟩ := hb
    rw [← e1, ← e2] at hab
    simp at hab

/-! ### InnerClasses -/

theorem mergeInners_names {c s r : List Inner} (h : mergeInners c s = ok r) :
    r.map (·.name) = mergePreserveOrder (c.map (·.name)) (s.map (·.name)) := by
  rw [mergeInners_eq] at h
  exact mapM'_ok_map (fun x : Inner => x.name) h (fun k _ m hm => (innerElem_ok hm).1)

theorem mergeInners_mem {c s r : List Inner} (h : mergeInners c s = ok r) : ∀ i ∈ r, i ∈ c ∨ i ∈ s := by
  intro i hi
  rw [mergeInners_eq] at h
  obtain ⟨k, _, hk⟩ := mapM'_ok_mem h i hi
  exact (innerElem_ok hk).2

/-! ### a successful class merge, field by field -/

theorem mergeClass_parts {c s r : Class} (h : mergeClass c s = ok r) :
    mergeMembers c.fields s.fields = ok r.fields ∧ mergeMembers c.methods s.methods = ok r.methods ∧
    mergeInners c.inners s.inners = ok r.inners ∧
    r.interfaces = mergePreserveOrder c.interfaces s.interfaces ∧
    r.version = c.version ∧ r.access = c.access ∧ r.name = c.name ∧ r.super = c.super ∧
    r.deprecated = c.deprecated ∧ r.synthetic = c.synthetic ∧ r.payload = c.payload ∧ r.visAnns = c.visAnns ∧
    r.invisAnns = (if (itfMarks c s r.interfaces).isEmpty then c.invisAnns
                   else c.invisAnns ++ [Ann.envItfs (itfMarks c s r.interfaces)]) := by
  obtain ⟨_, _, _, _, _, _, f, m, inn, hf, hm, hi, hr⟩ := mergeClass_ok h
  subst hr
  exact ⟨hf, hm, hi, rfl, rfl, rfl, rfl, rfl, rfl, rfl, rfl, rfl, rfl⟩

end MergeJar
