import FeatherModel.Lemmas.ClassWriteFullAttr
import FeatherModel.Lemmas.ClassWriteFullCodeResolve
import FeatherModel.Lemmas.FrameReadBackCode

/-!
# C02 (whole writer) — the `StackMapTable` of `write_code` inside the class-level statement

`FrameReadBack` shows that the written entries are `Spec.encFrames` of the layout `sFrames`.  Here: that layout is legal
in the reader's table of every later pool (`Sound`, class names of `Object` types valid), its facts are the frames of
the tree with their labels renamed, and it does not matter whether positions are taken from the writer's label table
or from `codePos` of the layout (they agree on instructions).
-/

namespace ClassWriteFull
open PoolWrite (Entry)
open FramePool (Good Le)
open ClassRead ClassRead.Spec
open FrameReadBack (posOf sVType sVTypes sKind sFrames IdxIncr)

/-! ## the writer's frame type and the tree's -/

def rdVType : FrameWrite.VType → ClassRead.VType
  | .top => .top | .int => .int | .float => .float | .double => .double | .long => .long | .null => .null
  | .uninitThis => .uninitThis
  | .object c => .object c
  | .uninit l => .uninit l

def rdFrame : FrameWrite.Frame → ClassRead.Frame
  | .same => .same
  | .same1 v => .same1 (rdVType v)
  | .chop k => .chop k
  | .append vs => .append (vs.map rdVType)
  | .full ls ss => .full (ls.map rdVType) (ss.map rdVType)

theorem rdVType_vtypeOf (lab : Nat → Nat) (v : ClassRead.VType) : rdVType (vtypeOf lab v) = vtMapL lab v := by
  cases v <;> rfl

theorem rdFrame_frameOf (lab : Nat → Nat) (f : ClassRead.Frame) : rdFrame (frameOf lab f) = frMapL lab f := by
  cases f <;> simp [frameOf, rdFrame, frMapL, rdVType_vtypeOf, List.map_map, Function.comp_def]

/-- class names of `Object` types are valid, `Uninitialized` labels are instructions -/
def vtypeOkR (n : Nat) : ClassRead.VType → Prop
  | .object c => validClassName c = true
  | .uninit t => t < n
  | _ => True

def frameOkR (n : Nat) : ClassRead.Frame → Prop
  | .same1 v => vtypeOkR n v
  | .append vs => ∀ v ∈ vs, vtypeOkR n v
  | .full ls ss => (∀ v ∈ ls, vtypeOkR n v) ∧ ∀ v ∈ ss, vtypeOkR n v
  | _ => True

instance (n : Nat) (v : ClassRead.VType) : Decidable (vtypeOkR n v) := by cases v <;> simp only [vtypeOkR] <;> infer_instance
instance (n : Nat) (f : ClassRead.Frame) : Decidable (frameOkR n f) := by cases f <;> simp only [frameOkR] <;> infer_instance

/-! ## legality in every later pool -/

theorem sVTypes_sound {lp : Nat → Option Nat} {n : Nat} :
    ∀ (vs : List FrameWrite.VType) {p p' : Pool} {ss : List SVType}, Good p → sVTypes lp p vs = some (ss, p') →
      (∀ v ∈ vs, vtypeOkR n (rdVType v)) →
      Step p p' ∧ ss.map SVType.fact = vs.map rdVType ∧ ∀ s ∈ ss, Sound p' (fun rp => s.Legal rp n)
  | [], p, p', ss, hg, h, _ => by
    simp only [sVTypes, Option.some.injEq, Prod.mk.injEq] at h
    obtain ⟨rfl, rfl⟩ := h
    exact ⟨Step.refl hg, rfl, by simp⟩
  | v :: vs, p, p', ss, hg, h, hok => by
    simp only [sVTypes] at h
    split at h
    · cases h
    · rename_i s p1 h1
      split at h
      · cases h
      · rename_i ss' p2 h2
        cases h
        have hv := hok v List.mem_cons_self
        have hhead : Step p p1 ∧ s.fact = rdVType v ∧ Sound p1 (fun rp => s.Legal rp n) := by
          cases v with
          | object c =>
            simp only [sVType] at h1
            split at h1
            · cases h1
            · rename_i i p1' hp
              cases h1
              obtain ⟨st, a, hi⟩ := putClass_spec hg (opt_eq_ok.mpr hp)
              exact ⟨st, rfl, fun q hq => ⟨hi, getClass_of hq.good (a.mono hq.le) hv⟩⟩
          | uninit l =>
            simp only [sVType] at h1
            split at h1
            · cases h1
            · cases h1
              exact ⟨Step.refl hg, rfl, fun _ _ => hv⟩
          | top | int | float | double | long | null | uninitThis =>
            cases h1
            exact ⟨Step.refl hg, rfl, fun _ _ => trivial⟩
        obtain ⟨s1, hf, hleg⟩ := hhead
        obtain ⟨s2, hfs, hrest⟩ := sVTypes_sound vs s1.good h2 (fun x hx => hok x (List.mem_cons_of_mem _ hx))
        refine ⟨s1.trans s2, by simp [hf, hfs], fun s' hs' => ?_⟩
        rcases List.mem_cons.mp hs' with rfl | hm
        · exact hleg.mono s2.le
        · exact hrest s' hm

theorem sKind_sound {lp : Nat → Option Nat} {n : Nat} {f : FrameWrite.Frame} {p p' : Pool} {sk : SFrameKind}
    (hg : Good p) (h : sKind lp p f = some (sk, p')) (hok : FrameDenote.frameOk lp f = true) (hr : frameOkR n (rdFrame f)) :
    Step p p' ∧ sk.fact = rdFrame f ∧ Sound p' (fun rp => sk.Legal rp n) := by
  cases f with
  | same => cases h; exact ⟨Step.refl hg, rfl, fun _ _ => trivial⟩
  | chop k =>
    cases h
    simp only [FrameDenote.frameOk, decide_eq_true_eq] at hok
    exact ⟨Step.refl hg, rfl, fun _ _ => hok⟩
  | same1 v =>
    simp only [sKind] at h
    split at h
    · cases h
    · rename_i s p1 h1
      cases h
      have h1' : sVTypes lp p [v] = some ([s], p') := by simp [sVTypes, h1]
      obtain ⟨st, hf, hleg⟩ := sVTypes_sound (n := n) [v] hg h1' (by simpa [rdFrame, frameOkR] using hr)
      refine ⟨st, ?_, hleg s (by simp)⟩
      simp only [List.map_cons, List.map_nil, List.cons.injEq, and_true] at hf
      simp [SFrameKind.fact, rdFrame, hf]
  | append ls =>
    simp only [sKind] at h
    split at h
    · cases h
    · rename_i ss p1 h1
      cases h
      simp only [FrameDenote.frameOk, Bool.and_eq_true, decide_eq_true_eq] at hok
      have hl := FrameReadBack.sVTypes_length ls h1
      obtain ⟨st, hf, hleg⟩ := sVTypes_sound (n := n) ls hg h1 (by
        intro v hv
        simp only [rdFrame, frameOkR] at hr
        exact hr _ (List.mem_map_of_mem hv))
      exact ⟨st, by simp [SFrameKind.fact, rdFrame, hf], fun q hq => ⟨by omega, by omega, fun s hs => hleg s hs q hq⟩⟩
  | full ls st' =>
    simp only [sKind] at h
    split at h
    · cases h
    · rename_i sl p1 h1
      split at h
      · cases h
      · rename_i ss p2 h2
        cases h
        simp only [FrameDenote.frameOk, Bool.and_eq_true, decide_eq_true_eq] at hok
        have hl1 := FrameReadBack.sVTypes_length ls h1
        have hl2 := FrameReadBack.sVTypes_length st' h2
        simp only [rdFrame, frameOkR] at hr
        obtain ⟨s1, hf1, hleg1⟩ := sVTypes_sound (n := n) ls hg h1 (fun v hv => hr.1 _ (List.mem_map_of_mem hv))
        obtain ⟨s2, hf2, hleg2⟩ := sVTypes_sound (n := n) st' s1.good h2 (fun v hv => hr.2 _ (List.mem_map_of_mem hv))
        exact ⟨s1.trans s2, by simp [SFrameKind.fact, rdFrame, hf1, hf2], fun q hq =>
          ⟨by omega, by omega, fun s hs => hleg1 s hs q (hq.of_le s2.le), fun s hs => hleg2 s hs q hq⟩⟩

/-- **the frames of a method**: the layout `sFrames` is legal in every later pool, and denotes the frames it was built
from (instruction index, frame) -/
theorem sFrames_sound {lp : Nat → Option Nat} {n : Nat} :
    ∀ (ifs : List (Nat × FrameWrite.Frame)) {p p' : Pool} {sfs : List SFrame} (prev : Option Nat), Good p →
      sFrames lp p prev ifs = some (sfs, p') → IdxIncr lp prev ifs → (∀ x ∈ ifs, x.1 < n) →
      (∀ x ∈ ifs, FrameDenote.frameOk lp x.2 = true) → (∀ x ∈ ifs, frameOkR n (rdFrame x.2)) →
      Step p p' ∧ sfs.map (fun f => (f.at_, f.kind.fact)) = ifs.map (fun x => (x.1, rdFrame x.2)) ∧
        Sound p' (fun rp => framesLegal rp n (posOf lp) prev sfs)
  | [], p, p', sfs, prev, hg, h, _, _, _, _ => by
    simp only [sFrames, Option.some.injEq, Prod.mk.injEq] at h
    obtain ⟨rfl, rfl⟩ := h
    exact ⟨Step.refl hg, rfl, fun _ _ => trivial⟩
  | (k, f) :: rest, p, p', sfs, prev, hg, h, ⟨hprev, ho, hrest⟩, hn, hok, hr => by
    simp only [sFrames] at h
    split at h
    · cases h
    · rename_i sk p1 hsk
      split at h
      · cases h
      · rename_i sfs' p2 hsfs
        cases h
        obtain ⟨s1, hf1, hleg1⟩ := sKind_sound (n := n) hg hsk (hok (k, f) (by simp)) (hr (k, f) (by simp))
        obtain ⟨s2, hf2, hleg2⟩ := sFrames_sound rest (some k) s1.good hsfs hrest
          (fun x hx => hn x (by simp [hx])) (fun x hx => hok x (by simp [hx])) (fun x hx => hr x (by simp [hx]))
        refine ⟨s1.trans s2, by simp [hf1, hf2], fun q hq => ?_⟩
        simp only [framesLegal]
        refine ⟨hn (k, f) (by simp), ?_, hleg1 q (hq.of_le s2.le), ?_, hleg2 q hq⟩
        · cases prev with
          | none => trivial
          | some i => exact hprev.1
        · intro hext
          simpa using hext

/-! ## positions: the writer's label table or `codePos` -/

theorem svtype_encode_congr {pos pos' : Nat → Nat} {rp : ClassRead.Pool} {n : Nat} (h : ∀ t, t < n → pos t = pos' t)
    {s : SVType} (hl : s.Legal rp n) : s.encode pos = s.encode pos' := by
  cases s <;> simp only [SVType.encode]
  rw [h _ hl]

theorem svtypes_encode_congr {pos pos' : Nat → Nat} {rp : ClassRead.Pool} {n : Nat} (h : ∀ t, t < n → pos t = pos' t) :
    ∀ (ss : List SVType), (∀ s ∈ ss, s.Legal rp n) → ss.flatMap (SVType.encode pos) = ss.flatMap (SVType.encode pos')
  | [], _ => rfl
  | s :: ss, hl => by
    simp only [List.flatMap_cons]
    rw [svtype_encode_congr h (hl s List.mem_cons_self), svtypes_encode_congr h ss (fun x hx => hl x (List.mem_cons_of_mem _ hx))]

/-- a legal frame table is encoded the same, and is legal, under any two position tables that agree on instructions -/
theorem frames_congr {pos pos' : Nat → Nat} {rp : ClassRead.Pool} {n : Nat} (h : ∀ t, t < n → pos t = pos' t) :
    ∀ (fs : List SFrame) (prev : Option Nat), (∀ i, prev = some i → i < n) → framesLegal rp n pos prev fs →
      framesLegal rp n pos' prev fs ∧ encFrames pos (prev.map pos) fs = encFrames pos' (prev.map pos') fs
  | [], _, _, _ => ⟨trivial, rfl⟩
  | f :: fs, prev, hp, hl => by
    simp only [framesLegal] at hl
    obtain ⟨h1, h2, h3, h4, h5⟩ := hl
    obtain ⟨ih1, ih2⟩ := frames_congr h fs (some f.at_) (fun i hi => by cases hi; exact h1) h5
    have hprev : prev.map pos = prev.map pos' := by
      cases prev with
      | none => rfl
      | some i => simp [h i (hp i rfl)]
    have hat := h f.at_ h1
    refine ⟨⟨h1, h2, h3, ?_, ih1⟩, ?_⟩
    · rw [← hprev, ← hat]; exact h4
    · simp only [encFrames]
      simp only [Option.map_some] at ih2
      rw [ih2, ← hprev]
      congr 1
      simp only [SFrame.encode, ← hat]
      cases hk : f.kind with
      | same => rfl
      | chop k => rfl
      | same1 v =>
        rw [hk] at h3
        simp only [SFrameKind.Legal] at h3
        simp only [svtype_encode_congr h h3]
      | append vs =>
        rw [hk] at h3
        simp only [SFrameKind.Legal] at h3
        simp only [svtypes_encode_congr h vs h3.2.2]
      | full ls ss =>
        rw [hk] at h3
        simp only [SFrameKind.Legal] at h3
        simp only [svtypes_encode_congr h ls h3.2.2.1, svtypes_encode_congr h ss h3.2.2.2]

/-! ## frames attached to instructions -/

/-- `factEntries` attaches the frames of the layout to the instructions they were collected from -/
theorem factEntries_collect : ∀ (sis : List SInsn) (ps : List Nat) (fs : List (Option FrameWrite.Frame)) (k : Nat)
    (sfs : List SFrame), ps.length = sis.length → fs.length = sis.length →
    sfs.map (fun f => (f.at_, f.kind.fact)) = (FrameReadBack.collectIdx k ps fs).map (fun x => (x.1, rdFrame x.2)) →
    factEntries sfs k sis = List.zipWith (fun si (f : Option FrameWrite.Frame) => ⟨none, f.map rdFrame, si.insn⟩) sis fs
  | [], _, _, _, _, _, _, _ => by simp [factEntries]
  | si :: r, [], _, _, _, hp, _, _ => by simp at hp
  | si :: r, _ :: _, [], _, _, _, hf, _ => by simp at hf
  | si :: r, p0 :: ps, some f :: fs, k, sfs, hp, hf, h => by
    simp only [FrameReadBack.collectIdx, List.map_cons] at h
    cases sfs with
    | nil => simp at h
    | cons s0 sfs' =>
      simp only [List.map_cons, List.cons.injEq, Prod.mk.injEq] at h
      obtain ⟨⟨hat, hkind⟩, hrest⟩ := h
      simp only [factEntries, hat, if_true, List.zipWith_cons_cons, Option.map_some, hkind]
      rw [factEntries_collect r ps fs (k + 1) sfs' (by simpa using hp) (by simpa using hf) hrest]
  | si :: r, p0 :: ps, none :: fs, k, sfs, hp, hf, h => by
    simp only [FrameReadBack.collectIdx] at h
    have ih := factEntries_collect r ps fs (k + 1) sfs (by simpa using hp) (by simpa using hf) h
    cases sfs with
    | nil => simp only [factEntries, List.zipWith_cons_cons, Option.map_none, ih]
    | cons s0 sfs' =>
      have hne : s0.at_ ≠ k := by
        have hm : (s0.at_, s0.kind.fact) ∈ (FrameReadBack.collectIdx (k + 1) ps fs).map (fun x => (x.1, rdFrame x.2)) := by
          rw [← h]; simp
        obtain ⟨x, hx, hxe⟩ := List.mem_map.mp hm
        have := (FrameReadBack.collectIdx_bound ps fs (k + 1) x hx).1
        simp only [Prod.mk.injEq] at hxe
        omega
      simp only [factEntries, hne, if_false, List.zipWith_cons_cons, Option.map_none, ih]

/-- summing over the collected frames = summing over the instructions -/
theorem collectIdx_sum (g : FrameWrite.Frame → Nat) : ∀ (ps : List Nat) (fs : List (Option FrameWrite.Frame)) (k : Nat),
    ps.length = fs.length →
    ((FrameReadBack.collectIdx k ps fs).map (fun x => g x.2)).sum =
      (fs.map fun o => match o with | some f => g f | none => 0).sum
  | [], [], _, _ => by simp [FrameReadBack.collectIdx]
  | [], _ :: _, _, h => by simp at h
  | _ :: _, [], _, h => by simp at h
  | _ :: ps, some f :: fs, k, h => by
    simp only [FrameReadBack.collectIdx, List.map_cons, List.sum_cons]
    rw [collectIdx_sum g ps fs (k + 1) (by simpa using h)]
  | _ :: ps, none :: fs, k, h => by
    simp only [FrameReadBack.collectIdx, List.map_cons, List.sum_cons, Nat.zero_add]
    rw [collectIdx_sum g ps fs (k + 1) (by simpa using h)]

end ClassWriteFull
