import FeatherModel.Lemmas.TotalBase
import FeatherModel.Model.TotalAnno

/-!
# C16 — element values: the only panic is the exhausted stack; the recursion depth is at most `|input| / 3 + 2`;
for every stack there is an input of `3·gas + 3` bytes that exhausts it
-/

namespace Total.Anno

open TM

def openSites : List Nat := [Sites.stackElementValue]

theorem iterMax_spec {S : List Nat} {B : Nat} {f : Rd Nat} (hf : ∀ s, Spec S B (f s) (fun _ => True)) :
    ∀ n acc s, Spec S B (iterMax f n acc s) (fun _ => True)
  | 0, acc, s => Spec.ret _ trivial
  | n + 1, acc, s => by
    unfold iterMax
    exact Spec.bind (hf s) (fun ⟨d, s'⟩ _ => iterMax_spec hf n (max acc d) s')

theorem namedPair_spec {S : List Nat} {B : Nat} {f : Rd Nat} (hf : ∀ s, Spec S B (f s) (fun _ => True)) (s : Bytes) :
    Spec S B (namedPair f s) (fun _ => True) := by
  unfold namedPair
  pin
  exact hf _

theorem constIndex_spec {S : List Nat} {B : Nat} (p : Nat → Bool) (s : Bytes) : Spec S B (constIndex p s) (fun _ => True) := by
  unfold constIndex; pin

macro_rules | `(tactic| pin_lemma) => `(tactic| with_reducible exact constIndex_spec _ _)

theorem readValue_spec {S : List Nat} {B : Nat} (hS : Sites.stackElementValue ∈ S) :
    ∀ gas level s, Spec S B (readValue gas level s) (fun _ => True)
  | 0, level, s => by
    unfold readValue
    exact Spec.bind (Spec.enter _) (fun _ _ => Spec.crash hS)
  | gas + 1, level, s => by
    have ih := readValue_spec (B := B) hS gas (level + 1)
    have h1 := fun n acc s => iterMax_spec ih n acc s
    have h2 := fun n acc s => iterMax_spec (fun s => namedPair_spec ih s) n acc s
    unfold readValue
    pin
    · exact h2 _ _ _
    · exact h1 _ _ _

theorem readPairs_spec {S : List Nat} {B : Nat} (hS : Sites.stackElementValue ∈ S) (gas : Nat) (s : Bytes) :
    Spec S B (readPairs gas s) (fun _ => True) := by
  unfold readPairs
  pin
  exact iterMax_spec (fun s => namedPair_spec (readValue_spec hS gas 1) s) _ _ _

theorem annoOp_spec (gas : Nat) (body : Bytes) : Spec openSites 0 (annoOp gas body) (fun _ => True) := by
  unfold annoOp
  pin
  exact readValue_spec (S := openSites) (by decide) _ _ _

end Total.Anno

namespace Total.Anno

open TM

/-! ## recursion depth: at most `|input| / 3 + 1` levels -/

/-- `f` neither panics nor allocates on inputs of at most `L` bytes, and returns a suffix -/
def Short (f : Rd Nat) (L : Nat) : Prop :=
  ∀ s, s.length ≤ L → Spec [] 0 (f s) (fun r => r.2.length ≤ s.length)

theorem iterMax_short {f : Rd Nat} {L : Nat} (hf : Short f L) :
    ∀ n acc s, s.length ≤ L → Spec [] 0 (iterMax f n acc s) (fun r => r.2.length ≤ s.length)
  | 0, acc, s, _ => Spec.ret _ (Nat.le_refl _)
  | n + 1, acc, s, hs => by
    unfold iterMax
    refine Spec.bind (hf s hs) (fun ⟨d, s'⟩ h => ?_)
    have h' : s'.length ≤ s.length := h
    exact Spec.weaken (iterMax_short hf n (max acc d) s' (Nat.le_trans h' hs)) (fun r hr => Nat.le_trans hr h')

theorem namedPair_short {f : Rd Nat} {L : Nat} (hf : Short f L) : Short (namedPair f) L := by
  intro s hs
  unfold namedPair
  refine Spec.bind (Spec.u16 s) (fun ⟨name, s1⟩ h1 => ?_)
  have h1' : s.length = s1.length + 2 := h1.1
  refine Spec.bind (Spec.guard _) (fun _ _ => ?_)
  exact Spec.weaken (hf s1 (by omega)) (fun r hr => by have : r.2.length ≤ s1.length := hr; omega)

theorem constIndex_short (p : Nat → Bool) (s : Bytes) : Spec [] 0 (constIndex p s) (fun r => r.2.length ≤ s.length) := by
  unfold constIndex
  refine Spec.bind (Spec.u16 s) (fun ⟨i, s1⟩ h1 => ?_)
  have h1' : s.length = s1.length + 2 := h1.1
  refine Spec.bind (Spec.guard _) (fun _ _ => ?_)
  exact Spec.ret _ (by show s1.length ≤ s.length; omega)

/-- a leaf shorter than its input -/
theorem leaf_short {m : TM (Nat × Bytes)} {s1 s : Bytes} (h : Spec [] 0 m (fun r => r.2.length ≤ s1.length))
    (hs : s1.length ≤ s.length) : Spec [] 0 m (fun r => r.2.length ≤ s.length) :=
  Spec.weaken h (fun _ hr => Nat.le_trans hr hs)

theorem readValue_short : ∀ gas level s, s.length + 1 ≤ 3 * gas →
    Spec [] 0 (readValue gas level s) (fun r => r.2.length ≤ s.length)
  | 0, level, s, hs => by omega
  | gas + 1, level, s, hs => by
    have ih : ∀ L, L + 1 ≤ 3 * gas → Short (readValue gas (level + 1)) L :=
      fun L hL s' hs' => readValue_short gas (level + 1) s' (by omega)
    unfold readValue
    refine Spec.bind (Spec.enter _) (fun _ _ => ?_)
    refine Spec.bind (Spec.u8 s) (fun ⟨tag, s1⟩ h1 => ?_)
    have h1' : s.length = s1.length + 1 := h1.1
    have hle : s1.length ≤ s.length := by omega
    dsimp only
    split
    · exact leaf_short (constIndex_short _ s1) hle
    split
    · exact leaf_short (constIndex_short _ s1) hle
    split
    · exact leaf_short (constIndex_short _ s1) hle
    split
    · exact leaf_short (constIndex_short _ s1) hle
    split
    · exact leaf_short (constIndex_short _ s1) hle
    split
    · refine Spec.bind (Spec.u16 s1) (fun ⟨t, s2⟩ h2 => ?_)
      have h2' : s1.length = s2.length + 2 := h2.1
      refine Spec.bind (Spec.guard _) (fun _ _ => ?_)
      exact leaf_short (constIndex_short _ s2) (by omega)
    split
    · exact leaf_short (constIndex_short _ s1) hle
    split
    · refine Spec.bind (Spec.u16 s1) (fun ⟨t, s2⟩ h2 => ?_)
      have h2' : s1.length = s2.length + 2 := h2.1
      refine Spec.bind (Spec.guard _) (fun _ _ => ?_)
      refine Spec.bind (Spec.u16 s2) (fun ⟨n, s3⟩ h3 => ?_)
      have h3' : s2.length = s3.length + 2 := h3.1
      have hsh : Short (namedPair (readValue gas (level + 1))) s3.length := namedPair_short (ih s3.length (by omega))
      refine Spec.bind (iterMax_short hsh n 0 s3 (Nat.le_refl _)) (fun ⟨d, s4⟩ h4 => ?_)
      have h4' : s4.length ≤ s3.length := h4
      exact Spec.ret _ (by show s4.length ≤ s.length; omega)
    split
    · refine Spec.bind (Spec.u16 s1) (fun ⟨n, s2⟩ h2 => ?_)
      have h2' : s1.length = s2.length + 2 := h2.1
      refine Spec.bind (iterMax_short (ih s2.length (by omega)) n 0 s2 (Nat.le_refl _)) (fun ⟨d, s3⟩ h3 => ?_)
      have h3' : s3.length ≤ s2.length := h3
      exact Spec.ret _ (by show s3.length ≤ s.length; omega)
    · exact Spec.fail

/-- the recursion depth of the element-value reader is at most `|input| / 3 + 1`: with that much stack there is no
overflow (and no other panic) -/
theorem readValue_depth_bound (gas level : Nat) (s : Bytes) (h : s.length / 3 + 1 ≤ gas) :
    PanicsIn [] (readValue gas level s) :=
  (readValue_short gas level s (by omega)).panicsIn

/-! ## for every stack there is an input of `3·gas + 3` bytes that exhausts it -/

theorem nested_length (d : Nat) : (nested d).length = 3 * d + 3 := by
  induction d with
  | zero => rfl
  | succ d ih => simp [nested, ih]; omega

theorem nested_overflows : ∀ gas level rest st,
    (readValue gas level (nested gas ++ rest) st).1 = .panic Sites.stackElementValue
  | 0, level, rest, st => by
    simp [readValue, bnd_apply, enter_apply, crash_apply]
  | gas + 1, level, rest, st => by
    have ih := nested_overflows gas (level + 1) rest
    show (readValue (gas + 1) level (91 :: 0 :: 1 :: (nested gas ++ rest)) st).1 = _
    unfold readValue
    rw [bnd_apply, enter_apply]
    dsimp only
    rw [bnd_apply]
    simp only [u8, ret_apply, show byte 91 = 91 by decide]
    simp only [show ¬ (91 = 66 ∨ 91 = 67 ∨ 91 = 73 ∨ 91 = 83 ∨ 91 = 90) by decide, if_false,
      show ¬ ((91 : Nat) = 68) by decide, show ¬ ((91 : Nat) = 70) by decide, show ¬ ((91 : Nat) = 74) by decide,
      show ¬ ((91 : Nat) = 115) by decide, show ¬ ((91 : Nat) = 101) by decide, show ¬ ((91 : Nat) = 99) by decide,
      show ¬ ((91 : Nat) = 64) by decide, if_true]
    rw [bnd_apply]
    simp only [u16, ret_apply, show byte 0 * 256 + byte 1 = 1 by decide]
    apply bind_panic
    unfold iterMax
    exact bind_panic (ih _)

theorem annoOp_nested_overflows (gas : Nat) (st : Acct) :
    (annoOp gas (nested gas) st).1 = .panic Sites.stackElementValue := by
  unfold annoOp
  exact bind_panic (nested_overflows gas 1 [0, 0] st)

end Total.Anno
