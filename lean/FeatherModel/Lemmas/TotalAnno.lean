import FeatherModel.Lemmas.TotalBase
import FeatherModel.Model.TotalAnno

/-!
# C16 — element values (after 835fdd2): no panic at all; the value that is read is nested at most `rem + 1` deep
(256 from the top); a deeper input is an error
-/

namespace Total.Anno

open TM

variable {S : List Nat} {B : Nat}

/-- postcondition of the value readers: a suffix is returned and the depth read is at most `K` -/
def Post (s : Bytes) (K : Nat) (r : Nat × Bytes) : Prop := r.2.length ≤ s.length ∧ r.1 ≤ K

theorem iterMax_spec {f : Rd Nat} {K : Nat} (hf : ∀ s, Spec S B (f s) (Post s K)) :
    ∀ n acc s, acc ≤ K → Spec S B (iterMax f n acc s) (Post s K)
  | 0, acc, s, ha => Spec.ret _ ⟨Nat.le_refl _, ha⟩
  | n + 1, acc, s, ha => by
    unfold iterMax
    refine Spec.bind (hf s) (fun ⟨d, s'⟩ h => ?_)
    have h' : s'.length ≤ s.length ∧ d ≤ K := h
    exact Spec.weaken (iterMax_spec hf n (max acc d) s' (Nat.max_le.mpr ⟨ha, h'.2⟩))
      (fun r hr => ⟨Nat.le_trans hr.1 h'.1, hr.2⟩)

theorem namedPair_spec {f : Rd Nat} {K : Nat} (hf : ∀ s, Spec S B (f s) (Post s K)) (s : Bytes) :
    Spec S B (namedPair f s) (Post s K) := by
  unfold namedPair
  refine Spec.bind (Spec.u16 s) (fun ⟨name, s1⟩ h1 => ?_)
  have h1' : s.length = s1.length + 2 := h1.1
  refine Spec.bind (Spec.guard _) (fun _ _ => ?_)
  exact Spec.weaken (hf s1) (fun r hr => ⟨by have := hr.1; omega, hr.2⟩)

theorem constIndex_spec (p : Nat → Bool) (s : Bytes) {K : Nat} (hK : 1 ≤ K) : Spec S B (constIndex p s) (Post s K) := by
  unfold constIndex
  refine Spec.bind (Spec.u16 s) (fun ⟨i, s1⟩ h1 => ?_)
  have h1' : s.length = s1.length + 2 := h1.1
  refine Spec.bind (Spec.guard _) (fun _ _ => ?_)
  exact Spec.ret _ ⟨by show s1.length ≤ s.length; omega, hK⟩

theorem leaf {m : TM (Nat × Bytes)} {s1 s : Bytes} {K : Nat} (h : Spec S B m (Post s1 K)) (hs : s1.length ≤ s.length) :
    Spec S B m (Post s K) :=
  Spec.weaken h (fun _ hr => ⟨Nat.le_trans hr.1 hs, hr.2⟩)

theorem readValueWith_spec {inner : Option (Rd Nat)} {K : Nat}
    (hi : ∀ f, inner = some f → ∀ s, Spec S B (f s) (Post s K)) (s : Bytes) :
    Spec S B (readValueWith inner s) (Post s (K + 1)) := by
  unfold readValueWith
  refine Spec.bind (Spec.u8 s) (fun ⟨tag, s1⟩ h1 => ?_)
  have h1' : s.length = s1.length + 1 := h1.1
  have hle : s1.length ≤ s.length := by omega
  have hK : 1 ≤ K + 1 := by omega
  dsimp only
  split
  · exact leaf (constIndex_spec _ s1 hK) hle
  split
  · exact leaf (constIndex_spec _ s1 hK) hle
  split
  · exact leaf (constIndex_spec _ s1 hK) hle
  split
  · exact leaf (constIndex_spec _ s1 hK) hle
  split
  · exact leaf (constIndex_spec _ s1 hK) hle
  split
  · refine Spec.bind (Spec.u16 s1) (fun ⟨t, s2⟩ h2 => ?_)
    have h2' : s1.length = s2.length + 2 := h2.1
    refine Spec.bind (Spec.guard _) (fun _ _ => ?_)
    exact leaf (constIndex_spec _ s2 hK) (by omega)
  split
  · exact leaf (constIndex_spec _ s1 hK) hle
  split
  · refine Spec.bind (Spec.u16 s1) (fun ⟨t, s2⟩ h2 => ?_)
    have h2' : s1.length = s2.length + 2 := h2.1
    refine Spec.bind (Spec.guard _) (fun _ _ => ?_)
    cases inner with
    | none => exact Spec.fail
    | some value =>
      dsimp only
      refine Spec.bind (Spec.u16 s2) (fun ⟨n, s3⟩ h3 => ?_)
      have h3' : s2.length = s3.length + 2 := h3.1
      refine Spec.bind (iterMax_spec (fun s => namedPair_spec (hi value rfl) s) n 0 s3 (Nat.zero_le _)) (fun ⟨d, s4⟩ h4 => ?_)
      have h4' : s4.length ≤ s3.length ∧ d ≤ K := h4
      exact Spec.ret _ ⟨by show s4.length ≤ s.length; omega, by show 1 + d ≤ K + 1; omega⟩
  split
  · cases inner with
    | none => exact Spec.fail
    | some value =>
      dsimp only
      refine Spec.bind (Spec.u16 s1) (fun ⟨n, s2⟩ h2 => ?_)
      have h2' : s1.length = s2.length + 2 := h2.1
      refine Spec.bind (iterMax_spec (hi value rfl) n 0 s2 (Nat.zero_le _)) (fun ⟨d, s3⟩ h3 => ?_)
      have h3' : s3.length ≤ s2.length ∧ d ≤ K := h3
      exact Spec.ret _ ⟨by show s3.length ≤ s.length; omega, by show 1 + d ≤ K + 1; omega⟩
  · exact Spec.fail

/-- no panic, no allocation, a suffix is returned, and the value read is nested at most `rem + 1` deep -/
theorem readValue_spec : ∀ (rem : Nat) (s : Bytes), Spec S B (readValue rem s) (Post s (rem + 1))
  | 0, s => by
    unfold readValue
    exact readValueWith_spec (K := 0) (fun f h => by simp at h) s
  | rem + 1, s => by
    unfold readValue
    exact readValueWith_spec (K := rem + 1) (fun f h s' => by
      simp only [Option.some.injEq] at h; subst h; exact readValue_spec rem s') s

theorem readPairs_spec (s : Bytes) : Spec S B (readPairs s) (fun r => r.2.length ≤ s.length) := by
  unfold readPairs
  refine Spec.bind (Spec.u16 s) (fun ⟨n, s1⟩ h1 => ?_)
  have h1' : s.length = s1.length + 2 := h1.1
  exact Spec.weaken (iterMax_spec (fun s => namedPair_spec (readValue_spec maxDepth) s) n 0 s1 (Nat.zero_le _))
    (fun r hr => by have := hr.1; omega)

theorem annoOp_spec (body : Bytes) : Spec [] 0 (annoOp body) (fun d => d ≤ maxDepth + 1) := by
  unfold annoOp
  exact Spec.bind (readValue_spec maxDepth _) (fun ⟨d, _⟩ h => Spec.ret _ h.2)

theorem nested_length (d : Nat) : (nested d).length = 3 * d + 3 := by
  induction d with
  | zero => rfl
  | succ d ih => simp [nested, ih]; omega

end Total.Anno
