import FeatherModel.Lemmas.MavenBfs

/-! Mediation (C19): the result of `clean_up_dependencies` + `into_breadth_first` read off the level trace; first
occurrence in level order wins; no duplicate ids; the result forest is a pruning of the input forest;
breadth-first = level order. -/

namespace Maven
open Tree (sizeList)

variable {α σ : Type}

/-! ## verdicts, kept entries, states -/

/-- the state after one pass over plain data -/
def stateAfter (f : σ → α → Bool × σ) : σ → List α → σ
  | s, [] => s
  | s, a :: as => stateAfter f (f s a).2 as

theorem keptOf_nil : keptOf ([] : List (α × Bool)) = [] := rfl

theorem keptOf_append (a b : List (α × Bool)) : keptOf (a ++ b) = keptOf a ++ keptOf b := by
  simp [keptOf]

theorem verdicts_eq_verdictsL (f : σ → α → Bool × σ) (s : σ) (ts : List (Tree α)) :
    verdicts f s ts = verdictsL f s (ts.map Tree.data) := by
  induction ts generalizing s with
  | nil => rfl
  | cons t ts ih => simp [verdicts, verdictsL, ih]

theorem verdictsL_map_fst (f : σ → α → Bool × σ) (s : σ) (l : List α) : (verdictsL f s l).map Prod.fst = l := by
  induction l generalizing s with
  | nil => rfl
  | cons a as ih => simp [verdictsL, ih]

theorem verdictsL_append (f : σ → α → Bool × σ) (s : σ) (a b : List α) :
    verdictsL f s (a ++ b) = verdictsL f s a ++ verdictsL f (stateAfter f s a) b := by
  induction a generalizing s with
  | nil => rfl
  | cons x xs ih => simp [verdictsL, stateAfter, ih]

theorem stateAfter_append (f : σ → α → Bool × σ) (s : σ) (a b : List α) :
    stateAfter f s (a ++ b) = stateAfter f (stateAfter f s a) b := by
  induction a generalizing s with
  | nil => rfl
  | cons x xs ih => simp [stateAfter, ih]

theorem filterS_state (f : σ → α → Bool × σ) (s : σ) (ts : List (Tree α)) :
    (filterS f s ts).1 = stateAfter f s (ts.map Tree.data) := by
  induction ts generalizing s with
  | nil => rfl
  | cons t ts ih => simp [filterS, stateAfter, ih]

theorem filterS_kept (f : σ → α → Bool × σ) (s : σ) (ts : List (Tree α)) :
    (filterS f s ts).2.map Tree.data = keptOf (verdicts f s ts) := by
  induction ts generalizing s with
  | nil => rfl
  | cons t ts ih =>
    cases h : (f s t.data).1 <;> simpa [filterS, verdicts, keptOf, h] using ih (f s t.data).2

theorem filterS_sublist (f : σ → α → Bool × σ) (s : σ) (ts : List (Tree α)) : (filterS f s ts).2.Sublist ts := by
  induction ts generalizing s with
  | nil => exact List.Sublist.slnil
  | cons t ts ih =>
    simp only [filterS]
    split
    · exact (ih _).cons_cons t
    · exact (ih _).cons t

/-! ## the result is the kept part of the level trace -/

theorem levelsFrom_nil (f : σ → α → Bool × σ) (s : σ) : levelsFrom f s [] = [] := by rw [levelsFrom]

theorem levelsFrom_cons (f : σ → α → Bool × σ) (s : σ) (t : Tree α) (ts : List (Tree α)) :
    levelsFrom f s (t :: ts) =
      verdicts f s ((t :: ts).flatMap Tree.children) ::
        levelsFrom f (filterS f s ((t :: ts).flatMap Tree.children)).1
          (filterS f s ((t :: ts).flatMap Tree.children)).2 := by
  rw [levelsFrom]

theorem sizeList_flatMap_children (l : List (Tree α)) : sizeList (l.flatMap Tree.children) + l.length ≤ sizeList l := by
  induction l with
  | nil => simp [Tree.sizeList]
  | cons a l ih => simp only [List.flatMap_cons, sizeList_append, Tree.sizeList, size_eq, List.length_cons]; omega

theorem sizeList_next_lt (f : σ → α → Bool × σ) (s : σ) (t : Tree α) (ts : List (Tree α)) :
    sizeList (filterS f s ((t :: ts).flatMap Tree.children)).2 < sizeList (t :: ts) := by
  have h1 := sizeList_filterS_le f s ((t :: ts).flatMap Tree.children)
  have h2 := sizeList_flatMap_children (t :: ts)
  simp only [List.length_cons] at h2
  omega

theorem levelRun_kept (f : σ → α → Bool × σ) :
    ∀ (n : Nat) (s : σ) (level : List (Tree α)), sizeList level ≤ n →
      (levelRun f s level).map Prod.fst = level.map Tree.data ++ keptOf (levelsFrom f s level).flatten := by
  intro n
  induction n with
  | zero =>
    intro s level h
    cases level with
    | nil => rw [levelRun_nil, levelsFrom_nil]; rfl
    | cons t ts => simp [Tree.sizeList, size_eq] at h
  | succ n ih =>
    intro s level h
    cases level with
    | nil => rw [levelRun_nil, levelsFrom_nil]; rfl
    | cons t ts =>
      obtain ⟨h1, h2, h3⟩ := processLevel_eq f s (t :: ts)
      rw [levelRun_cons, levelsFrom_cons, List.map_append, h3, h1, h2, List.flatten_cons, keptOf_append,
        ih _ _ (by have := sizeList_next_lt f s t ts; omega), filterS_kept]

/-- **the resolved list read off the trace**: breadth-first traversal of the retained forest = the kept entries of the
level trace, in level order -/
theorem bfs_bfsRetain (f : σ → α → Bool × σ) (s : σ) (forest : List (Tree α)) :
    bfs (bfsRetain f s forest) = keptOf (considered f s forest) := by
  unfold bfsRetain considered levels
  rw [bfs_rebuild_queueRun, queueRun_eq_levelRun f _ _ _ (Nat.le_refl _), levelRun_kept f _ _ _ (Nat.le_refl _),
    List.flatten_cons, keptOf_append, filterS_kept]

/-! ## the verdicts of the whole trace are one left-to-right pass -/

theorem levelsFrom_pass (f : σ → α → Bool × σ) :
    ∀ (n : Nat) (s : σ) (level : List (Tree α)), sizeList level ≤ n →
      (levelsFrom f s level).flatten = verdictsL f s ((levelsFrom f s level).flatten.map Prod.fst) := by
  intro n
  induction n with
  | zero =>
    intro s level h
    cases level with
    | nil => rw [levelsFrom_nil]; rfl
    | cons t ts => simp [Tree.sizeList, size_eq] at h
  | succ n ih =>
    intro s level h
    cases level with
    | nil => rw [levelsFrom_nil]; rfl
    | cons t ts =>
      have hrec := ih (filterS f s ((t :: ts).flatMap Tree.children)).1
        (filterS f s ((t :: ts).flatMap Tree.children)).2 (by have := sizeList_next_lt f s t ts; omega)
      rw [levelsFrom_cons, List.flatten_cons, List.map_append, verdictsL_append, verdicts_eq_verdictsL,
        verdictsL_map_fst, ← filterS_state, ← hrec]

/-- the verdict of every considered node is that of one pass of the predicate over the considered nodes in level order -/
theorem considered_pass (f : σ → α → Bool × σ) (s : σ) (forest : List (Tree α)) :
    considered f s forest = verdictsL f s ((considered f s forest).map Prod.fst) := by
  unfold considered levels
  rw [List.flatten_cons, List.map_append, verdictsL_append, verdicts_eq_verdictsL, verdictsL_map_fst, ← filterS_state,
    ← levelsFrom_pass f _ _ _ (Nat.le_refl _)]

/-! ## all nodes -/

mutual
def Tree.nodes : Tree α → List α
  | .node d cs => d :: nodesList cs
def nodesList : List (Tree α) → List α
  | [] => []
  | t :: ts => Tree.nodes t ++ nodesList ts
end

theorem nodes_eq (t : Tree α) : t.nodes = t.data :: nodesList t.children := by
  cases t; simp [Tree.nodes, Tree.data, Tree.children]

theorem nodesList_append (a b : List (Tree α)) : nodesList (a ++ b) = nodesList a ++ nodesList b := by
  induction a with
  | nil => rfl
  | cons t ts ih => simp [nodesList, ih]

theorem mem_bfs_iff : ∀ (n : Nat) (q : List (Tree α)) (a : α), sizeList q ≤ n → (a ∈ bfs q ↔ a ∈ nodesList q) := by
  intro n
  induction n with
  | zero =>
    intro q a h
    cases q with
    | nil => rw [bfs_nil]; simp [nodesList]
    | cons t ts => simp [Tree.sizeList, size_eq] at h
  | succ n ih =>
    intro q a h
    cases q with
    | nil => rw [bfs_nil]; simp [nodesList]
    | cons t ts =>
      have hs : sizeList (ts ++ t.children) ≤ n := by
        simp only [sizeList_append, Tree.sizeList, size_eq] at h ⊢
        omega
      rw [bfs_cons, List.mem_cons, ih _ a hs, nodesList_append]
      simp only [nodesList, nodes_eq, List.mem_append, List.mem_cons]
      constructor
      · rintro (h | h | h)
        · exact Or.inl (Or.inl h)
        · exact Or.inr h
        · exact Or.inl (Or.inr h)
      · rintro ((h | h) | h)
        · exact Or.inl h
        · exact Or.inr (Or.inr h)
        · exact Or.inr (Or.inl h)

theorem mem_nodesList_of_sublist {us ts : List (Tree α)} (h : us.Sublist ts) {a : α} (ha : a ∈ nodesList us) :
    a ∈ nodesList ts := by
  induction h with
  | slnil => exact ha
  | cons t _ ih => simp only [nodesList, List.mem_append]; exact Or.inr (ih ha)
  | cons_cons t _ ih =>
    simp only [nodesList, List.mem_append] at ha ⊢
    rcases ha with ha | ha
    · exact Or.inl ha
    · exact Or.inr (ih ha)

theorem mem_nodesList_data {ts : List (Tree α)} {t : Tree α} (h : t ∈ ts) : t.data ∈ nodesList ts := by
  induction ts with
  | nil => cases h
  | cons x xs ih =>
    simp only [nodesList, List.mem_append]
    rcases List.mem_cons.1 h with h | h
    · subst h; left; rw [nodes_eq]; simp
    · exact Or.inr (ih h)

theorem mem_nodesList_children {ts : List (Tree α)} {a : α} (h : a ∈ nodesList (ts.flatMap Tree.children)) :
    a ∈ nodesList ts := by
  induction ts with
  | nil => exact h
  | cons x xs ih =>
    simp only [List.flatMap_cons, nodesList_append, List.mem_append, nodesList, nodes_eq, List.mem_cons] at h ⊢
    rcases h with h | h
    · exact Or.inl (Or.inr h)
    · exact Or.inr (ih h)

theorem levelsFrom_mem (f : σ → α → Bool × σ) :
    ∀ (n : Nat) (s : σ) (level : List (Tree α)), sizeList level ≤ n →
      ∀ x ∈ (levelsFrom f s level).flatten, x.1 ∈ nodesList level := by
  intro n
  induction n with
  | zero =>
    intro s level h
    cases level with
    | nil => rw [levelsFrom_nil]; simp
    | cons t ts => simp [Tree.sizeList, size_eq] at h
  | succ n ih =>
    intro s level h x hx
    cases level with
    | nil => rw [levelsFrom_nil] at hx; simp at hx
    | cons t ts =>
      rw [levelsFrom_cons, List.flatten_cons, List.mem_append] at hx
      rcases hx with hx | hx
      · rw [verdicts_eq_verdictsL] at hx
        have : x.1 ∈ ((t :: ts).flatMap Tree.children).map Tree.data := by
          rw [← verdictsL_map_fst f s (((t :: ts).flatMap Tree.children).map Tree.data)]
          exact List.mem_map_of_mem hx
        obtain ⟨c, hc, hcd⟩ := List.mem_map.1 this
        rw [← hcd]
        exact mem_nodesList_children (mem_nodesList_data hc)
      · have h1 := ih _ _ (by have := sizeList_next_lt f s t ts; omega) x hx
        exact mem_nodesList_children (mem_nodesList_of_sublist (filterS_sublist _ _ _) h1)

theorem considered_mem (f : σ → α → Bool × σ) (s : σ) (forest : List (Tree α)) :
    ∀ x ∈ considered f s forest, x.1 ∈ nodesList forest := by
  intro x hx
  unfold considered levels at hx
  rw [List.flatten_cons, List.mem_append] at hx
  rcases hx with hx | hx
  · rw [verdicts_eq_verdictsL] at hx
    have : x.1 ∈ forest.map Tree.data := by
      rw [← verdictsL_map_fst f s (forest.map Tree.data)]
      exact List.mem_map_of_mem hx
    obtain ⟨c, hc, hcd⟩ := List.mem_map.1 this
    rw [← hcd]
    exact mem_nodesList_data hc
  · exact mem_nodesList_of_sublist (filterS_sublist _ _ _) (levelsFrom_mem f _ _ _ (Nat.le_refl _) x hx)

theorem mem_allNodes {forest : List (Tree α)} {a : α} (h : a ∈ nodesList forest) :
    a ∈ forest.flatMap (fun t => bfs [t]) := by
  induction forest with
  | nil => cases h
  | cons t ts ih =>
    simp only [nodesList, List.mem_append] at h
    simp only [List.flatMap_cons, List.mem_append]
    rcases h with h | h
    · left
      rw [mem_bfs_iff _ [t] a (Nat.le_refl _)]
      simpa [nodesList] using h
    · exact Or.inr (ih h)

/-! ## the closure of `clean_up_dependencies`: first occurrence wins -/

section removeFirst
variable {ι : Type} [DecidableEq ι] (idOf : α → ι)

theorem removeFirst_state_contains (rem : List ι) (pre : List α) (i : ι) :
    (stateAfter (removeFirst idOf) rem pre).contains i = (rem.contains i && !(pre.map idOf).contains i) := by
  induction pre generalizing rem with
  | nil => simp [stateAfter]
  | cons a as ih =>
    simp only [stateAfter, removeFirst, ih, List.map_cons, List.contains_cons]
    by_cases e : i = idOf a
    · subst e
      simp
    · have : (i == idOf a) = false := by simpa using e
      simp [this, List.contains_eq_mem, List.mem_filter, e]

/-- one pass of the `set.remove` closure: a node is kept iff its id is (still) in the set and no earlier node of the pass
has the same id -/
theorem removeFirst_pass (rem : List ι) (pre : List α) (x : α) (post : List α) :
    verdictsL (removeFirst idOf) rem (pre ++ x :: post) =
      verdictsL (removeFirst idOf) rem pre ++
        (x, rem.contains (idOf x) && !(pre.map idOf).contains (idOf x)) ::
          verdictsL (removeFirst idOf) (stateAfter (removeFirst idOf) rem (pre ++ [x])) post := by
  rw [verdictsL_append]
  simp only [verdictsL, stateAfter_append, stateAfter]
  congr 2
  simp only [removeFirst, removeFirst_state_contains]

theorem removeFirst_kept_nodup (rem : List ι) (l : List α) :
    ((keptOf (verdictsL (removeFirst idOf) rem l)).map idOf).Nodup ∧
      ∀ i ∈ (keptOf (verdictsL (removeFirst idOf) rem l)).map idOf, i ∈ rem := by
  induction l generalizing rem with
  | nil => simp [verdictsL, keptOf]
  | cons a as ih =>
    obtain ⟨h1, h2⟩ := ih (rem.filter (fun i => i ≠ idOf a))
    simp only [verdictsL, keptOf, List.filter_cons, removeFirst]
    by_cases hc : rem.contains (idOf a) = true
    · simp only [hc, if_true, List.map_cons, List.nodup_cons, List.mem_cons]
      refine ⟨⟨?_, h1⟩, ?_⟩
      · intro hm
        have := h2 _ hm
        simp at this
      · rintro i (hi | hi)
        · subst hi; simpa using hc
        · have := h2 _ hi
          simp only [List.mem_filter] at this
          exact this.1
    · simp only [hc]
      refine ⟨h1, ?_⟩
      intro i hi
      have := h2 _ hi
      simp only [List.mem_filter] at this
      exact this.1

end removeFirst

/-! ## the retained forest is a pruning of the input -/

/-- same roots in the same order, children pruned -/
inductive KeptRoots : List (Tree α) → List (Tree α) → Prop
  | nil : KeptRoots [] []
  | cons {d : α} {cs ds ts us : List (Tree α)} :
      Pruned cs ds → KeptRoots ts us → KeptRoots (Tree.node d cs :: ts) (Tree.node d ds :: us)

theorem KeptRoots.length {q G : List (Tree α)} (h : KeptRoots q G) : q.length = G.length := by
  induction h with
  | nil => rfl
  | cons _ _ ih => simp [ih]

theorem KeptRoots.split {a : List (Tree α)} : ∀ {b G : List (Tree α)}, KeptRoots (a ++ b) G →
    KeptRoots a (G.take a.length) ∧ KeptRoots b (G.drop a.length) := by
  induction a with
  | nil => intro b G h; exact ⟨by simpa using KeptRoots.nil, by simpa using h⟩
  | cons t ts ih =>
    intro b G h
    cases h with
    | cons hp hr =>
      obtain ⟨h1, h2⟩ := ih hr
      exact ⟨by simpa using KeptRoots.cons hp h1, by simpa using h2⟩

theorem pruned_of_sublist {us ts : List (Tree α)} (h : us.Sublist ts) : ∀ {G : List (Tree α)}, KeptRoots us G →
    Pruned ts G := by
  induction h with
  | slnil => intro G hk; cases hk; exact Pruned.nil
  | cons t _ ih => intro G hk; exact Pruned.drop (ih hk)
  | cons_cons t _ ih =>
    intro G hk
    cases hk with
    | cons hp hr => exact Pruned.keep hp (ih hr)

theorem queueRun_pruned (f : σ → α → Bool × σ) :
    ∀ (n : Nat) (s : σ) (q : List (Tree α)), sizeList q ≤ n →
      ∃ G : List (Tree α), KeptRoots q G ∧ queueRun f s q = ser G := by
  intro n
  induction n with
  | zero =>
    intro s q h
    cases q with
    | nil => exact ⟨[], KeptRoots.nil, by rw [queueRun_nil, ser_nil]⟩
    | cons t ts => simp [Tree.sizeList, size_eq] at h
  | succ n ih =>
    intro s q h
    cases q with
    | nil => exact ⟨[], KeptRoots.nil, by rw [queueRun_nil, ser_nil]⟩
    | cons t ts =>
      have hle := sizeList_filterS_le f s t.children
      have hs : sizeList (ts ++ (filterS f s t.children).2) ≤ n := by
        simp only [sizeList_append, Tree.sizeList, size_eq] at h ⊢
        omega
      obtain ⟨G', hk, hG'⟩ := ih (filterS f s t.children).1 _ hs
      obtain ⟨hk1, hk2⟩ := hk.split
      have hlen := hk.length
      rw [List.length_append] at hlen
      refine ⟨Tree.node t.data (G'.drop ts.length) :: G'.take ts.length, ?_, ?_⟩
      · have := KeptRoots.cons (d := t.data) (pruned_of_sublist (filterS_sublist f s t.children) hk2) hk1
        rwa [node_eta] at this
      · rw [queueRun_cons, ser_cons, hG']
        simp only [data_node, children_node, List.take_append_drop, List.length_drop]
        congr 2
        omega

/-- **the retained forest is obtained from the input by deleting whole subtrees** -/
theorem bfsRetain_pruned (f : σ → α → Bool × σ) (s : σ) (forest : List (Tree α)) :
    Pruned forest (bfsRetain f s forest) := by
  show Pruned forest (rebuild (queueRun f (filterS f s forest).1 (filterS f s forest).2))
  obtain ⟨G, hk, hG⟩ := queueRun_pruned f _ (filterS f s forest).1 (filterS f s forest).2 (Nat.le_refl _)
  rw [hG, rebuild_ser _ G (Nat.le_refl _)]
  exact pruned_of_sublist (filterS_sublist f s forest) hk

/-! ## breadth-first = level order -/

theorem levelOrder_nil : levelOrder ([] : List (Tree α)) = [] := by rw [levelOrder]

theorem levelOrder_cons (t : Tree α) (ts : List (Tree α)) :
    levelOrder (t :: ts) = (t :: ts).map Tree.data ++ levelOrder ((t :: ts).flatMap Tree.children) := by
  rw [levelOrder]

theorem bfs_level (cur : List (Tree α)) :
    ∀ acc : List (Tree α), bfs (cur ++ acc) = cur.map Tree.data ++ bfs (acc ++ cur.flatMap Tree.children) := by
  induction cur with
  | nil => intro acc; simp
  | cons t ts ih =>
    intro acc
    rw [List.cons_append, bfs_cons, List.append_assoc, ih]
    simp

theorem bfs_eq_levelOrder : ∀ (n : Nat) (q : List (Tree α)), sizeList q ≤ n → bfs q = levelOrder q := by
  intro n
  induction n with
  | zero =>
    intro q h
    cases q with
    | nil => rw [bfs_nil, levelOrder_nil]
    | cons t ts => simp [Tree.sizeList, size_eq] at h
  | succ n ih =>
    intro q h
    cases q with
    | nil => rw [bfs_nil, levelOrder_nil]
    | cons t ts =>
      have := bfs_level (t :: ts) []
      simp only [List.append_nil, List.nil_append] at this
      rw [this, levelOrder_cons, ih]
      have := sizeList_flatMap_children (t :: ts)
      simp only [List.length_cons] at this
      omega

end Maven
