import FeatherModel.Lemmas.VisitPos

/-!
# C17 lemmas — a masked / declining read delivers the projection of the full read

For every loop of the reader: if the run with the full configuration succeeds on exactly framed input, the run with
any configuration succeeds too, ends at the same position and delivers `filterMap (proj cfg)` of the full run's events.
-/

set_option linter.unusedSimpArgs false

namespace Visit

theorem pure_ok {α : Type} (a : α) : (pure a : R α) = .ok a := rfl

theorem filterMap_keepIf_single_true {b : Bool} {e : Ev} (hb : b = true) (P : Ev → Option Ev)
    (hP : P e = keepIf b e) : [e].filterMap P = [e] := by
  simp [hP, keepIf, hb]


/-! ## `proj` on each constructor (so that `simp` never unfolds `proj` on a variable) -/

section projEqs
variable (cfg : Cfg)
@[simp] theorem proj_classBegin (h : Nat) : proj cfg (.classBegin h) = some (.classBegin h) := rfl
@[simp] theorem proj_cAttr (unk : Bool) (k : K) (pay : Pay) : proj cfg (.cAttr unk k pay) =
    (match cfg.cls with | some m => keepIf (m (evBit unk k)) (.cAttr unk k pay) | none => none) := rfl
@[simp] theorem proj_recBegin (r h : Nat) : proj cfg (.recBegin r h) =
    (match cfg.cls with | some m => keepIf (m .record) (.recBegin r h) | none => none) := rfl
@[simp] theorem proj_rAttr (r : Nat) (unk : Bool) (k : K) (pay : Pay) : proj cfg (.rAttr r unk k pay) =
    (match recMaskOf cfg r with | some rm => keepIf (rm (evBit unk k)) (.rAttr r unk k pay) | none => none) := rfl
@[simp] theorem proj_recEnd (r : Nat) : proj cfg (.recEnd r) = keepIf (recMaskOf cfg r).isSome (.recEnd r) := rfl
@[simp] theorem proj_classFlags (d s : Bool) : proj cfg (.classFlags d s) = keepIf cfg.cls.isSome (.classFlags d s) := rfl
@[simp] theorem proj_fieldBegin (i h : Nat) : proj cfg (.fieldBegin i h) =
    keepIf (cfg.cls.isSome && cfg.fieldsI) (.fieldBegin i h) := rfl
@[simp] theorem proj_fAttr (i : Nat) (unk : Bool) (k : K) (pay : Pay) : proj cfg (.fAttr i unk k pay) =
    (match cfg.cls, cfg.field i with
      | some _, some fm => keepIf (cfg.fieldsI && fm (evBit unk k)) (.fAttr i unk k pay) | _, _ => none) := rfl
@[simp] theorem proj_fieldFlags (i : Nat) (d s : Bool) : proj cfg (.fieldFlags i d s) =
    keepIf (cfg.cls.isSome && cfg.fieldsI && (cfg.field i).isSome) (.fieldFlags i d s) := rfl
@[simp] theorem proj_fieldEnd (i : Nat) : proj cfg (.fieldEnd i) =
    keepIf (cfg.cls.isSome && cfg.fieldsI && (cfg.field i).isSome) (.fieldEnd i) := rfl
@[simp] theorem proj_methodBegin (i h : Nat) : proj cfg (.methodBegin i h) =
    keepIf (cfg.cls.isSome && cfg.methodsI) (.methodBegin i h) := rfl
@[simp] theorem proj_mAttr (i : Nat) (unk : Bool) (k : K) (pay : Pay) : proj cfg (.mAttr i unk k pay) =
    (match cfg.cls, cfg.method i with
      | some _, some mc => keepIf (cfg.methodsI && mc.mask (evBit unk k)) (.mAttr i unk k pay) | _, _ => none) := rfl
@[simp] theorem proj_methodFlags (i : Nat) (d s : Bool) : proj cfg (.methodFlags i d s) =
    keepIf (cfg.cls.isSome && cfg.methodsI && (cfg.method i).isSome) (.methodFlags i d s) := rfl
@[simp] theorem proj_methodEnd (i : Nat) : proj cfg (.methodEnd i) =
    keepIf (cfg.cls.isSome && cfg.methodsI && (cfg.method i).isSome) (.methodEnd i) := rfl
@[simp] theorem proj_codeBegin (i : Nat) : proj cfg (.codeBegin i) =
    (match cfg.cls, cfg.method i with
      | some _, some mc => keepIf (cfg.methodsI && mc.code) (.codeBegin i) | _, _ => none) := rfl
@[simp] theorem proj_codeMaxs (i h : Nat) : proj cfg (.codeMaxs i h) = keepIf (codeMaskOf cfg i).isSome (.codeMaxs i h) := rfl
@[simp] theorem proj_codeExc (i h : Nat) : proj cfg (.codeExc i h) = keepIf (codeMaskOf cfg i).isSome (.codeExc i h) := rfl
@[simp] theorem proj_codeEnd (i : Nat) : proj cfg (.codeEnd i) = keepIf (codeMaskOf cfg i).isSome (.codeEnd i) := rfl
@[simp] theorem proj_kAttr (i : Nat) (unk : Bool) (k : K) (pay : Pay) : proj cfg (.kAttr i unk k pay) =
    (match codeMaskOf cfg i with | some cm => keepIf (cm (evBit unk k)) (.kAttr i unk k pay) | none => none) := rfl
@[simp] theorem proj_codeInsns (i : Nat) (fr : Option Pay) (h : Nat) : proj cfg (.codeInsns i fr h) =
    (match codeMaskOf cfg i with
      | some cm => some (.codeInsns i (if cm .stackMapTable then fr else none) h) | none => none) := rfl
@[simp] theorem proj_codeLines (i : Nat) (parts : List Pay) : proj cfg (.codeLines i parts) =
    (match codeMaskOf cfg i with | some cm => keepIf (cm .lineNumberTable) (.codeLines i parts) | none => none) := rfl
@[simp] theorem proj_codeLocals (i : Nat) (parts : List LvPart) : proj cfg (.codeLocals i parts) =
    (match codeMaskOf cfg i with
      | some cm =>
        if (lvProj cm parts).isEmpty then none
        else some (.codeLocals i (lvProj cm parts))
      | none => none) := rfl

@[simp] theorem proj_classEnd : proj cfg .classEnd = keepIf cfg.cls.isSome .classEnd := rfl
end projEqs

/-! ## `lvProj` -/

@[simp] theorem lvProj_nil (cm : Mask) : lvProj cm [] = [] := rfl

theorem lvProj_append (cm : Mask) (a b : List LvPart) : lvProj cm (a ++ b) = lvProj cm a ++ lvProj cm b := by
  simp [lvProj, List.filterMap_append]

theorem lvProj_d (cm : Mask) (p : Pay) : lvProj cm [(.d, p)] = if cm .lvt then [(.d, p)] else [] := by
  cases h : cm .lvt <;> simp [lvProj, LvK.strip, h]

theorem lvProj_s (cm : Mask) (p : Pay) : lvProj cm [(.s, p)] = if cm .lvtt then [(.s, p)] else [] := by
  cases h : cm .lvtt <;> simp [lvProj, LvK.strip, h]

theorem LvK.strip_all (k : LvK) : k.strip allMask = some k := by cases k <;> rfl

theorem lvProj_all (parts : List LvPart) : lvProj allMask parts = parts := by
  induction parts with
  | nil => rfl
  | cons x xs ih =>
    simp only [lvProj] at ih
    simp only [lvProj, List.filterMap_cons, LvK.strip_all, Option.map_some]
    simp only [LvK.strip_all, Option.map_some] at ih
    rw [ih]

/-! ## leaf attributes -/

theorem leaf1_proj {avail : Nat} {act : K → Act} {m : Mask} {mk : Bool → K → Pay → Ev} {a : Attr} {pos : Nat}
    {s : Step} (P : Ev → Option Ev)
    (hP : ∀ unk k pay, P (mk unk k pay) = keepIf (m (evBit unk k)) (mk unk k pay))
    (hx : leafExact act a = true) (h : leaf1 avail act allMask mk a pos = .ok s) :
    leaf1 avail act m mk a pos = .ok { pos := s.pos, evs := s.evs.filterMap P, dep := s.dep, syn := s.syn } := by
  unfold leaf1 at h ⊢
  unfold leafExact at hx
  cases hact : act a.k <;> simp only [hact] at h hx ⊢
  · obtain ⟨_, h0, h⟩ := bind_ok.mp h
    simp [pure_ok] at h; subst h
    simp [h0, bind, Except.bind, pure_ok]
  · obtain ⟨_, h0, h⟩ := bind_ok.mp h
    simp [pure_ok] at h; subst h
    simp [h0, bind, Except.bind, pure_ok]
  · simp only [allMask, if_true] at h
    obtain ⟨p, hp, h⟩ := bind_ok.mp h
    obtain ⟨_, he, h⟩ := bind_ok.mp h
    simp [pure_ok] at h; subst h
    by_cases hm : m a.k = true
    · simp [hm, hp, he, bind, Except.bind, pure_ok, hP, keepIf, evBit]
    · have := need_ok hp
      simp at hx
      simp [hm, pure_ok, hP, keepIf, evBit]; omega
  · obtain ⟨p, hp, h⟩ := bind_ok.mp h
    obtain ⟨_, he, h⟩ := bind_ok.mp h
    simp [pure_ok] at h; subst h
    simp [hp, he, bind, Except.bind, pure_ok]
  · simp [pure_ok] at h; subst h
    simp [pure_ok]
  · simp only [allMask, if_true] at h
    obtain ⟨p, hp, h⟩ := bind_ok.mp h
    simp [pure_ok] at h; subst h
    by_cases hm : m .other = true
    · simp [hm, hp, bind, Except.bind, pure_ok, hP, keepIf, evBit]
    · have := need_ok hp
      simp [hm, pure_ok, hP, keepIf, evBit]; omega

theorem readLeafs_proj {avail : Nat} {act : K → Act} {m : Mask} {mk : Bool → K → Pay → Ev} (P : Ev → Option Ev)
    (hP : ∀ unk k pay, P (mk unk k pay) = keepIf (m (evBit unk k)) (mk unk k pay)) :
    ∀ (as : List Attr) (p p' : Nat) (evs : List Ev) (d sy : Bool),
      as.all (leafExact act) = true → readLeafs avail act allMask mk as p = .ok (p', evs, d, sy) →
      readLeafs avail act m mk as p = .ok (p', evs.filterMap P, d, sy) := by
  intro as
  induction as with
  | nil => intro p p' evs d sy _ h; simp [readLeafs] at h ⊢; obtain ⟨rfl, rfl, rfl, rfl⟩ := h; simp
  | cons a as ih =>
    intro p p' evs d sy hx h
    simp only [List.all_cons, Bool.and_eq_true] at hx
    simp only [readLeafs] at h ⊢
    obtain ⟨q, hq, h⟩ := bind_ok.mp h
    obtain ⟨s, hs, h⟩ := bind_ok.mp h
    obtain ⟨r', hr', h⟩ := bind_ok.mp h
    obtain ⟨p2, evs2, d2, sy2⟩ := r'
    simp [pure_ok] at h
    obtain ⟨rfl, rfl, rfl, rfl⟩ := h
    have h1 := leaf1_proj P hP hx.1 hs
    have h2 := ih _ _ _ _ _ hx.2 hr'
    simp [hq, h1, h2, bind, Except.bind, pure_ok, List.filterMap_append]

/-- a declined owner: the attributes are skipped by their declared lengths and end where the full read ends -/
theorem readLeafs_skip {avail : Nat} {act : K → Act} {mk : Bool → K → Pay → Ev} :
    ∀ (as : List Attr) (p : Nat) (r : Nat × List Ev × Bool × Bool),
      as.all (leafExact act) = true → readLeafs avail act allMask mk as p = .ok r →
      skipAttrsGo avail (attrLens as) p = .ok r.1 := by
  intro as
  induction as with
  | nil => intro p r _ h; simp [readLeafs] at h; subst h; simp [attrLens, skipAttrsGo]
  | cons a as ih =>
    intro p r hx h
    simp only [List.all_cons, Bool.and_eq_true] at hx
    simp only [readLeafs] at h
    obtain ⟨q, hq, h⟩ := bind_ok.mp h
    obtain ⟨s, hs, h⟩ := bind_ok.mp h
    obtain ⟨r', hr', h⟩ := bind_ok.mp h
    obtain ⟨p2, evs2, d2, sy2⟩ := r'
    simp [pure_ok] at h; subst h
    have h1 := leaf1_pos hx.1 hs
    have h2 := ih _ _ hx.2 hr'
    simp only [attrLens, List.map_cons, skipAttrsGo, hq, bind, Except.bind]
    rw [← h1]; exact h2

theorem leaf1_evs_drop {avail : Nat} {act : K → Act} {m : Mask} {mk : Bool → K → Pay → Ev} {a : Attr} {pos : Nat}
    {s : Step} (P : Ev → Option Ev) (hP : ∀ unk k pay, P (mk unk k pay) = none)
    (h : leaf1 avail act m mk a pos = .ok s) : s.evs.filterMap P = [] := by
  unfold leaf1 at h
  split at h
  · obtain ⟨_, _, h⟩ := bind_ok.mp h; simp [pure_ok] at h; subst h; rfl
  · obtain ⟨_, _, h⟩ := bind_ok.mp h; simp [pure_ok] at h; subst h; rfl
  · split at h
    · obtain ⟨_, _, h⟩ := bind_ok.mp h
      obtain ⟨_, _, h⟩ := bind_ok.mp h
      simp [pure_ok] at h; subst h; simp [hP]
    · simp [pure_ok] at h; subst h; rfl
  · obtain ⟨_, _, h⟩ := bind_ok.mp h
    obtain ⟨_, _, h⟩ := bind_ok.mp h
    simp [pure_ok] at h; subst h; rfl
  · simp [pure_ok] at h; subst h; rfl
  · split at h
    · obtain ⟨_, _, h⟩ := bind_ok.mp h
      simp [pure_ok] at h; subst h; simp [hP]
    · simp [pure_ok] at h; subst h; rfl

theorem readLeafs_evs_drop {avail : Nat} {act : K → Act} {m : Mask} {mk : Bool → K → Pay → Ev} (P : Ev → Option Ev)
    (hP : ∀ unk k pay, P (mk unk k pay) = none) :
    ∀ (as : List Attr) (p : Nat) (r : Nat × List Ev × Bool × Bool),
      readLeafs avail act m mk as p = .ok r → r.2.1.filterMap P = [] := by
  intro as
  induction as with
  | nil => intro p r h; simp [readLeafs] at h; subst h; rfl
  | cons a as ih =>
    intro p r h
    simp only [readLeafs] at h
    obtain ⟨q, hq, h⟩ := bind_ok.mp h
    obtain ⟨s, hs, h⟩ := bind_ok.mp h
    obtain ⟨r', hr', h⟩ := bind_ok.mp h
    obtain ⟨p2, evs2, d2, sy2⟩ := r'
    simp [pure_ok] at h; subst h
    have h1 := leaf1_evs_drop P hP hs
    have h2 : evs2.filterMap P = [] := ih _ _ hr'
    simp only [List.filterMap_append, h1, h2, List.append_nil]

end Visit
