import FeatherModel.Lemmas.TinyKeys

/-! The duplicate-sibling theorems of `TinyKeys` stated through line positions (`Tiny.dupAt`), which is how the driver
and the harness evaluate them (C03). -/

namespace Tiny

theorem drop_of_getElem? {α : Type} : ∀ {ls : List α} {i : Nat} {a : α}, ls[i]? = some a → ls.drop i = a :: ls.drop (i + 1)
  | [], i, a, h => by simp at h
  | x :: xs, 0, a, h => by
    simp only [List.getElem?_cons_zero, Option.some.injEq] at h
    subst h
    rfl
  | x :: xs, i + 1, a, h => by
    simp only [List.getElem?_cons_succ] at h
    simpa using drop_of_getElem? h

/-- a list cut at two positions -/
theorem split_two {α : Type} (ls : List α) {i j : Nat} {a b : α} (hij : i < j) (ha : ls[i]? = some a)
    (hb : ls[j]? = some b) :
    ls = ls.take i ++ a :: ((ls.drop (i + 1)).take (j - i - 1) ++ b :: ls.drop (j + 1)) := by
  have h1 : ls = ls.take i ++ ls.drop i := (List.take_append_drop i ls).symm
  have h2 := drop_of_getElem? ha
  have h3 : ls.drop (i + 1) = (ls.drop (i + 1)).take (j - i - 1) ++ (ls.drop (i + 1)).drop (j - i - 1) :=
    (List.take_append_drop _ _).symm
  have h4 : (ls.drop (i + 1)).drop (j - i - 1) = ls.drop j := by
    rw [List.drop_drop]
    congr 1
    omega
  have h5 := drop_of_getElem? hb
  rw [h4, h5] at h3
  rw [h2] at h1
  conv => lhs; rw [h1, h3]

theorem isLine_iff {indent : Nat} {first : JStr} {l : TLine} (h : isLine indent first l = true) :
    l.indent = indent ∧ l.first = first := by
  simpa [isLine] using h

theorem run_dupClassAt {n : Nat} {s : St} {ls : List TLine} {i j : Nat} (h : dupClassAt ls i j = true) :
    run n s ls = none := by
  unfold dupClassAt at h
  split at h
  · rename_i a b ha hb
    simp only [Bool.and_eq_true, decide_eq_true_eq, beq_iff_eq] at h
    rw [split_two ls h.1.1.1 ha hb]
    exact run_dup_class (isLine_iff h.1.1.2) (isLine_iff h.1.2) h.2
  · simp at h

theorem run_dupFieldAt {n : Nat} {s : St} {ls : List TLine} {i j : Nat} (h : dupMemberAt F_ ls i j = true) :
    run n s ls = none := by
  unfold dupMemberAt at h
  split at h
  · rename_i a b ha hb
    simp only [Bool.and_eq_true, decide_eq_true_eq, beq_iff_eq, List.all_eq_true, between] at h
    rw [split_two ls h.1.1.1.1 ha hb]
    exact run_dup_field (isLine_iff h.1.1.1.2) (isLine_iff h.1.1.2) h.2 h.1.2
  · simp at h

theorem run_dupMethodAt {n : Nat} {s : St} {ls : List TLine} {i j : Nat} (h : dupMemberAt M_ ls i j = true) :
    run n s ls = none := by
  unfold dupMemberAt at h
  split at h
  · rename_i a b ha hb
    simp only [Bool.and_eq_true, decide_eq_true_eq, beq_iff_eq, List.all_eq_true, between] at h
    rw [split_two ls h.1.1.1.1 ha hb]
    exact run_dup_method (isLine_iff h.1.1.1.2) (isLine_iff h.1.1.2) h.2 h.1.2
  · simp at h

theorem run_dupParamAt {n : Nat} {s : St} {ls : List TLine} {m i j : Nat} (h : dupParamAt ls m i j = true) :
    run n s ls = none := by
  unfold dupParamAt at h
  split at h
  · rename_i lm a b hm ha hb
    simp only [Bool.and_eq_true, decide_eq_true_eq, beq_iff_eq, List.all_eq_true, between] at h
    obtain ⟨⟨⟨⟨⟨⟨⟨hmi, hij⟩, hlm⟩, hla⟩, hlb⟩, hkey⟩, hmid0⟩, hmid⟩ := h
    -- cut at `m`, then cut the rest at `i` and `j`
    have c1 := split_two ls hmi hm ha
    have hrest : ls.drop (i + 1) = (ls.drop (i + 1)).take (j - i - 1) ++ b :: ls.drop (j + 1) := by
      have h3 : ls.drop (i + 1) = (ls.drop (i + 1)).take (j - i - 1) ++ (ls.drop (i + 1)).drop (j - i - 1) :=
        (List.take_append_drop _ _).symm
      have h4 : (ls.drop (i + 1)).drop (j - i - 1) = ls.drop j := by
        rw [List.drop_drop]
        congr 1
        omega
      rw [h4, drop_of_getElem? hb] at h3
      exact h3
    rw [hrest] at c1
    rw [c1]
    exact run_dup_param (isLine_iff hlm) hmid0 (isLine_iff hla) (isLine_iff hlb) hmid hkey
  · simp at h

/-- two sibling lines with the same key, found at the given positions, stop the run -/
theorem run_dupAt {n : Nat} {s : St} {ls : List TLine} {m i j : Nat} (h : dupAt ls m i j = true) : run n s ls = none := by
  simp only [dupAt, Bool.or_eq_true] at h
  rcases h with ((h | h) | h) | h
  · exact run_dupClassAt h
  · exact run_dupFieldAt h
  · exact run_dupMethodAt h
  · exact run_dupParamAt h

/-- `read` of a text whose header is accepted is the run over the body -/
theorem read_none_of_run_none {n : Nat} {t : List Nat} {hd : TLine} {ls : List TLine} (ht : textLines t = hd :: ls)
    (h : ∀ s, run n s ls = none) : read n t = none := by
  cases hr : read n t with
  | none => rfl
  | some m =>
    obtain ⟨hd', ls', s, ht', _, _, _, _, hrun, _⟩ := read_some hr
    rw [ht] at ht'
    simp only [List.cons.injEq] at ht'
    rw [← ht'.2, h] at hrun
    simp at hrun

end Tiny
