import FeatherModel.Lemmas.TinyKeys

/-! The duplicate-sibling theorems of `TinyKeys` stated through line positions (`Tiny.dupAt`), which is how the driver
and the harness evaluate them (C03). -/

namespace Tiny

theorem drop_of_getElem? {α : Type} : ∀ {ls : List α} {i : Nat} {a : α}, ls[i]? = some a → ls.drop i = a :: ls.drop (i + 1)
  | [], i, a, h => by simp at h
  | x :: xs, 0, a, h => by
    simp only [List.getElem?_cons_zero, Option.some.injEq] at h
    subst h
    rfl
  | x :: xs, i + 1, a, h => by
    simp only [List.getElem?_cons_succ] at h
    simpa using drop_of_getElem? h

/-- a list cut at two positions -/
theorem split_two {α : Type} (ls : List α) {i j : Nat} {a b : α} (hij : i < j) (ha : ls[i]? = some a)
    (hb : ls[j]? = some b) :
    ls = ls.take i ++ a :: ((ls.drop (i + 1)).take (j - i - 1) ++ b :: ls.drop (j + 1)) := by
  have h1 : ls = ls.take i ++ ls.drop i := (List.take_append_drop i ls).symm
  have h2 := drop_of_getElem? ha
  have h3 : ls.drop (i + 1) = (ls.drop (i + 1)).take (j - i - 1) ++ (ls.drop (i + 1)).drop (j - i - 1) :=
    (List.take_append_drop _ _).symm
  have h4 : (ls.drop (i + 1)).drop (j - i - 1) = ls.drop j := by
    rw [List.drop_drop]
    congr 1
    omega
  have h5 := drop_of_getElem? hb
  rw [h4, h5] at h3
  rw [h2] at h1
  conv => lhs; rw [h1, h3]

theorem isLine_iff {indent : Nat} {first : JStr} {l : TLine} (h : isLine indent first l = true) :
    l.indent = indent ∧ l.first = first := by
  simpa [isLine] using h

theorem run_dupClassAt {n : Nat} {s : St} {ls : List TLine} {i j : Nat} (h : dupClassAt ls i j = true) :
    run n s ls = none := by
  unfold dupClassAt at h
  split at h
  · rename_i a b ha hb
    simp only [Bool.and_eq_true, decide_eq_true_eq, beq_iff_eq] at h
    rw [split_two ls h.1.1.1 ha hb]
    exact run_dup_class (isLine_iff h.1.1.2) (isLine_iff h.1.2) h.2
  · simp at h

theorem run_dupFieldAt {n : Nat} {s : St} {ls : List TLine} {i j : Nat} (h : dupMemberAt F_ ls i j = true) :
    run n s ls = none := by
  unfold dupMemberAt at h
  split at h
  · rename_i a b ha hb
    simp only [Bool.and_eq_true, decide_eq_true_eq, beq_iff_eq, List.all_eq_true, between] at h
    rw [split_two ls h.1.1.1.1 ha hb]
    exact run_dup_field (isLine_iff h.1.1.1.2) (isLine_iff h.1.1.2) h.2 h.1.2
  · simp at h

theorem run_dupMethodAt {n : Nat} {s : St} {ls : List TLine} {i j : Nat} (h : dupMemberAt M_ ls i j = true) :
    run n s ls = none := by
  unfold dupMemberAt at h
  split at h
  · rename_i a b ha hb
    simp only [Bool.and_eq_true, decide_eq_true_eq, beq_iff_eq, List.all_eq_true, between] at h
    rw [split_two ls h.1.1.1.1 ha hb]
    exact run_dup_method (isLine_iff h.1.1.1.2) (isLine_iff h.1.1.2) h.2 h.1.2
  · simp at h

theorem run_dupParamAt {n : Nat} {s : St} {ls : List TLine} {m i j : Nat} (h : dupParamAt ls m i j = true) :
    run n s ls = none := by
  unfold dupParamAt at h
  split at h
  · rename_i lm a b hm ha hb
    simp only [Bool.and_eq_true, decide_eq_true_eq, beq_iff_eq, List.all_eq_true, between] at h
    obtain ⟨⟨⟨⟨⟨⟨⟨hmi, hij⟩, hlm⟩, hla⟩, hlb⟩, hkey⟩, hmid0⟩, hmid⟩ := h
    -- cut at `m`, then cut the rest at `i` and `j`
    have c1 := split_two ls hmi hm ha
    have hrest : ls.drop (i + 1) = (ls.drop (i + 1)).take (j - i - 1) ++ b :: ls.drop (j + 1) := by
      have h3 : ls.drop (i + 1) = (ls.drop (i + 1)).take (j - i - 1) ++ (ls.drop (i + 1)).drop (j - i - 1) :=
        (List.take_append_drop _ _).symm
      have h4 : (ls.drop (i + 1)).drop (j - i - 1) = ls.drop j := by
        rw [List.drop_drop]
        congr 1
        omega
      rw [h4, drop_of_getElem? hb] at h3
      exact h3
    rw [hrest] at c1
    rw [c1]
    exact run_dup_param (isLine_iff hlm) hmid0 (isLine_iff hla) (isLine_iff hlb) hmid hkey
  · simp at h

/-- two sibling lines with the same key, found at the given positions, stop the run -/
theorem run_dupAt {n : Nat} {s : St} {ls : List TLine} {m i j : Nat} (h : dupAt ls m i j = true) : run n s ls = none := by
  simp only [dupAt, Bool.or_eq_true] at h
  rcases h with ((h | h) | h) | h
  · exact run_dupClassAt h
  · exact run_dupFieldAt h
  · exact run_dupMethodAt h
  · exact run_dupParamAt h

/-- `read` of a text whose header is accepted is the run over the body: the lines from the first one at indentation 0 on -/
theorem read_none_of_run_none {n : Nat} {t : List Nat} {hd : TLine} {ls : List TLine} (ht : textLines t = hd :: ls)
    (h : ∀ s, run n s (bodyPart ls) = none) : read n t = none := by
  cases hr : read n t with
  | none => rfl
  | some m =>
    obtain ⟨hd', ls', s, ht', _, _, _, _, hrun, _⟩ := read_some hr
    rw [ht] at ht'
    simp only [List.cons.injEq] at ht'
    rw [← ht'.2, h] at hrun
    simp at hrun

/-- a header section that is refused makes `read` fail -/
theorem read_none_of_headerSec_none {n : Nat} {t : List Nat} {hd : TLine} {ls : List TLine} (ht : textLines t = hd :: ls)
    (h : headerSec none ls = none) : read n t = none := by
  cases hr : read n t with
  | none => rfl
  | some m =>
    obtain ⟨hd', ls', s, ht', _, _, hsec, _, _, _⟩ := read_some hr
    rw [ht] at ht'
    simp only [List.cons.injEq] at ht'
    rw [← ht'.2, h] at hsec
    simp at hsec

/-- whatever follows a line at indentation 0 is in the body -/
theorem bodyPart_split_after {pre : List TLine} (rest : List TLine) (h : ∃ x ∈ pre, x.indent = 0) :
    ∃ pre', bodyPart (pre ++ rest) = pre' ++ rest := by
  obtain ⟨x, hx, h0⟩ := h
  obtain ⟨a, b, rfl⟩ := List.append_of_mem hx
  obtain ⟨a', ha'⟩ := bodyPart_split a x (b ++ rest) h0
  refine ⟨a' ++ x :: b, ?_⟩
  simp only [List.append_assoc, List.cons_append] at ha' ⊢
  exact ha'

/-- a failure that does not depend on the state and on what precedes it is a failure of the body run, when it starts in
the body -/
theorem read_none_of_tail_none {n : Nat} {t : List Nat} {hd : TLine} {pre rest : List TLine}
    (ht : textLines t = hd :: (pre ++ rest)) (hpre : ∃ x ∈ pre, x.indent = 0)
    (h : ∀ (pre' : List TLine) (s : St), run n s (pre' ++ rest) = none) : read n t = none := by
  obtain ⟨pre', hp⟩ := bodyPart_split_after rest hpre
  exact read_none_of_run_none ht (fun s => by rw [hp]; exact h pre' s)

/-- `read` sees the text only through the header line, the outcome of the header section and the body -/
theorem read_congr {n : Nat} {t t' : List Nat} {hd : TLine} {ls ls' : List TLine} (ht : textLines t = hd :: ls)
    (ht' : textLines t' = hd :: ls') (h : headerSec none ls = headerSec none ls') : read n t = read n t' := by
  unfold read
  rw [ht, ht']
  simp only [h]

/-- a line at indentation 0 that is no class opens nothing: an indented line directly after it is an error, wherever it
stands (this is what happens to a header property line that does not directly follow the header) -/
theorem run_orphan_indent {n : Nat} {s : St} {pre post : List TLine} {l0 l : TLine} (h0 : l0.indent = 0)
    (hf : l0.first ≠ C_) (hl : 1 ≤ l.indent) : run n s (pre ++ l0 :: l :: post) = none := by
  cases hr : run n s (pre ++ l0 :: l :: post) with
  | none => rfl
  | some s' =>
    obtain ⟨m, _, h2⟩ := run_append_some hr
    obtain ⟨m2, h3, h4⟩ := run_cons_some h2
    obtain ⟨m3, h5, _⟩ := run_cons_some h4
    have hd : m2.depth = 0 := by
      unfold step at h3
      simp only [h0, Nat.not_lt_zero, if_false, hf, Option.some.injEq] at h3
      rw [← h3]
    unfold step at h5
    rw [if_pos (by omega)] at h5
    simp at h5

theorem read_none_of_headerBad {n : Nat} {t : List Nat} (h : headerBad (textLines t).tail = true) : read n t = none := by
  cases hr : read n t with
  | none => rfl
  | some m =>
    obtain ⟨hd, ls, s, ht, _, _, hsec, _, _, _⟩ := read_some hr
    rw [ht, List.tail_cons] at h
    have h1 := headerSec_indents ls none _ _ hsec
    have h2 := (headerSec_none_doc hsec).2
    simp only [headerBad, Bool.or_eq_true, List.any_eq_true, decide_eq_true_eq] at h
    rcases h with ⟨l, hl, h2l⟩ | h
    · have := h1 l hl
      omega
    · have : docN m.doc ≤ 1 := by unfold docN; split <;> omega
      omega

/-- decidable form of `headerSec_ignores` (the oracle's domain): deleting an unknown property line of the header section
changes nothing -/
theorem read_eq_of_ignoredAt {n : Nat} {t t' : List Nat} {k : Nat}
    (hh : (textLines t).head? = (textLines t').head?) (h : ignoredAt (textLines t).tail (textLines t').tail k = true) :
    read n t = read n t' := by
  cases ht : textLines t with
  | nil => simp [ignoredAt, ht] at h
  | cons hd ls =>
    rw [ht, List.tail_cons] at h
    unfold ignoredAt at h
    split at h
    · rename_i l hl
      simp only [Bool.and_eq_true, List.all_eq_true, bne_iff_ne, ne_eq, beq_iff_eq] at h
      obtain ⟨⟨⟨hpre, h1⟩, hf⟩, heq⟩ := h
      cases ht' : textLines t' with
      | nil => rw [ht, ht'] at hh; simp at hh
      | cons hd' ls' =>
        rw [ht, ht'] at hh
        simp only [List.head?_cons, Option.some.injEq] at hh
        subst hh
        rw [ht', List.tail_cons] at heq
        have hsplit : ls = ls.take k ++ l :: ls.drop (k + 1) := by
          conv => lhs; rw [← List.take_append_drop k ls, drop_of_getElem? hl]
        have herase : ls.eraseIdx k = ls.take k ++ ls.drop (k + 1) := List.eraseIdx_eq_take_drop_succ ls k
        refine read_congr ht ht' ?_
        rw [heq, herase]
        conv => lhs; rw [hsplit]
        exact headerSec_ignores _ none l _ hpre h1 hf
    · simp at h

/-- decidable form of `run_orphan_indent` -/
theorem read_none_of_orphanAt {n : Nat} {t : List Nat} {k : Nat} (h : orphanAt (textLines t).tail k = true) :
    read n t = none := by
  cases ht : textLines t with
  | nil => simp [Tiny.read, ht]
  | cons hd ls =>
    rw [ht, List.tail_cons] at h
    unfold orphanAt at h
    split at h
    · rename_i l0 l hl0 hl
      simp only [Bool.and_eq_true, beq_iff_eq, bne_iff_ne, ne_eq, decide_eq_true_eq] at h
      obtain ⟨⟨h0, hf⟩, h1⟩ := h
      have hsplit : ls = ls.take k ++ l0 :: l :: ls.drop (k + 2) := by
        conv => lhs; rw [← List.take_append_drop k ls, drop_of_getElem? hl0, drop_of_getElem? hl]
      obtain ⟨pre', hp⟩ := bodyPart_split (ls.take k) l0 (l :: ls.drop (k + 2)) h0
      refine read_none_of_run_none ht (fun s => ?_)
      rw [hsplit, hp]
      exact run_orphan_indent h0 hf h1
    · simp at h

end Tiny
