import FeatherModel.Model.VersionGraph
import FeatherModel.Lemmas.VersionGraph
import FeatherModel.Lemmas.VersionGraphScan

/-! The two passes of `VersionGraph::resolve`: first every `client~server` version string, then every file. -/

namespace VG

/-! ## `split_once`, keys -/

theorem splitOnce_none_iff {c : Nat} : ∀ {s : List Nat}, splitOnce c s = none ↔ c ∉ s := by
  intro s
  induction s with
  | nil => simp [splitOnce]
  | cons x xs ih =>
    simp only [splitOnce]
    by_cases hx : x = c
    · simp [hx]
    · simp only [hx, if_false]
      cases hs : splitOnce c xs with
      | none =>
        have := ih.mp hs
        simp only [List.mem_cons, not_or, true_iff]
        exact ⟨fun h => hx h.symm, this⟩
      | some ab =>
        obtain ⟨a, b⟩ := ab
        have : c ∈ xs := by
          cases Decidable.em (c ∈ xs) with
          | inl h => exact h
          | inr h => rw [ih.mpr h] at hs; simp at hs
        simp [this]

theorem isSplit_iff {vs : JStr} : isSplit vs = true ↔ ∃ cs, splitOnce TILDE vs = some cs := by
  unfold isSplit
  rw [List.contains_iff_mem]
  constructor
  · intro h
    cases hs : splitOnce TILDE vs with
    | none => exact absurd h (splitOnce_none_iff.mp hs)
    | some cs => exact ⟨cs, rfl⟩
  · intro ⟨cs, hs⟩
    cases Decidable.em (TILDE ∈ vs) with
    | inl h => exact h
    | inr h => rw [splitOnce_none_iff.mpr h] at hs; simp at hs

theorem isSplit_false_iff {vs : JStr} : isSplit vs = false ↔ splitOnce TILDE vs = none := by
  constructor
  · intro h
    cases hs : splitOnce TILDE vs with
    | none => rfl
    | some cs => have := isSplit_iff.mpr ⟨cs, hs⟩; rw [h] at this; simp at this
  · intro h
    cases hb : isSplit vs with
    | false => rfl
    | true => obtain ⟨cs, hs⟩ := isSplit_iff.mp hb; rw [h] at hs; simp at hs

theorem keysOf_plain {vs : JStr} (h : splitOnce TILDE vs = none) : keysOf vs = [vs] := by simp [keysOf, h]

theorem keysOf_split {vs c s : JStr} (h : splitOnce TILDE vs = some (c, s)) : keysOf vs = [c, s] := by simp [keysOf, h]

theorem keyKind_of_mem {k vs : JStr} (h : k ∈ keysOf vs) : ∃ sp, keyKind k vs = some sp := by
  unfold keysOf at h
  unfold keyKind
  cases hs : splitOnce TILDE vs with
  | none =>
    rw [hs] at h
    simp only [List.mem_singleton] at h
    exact ⟨Split.none, by simp [h]⟩
  | some cs =>
    obtain ⟨c, s⟩ := cs
    rw [hs] at h
    simp only [List.mem_cons, List.not_mem_nil, or_false] at h
    simp only
    by_cases hc : k = c
    · exact ⟨Split.first, by simp [hc]⟩
    · rcases h with h | h
      · exact absurd h hc
      · exact ⟨Split.second, by rw [if_neg hc, if_pos h]⟩

theorem keyKind_isSome_iff {k vs : JStr} : (keyKind k vs).isSome = true ↔ k ∈ keysOf vs := by
  constructor
  · intro h
    cases hk : keyKind k vs with
    | none => rw [hk] at h; simp at h
    | some sp => exact keyKind_some_mem hk
  · intro h
    obtain ⟨sp, hsp⟩ := keyKind_of_mem h
    simp [hsp]

theorem VersionsSpec_congr {g : Graph} {a b : List JStr} (h : ∀ x, x ∈ a ↔ x ∈ b) (ha : VersionsSpec g a) :
    VersionsSpec g b := by
  intro k sp n
  rw [ha k sp n, h n]

theorem keysDisjoint_congr {a b : List JStr} (h : ∀ x, x ∈ a ↔ x ∈ b) (ha : KeysDisjoint a) : KeysDisjoint b :=
  keysDisjoint_sub ha (fun x hx => (h x).mpr hx)

theorem keysDisjoint_cons_mem {seen : List JStr} {vs : JStr} (h : KeysDisjoint seen) (hm : vs ∈ seen) :
    KeysDisjoint (vs :: seen) :=
  keysDisjoint_sub h (by intro x hx; rcases List.mem_cons.mp hx with h | h; exact h ▸ hm; exact h)

/-! ## one call of `add_node` -/

/-- inside the disjoint domain the ambiguity check of `add_node` passes -/
theorem addNode_ok {g : Graph} {seen : List JStr} {vs : JStr}
    (hinv : VersionsSpec g seen) (hwf : KeysDisjoint (vs :: seen)) :
    addNode g vs = some ((addNodeRaw g vs).1, vs) := by
  obtain ⟨hnode, hspec, _, _⟩ := addNodeRaw_spec hinv hwf
  unfold addNode
  cases hs : splitOnce TILDE vs with
  | none => simp only; exact congrArg some (Prod.ext rfl hnode)
  | some cs =>
    obtain ⟨c, s⟩ := cs
    simp only
    have hk : s ∈ keysOf vs := by simp [keysOf_split hs]
    obtain ⟨sp, hsp⟩ := keyKind_of_mem hk
    have hl := (hspec s sp vs).mpr ⟨List.mem_cons_self, hsp⟩
    have : keyNode (addNodeRaw g vs).1 s = some vs := by simp [keyNode, hl]
    rw [if_pos ⟨hnode, this⟩]
    exact congrArg some (Prod.ext rfl hnode)

/-- a half that already stands for another version makes `add_node` bail -/
theorem addNode_fail {g : Graph} {seen : List JStr} {vs n k : JStr}
    (hinv : VersionsSpec g seen) (hn : n ∈ seen) (hne : n ≠ vs) (hsplit : isSplit vs = true)
    (hk : k ∈ keysOf vs) (hkn : k ∈ keysOf n) : addNode g vs = none := by
  obtain ⟨cs, hs⟩ := isSplit_iff.mp hsplit
  obtain ⟨c, s⟩ := cs
  obtain ⟨sp, hsp⟩ := keyKind_of_mem hkn
  have hl : AList.lookup k g.versions = some (sp, n) := (hinv k sp n).mpr ⟨hn, hsp⟩
  rw [keysOf_split hs] at hk
  simp only [List.mem_cons, List.not_mem_nil, or_false] at hk
  unfold addNode
  simp only [hs]
  by_cases hkc : k = c
  · subst hkc
    have : (addNodeRaw g vs).2 = n := by
      unfold addNodeRaw
      simp only [hs, hl]
    rw [if_neg (by rw [this]; exact fun h => hne h.1)]
  · have hks : k = s := by rcases hk with h | h; exact absurd h hkc; exact h
    subst hks
    have : keyNode (addNodeRaw g vs).1 k = some n := by
      unfold addNodeRaw keyNode
      simp only [hs]
      cases hlc : AList.lookup c g.versions with
      | some q => simp [hl]
      | none =>
        simp only
        have : AList.lookup k (g.versions ++ [(c, (Split.first, vs))]) = some (sp, n) := by
          simp [lookup_append_single, hl]
        simp [this]
    rw [if_neg (by rw [this]; intro h; exact hne (by simpa using h.2))]

/-- the key whose lookup decides whether `add_node` creates a node -/
def firstKey (vs : JStr) : JStr :=
  match splitOnce TILDE vs with
  | some (c, _) => c
  | none => vs

theorem addNodeRaw_nodes (g : Graph) (vs : JStr) :
    (addNodeRaw g vs).1.nodes =
      if (AList.lookup (firstKey vs) g.versions).isSome then g.nodes else g.nodes ++ [vs] := by
  unfold addNodeRaw firstKey
  cases hs : splitOnce TILDE vs with
  | none =>
    simp only
    cases AList.lookup vs g.versions <;> simp
  | some cs =>
    obtain ⟨c, s⟩ := cs
    simp only
    cases hlc : AList.lookup c g.versions with
    | some q =>
      simp only
      cases AList.lookup s g.versions <;> simp
    | none =>
      simp only
      split <;> simp

theorem firstKey_mem (vs : JStr) : firstKey vs ∈ keysOf vs := by
  unfold firstKey keysOf
  cases splitOnce TILDE vs with
  | none => simp
  | some cs => simp

/-- node names = the registered version strings, without repetition -/
def NodesSpec (g : Graph) (seen : List JStr) : Prop := (∀ n, n ∈ g.nodes ↔ n ∈ seen) ∧ g.nodes.Nodup

theorem NodesSpec_congr {g : Graph} {a b : List JStr} (h : ∀ x, x ∈ a ↔ x ∈ b) (ha : NodesSpec g a) : NodesSpec g b :=
  ⟨fun n => by rw [ha.1 n, h n], ha.2⟩

theorem addNodeRaw_nodesSpec {g : Graph} {seen : List JStr} {vs : JStr}
    (hinv : VersionsSpec g seen) (hnodes : NodesSpec g seen) (hwf : KeysDisjoint (vs :: seen)) :
    NodesSpec (addNodeRaw g vs).1 (vs :: seen) := by
  have hk := firstKey_mem vs
  obtain ⟨sp, hsp⟩ := keyKind_of_mem hk
  rw [NodesSpec, addNodeRaw_nodes]
  by_cases hm : vs ∈ seen
  · have hl := (hinv (firstKey vs) sp vs).mpr ⟨hm, hsp⟩
    simp only [hl, Option.isSome_some, if_true]
    refine ⟨fun n => ?_, hnodes.2⟩
    rw [hnodes.1 n]
    simp only [List.mem_cons]
    constructor
    · exact Or.inr
    · intro h; rcases h with h | h; exact h ▸ hm; exact h
  · have hl : AList.lookup (firstKey vs) g.versions = none := by
      cases hq : AList.lookup (firstKey vs) g.versions with
      | none => rfl
      | some q =>
        obtain ⟨sp1, n1⟩ := q
        obtain ⟨hn1, hk1⟩ := (hinv _ sp1 n1).mp hq
        have : n1 = vs := by
          cases Decidable.em (n1 = vs) with
          | inl h => exact h
          | inr h =>
            exact absurd (keyKind_some_mem hk1)
              (hwf vs List.mem_cons_self n1 (List.mem_cons_of_mem _ hn1) (fun e => h e.symm) _ hk)
        exact absurd (this ▸ hn1) hm
    simp only [hl, Option.isSome_none, Bool.false_eq_true, if_false]
    refine ⟨fun n => ?_, ?_⟩
    · simp only [List.mem_append, List.mem_cons, List.not_mem_nil, or_false, hnodes.1 n]
      constructor
      · intro h; rcases h with h | h; exact Or.inr h; exact Or.inl h
      · intro h; rcases h with h | h; exact Or.inr h; exact Or.inl h
    · rw [List.nodup_append]
      refine ⟨hnodes.2, by simp, ?_⟩
      intro a ha b hb
      simp only [List.mem_singleton] at hb
      subst hb
      intro e
      subst e
      exact hm ((hnodes.1 _).mp ha)

/-! ## the first pass -/

theorem keysDisjoint_cons_iff {seen : List JStr} {vs : JStr} :
    KeysDisjoint (vs :: seen) ↔
      KeysDisjoint seen ∧ ∀ n, n ∈ seen → n ≠ vs → ∀ k, k ∈ keysOf vs → k ∉ keysOf n := by
  constructor
  · intro h
    refine ⟨keysDisjoint_sub h (fun x hx => List.mem_cons_of_mem _ hx), ?_⟩
    intro n hn hne k hk
    exact h vs List.mem_cons_self n (List.mem_cons_of_mem _ hn) (fun e => hne e.symm) k hk
  · intro ⟨h1, h2⟩ v1 hv1 v2 hv2 hne k hk hk2
    rcases List.mem_cons.mp hv1 with e1 | m1 <;> rcases List.mem_cons.mp hv2 with e2 | m2
    · exact hne (e1.trans e2.symm)
    · subst e1; exact h2 v2 m2 (fun e => hne e.symm) k hk hk2
    · subst e2; exact h2 v1 m1 hne k hk2 hk
    · exact h1 v1 m1 v2 m2 hne k hk hk2

theorem not_keysDisjoint_cons {seen : List JStr} {vs : JStr} (hd : KeysDisjoint seen)
    (h : ¬ KeysDisjoint (vs :: seen)) : ∃ n k, n ∈ seen ∧ n ≠ vs ∧ k ∈ keysOf vs ∧ k ∈ keysOf n := by
  cases Classical.em (∃ n k, n ∈ seen ∧ n ≠ vs ∧ k ∈ keysOf vs ∧ k ∈ keysOf n) with
  | inl h' => exact h'
  | inr h' =>
    exfalso
    apply h
    rw [keysDisjoint_cons_iff]
    refine ⟨hd, ?_⟩
    intro n hn hne k hk hkn
    exact h' ⟨n, k, hn, hne, hk, hkn⟩

theorem mem_cons_append_swap {α : Type} (a : α) (l m : List α) (x : α) : x ∈ l ++ a :: m ↔ x ∈ (a :: l) ++ m := by
  simp only [List.mem_append, List.mem_cons]
  constructor
  · intro h; rcases h with h | h | h
    · exact Or.inl (Or.inr h)
    · exact Or.inl (Or.inl h)
    · exact Or.inr h
  · intro h; rcases h with (h | h) | h
    · exact Or.inr (Or.inl h)
    · exact Or.inl h
    · exact Or.inr (Or.inr h)

/-- **the first pass** registers the `client~server` strings `S`: it succeeds iff no two different ones share a half -/
theorem addNodes_spec : ∀ (S : List JStr) {g : Graph} {seen : List JStr},
    VersionsSpec g seen → NodesSpec g seen → KeysDisjoint seen → (∀ x, x ∈ S → isSplit x = true) →
    match addNodes g S with
    | some g' => KeysDisjoint (S ++ seen) ∧ VersionsSpec g' (S ++ seen) ∧ NodesSpec g' (S ++ seen) ∧
        g'.edges = g.edges ∧ g'.root = g.root
    | none => ¬ KeysDisjoint (S ++ seen) := by
  intro S
  induction S with
  | nil => intro g seen hv hn hd _; exact ⟨hd, hv, hn, rfl, rfl⟩
  | cons vs rest ih =>
    intro g seen hv hn hd hS
    simp only [addNodes]
    cases Classical.em (KeysDisjoint (vs :: seen)) with
    | inl hwf =>
      rw [addNode_ok hv hwf]
      simp only
      obtain ⟨_, hv1, he1, hr1⟩ := addNodeRaw_spec hv hwf
      have hn1 := addNodeRaw_nodesSpec hv hn hwf
      have := ih hv1 hn1 hwf (fun x hx => hS x (List.mem_cons_of_mem _ hx))
      cases hrest : addNodes (addNodeRaw g vs).1 rest with
      | none =>
        rw [hrest] at this
        simp only at this ⊢
        exact fun h => this (keysDisjoint_congr (fun x => (mem_cons_append_swap vs rest seen x).symm) h)
      | some g' =>
        rw [hrest] at this
        simp only at this ⊢
        obtain ⟨h1, h2, h3, h4, h5⟩ := this
        exact ⟨keysDisjoint_congr (mem_cons_append_swap vs rest seen) h1,
          VersionsSpec_congr (mem_cons_append_swap vs rest seen) h2,
          NodesSpec_congr (mem_cons_append_swap vs rest seen) h3, h4.trans he1, h5.trans hr1⟩
    | inr hwf =>
      obtain ⟨n, k, hn', hne, hk, hkn⟩ := not_keysDisjoint_cons hd hwf
      rw [addNode_fail hv hn' hne (hS vs List.mem_cons_self) hk hkn]
      simp only
      intro h
      exact hwf (keysDisjoint_sub h (by
        intro x hx
        rcases List.mem_cons.mp hx with e | m
        · subst e; simp
        · simp [m]))

/-! ## what a key and a version string stand for -/

theorem ownerOf_some {vss : List JStr} {k n : JStr} {sp : Split} (h : ownerOf vss k = some (sp, n)) :
    n ∈ splitsOf vss ∧ keyKind k n = some sp := by
  unfold ownerOf at h
  obtain ⟨a, ha, hf⟩ := List.exists_of_findSome?_eq_some h
  cases hk : keyKind k a with
  | none => rw [hk] at hf; simp at hf
  | some sp' =>
    rw [hk] at hf
    simp only [Option.map_some, Option.some.injEq, Prod.mk.injEq] at hf
    obtain ⟨e1, e2⟩ := hf
    subst e1; subst e2
    exact ⟨ha, hk⟩

theorem ownerOf_none {vss : List JStr} {k : JStr} (h : ownerOf vss k = none) :
    ∀ n, n ∈ splitsOf vss → k ∉ keysOf n := by
  intro n hn hk
  unfold ownerOf at h
  have := List.findSome?_eq_none_iff.mp h n hn
  obtain ⟨sp, hsp⟩ := keyKind_of_mem hk
  rw [hsp] at this
  simp at this

/-- without ambiguity the owner of a key is determined by the *set* of version strings -/
theorem ownerOf_eq {vss : List JStr} (hd : KeysDisjoint (splitsOf vss)) {k n : JStr} {sp : Split}
    (hn : n ∈ splitsOf vss) (hk : keyKind k n = some sp) : ownerOf vss k = some (sp, n) := by
  cases ho : ownerOf vss k with
  | none => exact absurd (keyKind_some_mem hk) (ownerOf_none ho n hn)
  | some q =>
    obtain ⟨sp', n'⟩ := q
    obtain ⟨hn', hk'⟩ := ownerOf_some ho
    have : n' = n := by
      cases Decidable.em (n' = n) with
      | inl h => exact h
      | inr h => exact absurd (keyKind_some_mem hk) (hd n' hn' n hn h k (keyKind_some_mem hk'))
    subst this
    rw [hk] at hk'
    simp only [Option.some.injEq] at hk'
    rw [hk']

theorem mem_splitsOf {vss : List JStr} {x : JStr} : x ∈ splitsOf vss ↔ x ∈ vss ∧ isSplit x = true := by
  simp [splitsOf, List.mem_filter]

theorem mem_nodeStrings {vss : List JStr} {x : JStr} :
    x ∈ nodeStrings vss ↔ x ∈ vss ∧ (isSplit x = true ∨ ownerOf vss x = none) := by
  simp [nodeStrings, List.mem_filter]

/-- the invariant of the second pass: the table holds every `client~server` string of the directory and the plain
strings met so far that are not a half of one -/
structure Inv (vss : List JStr) (g : Graph) (seen : List JStr) : Prop where
  vers : VersionsSpec g seen
  nodes : NodesSpec g seen
  disj : KeysDisjoint seen
  splits : ∀ x, x ∈ splitsOf vss → x ∈ seen
  sub : ∀ x, x ∈ seen → x ∈ nodeStrings vss

theorem Inv.splitsDisjoint {vss : List JStr} {g : Graph} {seen : List JStr} (h : Inv vss g seen) :
    KeysDisjoint (splitsOf vss) := keysDisjoint_sub h.disj h.splits

/-- **one `add_node` of the second pass**: it cannot fail any more, and yields the node the string stands for -/
theorem addNode_pass2 {vss : List JStr} {g : Graph} {seen : List JStr} {vs : JStr}
    (hinv : Inv vss g seen) (hvs : vs ∈ vss) :
    ∃ g' seen', addNode g vs = some (g', nodeOf vss vs) ∧ Inv vss g' seen' ∧
      (∀ x, x ∈ seen' ↔ (x ∈ seen ∨ (x = vs ∧ vs ∈ nodeStrings vss))) ∧ g'.edges = g.edges ∧ g'.root = g.root := by
  cases hsp : isSplit vs with
  | true =>
    have hmem : vs ∈ seen := hinv.splits vs (mem_splitsOf.mpr ⟨hvs, hsp⟩)
    have hwf := keysDisjoint_cons_mem hinv.disj hmem
    obtain ⟨_, hv1, he1, hr1⟩ := addNodeRaw_spec hinv.vers hwf
    have hns : vs ∈ nodeStrings vss := mem_nodeStrings.mpr ⟨hvs, Or.inl hsp⟩
    refine ⟨(addNodeRaw g vs).1, vs :: seen, ?_, ⟨hv1, addNodeRaw_nodesSpec hinv.vers hinv.nodes hwf, hwf,
      fun x hx => List.mem_cons_of_mem _ (hinv.splits x hx), ?_⟩, ?_, he1, hr1⟩
    · rw [addNode_ok hinv.vers hwf]; simp [nodeOf, hsp]
    · intro x hx
      rcases List.mem_cons.mp hx with e | m
      · exact e ▸ hns
      · exact hinv.sub x m
    · intro x
      simp only [List.mem_cons]
      constructor
      · intro h; rcases h with h | h; exact Or.inr ⟨h, hns⟩; exact Or.inl h
      · intro h; rcases h with h | h; exact Or.inr h; exact Or.inl h.1
  | false =>
    have hplain := isSplit_false_iff.mp hsp
    cases ho : ownerOf vss vs with
    | some q =>
      obtain ⟨sp, n⟩ := q
      obtain ⟨hn, hk⟩ := ownerOf_some ho
      have hl := (hinv.vers vs sp n).mpr ⟨hinv.splits n hn, hk⟩
      have hraw : addNodeRaw g vs = (g, n) := by
        unfold addNodeRaw
        simp only [hplain, hl]
      refine ⟨g, seen, ?_, hinv, ?_, rfl, rfl⟩
      · unfold addNode
        simp only [hplain, hraw, nodeOf, hsp, ho, Bool.false_eq_true, if_false]
      · intro x
        constructor
        · exact Or.inl
        · intro h
          rcases h with h | ⟨_, h⟩
          · exact h
          · have := (mem_nodeStrings.mp h).2
            rw [hsp, ho] at this
            simp at this
    | none =>
      have hwf : KeysDisjoint (vs :: seen) := by
        rw [keysDisjoint_cons_iff]
        refine ⟨hinv.disj, ?_⟩
        intro n hn hne k hk hkn
        rw [keysOf_plain hplain] at hk
        simp only [List.mem_singleton] at hk
        subst hk
        have hns := mem_nodeStrings.mp (hinv.sub n hn)
        cases hnsp : isSplit n with
        | true => exact ownerOf_none ho n (mem_splitsOf.mpr ⟨hns.1, hnsp⟩) hkn
        | false =>
          rw [keysOf_plain (isSplit_false_iff.mp hnsp)] at hkn
          simp only [List.mem_singleton] at hkn
          exact hne hkn.symm
      obtain ⟨_, hv1, he1, hr1⟩ := addNodeRaw_spec hinv.vers hwf
      have hns : vs ∈ nodeStrings vss := mem_nodeStrings.mpr ⟨hvs, Or.inr ho⟩
      refine ⟨(addNodeRaw g vs).1, vs :: seen, ?_, ⟨hv1, addNodeRaw_nodesSpec hinv.vers hinv.nodes hwf, hwf,
        fun x hx => List.mem_cons_of_mem _ (hinv.splits x hx), ?_⟩, ?_, he1, hr1⟩
      · rw [addNode_ok hinv.vers hwf]; simp [nodeOf, hsp, ho]
      · intro x hx
        rcases List.mem_cons.mp hx with e | m
        · exact e ▸ hns
        · exact hinv.sub x m
      · intro x
        simp only [List.mem_cons]
        constructor
        · intro h; rcases h with h | h; exact Or.inr ⟨h, hns⟩; exact Or.inl h
        · intro h; rcases h with h | h; exact Or.inr h; exact Or.inl h.1

/-! ## the second pass -/

/-- the edge an entry stands for, between nodes -/
def entryEdge (vss : List JStr) (e : Entry) : Option Edge :=
  e.parent.map fun p => { parent := nodeOf vss p, child := nodeOf vss e.version, content := e.content }

/-- the root an entry stands for -/
def entryRoot (vss : List JStr) (e : Entry) : Option (JStr × Bytes) :=
  match e.parent with
  | none => some (nodeOf vss e.version, e.content)
  | some _ => none

def pairs (es : List Edge) : List (JStr × JStr) := es.map fun e => (e.parent, e.child)

def rootBit (g : Graph) : Nat := if g.root.isSome then 1 else 0

theorem any_pair_iff (es : List Edge) (p v : JStr) :
    es.any (fun x => x.parent == p && x.child == v) = true ↔ (p, v) ∈ pairs es := by
  simp only [List.any_eq_true, Bool.and_eq_true, beq_iff_eq, pairs, List.mem_map, Prod.mk.injEq]

theorem addEntry_spec {vss : List JStr} {g : Graph} {seen : List JStr} {e : Entry}
    (hinv : Inv vss g seen) (hvs : ∀ v, v ∈ e.versions → v ∈ vss) :
    match addEntry g e with
    | some g' => ∃ seen', Inv vss g' seen' ∧
        (∀ x, x ∈ seen' ↔ (x ∈ seen ∨ (x ∈ e.versions ∧ x ∈ nodeStrings vss))) ∧
        g'.edges = g.edges ++ (entryEdge vss e).toList ∧
        (∀ ed, entryEdge vss e = some ed → (ed.parent, ed.child) ∉ pairs g.edges) ∧
        (match entryRoot vss e with
         | some r => g.root = none ∧ g'.root = some r
         | none => g'.root = g.root)
    | none => (∃ ed, entryEdge vss e = some ed ∧ (ed.parent, ed.child) ∈ pairs g.edges) ∨
        ((entryRoot vss e).isSome = true ∧ g.root.isSome = true) := by
  obtain ⟨g1, seen1, h1, hinv1, hseen1, he1, hr1⟩ :=
    addNode_pass2 hinv (hvs e.version (by simp [Entry.versions]))
  unfold addEntry
  rw [h1]
  simp only
  cases hp : e.parent with
  | none =>
    simp only [entryEdge, entryRoot, hp, Option.map_none, Option.toList_none, List.append_nil]
    cases hroot : g1.root with
    | some r =>
      simp only
      right
      rw [hr1] at hroot
      simp [hroot]
    | none =>
      simp only
      refine ⟨seen1, ⟨hinv1.vers, hinv1.nodes, hinv1.disj, hinv1.splits, hinv1.sub⟩, ?_, he1, by simp, ?_⟩
      · intro x
        rw [hseen1 x]
        simp only [Entry.versions, hp, Option.toList_none, List.mem_singleton]
        constructor
        · intro h; rcases h with h | ⟨h, h'⟩; exact Or.inl h; exact Or.inr ⟨h, h ▸ h'⟩
        · intro h; rcases h with h | ⟨h, h'⟩; exact Or.inl h; exact Or.inr ⟨h, h ▸ h'⟩
      · rw [hr1] at hroot
        exact ⟨hroot, trivial⟩
  | some parent =>
    obtain ⟨g2, seen2, h2, hinv2, hseen2, he2, hr2⟩ :=
      addNode_pass2 hinv1 (hvs parent (by simp [Entry.versions, hp]))
    simp only [h2, entryEdge, entryRoot, hp, Option.map_some, Option.toList_some]
    have hedges : g2.edges = g.edges := he2.trans he1
    cases hany : g2.edges.any (fun x => x.parent == nodeOf vss parent && x.child == nodeOf vss e.version) with
    | true =>
      simp only [if_true]
      left
      refine ⟨_, rfl, ?_⟩
      rw [hedges] at hany
      exact (any_pair_iff _ _ _).mp hany
    | false =>
      simp only [Bool.false_eq_true, if_false]
      refine ⟨seen2, ⟨hinv2.vers, hinv2.nodes, hinv2.disj, hinv2.splits, hinv2.sub⟩, ?_, by rw [hedges], ?_,
        hr2.trans hr1⟩
      · intro x
        rw [hseen2 x, hseen1 x]
        simp only [Entry.versions, hp, Option.toList_some, List.mem_cons, List.not_mem_nil, or_false]
        constructor
        · intro h
          rcases h with (h | ⟨h, h'⟩) | ⟨h, h'⟩
          · exact Or.inl h
          · exact Or.inr ⟨Or.inl h, h ▸ h'⟩
          · exact Or.inr ⟨Or.inr h, h ▸ h'⟩
        · intro h
          rcases h with h | ⟨h | h, h'⟩
          · exact Or.inl (Or.inl h)
          · exact Or.inl (Or.inr ⟨h, h ▸ h'⟩)
          · exact Or.inr ⟨h, h ▸ h'⟩
      · intro ed hed
        simp only [Option.some.injEq] at hed
        subst hed
        simp only
        intro hmem
        rw [hedges] at hany
        have := (any_pair_iff _ _ _).mpr hmem
        rw [hany] at this
        simp at this

theorem rootBit_le (g : Graph) : rootBit g ≤ 1 := by unfold rootBit; split <;> omega

theorem pairs_append (a b : List Edge) : pairs (a ++ b) = pairs a ++ pairs b := by simp [pairs]

/-- **the second pass**: it fails exactly on a second diff for an edge or a second root -/
theorem addEntries_spec {vss : List JStr} : ∀ (es : List Entry) {g : Graph} {seen : List JStr},
    Inv vss g seen → (∀ e, e ∈ es → ∀ v, v ∈ e.versions → v ∈ vss) →
    match addEntries g es with
    | some g' => ∃ seen', Inv vss g' seen' ∧
        (∀ x, x ∈ seen' ↔ (x ∈ seen ∨ (x ∈ es.flatMap Entry.versions ∧ x ∈ nodeStrings vss))) ∧
        g'.edges = g.edges ++ es.filterMap (entryEdge vss) ∧
        ((pairs g.edges).Nodup → (pairs g'.edges).Nodup) ∧
        rootBit g + (es.filterMap (entryRoot vss)).length ≤ 1 ∧
        g'.root = (match g.root with
          | some r => some r
          | none => (es.filterMap (entryRoot vss)).head?)
    | none => ¬ (pairs (g.edges ++ es.filterMap (entryEdge vss))).Nodup ∨
        2 ≤ rootBit g + (es.filterMap (entryRoot vss)).length := by
  intro es
  induction es with
  | nil =>
    intro g seen hinv _
    simp only [addEntries, List.flatMap_nil, List.filterMap_nil, List.append_nil, List.length_nil, List.head?_nil]
    refine ⟨seen, hinv, by simp, trivial, id, rootBit_le g, ?_⟩
    cases g.root <;> rfl
  | cons e es ih =>
    intro g seen hinv hvs
    have hstep := addEntry_spec (e := e) hinv (hvs e List.mem_cons_self)
    simp only [addEntries]
    cases he : addEntry g e with
    | none =>
      rw [he] at hstep
      simp only at hstep ⊢
      rcases hstep with ⟨ed, hed, hmem⟩ | ⟨h1, h2⟩
      · left
        simp only [List.filterMap_cons, hed, pairs_append]
        intro hnd
        rw [List.nodup_append] at hnd
        exact hnd.2.2 _ hmem (ed.parent, ed.child) (by simp [pairs]) rfl
      · right
        cases hr : entryRoot vss e with
        | none => rw [hr] at h1; simp at h1
        | some r =>
          simp only [List.filterMap_cons, hr, List.length_cons, rootBit, h2, if_true]
          omega
    | some g1 =>
      rw [he] at hstep
      simp only at hstep ⊢
      obtain ⟨seen1, hinv1, hseen1, hedge1, hfresh, hroot1⟩ := hstep
      have hrest := ih hinv1 (fun e' he' => hvs e' (List.mem_cons_of_mem _ he'))
      have hlist : g1.edges ++ es.filterMap (entryEdge vss) = g.edges ++ (e :: es).filterMap (entryEdge vss) := by
        rw [hedge1, List.filterMap_cons]
        cases entryEdge vss e <;> simp
      have hbit : rootBit g1 + (es.filterMap (entryRoot vss)).length =
          rootBit g + ((e :: es).filterMap (entryRoot vss)).length := by
        rw [List.filterMap_cons]
        cases hr : entryRoot vss e with
        | none =>
          rw [hr] at hroot1
          simp only at hroot1 ⊢
          simp only [rootBit, hroot1]
        | some r =>
          rw [hr] at hroot1
          simp only at hroot1 ⊢
          simp only [rootBit, hroot1.1, hroot1.2, List.length_cons, Option.isSome_some, Option.isSome_none, if_true,
            Bool.false_eq_true, if_false]
          omega
      cases hall : addEntries g1 es with
      | none =>
        rw [hall] at hrest
        simp only at hrest ⊢
        rw [← hlist, ← hbit]
        exact hrest
      | some g' =>
        rw [hall] at hrest
        simp only at hrest ⊢
        obtain ⟨seen', hinv', hseen', hedge', hnd', hbit', hroot'⟩ := hrest
        refine ⟨seen', hinv', ?_, by rw [hedge', hlist], ?_, by rw [← hbit]; exact hbit', ?_⟩
        · intro x
          rw [hseen' x, hseen1 x]
          simp only [List.flatMap_cons, List.mem_append]
          constructor
          · intro h
            rcases h with (h | ⟨h, h'⟩) | ⟨h, h'⟩
            · exact Or.inl h
            · exact Or.inr ⟨Or.inl h, h'⟩
            · exact Or.inr ⟨Or.inr h, h'⟩
          · intro h
            rcases h with h | ⟨h | h, h'⟩
            · exact Or.inl (Or.inl h)
            · exact Or.inl (Or.inr ⟨h, h'⟩)
            · exact Or.inr ⟨h, h'⟩
        · intro hnd
          apply hnd'
          rw [hedge1, pairs_append]
          cases hed : entryEdge vss e with
          | none => simpa [pairs] using hnd
          | some ed =>
            simp only [Option.toList_some]
            rw [List.nodup_append]
            refine ⟨hnd, by simp [pairs], ?_⟩
            intro a ha b hb
            simp only [pairs, List.map_cons, List.map_nil, List.mem_singleton] at hb
            subst hb
            intro e'
            subst e'
            exact hfresh ed hed ha
        · rw [hroot', List.filterMap_cons]
          cases hr : entryRoot vss e with
          | none =>
            rw [hr] at hroot1
            simp only at hroot1 ⊢
            rw [hroot1]
          | some r =>
            rw [hr] at hroot1
            simp only at hroot1 ⊢
            rw [hroot1.1, hroot1.2]
            simp

/-! ## the whole scan, on the files in processing order -/

/-- how the scan names the ends of the edge a diff file stands for -/
def edgeAt (vss : List JStr) (e : Edge) : Edge :=
  { e with parent := nodeOf vss e.parent, child := nodeOf vss e.child }

def rootAt (vss : List JStr) (r : JStr × Bytes) : JStr × Bytes := (nodeOf vss r.1, r.2)

theorem nodeEdges_eq (dir : List (JStr × Bytes)) : nodeEdges dir = (dirEdges dir).map (edgeAt (dirVersions dir)) := rfl

theorem parseFile_spec (f : JStr × Bytes) :
    match parseFile f with
    | none => badDiffName f = true
    | some oe => badDiffName f = false ∧ oe.toList.flatMap Entry.versions = fileVersions f ∧
        (∀ vss, oe.toList.filterMap (entryEdge vss) = (fileEdge f).toList.map (edgeAt vss)) ∧
        (∀ vss, oe.toList.filterMap (entryRoot vss) = (fileRoot f).toList.map (rootAt vss)) := by
  unfold parseFile badDiffName fileVersions fileEdge fileRoot
  cases stripSuffix EXT_TINY f.1 with
  | some vs => simp [Entry.versions, entryEdge, entryRoot, rootAt]
  | none =>
    simp only
    cases stripSuffix EXT_DIFF f.1 with
    | none => simp
    | some raw =>
      simp only
      cases splitOnce HASH raw with
      | none => simp
      | some pv =>
        obtain ⟨p, v⟩ := pv
        simp [Entry.versions, entryEdge, entryRoot, edgeAt]

theorem parseFiles_spec : ∀ (files : List (JStr × Bytes)),
    match parseFiles files with
    | none => files.any badDiffName = true
    | some es => files.any badDiffName = false ∧ es.flatMap Entry.versions = dirVersions files ∧
        (∀ vss, es.filterMap (entryEdge vss) = (dirEdges files).map (edgeAt vss)) ∧
        (∀ vss, es.filterMap (entryRoot vss) = (dirRoots files).map (rootAt vss)) := by
  intro files
  induction files with
  | nil => simp [parseFiles, dirVersions, dirEdges, dirRoots]
  | cons f fs ih =>
    have hf := parseFile_spec f
    simp only [parseFiles]
    cases hp : parseFile f with
    | none => rw [hp] at hf; simp only at hf ⊢; simp [hf]
    | some oe =>
      rw [hp] at hf
      simp only at hf ⊢
      obtain ⟨hb, hv, he, hr⟩ := hf
      cases hps : parseFiles fs with
      | none => rw [hps] at ih; simp only at ih ⊢; simp [ih]
      | some es =>
        rw [hps] at ih
        simp only at ih ⊢
        obtain ⟨hb', hv', he', hr'⟩ := ih
        refine ⟨by simp [hb, hb'], ?_, ?_, ?_⟩
        · simp only [List.flatMap_append, hv, hv', dirVersions, List.flatMap_cons]
        · intro vss
          simp only [List.filterMap_append, he vss, he' vss, dirEdges, List.filterMap_cons]
          cases fileEdge f <;> simp
        · intro vss
          simp only [List.filterMap_append, hr vss, hr' vss, dirRoots, List.filterMap_cons]
          cases fileRoot f <;> simp

theorem inv_empty_nil : VersionsSpec Graph.empty [] ∧ NodesSpec Graph.empty [] ∧ KeysDisjoint [] :=
  ⟨versionsSpec_empty, ⟨by simp [Graph.empty], by simp [Graph.empty]⟩, by intro v1 h1; simp at h1⟩

/-- **closed form of the scan** of the files `files` (in processing order): it fails exactly on a `.tinydiff` without
`#`, an ambiguous half, a second root or a second diff for an edge; otherwise the lookup table holds every node string
under its keys, the nodes are the node strings, the edges are those of the diff files between the nodes they name -/
theorem scanListed_spec (files : List (JStr × Bytes)) :
    match scanListed files with
    | some g => files.any badDiffName = false ∧ KeysDisjoint (splitsOf (dirVersions files)) ∧
        (dirRoots files).length ≤ 1 ∧ (pairs (nodeEdges files)).Nodup ∧
        VersionsSpec g (nodeStrings (dirVersions files)) ∧ NodesSpec g (nodeStrings (dirVersions files)) ∧
        g.edges = nodeEdges files ∧ g.root = ((dirRoots files).map (rootAt (dirVersions files))).head?
    | none => files.any badDiffName = true ∨ ¬ KeysDisjoint (splitsOf (dirVersions files)) ∨
        2 ≤ (dirRoots files).length ∨ ¬ (pairs (nodeEdges files)).Nodup := by
  have hparse := parseFiles_spec files
  unfold scanListed
  cases hp : parseFiles files with
  | none => rw [hp] at hparse; simp only at hparse ⊢; exact Or.inl hparse
  | some es =>
    rw [hp] at hparse
    simp only at hparse ⊢
    obtain ⟨hbad, hvers, hedges, hroots⟩ := hparse
    rw [hvers]
    -- first pass
    obtain ⟨h0v, h0n, h0d⟩ := inv_empty_nil
    have hpass1 := addNodes_spec ((dirVersions files).filter isSplit) h0v h0n h0d
      (fun x hx => (List.mem_filter.mp hx).2)
    have hS : (dirVersions files).filter isSplit = splitsOf (dirVersions files) := rfl
    rw [hS] at hpass1 ⊢
    simp only [List.append_nil] at hpass1
    cases h1 : addNodes Graph.empty (splitsOf (dirVersions files)) with
    | none => rw [h1] at hpass1; simp only at hpass1 ⊢; exact Or.inr (Or.inl hpass1)
    | some g1 =>
      rw [h1] at hpass1
      simp only at hpass1 ⊢
      obtain ⟨hd1, hv1, hn1, he1, hr1⟩ := hpass1
      have hinv : Inv (dirVersions files) g1 (splitsOf (dirVersions files)) :=
        ⟨hv1, hn1, hd1, fun x hx => hx, fun x hx => by
          obtain ⟨h1, h2⟩ := mem_splitsOf.mp hx
          exact mem_nodeStrings.mpr ⟨h1, Or.inl h2⟩⟩
      have hpass2 := addEntries_spec (vss := dirVersions files) es hinv (by
        intro e he v hv
        rw [← hvers]
        exact List.mem_flatMap.mpr ⟨e, he, hv⟩)
      have hg1e : g1.edges = [] := by rw [he1]; rfl
      have hg1r : g1.root = none := by rw [hr1]; rfl
      have hbit : rootBit g1 = 0 := by simp [rootBit, hg1r]
      rw [hg1e, hedges, hroots, hbit, hg1r, ← nodeEdges_eq, List.nil_append, List.length_map, hvers] at hpass2
      cases h2 : addEntries g1 es with
      | none =>
        rw [h2] at hpass2
        simp only at hpass2 ⊢
        rcases hpass2 with h | h
        · exact Or.inr (Or.inr (Or.inr h))
        · exact Or.inr (Or.inr (Or.inl (by omega)))
      | some g =>
        rw [h2] at hpass2
        simp only at hpass2 ⊢
        obtain ⟨seen', hinv', hseen', hedge', hnd', hbit', hroot'⟩ := hpass2
        have hset : ∀ x, x ∈ seen' ↔ x ∈ nodeStrings (dirVersions files) := by
          intro x
          rw [hseen' x]
          constructor
          · intro h
            rcases h with h | h
            · obtain ⟨h1, h2⟩ := mem_splitsOf.mp h
              exact mem_nodeStrings.mpr ⟨h1, Or.inl h2⟩
            · exact h.2
          · intro h
            exact Or.inr ⟨(mem_nodeStrings.mp h).1, h⟩
        refine ⟨hbad, hd1, by omega, ?_, VersionsSpec_congr hset hinv'.vers, NodesSpec_congr hset hinv'.nodes, hedge',
          hroot'⟩
        rw [← hedge']
        exact hnd' (by simp [pairs])

end VG
