import FeatherModel.Lemmas.CodeBytes

/-!
# `decodeOne` on each instruction shape (the decoder's if-chain evaluated once per opcode class)
-/

namespace CodeDecode

theorem decodeOne_simple {op : Nat} (h : isSimple op = true) (pc : Nat) (rest : Bytes) :
    decodeOne pc (op :: rest) = some (.simple op, 1) := by
  simp [decodeOne, h]

theorem decodeOne_bipush (pc b : Nat) (rest : Bytes) : decodeOne pc (0x10 :: b :: rest) = some (.bipush (s8 b), 2) := by
  simp [decodeOne, isSimple]

theorem decodeOne_sipush (pc a b : Nat) (rest : Bytes) :
    decodeOne pc (0x11 :: a :: b :: rest) = some (.sipush (s16 a b), 3) := by
  simp [decodeOne, isSimple]

theorem decodeOne_ldc (pc b : Nat) (rest : Bytes) : decodeOne pc (0x12 :: b :: rest) = some (.ldc b, 2) := by
  simp [decodeOne, isSimple]

theorem decodeOne_ldc_w (pc a b : Nat) (rest : Bytes) :
    decodeOne pc (0x13 :: a :: b :: rest) = some (.ldc (a * 256 + b), 3) := by
  simp [decodeOne, isSimple]

theorem decodeOne_ldc2_w (pc a b : Nat) (rest : Bytes) :
    decodeOne pc (0x14 :: a :: b :: rest) = some (.ldc2 (a * 256 + b), 3) := by
  simp [decodeOne, isSimple]

theorem decodeOne_goto (pc a b : Nat) (rest : Bytes) :
    decodeOne pc (0xa7 :: a :: b :: rest) = some (.goto ((pc : Int) + s16 a b), 3) := by
  simp [decodeOne, isSimple, isIf]

theorem decodeOne_jsr (pc a b : Nat) (rest : Bytes) :
    decodeOne pc (0xa8 :: a :: b :: rest) = some (.jsr ((pc : Int) + s16 a b), 3) := by
  simp [decodeOne, isSimple, isIf]

theorem decodeOne_goto_w (pc a b c d : Nat) (rest : Bytes) :
    decodeOne pc (0xc8 :: a :: b :: c :: d :: rest) = some (.goto ((pc : Int) + s32 a b c d), 5) := by
  simp [decodeOne, isSimple, isIf]

theorem decodeOne_jsr_w (pc a b c d : Nat) (rest : Bytes) :
    decodeOne pc (0xc9 :: a :: b :: c :: d :: rest) = some (.jsr ((pc : Int) + s32 a b c d), 5) := by
  simp [decodeOne, isSimple, isIf]


theorem decodeOne_if (c : CodeWrite.Cond) (pc a b : Nat) (rest : Bytes) :
    decodeOne pc (c.opcode :: a :: b :: rest) = some (.ifc c.opcode ((pc : Int) + s16 a b), 3) := by
  cases c <;> simp [decodeOne, isSimple, isIf, CodeWrite.Cond.opcode]

theorem negIf_opposite (c : CodeWrite.Cond) : negIf c.opcode = c.opposite.opcode := by
  cases c <;> simp [negIf, CodeWrite.Cond.opcode, CodeWrite.Cond.opposite]

/-- `<t>load_<n>` -/
theorem decodeOne_load_short {kind idx : Nat} (hk : kind ≤ 4) (hi : idx < 4) (pc : Nat) (rest : Bytes) :
    decodeOne pc ((kind * 4 + idx + 0x1a) :: rest) = some (.load kind idx, 1) := by
  have h1 : isSimple (kind * 4 + idx + 0x1a) = false := by simp [isSimple]; omega
  have h2 : kind * 4 + idx ≤ 19 := by omega
  have e1 : (kind * 4 + idx) / 4 = kind := by omega
  have e2 : idx % 4 = idx := by omega
  simp [decodeOne, h1, h2, e1, e2]

/-- `<t>store_<n>` -/
theorem decodeOne_store_short {kind idx : Nat} (hk : kind ≤ 4) (hi : idx < 4) (pc : Nat) (rest : Bytes) :
    decodeOne pc ((kind * 4 + idx + 0x3b) :: rest) = some (.store kind idx, 1) := by
  have h1 : isSimple (kind * 4 + idx + 0x3b) = false := by simp [isSimple]; omega
  have h2 : kind * 4 + idx ≤ 19 := by omega
  have e1 : (kind * 4 + idx) / 4 = kind := by omega
  have e2 : idx % 4 = idx := by omega
  simp [decodeOne, h1, h2, e1, e2]

/-- `<t>load` with a one-byte index -/
theorem decodeOne_load_u8 {kind : Nat} (hk : kind ≤ 4) (pc b : Nat) (rest : Bytes) :
    decodeOne pc ((0x15 + kind) :: b :: rest) = some (.load kind b, 2) := by
  have : kind = 0 ∨ kind = 1 ∨ kind = 2 ∨ kind = 3 ∨ kind = 4 := by omega
  rcases this with rfl | rfl | rfl | rfl | rfl <;> simp [decodeOne, isSimple]

theorem decodeOne_store_u8 {kind : Nat} (hk : kind ≤ 4) (pc b : Nat) (rest : Bytes) :
    decodeOne pc ((0x36 + kind) :: b :: rest) = some (.store kind b, 2) := by
  have : kind = 0 ∨ kind = 1 ∨ kind = 2 ∨ kind = 3 ∨ kind = 4 := by omega
  rcases this with rfl | rfl | rfl | rfl | rfl <;> simp [decodeOne, isSimple]

theorem decodeOne_load_wide {kind : Nat} (hk : kind ≤ 4) (pc a b : Nat) (rest : Bytes) :
    decodeOne pc (0xc4 :: (0x15 + kind) :: a :: b :: rest) = some (.load kind (a * 256 + b), 4) := by
  have : kind = 0 ∨ kind = 1 ∨ kind = 2 ∨ kind = 3 ∨ kind = 4 := by omega
  rcases this with rfl | rfl | rfl | rfl | rfl <;> simp [decodeOne, isSimple]

theorem decodeOne_store_wide {kind : Nat} (hk : kind ≤ 4) (pc a b : Nat) (rest : Bytes) :
    decodeOne pc (0xc4 :: (0x36 + kind) :: a :: b :: rest) = some (.store kind (a * 256 + b), 4) := by
  have : kind = 0 ∨ kind = 1 ∨ kind = 2 ∨ kind = 3 ∨ kind = 4 := by omega
  rcases this with rfl | rfl | rfl | rfl | rfl <;> simp [decodeOne, isSimple]

theorem decodeOne_iinc (pc i c : Nat) (rest : Bytes) :
    decodeOne pc (0x84 :: i :: c :: rest) = some (.iinc i (s8 c), 3) := by
  simp [decodeOne, isSimple]

theorem decodeOne_iinc_wide (pc a b c d : Nat) (rest : Bytes) :
    decodeOne pc (0xc4 :: 0x84 :: a :: b :: c :: d :: rest) = some (.iinc (a * 256 + b) (s16 c d), 6) := by
  simp [decodeOne, isSimple]

theorem decodeOne_ret (pc i : Nat) (rest : Bytes) : decodeOne pc (0xa9 :: i :: rest) = some (.ret i, 2) := by
  simp [decodeOne, isSimple]

theorem decodeOne_ret_wide (pc a b : Nat) (rest : Bytes) :
    decodeOne pc (0xc4 :: 0xa9 :: a :: b :: rest) = some (.ret (a * 256 + b), 4) := by
  simp [decodeOne, isSimple]

theorem decodeOne_cp {op : Nat} (h : isCp op = true) (pc a b : Nat) (rest : Bytes) :
    decodeOne pc (op :: a :: b :: rest) = some (.cp op (a * 256 + b), 3) := by
  have hop : op = 0xb2 ∨ op = 0xb3 ∨ op = 0xb4 ∨ op = 0xb5 ∨ op = 0xb6 ∨ op = 0xb7 ∨ op = 0xb8 ∨ op = 0xbb ∨
      op = 0xbd ∨ op = 0xc0 ∨ op = 0xc1 := by
    simp [isCp] at h; omega
  rcases hop with rfl | rfl | rfl | rfl | rfl | rfl | rfl | rfl | rfl | rfl | rfl <;>
    simp [decodeOne, isSimple, isIf, isCp]

theorem decodeOne_invokeinterface (pc a b c : Nat) (rest : Bytes) :
    decodeOne pc (0xb9 :: a :: b :: c :: 0 :: rest) = some (.invokeinterface (a * 256 + b) c, 5) := by
  simp [decodeOne, isSimple, isIf, isCp]

theorem decodeOne_newarray (pc t : Nat) (rest : Bytes) :
    decodeOne pc (0xbc :: t :: rest) = some (.newarray t, 2) := by
  simp [decodeOne, isSimple, isIf, isCp]

theorem decodeOne_multianewarray (pc a b d : Nat) (rest : Bytes) :
    decodeOne pc (0xc5 :: a :: b :: d :: rest) = some (.multianewarray (a * 256 + b) d, 4) := by
  simp [decodeOne, isSimple, isIf, isCp]

theorem decodeOne_invokedynamic (pc a b : Nat) (rest : Bytes) :
    decodeOne pc (0xba :: a :: b :: 0 :: 0 :: rest) = some (.invokedynamic (a * 256 + b), 5) := by
  simp [decodeOne, isSimple, isIf, isCp]

end CodeDecode
