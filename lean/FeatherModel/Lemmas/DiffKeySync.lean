import FeatherModel.Lemmas.DiffApply

/-!
# `apply` keeps mapping sets well formed (unique keys, entries stored under the key their first name gives)
-/

namespace DiffModel
open AList

section generic
variable {K D T : Type} [BEq K] [LawfulBEq K]

omit [LawfulBEq K] in
theorem mem_keys_insert {k k' : K} {v : T} {m : AList K T} (h : k' ∈ (insert k v m).keys) : k' = k ∨ k' ∈ m.keys := by
  induction m with
  | nil => simp [AList.insert, keys] at h; exact Or.inl h
  | cons e rest ih =>
    obtain ⟨k0, v0⟩ := e
    simp only [AList.insert] at h
    by_cases h0 : (k0 == k) = true
    · simp only [h0, if_true, keys, List.map_cons, List.mem_cons] at h
      simp only [keys, List.map_cons, List.mem_cons]
      exact Or.inr h
    · simp only [h0, Bool.false_eq_true, if_false, keys, List.map_cons, List.mem_cons] at h
      simp only [keys, List.map_cons, List.mem_cons]
      rcases h with h | h
      · exact Or.inr (Or.inl h)
      · rcases ih h with h | h
        · exact Or.inl h
        · exact Or.inr (Or.inr h)

theorem nodup_insert {k : K} {v : T} {m : AList K T} (h : NoDup m) : NoDup (insert k v m) := by
  induction m with
  | nil => simp [AList.insert, NoDup, keys]
  | cons e rest ih =>
    obtain ⟨k0, v0⟩ := e
    unfold NoDup at h ih ⊢
    simp only [keys, List.map_cons, List.nodup_cons] at h
    simp only [AList.insert]
    by_cases h0 : (k0 == k) = true
    · simp only [h0, if_true, keys, List.map_cons, List.nodup_cons]
      exact h
    · simp only [h0, Bool.false_eq_true, if_false, keys, List.map_cons, List.nodup_cons]
      refine ⟨?_, ih h.2⟩
      intro hm
      rcases mem_keys_insert hm with hm | hm
      · subst hm; simp at h0
      · exact h.1 hm

theorem nodup_loop1 (ops : Ops K D T) (ns : Nat) (child : D → T → Option T) :
    ∀ (targets : AList K T) (diffs : AList K D) (results : AList K T) {res : AList K T} {left : AList K D},
      NoDup results → applyLoop1 ops ns child targets diffs results = some (res, left) → NoDup res
  | [], _, _, _, _, hn, h => by
    simp only [applyLoop1, Option.some.injEq, Prod.mk.injEq] at h
    rw [← h.1]; exact hn
  | (key, target) :: rest, diffs, results, res, left, hn, h => by
    simp only [applyLoop1] at h
    cases hs : swapRemove key diffs with
    | none =>
      rw [hs] at h
      exact nodup_loop1 ops ns child rest diffs _ (nodup_insert hn) h
    | some p =>
      obtain ⟨d, diffs'⟩ := p
      rw [hs] at h
      simp only at h
      cases hp : applyPresent ops ns child d target with
      | none => rw [hp] at h; cases h
      | some o =>
        rw [hp] at h
        cases o with
        | none => exact nodup_loop1 ops ns child rest diffs' _ hn h
        | some t' => exact nodup_loop1 ops ns child rest diffs' _ (nodup_insert hn) h

theorem nodup_loop2 (ops : Ops K D T) (ns N : Nat) (child : D → T → Option T) :
    ∀ (diffs : AList K D) (results : AList K T) {res : AList K T},
      NoDup results → applyLoop2 ops ns N child diffs results = some res → NoDup res
  | [], _, _, hn, h => by
    simp only [applyLoop2, Option.some.injEq] at h
    rw [← h]; exact hn
  | (key, d) :: rest, results, res, hn, h => by
    simp only [applyLoop2] at h
    cases ha : applyAbsent ops ns N child key d with
    | none => rw [ha] at h; cases h
    | some t =>
      rw [ha] at h
      exact nodup_loop2 ops ns N child rest _ (nodup_insert hn) h

/-- the result of `apply_diff_map` has unique keys (it is an `IndexMap`) -/
theorem nodup_applyMap (ops : Ops K D T) (ns N : Nat) (child : D → T → Option T)
    {diffs : AList K D} {targets res : AList K T} (h : applyMap ops ns N child diffs targets = some res) : NoDup res := by
  unfold applyMap at h
  cases h1 : applyLoop1 ops ns child targets diffs [] with
  | none => rw [h1] at h; cases h
  | some p =>
    obtain ⟨results, left⟩ := p
    rw [h1] at h
    simp only at h
    exact nodup_loop2 ops ns N child left results
      (nodup_loop1 ops ns child targets diffs [] (by simp [NoDup, keys]) h1) h

/-- **an entry invariant `Q` (indexed by the key) survives `apply_diff_map`** when the child step, the name update and
the creation from the key establish it -/
theorem apply_preserves (ops : Ops K D T) (ns N : Nat) (child : D → T → Option T) (Q : K → T → Prop) (Pd : D → Prop)
    (hchildQ : ∀ k d t t', Pd d → Q k t → child d t = some t' → Q k t')
    (hsetQ : ∀ k t b, ns ≠ 0 → Q k t → Q k (ops.setNames t ((ops.names t).set ns (some b))))
    (hkeyQ : ∀ k b, ns ≠ 0 → (ops.names (ops.fromKey N k))[ns]? = some none →
      Q k (ops.setNames (ops.fromKey N k) ((ops.names (ops.fromKey N k)).set ns (some b))))
    {ds : AList K D} {ts res : AList K T} (hnD : NoDup ds) (hnT : NoDup ts)
    (hPd : ∀ e ∈ ds, Pd e.2) (hT : ∀ e ∈ ts, Q e.1 e.2)
    (h : applyMap ops ns N child ds ts = some res) : NoDup res ∧ ∀ e ∈ res, Q e.1 e.2 := by
  have hnr := nodup_applyMap ops ns N child h
  refine ⟨hnr, ?_⟩
  intro e he
  obtain ⟨k, t'⟩ := e
  have hl : lookup k res = some t' := lookup_of_mem hnr he
  have hs := applyMap_spec ops ns N child ds ts hnD hnT
  rw [h] at hs
  simp only [MapPost] at hs
  have hk := hs k
  rw [applySpecM_eq, hl] at hk
  cases hld : lookup k ds with
  | none =>
    rw [hld] at hk
    simp only [applySpec, Option.some.injEq] at hk
    exact hT (k, t') (mem_of_lookup hk)
  | some d =>
    have hpd : Pd d := hPd (k, d) (mem_of_lookup hld)
    rw [hld] at hk
    cases hlt : lookup k ts with
    | none =>
      rw [hlt] at hk
      simp only [applySpec] at hk
      cases ha : ops.action d with
      | none => rw [ha] at hk; simp at hk
      | remove a => rw [ha] at hk; simp at hk
      | edit a b => rw [ha] at hk; simp at hk
      | add b =>
        rw [ha] at hk
        simp only at hk
        split at hk
        · rename_i hcond
          simp only [Option.map_eq_some_iff, Option.some.injEq] at hk
          obtain ⟨x, hx, rfl⟩ := hk
          exact hchildQ k d _ _ hpd (hkeyQ k b hcond.1 hcond.2) hx
        · cases hk
    | some t =>
      have hq : Q k t := hT (k, t) (mem_of_lookup hlt)
      rw [hlt] at hk
      simp only [applySpec] at hk
      cases ha : ops.action d with
      | none =>
        rw [ha] at hk
        simp only [Option.map_eq_some_iff, Option.some.injEq] at hk
        obtain ⟨x, hx, rfl⟩ := hk
        exact hchildQ k d _ _ hpd hq hx
      | add b =>
        rw [ha] at hk
        simp only at hk
        split at hk
        · rename_i hcond
          simp only [Option.map_eq_some_iff, Option.some.injEq] at hk
          obtain ⟨x, hx, rfl⟩ := hk
          exact hchildQ k d _ _ hpd (hsetQ k t b hcond.1 hq) hx
        · cases hk
      | remove a =>
        rw [ha] at hk
        simp only at hk
        split at hk <;> simp at hk
      | edit a b =>
        rw [ha] at hk
        simp only at hk
        split at hk
        · rename_i hcond
          simp only [Option.map_eq_some_iff, Option.some.injEq] at hk
          obtain ⟨x, hx, rfl⟩ := hk
          exact hchildQ k d _ _ hpd (hsetQ k t b hcond.1 hq) hx
        · cases hk

end generic

/-! ## the levels -/

theorem getElem?_set_zero {α : Type} {l : List α} {ns : Nat} (h : ns ≠ 0) (x : α) : (l.set ns x)[0]? = l[0]? :=
  List.getElem?_set_ne h

theorem fromFirstName_length (N : Nat) (s : JStr) (h : 0 < N) : (fromFirstName N s).length = N := by
  cases N with
  | zero => cases h
  | succ n => simp [fromFirstName]

theorem fromFirstName_pos {N ns : Nat} {s : JStr} {x : Option JStr} (h : (fromFirstName N s)[ns]? = some x) : 0 < N := by
  cases N with
  | zero => simp [fromFirstName] at h
  | succ n => exact Nat.succ_pos n

theorem fromFirstName_zero (N : Nat) (s : JStr) (h : 0 < N) : (fromFirstName N s)[0]? = some (some s) := by
  cases N with
  | zero => cases h
  | succ n => simp [fromFirstName]

theorem params_preserve {ns N : Nat} {ds : AList Nat PDiff} {ts res : AList Nat Param} (hnD : NoDup ds) (hnT : NoDup ts)
    (hT : ∀ e ∈ ts, Param.WF N e.1 e.2) (h : applyMap paramOps ns N applyParam ds ts = some res) :
    NoDup res ∧ ∀ e ∈ res, Param.WF N e.1 e.2 :=
  apply_preserves paramOps ns N applyParam (Param.WF N) (fun _ => True)
    (by
      intro k d t t' _ hq hc
      unfold applyParam at hc
      cases ho : applyOption d.doc t.doc with
      | none => rw [ho] at hc; cases hc
      | some doc => rw [ho] at hc; simp only [Option.some.injEq] at hc; subst hc; exact hq)
    (by intro k t b _ hq; exact ⟨hq.1, by simp [paramOps, hq.2]⟩)
    (by intro k b _ _; exact ⟨rfl, by simp [paramOps]⟩)
    hnD hnT (fun _ _ => trivial) hT h

theorem fields_preserve {ns N : Nat} {ds : AList MemberKey FDiff} {ts res : AList MemberKey Field}
    (hnD : NoDup ds) (hnT : NoDup ts) (hT : ∀ e ∈ ts, Field.WF N e.1 e.2)
    (h : applyMap fieldOps ns N applyField ds ts = some res) : NoDup res ∧ ∀ e ∈ res, Field.WF N e.1 e.2 :=
  apply_preserves fieldOps ns N applyField (Field.WF N) (fun _ => True)
    (by
      intro k d t t' _ hq hc
      unfold applyField at hc
      cases ho : applyOption d.doc t.doc with
      | none => rw [ho] at hc; cases hc
      | some doc => rw [ho] at hc; simp only [Option.some.injEq] at hc; subst hc; exact hq)
    (by
      intro k t b hns hq
      exact ⟨hq.1, by simp [fieldOps, hq.2.1], by simp only [fieldOps]; rw [getElem?_set_zero hns]; exact hq.2.2⟩)
    (by
      intro k b hns hc
      have hN : 0 < N := fromFirstName_pos hc
      exact ⟨rfl, by simp [fieldOps, fromFirstName_length N k.1 hN],
        by simp only [fieldOps]; rw [getElem?_set_zero hns]; exact fromFirstName_zero N k.1 hN⟩)
    hnD hnT (fun _ _ => trivial) hT h

theorem methods_preserve {ns N : Nat} {ds : AList MemberKey MDiff} {ts res : AList MemberKey Method}
    (hnD : NoDup ds) (hnT : NoDup ts) (hPd : ∀ e ∈ ds, NoDup e.2.params) (hT : ∀ e ∈ ts, Method.WF N e.1 e.2)
    (h : applyMap methodOps ns N (applyMethod ns N) ds ts = some res) : NoDup res ∧ ∀ e ∈ res, Method.WF N e.1 e.2 :=
  apply_preserves methodOps ns N (applyMethod ns N) (Method.WF N) (fun d => NoDup d.params)
    (by
      intro k d t t' hd hq hc
      obtain ⟨h1, h2, h3, h4, h5⟩ := hq
      unfold applyMethod at hc
      cases ho : applyOption d.doc t.doc with
      | none => rw [ho] at hc; cases hc
      | some doc =>
        rw [ho] at hc
        simp only at hc
        cases hp : applyMap paramOps ns N applyParam d.params t.params with
        | none => rw [hp] at hc; cases hc
        | some ps =>
          rw [hp] at hc
          simp only [Option.some.injEq] at hc
          subst hc
          obtain ⟨hn, hw⟩ := params_preserve hd h4 h5 hp
          exact ⟨h1, h2, h3, hn, hw⟩)
    (by
      intro k t b hns hq
      obtain ⟨h1, h2, h3, h4, h5⟩ := hq
      exact ⟨h1, by simp [methodOps, h2], by simp only [methodOps]; rw [getElem?_set_zero hns]; exact h3, h4, h5⟩)
    (by
      intro k b hns hc
      have hN : 0 < N := fromFirstName_pos hc
      exact ⟨rfl, by simp [methodOps, fromFirstName_length N k.1 hN],
        by simp only [methodOps]; rw [getElem?_set_zero hns]; exact fromFirstName_zero N k.1 hN,
        by simp [methodOps, NoDup, keys], by intro e he; cases he⟩)
    hnD hnT hPd hT h

theorem classes_preserve {ns N : Nat} {ds : AList JStr CDiff} {ts res : AList JStr Class}
    (hnD : NoDup ds) (hnT : NoDup ts)
    (hPd : ∀ e ∈ ds, NoDup e.2.fields ∧ NoDup e.2.methods ∧ ∀ m ∈ e.2.methods, NoDup m.2.params)
    (hT : ∀ e ∈ ts, Class.WF N e.1 e.2)
    (h : applyMap classOps ns N (applyClass ns N) ds ts = some res) : NoDup res ∧ ∀ e ∈ res, Class.WF N e.1 e.2 :=
  apply_preserves classOps ns N (applyClass ns N) (Class.WF N)
    (fun d => NoDup d.fields ∧ NoDup d.methods ∧ ∀ m ∈ d.methods, NoDup m.2.params)
    (by
      intro k d t t' hd hq hc
      obtain ⟨h1, h2, h3, h4, h5, h6⟩ := hq
      unfold applyClass at hc
      cases ho : applyOption d.doc t.doc with
      | none => rw [ho] at hc; cases hc
      | some doc =>
        rw [ho] at hc
        simp only at hc
        cases hf : applyMap fieldOps ns N applyField d.fields t.fields with
        | none => rw [hf] at hc; cases hc
        | some fs =>
          rw [hf] at hc
          simp only at hc
          cases hm : applyMap methodOps ns N (applyMethod ns N) d.methods t.methods with
          | none => rw [hm] at hc; cases hc
          | some ms =>
            rw [hm] at hc
            simp only [Option.some.injEq] at hc
            subst hc
            obtain ⟨hnf, hwf⟩ := fields_preserve hd.1 h3 h4 hf
            obtain ⟨hnm, hwm⟩ := methods_preserve hd.2.1 h5 hd.2.2 h6 hm
            exact ⟨h1, h2, hnf, hwf, hnm, hwm⟩)
    (by
      intro k t b hns hq
      obtain ⟨h1, h2, h3, h4, h5, h6⟩ := hq
      exact ⟨by simp [classOps, h1], by simp only [classOps]; rw [getElem?_set_zero hns]; exact h2, h3, h4, h5, h6⟩)
    (by
      intro k b hns hc
      have hN : 0 < N := fromFirstName_pos hc
      exact ⟨by simp [classOps, fromFirstName_length N k hN],
        by simp only [classOps]; rw [getElem?_set_zero hns]; exact fromFirstName_zero N k hN,
        by simp [classOps, NoDup, keys], (fun e he => by cases he), by simp [classOps, NoDup, keys], (fun e he => by cases he)⟩)
    hnD hnT hPd hT h

theorem getNamespace_go_lt (name : JStr) : ∀ (l : List JStr) (i j : Nat),
    Mappings.getNamespace.go name l i = some j → j < i + l.length
  | [], _, _, h => by simp [Mappings.getNamespace.go] at h
  | n :: rest, i, j, h => by
    simp only [Mappings.getNamespace.go] at h
    split at h
    · simp only [Option.some.injEq] at h; subst h; simp
    · have := getNamespace_go_lt name rest (i + 1) j h
      simp only [List.length_cons]; omega

theorem getNamespace_lt {m : Mappings} {name : JStr} {ns : Nat} (h : m.getNamespace name = some ns) : ns < m.ns.length := by
  have := getNamespace_go_lt name m.ns 0 ns h
  omega

theorem applyInfo_length {info : Action JStr} {nss nss' : List JStr} {ns : Nat} (h : applyInfo info nss ns = some nss') :
    nss'.length = nss.length := by
  cases info with
  | none => simp only [applyInfo, Option.some.injEq] at h; subst h; rfl
  | add b => cases h
  | remove a => cases h
  | edit a b =>
    simp only [applyInfo] at h
    split at h
    · simp only [Option.some.injEq] at h; subst h; simp
    · cases h

/-- **`apply_to` keeps a mapping set well formed** (in every namespace: what cannot be kept in sync with the keys is refused) -/
theorem applyTo_preserves_wf {d : Diff} {t r : Mappings} {nsName : JStr} (hd : Diff.WF d) (ht : WF t)
    (h : applyTo d t nsName = some r) : WF r := by
  obtain ⟨hnd, hkd⟩ := hd
  obtain ⟨hnt, hwt⟩ := ht
  unfold applyTo at h
  cases hn : t.getNamespace nsName with
  | none => rw [hn] at h; cases h
  | some ns =>
  rw [hn] at h
  simp only [applyAt] at h
  cases hi : applyInfo d.info t.ns ns with
  | none => rw [hi] at h; cases h
  | some nss =>
    rw [hi] at h
    simp only at h
    cases ho : applyOption d.doc t.doc with
    | none => rw [ho] at h; cases h
    | some doc =>
      rw [ho] at h
      simp only at h
      cases hc : applyMap classOps ns t.ns.length (applyClass ns t.ns.length) d.classes t.classes with
      | none => rw [hc] at h; cases h
      | some cs =>
        rw [hc] at h
        simp only [Option.some.injEq] at h
        subst h
        obtain ⟨hnr, hwr⟩ := classes_preserve hnd hnt hkd hwt hc
        refine ⟨hnr, ?_⟩
        intro e he
        simp only
        rw [applyInfo_length hi]
        exact hwr e he

end DiffModel
