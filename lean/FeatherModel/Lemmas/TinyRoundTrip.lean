import FeatherModel.Lemmas.TinyRead
import FeatherModel.Lemmas.TinyHeader

/-! Classes, the whole file, and the canonical form (C03). -/

namespace Tiny

def fieldKey (f : Field) : MemberKey := ((firstName f.names).getD [], f.desc)
def methodKey (m : Method) : MemberKey := ((firstName m.names).getD [], m.desc)
def classKey (c : Class) : JStr := (firstName c.names).getD []

/-- the class entry `read` builds from the lines of `c` -/
def readClass (c : Class) : Class :=
  { names := c.names, doc := c.doc,
    fields := (sortBy fieldLe c.fields.values).map (fun f => (fieldKey f, f)),
    methods := (sortBy methodLe c.methods.values).map (fun m => (methodKey m, readMethod m)) }

/-! ## well-formed maps are determined by their values -/

theorem entries_of_values {K V : Type} (keyOf : V → K) :
    ∀ (m : AList K V), (∀ e ∈ m, keyOf e.2 = e.1) → m = m.values.map (fun v => (keyOf v, v))
  | [], _ => rfl
  | (k, v) :: rest, h => by
    have h0 := h (k, v) List.mem_cons_self
    simp only at h0
    simp only [AList.values, List.map_cons, h0]
    congr 1
    exact entries_of_values keyOf rest (fun e he => h e (List.mem_cons_of_mem _ he))

theorem sortKV_of_values {K V : Type} (le : V → V → Bool) (keyOf : V → K) (m : AList K V)
    (h : ∀ e ∈ m, keyOf e.2 = e.1) :
    sortKV le m = (sortBy le m.values).map (fun v => (keyOf v, v)) := by
  conv => lhs; rw [entries_of_values keyOf m h]
  unfold sortKV
  rw [← sortBy_map (le := le) (le' := fun a b : K × V => le a.2 b.2) (fun v => (keyOf v, v)) (fun _ _ => rfl)]

theorem wfMethod_keys {m : Method} (h : wfMethod m = true) : ∀ e ∈ m.params, (fun p : Param => p.index) e.2 = e.1 := by
  simp only [wfMethod, Bool.and_eq_true, List.all_eq_true] at h
  intro e he
  have := h.2 e he
  simpa using (eq_of_beq this).symm

theorem readMethod_eq {m : Method} (h : wfMethod m = true) : readMethod m = canonMethod m := by
  unfold readMethod canonMethod
  rw [sortKV_of_values paramLe (fun p => p.index) m.params (wfMethod_keys h)]

theorem wfClass_field_keys {c : Class} (h : wfClass c = true) : ∀ e ∈ c.fields, fieldKey e.2 = e.1 := by
  simp only [wfClass, Bool.and_eq_true, List.all_eq_true] at h
  rintro ⟨⟨k1, k2⟩, f⟩ he
  have := h.1.1.2 ((k1, k2), f) he
  simp only [Bool.and_eq_true, beq_iff_eq] at this
  simp [fieldKey, this.1, this.2]

theorem wfClass_method_keys {c : Class} (h : wfClass c = true) : ∀ e ∈ c.methods, methodKey e.2 = e.1 := by
  simp only [wfClass, Bool.and_eq_true, List.all_eq_true] at h
  rintro ⟨⟨k1, k2⟩, f⟩ he
  have := h.2 ((k1, k2), f) he
  simp only [Bool.and_eq_true, beq_iff_eq] at this
  simp [methodKey, this.1.1, this.1.2]

theorem wf_class_keys {m : Mappings} (h : wf m = true) : ∀ e ∈ m.classes, classKey e.2 = e.1 := by
  simp only [wf, Bool.and_eq_true, List.all_eq_true] at h
  rintro ⟨k, c⟩ he
  have := h.2 (k, c) he
  simp only [Bool.and_eq_true, beq_iff_eq] at this
  simp [classKey, this.1]

theorem readClass_eq {c : Class} (h : wfClass c = true) : readClass c = canonClass c := by
  unfold readClass canonClass
  rw [sortKV_of_values fieldLe fieldKey c.fields (wfClass_field_keys h)]
  have hm : AList.mapVals canonMethod c.methods = c.methods.values.map (fun m => (methodKey m, canonMethod m)) := by
    conv => lhs; rw [entries_of_values methodKey c.methods (wfClass_method_keys h)]
    simp [AList.mapVals, List.map_map, Function.comp_def]
  have hs : sortKV methodLe (AList.mapVals canonMethod c.methods)
      = (sortBy methodLe c.methods.values).map (fun m => (methodKey m, canonMethod m)) := by
    rw [hm]
    unfold sortKV
    rw [← sortBy_map (le := methodLe) (le' := fun a b : MemberKey × Method => methodLe a.2 b.2)
      (fun m => (methodKey m, canonMethod m)) (fun _ _ => rfl)]
  rw [hs]
  congr 1
  apply List.map_congr_left
  intro m hm
  rw [readMethod_eq (wfClass_method h m (mem_sortBy.mp hm))]

/-! ## one class -/

theorem firstName_getD {names : Names} {k : JStr} (h : firstName names = some k) : (firstName names).getD [] = k := by
  rw [h]; rfl

theorem run_class {n d : Nat} {k : Kind} {cs : AList JStr Class} {c : Class}
    (hc : classOk n c = true) (hwf : wfClass c = true) {key : JStr} (hname : firstName c.names = some key)
    (hnew : AList.contains key cs = false) (rest : List TLine) :
    ∃ d' k', run n { depth := d, kind := k, classes := cs } (classT c ++ rest)
      = run n { depth := d', kind := k', classes := cs ++ [(key, readClass c)] } rest := by
  have hc0 := hc
  simp only [classOk, Bool.and_eq_true, List.all_eq_true] at hc
  simp only [classT, List.cons_append]
  have hctx := classCtx_mk cs key
  have hstep : step n { depth := d, kind := k, classes := cs }
      { indent := 0, first := C_, fields := cellsOf c.names }
      = some { depth := 1, kind := k, classes := cs ++ [(key, { names := c.names, doc := none, fields := [], methods := [] })] } := by
    have hlt : ¬ d < 0 := by omega
    simp only [step, hlt, if_false, if_true]
    simp only [addClass, intoNames_cells hc.1.1, hname, insertNew_new _ _ _ hnew]
    rfl
  rw [run_cons hstep]
  -- the comment
  have hdoc : ∀ tail : List TLine,
      run n { depth := 1, kind := k, classes := cs ++ [(key, { names := c.names, doc := none, fields := [], methods := [] })] } (docT 1 c.doc ++ tail)
      = run n { depth := 1, kind := k, classes := cs ++ [(key, { names := c.names, doc := c.doc, fields := [], methods := [] })] } tail := by
    intro tail
    cases hdd : c.doc with
    | none => rfl
    | some dd =>
      simp only [docT, List.cons_append, List.nil_append]
      apply run_cons
      have h1 : ¬ C_ = F_ := by decide
      have h2 : ¬ C_ = M_ := by decide
      simp only [step, Nat.lt_irrefl, if_false, h1, h2, if_true]
      rw [hctx]
      simp only [classDoc, setDoc_doc 1 dd]
      rfl
  rw [List.append_assoc, hdoc]
  -- the fields
  have hwf0 := hwf
  simp only [wfClass, Bool.and_eq_true, List.all_eq_true] at hwf
  have hfperm := sortBy_perm fieldLe c.fields.values
  have hfkeys := wfClass_field_keys hwf0
  have hfmem : ∀ f ∈ sortBy fieldLe c.fields.values, ∃ e ∈ c.fields, e.2 = f := by
    intro f hf
    have := mem_sortBy.mp hf
    simpa [AList.values] using this
  obtain ⟨d1, k1, hd1, h1⟩ := run_fields hctx ((sortBy methodLe c.methods.values).flatMap methodT ++ rest)
    (sortBy fieldLe c.fields.values) { names := c.names, doc := c.doc, fields := [], methods := [] } 1 k (by omega)
    (fun f hf => by
      obtain ⟨⟨kk, v⟩, he, rfl⟩ := hfmem f hf
      exact hc.1.2 (kk, v) he)
    fieldKey
    (fun f hf => by
      obtain ⟨⟨⟨k1, k2⟩, v⟩, he, rfl⟩ := hfmem f hf
      have := hwf.1.1.2 ((k1, k2), v) he
      simp only [Bool.and_eq_true, beq_iff_eq] at this
      simp [fieldKey, this.1])
    ((hfperm.map _).nodup_iff.mpr (run_method.nodup_of_keysNodup fieldKey hwf.1.1.1 hfkeys))
    (fun _ _ => rfl)
  rw [List.append_assoc, h1]
  -- the methods
  have hmperm := sortBy_perm methodLe c.methods.values
  have hmkeys := wfClass_method_keys hwf0
  have hmmem : ∀ f ∈ sortBy methodLe c.methods.values, ∃ e ∈ c.methods, e.2 = f := by
    intro f hf
    have := mem_sortBy.mp hf
    simpa [AList.values] using this
  obtain ⟨d2, k2, _, h2⟩ := run_methods hctx rest
    (sortBy methodLe c.methods.values)
    { names := c.names, doc := c.doc, fields := [] ++ (sortBy fieldLe c.fields.values).map (fun f => (fieldKey f, f)), methods := [] }
    d1 k1 hd1
    (fun f hf => by
      obtain ⟨⟨kk, v⟩, he, rfl⟩ := hmmem f hf
      exact hc.2 (kk, v) he)
    (fun f hf => wfClass_method hwf0 f (mem_sortBy.mp hf))
    methodKey
    (fun f hf => by
      obtain ⟨⟨⟨k1, k2⟩, v⟩, he, rfl⟩ := hmmem f hf
      have := hwf.2 ((k1, k2), v) he
      simp only [Bool.and_eq_true, beq_iff_eq] at this
      simp [methodKey, this.1.1])
    ((hmperm.map _).nodup_iff.mpr (run_method.nodup_of_keysNodup methodKey hwf.1.2 hmkeys))
    (fun _ _ => rfl)
  refine ⟨d2, k2, ?_⟩
  rw [h2]
  simp only [List.nil_append, readClass]

theorem run_classes {n : Nat} (rest : List TLine) :
    ∀ (cl : List Class) (cs : AList JStr Class) (d : Nat) (k : Kind), (∀ c ∈ cl, classOk n c = true) →
      (∀ c ∈ cl, wfClass c = true) → (∀ c ∈ cl, firstName c.names = some (classKey c)) →
      (cl.map classKey).Nodup → (∀ c ∈ cl, AList.contains (classKey c) cs = false) →
      ∃ d' k', run n { depth := d, kind := k, classes := cs } (cl.flatMap classT ++ rest)
        = run n { depth := d', kind := k', classes := cs ++ cl.map (fun c => (classKey c, readClass c)) } rest
  | [], cs, d, k, _, _, _, _, _ => ⟨d, k, by simp⟩
  | c :: cl, cs, d, k, hok, hwf, hkey, hnd, hnew => by
    simp only [List.flatMap_cons, List.append_assoc]
    obtain ⟨d1, k1, h1⟩ := run_class (d := d) (k := k) (hok c List.mem_cons_self) (hwf c List.mem_cons_self)
      (hkey c List.mem_cons_self) (hnew c List.mem_cons_self) (cl.flatMap classT ++ rest)
    rw [h1]
    simp only [List.map_cons, List.nodup_cons, List.mem_map, not_exists, not_and] at hnd
    obtain ⟨d', k', h⟩ := run_classes rest cl (cs ++ [(classKey c, readClass c)]) d1 k1
      (fun q hq => hok q (List.mem_cons_of_mem _ hq)) (fun q hq => hwf q (List.mem_cons_of_mem _ hq))
      (fun q hq => hkey q (List.mem_cons_of_mem _ hq)) hnd.2
      (fun q hq => by
        rw [contains_append_single, hnew q (List.mem_cons_of_mem _ hq)]
        simp only [Bool.false_or, beq_eq_false_iff_ne, ne_eq]
        exact fun h => hnd.1 q hq h.symm)
    refine ⟨d', k', ?_⟩
    rw [h]
    simp only [List.map_cons, List.append_assoc, List.singleton_append]

/-! ## the whole file -/

theorem header_parsed {ns : List JStr} (h : ∀ s ∈ ns, cellOk s = true) :
    LineOk (headerLine ns) ∧ tinyLine (headerLine ns) = { indent := 0, first := TINY, fields := [50] :: [48] :: ns } := by
  have hl : headerLine ns = mkLine 0 TINY ([50] :: [48] :: ns) := by
    simp [headerLine, mkLine, TINY]
  rw [hl]
  exact mkLine_parsed 0 TINY _ (by simp [TINY]) (by simp [TINY, CellClean]) (fun c hc => by
    rcases List.mem_cons.mp hc with rfl | hc
    · simp [CellClean]
    · rcases List.mem_cons.mp hc with rfl | hc
      · simp [CellClean]
      · exact cellOk_clean (h c hc))

theorem canon_classes {m : Mappings} (h : wf m = true) :
    (canon m).classes = (sortBy classLe m.classes.values).map (fun c => (classKey c, readClass c)) := by
  have hkeys := wf_class_keys h
  have hm : AList.mapVals canonClass m.classes = m.classes.values.map (fun c => (classKey c, canonClass c)) := by
    conv => lhs; rw [entries_of_values classKey m.classes hkeys]
    simp [AList.mapVals, List.map_map, Function.comp_def]
  show sortKV classLe (AList.mapVals canonClass m.classes) = _
  rw [hm]
  unfold sortKV
  rw [← sortBy_map (le := classLe) (le' := fun a b : JStr × Class => classLe a.2 b.2)
    (fun c => (classKey c, canonClass c)) (fun _ _ => rfl)]
  apply List.map_congr_left
  intro c hc
  rw [readClass_eq (wf_class h c (mem_sortBy.mp hc))]

/-- the lines of the classes start at indentation 0: there the header section ends -/
theorem classT_head (cs : List Class) : ∀ l ∈ (cs.flatMap classT).head?, l.indent = 0 := by
  cases cs with
  | nil => simp
  | cons c cs => simp [List.flatMap_cons, classT]

/-- the round trip on the proved domain -/
theorem read_write_writable {n : Nat} {m : Mappings} (h : writable n m = true) :
    read n (write m) = some (canon m) := by
  simp only [writable, Bool.and_eq_true, decide_eq_true_eq, beq_iff_eq, List.all_eq_true, Bool.not_eq_true'] at h
  obtain ⟨⟨⟨⟨hn, hlen⟩, hns⟩, hwf⟩, hcls⟩ := h
  have hcmem : ∀ c ∈ sortBy classLe m.classes.values, ∃ e ∈ m.classes, e.2 = c := by
    intro c hc
    have := mem_sortBy.mp hc
    simpa [AList.values] using this
  -- the lines
  have hhead := header_parsed (ns := m.ns) (fun s hs => (hns s hs).2)
  have hparsed : Parsed (writeLines m)
      ({ indent := 0, first := TINY, fields := [50] :: [48] :: m.ns } ::
        (docT 1 m.doc ++ (sortBy classLe m.classes.values).flatMap classT)) := by
    unfold writeLines
    apply Parsed.cons hhead.1 hhead.2
    apply (docLines_parsed 1 m.doc).append
    apply Parsed.flatMap
    intro c hc
    obtain ⟨⟨k, v⟩, he, rfl⟩ := hcmem c hc
    exact classLines_parsed (hcls (k, v) he)
  have htext : textLines (write m)
      = { indent := 0, first := TINY, fields := [50] :: [48] :: m.ns } ::
          (docT 1 m.doc ++ (sortBy classLe m.classes.values).flatMap classT) := by
    unfold textLines write
    rw [lines_write _ hparsed.ok, hparsed.eq]
  -- the run
  have hperm := sortBy_perm classLe m.classes.values
  have hkeys := wf_class_keys hwf
  have hwf0 := hwf
  simp only [wf, Bool.and_eq_true, List.all_eq_true] at hwf
  obtain ⟨d', k', hrun⟩ := run_classes (n := n) [] (sortBy classLe m.classes.values) [] 0 .field
    (fun c hc => by
      obtain ⟨⟨k, v⟩, he, rfl⟩ := hcmem c hc
      exact hcls (k, v) he)
    (fun c hc => wf_class hwf0 c (mem_sortBy.mp hc))
    (fun c hc => by
      obtain ⟨⟨k, v⟩, he, rfl⟩ := hcmem c hc
      have := hwf.2 (k, v) he
      simp only [Bool.and_eq_true, beq_iff_eq] at this
      simp [classKey, this.1])
    ((hperm.map _).nodup_iff.mpr (run_method.nodup_of_keysNodup classKey hwf.1 hkeys))
    (fun _ _ => rfl)
  simp only [List.append_nil, List.nil_append, run] at hrun
  have hn2 : ¬ n < 2 := by omega
  have hany : m.ns.any (·.isEmpty) = false := by
    rw [Bool.eq_false_iff]
    intro hany
    simp only [List.any_eq_true] at hany
    obtain ⟨s, hs, he⟩ := hany
    rw [(hns s hs).1] at he
    exact Bool.false_ne_true he
  have hsec := headerSec_written m.doc _ (classT_head (sortBy classLe m.classes.values))
  unfold read
  rw [htext]
  simp only [hn2, if_false, ne_eq, not_true_eq_false, hlen, hany, Bool.false_eq_true, hsec, hrun]
  congr 1
  cases m with
  | mk ns doc classes =>
    have := canon_classes hwf0
    simp only [canon] at this ⊢
    rw [this]

end Tiny
