import FeatherModel.Lemmas.RawLen

/-! C20: reading back what `_write` produced returns the value (both reader modes), on the domain `fitsV`. -/

namespace RawLayout

@[simp] theorem Res.bind_ok {α β : Type} (a : α) (f : α → Res β) : (Res.ok a).bind f = f a := rfl

theorem constVals_append (tl : Option Nat) (ctx : List (Nat × Val)) :
    ∀ (cs ds : List Const) (x y : List Nat), constVals tl ctx cs = some x → constVals tl ctx ds = some y →
      constVals tl ctx (cs ++ ds) = some (x ++ y) := by
  intro cs
  induction cs with
  | nil => intro ds x y hx hy; simp [constVals] at hx; subst hx; simpa using hy
  | cons c cs ih =>
    intro ds x y hx hy
    simp only [constVals] at hx
    split at hx
    · rename_i n r hn hr
      simp at hx; subst hx
      simp [constVals, hn, ih ds r y hr hy]
    · cases hx

/-- the constants written are read back, bind exactly what `constsBinds` predicts, and the values read are `constVals` -/
theorem readConsts_write (tl : Option Nat) (ctx : List (Nat × Val)) :
    ∀ (cs : List Const) (binds binds' : Binds) (b r : Bytes),
      constsBinds tl ctx binds cs = some binds' → writeConsts tl ctx cs = some b →
      ∃ vals, constVals tl ctx cs = some vals ∧ readConsts binds cs (b ++ r) = .ok (binds', vals, r) := by
  intro cs
  induction cs with
  | nil =>
    intro binds binds' b r hb hw
    simp [constsBinds] at hb; simp [writeConsts] at hw
    subst hb; subst hw
    exact ⟨[], rfl, rfl⟩
  | cons c cs ih =>
    intro binds binds' b r hb hw
    simp only [writeConsts] at hw
    split at hw
    · rename_i n w hn hw'
      simp at hw; subst hw
      simp only [constsBinds, hn] at hb
      split at hb
      · rename_i hok
        obtain ⟨vals, hv, hr⟩ := ih _ binds' w r hb hw'
        refine ⟨n % c.p.bound :: vals, by simp [constVals, hn, hv], ?_⟩
        have hlt : n % c.p.bound < c.p.bound := Nat.mod_lt _ (by cases c.p <;> simp [Prim.bound])
        simp only [readConsts, List.append_assoc, takeBE_be c.p _ _ hlt, hok, if_true, hr, Res.bind_ok]
      · cases hb
    · cases hw

/-- statement for one value: every type, pool, bindings, fuel -/
def RWOk (strict : Bool) (env : Env) (v : Val) : Prop :=
  ∀ (fuel : Nat) (ty : Ty) (pool : Pool) (binds : Binds) (b r : Bytes), depthV v ≤ fuel →
    fitsV env pool binds ty v = true → writeV env ty v = some b →
    readTy (readG strict env fuel) pool binds ty (b ++ r) = .ok (v, r)

theorem readN_writeAll (env : Env) (rd : Bytes → Res (Val × Bytes)) (el : Ty) :
    ∀ (vs : List Val) (b r : Bytes),
      (∀ v ∈ vs, ∀ a r', writeV env el v = some a → rd (a ++ r') = .ok (v, r')) →
      writeAll env el vs = some b → readN rd vs.length (b ++ r) = .ok (vs, r) := by
  intro vs
  induction vs with
  | nil => intro b r _ hw; simp [writeAll] at hw; subst hw; rfl
  | cons v vs ih =>
    intro b r hall hw
    simp only [writeAll] at hw
    split at hw
    · rename_i a w ha hw'
      simp at hw; subst hw
      simp only [List.length_cons, readN, List.append_assoc, hall v (by simp) a _ ha, Res.bind_ok,
        ih w r (fun x hx => hall x (by simp [hx])) hw']
    · cases hw

/-- the slot-counting loop reads back what `writeAll` wrote, when started with the slots of the items -/
theorem readSlots_writeAll (env : Env) (wide : List Nat) (rd : Bytes → Res (Val × Bytes)) (el : Ty) :
    ∀ (vs : List Val) (b r : Bytes),
      (∀ v ∈ vs, ∀ a r', writeV env el v = some a → rd (a ++ r') = .ok (v, r')) →
      writeAll env el vs = some b → readSlots wide rd (slotsAll wide vs) (b ++ r) = .ok (vs, r) := by
  intro vs
  induction vs with
  | nil => intro b r _ hw; simp [writeAll] at hw; subst hw; rfl
  | cons v vs ih =>
    intro b r hall hw
    simp only [writeAll] at hw
    split at hw
    · rename_i a w ha hw'
      simp at hw; subst hw
      have hrec := ih w r (fun x hx => hall x (by simp [hx])) hw'
      have hv := hall v (by simp) a (w ++ r) ha
      cases hwd : isWide wide v with
      | true =>
        have : slotsAll wide (v :: vs) = (slotsAll wide vs + 1) + 1 := by simp [slotsAll, slotsV, hwd]; omega
        rw [this]
        simp only [readSlots, List.append_assoc, hv, Res.bind_ok, hwd, if_true, hrec]
      | false =>
        have : slotsAll wide (v :: vs) = slotsAll wide vs + 1 := by simp [slotsAll, slotsV, hwd]; omega
        rw [this]
        simp only [readSlots, List.append_assoc, hv, Res.bind_ok, hwd, hrec]
        simp
    · cases hw

theorem depthAll_le {vs : List Val} {n : Nat} (h : depthAll vs ≤ n) : ∀ v ∈ vs, depthV v ≤ n := by
  induction vs with
  | nil => intro v hv; cases hv
  | cons w ws ih =>
    intro v hv
    simp only [depthAll] at h
    cases hv with
    | head => omega
    | tail _ hm => exact ih (by omega) v hm

theorem fitsAll_mem {env : Env} {pool : Pool} {binds : Binds} {el : Ty} {vs : List Val}
    (h : fitsAll env pool binds el vs = true) : ∀ v ∈ vs, fitsV env pool binds el v = true := by
  induction vs with
  | nil => intro v hv; cases hv
  | cons w ws ih =>
    intro v hv
    simp only [fitsAll, Bool.and_eq_true] at h
    cases hv with
    | head => exact h.1
    | tail _ hm => exact ih h.2 v hm

/-- the `match tag { … }` picks the variant `selectIdx` names -/
theorem selectVariant_idx (utf8 : Nat) (wide : List Nat) (pool : Pool) (tag : Nat) :
    ∀ (vs : List Variant) (i j : Nat) (v : Variant), selectVariant utf8 wide pool tag vs i = .ok (j, v) →
      i ≤ j ∧ vs[j - i]? = some v := by
  intro vs
  induction vs with
  | nil => intro i j v h; simp [selectVariant] at h
  | cons w ws ih =>
    intro i j v h
    simp only [selectVariant] at h
    have hrec : selectVariant utf8 wide pool tag ws (i + 1) = .ok (j, v) → i ≤ j ∧ (w :: ws)[j - i]? = some v := by
      intro h'
      obtain ⟨h1, h2⟩ := ih (i + 1) j v h'
      refine ⟨by omega, ?_⟩
      have : j - i = (j - (i + 1)) + 1 := by omega
      rw [this]; simpa using h2
    split at h
    · split at h
      · simp at h; obtain ⟨rfl, rfl⟩ := h; simp
      · split at h
        · simp at h; obtain ⟨rfl, rfl⟩ := h; simp
        · exact hrec h
        · cases h
        · cases h
        · cases h
    · exact hrec h

theorem selectVariant_of_idx (utf8 : Nat) (wide : List Nat) (pool : Pool) (tag : Nat) (vs : List Variant) (k : Nat)
    (v : Variant) (h1 : selectIdx utf8 wide pool tag vs = some k) (h2 : vs[k]? = some v) :
    selectVariant utf8 wide pool tag vs 0 = .ok (k, v) := by
  unfold selectIdx at h1
  split at h1
  · rename_i i w hs
    simp at h1; subst h1
    obtain ⟨_, h3⟩ := selectVariant_idx utf8 wide pool tag vs 0 i w hs
    simp at h3
    rw [h2] at h3; simp at h3; subst h3
    exact hs
  · cases h1

theorem readFields_write (strict : Bool) (env : Env) (fuel : Nat) (tl : Option Nat) (ctx : List (Nat × Val)) :
    ∀ (fds : List Field) (vs : List Val) (pool : Pool) (binds : Binds) (b r : Bytes),
      (∀ v ∈ vs, RWOk strict env v) → depthAll vs ≤ fuel →
      fitsFields env tl ctx pool binds fds vs = true → writeFields env tl ctx fds vs = some b →
      ∃ tr, constVals tl ctx (allPost fds) = some tr ∧
        readFields (readG strict env fuel) pool binds fds (b ++ r) = .ok (vs, tr, r) := by
  intro fds
  induction fds with
  | nil =>
    intro vs pool binds b r _ _ hf hw
    cases vs with
    | nil => simp [writeFields] at hw; subst hw; exact ⟨[], rfl, rfl⟩
    | cons v vs => simp [writeFields] at hw
  | cons f fds ih =>
    intro vs pool binds b r hall hd hf hw
    cases vs with
    | nil => simp [writeFields] at hw
    | cons v vs =>
      have hdv : depthV v ≤ fuel := depthAll_le hd v (by simp)
      have hdvs : depthAll vs ≤ fuel := by simp only [depthAll] at hd; omega
      have hall' : ∀ w ∈ vs, RWOk strict env w := fun w hw => hall w (by simp [hw])
      simp only [writeFields] at hw
      split at hw
      · rename_i a c w ha hc hw'
        simp at hw; subst hw
        simp only [fitsFields] at hf
        cases hk : f.kind with
        | field ty sp =>
          rw [hk] at ha hf; simp only at ha hf
          simp only [Bool.and_eq_true] at hf
          obtain ⟨hfv, hf2⟩ := hf
          split at hf2
          · rename_i b2 hcb
            obtain ⟨t1, ht1, hr1⟩ := readConsts_write tl ctx f.post _ b2 c (w ++ r) hcb hc
            obtain ⟨t2, ht2, hr2⟩ := ih vs _ b2 w r hall' hdvs hf2 hw'
            refine ⟨t1 ++ t2, by simp only [allPost]; exact constVals_append tl ctx _ _ _ _ ht1 ht2, ?_⟩
            simp only [readFields, hk, List.append_assoc, hall v (by simp) fuel ty pool binds a _ hdv hfv ha,
              Res.bind_ok, hr1, hr2]
          · cases hf2
        | nowrite p e =>
          rw [hk] at ha hf; simp only at ha hf
          cases v with
          | list l => simp at ha
          | node k l => simp at ha
          | num n =>
            simp at ha; subst ha
            split at hf
            · rename_i n' m hv hm
              cases hv
              simp only [Bool.and_eq_true, beq_iff_eq] at hf
              obtain ⟨rfl, hf2⟩ := hf
              split at hf2
              · rename_i b2 hcb
                obtain ⟨t1, ht1, hr1⟩ := readConsts_write tl ctx f.post _ b2 c (w ++ r) hcb hc
                obtain ⟨t2, ht2, hr2⟩ := ih vs _ b2 w r hall' hdvs hf2 hw'
                refine ⟨t1 ++ t2, by simp only [allPost]; exact constVals_append tl ctx _ _ _ _ ht1 ht2, ?_⟩
                simp only [readFields, hk, hm, List.nil_append, List.append_assoc, Res.bind_ok, hr1, hr2]
              · cases hf2
            · cases hf
      · cases hw

end RawLayout
