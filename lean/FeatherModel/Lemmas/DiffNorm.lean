import FeatherModel.Lemmas.DiffLevels

/-!
# Replacing `Edit(a, a)` by `None` (what the `.tinydiff` reader does) never changes a successful application
-/

namespace DiffModel
open AList

theorem optRel_refl {T : Type} {R : T → T → Prop} (h : ∀ t, R t t) (o : Option T) : OptRel R o o := by
  cases o with
  | none => trivial
  | some x => exact h x

theorem optRel_trans {T : Type} {R : T → T → Prop} (h : ∀ a b c, R a b → R b c → R a c) {x y z : Option T}
    (h1 : OptRel R x y) (h2 : OptRel R y z) : OptRel R x z := by
  cases x <;> cases y <;> cases z <;> simp_all [OptRel]
  exact h _ _ _ h1 h2

theorem set_same {α : Type} {l : List α} {i : Nat} {x : α} (h : l[i]? = some x) : l.set i x = l := by
  apply List.ext_getElem?
  intro j
  by_cases hj : i = j
  · subst hj
    rw [List.getElem?_set_self' ]
    rw [h]
    simp
  · rw [List.getElem?_set_ne hj]

section generic
variable {K D T : Type} [BEq K] [LawfulBEq K]

omit [LawfulBEq K] in
theorem lookup_mapVal (f : D → D) (k : K) (m : AList K D) :
    lookup k (m.map fun e => (e.1, f e.2)) = (lookup k m).map f := by
  induction m with
  | nil => rfl
  | cons e rest ih =>
    obtain ⟨k0, v0⟩ := e
    simp only [List.map_cons, lookup]
    cases (k0 == k) with
    | true => rfl
    | false => simpa using ih

omit [BEq K] [LawfulBEq K] in
theorem nodup_mapVal (f : D → D) {m : AList K D} (h : NoDup m) : NoDup (m.map fun e => (e.1, f e.2)) := by
  unfold NoDup keys at h ⊢
  simpa [List.map_map, Function.comp_def] using h

/-- **normalising the diff entries keeps a successful `apply_diff_map`** (key by key, up to `R` on the children) -/
theorem norm_apply_map (ops : Ops K D T) (ns N : Nat) (child : D → T → Option T) (nrm : D → D) (R : T → T → Prop)
    (Pd : D → Prop) (Pt : T → Prop)
    (hact : ∀ d, ops.action (nrm d) = normAction (ops.action d))
    (hset : ∀ t, ops.setNames t (ops.names t) = t)
    (hPset : ∀ t n, Pt t → Pt (ops.setNames t n)) (hPkey : ∀ k, Pt (ops.fromKey N k))
    (hchild : ∀ d t t', Pd d → Pt t → child d t = some t' → ∃ t'', child (nrm d) t = some t'' ∧ R t'' t')
    (hrefl : ∀ t, R t t)
    {ds : AList K D} {ts res : AList K T} (hnD : NoDup ds) (hnT : NoDup ts)
    (hPd : ∀ e ∈ ds, Pd e.2) (hPt : ∀ e ∈ ts, Pt e.2)
    (h : applyMap ops ns N child ds ts = some res) :
    ∃ res', applyMap ops ns N child (ds.map fun e => (e.1, nrm e.2)) ts = some res' ∧
      ∀ k, OptRel R (lookup k res') (lookup k res) := by
  have hs := applyMap_spec ops ns N child ds ts hnD hnT
  rw [h] at hs
  simp only [MapPost] at hs
  have key : ∀ k, ∃ o, applySpec ops ns N child k (lookup k (ds.map fun e => (e.1, nrm e.2))) (lookup k ts) = some o ∧
      OptRel R o (lookup k res) := by
    intro k
    have hk := hs k
    rw [applySpecM_eq] at hk
    rw [lookup_mapVal]
    cases hld : lookup k ds with
    | none =>
      rw [hld] at hk
      simp only [applySpec, Option.some.injEq] at hk
      exact ⟨lookup k ts, rfl, by rw [hk]; exact optRel_refl hrefl _⟩
    | some d =>
      have hpd : Pd d := hPd (k, d) (mem_of_lookup hld)
      rw [hld] at hk
      cases hlt : lookup k ts with
      | none =>
        rw [hlt] at hk
        simp only [Option.map_some, applySpec, hact] at hk ⊢
        cases ha : ops.action d with
        | none => rw [ha] at hk; simp at hk
        | remove a => rw [ha] at hk; simp at hk
        | edit a b => rw [ha] at hk; simp at hk
        | add b =>
          rw [ha] at hk
          simp only [normAction] at hk ⊢
          split at hk
          · rename_i hcond
            rw [if_pos hcond]
            cases hc : child d (ops.setNames (ops.fromKey N k) ((ops.names (ops.fromKey N k)).set ns (some b))) with
            | none => rw [hc] at hk; simp at hk
            | some t' =>
              rw [hc] at hk
              simp only [Option.map_some, Option.some.injEq] at hk
              obtain ⟨t'', h1, h2⟩ := hchild d _ t' hpd (hPset _ _ (hPkey k)) hc
              exact ⟨some t'', by rw [h1]; rfl, by rw [← hk]; exact h2⟩
          · simp at hk
      | some t =>
        have hpt : Pt t := hPt (k, t) (mem_of_lookup hlt)
        rw [hlt] at hk
        simp only [Option.map_some, applySpec, hact] at hk ⊢
        cases ha : ops.action d with
        | none =>
          rw [ha] at hk
          simp only [normAction] at hk ⊢
          cases hc : child d t with
          | none => rw [hc] at hk; simp at hk
          | some t' =>
            rw [hc] at hk
            simp only [Option.map_some, Option.some.injEq] at hk
            obtain ⟨t'', h1, h2⟩ := hchild d _ t' hpd hpt hc
            exact ⟨some t'', by rw [h1]; rfl, by rw [← hk]; exact h2⟩
        | add b =>
          rw [ha] at hk
          simp only [normAction] at hk ⊢
          split at hk
          · rename_i hcond
            rw [if_pos hcond]
            cases hc : child d (ops.setNames t ((ops.names t).set ns (some b))) with
            | none => rw [hc] at hk; simp at hk
            | some t' =>
              rw [hc] at hk
              simp only [Option.map_some, Option.some.injEq] at hk
              obtain ⟨t'', h1, h2⟩ := hchild d _ t' hpd (hPset _ _ hpt) hc
              exact ⟨some t'', by rw [h1]; rfl, by rw [← hk]; exact h2⟩
          · simp at hk
        | remove a =>
          rw [ha] at hk
          simp only [normAction] at hk ⊢
          split at hk
          · rename_i hcond
            rw [if_pos hcond]
            simp only [Option.some.injEq] at hk
            exact ⟨none, rfl, by rw [← hk]; trivial⟩
          · simp at hk
        | edit a b =>
          rw [ha] at hk
          simp only at hk
          split at hk
          · rename_i hcond
            cases hc : child d (ops.setNames t ((ops.names t).set ns (some b))) with
            | none => rw [hc] at hk; simp at hk
            | some t' =>
              rw [hc] at hk
              simp only [Option.map_some, Option.some.injEq] at hk
              by_cases hab : a = b
              · subst hab
                have hsame : ops.setNames t ((ops.names t).set ns (some a)) = t := by
                  rw [set_same hcond.2, hset]
                rw [hsame] at hc
                obtain ⟨t'', h1, h2⟩ := hchild d _ t' hpd hpt hc
                refine ⟨some t'', ?_, by rw [← hk]; exact h2⟩
                simp only [normAction, if_true]
                rw [h1]; rfl
              · obtain ⟨t'', h1, h2⟩ := hchild d _ t' hpd (hPset _ _ hpt) hc
                refine ⟨some t'', ?_, by rw [← hk]; exact h2⟩
                simp only [normAction, hab, if_false]
                rw [if_pos hcond, h1]; rfl
          · simp at hk
  have hs' := applyMap_spec ops ns N child (ds.map fun e => (e.1, nrm e.2)) ts (nodup_mapVal nrm hnD) hnT
  cases hr : applyMap ops ns N child (ds.map fun e => (e.1, nrm e.2)) ts with
  | none =>
    rw [hr] at hs'
    simp only [MapPost] at hs'
    obtain ⟨k, hk⟩ := hs'
    obtain ⟨o, ho, _⟩ := key k
    rw [applySpecM_eq, ho] at hk
    cases hk
  | some res' =>
    rw [hr] at hs'
    simp only [MapPost] at hs'
    refine ⟨res', rfl, ?_⟩
    intro k
    obtain ⟨o, ho, hrel⟩ := key k
    have := hs' k
    rw [applySpecM_eq, ho] at this
    simp only [Option.some.injEq] at this
    rw [← this]
    exact hrel

end generic

/-! ## the levels -/

theorem norm_applyOption {a : Action JStr} {t r : Option JStr} (h : applyOption a t = some r) :
    applyOption (normAction a) t = some r := by
  cases a with
  | none => exact h
  | add b => exact h
  | remove x => exact h
  | edit x y =>
    simp only [normAction]
    by_cases hxy : x = y
    · subst hxy
      simp only [if_true]
      cases t with
      | none => simp [applyOption] at h
      | some v =>
        simp only [applyOption] at h ⊢
        split at h
        · rename_i hv
          subst hv
          exact h
        · cases h
    · simp only [hxy, if_false]; exact h

theorem norm_applyParam {d : PDiff} {p p' : Param} (h : applyParam d p = some p') :
    applyParam (normParam d) p = some p' := by
  unfold applyParam at h ⊢
  cases ho : applyOption d.doc p.doc with
  | none => rw [ho] at h; simp at h
  | some doc =>
    rw [ho] at h
    simp only [normParam, norm_applyOption ho]
    exact h

theorem norm_applyField {d : FDiff} {f f' : Field} (h : applyField d f = some f') :
    applyField (normField d) f = some f' := by
  unfold applyField at h ⊢
  cases ho : applyOption d.doc f.doc with
  | none => rw [ho] at h; simp at h
  | some doc =>
    rw [ho] at h
    simp only [normField, norm_applyOption ho]
    exact h

theorem methodEqv_refl (m : Method) : MethodEqv m m := ⟨rfl, rfl, rfl, fun _ => rfl⟩

theorem methodEqv_trans (a b c : Method) (h1 : MethodEqv a b) (h2 : MethodEqv b c) : MethodEqv a c :=
  ⟨h1.1.trans h2.1, h1.2.1.trans h2.2.1, h1.2.2.1.trans h2.2.2.1, fun k => (h1.2.2.2 k).trans (h2.2.2.2 k)⟩

theorem classEqv_refl (c : Class) : ClassEqv c c :=
  ⟨rfl, rfl, fun _ => rfl, fun _ => optRel_refl methodEqv_refl _⟩

theorem classEqv_trans (a b c : Class) (h1 : ClassEqv a b) (h2 : ClassEqv b c) : ClassEqv a c :=
  ⟨h1.1.trans h2.1, h1.2.1.trans h2.2.1, fun k => (h1.2.2.1 k).trans (h2.2.2.1 k),
    fun k => optRel_trans methodEqv_trans (h1.2.2.2 k) (h2.2.2.2 k)⟩

theorem mappingsEqv_trans {a b c : Mappings} (h1 : MappingsEqv a b) (h2 : MappingsEqv b c) : MappingsEqv a c :=
  ⟨h1.1.trans h2.1, h1.2.1.trans h2.2.1, fun k => optRel_trans classEqv_trans (h1.2.2 k) (h2.2.2 k)⟩

theorem norm_applyMethod {ns N : Nat} {d : MDiff} {m m' : Method} (hd : NoDup d.params) (hm : NoDup m.params)
    (h : applyMethod ns N d m = some m') :
    ∃ m'', applyMethod ns N (normMethod d) m = some m'' ∧ MethodEqv m'' m' := by
  unfold applyMethod at h
  cases ho : applyOption d.doc m.doc with
  | none => rw [ho] at h; simp at h
  | some doc =>
    rw [ho] at h
    simp only at h
    cases hp : applyMap paramOps ns N applyParam d.params m.params with
    | none => rw [hp] at h; simp at h
    | some ps =>
      rw [hp] at h
      simp only [Option.some.injEq] at h
      subst h
      obtain ⟨ps', hps', hrel⟩ := norm_apply_map paramOps ns N applyParam normParam (fun a b => a = b)
        (fun _ => True) (fun _ => True) (fun _ => rfl) (fun _ => rfl) (fun _ _ _ => trivial) (fun _ => trivial)
        (fun d t t' _ _ hc => ⟨t', norm_applyParam hc, rfl⟩) (fun _ => rfl) hd hm
        (fun _ _ => trivial) (fun _ _ => trivial) hp
      refine ⟨{ m with doc := doc, params := ps' }, ?_, rfl, rfl, rfl, fun k => optRel_eq (hrel k)⟩
      unfold applyMethod
      simp only [normMethod, norm_applyOption ho, hps']

/-- key uniqueness inside a class diff / a class -/
def CDiff.KU (d : CDiff) : Prop := NoDup d.fields ∧ NoDup d.methods ∧ ∀ m ∈ d.methods, NoDup m.2.params
def Class.KU (c : Class) : Prop := NoDup c.fields ∧ NoDup c.methods ∧ ∀ m ∈ c.methods, NoDup m.2.params

theorem norm_applyClass {ns N : Nat} {d : CDiff} {c c' : Class} (hd : CDiff.KU d) (hc : Class.KU c)
    (h : applyClass ns N d c = some c') :
    ∃ c'', applyClass ns N (normClass d) c = some c'' ∧ ClassEqv c'' c' := by
  obtain ⟨hdf, hdm, hdp⟩ := hd
  obtain ⟨hcf, hcm, hcp⟩ := hc
  unfold applyClass at h
  cases ho : applyOption d.doc c.doc with
  | none => rw [ho] at h; simp at h
  | some doc =>
    rw [ho] at h
    simp only at h
    cases hf : applyMap fieldOps ns N applyField d.fields c.fields with
    | none => rw [hf] at h; simp at h
    | some fs =>
      rw [hf] at h
      simp only at h
      cases hm : applyMap methodOps ns N (applyMethod ns N) d.methods c.methods with
      | none => rw [hm] at h; simp at h
      | some ms =>
        rw [hm] at h
        simp only [Option.some.injEq] at h
        subst h
        obtain ⟨fs', hfs', hrelf⟩ := norm_apply_map fieldOps ns N applyField normField (fun a b => a = b)
          (fun _ => True) (fun _ => True) (fun _ => rfl) (fun _ => rfl) (fun _ _ _ => trivial) (fun _ => trivial)
          (fun d t t' _ _ hc => ⟨t', norm_applyField hc, rfl⟩) (fun _ => rfl) hdf hcf
          (fun _ _ => trivial) (fun _ _ => trivial) hf
        obtain ⟨ms', hms', hrelm⟩ := norm_apply_map methodOps ns N (applyMethod ns N) normMethod MethodEqv
          (fun d => NoDup d.params) (fun m => NoDup m.params) (fun _ => rfl) (fun _ => rfl)
          (fun _ _ h => h) (fun _ => nodup_nil)
          (fun d t t' hd ht hc => norm_applyMethod hd ht hc) methodEqv_refl hdm hcm hdp hcp hm
        refine ⟨{ c with doc := doc, fields := fs', methods := ms' }, ?_, rfl, rfl, fun k => optRel_eq (hrelf k), hrelm⟩
        unfold applyClass
        simp only [normClass, norm_applyOption ho, hfs', hms']

/-- **reading a diff back from its text never changes a successful application** (up to `≈`) -/
theorem norm_applyTo {d : Diff} {t r : Mappings} {nsName : JStr} (hd : Diff.WF d) (ht : KeysUnique t)
    (hinfo : d.info = .none) (hdoc : normAction d.doc = .none) (h : applyTo d t nsName = some r) :
    ∃ r', applyTo (normDiff d) t nsName = some r' ∧ MappingsEqv r' r := by
  obtain ⟨hnd, hkd⟩ := hd
  obtain ⟨hnt, hkt⟩ := ht
  unfold applyTo at h ⊢
  cases hn : t.getNamespace nsName with
  | none => rw [hn] at h; simp at h
  | some ns =>
    rw [hn] at h
    simp only [applyAt, hinfo, applyInfo] at h ⊢
    cases ho : applyOption d.doc t.doc with
    | none => rw [ho] at h; simp at h
    | some doc =>
      rw [ho] at h
      simp only at h
      have hdoc' : doc = t.doc := by
        have := norm_applyOption ho
        rw [hdoc] at this
        simp only [applyOption, Option.some.injEq] at this
        exact this.symm
      cases hc : applyMap classOps ns t.ns.length (applyClass ns t.ns.length) d.classes t.classes with
      | none => rw [hc] at h; simp at h
      | some cs =>
        rw [hc] at h
        simp only [Option.some.injEq] at h
        subst h
        obtain ⟨cs', hcs', hrel⟩ := norm_apply_map classOps ns t.ns.length (applyClass ns t.ns.length) normClass ClassEqv
          CDiff.KU Class.KU (fun _ => rfl) (fun _ => rfl)
          (fun _ _ h => h) (fun _ => ⟨nodup_nil, nodup_nil, fun _ hm => by cases hm⟩)
          (fun d t t' hd ht hc => norm_applyClass hd ht hc) classEqv_refl hnd hnt hkd hkt hc
        refine ⟨{ ns := t.ns, doc := t.doc, classes := cs' }, ?_, rfl, hdoc'.symm, hrel⟩
        simp only [normDiff, applyOption, hcs']

end DiffModel
