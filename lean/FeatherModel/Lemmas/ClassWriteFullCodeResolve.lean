import FeatherModel.Model.ClassWriteFull
import FeatherModel.Spec.ClassEncode

/-!
# C02 (whole writer) — `Code.resolve` is the relabelling the writer performs

`Code.resolve` (C01: label ids read back as instruction indices) replaces every label id by
`lookupLabel (labelIndex …) id`; the writer translates the same ids with `labOf … = (lookupLabel …).getD (n + 1)`.
Where `resolve` succeeds the two agree: the resolved code is the code with every label renamed by the writer's `lab`.
-/

namespace ClassWriteFull
open ClassRead ClassRead.Spec

theorem mapM'_map {α β : Type} {f : α → Option β} {g : α → β} : ∀ (xs : List α) {ys : List β},
    (∀ x ∈ xs, ∀ y, f x = some y → y = g x) → mapM' f xs = some ys → ys = xs.map g
  | [], ys, _, h => by simp only [mapM'] at h; cases h; rfl
  | x :: xs, ys, hp, h => by
    simp only [mapM'] at h
    cases hx : f x with
    | none => simp [hx, bind, Option.bind] at h
    | some y =>
      cases hr : mapM' f xs with
      | none => simp [hx, hr, bind, Option.bind] at h
      | some zs =>
        simp only [hx, hr, bind, Option.bind, pure, Option.some.injEq] at h
        subst h
        rw [hp x List.mem_cons_self y hx, mapM'_map xs (fun a ha => hp a (List.mem_cons_of_mem _ ha)) hr]
        rfl

theorem labOf_of_lookup {m : List (Nat × Nat)} {n id k : Nat} (h : lookupLabel m id = some k) : labOf m n id = k := by
  simp [labOf, h]

theorem bind_some_iff {α β : Type} {o : Option α} {f : α → Option β} {b : β} :
    (o >>= f) = some b ↔ ∃ a, o = some a ∧ f a = some b := by
  cases o <;> simp [bind, Option.bind]

/-! ## renaming labels -/

def vtMapL (f : Nat → Nat) : VType → VType
  | .uninit l => .uninit (f l)
  | v => v

def frMapL (f : Nat → Nat) : Frame → Frame
  | .same1 v => .same1 (vtMapL f v)
  | .append vs => .append (vs.map (vtMapL f))
  | .full l s => .full (l.map (vtMapL f)) (s.map (vtMapL f))
  | x => x

def tgMapL (f : Nat → Nat) : Target → Target
  | .localVar t tbl => .localVar t (tbl.map fun e => (f e.1, f e.2.1, e.2.2))
  | .offset t l => .offset t (f l)
  | .offsetArg t l i => .offsetArg t (f l) i
  | x => x

/-- the code with every label id renamed by `f`, the carriers erased -/
def relabel (f : Nat → Nat) (c : Code) : Code :=
  { c with
    insns := c.insns.map (fun e => ⟨none, e.frame.map (frMapL f), mapT f e.insn⟩),
    exceptions := c.exceptions.map (fun e => ⟨f e.start, f e.end_, f e.handler, e.catch_⟩),
    lastLabel := none,
    lines := c.lines.map (fun ls => ls.map fun ln => (f ln.1, ln.2)),
    locals := c.locals.map (fun ls => ls.map fun v => { v with start := f v.start, end_ := f v.end_ }),
    rvta := c.rvta.map (fun a => { a with target := tgMapL f a.target }),
    ritva := c.ritva.map (fun a => { a with target := tgMapL f a.target }) }

variable {m : List (Nat × Nat)} {n : Nat}

theorem insn_resolve_eq {ri ri' : ClassRead.Insn} (h : ri.resolve m = some ri') : ri' = mapT (labOf m n) ri := by
  cases ri with
  | branch op t =>
    obtain ⟨k, hk, h⟩ := bind_some_iff.mp h
    cases h
    simp [mapT, labOf_of_lookup hk]
  | goto t =>
    obtain ⟨k, hk, h⟩ := bind_some_iff.mp h
    cases h
    simp [mapT, labOf_of_lookup hk]
  | jsr t =>
    obtain ⟨k, hk, h⟩ := bind_some_iff.mp h
    cases h
    simp [mapT, labOf_of_lookup hk]
  | tableswitch d lo hi tbl =>
    obtain ⟨k, hk, h⟩ := bind_some_iff.mp h
    obtain ⟨tb, htb, h⟩ := bind_some_iff.mp h
    cases h
    have := mapM'_map (g := labOf m n) tbl (fun x _ y hy => (labOf_of_lookup hy).symm) htb
    simp [mapT, labOf_of_lookup hk, this]
  | lookupswitch d pairs =>
    obtain ⟨k, hk, h⟩ := bind_some_iff.mp h
    obtain ⟨ps, hps, h⟩ := bind_some_iff.mp h
    cases h
    have := mapM'_map (g := fun kt : Int × Nat => (kt.1, labOf m n kt.2)) pairs (fun x _ y hy => by
      obtain ⟨t, ht, hy⟩ := bind_some_iff.mp hy
      cases hy
      simp [labOf_of_lookup ht]) hps
    simp [mapT, labOf_of_lookup hk, this]
  | simple _ | bipush _ | sipush _ | ldc _ | load _ _ | store _ _ | iinc _ _ | ret _ | field _ _ | invokevirtual _
  | invokespecial _ _ | invokestatic _ _ | invokeinterface _ | invokedynamic _ | new _ | newarray _ | anewarray _
  | checkcast _ | instanceof _ | multianewarray _ _ =>
    cases h; rfl

theorem vtype_resolve_eq {v v' : VType} (h : v.resolve m = some v') : v' = vtMapL (labOf m n) v := by
  cases v with
  | uninit l =>
    obtain ⟨k, hk, h⟩ := bind_some_iff.mp h
    cases h
    simp [vtMapL, labOf_of_lookup hk]
  | top | int | float | double | long | null | uninitThis | object _ => cases h; rfl

theorem frame_resolve_eq {f f' : Frame} (h : f.resolve m = some f') : f' = frMapL (labOf m n) f := by
  cases f with
  | same1 v =>
    obtain ⟨v', hv, h⟩ := bind_some_iff.mp h
    cases h
    simp [frMapL, vtype_resolve_eq (n := n) hv]
  | append vs =>
    obtain ⟨vs', hv, h⟩ := bind_some_iff.mp h
    cases h
    simp [frMapL, mapM'_map (g := vtMapL (labOf m n)) vs (fun x _ y hy => vtype_resolve_eq hy) hv]
  | full l s =>
    obtain ⟨l', hl, h⟩ := bind_some_iff.mp h
    obtain ⟨s', hs, h⟩ := bind_some_iff.mp h
    cases h
    simp [frMapL, mapM'_map (g := vtMapL (labOf m n)) l (fun x _ y hy => vtype_resolve_eq hy) hl,
      mapM'_map (g := vtMapL (labOf m n)) s (fun x _ y hy => vtype_resolve_eq hy) hs]
  | same | chop _ => cases h; rfl

theorem target_resolve_eq {t t' : Target} (h : t.resolve m = some t') : t' = tgMapL (labOf m n) t := by
  cases t with
  | localVar tag tbl =>
    obtain ⟨tb, htb, h⟩ := bind_some_iff.mp h
    cases h
    have := mapM'_map (g := fun e : Nat × Nat × Nat => (labOf m n e.1, labOf m n e.2.1, e.2.2)) tbl (fun x _ y hy => by
      obtain ⟨a, b, i⟩ := x
      obtain ⟨a', ha, hy⟩ := bind_some_iff.mp hy
      obtain ⟨b', hb, hy⟩ := bind_some_iff.mp hy
      cases hy
      simp [labOf_of_lookup ha, labOf_of_lookup hb]) htb
    simp [tgMapL, this]
  | offset tag l =>
    obtain ⟨k, hk, h⟩ := bind_some_iff.mp h
    cases h
    simp [tgMapL, labOf_of_lookup hk]
  | offsetArg tag l i =>
    obtain ⟨k, hk, h⟩ := bind_some_iff.mp h
    cases h
    simp [tgMapL, labOf_of_lookup hk]
  | typeParam _ _ | extends_ | implements _ | typeParamBound _ _ _ | field | ret | receiver | formalParam _ | throws _
  | exceptionParam _ => cases h; rfl

/-- **`resolve` = the writer's relabelling** -/
theorem code_resolve_eq {c c' : Code} (h : c.resolve = some c') :
    c' = relabel (labOf (labelIndex c.insns c.lastLabel) c.insns.length) c := by
  unfold Code.resolve at h
  simp only at h
  obtain ⟨insns, h1, h⟩ := bind_some_iff.mp h
  obtain ⟨excs, h2, h⟩ := bind_some_iff.mp h
  obtain ⟨lines, h3, h⟩ := bind_some_iff.mp h
  obtain ⟨locals, h4, h⟩ := bind_some_iff.mp h
  obtain ⟨rvta, h5, h⟩ := bind_some_iff.mp h
  obtain ⟨ritva, h6, h⟩ := bind_some_iff.mp h
  cases h
  generalize labelIndex c.insns c.lastLabel = m at *
  generalize c.insns.length = n at *
  have e1 := mapM'_map (g := fun e : InsnEntry => (⟨none, e.frame.map (frMapL (labOf m n)), mapT (labOf m n) e.insn⟩ : InsnEntry))
    c.insns (fun x _ y hy => by
      unfold InsnEntry.resolve at hy
      obtain ⟨i, hi, hy⟩ := bind_some_iff.mp hy
      rw [insn_resolve_eq (n := n) hi] at hy
      cases hfr : x.frame with
      | none =>
        simp only [hfr] at hy
        cases hy
        rfl
      | some fr =>
        simp only [hfr] at hy
        cases hfr' : Frame.resolve m fr with
        | none => simp [hfr', bind, Option.bind] at hy
        | some fr' =>
          simp only [hfr', Option.map_some, bind, Option.bind, pure, Option.some.injEq] at hy
          subst hy
          simp [frame_resolve_eq (n := n) hfr']) h1
  have e2 := mapM'_map (g := fun e : ExceptionEntry => (⟨labOf m n e.start, labOf m n e.end_, labOf m n e.handler, e.catch_⟩ : ExceptionEntry))
    c.exceptions (fun x _ y hy => by
      obtain ⟨a, ha, hy⟩ := bind_some_iff.mp hy
      obtain ⟨b, hb, hy⟩ := bind_some_iff.mp hy
      obtain ⟨hd, hh, hy⟩ := bind_some_iff.mp hy
      cases hy
      simp [labOf_of_lookup ha, labOf_of_lookup hb, labOf_of_lookup hh]) h2
  have e3 : lines = c.lines.map (fun ls => ls.map fun ln => (labOf m n ln.1, ln.2)) := by
    cases hl : c.lines with
    | none => rw [hl] at h3; cases h3; rfl
    | some ls =>
      rw [hl] at h3
      simp only [resolveLines, Option.map_eq_some_iff] at h3
      obtain ⟨ls', hls, rfl⟩ := h3
      have := mapM'_map (g := fun ln : Nat × Nat => (labOf m n ln.1, ln.2)) ls (fun x _ y hy => by
        obtain ⟨a, ha, hy⟩ := bind_some_iff.mp hy
        cases hy
        simp [labOf_of_lookup ha]) hls
      simp [this]
  have e4 : locals = c.locals.map (fun ls => ls.map fun v => { v with start := labOf m n v.start, end_ := labOf m n v.end_ }) := by
    cases hl : c.locals with
    | none => rw [hl] at h4; cases h4; rfl
    | some ls =>
      rw [hl] at h4
      simp only [resolveLocals, Option.map_eq_some_iff] at h4
      obtain ⟨ls', hls, rfl⟩ := h4
      have := mapM'_map (g := fun v : Lv => ({ v with start := labOf m n v.start, end_ := labOf m n v.end_ } : Lv)) ls
        (fun x _ y hy => by
          obtain ⟨a, ha, hy⟩ := bind_some_iff.mp hy
          obtain ⟨b, hb, hy⟩ := bind_some_iff.mp hy
          cases hy
          simp [labOf_of_lookup ha, labOf_of_lookup hb]) hls
      simp [this]
  have e5 := mapM'_map (g := fun a : TypeAnno => ({ a with target := tgMapL (labOf m n) a.target } : TypeAnno)) c.rvta
    (fun x _ y hy => by
      unfold TypeAnno.resolve at hy
      obtain ⟨t, ht, hy⟩ := bind_some_iff.mp hy
      cases hy
      simp [target_resolve_eq (n := n) ht]) h5
  have e6 := mapM'_map (g := fun a : TypeAnno => ({ a with target := tgMapL (labOf m n) a.target } : TypeAnno)) c.ritva
    (fun x _ y hy => by
      unfold TypeAnno.resolve at hy
      obtain ⟨t, ht, hy⟩ := bind_some_iff.mp hy
      cases hy
      simp [target_resolve_eq (n := n) ht]) h6
  simp only [relabel, e1, e2, e3, e4, e5, e6]

end ClassWriteFull
