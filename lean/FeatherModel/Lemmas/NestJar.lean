import FeatherModel.Lemmas.NestFilter

/-!
# C14 lemmas: the entries of the jar produced by `nest_jar`, attribute synthesis
-/

namespace Nest

theorem lookup_insert' {K V : Type} [BEq K] [LawfulBEq K] (k k' : K) (v : V) (m : AList K V) :
    AList.lookup k (AList.insert k' v m) = if k' == k then some v else AList.lookup k m := by
  induction m with
  | nil => simp [AList.insert, AList.lookup]
  | cons e rest ih =>
    obtain ⟨k0, v0⟩ := e
    simp only [AList.insert]
    by_cases h0 : (k0 == k') = true
    · have : k0 = k' := by simpa using h0
      subst this
      simp only [beq_self_eq_true, if_true, AList.lookup]
      by_cases hk : (k0 == k) = true <;> simp [hk]
    · simp only [h0, AList.lookup, Bool.false_eq_true, if_false]
      by_cases hk : (k0 == k) = true
      · have : k0 = k := by simpa using hk
        subst this
        have h1 : (k' == k0) = false := by
          cases h : (k' == k0) with
          | false => rfl
          | true => exact absurd (by simpa using h : k' = k0) (by intro e; subst e; simp at h0)
        simp [h1]
      · simp only [hk, Bool.false_eq_true, if_false]
        exact ih

section foldInsert
variable {A K V : Type} [BEq K] [LawfulBEq K] (key : A → K) (val : A → V)

/-- a sequence of `IndexMap::insert` calls -/
def insertAll (l : List A) (out : AList K V) : AList K V :=
  l.foldl (fun o x => AList.insert (key x) (val x) o) out

theorem lookup_insertAll_keep (k : K) (v : V) : ∀ (l : List A) (out : AList K V), AList.lookup k out = some v →
    (∀ b ∈ l, key b = k → val b = v) → AList.lookup k (insertAll key val l out) = some v := by
  intro l
  induction l with
  | nil => intro out h _; exact h
  | cons x rest ih =>
    intro out h hv
    simp only [insertAll, List.foldl_cons]
    apply ih
    · rw [lookup_insert']
      by_cases hk : (key x == k) = true
      · have : key x = k := by simpa using hk
        simp [hk, hv x List.mem_cons_self this]
      · simp [hk, h]
    · intro b hb; exact hv b (List.mem_cons_of_mem _ hb)

theorem lookup_insertAll_mem : ∀ (l : List A) (out : AList K V) (a : A), a ∈ l →
    (∀ x ∈ l, ∀ y ∈ l, key x = key y → val x = val y) →
    AList.lookup (key a) (insertAll key val l out) = some (val a) := by
  intro l
  induction l with
  | nil => intro out a h; simp at h
  | cons x rest ih =>
    intro out a ha hinj
    simp only [insertAll, List.foldl_cons]
    by_cases hin : a ∈ rest
    · exact ih _ a hin (fun p hp q hq => hinj p (List.mem_cons_of_mem _ hp) q (List.mem_cons_of_mem _ hq))
    · rcases List.mem_cons.mp ha with rfl | h
      · apply lookup_insertAll_keep key val (key a) (val a) rest
        · rw [lookup_insert']; simp
        · intro b hb e
          exact hinj b (List.mem_cons_of_mem _ hb) a List.mem_cons_self e
      · exact absurd h hin

theorem lookup_insertAll_other (k : K) : ∀ (l : List A) (out : AList K V), (∀ b ∈ l, key b ≠ k) →
    AList.lookup k (insertAll key val l out) = AList.lookup k out := by
  intro l
  induction l with
  | nil => intro out _; rfl
  | cons x rest ih =>
    intro out h
    simp only [insertAll, List.foldl_cons]
    have := ih (AList.insert (key x) (val x) out) (fun b hb => h b (List.mem_cons_of_mem _ hb))
    simp only [insertAll] at this
    rw [this, lookup_insert']
    have : (key x == k) = false := beq_false_of_ne (h x List.mem_cons_self)
    simp [this]

end foldInsert

theorem eq_of_fst_eq_of_nodup {K V : Type} : ∀ {l : List (K × V)}, (l.map Prod.fst).Nodup →
    ∀ a ∈ l, ∀ b ∈ l, a.1 = b.1 → a = b := by
  intro l
  induction l with
  | nil => intro _ a ha; simp at ha
  | cons x rest ih =>
    intro hnd a ha b hb e
    simp only [List.map_cons, List.nodup_cons] at hnd
    rcases List.mem_cons.mp ha with ha1 | ha1
    · rcases List.mem_cons.mp hb with hb1 | hb1
      · rw [ha1, hb1]
      · subst ha1
        exact absurd (by rw [e]; exact List.mem_map.mpr ⟨b, hb1, rfl⟩) hnd.1
    · rcases List.mem_cons.mp hb with hb1 | hb1
      · subst hb1
        exact absurd (by rw [← e]; exact List.mem_map.mpr ⟨a, ha1, rfl⟩) hnd.1
      · exact ih hnd.2 a ha1 b hb1 e

/-! ## `nest_jar(remap = false)` -/

theorem emitCreated_false (this : Nests) (f : JStr → JStr) (v : Nat) : ∀ (names : List JStr) (out : Jar),
    emitCreated false this f v names out =
      some (insertAll (fun name => name ++ DOT_CLASS) (fun name => Entry.cls (addAttrs this (newClass v name))) names out) := by
  intro names
  induction names with
  | nil => intro out; rfl
  | cons name rest ih =>
    intro out
    simp only [emitCreated, emitClass, Bool.false_eq_true, if_false, insertAll, List.foldl_cons]
    rw [ih]
    rfl

theorem emitSource_false (this : Nests) (f : JStr → JStr) : ∀ (jar out : Jar),
    emitSource false this f jar out = some (insertAll (fun e => e.1) (fun e => emitEntry this e.2) jar out) := by
  intro jar
  induction jar with
  | nil => intro out; rfl
  | cons e rest ih =>
    intro out
    obtain ⟨name, ent⟩ := e
    cases ent with
    | dir => simp only [emitSource, insertAll, List.foldl_cons]; rw [ih]; rfl
    | other => simp only [emitSource, insertAll, List.foldl_cons]; rw [ih]; rfl
    | cls c =>
      simp only [emitSource, emitClass, Bool.false_eq_true, if_false, insertAll, List.foldl_cons]
      rw [ih]
      rfl

/-- the jar produced without renaming, in closed form -/
theorem nestJar_false_eq (jar : Jar) (ns : Nests) (out : Jar) (h : nestJar false jar ns = .ok out) :
    ∃ v, minVersion (classesOf jar) = some v ∧
      out = insertAll (fun e => e.1) (fun e => emitEntry (filterRun jar ns).kept e.2) jar
        (insertAll (fun name => name ++ DOT_CLASS)
          (fun name => Entry.cls (addAttrs (filterRun jar ns).kept (newClass v name))) (filterRun jar ns).created []) := by
  unfold nestJar at h
  cases hv : minVersion (classesOf jar) with
  | none => rw [hv] at h; simp at h
  | some v =>
    rw [hv] at h
    simp only at h
    cases ht : jarTable (filterRun jar ns).kept with
    | none => rw [ht] at h; simp at h
    | some table =>
      rw [ht] at h
      simp only [emitCreated_false, emitSource_false, Except.ok.injEq] at h
      exact ⟨v, rfl, h.symm⟩

theorem append_dotclass_inj {a b : JStr} (h : a ++ DOT_CLASS = b ++ DOT_CLASS) : a = b :=
  List.append_cancel_right h

/-! ## attributes -/

theorem addAttrs_none (this : Nests) (c : JClass) (h : get this c.name = none) : addAttrs this c = c := by
  unfold addAttrs
  rw [h]

theorem addAttrs_some (this : Nests) (c : JClass) (n : Nest) (h : get this c.name = some n) :
    addAttrs this c =
      { c with
        innerClasses := some (c.innerClasses.getD [] ++ [innerClassOf n]),
        enclosingMethod :=
          if n.kind = .anonymous ∨ n.kind = .local then some { cls := n.enclClass, method := n.enclMethod }
          else c.enclosingMethod } := by
  unfold addAttrs
  rw [h]
  simp only
  split <;> rfl

/-! ## entry names when renaming -/

theorem stripSuffix_append (s suf : List Nat) : stripSuffix suf (s ++ suf) = some s := by
  unfold stripSuffix
  have h1 : suf.isSuffixOf (s ++ suf) = true := by
    rw [List.isSuffixOf_iff_suffix]
    exact List.suffix_append s suf
  rw [if_pos h1]
  simp

theorem remapEntryName_class (f : JStr → JStr) (c : JStr) : remapEntryName f (c ++ DOT_CLASS) = f c ++ DOT_CLASS := by
  unfold remapEntryName
  rw [stripSuffix_append]

theorem remapClass_name (f : JStr → JStr) (c c' : JClass) (h : remapClass f c = some c') : c'.name = f c.name := by
  unfold remapClass at h
  split at h
  · simp at h
  · split at h
    · simp at h
    · split at h
      · simp at h
      · simp only [Option.some.injEq] at h
        rw [← h]

/-! ## `nest_jar(remap = true)`: entry names and class names -/

theorem insert_new {K V : Type} [BEq K] [LawfulBEq K] (k : K) (v : V) : ∀ (m : AList K V), k ∉ m.map Prod.fst →
    AList.insert k v m = m ++ [(k, v)] := by
  intro m
  induction m with
  | nil => intro _; rfl
  | cons e rest ih =>
    intro h
    obtain ⟨k0, v0⟩ := e
    simp only [List.map_cons, List.mem_cons, not_or] at h
    have : (k0 == k) = false := beq_false_of_ne (fun e => h.1 e.symm)
    simp only [AList.insert, this, Bool.false_eq_true, if_false, List.cons_append]
    rw [ih h.2]

theorem emitClass_true_name (this : Nests) (f : JStr → JStr) (c c' : JClass) (h : emitClass true this f c = some c') :
    c'.name = f c.name := by
  unfold emitClass at h
  simp only [if_true] at h
  have := remapClass_name f _ _ h
  rw [this]
  unfold addAttrs
  split
  · rfl
  · split <;> rfl

theorem emitSource_true_view (this : Nests) (f : JStr → JStr) : ∀ (jar acc out : Jar),
    emitSource true this f jar acc = some out →
    (acc.map Prod.fst ++ jar.map (fun e => (renamedView f e).1)).Nodup →
    out.map nameView = acc.map nameView ++ jar.map (renamedView f) := by
  intro jar
  induction jar with
  | nil => intro acc out h _; simp only [emitSource, Option.some.injEq] at h; subst h; simp
  | cons e rest ih =>
    intro acc out h hnd
    obtain ⟨name, ent⟩ := e
    have hk : ∀ k, k = (renamedView f (name, ent)).1 → k ∉ acc.map Prod.fst := by
      intro k hk hmem
      rw [List.nodup_append] at hnd
      exact hnd.2.2 k hmem k (by simp [hk]) rfl
    have hnd' : ∀ (v : Entry), ((acc ++ [((renamedView f (name, ent)).1, v)]).map Prod.fst ++
        rest.map (fun e => (renamedView f e).1)).Nodup := by
      intro v
      simpa [List.append_assoc] using hnd
    cases ent with
    | dir =>
      simp only [emitSource] at h
      rw [insert_new name Entry.dir acc (hk name rfl)] at h
      have hrec := ih _ out h (hnd' Entry.dir)
      rw [hrec]
      simp [nameView, renamedView]
    | other =>
      simp only [emitSource] at h
      rw [insert_new name Entry.other acc (hk name rfl)] at h
      have hrec := ih _ out h (hnd' Entry.other)
      rw [hrec]
      simp [nameView, renamedView]
    | cls c =>
      simp only [emitSource] at h
      cases hc : emitClass true this f c with
      | none => rw [hc] at h; simp at h
      | some c' =>
        rw [hc] at h
        simp only [if_true] at h
        rw [insert_new (remapEntryName f name) (Entry.cls c') acc (hk _ rfl)] at h
        have hrec := ih _ out h (hnd' (Entry.cls c'))
        rw [hrec]
        simp [nameView, renamedView, emitClass_true_name this f c c' hc]

theorem emitCreated_true_view (this : Nests) (f : JStr → JStr) (v : Nat) : ∀ (names : List JStr) (acc out : Jar),
    emitCreated true this f v names acc = some out →
    (acc.map Prod.fst ++ names.map (fun n => (createdView f n).1)).Nodup →
    out.map nameView = acc.map nameView ++ names.map (createdView f) := by
  intro names
  induction names with
  | nil => intro acc out h _; simp only [emitCreated, Option.some.injEq] at h; subst h; simp
  | cons name rest ih =>
    intro acc out h hnd
    simp only [emitCreated, if_true] at h
    cases hc : emitClass true this f (newClass v name) with
    | none => rw [hc] at h; simp at h
    | some c' =>
      rw [hc] at h
      simp only at h
      have hk : f name ++ DOT_CLASS ∉ acc.map Prod.fst := by
        intro hmem
        rw [List.nodup_append] at hnd
        exact hnd.2.2 _ hmem _ (by simp [createdView]) rfl
      rw [remapEntryName_class, insert_new _ (Entry.cls c') acc hk] at h
      have hrec := ih _ out h (by simpa [List.append_assoc, createdView] using hnd)
      rw [hrec]
      have hn : c'.name = f name := by
        have := emitClass_true_name this f _ c' hc
        simpa [newClass] using this
      simp [nameView, createdView, hn]

theorem nestJar_true_view (jar : Jar) (ns : Nests) (out : Jar) (h : nestJar true jar ns = .ok out) :
    ∃ table, jarTable (filterRun jar ns).kept = some table ∧
      (((filterRun jar ns).created.map (fun n => (createdView (tableMap table) n).1) ++
          jar.map (fun e => (renamedView (tableMap table) e).1)).Nodup →
        out.map nameView = (filterRun jar ns).created.map (createdView (tableMap table)) ++
          jar.map (renamedView (tableMap table))) := by
  unfold nestJar at h
  cases hv : minVersion (classesOf jar) with
  | none => rw [hv] at h; simp at h
  | some v =>
    rw [hv] at h
    simp only at h
    cases ht : jarTable (filterRun jar ns).kept with
    | none => rw [ht] at h; simp at h
    | some table =>
      rw [ht] at h
      simp only at h
      refine ⟨table, rfl, ?_⟩
      intro hnd
      cases hcr : emitCreated true (filterRun jar ns).kept (tableMap table) v (filterRun jar ns).created [] with
      | none => rw [hcr] at h; simp at h
      | some o1 =>
        rw [hcr] at h
        simp only at h
        cases hs : emitSource true (filterRun jar ns).kept (tableMap table) jar o1 with
        | none => rw [hs] at h; simp at h
        | some o =>
          rw [hs] at h
          simp only [Except.ok.injEq] at h
          subst h
          have h1 := emitCreated_true_view _ _ v _ [] o1 hcr (by
            rw [List.nodup_append] at hnd
            simpa using hnd.1)
          simp only [List.map_nil, List.nil_append] at h1
          have hkeys : o1.map Prod.fst = (filterRun jar ns).created.map (fun n => (createdView (tableMap table) n).1) := by
            have := congrArg (List.map Prod.fst) h1
            simpa [List.map_map, Function.comp_def, nameView] using this
          have h2 := emitSource_true_view _ _ jar o1 o hs (by rw [hkeys]; exact hnd)
          rw [h2, h1]

/-- a cyclic table of applied nests is an error in both modes -/
theorem nestJar_table_err (r : Bool) (jar : Jar) (ns : Nests)
    (ht : jarTable (filterRun jar ns).kept = none) : nestJar r jar ns = .error "e" := by
  unfold nestJar
  cases minVersion (classesOf jar) with
  | none => rfl
  | some v => simp only [ht]

/-! ## synthesised attributes after renaming -/

theorem mapOpt_append_singleton {α β : Type} (f : α → Option β) : ∀ (l : List α) (a : α) (r : List β),
    mapOpt f (l ++ [a]) = some r → ∃ r0 b, mapOpt f l = some r0 ∧ f a = some b ∧ r = r0 ++ [b] := by
  intro l
  induction l with
  | nil =>
    intro a r h
    simp only [List.nil_append, mapOpt] at h
    cases hfa : f a with
    | none => rw [hfa] at h; simp at h
    | some b => rw [hfa] at h; simp only [Option.some.injEq] at h; exact ⟨[], b, rfl, rfl, by simp [← h]⟩
  | cons x rest ih =>
    intro a r h
    simp only [List.cons_append, mapOpt] at h
    cases hfx : f x with
    | none => rw [hfx] at h; simp at h
    | some y =>
      rw [hfx] at h
      cases hr : mapOpt f (rest ++ [a]) with
      | none => rw [hr] at h; simp at h
      | some r1 =>
        rw [hr] at h
        simp only [Option.some.injEq] at h
        obtain ⟨r0, b, h1, h2, h3⟩ := ih a r1 hr
        exact ⟨y :: r0, b, by simp only [mapOpt, hfx, h1], h2, by rw [← h, h3]; rfl⟩

theorem remapInner_plain (f : JStr → JStr) (n : Nest) (h1 : n.className.head? ≠ some LBRACK)
    (h2 : n.enclClass.head? ≠ some LBRACK) : remapInner f (innerClassOf n) = some (renamedInnerClass f n) := by
  unfold remapInner innerClassOf renamedInnerClass mapClassAny
  simp only [h1, if_false]
  by_cases hk : n.kind = .inner
  · simp [hk, h2, innerClassOf]
  · simp [hk, innerClassOf]

theorem remapEncl_plain (f : JStr → JStr) (n : Nest) (h2 : n.enclClass.head? ≠ some LBRACK) :
    remapEncl f { cls := n.enclClass, method := n.enclMethod } = renamedEnclMethod f n := by
  unfold remapEncl renamedEnclMethod mapClassAny
  cases hm : n.enclMethod with
  | none => simp [h2]
  | some m => obtain ⟨mn, md⟩ := m; simp [h2]

/-- the attributes synthesised for a nested class carry the NEW names after renaming -/
theorem emitClass_true_attrs (this : Nests) (f : JStr → JStr) (c c' : JClass) (n : Nest)
    (h : emitClass true this f c = some c') (hg : get this c.name = some n)
    (h1 : n.className.head? ≠ some LBRACK) (h2 : n.enclClass.head? ≠ some LBRACK) :
    (∃ ics, c'.innerClasses = some (ics ++ [renamedInnerClass f n])) ∧
    ((n.kind = .anonymous ∨ n.kind = .local) → ∃ em, renamedEnclMethod f n = some em ∧ c'.enclosingMethod = some em) := by
  unfold emitClass at h
  simp only [if_true] at h
  rw [addAttrs_some this c n hg] at h
  unfold remapClass at h
  simp only at h
  split at h
  · simp at h
  · split at h
    · simp at h
    · rename_i ics hics
      split at h
      · simp at h
      · rename_i em hem
        simp only [Option.some.injEq] at h
        subst h
        simp only [mapMOpt, Option.map_eq_some_iff] at hics
        obtain ⟨l, hl, e⟩ := hics
        obtain ⟨r0, b, _, hb, hr⟩ := mapOpt_append_singleton _ _ _ _ hl
        rw [remapInner_plain f n h1 h2] at hb
        simp only [Option.some.injEq] at hb
        refine ⟨⟨r0, by rw [← e, hr, hb]⟩, ?_⟩
        intro hk
        simp only [hk, if_true, mapMOpt, Option.map_eq_some_iff] at hem
        obtain ⟨em', hem', e2⟩ := hem
        rw [remapEncl_plain f n h2] at hem'
        exact ⟨em', hem', e2.symm⟩

end Nest
