import FeatherModel.Lemmas.BridgeBase
import FeatherModel.Model.BridgeSpec

/-! The insertion loop of `add_specialized_methods_to_mappings` (C15): what changes, what does not. -/

namespace Bridge

/-- effect of one pair on the entry `k` of class `c` (`o` = the entry before) -/
def stepF (namedOf : MRef → Option JStr) (p : MRef × MRef) (c : JStr) (k : MemberKey) (o : Option Method) : Option Method :=
  if touches c k p then some (newEntry o p.2 ((namedOf p.1).getD [])) else o

/-- effect of a list of pairs, in order -/
def foldF (namedOf : MRef → Option JStr) : List (MRef × MRef) → JStr → MemberKey → Option Method → Option Method
  | [], _, _, o => o
  | p :: ps, c, k, o => foldF namedOf ps c k (stepF namedOf p c k o)

/-- relation between a class entry before and after: only the method map changes, entry by entry as `f` says;
the old method keys stay in place, new keys are appended -/
structure ClassRel (f : MemberKey → Option Method → Option Method) (cl cl' : Class) : Prop where
  names : cl'.names = cl.names
  doc : cl'.doc = cl.doc
  fields : cl'.fields = cl.fields
  order : ∃ extra, cl'.methods.map Prod.fst = cl.methods.map Prod.fst ++ extra
  entries : ∀ k, AList.lookup k cl'.methods = f k (AList.lookup k cl.methods)

structure MapRel (F : JStr → MemberKey → Option Method → Option Method) (m m' : Mappings) : Prop where
  ns : m'.ns = m.ns
  doc : m'.doc = m.doc
  keys : m'.classes.map Prod.fst = m.classes.map Prod.fst
  absent : ∀ c, AList.lookup c m.classes = none → AList.lookup c m'.classes = none
  present : ∀ c cl, AList.lookup c m.classes = some cl →
    ∃ cl', AList.lookup c m'.classes = some cl' ∧ ClassRel (F c) cl cl'

theorem MapRel.refl (m : Mappings) : MapRel (fun _ _ o => o) m m :=
  ⟨rfl, rfl, rfl, fun _ h => h, fun _ cl h => ⟨cl, h, ⟨rfl, rfl, rfl, ⟨[], by simp⟩, fun _ => rfl⟩⟩⟩

theorem MapRel.trans {F G : JStr → MemberKey → Option Method → Option Method} {m m1 m2 : Mappings}
    (h1 : MapRel F m m1) (h2 : MapRel G m1 m2) : MapRel (fun c k o => G c k (F c k o)) m m2 := by
  refine ⟨h2.ns.trans h1.ns, h2.doc.trans h1.doc, h2.keys.trans h1.keys, fun c h => h2.absent c (h1.absent c h), ?_⟩
  intro c cl h
  obtain ⟨cl1, hl1, r1⟩ := h1.present c cl h
  obtain ⟨cl2, hl2, r2⟩ := h2.present c cl1 hl1
  refine ⟨cl2, hl2, ⟨r2.names.trans r1.names, r2.doc.trans r1.doc, r2.fields.trans r1.fields, ?_, ?_⟩⟩
  · obtain ⟨e1, he1⟩ := r1.order
    obtain ⟨e2, he2⟩ := r2.order
    exact ⟨e1 ++ e2, by rw [he2, he1, List.append_assoc]⟩
  · intro k
    rw [r2.entries k, r1.entries k]

theorem applyOne_rel (namedOf : MRef → Option JStr) (m m' : Mappings) (b s : MRef)
    (h : applyOne namedOf m b s = some m') : MapRel (stepF namedOf (b, s)) m m' := by
  unfold applyOne at h
  cases hn : namedOf b with
  | none => simp [hn] at h
  | some named =>
    simp only [hn] at h
    cases hl : AList.lookup b.cls m.classes with
    | none =>
      simp [hl] at h
      subst h
      refine ⟨rfl, rfl, rfl, fun _ h => h, ?_⟩
      intro c cl hc
      have hne : (b.cls == c) = false := by
        simp
        intro e
        rw [e, hc] at hl
        simp at hl
      exact ⟨cl, hc, ⟨rfl, rfl, rfl, ⟨[], by simp⟩, fun k => by simp [stepF, touches, hne]⟩⟩
    | some cl =>
      simp only [hl] at h
      by_cases he : s.name.isEmpty = true
      · simp [he] at h
      · simp only [he] at h
        simp at h
        subst h
        refine ⟨rfl, rfl, ?_, ?_, ?_⟩
        · exact keys_upsert_of_some _ hl
        · intro c hc
          have hne : c ≠ b.cls := by
            intro e
            rw [e, hl] at hc
            simp at hc
          simp only [lookup_upsert_ne _ _ hne]
          exact hc
        · intro c cl0 hc
          by_cases hcb : c = b.cls
          · subst hcb
            rw [hl] at hc
            cases hc
            refine ⟨_, lookup_upsert_self _ _ _, ⟨rfl, rfl, rfl, ?_, ?_⟩⟩
            · simp only
              cases hk : AList.lookup (s.name, s.desc) cl.methods with
              | none => exact ⟨[(s.name, s.desc)], by rw [upsert_of_none _ hk]; simp⟩
              | some v => exact ⟨[], by rw [keys_upsert_of_some _ hk]; simp⟩
            · intro k
              simp only [stepF, touches, beq_self_eq_true, Bool.true_and, hn, Option.getD_some]
              by_cases hkk : k = (s.name, s.desc)
              · subst hkk
                simp [lookup_upsert_self]
              · have : ((s.name, s.desc) == k) = false := by simp; exact fun e => hkk e.symm
                rw [lookup_upsert_ne _ _ hkk]
                simp [this]
          · refine ⟨cl0, by rw [lookup_upsert_ne _ _ hcb]; exact hc, ⟨rfl, rfl, rfl, ⟨[], by simp⟩, ?_⟩⟩
            intro k
            have : (b.cls == c) = false := by simp; exact fun e => hcb e.symm
            simp [stepF, touches, this]

theorem applyPairs_rel (namedOf : MRef → Option JStr) :
    ∀ (ps : List (MRef × MRef)) (m m' : Mappings), applyPairs namedOf ps m = some m' →
      MapRel (foldF namedOf ps) m m' := by
  intro ps
  induction ps with
  | nil => intro m m' h; simp [applyPairs] at h; subst h; exact MapRel.refl m
  | cons p rest ih =>
    obtain ⟨b, s⟩ := p
    intro m m' h
    simp only [applyPairs] at h
    cases h1 : applyOne namedOf m b s with
    | none => simp [h1] at h
    | some m1 =>
      simp [h1] at h
      exact MapRel.trans (F := stepF namedOf (b, s)) (G := foldF namedOf rest) (applyOne_rel namedOf m m1 b s h1) (ih m1 m' h)

theorem applyPairs_named (namedOf : MRef → Option JStr) :
    ∀ (ps : List (MRef × MRef)) (m m' : Mappings), applyPairs namedOf ps m = some m' →
      ∀ p, p ∈ ps → ∃ named, namedOf p.1 = some named := by
  intro ps
  induction ps with
  | nil => intro m m' _ p hp; simp at hp
  | cons q rest ih =>
    obtain ⟨b, s⟩ := q
    intro m m' h p hp
    simp only [applyPairs] at h
    cases h1 : applyOne namedOf m b s with
    | none => simp [h1] at h
    | some m1 =>
      simp [h1] at h
      rcases List.mem_cons.mp hp with hp | hp
      · subst hp
        unfold applyOne at h1
        cases hn : namedOf b with
        | none => simp [hn] at h1
        | some named => exact ⟨named, rfl⟩
      · exact ih m1 m' h p hp

theorem newEntry_newEntry (o : Option Method) (s1 s2 : MRef) (n1 n2 : JStr) :
    newEntry (some (newEntry o s1 n1)) s2 n2 = newEntry o s2 n2 := by
  cases o <;> rfl

theorem lastTouch_cons (p : MRef × MRef) (ps : List (MRef × MRef)) (c : JStr) (k : MemberKey) :
    lastTouch (p :: ps) c k =
      match lastTouch ps c k with
      | some q => some q
      | none => if touches c k p then some p else none := by
  unfold lastTouch
  by_cases ht : touches c k p = true
  · simp only [List.filter_cons, ht, if_true]
    cases hf : ps.filter (touches c k) with
    | nil => rfl
    | cons q qs =>
      rw [List.getLast?_cons_cons]
      cases h2 : (q :: qs).getLast? with
      | none => simp at h2
      | some x => rfl
  · have hf : touches c k p = false := by simpa using ht
    simp only [List.filter_cons, hf, Bool.false_eq_true, if_false]
    generalize (ps.filter (touches c k)).getLast? = x
    cases x <;> rfl

theorem foldF_eq (namedOf : MRef → Option JStr) (c : JStr) (k : MemberKey) :
    ∀ (ps : List (MRef × MRef)) (o : Option Method),
      foldF namedOf ps c k o =
        match lastTouch ps c k with
        | none => o
        | some p => some (newEntry o p.2 ((namedOf p.1).getD [])) := by
  intro ps
  induction ps with
  | nil => intro o; simp [foldF, lastTouch]
  | cons p rest ih =>
    intro o
    simp only [foldF]
    rw [ih, lastTouch_cons]
    cases hl : lastTouch rest c k with
    | none =>
      by_cases ht : touches c k p = true
      · simp [stepF, ht]
      · simp [stepF, ht]
    | some q =>
      by_cases ht : touches c k p = true
      · simp [stepF, ht, newEntry_newEntry]
      · simp [stepF, ht]

/-! ## `SpecializedMethods::remap` -/

theorem remapPairs_sound (f : MRef → Option MRef) :
    ∀ (qs : List (MRef × MRef)) (acc ps : AList MRef MRef), remapPairs f qs acc = some ps →
      ∀ p, p ∈ ps → p ∈ acc ∨ ∃ q, q ∈ qs ∧ f q.1 = some p.1 ∧ f q.2 = some p.2 := by
  intro qs
  induction qs with
  | nil => intro acc ps h p hp; simp [remapPairs] at h; subst h; exact Or.inl hp
  | cons q rest ih =>
    obtain ⟨b, s⟩ := q
    intro acc ps h p hp
    simp only [remapPairs] at h
    cases hb : f b with
    | none => simp [hb] at h
    | some b' =>
      cases hs : f s with
      | none => simp [hb, hs] at h
      | some s' =>
        simp only [hb, hs] at h
        rcases ih _ ps h p hp with h1 | ⟨q, hq, h1⟩
        · rcases mem_upsert h1 with h1 | h1
          · exact Or.inl h1
          · subst h1
            exact Or.inr ⟨(b, s), by simp, hb, hs⟩
        · exact Or.inr ⟨q, List.mem_cons_of_mem _ hq, h1⟩

/-- every selected pair is defined under the remapper and its bridge has an entry in the result -/
theorem remapPairs_complete (f : MRef → Option MRef) :
    ∀ (qs : List (MRef × MRef)) (acc ps : AList MRef MRef), remapPairs f qs acc = some ps →
      (∀ k v, AList.lookup k acc = some v → ∃ v', AList.lookup k ps = some v') ∧
      ∀ q, q ∈ qs → ∃ b' s' v, f q.1 = some b' ∧ f q.2 = some s' ∧ AList.lookup b' ps = some v := by
  intro qs
  induction qs with
  | nil => intro acc ps h; simp [remapPairs] at h; subst h; exact ⟨fun k v h => ⟨v, h⟩, by simp⟩
  | cons q rest ih =>
    obtain ⟨b, s⟩ := q
    intro acc ps h
    simp only [remapPairs] at h
    cases hb : f b with
    | none => simp [hb] at h
    | some b' =>
      cases hs : f s with
      | none => simp [hb, hs] at h
      | some s' =>
        simp only [hb, hs] at h
        obtain ⟨ih1, ih2⟩ := ih _ ps h
        constructor
        · intro k v hk
          by_cases hkb : k = b'
          · subst hkb; exact ih1 k s' (lookup_upsert_self _ _ _)
          · exact ih1 k v (by rw [lookup_upsert_ne _ _ hkb]; exact hk)
        · intro q hq
          rcases List.mem_cons.mp hq with hq | hq
          · subst hq
            obtain ⟨v, hv⟩ := ih1 b' s' (lookup_upsert_self _ _ _)
            exact ⟨b', s', v, hb, hs, hv⟩
          · exact ih2 q hq

end Bridge
