import FeatherModel.Lemmas.TinyLines
import FeatherModel.Lemmas.TinyPerm

/-! `Tiny.run` on the lines `Tiny.write` emits, level by level (C03). -/

namespace Tiny

theorem run_cons {n : Nat} {s s' : St} {l : TLine} (h : step n s l = some s') (rest : List TLine) :
    run n s (l :: rest) = run n s' rest := by
  simp only [run, h]

/-! ## the last entry of a map -/

theorem modLast_append_single {α : Type} (f : α → Option α) :
    ∀ (xs : List α) (x : α), modLast f (xs ++ [x]) = (f x).map (fun y => xs ++ [y])
  | [], x => by simp [modLast]
  | [a], x => by
    simp only [List.cons_append, List.nil_append, modLast]
    cases f x <;> rfl
  | a :: b :: r, x => by
    have := modLast_append_single f (b :: r) x
    simp only [List.cons_append, modLast] at this ⊢
    rw [this]
    cases f x <;> rfl

theorem modLastV_append_single {K V : Type} (g : V → Option V) (m : AList K V) (k : K) (v : V) :
    modLastV g (m ++ [(k, v)]) = (g v).map (fun v' => m ++ [(k, v')]) := by
  unfold modLastV
  rw [modLast_append_single]
  cases g v <;> rfl

/-- a position in the tree under construction where the open class lives -/
abbrev ClassCtx (ctx : Class → AList JStr Class) : Prop :=
  ∀ (g : Class → Option Class) (c : Class), modLastV g (ctx c) = (g c).map ctx

abbrev MethodCtx (ctx : Method → AList JStr Class) : Prop :=
  ∀ (g : Method → Option Method) (m : Method), modLastV (inLastMethod g) (ctx m) = (g m).map ctx

abbrev FieldCtx (ctx : Field → AList JStr Class) : Prop :=
  ∀ (g : Field → Option Field) (f : Field), modLastV (inLastField g) (ctx f) = (g f).map ctx

theorem classCtx_mk (cs : AList JStr Class) (k : JStr) : ClassCtx (fun c => cs ++ [(k, c)]) := by
  intro g c
  exact modLastV_append_single g cs k c

theorem methodCtx_mk {cctx : Class → AList JStr Class} (hc : ClassCtx cctx) (c : Class)
    (ms : AList MemberKey Method) (k : MemberKey) :
    MethodCtx (fun m => cctx { c with methods := ms ++ [(k, m)] }) := by
  intro g m
  rw [hc]
  simp only [inLastMethod, modLastV_append_single]
  cases g m <;> rfl

theorem fieldCtx_mk {cctx : Class → AList JStr Class} (hc : ClassCtx cctx) (c : Class)
    (fs : AList MemberKey Field) (k : MemberKey) :
    FieldCtx (fun f => cctx { c with fields := fs ++ [(k, f)] }) := by
  intro g f
  rw [hc]
  simp only [inLastField, modLastV_append_single]
  cases g f <;> rfl

/-! ## one row back into names -/

theorem intoNames_cells {valid : JStr → Bool} {n : Nat} {names : Names} (h : namesOk valid n names = true) :
    intoNames valid n (cellsOf names) = some names := by
  simp only [namesOk, Bool.and_eq_true, beq_iff_eq, List.all_eq_true] at h
  have h1 : (cellsOf names).any (fun f => !f.isEmpty && !valid f) = false := by
    rw [Bool.eq_false_iff]
    intro hany
    simp only [List.any_eq_true, cellsOf, List.mem_map] at hany
    obtain ⟨x, ⟨o, ho, rfl⟩, hx⟩ := hany
    cases o with
    | none => simp at hx
    | some s =>
      have := h.2 (some s) ho
      simp only [Bool.and_eq_true] at this
      simp [this.2] at hx
  have h2 : (cellsOf names).length = n := by simp [cellsOf, h.1]
  have h3 : (cellsOf names).map (fun f => if f.isEmpty then none else some f) = names := by
    simp only [cellsOf, List.map_map]
    conv => rhs; rw [← List.map_id names]
    apply List.map_congr_left
    intro o ho
    cases o with
    | none => simp
    | some s =>
      have := h.2 (some s) ho
      simp only [Bool.and_eq_true, Bool.not_eq_true'] at this
      have hne : s ≠ [] := by
        intro e; subst e; simp at this
      simp [hne]
  simp only [intoNames, h1, h2, h3]
  simp

theorem commentOf_doc (indent : Nat) (d : JStr) :
    commentOf { indent := indent, first := C_, fields := [escape d] } = some d := by
  simp [commentOf, unescape_escape d]

theorem setDoc_doc (indent : Nat) (d : JStr) :
    setDoc none { indent := indent, first := C_, fields := [escape d] } = some (some d) := by
  simp [setDoc, commentOf_doc indent d]

theorem contains_append_single {K V : Type} [BEq K] [LawfulBEq K] (m : AList K V) (k k' : K) (v : V) :
    AList.contains k (m ++ [(k', v)]) = (AList.contains k m || k' == k) := by
  induction m with
  | nil => simp [AList.contains, AList.lookup]; split <;> simp_all
  | cons e r ih =>
    obtain ⟨k0, v0⟩ := e
    simp only [AList.contains, AList.lookup, List.cons_append] at ih ⊢
    by_cases hk : (k0 == k) = true
    · simp [hk]
    · simp only [hk, Bool.false_eq_true, if_false]
      exact ih

theorem insertNew_new {K V : Type} [BEq K] (k : K) (v : V) (m : AList K V) (h : AList.contains k m = false) :
    AList.insertNew k v m = some (m ++ [(k, v)]) := by
  simp [AList.insertNew, h]

/-! ## parameters -/

theorem step_param {n d : Nat} {ctx : Method → AList JStr Class} (hctx : MethodCtx ctx) {m : Method} {p : Param}
    (hd : 2 ≤ d) (hp : paramOk n p = true) (hnew : AList.contains p.index m.params = false) :
    step n { depth := d, kind := .method, classes := ctx m }
        { indent := 2, first := P_, fields := natDigits p.index :: cellsOf p.names }
      = some { depth := 3, kind := .method,
               classes := ctx { m with params := m.params ++ [(p.index, { index := p.index, names := p.names, doc := none })] } } := by
  simp only [paramOk, Bool.and_eq_true, decide_eq_true_eq] at hp
  have hlt : ¬ d < 2 := by omega
  simp only [step, hlt, if_false, if_true, hctx]
  simp only [addParam, parseUsize_natDigits p.index hp.1, intoNames_cells hp.2, insertNew_new _ _ _ hnew]
  rfl

theorem run_param {n d : Nat} {ctx : Method → AList JStr Class} (hctx : MethodCtx ctx) {m : Method} {p : Param}
    (hd : 2 ≤ d) (hp : paramOk n p = true) (hnew : AList.contains p.index m.params = false) (rest : List TLine) :
    run n { depth := d, kind := .method, classes := ctx m } (paramT p ++ rest)
      = run n { depth := 3, kind := .method, classes := ctx { m with params := m.params ++ [(p.index, p)] } } rest := by
  simp only [paramT, List.cons_append]
  rw [run_cons (step_param hctx hd hp hnew)]
  obtain ⟨idx, names, doc⟩ := p
  cases doc with
  | none => rfl
  | some dd =>
    simp only [docT, List.cons_append, List.nil_append]
    apply run_cons
    have hpc : MethodCtx ctx := hctx
    simp only [step, Nat.lt_irrefl, if_false, if_true, hctx]
    simp only [inLastParam, modLastV_append_single, paramDoc, setDoc_doc 3 dd]
    rfl

theorem run_params {n : Nat} {ctx : Method → AList JStr Class} (hctx : MethodCtx ctx) (rest : List TLine) :
    ∀ (ps : List Param) (m : Method) (d : Nat), 2 ≤ d → (∀ p ∈ ps, paramOk n p = true) →
      (ps.map (·.index)).Nodup → (∀ p ∈ ps, AList.contains p.index m.params = false) →
      ∃ d', 2 ≤ d' ∧ run n { depth := d, kind := .method, classes := ctx m } (ps.flatMap paramT ++ rest)
        = run n { depth := d', kind := .method,
                  classes := ctx { m with params := m.params ++ ps.map (fun p => (p.index, p)) } } rest
  | [], m, d, hd, _, _, _ => ⟨d, hd, by simp⟩
  | p :: ps, m, d, hd, hok, hnd, hnew => by
    simp only [List.flatMap_cons, List.append_assoc]
    rw [run_param hctx hd (hok p List.mem_cons_self) (hnew p List.mem_cons_self)]
    simp only [List.map_cons, List.nodup_cons, List.mem_map, not_exists, not_and] at hnd
    obtain ⟨d', hd', h⟩ := run_params hctx rest ps { m with params := m.params ++ [(p.index, p)] } 3 (by omega)
      (fun q hq => hok q (List.mem_cons_of_mem _ hq)) hnd.2
      (fun q hq => by
        rw [contains_append_single, hnew q (List.mem_cons_of_mem _ hq)]
        simp only [Bool.false_or, beq_eq_false_iff_ne, ne_eq]
        exact fun h => hnd.1 q hq h.symm)
    refine ⟨d', hd', ?_⟩
    rw [h]
    simp only [List.map_cons, List.append_assoc, List.singleton_append]

/-! ## fields -/

theorem run_field {n d : Nat} {k : Kind} {cctx : Class → AList JStr Class} (hctx : ClassCtx cctx) {c : Class} {f : Field}
    {name : JStr} (hd : 1 ≤ d) (hf : fieldOk n f = true) (hname : firstName f.names = some name)
    (hnew : AList.contains (name, f.desc) c.fields = false) (rest : List TLine) :
    run n { depth := d, kind := k, classes := cctx c } (fieldT f ++ rest)
      = run n { depth := 2, kind := .field, classes := cctx { c with fields := c.fields ++ [((name, f.desc), f)] } } rest := by
  simp only [fieldOk, Bool.and_eq_true] at hf
  simp only [fieldT, List.cons_append]
  have hlt : ¬ d < 1 := by omega
  have hstep : step n { depth := d, kind := k, classes := cctx c }
      { indent := 1, first := F_, fields := f.desc :: cellsOf f.names }
      = some { depth := 2, kind := .field,
               classes := cctx { c with fields := c.fields ++ [((name, f.desc), { desc := f.desc, names := f.names, doc := none })] } } := by
    simp only [step, hlt, if_false, if_true, hctx]
    simp only [addField, intoNames_cells hf.2, hname, insertNew_new _ _ _ hnew]
    rfl
  rw [run_cons hstep]
  obtain ⟨desc, names, doc⟩ := f
  cases doc with
  | none => rfl
  | some dd =>
    simp only [docT, List.cons_append, List.nil_append]
    apply run_cons
    have hfc := fieldCtx_mk hctx c c.fields (name, desc)
    simp only [step, Nat.lt_irrefl, if_false, if_true]
    rw [hfc]
    simp only [fieldDoc, setDoc_doc 2 dd]
    rfl

theorem run_fields {n : Nat} {cctx : Class → AList JStr Class} (hctx : ClassCtx cctx) (rest : List TLine) :
    ∀ (fs : List Field) (c : Class) (d : Nat) (k : Kind), 1 ≤ d → (∀ f ∈ fs, fieldOk n f = true) →
      (keyOf : Field → MemberKey) → (∀ f ∈ fs, firstName f.names = some (keyOf f).1 ∧ (keyOf f).2 = f.desc) →
      (fs.map keyOf).Nodup → (∀ f ∈ fs, AList.contains (keyOf f) c.fields = false) →
      ∃ d' k', 1 ≤ d' ∧ run n { depth := d, kind := k, classes := cctx c } (fs.flatMap fieldT ++ rest)
        = run n { depth := d', kind := k',
                  classes := cctx { c with fields := c.fields ++ fs.map (fun f => (keyOf f, f)) } } rest
  | [], c, d, k, hd, _, _, _, _, _ => ⟨d, k, hd, by simp⟩
  | f :: fs, c, d, k, hd, hok, keyOf, hkey, hnd, hnew => by
    simp only [List.flatMap_cons, List.append_assoc]
    have hk := hkey f List.mem_cons_self
    have hnew0 := hnew f List.mem_cons_self
    have hkf : keyOf f = ((keyOf f).1, f.desc) := by rw [← hk.2]
    rw [hkf] at hnew0
    rw [run_field hctx hd (hok f List.mem_cons_self) hk.1 hnew0]
    simp only [List.map_cons, List.nodup_cons, List.mem_map, not_exists, not_and] at hnd
    obtain ⟨d', k', hd', h⟩ := run_fields hctx rest fs { c with fields := c.fields ++ [(((keyOf f).1, f.desc), f)] } 2 .field (by omega)
      (fun q hq => hok q (List.mem_cons_of_mem _ hq)) keyOf (fun q hq => hkey q (List.mem_cons_of_mem _ hq)) hnd.2
      (fun q hq => by
        rw [contains_append_single, hnew q (List.mem_cons_of_mem _ hq), ← hkf]
        simp only [Bool.false_or, beq_eq_false_iff_ne, ne_eq]
        exact fun h => hnd.1 q hq h.symm)
    refine ⟨d', k', hd', ?_⟩
    rw [h, ← hkf]
    simp only [List.map_cons, List.append_assoc, List.singleton_append]

/-! ## methods -/

/-- the method entry `read` builds from the lines of `m` -/
def readMethod (m : Method) : Method :=
  { m with params := (sortBy paramLe m.params.values).map (fun p => (p.index, p)) }

theorem run_method {n d : Nat} {k : Kind} {cctx : Class → AList JStr Class} (hctx : ClassCtx cctx) {c : Class} {m : Method}
    {name : JStr} (hd : 1 ≤ d) (hm : methodOk n m = true) (hwf : wfMethod m = true)
    (hname : firstName m.names = some name)
    (hnew : AList.contains (name, m.desc) c.methods = false) (rest : List TLine) :
    ∃ d', 1 ≤ d' ∧ run n { depth := d, kind := k, classes := cctx c } (methodT m ++ rest)
      = run n { depth := d', kind := .method,
                classes := cctx { c with methods := c.methods ++ [((name, m.desc), readMethod m)] } } rest := by
  simp only [methodOk, Bool.and_eq_true, List.all_eq_true] at hm
  simp only [methodT, List.cons_append]
  have hlt : ¬ d < 1 := by omega
  have hstep : step n { depth := d, kind := k, classes := cctx c }
      { indent := 1, first := M_, fields := m.desc :: cellsOf m.names }
      = some { depth := 2, kind := .method,
               classes := cctx { c with methods := c.methods ++ [((name, m.desc), { desc := m.desc, names := m.names, doc := none, params := [] })] } } := by
    have hMF : ¬ M_ = F_ := by decide
    simp only [step, hlt, if_false, hMF, if_true, hctx]
    simp only [addMethod, intoNames_cells hm.1.2, hname, insertNew_new _ _ _ hnew]
    rfl
  rw [run_cons hstep]
  have hmc := methodCtx_mk hctx c c.methods (name, m.desc)
  -- the comment
  have hdoc : run n { depth := 2, kind := .method, classes := cctx { c with methods := c.methods ++ [((name, m.desc), { desc := m.desc, names := m.names, doc := none, params := [] })] } }
        (docT 2 m.doc ++ ((sortBy paramLe m.params.values).flatMap paramT ++ rest))
      = run n { depth := 2, kind := .method, classes := cctx { c with methods := c.methods ++ [((name, m.desc), { desc := m.desc, names := m.names, doc := m.doc, params := [] })] } }
        ((sortBy paramLe m.params.values).flatMap paramT ++ rest) := by
    cases hdd : m.doc with
    | none => rfl
    | some dd =>
      simp only [docT, List.cons_append, List.nil_append]
      apply run_cons
      have hCP : ¬ C_ = P_ := by decide
      simp only [step, Nat.lt_irrefl, if_false, hCP, if_true]
      rw [hmc]
      simp only [methodDoc, setDoc_doc 2 dd]
      rfl
  rw [List.append_assoc, hdoc]
  -- the parameters
  have hperm := sortBy_perm paramLe m.params.values
  simp only [wfMethod, Bool.and_eq_true, List.all_eq_true] at hwf
  have hnd : ((sortBy paramLe m.params.values).map (·.index)).Nodup := by
    apply (hperm.map _).nodup_iff.mpr
    exact nodup_of_keysNodup (fun p : Param => p.index) hwf.1 (fun e he => by
      have := hwf.2 e he
      simpa using (eq_of_beq this).symm)
  obtain ⟨d', hd', h⟩ := run_params hmc rest (sortBy paramLe m.params.values)
    { desc := m.desc, names := m.names, doc := m.doc, params := [] } 2 (by omega)
    (fun p hp => by
      have hp' := mem_sortBy.mp hp
      simp only [AList.values, List.mem_map] at hp'
      obtain ⟨⟨k, v⟩, he, rfl⟩ := hp'
      exact hm.2 (k, v) he)
    hnd (fun p _ => rfl)
  refine ⟨d', by omega, ?_⟩
  rw [h]
  simp only [List.nil_append, readMethod]
where
  nodup_of_keysNodup {K V : Type} [BEq K] [LawfulBEq K] (keyOf : V → K) :
      ∀ {m : AList K V}, keysNodup m = true → (∀ e ∈ m, keyOf e.2 = e.1) → (m.values.map keyOf).Nodup
    | [], _, _ => by simp [AList.values]
    | (k0, v0) :: rest, hn, hk => by
      simp only [keysNodup, Bool.and_eq_true, Bool.not_eq_true'] at hn
      have hrest := fun e (he : e ∈ rest) => hk e (List.mem_cons_of_mem _ he)
      simp only [AList.values, List.map_cons, List.nodup_cons, List.mem_map, not_exists, not_and]
      refine ⟨?_, nodup_of_keysNodup keyOf hn.2 hrest⟩
      rintro x ⟨e, he, rfl⟩ heq
      have h0 := hk (k0, v0) List.mem_cons_self
      simp only at h0
      rw [h0, hrest e he] at heq
      exact contains_false_of hn.1 e he heq

theorem run_methods {n : Nat} {cctx : Class → AList JStr Class} (hctx : ClassCtx cctx) (rest : List TLine) :
    ∀ (ms : List Method) (c : Class) (d : Nat) (k : Kind), 1 ≤ d → (∀ m ∈ ms, methodOk n m = true) →
      (∀ m ∈ ms, wfMethod m = true) →
      (keyOf : Method → MemberKey) → (∀ m ∈ ms, firstName m.names = some (keyOf m).1 ∧ (keyOf m).2 = m.desc) →
      (ms.map keyOf).Nodup → (∀ m ∈ ms, AList.contains (keyOf m) c.methods = false) →
      ∃ d' k', 1 ≤ d' ∧ run n { depth := d, kind := k, classes := cctx c } (ms.flatMap methodT ++ rest)
        = run n { depth := d', kind := k',
                  classes := cctx { c with methods := c.methods ++ ms.map (fun m => (keyOf m, readMethod m)) } } rest
  | [], c, d, k, hd, _, _, _, _, _, _ => ⟨d, k, hd, by simp⟩
  | m :: ms, c, d, k, hd, hok, hwf, keyOf, hkey, hnd, hnew => by
    simp only [List.flatMap_cons, List.append_assoc]
    have hk := hkey m List.mem_cons_self
    have hnew0 := hnew m List.mem_cons_self
    have hkf : keyOf m = ((keyOf m).1, m.desc) := by rw [← hk.2]
    rw [hkf] at hnew0
    obtain ⟨d1, hd1, h1⟩ := run_method (k := k) hctx hd (hok m List.mem_cons_self) (hwf m List.mem_cons_self) hk.1 hnew0
      (ms.flatMap methodT ++ rest)
    rw [h1]
    simp only [List.map_cons, List.nodup_cons, List.mem_map, not_exists, not_and] at hnd
    obtain ⟨d', k', hd', h⟩ := run_methods hctx rest ms
      { c with methods := c.methods ++ [(((keyOf m).1, m.desc), readMethod m)] } d1 .method hd1
      (fun q hq => hok q (List.mem_cons_of_mem _ hq)) (fun q hq => hwf q (List.mem_cons_of_mem _ hq))
      keyOf (fun q hq => hkey q (List.mem_cons_of_mem _ hq)) hnd.2
      (fun q hq => by
        rw [contains_append_single, hnew q (List.mem_cons_of_mem _ hq), ← hkf]
        simp only [Bool.false_or, beq_eq_false_iff_ne, ne_eq]
        exact fun h => hnd.1 q hq h.symm)
    refine ⟨d', k', hd', ?_⟩
    rw [h, ← hkf]
    simp only [List.map_cons, List.append_assoc, List.singleton_append]

end Tiny
