import FeatherModel.Lemmas.VisitFull

/-!
# C17 lemmas — what a visitor does with one item is invisible in the events of the other items; streams
-/

set_option linter.unusedSimpArgs false

namespace Visit

/-- the item an event belongs to -/
inductive Owner where
  | cls
  | comp (r : Nat)
  | field (i : Nat)
  | method (i : Nat)
  | code (i : Nat)
  deriving DecidableEq, Repr

def Ev.owner : Ev → Owner
  | .classBegin _ | .cAttr _ _ _ | .classFlags _ _ | .classEnd => .cls
  | .recBegin r _ | .rAttr r _ _ _ | .recEnd r => .comp r
  | .fieldBegin i _ | .fAttr i _ _ _ | .fieldFlags i _ _ | .fieldEnd i => .field i
  | .methodBegin i _ | .mAttr i _ _ _ | .methodFlags i _ _ | .methodEnd i => .method i
  | .codeBegin i | .codeMaxs i _ | .kAttr i _ _ _ | .codeInsns i _ _ | .codeExc i _ | .codeLines i _
  | .codeLocals i _ | .codeEnd i => .code i

/-- the projection keeps the owner of an event -/
theorem proj_owner {cfg : Cfg} {e e' : Ev} (h : proj cfg e = some e') : e'.owner = e.owner := by
  cases e <;> simp only [proj, keepIf] at h <;> (repeat' split at h) <;>
    first
      | (simp only [Option.some.injEq] at h; subst h; rfl)
      | (simp at h)

/-- replace what the visitor does with field `j` -/
def Cfg.setField (cfg : Cfg) (j : Nat) (x : Option Mask) : Cfg :=
  { cfg with field := fun i => if i = j then x else cfg.field i }

def Cfg.setMethod (cfg : Cfg) (j : Nat) (x : Option MethodCfg) : Cfg :=
  { cfg with method := fun i => if i = j then x else cfg.method i }

def Cfg.setRec (cfg : Cfg) (j : Nat) (x : Option Mask) : Cfg :=
  { cfg with recc := fun i => if i = j then x else cfg.recc i }

theorem proj_setField {cfg : Cfg} {j : Nat} {x : Option Mask} {e : Ev} (h : e.owner ≠ .field j) :
    proj (cfg.setField j x) e = proj cfg e := by
  cases e <;> simp only [Ev.owner, ne_eq, Owner.field.injEq, reduceCtorEq, not_false_eq_true] at h <;>
    simp [proj, Cfg.setField, codeMaskOf, recMaskOf, h]

theorem proj_setMethod {cfg : Cfg} {j : Nat} {x : Option MethodCfg} {e : Ev}
    (h1 : e.owner ≠ .method j) (h2 : e.owner ≠ .code j) :
    proj (cfg.setMethod j x) e = proj cfg e := by
  cases e <;> simp only [Ev.owner, ne_eq, Owner.method.injEq, Owner.code.injEq, reduceCtorEq, not_false_eq_true] at h1 h2 <;>
    simp [proj, Cfg.setMethod, codeMaskOf, recMaskOf, h1, h2]

theorem proj_setRec {cfg : Cfg} {j : Nat} {x : Option Mask} {e : Ev} (h : e.owner ≠ .comp j) :
    proj (cfg.setRec j x) e = proj cfg e := by
  cases e <;> simp only [Ev.owner, ne_eq, Owner.comp.injEq, reduceCtorEq, not_false_eq_true] at h <;>
    simp [proj, Cfg.setRec, codeMaskOf, recMaskOf, h]

/-- change only what `visit_code()` of method `j` answers / which interests its code visitor reports -/
def Cfg.setCodeV (cfg : Cfg) (j : Nat) (x : Option Mask) : Cfg :=
  { cfg with method := fun i => if i = j then (cfg.method i).map (fun mc => { mc with codeV := x }) else cfg.method i }

theorem proj_setCodeV {cfg : Cfg} {j : Nat} {x : Option Mask} {e : Ev}
    (h : e.owner ≠ .code j ∨ ∃ i, e = .codeBegin i) :
    proj (cfg.setCodeV j x) e = proj cfg e := by
  cases e with
  | mAttr i unk k pay =>
    simp only [proj, Cfg.setCodeV]
    by_cases hij : i = j
    · subst hij; cases cfg.cls <;> cases cfg.method i <;> simp
    · simp [hij]
  | methodFlags i d s =>
    simp only [proj, Cfg.setCodeV]
    by_cases hij : i = j
    · subst hij; cases cfg.cls <;> cases cfg.method i <;> simp
    · simp [hij]
  | methodEnd i =>
    simp only [proj, Cfg.setCodeV]
    by_cases hij : i = j
    · subst hij; cases cfg.cls <;> cases cfg.method i <;> simp
    · simp [hij]
  | codeBegin i =>
    simp only [proj, Cfg.setCodeV]
    by_cases hij : i = j
    · subst hij; cases cfg.cls <;> cases cfg.method i <;> simp
    · simp [hij]
  | codeMaxs i h' =>
    have hij : i ≠ j := by rcases h with h | ⟨_, h⟩ <;> simp_all [Ev.owner]
    simp [proj, codeMaskOf, Cfg.setCodeV, hij]
  | kAttr i unk k pay =>
    have hij : i ≠ j := by rcases h with h | ⟨_, h⟩ <;> simp_all [Ev.owner]
    simp [proj, codeMaskOf, Cfg.setCodeV, hij]
  | codeInsns i fr h' =>
    have hij : i ≠ j := by rcases h with h | ⟨_, h⟩ <;> simp_all [Ev.owner]
    simp [proj, codeMaskOf, Cfg.setCodeV, hij]
  | codeExc i h' =>
    have hij : i ≠ j := by rcases h with h | ⟨_, h⟩ <;> simp_all [Ev.owner]
    simp [proj, codeMaskOf, Cfg.setCodeV, hij]
  | codeLines i parts =>
    have hij : i ≠ j := by rcases h with h | ⟨_, h⟩ <;> simp_all [Ev.owner]
    simp [proj, codeMaskOf, Cfg.setCodeV, hij]
  | codeLocals i parts =>
    have hij : i ≠ j := by rcases h with h | ⟨_, h⟩ <;> simp_all [Ev.owner]
    simp [proj, codeMaskOf, Cfg.setCodeV, hij]
  | codeEnd i =>
    have hij : i ≠ j := by rcases h with h | ⟨_, h⟩ <;> simp_all [Ev.owner]
    simp [proj, codeMaskOf, Cfg.setCodeV, hij]
  | _ => rfl

theorem filter_filterMap_congr {f g : Ev → Option Ev} {q : Ev → Bool}
    (hf : ∀ e e', f e = some e' → q e' = q e) (hg : ∀ e e', g e = some e' → q e' = q e)
    (h : ∀ e, q e = true → f e = g e) :
    ∀ l : List Ev, (l.filterMap f).filter q = (l.filterMap g).filter q := by
  intro l
  induction l with
  | nil => rfl
  | cons e l ih =>
    cases hq : q e with
    | true =>
      have hfg := h e hq
      cases hfe : f e with
      | none =>
        rw [hfe] at hfg
        simp [List.filterMap_cons, hfe, ← hfg, ih]
      | some e' =>
        rw [hfe] at hfg
        simp [List.filterMap_cons, hfe, ← hfg, List.filter_cons, hf e e' hfe, hq, ih]
    | false =>
      cases hfe : f e with
      | none =>
        cases hge : g e with
        | none => simp [List.filterMap_cons, hfe, hge, ih]
        | some e2 => simp [List.filterMap_cons, hfe, hge, List.filter_cons, hg e e2 hge, hq, ih]
      | some e1 =>
        cases hge : g e with
        | none => simp [List.filterMap_cons, hfe, hge, List.filter_cons, hf e e1 hfe, hq, ih]
        | some e2 =>
          simp [List.filterMap_cons, hfe, hge, List.filter_cons, hf e e1 hfe, hg e e2 hge, hq, ih]

/-! ## streams -/

def sizes (cs : List ClassFrame) : Nat := (cs.map ClassFrame.size).sum

theorem readStream_wf : ∀ (cs : List ClassFrame) (cfgs : List Cfg) (base total : Nat),
    (∀ c ∈ cs, wellFormed c = true) → cfgs.length = cs.length → total = base + sizes cs →
    readStream cfgs cs base total =
      List.zipWith (fun cfg c => .ok (c.size, (fullEvents c).filterMap (proj cfg))) cfgs cs := by
  intro cs
  induction cs with
  | nil =>
    intro cfgs base total _ hl _
    cases cfgs with
    | nil => simp [readStream]
    | cons _ _ => simp at hl
  | cons c cs ih =>
    intro cfgs base total hwf hl ht
    cases cfgs with
    | nil => simp at hl
    | cons cfg cfgs =>
      have hc : wellFormed c = true := hwf c (by simp)
      have hx : framesExact c = true := by
        simp only [wellFormed, Bool.and_eq_true] at hc; exact hc.1.1.1.1.1
      have hs : sizes (c :: cs) = c.size + sizes cs := by simp [sizes]
      rw [hs] at ht
      have hfull := readWith_full (avail := total - base) hc (by omega)
      have hr := readWith_proj (cfg := cfg) hx hfull
      have hrest := ih cfgs (base + c.size) total (fun c' hc' => hwf c' (by simp [hc'])) (by simpa using hl)
        (by omega)
      simp only [readStream, hr, if_true, hrest, List.zipWith_cons_cons]

end Visit
