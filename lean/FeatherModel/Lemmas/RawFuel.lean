import FeatherModel.Lemmas.RawReadWrite

/-! C20: fuel independence of the reader.  Fuel only bounds the nesting depth of definitions; an answer other than
`fuel` (ok, err, panic) is the answer for every larger fuel. -/

namespace RawLayout

/-- `y` is the outcome `x` unless `x` ran out of fuel -/
def Stable {α : Type} (x y : Res α) : Prop := x = .fuel ∨ y = x

theorem Stable.refl {α : Type} (x : Res α) : Stable x x := Or.inr rfl

theorem Stable.bind {α β : Type} {x y : Res α} {f g : α → Res β} (h1 : Stable x y) (h2 : ∀ a, Stable (f a) (g a)) :
    Stable (x.bind f) (y.bind g) := by
  rcases h1 with rfl | rfl
  · exact Or.inl rfl
  · cases y with
    | ok a => exact h2 a
    | err => exact Or.inr rfl
    | panic => exact Or.inr rfl
    | fuel => exact Or.inl rfl

def RecStable (rc1 rc2 : Rec) : Prop := ∀ id pool bs, Stable (rc1 id pool bs) (rc2 id pool bs)

theorem readN_stable (rd1 rd2 : Bytes → Res (Val × Bytes)) (h : ∀ bs, Stable (rd1 bs) (rd2 bs)) :
    ∀ n bs, Stable (readN rd1 n bs) (readN rd2 n bs) := by
  intro n
  induction n with
  | zero => intro bs; exact Stable.refl _
  | succ n ih =>
    intro bs
    simp only [readN]
    exact Stable.bind (h bs) fun (_, bs1) => Stable.bind (ih bs1) fun _ => Stable.refl _

theorem readSlots_stable (wide : List Nat) (rd1 rd2 : Bytes → Res (Val × Bytes)) (h : ∀ bs, Stable (rd1 bs) (rd2 bs)) :
    ∀ N n, n ≤ N → ∀ bs, Stable (readSlots wide rd1 n bs) (readSlots wide rd2 n bs) := by
  intro N
  induction N with
  | zero =>
    intro n hn bs
    have : n = 0 := by omega
    subst this; exact Stable.refl _
  | succ N ih =>
    intro n hn bs
    cases n with
    | zero => exact Stable.refl _
    | succ n =>
      simp only [readSlots]
      refine Stable.bind (h bs) fun x => ?_
      obtain ⟨v, bs1⟩ := x
      dsimp only
      split
      · cases n with
        | zero => exact Stable.refl _
        | succ m => exact Stable.bind (ih m (by omega) bs1) fun _ => Stable.refl _
      · exact Stable.bind (ih n (by omega) bs1) fun _ => Stable.refl _

theorem readTy_stable (rc1 rc2 : Rec) (h : RecStable rc1 rc2) : ∀ ty pool binds bs,
    Stable (readTy rc1 pool binds ty bs) (readTy rc2 pool binds ty bs) := by
  intro ty
  induction ty with
  | prim p => intro pool binds bs; exact Stable.refl _
  | vecCnt c el ih =>
    intro pool binds bs
    simp only [readTy]
    split
    · exact Stable.bind (readN_stable _ _ (fun bs => ih pool binds bs) _ _) fun _ => Stable.refl _
    · exact Stable.refl _
  | vecLen e el ih =>
    intro pool binds bs
    simp only [readTy]
    split
    · exact Stable.bind (readN_stable _ _ (fun bs => ih pool binds bs) _ _) fun _ => Stable.refl _
    · exact Stable.refl _
  | vecSlots e wd el ih =>
    intro pool binds bs
    simp only [readTy]
    split
    · exact Stable.bind (readSlots_stable wd _ _ (fun bs => ih pool binds bs) _ _ (Nat.le_refl _) _) fun _ => Stable.refl _
    · exact Stable.refl _
  | ref id => intro pool binds bs; exact h id pool bs

theorem readFields_stable (rc1 rc2 : Rec) (h : RecStable rc1 rc2) : ∀ fds pool binds bs,
    Stable (readFields rc1 pool binds fds bs) (readFields rc2 pool binds fds bs) := by
  intro fds
  induction fds with
  | nil => intro pool binds bs; exact Stable.refl _
  | cons f fds ih =>
    intro pool binds bs
    simp only [readFields]
    split
    · exact Stable.bind (readTy_stable rc1 rc2 h _ _ _ _) fun _ =>
        Stable.bind (Stable.refl _) fun _ => Stable.bind (ih _ _ _) fun _ => Stable.refl _
    · split
      · exact Stable.refl _
      · exact Stable.bind (Stable.refl _) fun _ => Stable.bind (ih _ _ _) fun _ => Stable.refl _

theorem readBody_stable (s : Bool) (env : Env) (rc1 rc2 : Rec) (h : RecStable rc1 rc2) (id : Nat)
    (tag : Option (TExpr × Prim × Nat)) (pool : Pool) (binds : Binds) (k : Nat) (body : Body) (bs : Bytes) :
    Stable (readBody s env id tag rc1 pool binds k body bs) (readBody s env id tag rc2 pool binds k body bs) := by
  simp only [readBody]
  exact Stable.bind (Stable.refl _) fun _ => Stable.bind (readFields_stable rc1 rc2 h _ _ _ _) fun _ => Stable.refl _

theorem readDef_stable (s : Bool) (env : Env) (rc1 rc2 : Rec) (h : RecStable rc1 rc2) :
    RecStable (readDef s rc1 env) (readDef s rc2 env) := by
  intro id pool bs
  simp only [readDef]
  split
  · exact Stable.refl _
  · exact readBody_stable s env rc1 rc2 h _ _ _ _ _ _ _
  · split
    · exact Stable.refl _
    · exact Stable.bind (Stable.refl _) fun _ => readBody_stable s env rc1 rc2 h _ _ _ _ _ _ _

theorem readG_stable_succ (s : Bool) (env : Env) : ∀ fuel, RecStable (readG s env fuel) (readG s env (fuel + 1)) := by
  intro fuel
  induction fuel with
  | zero => intro id pool bs; exact Or.inl rfl
  | succ f ih => exact readDef_stable s env _ _ ih

/-- **fuel independence**: any answer other than `fuel` is the answer for every larger fuel -/
theorem readG_fuel_independent (s : Bool) (env : Env) (f g : Nat) (hfg : f ≤ g) (id : Nat) (pool : Pool) (bs : Bytes)
    (hne : readG s env f id pool bs ≠ .fuel) : readG s env g id pool bs = readG s env f id pool bs := by
  induction hfg with
  | refl => rfl
  | @step m _ ih =>
    rcases readG_stable_succ s env m id pool bs with h | h
    · rw [ih] at h; exact absurd h hne
    · rw [h, ih]

end RawLayout
