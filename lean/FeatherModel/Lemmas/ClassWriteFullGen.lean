import FeatherModel.Lemmas.ClassWriteFullAnnoBlocks

/-!
# C02 (whole writer) — attribute blocks of any owner, lifted to the layout, and their sequencing
-/

namespace ClassWriteFull
open FramePool (Good Le)
open ClassRead ClassRead.Spec

/-- how the attributes of an owner are framed, when they stay legal from a pool on (`sound q a`: legal in the reader's
table of whatever the writer can still reach from `q`; monotone), and what they add to the facts -/
structure Own (A σ : Type) where
  frame : A → Bytes
  sound : Pool → A → Prop
  mono : ∀ {q q' : Pool} {a : A}, Le q q' → sound q a → sound q' a
  apply : σ → A → Option σ

variable {A σ : Type}

/-- one block: what was written is the framing of `lo`, `lo` is legal in every pool still reachable, folding it into
the facts performs `upd` (under `pre`) -/
def GBlock (O : Own A σ) (o : Option Bytes) (q : Pool) (pre : σ → Prop) (upd : σ → σ) : Prop :=
  ∃ lo : Option A, o = lo.map O.frame ∧ (∀ a ∈ lo, O.sound q a) ∧
    ∀ st : σ, pre st → applyAll O.apply st lo.toList = some (upd st)

def GBlocks (O : Own A σ) (bs : List Bytes) (q : Pool) (pre : σ → Prop) (upd : σ → σ) : Prop :=
  ∃ as : List A, bs = as.map O.frame ∧ (∀ a ∈ as, O.sound q a) ∧
    ∀ st : σ, pre st → applyAll O.apply st as = some (upd st)

theorem gblock_absent {O : Own A σ} {q : Pool} {pre : σ → Prop} {upd : σ → σ} (h : ∀ c, pre c → upd c = c) :
    GBlock O none q pre upd :=
  ⟨none, rfl, by simp, fun st hp => by simp [applyAll, h st hp]⟩

theorem gblock_present {O : Own A σ} {q : Pool} {pre : σ → Prop} {upd : σ → σ} (a : A)
    (hs : O.sound q a) (h : ∀ st : σ, pre st → O.apply st a = some (upd st)) :
    GBlock O (some (O.frame a)) q pre upd :=
  ⟨some a, rfl, fun x hx => by cases Option.mem_some_iff.mp hx; exact hs, fun st hp => by
    simp only [Option.toList, applyAll]
    rw [h st hp]⟩

theorem GBlocks.nil (O : Own A σ) (q : Pool) : GBlocks O [] q (fun _ => True) (fun c => c) :=
  ⟨[], rfl, by simp, fun st _ => rfl⟩

theorem GBlocks.cons {O : Own A σ} {o : Option Bytes} {bs : List Bytes} {q1 q : Pool} {pre1 pre2 pre : σ → Prop}
    {upd1 upd2 : σ → σ} (b : GBlock O o q1 pre1 upd1) (hle : Le q1 q) (r : GBlocks O bs q pre2 upd2)
    (hpre : ∀ c, pre c → pre1 c ∧ pre2 (upd1 c)) : GBlocks O (o.toList ++ bs) q pre (fun c => upd2 (upd1 c)) := by
  obtain ⟨lo, rfl, sd1, f1⟩ := b
  obtain ⟨as, rfl, sd2, f2⟩ := r
  refine ⟨lo.toList ++ as, by simp [toList_map], ?_, ?_⟩
  · intro a ha
    rcases List.mem_append.mp ha with ha | ha
    · exact O.mono hle (sd1 a (Option.mem_toList.mp ha))
    · exact sd2 a ha
  · intro st hp
    obtain ⟨h1, h2⟩ := hpre st hp
    rw [applyAll_append, f1 st h1]
    exact f2 (upd1 st) h2

/-- blocks that need no precondition compose without bookkeeping -/
theorem GBlocks.cons' {O : Own A σ} {o : Option Bytes} {bs : List Bytes} {q1 q : Pool} {pre2 : σ → Prop}
    {upd1 upd2 : σ → σ} (b : GBlock O o q1 (fun _ => True) upd1) (hle : Le q1 q) (r : GBlocks O bs q pre2 upd2)
    (hpre : ∀ c, pre2 c → pre2 (upd1 c)) : GBlocks O (o.toList ++ bs) q pre2 (fun c => upd2 (upd1 c)) :=
  GBlocks.cons b hle r (fun c h => ⟨trivial, hpre c h⟩)

end ClassWriteFull
