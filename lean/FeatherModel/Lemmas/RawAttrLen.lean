import FeatherModel.Lemmas.RawLen

/-! C20: when is the `attribute_length` an attribute variant writes the length of the rest of the attribute?
A syntactic classification of variant layouts (`attrLenShape`, decidable, evaluated on the translated tables by `decide`)
and its soundness for every value (`attrFramed_of_shape`). -/

namespace RawLayout

/-- what every JVMS reader relies on: after `attribute_name_index` (u2) comes a u4 that is the number of bytes that
follow in this attribute -/
def attrFramed (b : Bytes) : Bool :=
  match takeBE .u16 b with
  | some (_, r) =>
    (match takeBE .u32 r with
     | some (n, body) => n == body.length
     | none => false)
  | none => false

/-- total width of fields that are all fixed-width numbers without constants after them -/
def fixedLen : List Field → Option Nat
  | [] => some 0
  | f :: fds =>
    match f.kind, f.post, fixedLen fds with
    | .field (.prim p) _, [], some n => some (p.bytes + n)
    | _, _, _ => none

/-- the first field is the (unwritten) name index; `some (post, rest)` = the constants after it and the other fields -/
def attrHead (b : Body) : Option (Nat × List Const × List Field) :=
  match b.pre, b.fields with
  | [], f0 :: rest =>
    (match f0.kind with
     | .nowrite _ _ => some (f0.name, f0.post, rest)
     | _ => none)
  | _, _ => none

/-- `const attribute_length: u32 = this._len() - 6` right after the name index -/
def shapeThisLen (b : Body) : Bool :=
  match attrHead b with
  | some (_, [c], _) => c.p == .u32 && c.e == ⟨32, .sub .thisLen (.lit 6)⟩
  | _ => false

/-- `const attribute_length: u32 = n` followed by fixed-width fields of total width `n` -/
def shapeLit (b : Body) : Bool :=
  match attrHead b with
  | some (_, [c], rest) =>
    (match c.e.e with
     | .lit n => c.p == .u32 && n < 4294967296 && fixedLen rest == some n
     | _ => false)
  | _ => false

/-- `const attribute_length: u32 = 2 + 2 * x.len()` followed by exactly `x: Vec<u16> [u16]` -/
def shapeU16Table (b : Body) : Bool :=
  match attrHead b with
  | some (n0, [c], [fx]) =>
    c.p == .u32 && c.e == ⟨64, .add (.lit 2) (.mul (.lit 2) (.lenOf fx.name))⟩ && n0 != fx.name &&
      fx.kind == .field (.vecCnt .u16 (.prim .u16)) false && fx.post == []
  | _ => false

/-- no constant: the u32 count of a single `Vec<u8> [u32]` is the attribute length -/
def shapeBytes (b : Body) : Bool :=
  match attrHead b with
  | some (_, [], [fx]) => fx.kind == .field (.vecCnt .u32 (.prim .u8)) false && fx.post == []
  | _ => false

def attrLenShape (v : Variant) : Bool :=
  shapeThisLen v.body || shapeLit v.body || shapeU16Table v.body || shapeBytes v.body

/-! ## soundness -/

theorem attrFramed_of (t x : Nat) (r : Bytes) (ht : t < 65536) (hx : x < 4294967296) (hr : x = r.length) :
    attrFramed (be .u16 t ++ (be .u32 x ++ r)) = true := by
  subst hr
  simp [attrFramed, takeBE_be .u16 t _ (by simpa [Prim.bound] using ht),
    takeBE_be .u32 r.length r (by simpa [Prim.bound] using hx)]

theorem writeV_enum {env : Env} {id k nm tn : Nat} {tagTy : Prim} {variants : List Variant} {fb : Bool} {v : Variant}
    {fs : List Val} {b : Bytes} (h1 : env.defs[id]? = some (.enum nm tn tagTy variants fb)) (h2 : variants[k]? = some v)
    (hw : writeV env (.ref id) (.node k fs) = some b) :
    ∃ t a w, evalW v.tagWrite.bits (len32 (lenV env (.ref id) (.node k fs))) (mkCtx v.body.fields fs) v.tagWrite.e = some t ∧
      writeConsts (len32 (lenV env (.ref id) (.node k fs))) (mkCtx v.body.fields fs) v.body.pre = some a ∧
      writeFields env (len32 (lenV env (.ref id) (.node k fs))) (mkCtx v.body.fields fs) v.body.fields fs = some w ∧
      b = be tagTy (t % tagTy.bound) ++ (a ++ w) := by
  simp only [writeV, h1, h2] at hw
  split at hw
  · rename_i t a w ht ha hw'
    simp at hw
    exact ⟨t, a, w, ht, ha, hw', hw.symm⟩
  · cases hw

theorem fixedLen_length (env : Env) (tl : Option Nat) (ctx : List (Nat × Val)) : ∀ (fds : List Field) (vs : List Val)
    (n : Nat) (b : Bytes), fixedLen fds = some n → writeFields env tl ctx fds vs = some b → b.length = n := by
  intro fds
  induction fds with
  | nil =>
    intro vs n b hf hw
    cases vs with
    | nil => simp [writeFields] at hw; simp [fixedLen] at hf; subst hw; subst hf; rfl
    | cons _ _ => simp [writeFields] at hw
  | cons f fds ih =>
    intro vs n b hf hw
    cases vs with
    | nil => simp [writeFields] at hw
    | cons v vs =>
      simp only [fixedLen] at hf
      split at hf
      · rename_i p sp m hk hp hm
        simp at hf; subst hf
        simp only [writeFields, hk, hp] at hw
        split at hw
        · rename_i a c r ha hc hr
          simp at hw; subst hw
          simp only [writeConsts, Option.some.injEq] at hc; subst hc
          have := writeV_length env v (.prim p) a ha
          cases v with
          | num x => simp [this, lenV, ih vs m r hm hr]
          | list _ => simp [writeV] at ha
          | node _ _ => simp [writeV] at ha
        · cases hw
      · cases hf

theorem attr_decompose (env : Env) (tl : Option Nat) (body : Body) (fs : List Val) (n0 : Nat) (post : List Const)
    (rest : List Field) (a w : Bytes) (hh : attrHead body = some (n0, post, rest))
    (ha : writeConsts tl (mkCtx body.fields fs) body.pre = some a)
    (hw : writeFields env tl (mkCtx body.fields fs) body.fields fs = some w) :
    ∃ x vs c r, fs = .num x :: vs ∧ a = [] ∧ mkCtx body.fields fs = (n0, .num x) :: mkCtx rest vs ∧
      writeConsts tl (mkCtx body.fields fs) post = some c ∧
      writeFields env tl (mkCtx body.fields fs) rest vs = some r ∧ w = c ++ r := by
  simp only [attrHead] at hh
  split at hh
  · rename_i f0 rest' hpre hfs
    split at hh
    · rename_i p e hk
      simp at hh
      obtain ⟨rfl, rfl, rfl⟩ := hh
      rw [hpre] at ha
      simp only [writeConsts, Option.some.injEq] at ha
      cases fs with
      | nil => rw [hfs] at hw; simp [writeFields] at hw
      | cons v0 vs =>
        generalize hctx : mkCtx body.fields (v0 :: vs) = ctx at hw ⊢
        rw [hfs] at hw hctx
        simp only [writeFields, hk] at hw
        split at hw
        · rename_i a0 c r ha0 hc hr
          simp at hw; subst hw
          cases v0 with
          | num x =>
            simp at ha0; subst ha0
            exact ⟨x, vs, c, r, rfl, ha.symm, by rw [← hctx]; rfl, hc, hr, by simp⟩
          | list _ => simp at ha0
          | node _ _ => simp at ha0
        · cases hw
    · cases hh
  · cases hh

theorem writeAll_prim_length (env : Env) (p : Prim) : ∀ (xs : List Val) (w : Bytes),
    writeAll env (.prim p) xs = some w → w.length = p.bytes * xs.length := by
  intro xs
  induction xs with
  | nil => intro w h; simp [writeAll] at h; subst h; simp
  | cons x xs ih =>
    intro w h
    simp only [writeAll] at h
    split at h
    · rename_i a r ha hr
      simp at h; subst h
      have := writeV_length env x (.prim p) a ha
      cases x with
      | num n => simp [this, lenV, ih r hr, Nat.mul_add]; omega
      | list _ => simp [writeV] at ha
      | node _ _ => simp [writeV] at ha
    · cases h

theorem writeFields_single_vec (env : Env) (tl : Option Nat) (ctx : List (Nat × Val)) (fx : Field) (c p : Prim)
    (hk : fx.kind = .field (.vecCnt c (.prim p)) false) (hpost : fx.post = []) (vs : List Val) (r : Bytes)
    (hr : writeFields env tl ctx [fx] vs = some r) :
    ∃ xs wa, vs = [.list xs] ∧ writeAll env (.prim p) xs = some wa ∧ r = be c (xs.length % c.bound) ++ wa := by
  cases vs with
  | nil => simp [writeFields] at hr
  | cons vx vs' =>
    cases vs' with
    | cons _ _ => simp [writeFields] at hr
    | nil =>
      simp only [writeFields, hk, hpost, writeConsts] at hr
      cases vx with
      | num _ => simp [writeV] at hr
      | node _ _ => simp [writeV] at hr
      | list xs =>
        simp only [writeV] at hr
        cases hwa : writeAll env (.prim p) xs with
        | none => simp [hwa] at hr
        | some wa =>
          simp [hwa] at hr
          exact ⟨xs, wa, rfl, hwa, hr.symm⟩

/-- **soundness of the classification**: a variant of a u16-tagged enum whose layout has one of the four shapes writes,
for every value whose `_len()` fits `u32`, a u4 after the tag that is exactly the number of bytes that follow -/
theorem attrFramed_of_shape {env : Env} {id k nm tn : Nat} {variants : List Variant} {fb : Bool} {v : Variant}
    {fs : List Val} {b : Bytes} (h1 : env.defs[id]? = some (.enum nm tn .u16 variants fb)) (h2 : variants[k]? = some v)
    (hs : attrLenShape v = true) (hw : writeV env (.ref id) (.node k fs) = some b)
    (hl : lenV env (.ref id) (.node k fs) < 4294967296) : attrFramed b = true := by
  have hL := len_eq_write_length env _ _ b hw
  obtain ⟨t, a, w, ht, ha, hwf, rfl⟩ := writeV_enum h1 h2 hw
  have htl : len32 (lenV env (.ref id) (.node k fs)) = some (lenV env (.ref id) (.node k fs)) := by simp [len32, hl]
  rw [htl] at ha hwf
  generalize hLdef : lenV env (.ref id) (.node k fs) = L at *
  have htb : t % Prim.u16.bound < 65536 := Nat.mod_lt _ (by simp [Prim.bound])
  simp only [attrLenShape, Bool.or_eq_true] at hs
  rcases hs with ((hs | hs) | hs) | hs
  · -- this._len() - 6
    simp only [shapeThisLen] at hs
    split at hs
    · rename_i n0 c rest hh
      simp only [Bool.and_eq_true, beq_iff_eq] at hs
      obtain ⟨hp, he⟩ := hs
      obtain ⟨x, vs, cb, r, rfl, rfl, hctx, hc, hr, rfl⟩ := attr_decompose env _ v.body fs n0 [c] rest a w hh ha hwf
      simp only [writeConsts, he, evalW] at hc
      split at hc
      · rename_i n e' hn he'
        simp at he'; subst he'
        simp at hc; subst hc
        simp only [checkedSub] at hn
        split at hn
        · rename_i h6
          simp at hn; subst hn
          simp [be_length, Prim.bytes, hp] at hL
          rw [hp]
          simp only [List.nil_append]
          exact attrFramed_of _ _ r htb (by simp [Prim.bound]; omega) (by simp [Prim.bound]; omega)
        · cases hn
      · cases hc
    · cases hs
  · -- literal
    simp only [shapeLit] at hs
    split at hs
    · rename_i n0 c rest hh
      split at hs
      · rename_i n hce
        simp only [Bool.and_eq_true, beq_iff_eq, decide_eq_true_eq] at hs
        obtain ⟨⟨hp, hn⟩, hfl⟩ := hs
        obtain ⟨x, vs, cb, r, rfl, rfl, hctx, hc, hr, rfl⟩ := attr_decompose env _ v.body fs n0 [c] rest a w hh ha hwf
        simp only [writeConsts, hce, evalW] at hc
        simp at hc; subst hc
        have hrl := fixedLen_length env _ _ rest vs n r hfl hr
        rw [hp]
        simp only [List.nil_append]
        exact attrFramed_of _ _ r htb (by simp [Prim.bound]; omega) (by simp [Prim.bound, hrl]; omega)
      · cases hs
    · cases hs
  · -- 2 + 2 * x.len()
    simp only [shapeU16Table] at hs
    split at hs
    · rename_i n0 c fx hh
      simp only [Bool.and_eq_true, beq_iff_eq, bne_iff_ne, ne_eq] at hs
      obtain ⟨⟨⟨⟨hp, he⟩, hne⟩, hk⟩, hpost⟩ := hs
      obtain ⟨x, vs, cb, r, rfl, rfl, hctx, hc, hr, rfl⟩ := attr_decompose env _ v.body fs n0 [c] [fx] a w hh ha hwf
      obtain ⟨xs, wa, rfl, hwa, rfl⟩ := writeFields_single_vec env _ _ fx .u16 .u16 hk hpost vs r hr
      have hxl := writeAll_prim_length env .u16 xs wa hwa
      simp only [writeConsts, he, evalW, hctx, mkCtx, lookup, hne, if_false, if_true] at hc
      simp [be_length, Prim.bytes, hxl] at hL
      have hm1 : 2 * xs.length < 2 ^ 64 := by omega
      have hm2 : 2 + 2 * xs.length < 2 ^ 64 := by omega
      simp [checkedMul, checkedAdd, hm1, hm2] at hc
      subst hc
      rw [hp]
      simp only [List.nil_append]
      exact attrFramed_of _ _ _ htb (by simp [Prim.bound]; omega)
        (by simp [Prim.bound, be_length, Prim.bytes, hxl]; omega)
    · cases hs
  · -- Vec<u8> [u32]
    simp only [shapeBytes] at hs
    split at hs
    · rename_i n0 fx hh
      simp only [Bool.and_eq_true, beq_iff_eq] at hs
      obtain ⟨hk, hpost⟩ := hs
      obtain ⟨x, vs, cb, r, rfl, rfl, hctx, hc, hr, rfl⟩ := attr_decompose env _ v.body fs n0 [] [fx] a w hh ha hwf
      simp only [writeConsts, Option.some.injEq] at hc; subst hc
      obtain ⟨xs, wa, rfl, hwa, rfl⟩ := writeFields_single_vec env _ _ fx .u32 .u8 hk hpost vs r hr
      have hxl := writeAll_prim_length env .u8 xs wa hwa
      simp [be_length, Prim.bytes, hxl] at hL
      simp only [List.nil_append]
      have hm : xs.length % Prim.u32.bound = xs.length := Nat.mod_eq_of_lt (by simp [Prim.bound]; omega)
      rw [hm]
      exact attrFramed_of _ _ _ htb (by omega) (by simp [hxl, Prim.bytes])
    · cases hs

end RawLayout
