import FeatherModel.Lemmas.VisitProj

/-!
# C17 lemmas — projection, second part: record components, class attributes, fields
-/

set_option linter.unusedSimpArgs false

namespace Visit

/-! ## record components -/

theorem readRecComp_proj {avail : Nat} {cfg : Cfg} {m : Mask} (hc : cfg.cls = some m) (hr : m .record = true)
    {r : Nat} {rc : RecComp} {p p' : Nat} {evs : List Ev}
    (hx : rc.attrs.all (leafExact recAct) = true) (h : readRecComp avail full r rc p = .ok (p', evs)) :
    readRecComp avail cfg r rc p = .ok (p', evs.filterMap (proj cfg)) := by
  simp only [readRecComp, full] at h
  obtain ⟨q, hq, h⟩ := bind_ok.mp h
  obtain ⟨q2, hq2, h⟩ := bind_ok.mp h
  obtain ⟨r', hr', h⟩ := bind_ok.mp h
  obtain ⟨p2, evs2, d2, sy2⟩ := r'
  simp [pure_ok] at h
  obtain ⟨rfl, rfl⟩ := h
  simp only [readRecComp, hq, bind, Except.bind]
  cases hcr : cfg.recc r with
  | none =>
    have hs := readLeafs_skip _ _ _ hx hr'
    have hd := readLeafs_evs_drop (m := allMask) (proj cfg)
      (by intro unk k pay; simp [recMaskOf, hc, hr, hcr]) _ _ _ hr'
    simp at hs hd
    simp [skipAttrs, hq2, hs, bind, Except.bind, pure_ok, List.filterMap_append, recMaskOf, hc, hr, hcr,
      keepIf]
    exact hd
  | some rm =>
    have h1 := readLeafs_proj (m := rm) (proj cfg)
      (by intro unk k pay; simp [recMaskOf, hc, hr, hcr]) _ _ _ _ _ _ hx hr'
    simp [hq2, h1, bind, Except.bind, pure_ok, List.filterMap_append, recMaskOf, hc, hr, hcr, keepIf]

theorem readRecComps_proj {avail : Nat} {cfg : Cfg} {m : Mask} (hc : cfg.cls = some m) (hr : m .record = true) :
    ∀ (comps : List RecComp) (r p p' : Nat) (evs : List Ev),
      comps.all (fun rc => rc.attrs.all (leafExact recAct)) = true →
      readRecComps avail full r comps p = .ok (p', evs) →
      readRecComps avail cfg r comps p = .ok (p', evs.filterMap (proj cfg)) := by
  intro comps
  induction comps with
  | nil => intro r p p' evs _ h; simp [readRecComps] at h ⊢; obtain ⟨rfl, rfl⟩ := h; simp
  | cons rc rcs ih =>
    intro r p p' evs hx h
    simp only [List.all_cons, Bool.and_eq_true] at hx
    simp only [readRecComps] at h ⊢
    obtain ⟨r1, h1, h⟩ := bind_ok.mp h
    obtain ⟨p1, e1⟩ := r1
    obtain ⟨r2, h2, h⟩ := bind_ok.mp h
    obtain ⟨p2, e2⟩ := r2
    simp [pure_ok] at h
    obtain ⟨rfl, rfl⟩ := h
    have a1 := readRecComp_proj hc hr hx.1 h1
    have a2 := ih _ _ _ _ hx.2 h2
    simp [a1, a2, bind, Except.bind, pure_ok, List.filterMap_append]

/-- the events of record components are dropped by a class visitor not interested in `Record` -/
theorem readRecComps_drop {avail : Nat} {cfg cfg0 : Cfg}
    (hrb : ∀ r h, proj cfg (.recBegin r h) = none) (hrm : ∀ r, recMaskOf cfg r = none) :
    ∀ (comps : List RecComp) (r p : Nat) (res : Nat × List Ev),
      readRecComps avail cfg0 r comps p = .ok res → res.2.filterMap (proj cfg) = [] := by
  intro comps
  induction comps with
  | nil => intro r p res h; simp [readRecComps] at h; subst h; rfl
  | cons rc rcs ih =>
    intro r p res h
    simp only [readRecComps] at h
    obtain ⟨r1, h1, h⟩ := bind_ok.mp h
    obtain ⟨p1, e1⟩ := r1
    obtain ⟨r2, h2, h⟩ := bind_ok.mp h
    obtain ⟨p2, e2⟩ := r2
    simp [pure_ok] at h; subst h
    have a2 : e2.filterMap (proj cfg) = [] := ih _ _ _ h2
    have a1 : e1.filterMap (proj cfg) = [] := by
      simp only [readRecComp] at h1
      obtain ⟨q, hq, h1⟩ := bind_ok.mp h1
      split at h1
      · obtain ⟨q2, hq2, h1⟩ := bind_ok.mp h1
        simp [pure_ok] at h1; obtain ⟨_, rfl⟩ := h1
        simp [hrb]
      · obtain ⟨q2, hq2, h1⟩ := bind_ok.mp h1
        obtain ⟨r', hr', h1⟩ := bind_ok.mp h1
        obtain ⟨p3, evs3, d3, sy3⟩ := r'
        simp [pure_ok] at h1; obtain ⟨_, rfl⟩ := h1
        have hd := readLeafs_evs_drop (proj cfg)
          (by intro unk k pay; simp [hrm]) _ _ _ hr'
        simp only at hd
        simp only [List.filterMap_append, List.filterMap_cons, hrb, hd, proj_recEnd, hrm, Option.isSome_none,
          keepIf, List.filterMap_nil, List.append_nil]
        simp
    simp only [List.filterMap_append, a1, a2, List.append_nil]

/-! ## class attributes -/

theorem readClassAttrs_proj {avail : Nat} {cfg : Cfg} {m : Mask} (hc : cfg.cls = some m) :
    ∀ (as : List CAttr) (st st' : CSt) (p p' : Nat) (evs : List Ev) (d sy : Bool),
      as.all cattrExact = true → st'.hadBsm = st.hadBsm → (st'.hadRecord = true → st.hadRecord = true) →
      readClassAttrs avail full allMask st as p = .ok (p', evs, d, sy) →
      readClassAttrs avail cfg m st' as p = .ok (p', evs.filterMap (proj cfg), d, sy) := by
  intro as
  induction as with
  | nil =>
    intro st st' p p' evs d sy _ _ _ h
    simp [readClassAttrs] at h ⊢; obtain ⟨rfl, rfl, rfl, rfl⟩ := h; simp
  | cons a as ih =>
    intro st st' p p' evs d sy hx hb hrec h
    simp only [List.all_cons, Bool.and_eq_true] at hx
    cases a with
    | leaf a =>
      simp only [readClassAttrs] at h ⊢
      obtain ⟨q, hq, h⟩ := bind_ok.mp h
      split at h
      · simp at h
      · rename_i hnb
        obtain ⟨s, hs, h⟩ := bind_ok.mp h
        obtain ⟨r', hr', h⟩ := bind_ok.mp h
        obtain ⟨p2, evs2, d2, sy2⟩ := r'
        simp [pure_ok] at h
        obtain ⟨rfl, rfl, rfl, rfl⟩ := h
        have h1 := leaf1_proj (m := m) (proj cfg)
          (by intro unk k pay; simp [hc]) (by simpa [cattrExact] using hx.1) hs
        have h2 := ih _ (if classAct a.k = .always then { st' with hadBsm := true } else st') _ _ _ _ _ hx.2
          (by split <;> simp [hb]) (by split <;> simpa using hrec) hr'
        rw [hb]
        simp [hq, hnb, h1, h2, bind, Except.bind, pure_ok, List.filterMap_append]
    | record len comps =>
      simp only [readClassAttrs] at h ⊢
      obtain ⟨q, hq, h⟩ := bind_ok.mp h
      simp only [allMask, if_true] at h
      split at h
      · simp at h
      · rename_i hnr
        obtain ⟨q2, hq2, h⟩ := bind_ok.mp h
        obtain ⟨r1, hr1, h⟩ := bind_ok.mp h
        obtain ⟨q3, e1⟩ := r1
        obtain ⟨_, hex, h⟩ := bind_ok.mp h
        obtain ⟨r', hr', h⟩ := bind_ok.mp h
        obtain ⟨p2, evs2, d2, sy2⟩ := r'
        simp [pure_ok] at h
        obtain ⟨rfl, rfl, rfl, rfl⟩ := h
        have hx1 := hx.1
        simp only [cattrExact, Bool.and_eq_true, beq_iff_eq] at hx1
        have hnr' : st'.hadRecord = false := by
          cases hh : st'.hadRecord with
          | false => rfl
          | true => exact absurd (hrec hh) hnr
        by_cases hm : m .record = true
        · have a1 := readRecComps_proj hc hm _ _ _ _ _ hx1.2 hr1
          have a2 := ih _ { st' with hadRecord := true } _ _ _ _ _ hx.2 (by simpa using hb) (by simp) hr'
          simp [hq, hm, hnr', hq2, a1, hex, a2, bind, Except.bind, pure_ok, List.filterMap_append]
        · have hm' : m .record = false := by simpa using hm
          have a1 : e1.filterMap (proj cfg) = [] := readRecComps_drop
            (by intro r h; simp [hc, hm', keepIf]) (by intro r; simp [recMaskOf, hc, hm']) _ _ _ _ hr1
          have a2 := ih _ st' _ _ _ _ _ hx.2 (by simpa using hb) (by simp [hnr']) hr'
          have h4 := exactly_ok hex
          have h5 := need_ok hq2
          have h6 := readRecComps_pos _ _ _ _ hx1.2 hr1
          have hpos : q + len = q3 := by simp at h6; omega
          simp [hq, hm', hpos, a2, a1, bind, Except.bind, pure_ok, List.filterMap_append]

/-- a declined class: `skip_attributes` over the class attributes ends where the full read ends -/
theorem readClassAttrs_skip {avail : Nat} :
    ∀ (as : List CAttr) (st : CSt) (p : Nat) (res : Nat × List Ev × Bool × Bool),
      as.all cattrExact = true → readClassAttrs avail full allMask st as p = .ok res →
      skipAttrsGo avail (cattrLens as) p = .ok res.1 := by
  intro as
  induction as with
  | nil => intro st p res _ h; simp [readClassAttrs] at h; subst h; simp [cattrLens, skipAttrsGo]
  | cons a as ih =>
    intro st p res hx h
    simp only [List.all_cons, Bool.and_eq_true] at hx
    cases a with
    | leaf a =>
      simp only [readClassAttrs] at h
      obtain ⟨q, hq, h⟩ := bind_ok.mp h
      split at h
      · simp at h
      · obtain ⟨s, hs, h⟩ := bind_ok.mp h
        obtain ⟨r', hr', h⟩ := bind_ok.mp h
        obtain ⟨p2, evs2, d2, sy2⟩ := r'
        simp [pure_ok] at h; subst h
        have h1 := leaf1_pos (by simpa [cattrExact] using hx.1) hs
        have h2 := ih _ _ _ hx.2 hr'
        simp only [cattrLens, List.map_cons, cattrLen, skipAttrsGo, hq, bind, Except.bind]
        rw [← h1]; exact h2
    | record len comps =>
      simp only [readClassAttrs] at h
      obtain ⟨q, hq, h⟩ := bind_ok.mp h
      simp only [allMask, if_true] at h
      split at h
      · simp at h
      · obtain ⟨q2, hq2, h⟩ := bind_ok.mp h
        obtain ⟨r1, hr1, h⟩ := bind_ok.mp h
        obtain ⟨q3, e1⟩ := r1
        obtain ⟨_, hex, h⟩ := bind_ok.mp h
        obtain ⟨r', hr', h⟩ := bind_ok.mp h
        obtain ⟨p2, evs2, d2, sy2⟩ := r'
        simp [pure_ok] at h; subst h
        have hx1 := hx.1
        simp only [cattrExact, Bool.and_eq_true, beq_iff_eq] at hx1
        have h4 := exactly_ok hex
        have h5 := need_ok hq2
        have h6 := readRecComps_pos _ _ _ _ hx1.2 hr1
        have hpos : q + len = q3 := by simp at h6; omega
        have h2 := ih _ _ _ hx.2 hr'
        simp only [cattrLens, List.map_cons, cattrLen, skipAttrsGo, hq, bind, Except.bind]
        rw [hpos]; exact h2

/-! ## fields -/

theorem readField_proj {avail : Nat} {cfg : Cfg} {m : Mask} (hc : cfg.cls = some m) (hf : cfg.fieldsI = true)
    {i : Nat} {f : Field} {p p' : Nat} {evs : List Ev}
    (hx : f.attrs.all (leafExact fieldAct) = true) (h : readField avail full i f p = .ok (p', evs)) :
    readField avail cfg i f p = .ok (p', evs.filterMap (proj cfg)) := by
  simp only [readField, full] at h
  obtain ⟨q, hq, h⟩ := bind_ok.mp h
  obtain ⟨_, hn, h⟩ := bind_ok.mp h
  obtain ⟨q2, hq2, h⟩ := bind_ok.mp h
  obtain ⟨r', hr', h⟩ := bind_ok.mp h
  obtain ⟨p2, evs2, d2, sy2⟩ := r'
  simp [pure_ok] at h
  obtain ⟨rfl, rfl⟩ := h
  simp only [readField, hq, hn, bind, Except.bind]
  cases hcf : cfg.field i with
  | none =>
    have hs := readLeafs_skip _ _ _ hx hr'
    have hd := readLeafs_evs_drop (m := allMask) (proj cfg)
      (by intro unk k pay; simp [hc, hcf]) _ _ _ hr'
    simp at hs hd
    simp [skipAttrs, hq2, hs, bind, Except.bind, pure_ok, List.filterMap_append, hc, hf, hcf, keepIf]
    exact hd
  | some fm =>
    have h1 := readLeafs_proj (m := fm) (proj cfg)
      (by intro unk k pay; simp [hc, hf, hcf]) _ _ _ _ _ _ hx hr'
    simp [hq2, h1, bind, Except.bind, pure_ok, List.filterMap_append, hc, hf, hcf, keepIf]

theorem readFields_proj {avail : Nat} {cfg : Cfg} {m : Mask} (hc : cfg.cls = some m) (hf : cfg.fieldsI = true) :
    ∀ (fs : List Field) (i p p' : Nat) (evs : List Ev),
      fs.all (fun f => f.attrs.all (leafExact fieldAct)) = true →
      readFields avail full i fs p = .ok (p', evs) →
      readFields avail cfg i fs p = .ok (p', evs.filterMap (proj cfg)) := by
  intro fs
  induction fs with
  | nil => intro i p p' evs _ h; simp [readFields] at h ⊢; obtain ⟨rfl, rfl⟩ := h; simp
  | cons f fs ih =>
    intro i p p' evs hx h
    simp only [List.all_cons, Bool.and_eq_true] at hx
    simp only [readFields] at h ⊢
    obtain ⟨r1, h1, h⟩ := bind_ok.mp h
    obtain ⟨p1, e1⟩ := r1
    obtain ⟨r2, h2, h⟩ := bind_ok.mp h
    obtain ⟨p2, e2⟩ := r2
    simp [pure_ok] at h
    obtain ⟨rfl, rfl⟩ := h
    have a1 := readField_proj hc hf hx.1 h1
    have a2 := ih _ _ _ _ hx.2 h2
    simp [a1, a2, bind, Except.bind, pure_ok, List.filterMap_append]

end Visit
