import FeatherModel.Lemmas.RawLen
import FeatherModel.Spec.JvmsRaw

/-! C20: the `constant_pool_count` a struct with the header shape of `ClassFile` writes, and the count the JVMS
prescribes (`long`/`double` entries take two slots). -/

namespace RawLayout

theorem writeFields_prim_cons (env : Env) (tl : Option Nat) (ctx : List (Nat × Val)) (f : Field) (p : Prim) (sp : Bool)
    (hk : f.kind = .field (.prim p) sp) (fds : List Field) (fs : List Val) (w : Bytes)
    (hw : writeFields env tl ctx (f :: fds) fs = some w) :
    ∃ n vs c r, fs = .num n :: vs ∧ writeConsts tl ctx f.post = some c ∧ writeFields env tl ctx fds vs = some r ∧
      w = be p n ++ (c ++ r) := by
  cases fs with
  | nil => simp [writeFields] at hw
  | cons v vs =>
    simp only [writeFields, hk] at hw
    split at hw
    · rename_i a c r ha hc hr
      simp at hw; subst hw
      cases v with
      | num n =>
        simp only [writeV] at ha
        split at ha
        · simp at ha; subst ha; exact ⟨n, vs, c, r, rfl, hc, hr, rfl⟩
        · cases ha
      | list _ => simp [writeV] at ha
      | node _ _ => simp [writeV] at ha
    · cases hw

/-- header shape of `ClassFile`: `const magic: u32`, two `u16` fields, `const count: u16 = pool.len() + 1` after the
second, then the pool -/
def poolCountShape (body : Body) : Bool :=
  match body.pre, body.fields with
  | [c0], f1 :: f2 :: fp :: _ =>
    c0.p == .u32 && f1.kind == .field (.prim .u16) false && f1.post == [] &&
    f2.kind == .field (.prim .u16) false &&
    (match f2.post with
     | [cc] => cc.p == .u16 && cc.e == ⟨64, .add (.lenOf fp.name) (.lit 1)⟩
     | _ => false) &&
    f1.name != fp.name && f2.name != fp.name && fp.isVec
  | _, _ => false

/-- bytes 8 and 9 of the output are `(number of pool entries + 1) as u16` -/
theorem pool_count_bytes (env : Env) (id nm : Nat) (body : Body) (fs : List Val) (b : Bytes)
    (hdef : env.defs[id]? = some (.struct nm body)) (hs : poolCountShape body = true)
    (hw : writeV env (.ref id) (.node 0 fs) = some b) :
    ∃ es, fs[2]? = some (.list es) ∧ (b.drop 8).take 2 = be .u16 ((es.length + 1) % 65536) := by
  simp only [poolCountShape] at hs
  split at hs
  · rename_i c0 f1 f2 fp rest hpre hfields
    split at hs
    · rename_i cc hpost2
      simp only [Bool.and_eq_true, beq_iff_eq, bne_iff_ne, ne_eq] at hs
      obtain ⟨⟨⟨⟨⟨⟨⟨hc0, hk1⟩, hpost1⟩, hk2⟩, hccp, hcce⟩, hne1⟩, hne2⟩, hvec⟩ := hs
      simp only [writeV, hdef, if_true] at hw
      split at hw
      · rename_i a w ha hwf
        simp at hw; subst hw
        -- the magic
        rw [hpre] at ha
        simp only [writeConsts] at ha
        split at ha
        · rename_i n0 r0 hn0 hr0
          simp at hr0; subst hr0
          simp at ha; subst ha
          rw [hfields] at hwf
          generalize hctx : mkCtx (f1 :: f2 :: fp :: rest) fs = ctx at hwf
          obtain ⟨n1, vs1, c1, r1, rfl, hc1, hr1, rfl⟩ := writeFields_prim_cons env _ ctx f1 .u16 false hk1 _ fs w hwf
          rw [hpost1] at hc1; simp only [writeConsts, Option.some.injEq] at hc1; subst hc1
          obtain ⟨n2, vs2, c2, r2, rfl, hc2, hr2, rfl⟩ := writeFields_prim_cons env _ ctx f2 .u16 false hk2 _ vs1 r1 hr1
          rw [hpost2] at hc2
          simp only [writeConsts, hcce, evalW] at hc2
          cases vs2 with
          | nil => simp [writeFields] at hr2
          | cons vp vs3 =>
            simp only [mkCtx] at hctx
            subst hctx
            simp only [lookup, hne1, hne2, if_false, if_true] at hc2
            cases vp with
            | num _ => simp at hc2
            | node _ _ => simp at hc2
            | list es =>
              refine ⟨es, rfl, ?_⟩
              simp only at hc2
              split at hc2
              · rename_i m rr hm hrr
                simp at hrr; subst hrr
                simp at hc2; subst hc2
                simp only [checkedAdd] at hm
                split at hm
                · simp at hm; subst hm
                  simp [hc0, hccp, be, Prim.bound]
                · cases hm
              · cases hc2
        · cases ha
      · cases hw
    · simp at hs
  · cases hs

end RawLayout

namespace JvmsRaw
open RawLayout

/-- the tag a pool entry value is written with (variants of the pool entry type have literal tags) -/
def entryTag (variants : List Variant) : Val → Option Nat
  | .node k _ =>
    (match variants[k]? with
     | some v => (match v.tagWrite.e with | .lit t => some t | _ => none)
     | none => none)
  | _ => none

/-- §4.1: "The value of the constant_pool_count item is equal to the number of entries in the constant_pool table plus
one", where long and double entries count twice (§4.4.5) -/
def jvmsPoolCount (variants : List Variant) (es : List Val) : Nat :=
  1 + (es.map fun e => match entryTag variants e with | some t => slots t | none => 1).sum

def isLongDouble (variants : List Variant) (e : Val) : Bool :=
  match entryTag variants e with
  | some t => t == 5 || t == 6
  | none => false

theorem jvmsPoolCount_noLD (variants : List Variant) : ∀ (es : List Val), (∀ e ∈ es, isLongDouble variants e = false) →
    jvmsPoolCount variants es = es.length + 1 := by
  intro es
  induction es with
  | nil => intro _; rfl
  | cons e es ih =>
    intro h
    have h1 := ih (fun x hx => h x (by simp [hx]))
    have h2 := h e (by simp)
    simp only [jvmsPoolCount, List.map_cons, List.sum_cons, List.length_cons] at h1 ⊢
    have : (match entryTag variants e with | some t => slots t | none => 1) = 1 := by
      simp only [isLongDouble] at h2
      cases ht : entryTag variants e with
      | none => rfl
      | some t => simp [ht] at h2; simp [slots, h2]
    omega

end JvmsRaw
