import FeatherModel.Lemmas.RawLen
import FeatherModel.Spec.JvmsRaw

/-! C20: the `constant_pool_count` a struct with the header shape of `ClassFile` writes, and the count the JVMS
prescribes (`long`/`double` entries take two slots). -/

namespace RawLayout

theorem writeFields_prim_cons (env : Env) (tl : Option Nat) (ctx : List (Nat × Val)) (f : Field) (p : Prim) (sp : Bool)
    (hk : f.kind = .field (.prim p) sp) (fds : List Field) (fs : List Val) (w : Bytes)
    (hw : writeFields env tl ctx (f :: fds) fs = some w) :
    ∃ n vs c r, fs = .num n :: vs ∧ writeConsts tl ctx f.post = some c ∧ writeFields env tl ctx fds vs = some r ∧
      w = be p n ++ (c ++ r) := by
  cases fs with
  | nil => simp [writeFields] at hw
  | cons v vs =>
    simp only [writeFields, hk] at hw
    split at hw
    · rename_i a c r ha hc hr
      simp at hw; subst hw
      cases v with
      | num n =>
        simp only [writeV] at ha
        split at ha
        · simp at ha; subst ha; exact ⟨n, vs, c, r, rfl, hc, hr, rfl⟩
        · cases ha
      | list _ => simp [writeV] at ha
      | node _ _ => simp [writeV] at ha
    · cases hw

/-- header shape of `ClassFile`: `const magic: u32`, two `u16` fields, `const count: u16 = pool_slots(&pool) + 1` after
the second, then the pool, read as `{count - 1; slots}` (both with the slot table `wide`) and handed on as the pool -/
def poolCountShape (wide : List Nat) (body : Body) : Bool :=
  match body.pre, body.fields with
  | [c0], f1 :: f2 :: fp :: _ =>
    c0.p == .u32 && f1.kind == .field (.prim .u16) false && f1.post == [] &&
    f2.kind == .field (.prim .u16) false &&
    (match f2.post with
     | [cc] => cc.p == .u16 && cc.e == ⟨64, .add (.slotsOf fp.name wide) (.lit 1)⟩ &&
         (match fp.kind with
          | .field (.vecSlots e w (.ref _)) true => e == ⟨16, .sub (.var cc.name) (.lit 1)⟩ && w == wide
          | _ => false)
     | _ => false) &&
    f1.name != fp.name && f2.name != fp.name && fp.isVec
  | _, _ => false

/-- bytes 8 and 9 of the output are `(slots of the pool entries + 1) as u16` -/
theorem pool_count_bytes (env : Env) (wide : List Nat) (id nm : Nat) (body : Body) (fs : List Val) (b : Bytes)
    (hdef : env.defs[id]? = some (.struct nm body)) (hs : poolCountShape wide body = true)
    (hw : writeV env (.ref id) (.node 0 fs) = some b) :
    ∃ es, fs[2]? = some (.list es) ∧ (b.drop 8).take 2 = be .u16 ((slotsAll wide es + 1) % 65536) := by
  simp only [poolCountShape] at hs
  split at hs
  · rename_i c0 f1 f2 fp rest hpre hfields
    split at hs
    · rename_i cc hpost2
      simp only [Bool.and_eq_true, beq_iff_eq, bne_iff_ne, ne_eq] at hs
      obtain ⟨⟨⟨⟨⟨⟨⟨hc0, hk1⟩, hpost1⟩, hk2⟩, ⟨hccp, hcce⟩, _⟩, hne1⟩, hne2⟩, hvec⟩ := hs
      simp only [writeV, hdef, if_true] at hw
      split at hw
      · rename_i a w ha hwf
        simp at hw; subst hw
        -- the magic
        rw [hpre] at ha
        simp only [writeConsts] at ha
        split at ha
        · rename_i n0 r0 hn0 hr0
          simp at hr0; subst hr0
          simp at ha; subst ha
          rw [hfields] at hwf
          generalize hctx : mkCtx (f1 :: f2 :: fp :: rest) fs = ctx at hwf
          obtain ⟨n1, vs1, c1, r1, rfl, hc1, hr1, rfl⟩ := writeFields_prim_cons env _ ctx f1 .u16 false hk1 _ fs w hwf
          rw [hpost1] at hc1; simp only [writeConsts, Option.some.injEq] at hc1; subst hc1
          obtain ⟨n2, vs2, c2, r2, rfl, hc2, hr2, rfl⟩ := writeFields_prim_cons env _ ctx f2 .u16 false hk2 _ vs1 r1 hr1
          rw [hpost2] at hc2
          simp only [writeConsts, hcce, evalW] at hc2
          cases vs2 with
          | nil => simp [writeFields] at hr2
          | cons vp vs3 =>
            simp only [mkCtx] at hctx
            subst hctx
            simp only [lookup, hne1, hne2, if_false, if_true] at hc2
            cases vp with
            | num _ => simp at hc2
            | node _ _ => simp at hc2
            | list es =>
              refine ⟨es, rfl, ?_⟩
              simp only at hc2
              split at hc2
              · rename_i m rr hm hrr
                simp at hrr; subst hrr
                simp at hc2; subst hc2
                simp only [checkedAdd] at hm
                split at hm
                · simp at hm; subst hm
                  simp [hc0, hccp, be, Prim.bound]
                · cases hm
              · cases hc2
        · cases ha
      · cases hw
    · simp at hs
  · cases hs

/-! `pool_get`: the index of an entry is one more than the slots of the entries before it -/

theorem poolGet_at (wide : List Nat) : ∀ (pre : List Val) (e : Val) (post : List Val) (at_ : Nat),
    poolGet wide (pre ++ e :: post) at_ (at_ + slotsAll wide pre) = some e := by
  intro pre
  induction pre with
  | nil => intro e post at_; simp [poolGet, slotsAll]
  | cons p pre ih =>
    intro e post at_
    have hpos : 0 < slotsV wide p := by unfold slotsV; split <;> omega
    have hne : ¬ at_ = at_ + slotsAll wide (p :: pre) := by simp only [slotsAll]; omega
    simp only [List.cons_append, poolGet, hne, if_false]
    have := ih e post (at_ + slotsV wide p)
    simpa [slotsAll, Nat.add_assoc] using this

theorem poolGet_some (wide : List Nat) : ∀ (es : List Val) (at_ index : Nat) (e : Val),
    poolGet wide es at_ index = some e →
    ∃ pre post, es = pre ++ e :: post ∧ index = at_ + slotsAll wide pre := by
  intro es
  induction es with
  | nil => intro at_ index e h; simp [poolGet] at h
  | cons x xs ih =>
    intro at_ index e h
    simp only [poolGet] at h
    split at h
    · rename_i heq
      simp at h; subst h
      exact ⟨[], xs, rfl, by simp [slotsAll, heq]⟩
    · obtain ⟨pre, post, rfl, hi⟩ := ih _ _ _ h
      exact ⟨x :: pre, post, rfl, by simp [slotsAll, hi, Nat.add_assoc]⟩

end RawLayout

namespace JvmsRaw
open RawLayout

/-- under `slotsConform` the implementation's `.slots()` is the JVMS slot count of every entry value -/
theorem slotsV_eq_jvms (variants : List Variant) (wide : List Nat) (h : slotsConform variants wide = true) (e : Val) :
    slotsV wide e = jvmsSlots variants e := by
  simp only [slotsConform, Bool.and_eq_true, List.all_eq_true, List.mem_range, decide_eq_true_eq] at h
  obtain ⟨hlt, hall⟩ := h
  cases e with
  | num n => simp [slotsV, isWide, jvmsSlots, entryTag]
  | list l => simp [slotsV, isWide, jvmsSlots, entryTag]
  | node k fs =>
    simp only [slotsV, isWide, jvmsSlots, entryTag]
    cases hv : variants[k]? with
    | none =>
      have hk : ¬ k < variants.length := by
        intro hk
        rw [List.getElem?_eq_getElem hk] at hv; cases hv
      have hnm : k ∉ wide := fun hm => hk (hlt k hm)
      simp [hnm]
    | some v =>
      have hk : k < variants.length := by
        cases Nat.lt_or_ge k variants.length with
        | inl h => exact h
        | inr h => rw [List.getElem?_eq_none h] at hv; cases hv
      have hkk := hall k hk
      rw [hv] at hkk
      simp only at hkk ⊢
      cases he : v.tagWrite.e with
      | lit t =>
        rw [he] at hkk
        simp only [beq_iff_eq] at hkk
        simp only [slots] at hkk ⊢
        by_cases ht : t = 5 ∨ t = 6
        · have hc : k ∈ wide := by simpa [ht] using hkk
          simp [hc, ht]
        · have hc : k ∉ wide := by simpa [ht] using hkk
          simp [hc, ht]
      | var _ => rw [he] at hkk; cases hkk
      | lenOf _ => rw [he] at hkk; cases hkk
      | slotsOf _ _ => rw [he] at hkk; cases hkk
      | thisLen => rw [he] at hkk; cases hkk
      | add _ _ => rw [he] at hkk; cases hkk
      | sub _ _ => rw [he] at hkk; cases hkk
      | mul _ _ => rw [he] at hkk; cases hkk

/-- `pool_slots(pool) + 1` is the JVMS `constant_pool_count` -/
theorem slotsAll_eq_jvms (variants : List Variant) (wide : List Nat) (h : slotsConform variants wide = true) :
    ∀ (es : List Val), slotsAll wide es + 1 = jvmsPoolCount variants es := by
  intro es
  induction es with
  | nil => rfl
  | cons e es ih =>
    simp only [jvmsPoolCount, List.map_cons, List.sum_cons, slotsAll] at ih ⊢
    rw [slotsV_eq_jvms variants wide h e]
    omega

end JvmsRaw
