import FeatherModel.Lemmas.NestFold

/-!
# C14 lemmas: the shape of a nested mapping set
-/

namespace Nest

theorem stepField_ok {tr : JStr → JStr} {e e' : MemberKey × Field} (h : stepField tr e = .ok e') :
    MapDesc.mapDesc tr e.2.desc = some e'.2.desc ∧ name0 e.2.names = some e'.1.1 ∧ e'.1.2 = e'.2.desc ∧
    e'.2.names = e.2.names ∧ e'.2.doc = e.2.doc := by
  unfold stepField at h
  cases hm : MapDesc.mapDesc tr e.2.desc with
  | none => rw [hm] at h; simp at h
  | some d =>
    rw [hm] at h
    simp only at h
    cases hn : name0 e.2.names with
    | none => rw [hn] at h; simp at h
    | some n =>
      rw [hn] at h
      simp only [Except.ok.injEq] at h
      subst h
      exact ⟨rfl, rfl, rfl, rfl, rfl⟩

theorem stepMethod_ok {tr : JStr → JStr} {e e' : MemberKey × Method} (h : stepMethod tr e = .ok e') :
    MapDesc.mapDesc tr e.2.desc = some e'.2.desc ∧ name0 e.2.names = some e'.1.1 ∧ e'.1.2 = e'.2.desc ∧
    e'.2.names = e.2.names ∧ e'.2.doc = e.2.doc ∧ e'.2.params = e.2.params := by
  unfold stepMethod at h
  cases hm : MapDesc.mapDesc tr e.2.desc with
  | none => rw [hm] at h; simp at h
  | some d =>
    rw [hm] at h
    simp only at h
    cases hn : name0 e.2.names with
    | none => rw [hn] at h; simp at h
    | some n =>
      rw [hn] at h
      simp only [Except.ok.injEq] at h
      subst h
      exact ⟨rfl, rfl, rfl, rfl, rfl, rfl⟩

theorem applyFields_ok {tr : JStr → JStr} {fs fs1 : AList MemberKey Field} (h : applyFields tr fs = .ok fs1) :
    mapE (stepField tr) fs = .ok fs1 := by
  unfold applyFields at h
  obtain ⟨l', h1, h2⟩ := foldAddE_ok _ _ _ _ h
  simp only [List.nil_append] at h2
  rw [h2]; exact h1

theorem applyMethods_ok {tr : JStr → JStr} {ms ms1 : AList MemberKey Method} (h : applyMethods tr ms = .ok ms1) :
    mapE (stepMethod tr) ms = .ok ms1 := by
  unfold applyMethods at h
  obtain ⟨l', h1, h2⟩ := foldAddE_ok _ _ _ _ h
  simp only [List.nil_append] at h2
  rw [h2]; exact h1

theorem rewriteClass_ok {tr dstf : JStr → JStr} {e e' : JStr × Class} (h : rewriteClass tr dstf e = .ok e') :
    e'.1 = tr e.1 ∧ name0 e'.2.names = some (tr e.1) ∧ e'.2.doc = e.2.doc ∧
    mapE (stepField tr) e.2.fields = .ok e'.2.fields ∧ mapE (stepMethod tr) e.2.methods = .ok e'.2.methods ∧
    ∃ dst, name1 e.2.names = some dst ∧ name1 e'.2.names = nameOpt (dstf dst) := by
  unfold rewriteClass at h
  cases hn1 : name1 e.2.names with
  | none => rw [hn1] at h; simp at h
  | some dst =>
    rw [hn1] at h
    simp only at h
    cases hf : applyFields tr e.2.fields with
    | error x => rw [hf] at h; simp at h
    | ok fs1 =>
      rw [hf] at h
      simp only at h
      cases hm : applyMethods tr e.2.methods with
      | error x => rw [hm] at h; simp at h
      | ok ms1 =>
        rw [hm] at h
        simp only at h
        cases hk : nameOpt (tr e.1) with
        | none => rw [hk] at h; simp at h
        | some k' =>
          rw [hk] at h
          simp only [Except.ok.injEq] at h
          subst h
          have hk' : k' = tr e.1 := by
            unfold nameOpt at hk
            split at hk
            · simp at hk
            · simpa using hk.symm
          subst hk'
          exact ⟨rfl, by simp [name0], rfl, applyFields_ok hf, applyMethods_ok hm, dst, rfl, by simp only [name1, List.getElem?_cons_succ, List.getElem?_cons_zero]; cases nameOpt (dstf dst) <;> rfl⟩

theorem mapE_length {A B : Type} {f : A → Except String B} : ∀ {l : List A} {l' : List B}, mapE f l = .ok l' → l'.length = l.length := by
  intro l
  induction l with
  | nil => intro l' h; simp only [mapE, Except.ok.injEq] at h; subst h; rfl
  | cons a rest ih =>
    intro l' h
    simp only [mapE] at h
    cases hs : f a with
    | error e => rw [hs] at h; simp at h
    | ok b =>
      rw [hs] at h
      simp only at h
      cases hr : mapE f rest with
      | error e => rw [hr] at h; simp at h
      | ok bs =>
        rw [hr] at h
        simp only [Except.ok.injEq] at h
        subst h
        simp [ih hr]

/-- item `i` of the result is the step applied to item `i` of the input -/
theorem mapE_getElem {A B : Type} {f : A → Except String B} : ∀ {l : List A} {l' : List B}, mapE f l = .ok l' →
    ∀ (i : Nat) (a : A), l[i]? = some a → ∃ b, l'[i]? = some b ∧ f a = .ok b := by
  intro l
  induction l with
  | nil => intro l' _ i a ha; simp at ha
  | cons x rest ih =>
    intro l' h i a ha
    simp only [mapE] at h
    cases hs : f x with
    | error e => rw [hs] at h; simp at h
    | ok b =>
      rw [hs] at h
      simp only at h
      cases hr : mapE f rest with
      | error e => rw [hr] at h; simp at h
      | ok bs =>
        rw [hr] at h
        simp only [Except.ok.injEq] at h
        subst h
        cases i with
        | zero =>
          simp only [List.getElem?_cons_zero, Option.some.injEq] at ha
          subst ha
          exact ⟨b, by simp, hs⟩
        | succ j =>
          simp only [List.getElem?_cons_succ] at ha ⊢
          exact ih hr j a ha

theorem applyNests_ok {m m1 : Mappings} {ns : Nests} (h : applyNests m ns = .ok m1) :
    ∃ mapped t mt, mapNests ns m = some mapped ∧ mapTable ns = some t ∧ mapTable mapped = some mt ∧
      mapE (rewriteClass (tableMap t) (tableMap mt)) m.classes = .ok m1.classes ∧ m1.ns = m.ns ∧ m1.doc = m.doc := by
  unfold applyNests at h
  cases hmn : mapNests ns m with
  | none => rw [hmn] at h; simp at h
  | some mapped =>
    cases ht : mapTable ns with
    | none => rw [hmn, ht] at h; simp at h
    | some t =>
      rw [hmn, ht] at h
      simp only at h
      cases hmt : mapTable mapped with
      | none => rw [hmt] at h; simp at h
      | some mt =>
        rw [hmt] at h
        simp only at h
        cases hr : rewriteClasses (tableMap t) (tableMap mt) m.classes with
        | error x => rw [hr] at h; simp at h
        | ok cs1 =>
          rw [hr] at h
          simp only [Except.ok.injEq] at h
          subst h
          unfold rewriteClasses at hr
          obtain ⟨l', h1, h2⟩ := foldAddE_ok _ _ _ _ hr
          simp only [List.nil_append] at h2
          subst h2
          exact ⟨mapped, t, mt, rfl, rfl, hmt, h1, rfl, rfl⟩

/-- a cyclic table is an error, whatever the mapping set -/
theorem applyNests_table_err (m : Mappings) (ns : Nests) (h : mapTable ns = none) : applyNests m ns = .error "e" := by
  unfold applyNests
  cases mapNests ns m with
  | none => rfl
  | some mapped => simp only [h]

theorem undoNests_table_err (m : Mappings) (ns : Nests) (h : mapTable ns = none) : undoNests m ns = .error "e" := by
  unfold undoNests
  simp only [h]

end Nest
