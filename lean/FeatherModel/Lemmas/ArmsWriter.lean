import FeatherModel.Lemmas.ArmsWriterDefs
import FeatherModel.Lemmas.ArmsFinite

/-!
# The generated writer tables against the generated reader tables and against the JVMS tables (finite checks)
-/

namespace Arms

open JvmsTables

/-! ## writer arms = inverse of the reader arms -/

def invFwdCheck (op : Nat) (e : Nat × Nat × List Nat × Nat) : Bool :=
  let a := rArmOf e op
  match a.ctor? with
  | some c => (wArm c).plain.contains op && sameLayout a (wArm c)
  | none => true

def invWideFwdCheck (w : Nat) (e : Nat × Nat × List Nat × Nat) : Bool :=
  match (rArmOf e w).ctor? with
  | some c => (wArm c).prefixed.contains (Gen.ReaderArms.wideOpcode, w)
  | none => true

def invBwdCheck (c : Nat) (e : Nat × Nat × Nat × List Nat) : Bool :=
  let a := wArmOf e
  !a.plain.isEmpty && (a.plain.all fun op => (rArm op).ctor? == some c) &&
    (a.prefixed.all fun pw => pw.1 == Gen.ReaderArms.wideOpcode && (rWideArm pw.2).ctor? == some c)

theorem ctor_tables : Gen.WriterArms.ctorNames = Gen.ReaderArms.ctorNames ∧
    Gen.WriterArms.wDense.length = Gen.ReaderArms.ctorNames.length := by decide +kernel

theorem inv_fwd_all : ((List.range 256).zip Gen.ReaderArms.p2Dense).all (fun x => invFwdCheck x.1 x.2) = true := by decide +kernel
theorem inv_wide_fwd_all : ((List.range 256).zip Gen.ReaderArms.p2WideDense).all (fun x => invWideFwdCheck x.1 x.2) = true := by
  decide +kernel
theorem inv_bwd_all : ((List.range Gen.WriterArms.wDense.length).zip Gen.WriterArms.wDense).all (fun x => invBwdCheck x.1 x.2) = true := by
  decide +kernel

theorem len_p2' : Gen.ReaderArms.p2Dense.length = 256 := by decide +kernel
theorem len_p2w' : Gen.ReaderArms.p2WideDense.length = 256 := by decide +kernel

theorem writer_arms_inverse_reader :
    Gen.WriterArms.ctorNames = Gen.ReaderArms.ctorNames ∧
    (∀ op c, op < 256 → (rArm op).ctor? = some c → op ∈ (wArm c).plain ∧ sameLayout (rArm op) (wArm c) = true) ∧
    (∀ c, c < Gen.WriterArms.ctorNames.length → (wArm c).plain ≠ [] ∧ ∀ op ∈ (wArm c).plain, (rArm op).ctor? = some c) ∧
    (∀ w c, w < 256 → (rWideArm w).ctor? = some c → (Gen.ReaderArms.wideOpcode, w) ∈ (wArm c).prefixed) ∧
    (∀ c, c < Gen.WriterArms.ctorNames.length → ∀ pw ∈ (wArm c).prefixed,
      pw.1 = Gen.ReaderArms.wideOpcode ∧ (rWideArm pw.2).ctor? = some c) := by
  refine ⟨ctor_tables.1, ?_, ?_, ?_, ?_⟩
  · intro op c hop hc
    have h := forall_of_zip_all _ 256 (5, 0, [], 0) invFwdCheck len_p2' inv_fwd_all op hop
    have e : rArmOf (Gen.ReaderArms.p2Dense.getD op (5, 0, [], 0)) op = rArm op := rfl
    simp only [invFwdCheck, e, hc, Bool.and_eq_true, List.contains_iff_mem] at h
    exact h
  · intro c hc
    have hc' : c < Gen.WriterArms.wDense.length := by rw [ctor_tables.2, ← ctor_tables.1]; exact hc
    have h := forall_of_zip_all _ _ (7, 0, 0, []) invBwdCheck rfl inv_bwd_all c hc'
    have e : wArmOf (Gen.WriterArms.wDense.getD c (7, 0, 0, [])) = wArm c := rfl
    simp only [invBwdCheck, e, Bool.and_eq_true, List.all_eq_true, beq_iff_eq, Bool.not_eq_true', List.isEmpty_eq_false_iff] at h
    exact ⟨h.1.1, h.1.2⟩
  · intro w c hw hc
    have h := forall_of_zip_all _ 256 (5, 0, [], 0) invWideFwdCheck len_p2w' inv_wide_fwd_all w hw
    have e : rArmOf (Gen.ReaderArms.p2WideDense.getD w (5, 0, [], 0)) w = rWideArm w := rfl
    simp only [invWideFwdCheck, e, hc, List.contains_iff_mem] at h
    exact h
  · intro c hc pw hpw
    have hc' : c < Gen.WriterArms.wDense.length := by rw [ctor_tables.2, ← ctor_tables.1]; exact hc
    have h := forall_of_zip_all _ _ (7, 0, 0, []) invBwdCheck rfl inv_bwd_all c hc'
    have e : wArmOf (Gen.WriterArms.wDense.getD c (7, 0, 0, [])) = wArm c := rfl
    simp only [invBwdCheck, e, Bool.and_eq_true, List.all_eq_true, beq_iff_eq] at h
    exact h.2 pw hpw

theorem writer_tag_arms_inverse_reader :
    Gen.WriterArms.vtypeArms = Gen.ReaderArms.vtypeArms ∧
    (Gen.WriterArms.poolArms.map fun a => (a.2.1, a.1, a.2.2.1.sum, a.2.2.2)) =
      (Gen.ReaderArms.poolArms.map fun a => (a.1, a.2.1, a.2.2.1.sum, a.2.2.2.1)) := by decide +kernel

/-! ## writer arms against the JVMS -/

theorem jvms_writer_all :
    ((List.range Gen.WriterArms.wDense.length).zip Gen.WriterArms.wDense).all (fun x => jvmsWriterCheck x.1 x.2) = true ∧
    mnemonic? Gen.WriterArms.trampolineOpcode = some (jstr "goto_w") := by decide +kernel

theorem writer_arms_are_jvms (c : Nat) (hc : c < Gen.WriterArms.ctorNames.length) :
    jvmsWriterCheck c (Gen.WriterArms.wDense.getD c (7, 0, 0, [])) = true ∧
    mnemonic? Gen.WriterArms.trampolineOpcode = some (jstr "goto_w") := by
  have hc' : c < Gen.WriterArms.wDense.length := by rw [ctor_tables.2, ← ctor_tables.1]; exact hc
  exact ⟨forall_of_zip_all _ _ (7, 0, 0, []) jvmsWriterCheck rfl jvms_writer_all.1 c hc', jvms_writer_all.2⟩

end Arms
