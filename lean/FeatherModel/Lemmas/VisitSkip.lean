import FeatherModel.Lemmas.VisitLocal

/-!
# C17 lemmas — a read that skips the members does not depend on them

A visitor that declines the class, or whose class visitor reports `interests.fields = false` and
`interests.methods = false` (52da0aa), makes the reader pass over the fields and methods by their declared lengths only:
the read succeeds as soon as the header and the class attributes are fine, whatever is inside the members (unresolvable
names, attributes that do not parse, refused duplicates), consumes the whole file and delivers the class-level events.
-/

set_option linter.unusedSimpArgs false

namespace Visit

theorem classEvents_proj_cls_none {cfg : Cfg} (hc : cfg.cls = none) (c : ClassFrame)
    (hd : (classAttrsEv c.attrs).1.filterMap (proj cfg) = []) :
    (classEvents c).filterMap (proj cfg) = [Ev.classBegin c.h] := by
  simp [classEvents, List.filterMap_append, hd, hc, keepIf]

/-- **members skipped**: header and class attributes well formed, bytes available, and the visitor declines the class or
asks for neither fields nor methods — the read succeeds, ends at the end of the file and delivers the projection of the
class-level events; nothing is assumed about the fields and methods beyond the lengths that lay them out -/
theorem readWith_members_skipped {cfg : Cfg} {c : ClassFrame} {avail : Nat}
    (hwf : classLevelWf c = true) (hle : c.size ≤ avail)
    (hs : cfg.cls = none ∨ (cfg.fieldsI = false ∧ cfg.methodsI = false)) :
    readWith cfg c avail = .ok (c.size, (classEvents c).filterMap (proj cfg)) := by
  simp only [classLevelWf, Bool.and_eq_true] at hwf
  obtain ⟨⟨hxa, hok⟩, hcw⟩ := hwf
  have hsz : c.size = c.hdr + (2 + fieldsSize c.fields) + (2 + methodsSize c.methods)
      + (2 + lensSize (cattrLens c.attrs)) := by
    simp [ClassFrame.size, fieldsSize, methodsSize, attrsSize_eq]
  rw [hsz] at hle ⊢
  have h0 : 0 + c.hdr ≤ avail := by omega
  have h1 : 0 + c.hdr + 2 ≤ avail := by omega
  have h2 := skipMembers_full (avail := avail) (c.fields.map (fun f => attrLens f.attrs)) (0 + c.hdr + 2)
    (by rw [fields_sum]; omega)
  rw [fields_sum] at h2
  have h3 : 0 + c.hdr + 2 + fieldsSize c.fields + 2 ≤ avail := by omega
  have h4 := skipMembers_full (avail := avail) (c.methods.map (fun m => mattrLens m.attrs))
    (0 + c.hdr + 2 + fieldsSize c.fields + 2) (by rw [methods_sum]; omega)
  rw [methods_sum] at h4
  have h5 : 0 + c.hdr + 2 + fieldsSize c.fields + 2 + methodsSize c.methods + 2 ≤ avail := by omega
  have h6 := readClassAttrs_full (avail := avail) c.attrs {}
    (0 + c.hdr + 2 + fieldsSize c.fields + 2 + methodsSize c.methods + 2) hxa hcw (by omega)
  cases hc : cfg.cls with
  | none =>
    have d1 : (classAttrsEv c.attrs).1.filterMap (proj cfg) = [] :=
      readClassAttrs_drop_all hc _ _ _ _ h6
    have hs' := readClassAttrs_skip _ _ _ _ hxa h6
    simp only at hs'
    rw [classEvents_proj_cls_none hc c d1]
    simp only [readWith, need, h0, h1, h3, h5, if_true, bind, Except.bind, hok, Bool.not_true,
      Bool.false_eq_true, if_false, h2, h4, hc, skipAttrs, hs', pure_ok]
    congr 2
    omega
  | some m =>
    rcases hs with hn | ⟨hf, hm⟩
    · rw [hc] at hn; cases hn
    · have a1 := readClassAttrs_proj hc _ {} {} _ _ _ _ _ hxa rfl (by simp) h6
      obtain ⟨hb, _, _, _⟩ := proj_fields_none (cfg := cfg) (Or.inr hf)
      simp only [readWith, readFieldsI, readMethodsI, hf, hm, need, h0, h1, h3, h5, if_true, bind, Except.bind, hok,
        Bool.not_true, Bool.false_eq_true, if_false, h2, h4, hc, a1, pure_ok, classEvents]
      simp [List.filterMap_append, hc, keepIf]
      omega

/-- successive reads with such visitors on a stream of files whose members may be anything -/
theorem readStream_members_skipped : ∀ (cs : List ClassFrame) (cfgs : List Cfg) (base total : Nat),
    (∀ c ∈ cs, classLevelWf c = true) → cfgs.length = cs.length → total = base + sizes cs →
    (∀ cfg ∈ cfgs, cfg.cls = none ∨ (cfg.fieldsI = false ∧ cfg.methodsI = false)) →
    readStream cfgs cs base total =
      List.zipWith (fun cfg c => .ok (c.size, (classEvents c).filterMap (proj cfg))) cfgs cs := by
  intro cs
  induction cs with
  | nil =>
    intro cfgs base total _ hl _ _
    cases cfgs with
    | nil => simp [readStream]
    | cons _ _ => simp at hl
  | cons c cs ih =>
    intro cfgs base total hwf hl ht hsk
    cases cfgs with
    | nil => simp at hl
    | cons cfg cfgs =>
      have hc : classLevelWf c = true := hwf c (by simp)
      have hs : sizes (c :: cs) = c.size + sizes cs := by simp [sizes]
      rw [hs] at ht
      have hr := readWith_members_skipped (cfg := cfg) (avail := total - base) hc (by omega) (hsk cfg (by simp))
      have hrest := ih cfgs (base + c.size) total (fun c' hc' => hwf c' (by simp [hc'])) (by simpa using hl)
        (by omega) (fun cfg' h' => hsk cfg' (by simp [h']))
      simp only [readStream, hr, if_true, hrest, List.zipWith_cons_cons]

end Visit
