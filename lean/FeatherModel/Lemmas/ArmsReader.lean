import FeatherModel.Lemmas.ArmsReaderModel
import FeatherModel.Lemmas.ArmsFinite

/-!
# The generated reader tables against the hand-written reader model (finite checks + combination)

Every `decide +kernel` below is one pass over a WHOLE position-indexed table (all 256 opcode bytes); the tables are
regenerated from the Rust source before every build, so these are re-proved whenever `class_constants.rs` or
`class_reader.rs` change.
-/

namespace Arms

open ClassRead ClassRead.Outcome JvmsTables

/-! ## the checks, per table entry -/

/-- pass 2, opcode byte `op` against its table entry `e` -/
def p2Check (op : Nat) (e : Nat × Nat × List Nat × Nat) : Bool :=
  let a := rArmOf e op
  let k := opKind op
  decide (a = .bail) == decide (k = .invalid) && decide (a = .wide) == decide (k = .wide) && a.isUnit == decide (k = .simple) &&
    (decide (k = .invalid) || decide (k = .wide) ||
      (decide ((a.ctor?.map fun c => squash (ctorName c)) = some (squash (kindMnemonic k op))) &&
        decide (a.operandBytes? = kindBytes k) && decide (a.implicitIndex? = kindLocal k) && carrierOk (kindCarrier k op)))

def p2WideCheck (w : Nat) (e : Nat × Nat × List Nat × Nat) : Bool :=
  let a := rArmOf e w
  decide (((wideModel w).map fun d => (squash d.1, some d.2)) =
    (a.ctor?.map fun c => (squash (ctorName c), a.operandBytes?)))

theorem p1_len : Gen.ReaderArms.p1Dense.length = 256 := by decide +kernel
theorem p1w_len : Gen.ReaderArms.p1WideDense.length = 256 := by decide +kernel
theorem p2_len : Gen.ReaderArms.p2Dense.length = 256 := by decide +kernel
theorem p2w_len : Gen.ReaderArms.p2WideDense.length = 256 := by decide +kernel

theorem p1_all : ((List.range 256).zip Gen.ReaderArms.p1Dense).all (fun x => p1Code (p1Kind x.1) == x.2) = true := by
  decide +kernel
theorem p1w_all : ((List.range 256).zip Gen.ReaderArms.p1WideDense).all
    (fun x => wideSkipModel x.1 == (if x.2 < 16 then some x.2 else none)) = true := by decide +kernel
theorem p2_all : ((List.range 256).zip Gen.ReaderArms.p2Dense).all (fun x => p2Check x.1 x.2) = true := by decide +kernel
theorem p2w_all : ((List.range 256).zip Gen.ReaderArms.p2WideDense).all (fun x => p2WideCheck x.1 x.2) = true := by
  decide +kernel

theorem wideOpcode_eq : Gen.ReaderArms.wideOpcode = 0xc4 := by decide

/-! ## pointwise -/

theorem p1_agree (op : Nat) (h : op < 256) : p1Code (p1Kind op) = p1Class op := by
  have := forall_of_zip_all _ 256 21 (fun i t => p1Code (p1Kind i) == t) p1_len p1_all op h
  simpa [p1Class] using this

theorem p1_wide_agree (w : Nat) (h : w < 256) : wideSkipModel w = p1WideSkip? w := by
  have := forall_of_zip_all _ 256 21 (fun i t => wideSkipModel i == (if t < 16 then some t else none)) p1w_len p1w_all w h
  simpa [p1WideSkip?] using this

theorem p2_check (op : Nat) (h : op < 256) : p2Check op (Gen.ReaderArms.p2Dense.getD op (5, 0, [], 0)) = true :=
  forall_of_zip_all _ 256 _ p2Check p2_len p2_all op h

theorem p2_wide_check (w : Nat) (h : w < 256) : p2WideCheck w (Gen.ReaderArms.p2WideDense.getD w (5, 0, [], 0)) = true :=
  forall_of_zip_all _ 256 _ p2WideCheck p2w_len p2w_all w h

/-! ## combination with the per-arm lemmas about the model -/

theorem reader_arms_match_model (p : Pool) (bsms : Option (List Bsm)) (l : Labels) (pc op : Nat) (rest : Bytes) (hop : op < 256) :
    p1Code (p1Kind op) = p1Class op ∧
    (rArm op = .bail ↔ opKind op = .invalid) ∧
    (rArm op = .wide ↔ opKind op = .wide) ∧
    ((rArm op).isUnit = true ↔ opKind op = .simple) ∧
    (rArm op = .bail → decodeInsn p bsms l (pc, op :: rest) = err) ∧
    (∀ i c', rArm op ≠ .wide → decodeInsn p bsms l (pc, op :: rest) = ok (i, c') →
      ∃ ctor, (rArm op).ctor? = some ctor ∧ squash (ctorName ctor) = squash (insnMnemonic i) ∧
        (∀ n, (rArm op).operandBytes? = some n → c'.1 = pc + 1 + n) ∧
        (∀ j, (rArm op).implicitIndex? = some j → insnLocal? i = some j) ∧ RdDomain i) := by
  have hc := p2_check op hop
  have e : rArmOf (Gen.ReaderArms.p2Dense.getD op (5, 0, [], 0)) op = rArm op := rfl
  simp only [p2Check, e, Bool.and_eq_true, Bool.or_eq_true, beq_iff_eq, decide_eq_decide, decide_eq_true_eq] at hc
  obtain ⟨⟨⟨hb, hwd⟩, hs⟩, hd⟩ := hc
  have hs' : (rArm op).isUnit = true ↔ opKind op = .simple := by rw [hs]; simp
  refine ⟨p1_agree op hop, hb, hwd, hs', ?_, ?_⟩
  · intro h; exact decodeInsn_invalid p bsms l pc op rest (hb.mp h)
  · intro i c' hnw h
    have hw : opKind op ≠ .wide := fun e => hnw (hwd.mpr e)
    have hi : opKind op ≠ .invalid := by
      intro e
      rw [decodeInsn_invalid p bsms l pc op rest e] at h
      cases h
    obtain ⟨h1, h2, h3, h4⟩ := decodeInsn_kind p bsms l pc op rest i c' hw h
    rcases hd with (hd | hd) | ⟨⟨⟨d1, d2⟩, d3⟩, d4⟩
    · exact absurd hd hi
    · exact absurd hd hw
    · cases hc : (rArm op).ctor? with
      | none => rw [hc] at d1; cases d1
      | some ctor =>
        rw [hc] at d1
        simp only [Option.map_some, Option.some.injEq] at d1
        refine ⟨ctor, rfl, ?_, ?_, ?_, ?_⟩
        · rw [d1, h1]
        · intro n hn; exact h2 n (d2 ▸ hn)
        · intro j hj; exact h3 j (d3 ▸ hj)
        · exact rdDomain_of_carrier i (h4 ▸ d4)

theorem reader_wide_arms_match_model (l : Labels) (pc w : Nat) (rest : Bytes) (hw : w < 256) :
    pass1Step l (pc, Gen.ReaderArms.wideOpcode :: w :: rest) =
      (match p1WideSkip? w with
        | some n => (do let c ← cSkip n (pc + 2, rest); pure (l, c))
        | none => err) ∧
    ((rWideArm w).ctor? = none → decodeWide (pc, w :: rest) = err) ∧
    (∀ i c', decodeWide (pc, w :: rest) = ok (i, c') →
      ∃ ctor n, (rWideArm w).ctor? = some ctor ∧ squash (ctorName ctor) = squash (insnMnemonic i) ∧
        (rWideArm w).operandBytes? = some n ∧ c'.1 = pc + 1 + n ∧ RdDomain i) := by
  have hc := p2_wide_check w hw
  have e : rArmOf (Gen.ReaderArms.p2WideDense.getD w (5, 0, [], 0)) w = rWideArm w := rfl
  simp only [p2WideCheck, e, decide_eq_true_eq] at hc
  refine ⟨?_, ?_, ?_⟩
  · rw [wideOpcode_eq, pass1Step_wide, p1_wide_agree w hw]
    cases p1WideSkip? w <;> rfl
  · intro h
    apply decodeWide_none
    rw [h] at hc
    cases hm : wideModel w with
    | none => rfl
    | some d => rw [hm] at hc; cases hc
  · intro i c' h
    obtain ⟨n, h1, h2, h3⟩ := decodeWide_kind pc w rest i c' h
    rw [h1] at hc
    cases hl : (rWideArm w).ctor? with
    | none => rw [hl] at hc; cases hc
    | some ctor =>
      rw [hl] at hc
      simp only [Option.map_some, Option.some.injEq, Prod.mk.injEq] at hc
      exact ⟨ctor, n, rfl, hc.1.symm, hc.2.symm, h2, h3⟩

end Arms
