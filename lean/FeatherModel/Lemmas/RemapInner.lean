import FeatherModel.Model.RemapSpec

/-!
# Lemmas for C07: inner names

`remap.rs` finds the simple name a class name spells out with `rsplit_once` (`afterLast`); the specification says
"after the last occurrence" with `reverse` / `takeWhile` (`lastPiece`). They are the same function.
-/

namespace RemapTree

theorem takeWhile_append_stop {α : Type} (p : α → Bool) (l1 l2 : List α) (h : ∃ a ∈ l1, p a = false) :
    (l1 ++ l2).takeWhile p = l1.takeWhile p := by
  induction l1 with
  | nil => obtain ⟨a, ha, _⟩ := h; simp at ha
  | cons x xs ih =>
    simp only [List.cons_append, List.takeWhile_cons]
    cases hx : p x with
    | false => rfl
    | true =>
      obtain ⟨a, ha, hpa⟩ := h
      simp only [List.mem_cons] at ha
      rcases ha with rfl | ha
      · rw [hx] at hpa; cases hpa
      · simp [ih ⟨a, ha, hpa⟩]

theorem takeWhile_append_all {α : Type} (p : α → Bool) (l1 l2 : List α) (h : ∀ a ∈ l1, p a = true) :
    (l1 ++ l2).takeWhile p = l1 ++ l2.takeWhile p := by
  induction l1 with
  | nil => rfl
  | cons x xs ih =>
    simp only [List.cons_append, List.takeWhile_cons, h x (by simp)]
    simp [ih (fun a ha => h a (by simp [ha]))]

/-- `rsplit_once` finds what follows the last occurrence -/
theorem afterLast_eq_lastPiece (c : Nat) (s : JStr) : afterLast c s = lastPiece c s := by
  induction s with
  | nil => simp [afterLast, lastPiece]
  | cons x xs ih =>
    simp only [afterLast, ih, lastPiece, List.reverse_cons]
    by_cases hc : c ∈ xs
    · have hstop : ∃ a ∈ xs.reverse, (decide (a ≠ c)) = false := ⟨c, by simpa using hc, by simp⟩
      simp only [hc, ↓reduceIte, List.mem_cons, or_true, takeWhile_append_stop _ _ _ hstop]
    · have hall : ∀ a ∈ xs.reverse, (decide (a ≠ c)) = true := by
        intro a ha
        have : a ≠ c := fun e => hc (by simpa [e] using ha)
        simpa using this
      simp only [hc, ↓reduceIte, List.mem_cons, or_false, takeWhile_append_all _ _ _ hall]
      by_cases hx : x = c
      · subst hx; simp
      · have : ¬ c = x := fun e => hx e.symm
        simp [hx, this]

theorem simpleName_eq (n : JStr) : simpleName n = spelledSimpleName n := by
  have hd : isAsciiDigit = fun c => decide (48 ≤ c ∧ c ≤ 57) := by
    funext c; simp [isAsciiDigit, Bool.decide_and]
  simp only [simpleName, spelledSimpleName, afterLast_eq_lastPiece, SLASH, DOLLAR, hd]
  cases lastPiece 47 n with
  | none => simp only [Option.getD_none]; cases lastPiece 36 n <;> rfl
  | some p => simp only [Option.getD_some]; cases lastPiece 36 p <;> rfl

/-- **inner names**: what `remap.rs` makes of `inner_name` is what a consistent renaming makes of it -/
theorem innerClass_innerName (r : Remapper) (i j : InnerClass) (h : remapInnerClass r i = some j) :
    j.innerName = expectedInnerName i.inner j.inner i.innerName := by
  simp only [remapInnerClass] at h
  cases h1 : mapClassAny r i.inner <;> simp only [h1] at h
  · simp at h
  cases h2 : ooptM (mapClassAny r) i.outer <;> simp only [h2] at h
  · simp at h
  simp only [Option.some.injEq] at h
  subst h
  simp only [expectedInnerName, ← simpleName_eq]
  cases i.innerName with
  | none => rfl
  | some s =>
    simp only [Option.map_some, mapInnerClassName]
    by_cases hs : simpleName i.inner = some s
    · simp only [hs, ↓reduceIte]; cases simpleName _ <;> rfl
    · simp only [hs, ↓reduceIte]

end RemapTree
