import FeatherModel.Lemmas.MavenTree

/-! `rebuild` inverts the breadth-first serialisation; `bfs` of a rebuilt forest reads the serialisation back (C19). -/

namespace Maven
open Tree (sizeList)

variable {α σ : Type}

/-- breadth-first serialisation of a forest: data and number of children, in the order a queue serves the nodes -/
def ser : List (Tree α) → List (α × Nat)
  | [] => []
  | t :: q => (t.data, t.children.length) :: ser (q ++ t.children)
termination_by q => sizeList q
decreasing_by
  simp only [sizeList_append, Tree.sizeList, size_eq]
  omega

theorem ser_nil : ser ([] : List (Tree α)) = [] := by rw [ser]

theorem ser_cons (t : Tree α) (q : List (Tree α)) :
    ser (t :: q) = (t.data, t.children.length) :: ser (q ++ t.children) := by rw [ser]

theorem bfs_nil : bfs ([] : List (Tree α)) = [] := by rw [bfs]

theorem bfs_cons (t : Tree α) (q : List (Tree α)) : bfs (t :: q) = t.data :: bfs (q ++ t.children) := by rw [bfs]

theorem data_node (d : α) (c : List (Tree α)) : (Tree.node d c).data = d := rfl
theorem children_node (d : α) (c : List (Tree α)) : (Tree.node d c).children = c := rfl

theorem node_eta (t : Tree α) : Tree.node t.data t.children = t := by cases t; rfl

theorem ser_map_fst : ∀ (n : Nat) (q : List (Tree α)), sizeList q ≤ n → (ser q).map Prod.fst = bfs q := by
  intro n
  induction n with
  | zero =>
    intro q h
    cases q with
    | nil => rw [ser_nil, bfs_nil]; rfl
    | cons t ts => simp [Tree.sizeList, size_eq] at h
  | succ n ih =>
    intro q h
    cases q with
    | nil => rw [ser_nil, bfs_nil]; rfl
    | cons t ts =>
      rw [ser_cons, bfs_cons, List.map_cons, ih]
      simp only [sizeList_append, Tree.sizeList, size_eq] at h ⊢
      omega

/-- `rebuild` is a left inverse of the breadth-first serialisation -/
theorem rebuild_ser : ∀ (n : Nat) (q : List (Tree α)), sizeList q ≤ n → rebuild (ser q) = q := by
  intro n
  induction n with
  | zero =>
    intro q h
    cases q with
    | nil => rw [ser_nil]; rfl
    | cons t ts => simp [Tree.sizeList, size_eq] at h
  | succ n ih =>
    intro q h
    cases q with
    | nil => rw [ser_nil]; rfl
    | cons t ts =>
      have hs : sizeList (ts ++ t.children) ≤ n := by
        simp only [sizeList_append, Tree.sizeList, size_eq] at h ⊢
        omega
      rw [ser_cons]
      simp only [rebuild, ih _ hs, List.length_append, Nat.add_sub_cancel, List.drop_left, List.take_left, node_eta]

/-- what the queue of `breadth_first_retain` records is the serialisation of a forest with as many roots as the queue -/
theorem queueRun_is_ser (f : σ → α → Bool × σ) :
    ∀ (n : Nat) (s : σ) (q : List (Tree α)), sizeList q ≤ n →
      ∃ G : List (Tree α), G.length = q.length ∧ G.map Tree.data = q.map Tree.data ∧ queueRun f s q = ser G := by
  intro n
  induction n with
  | zero =>
    intro s q h
    cases q with
    | nil => exact ⟨[], rfl, rfl, by rw [queueRun_nil, ser_nil]⟩
    | cons t ts => simp [Tree.sizeList, size_eq] at h
  | succ n ih =>
    intro s q h
    cases q with
    | nil => exact ⟨[], rfl, rfl, by rw [queueRun_nil, ser_nil]⟩
    | cons t ts =>
      have hle := sizeList_filterS_le f s t.children
      have hs : sizeList (ts ++ (filterS f s t.children).2) ≤ n := by
        simp only [sizeList_append, Tree.sizeList, size_eq] at h ⊢
        omega
      obtain ⟨G', hlen, hdata, hG'⟩ := ih (filterS f s t.children).1 _ hs
      refine ⟨Tree.node t.data (G'.drop ts.length) :: G'.take ts.length, ?_, ?_, ?_⟩
      · simp only [List.length_cons, List.length_take]
        rw [List.length_append] at hlen
        omega
      · simp only [List.map_cons, data_node, List.map_take, hdata, List.map_append]
        rw [List.take_left' (by simp)]
      · rw [queueRun_cons, ser_cons, hG']
        simp only [data_node, children_node, List.take_append_drop, List.length_drop]
        rw [List.length_append] at hlen
        congr 2
        omega

/-- the breadth-first traversal of the retained forest is the order in which the queue served the kept nodes -/
theorem bfs_rebuild_queueRun (f : σ → α → Bool × σ) (s : σ) (q : List (Tree α)) :
    bfs (rebuild (queueRun f s q)) = (queueRun f s q).map Prod.fst := by
  obtain ⟨G, _, _, hG⟩ := queueRun_is_ser f (sizeList q) s q (Nat.le_refl _)
  rw [hG, rebuild_ser _ G (Nat.le_refl _), ser_map_fst _ G (Nat.le_refl _)]

end Maven
