import FeatherModel.Lemmas.ClassReadMethods
import FeatherModel.Lemmas.ClassReadModule

/-! C01 lemmas: `read_method` on an encoded method and the class attribute loop. -/

namespace ClassRead
open Outcome Spec

theorem methodFrameOk (p : Pool) (bsms : Option (List Bsm)) (a : SMethodAttr) (ha : a.Legal p bsms) : FrameOk a.raw := by
  cases a with
  | deprecated nc => exact ⟨ha.1, by simp [SMethodAttr.raw]⟩
  | synthetic nc => exact ⟨ha.1, by simp [SMethodAttr.raw]⟩
  | code nc c => exact ⟨ha.1, ha.2.2.2⟩
  | exceptions nc cps names =>
    refine ⟨ha.1, ?_⟩
    have := length_flatMap_const be16 2 cps (fun _ _ => rfl)
    have := ha.2.2.1
    simp [SMethodAttr.raw, be16_length, *]; omega
  | signature nc cp sig => exact ⟨ha.1, by simp [SMethodAttr.raw, be16_length]⟩
  | unknown nc name b => exact ⟨ha.1, ha.2.2.2⟩
  | annotations nc visible as => exact ⟨ha.1, ha.2.2.2.2⟩
  | typeAnnotations nc visible as => exact ⟨ha.1, ha.2.2.2.2⟩
  | annotationDefault nc e => exact ⟨ha.1, ha.2.2.2⟩
  | methodParameters nc ps =>
    refine ⟨ha.1, ?_⟩
    have := length_flatMap_const (fun q : Nat × Option JStr × Nat => be16 q.1 ++ be16 q.2.2) 4 ps (fun _ _ => by simp [be16_length])
    have := ha.2.2.1
    simp [SMethodAttr.raw, be8, *]; omega

theorem readMethod_enc (p : Pool) (bsms : Option (List Bsm)) (m : MethodLayout) (hm : m.Legal p bsms) (mf : MethodFacts)
    (hfacts : m.facts = some mf) (r : Bytes) :
    ∃ mr, readMethod p bsms (m.encode ++ r) = ok (mr, r) ∧ mr.resolve = some mf := by
  obtain ⟨h1, h2, h3, h4, h5, h6, h7, h8⟩ := hm
  have hn : (m.attrs.map SMethodAttr.raw).length < 65536 := by simpa using h7
  obtain ⟨mr, hloop, hR⟩ := attrLoopRel_enc (readMethodAttrs p bsms) (readMethodAttr p bsms) (fun _ _ => rfl) (fun _ _ _ => rfl)
    SMethodAttr.raw SMethodAttr.apply MRel m.attrs
    (fun a ha sr st st' r hR hs => readMethodAttr_enc p bsms a (h8 a ha) sr st st' r hR hs)
    ⟨m.access &&& maskMethod, m.name, m.desc, false, false, none, none, none, [], [], [], [], none, none, []⟩ _ mf
    ⟨rfl, Or.inl ⟨rfl, rfl⟩⟩ hfacts r
  refine ⟨mr, ?_, hR.resolve⟩
  simp only [readMethod, MethodLayout.encode, encAttrs, List.append_assoc, u16_be16 _ h1, u16_be16 _ h2, ok_bind, h4, checked, h5,
    if_true, readUtf8Ref, u16_be16 _ h3, h6, pure_eq, u16_be16 _ hn]
  simpa using hloop

/-- the reader's class-attribute state corresponds to the accumulated description -/
def CRel (st : ClassAttrState) (acc : ClassAcc) : Prop :=
  st.facts = acc.1 ∧ st.bsms = acc.2.1 ∧ st.hadRecord = acc.2.2

theorem readInner_enc (p : Pool) (e : SInner) (he : e.Legal p) (r : Bytes) :
    readInnerClass p (e.encode ++ r) = ok (⟨e.inner, e.outer, e.name, e.flags &&& maskInner⟩, r) := by
  obtain ⟨h1, h2, h3, h4, h5, h6, h7⟩ := he
  simp [readInnerClass, SInner.encode, readClassRef, readOptUtf8, u16_be16 _ h1, u16_be16 _ h2, u16_be16 _ h3, u16_be16 _ h4, h5, h6, h7]

theorem readBsm_enc (p : Pool) (m : SBsm) (hm : m.Legal p) (r : Bytes) :
    readBsm p (m.encode ++ r) = ok (⟨m.handle, m.args⟩, r) := by
  obtain ⟨h1, h2, h3, h4⟩ := hm
  have := readVec16_flatMap u16 be16 id m.args h3 (fun a ha r => u16_be16 a (h4 a ha) r) r
  simp only [List.map_id, List.append_assoc] at this
  simp [readBsm, SBsm.encode, u16_be16 _ h1, h2, this]

theorem readClassAttr_enc (p : Pool) (a : SClassAttr) (ha : a.Legal p) (st : ClassAttrState) (acc acc' : ClassAcc) (r : Bytes)
    (hR : CRel st acc) (h : a.apply acc = some acc') :
    ∃ st', readClassAttr p st (attrFrame a.raw.1 a.raw.2 ++ r) = ok (st', r) ∧ CRel st' acc' := by
  obtain ⟨hf, hb, hrec⟩ := hR
  cases a with
  | deprecated nc =>
    obtain ⟨h1, h2⟩ := ha
    simp only [SClassAttr.apply, Option.some.injEq] at h; subst h
    exact ⟨{ st with facts := { st.facts with deprecated := true } },
      by simp [readClassAttr, SClassAttr.raw, attrFrame, u16_be16 _ h1, h2, u32_be32 0 (by decide)],
      by simp [hf], hb, hrec⟩
  | synthetic nc =>
    obtain ⟨h1, h2⟩ := ha
    simp only [SClassAttr.apply, Option.some.injEq] at h; subst h
    exact ⟨{ st with facts := { st.facts with synthetic := true } },
      by simp [readClassAttr, SClassAttr.raw, attrFrame, u16_be16 _ h1, h2, u32_be32 0 (by decide), classNe_Synthetic],
      by simp [hf], hb, hrec⟩
  | sourceFile nc cp s =>
    obtain ⟨h1, h2, h3, h4⟩ := ha
    obtain ⟨n1, n2, n3, n4, n5⟩ := classNe_SourceFile
    simp only [SClassAttr.apply] at h
    cases hc : acc.1.sourceFile with
    | some _ => simp [hc] at h
    | none =>
      simp only [hc, Option.isNone_none, if_true, Option.some.injEq] at h; subst h
      have hc' : st.facts.sourceFile = none := by rw [hf]; exact hc
      exact ⟨{ st with facts := { st.facts with sourceFile := some s } },
        by simp [readClassAttr, SClassAttr.raw, attrFrame, u16_be16 _ h1, h2, be16_length, u32_be32 2 (by decide), n1, n2, n3, n4, n5,
          readUtf8Ref, u16_be16 _ h3, h4, hc', insertIfEmpty_none],
        by simp [hf], hb, hrec⟩
  | signature nc cp s =>
    obtain ⟨h1, h2, h3, h4⟩ := ha
    obtain ⟨n1, n2, n3, n4⟩ := classNe_Signature
    simp only [SClassAttr.apply] at h
    cases hc : acc.1.signature with
    | some _ => simp [hc] at h
    | none =>
      simp only [hc, Option.isNone_none, if_true, Option.some.injEq] at h; subst h
      have hc' : st.facts.signature = none := by rw [hf]; exact hc
      exact ⟨{ st with facts := { st.facts with signature := some s } },
        by simp [readClassAttr, SClassAttr.raw, attrFrame, u16_be16 _ h1, h2, be16_length, u32_be32 2 (by decide), n1, n2, n3, n4,
          readUtf8Ref, u16_be16 _ h3, h4, hc', insertIfEmpty_none],
        by simp [hf], hb, hrec⟩
  | innerClasses nc es =>
    obtain ⟨h1, h2, h3, h4⟩ := ha
    obtain ⟨n1, n2⟩ := classNe_InnerClasses
    simp only [SClassAttr.apply] at h
    cases hc : acc.1.innerClasses with
    | some _ => simp [hc] at h
    | none =>
      simp only [hc, Option.isNone_none, if_true, Option.some.injEq] at h; subst h
      have hc' : st.facts.innerClasses = none := by rw [hf]; exact hc
      have hbody : (be16 es.length ++ es.flatMap SInner.encode).length < 4294967296 := by
        have := length_flatMap_const SInner.encode 8 es (fun _ _ => by simp [SInner.encode, be16_length])
        simp [be16_length, this]; omega
      have hvec := readVec16_flatMap (readInnerClass p) SInner.encode
        (fun e => (⟨e.inner, e.outer, e.name, e.flags &&& maskInner⟩ : InnerClass)) es h3
        (fun e he r => readInner_enc p e (h4 e he) r) r
      simp only [List.append_assoc] at hvec
      exact ⟨{ st with facts := { st.facts with innerClasses := some (es.map fun e => ⟨e.inner, e.outer, e.name, e.flags &&& maskInner⟩) } },
        by simp only [readClassAttr, SClassAttr.raw, attrFrame, List.append_assoc, u16_be16 _ h1, ok_bind, h2, u32_be32 _ hbody,
          n1, n2, if_false, if_true, hvec, hc', insertIfEmpty_none, pure_eq],
        by simp [hf], hb, hrec⟩
  | enclosingMethod nc clsCp cls mCp m =>
    obtain ⟨h1, h2, h3, h4, h5, h6⟩ := ha
    obtain ⟨n1, n2, n3⟩ := classNe_EnclosingMethod
    simp only [SClassAttr.apply] at h
    cases hc : acc.1.enclosingMethod with
    | some _ => simp [hc] at h
    | none =>
      simp only [hc, Option.isNone_none, if_true, Option.some.injEq] at h; subst h
      have hc' : st.facts.enclosingMethod = none := by rw [hf]; exact hc
      exact ⟨{ st with facts := { st.facts with enclosingMethod := some (cls, m) } },
        by simp [readClassAttr, SClassAttr.raw, attrFrame, u16_be16 _ h1, h2, be16_length, u32_be32 4 (by decide), n1, n2, n3,
          readClassRef, u16_be16 _ h3, u16_be16 _ h4, h5, h6, hc', insertIfEmpty_none],
        by simp [hf], hb, hrec⟩
  | nestHost nc cp c =>
    obtain ⟨h1, h2, h3, h4⟩ := ha
    obtain ⟨n1, n2, n3, n4, n5, n6, n7, n8, n9, n10, n11, n12, n13, n14⟩ := classNe_NestHost
    simp only [SClassAttr.apply] at h
    cases hc : acc.1.nestHost with
    | some _ => simp [hc] at h
    | none =>
      simp only [hc, Option.isNone_none, if_true, Option.some.injEq] at h; subst h
      have hc' : st.facts.nestHost = none := by rw [hf]; exact hc
      exact ⟨{ st with facts := { st.facts with nestHost := some c } },
        by simp [readClassAttr, SClassAttr.raw, attrFrame, u16_be16 _ h1, h2, be16_length, u32_be32 2 (by decide),
          n1, n2, n3, n4, n5, n6, n7, n8, n9, n10, n11, n12, n13, n14, readClassRef, u16_be16 _ h3, h4, hc', insertIfEmpty_none],
        by simp [hf], hb, hrec⟩
  | nestMembers nc cps names =>
    obtain ⟨h1, h2, h3⟩ := ha
    obtain ⟨n1, n2, n3, n4, n5, n6, n7, n8, n9, n10, n11, n12, n13, n14, n15⟩ := classNe_NestMembers
    simp only [SClassAttr.apply] at h
    cases hc : acc.1.nestMembers with
    | some _ => simp [hc] at h
    | none =>
      simp only [hc, Option.isNone_none, if_true, Option.some.injEq] at h; subst h
      have hc' : st.facts.nestMembers = none := by rw [hf]; exact hc
      have hbody : (be16 cps.length ++ cps.flatMap be16).length < 4294967296 := by
        have := length_flatMap_const be16 2 cps (fun _ _ => rfl)
        have := h3.1
        simp [be16_length, *]; omega
      exact ⟨{ st with facts := { st.facts with nestMembers := some names } },
        by simp only [readClassAttr, SClassAttr.raw, attrFrame, List.append_assoc, u16_be16 _ h1, ok_bind, h2, u32_be32 _ hbody,
          n1, n2, n3, n4, n5, n6, n7, n8, n9, n10, n11, n12, n13, n14, n15, if_false, if_true,
          readExceptions_enc p cps names h3.1 h3.2.1 h3.2.2 r, hc', insertIfEmpty_none, pure_eq],
        by simp [hf], hb, hrec⟩
  | permittedSubclasses nc cps names =>
    obtain ⟨h1, h2, h3⟩ := ha
    obtain ⟨n1, n2, n3, n4, n5, n6, n7, n8, n9, n10, n11, n12, n13, n14, n15, n16⟩ := classNe_PermittedSubclasses
    simp only [SClassAttr.apply] at h
    cases hc : acc.1.permittedSubclasses with
    | some _ => simp [hc] at h
    | none =>
      simp only [hc, Option.isNone_none, if_true, Option.some.injEq] at h; subst h
      have hc' : st.facts.permittedSubclasses = none := by rw [hf]; exact hc
      have hbody : (be16 cps.length ++ cps.flatMap be16).length < 4294967296 := by
        have := length_flatMap_const be16 2 cps (fun _ _ => rfl)
        have := h3.1
        simp [be16_length, *]; omega
      exact ⟨{ st with facts := { st.facts with permittedSubclasses := some names } },
        by simp only [readClassAttr, SClassAttr.raw, attrFrame, List.append_assoc, u16_be16 _ h1, ok_bind, h2, u32_be32 _ hbody,
          n1, n2, n3, n4, n5, n6, n7, n8, n9, n10, n11, n12, n13, n14, n15, n16, if_false, if_true,
          readExceptions_enc p cps names h3.1 h3.2.1 h3.2.2 r, hc', insertIfEmpty_none, pure_eq],
        by simp [hf], hb, hrec⟩
  | bootstrapMethods nc ms =>
    obtain ⟨h1, h2, h3, h4, hbody⟩ := ha
    obtain ⟨n1, n2, n3, n4, n5, n6, n7, n8, n9, n10, n11, n12, n13, n14, n15, n16, n17, n18⟩ := classNe_BootstrapMethods
    simp only [SClassAttr.apply] at h
    cases hc : acc.2.1 with
    | some _ => simp [hc] at h
    | none =>
      simp only [hc, Option.isNone_none, if_true, Option.some.injEq] at h; subst h
      have hc' : st.bsms = none := by rw [hb]; exact hc
      have hvec := readVec16_flatMap (readBsm p) SBsm.encode (fun m => (⟨m.handle, m.args⟩ : Bsm)) ms h3
        (fun m hm r => readBsm_enc p m (h4 m hm) r) r
      simp only [List.append_assoc] at hvec
      exact ⟨{ st with bsms := some (ms.map fun m => ⟨m.handle, m.args⟩) },
        by simp only [readClassAttr, SClassAttr.raw, attrFrame, List.append_assoc, u16_be16 _ h1, ok_bind, h2, u32_be32 _ hbody,
          n1, n2, n3, n4, n5, n6, n7, n8, n9, n10, n11, n12, n13, n14, n15, n16, n17, n18, if_false, if_true,
          hvec, hc', insertIfEmpty_none, pure_eq],
        hf, rfl, hrec⟩
  | annotations nc visible as =>
    obtain ⟨h1, h2, h3, h4, h5⟩ := ha
    have hread := readAnnotations_enc p as h3 h4 r
    cases visible with
    | true =>
      obtain ⟨n1, n2, n3, n4, n5, n6, n7⟩ := classNe_RVA
      simp only [SClassAttr.apply, if_true, Option.some.injEq] at h; subst h
      simp only [if_true] at h2
      exact ⟨{ st with facts := { st.facts with rva := st.facts.rva ++ as.map SAnno.fact } },
        by simp only [readClassAttr, SClassAttr.raw, attrFrame, List.append_assoc, u16_be16 _ h1, ok_bind, h2, u32_be32 _ h5,
          n1, n2, n3, n4, n5, n6, n7, if_false, if_true, hread, pure_eq],
        by simp [hf], hb, hrec⟩
    | false =>
      obtain ⟨n1, n2, n3, n4, n5, n6, n7, n8⟩ := classNe_RIA
      simp only [SClassAttr.apply, Bool.false_eq_true, if_false, Option.some.injEq] at h; subst h
      simp only [Bool.false_eq_true, if_false] at h2
      exact ⟨{ st with facts := { st.facts with ria := st.facts.ria ++ as.map SAnno.fact } },
        by simp only [readClassAttr, SClassAttr.raw, attrFrame, List.append_assoc, u16_be16 _ h1, ok_bind, h2, u32_be32 _ h5,
          n1, n2, n3, n4, n5, n6, n7, n8, if_false, if_true, hread, pure_eq],
        by simp [hf], hb, hrec⟩
  | typeAnnotations nc visible as =>
    obtain ⟨h1, h2, h3, h4, h5⟩ := ha
    have hread : readTypeAnnos p readTargetClass (encTypeAnnos as ++ r) = ok (as.map STypeAnno.fact, r) :=
      readTypeAnnos_enc p .cls as h3 h4 r
    cases visible with
    | true =>
      obtain ⟨n1, n2, n3, n4, n5, n6, n7, n8, n9⟩ := classNe_RVTA
      simp only [SClassAttr.apply, if_true, Option.some.injEq] at h; subst h
      simp only [if_true] at h2
      exact ⟨{ st with facts := { st.facts with rvta := st.facts.rvta ++ as.map STypeAnno.fact } },
        by simp only [readClassAttr, SClassAttr.raw, attrFrame, List.append_assoc, u16_be16 _ h1, ok_bind, h2, u32_be32 _ h5,
          n1, n2, n3, n4, n5, n6, n7, n8, n9, if_false, if_true, hread, pure_eq],
        by simp [hf], hb, hrec⟩
    | false =>
      obtain ⟨n1, n2, n3, n4, n5, n6, n7, n8, n9, n10⟩ := classNe_RITA
      simp only [SClassAttr.apply, Bool.false_eq_true, if_false, Option.some.injEq] at h; subst h
      simp only [Bool.false_eq_true, if_false] at h2
      exact ⟨{ st with facts := { st.facts with rita := st.facts.rita ++ as.map STypeAnno.fact } },
        by simp only [readClassAttr, SClassAttr.raw, attrFrame, List.append_assoc, u16_be16 _ h1, ok_bind, h2, u32_be32 _ h5,
          n1, n2, n3, n4, n5, n6, n7, n8, n9, n10, if_false, if_true, hread, pure_eq],
        by simp [hf], hb, hrec⟩
  | sourceDebugExtension nc sde =>
    obtain ⟨h1, h2, h3, h4⟩ := ha
    obtain ⟨n1, n2, n3, n4, n5, n6⟩ := classNe_SourceDebugExtension
    simp only [SClassAttr.apply] at h
    cases hc : acc.1.sourceDebugExtension with
    | some _ => simp [hc] at h
    | none =>
      simp only [hc, Option.isNone_none, if_true, Option.some.injEq] at h; subst h
      have hc' : st.facts.sourceDebugExtension = none := by rw [hf]; exact hc
      exact ⟨{ st with facts := { st.facts with sourceDebugExtension := some sde } },
        by simp only [readClassAttr, SClassAttr.raw, attrFrame, List.append_assoc, u16_be16 _ h1, ok_bind, h2, u32_be32 _ h4,
          n1, n2, n3, n4, n5, n6, if_false, if_true, takeN_append, Mutf8.decode_encode sde h3, ofOption_some, hc', insertIfEmpty_none, pure_eq],
        by simp [hf], hb, hrec⟩
  | record nc comps =>
    obtain ⟨h1, h2, h3, h4, hbody⟩ := ha
    obtain ⟨n1, n2, n3, n4, n5, n6, n7, n8, n9, n10, n11, n12, n13, n14, n15, n16, n17⟩ := classNe_Record
    simp only [SClassAttr.apply] at h
    cases hr2 : acc.2.2 with
    | true => simp [hr2] at h
    | false =>
      cases hcs : mapOpt RecordLayout.facts comps with
      | none => simp [hr2, hcs] at h
      | some cs =>
        simp only [hr2, hcs, Bool.false_eq_true, if_false, Option.some.injEq] at h; subst h
        have hrec' : st.hadRecord = false := by rw [hrec]; exact hr2
        have hl := mapOpt_length _ _ _ hcs
        have hvec := readVec16_flatMap' (readRecordComponent p) RecordLayout.encode (fun c => (c.facts).getD default) comps h3
          (fun c hc r => by
            obtain ⟨k, hk, hk'⟩ := List.getElem_of_mem hc
            have hkf : comps[k]? = some c := by rw [List.getElem?_eq_getElem hk, hk']
            have hk2 : k < cs.length := by omega
            have := mapOpt_get _ _ _ hcs k c cs[k] hkf (by rw [List.getElem?_eq_getElem hk2])
            rw [this]
            exact readRecordComponent_enc p c (h4 c hc) cs[k] this r) r
        have hmap : comps.map (fun c => (c.facts).getD default) = cs := by
          apply List.ext_getElem?
          intro k
          by_cases hk : k < comps.length
          · have hk2 : k < cs.length := by omega
            have := mapOpt_get _ _ _ hcs k comps[k] cs[k] (by rw [List.getElem?_eq_getElem hk]) (by rw [List.getElem?_eq_getElem hk2])
            simp [List.getElem?_eq_getElem hk, List.getElem?_eq_getElem hk2, this]
          · have hk2 : ¬ k < cs.length := by omega
            simp [List.getElem?_eq_none (Nat.le_of_not_lt hk), List.getElem?_eq_none (Nat.le_of_not_lt hk2)]
        rw [hmap] at hvec
        exact ⟨{ st with facts := { st.facts with recordComponents := st.facts.recordComponents ++ cs }, hadRecord := true },
          by simp only [readClassAttr, SClassAttr.raw, attrFrame, List.append_assoc, u16_be16 _ h1, ok_bind, h2, u32_be32 _ hbody,
            n1, n2, n3, n4, n5, n6, n7, n8, n9, n10, n11, n12, n13, n14, n15, n16, n17, if_false, if_true, hrec', Bool.false_eq_true,
            hvec, pure_eq],
          by simp [hf], hb, rfl⟩
  | module nc m =>
    obtain ⟨h1, h2, h3, h4⟩ := ha
    obtain ⟨n1, n2, n3, n4, n5, n6, n7, n8, n9, n10, n11⟩ := classNe_Module
    simp only [SClassAttr.apply] at h
    cases hc : acc.1.module with
    | some _ => simp [hc] at h
    | none =>
      simp only [hc, Option.isNone_none, if_true, Option.some.injEq] at h; subst h
      have hc' : st.facts.module = none := by rw [hf]; exact hc
      exact ⟨{ st with facts := { st.facts with module := some m.fact } },
        by simp only [readClassAttr, SClassAttr.raw, attrFrame, List.append_assoc, u16_be16 _ h1, ok_bind, h2, u32_be32 _ h4,
          n1, n2, n3, n4, n5, n6, n7, n8, n9, n10, n11, if_false, if_true, readModule_enc p m h3 r, hc', insertIfEmpty_none, pure_eq],
        by simp [hf], hb, hrec⟩
  | modulePackages nc ps =>
    obtain ⟨h1, h2, h3⟩ := ha
    obtain ⟨n1, n2, n3, n4, n5, n6, n7, n8, n9, n10, n11, n12⟩ := classNe_ModulePackages
    simp only [SClassAttr.apply] at h
    cases hc : acc.1.modulePackages with
    | some _ => simp [hc] at h
    | none =>
      simp only [hc, Option.isNone_none, if_true, Option.some.injEq] at h; subst h
      have hc' : st.facts.modulePackages = none := by rw [hf]; exact hc
      have hbody : (encRefs ps).length < 4294967296 := by
        have := length_flatMap_const (fun x : Nat × JStr => be16 x.1) 2 ps (fun _ _ => rfl)
        have := h3.1
        simp [encRefs, be16_length, *]; omega
      exact ⟨{ st with facts := { st.facts with modulePackages := some (ps.map (·.2)) } },
        by simp only [readClassAttr, SClassAttr.raw, attrFrame, List.append_assoc, u16_be16 _ h1, ok_bind, h2, u32_be32 _ hbody,
          n1, n2, n3, n4, n5, n6, n7, n8, n9, n10, n11, n12, if_false, if_true, readPackageRefs_enc p ps h3 r, hc', insertIfEmpty_none, pure_eq],
        by simp [hf], hb, hrec⟩
  | moduleMainClass nc cp c =>
    obtain ⟨h1, h2, h3, h4⟩ := ha
    obtain ⟨n1, n2, n3, n4, n5, n6, n7, n8, n9, n10, n11, n12, n13⟩ := classNe_ModuleMainClass
    simp only [SClassAttr.apply] at h
    cases hc : acc.1.moduleMainClass with
    | some _ => simp [hc] at h
    | none =>
      simp only [hc, Option.isNone_none, if_true, Option.some.injEq] at h; subst h
      have hc' : st.facts.moduleMainClass = none := by rw [hf]; exact hc
      exact ⟨{ st with facts := { st.facts with moduleMainClass := some c } },
        by simp [readClassAttr, SClassAttr.raw, attrFrame, u16_be16 _ h1, h2, be16_length, u32_be32 2 (by decide),
          n1, n2, n3, n4, n5, n6, n7, n8, n9, n10, n11, n12, n13, readClassRef, u16_be16 _ h3, h4, hc', insertIfEmpty_none],
        by simp [hf], hb, hrec⟩
  | unknown nc name b =>
    obtain ⟨h1, h2, hnot, hlen⟩ := ha
    simp only [classAttrNames, List.mem_cons, List.not_mem_nil, or_false, not_or] at hnot
    obtain ⟨n1, n2, n3, n4, n5, n6, n7, n8, n9, n10, n11, n12, n13, n14, n15, n16, n17, n18, n19⟩ := hnot
    simp only [SClassAttr.apply, Option.some.injEq] at h; subst h
    exact ⟨{ st with facts := { st.facts with attrs := st.facts.attrs ++ [⟨name, b⟩] } },
      by simp only [readClassAttr, SClassAttr.raw, attrFrame, List.append_assoc, u16_be16 _ h1, ok_bind, h2, u32_be32 _ hlen,
        n1, n2, n3, n4, n5, n6, n7, n8, n9, n10, n11, n12, n13, n14, n15, n16, n17, n18, n19, if_false, readUnknown, takeN_append,
        pure_eq],
      by simp [hf], hb, hrec⟩

end ClassRead
