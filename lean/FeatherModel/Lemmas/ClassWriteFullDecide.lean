import FeatherModel.Lemmas.ClassWriteFullMain

/-!
# C02 (whole writer) — the fragment predicate is decidable
-/

namespace ClassWriteFull
open ClassRead ClassRead.Spec

instance (f : FieldFacts) : Decidable (FieldOk f) :=
  decidable_of_iff (AnnosOk f.rva ∧ AnnosOk f.ria ∧ TypeAnnosOk .field f.rvta ∧ TypeAnnosOk .field f.rita ∧ f.access < 65536 ∧
      f.access &&& maskField = f.access ∧ validUnqualified f.name = true ∧ ∀ a ∈ f.attrs, a.name ∉ fieldAttrNames)
    ⟨fun ⟨a, b, c, d, e, g, h, i⟩ => ⟨a, b, c, d, e, g, h, i⟩, fun h => ⟨h.rva, h.ria, h.rvta, h.rita, h.access, h.mask, h.name, h.unknown⟩⟩

instance (r : MemberRef) : Decidable (fieldRefOk r) := by unfold fieldRefOk; infer_instance
instance (r : MemberRef) : Decidable (methodRefOk r) := by unfold methodRefOk; infer_instance
instance (h : ClassRead.Handle) : Decidable (handleOk h) := by unfold handleOk; infer_instance
instance (c : Loadable) : Decidable (loadableOk c) := by cases c <;> simp only [loadableOk] <;> infer_instance

mutual
def decLoadableOk2 : (c : Loadable) → Decidable (loadableOk2 c)
  | .cls _ => by unfold loadableOk2; infer_instance
  | .handle _ => by unfold loadableOk2; infer_instance
  | .dyn _ _ _ args => by
    unfold loadableOk2
    exact @instDecidableAnd _ _ inferInstance (@instDecidableAnd _ _ inferInstance (decLoadablesOk2 args))
  | .int _ => by unfold loadableOk2; infer_instance
  | .float _ => by unfold loadableOk2; infer_instance
  | .long _ => by unfold loadableOk2; infer_instance
  | .double _ => by unfold loadableOk2; infer_instance
  | .str _ => by unfold loadableOk2; infer_instance
  | .mtype _ => by unfold loadableOk2; infer_instance
def decLoadablesOk2 : (cs : List Loadable) → Decidable (loadablesOk2 cs)
  | [] => by unfold loadablesOk2; infer_instance
  | c :: cs => by
    unfold loadablesOk2
    exact @instDecidableAnd _ _ (decLoadableOk2 c) (decLoadablesOk2 cs)
end

instance (c : Loadable) : Decidable (loadableOk2 c) := decLoadableOk2 c
instance (cs : List Loadable) : Decidable (loadablesOk2 cs) := decLoadablesOk2 cs
instance (d : ClassRead.InvokeDynamic) : Decidable (indyOk d) := by unfold indyOk; infer_instance
instance (v : Int) : Decidable (inI8 v) := by unfold inI8; infer_instance
instance (v : Int) : Decidable (inI16 v) := by unfold inI16; infer_instance
instance (v : Int) : Decidable (inI32 v) := by unfold inI32; infer_instance
instance (i : ClassRead.Insn) : Decidable (insnOk i) := by cases i <;> simp only [insnOk] <;> infer_instance
instance (n : Nat) (v : Lv) : Decidable (lvOk n v) := by unfold lvOk; infer_instance

instance (c : Code) : Decidable (RCodeOk c) :=
  decidable_of_iff ((∀ e ∈ c.insns, insnOk e.insn ∧ (∀ t ∈ targetsOf e.insn, t < c.insns.length) ∧
        ∀ f, e.frame = some f → frameOkR c.insns.length f) ∧
      (c.insns.map fun e => maxSizeR e.insn).sum ≤ 32767 ∧ c.maxStack < 65536 ∧ c.maxLocals < 65536 ∧
      (∀ e ∈ c.exceptions, e.start < c.insns.length ∧ e.end_ ≤ c.insns.length ∧ e.handler < c.insns.length ∧
        ∀ cl, e.catch_ = some cl → validClassName cl = true) ∧
      (∀ ls, c.lines = some ls → ∀ e ∈ ls, e.1 < c.insns.length ∧ e.2 < 65536) ∧
      (∀ vs, c.locals = some vs → vs ≠ [] ∧
        vs = (vs.filter fun v => v.desc.isSome) ++ (vs.filter fun v => v.sig.isSome) ∧ ∀ v ∈ vs, lvOk c.insns.length v) ∧
      CodeTypeAnnosOk id c.insns.length c.rvta ∧ CodeTypeAnnosOk id c.insns.length c.ritva ∧
      (∀ a ∈ c.attrs, a.name ∉ codeAttrNames) ∧ codeRefs c < 65535)
    ⟨fun ⟨a1, a2, a3, a4, a5, a6, a7, a8, a9, a10, a11⟩ => ⟨a1, a2, a3, a4, a5, a6, a7, a8, a9, a10, a11⟩,
     fun h => ⟨h.insns, h.size, h.maxStack, h.maxLocals, h.exceptions, h.lines, h.locals, h.rvta, h.ritva, h.attrs, h.refs⟩⟩

instance (c : Code) : Decidable (CodeOk c) := by
  unfold CodeOk
  split <;> infer_instance

instance (m : MethodFacts) : Decidable (MethodOk m) :=
  decidable_of_iff ((∀ c, m.code = some c → CodeOk c) ∧ AnnosOk m.rva ∧ AnnosOk m.ria ∧ TypeAnnosOk .method m.rvta ∧ TypeAnnosOk .method m.rita ∧
      (∀ v, m.annotationDefault = some v → v.ok ∧ v.depth ≤ 255) ∧
      m.access < 65536 ∧ m.access &&& maskMethod = m.access ∧ validMethodName m.name = true ∧
      (∀ es, m.exceptions = some es → ∀ e ∈ es, validClassName e = true) ∧
      (∀ ps, m.params = some ps → ∀ q ∈ ps, q.flags < 65536 ∧ q.flags &&& maskParam = q.flags ∧
        ∀ n, q.name = some n → validUnqualified n = true) ∧
      ∀ a ∈ m.attrs, a.name ∉ methodAttrNames)
    ⟨fun ⟨a, b, c, d, e, g, h, i, j, k, l, n⟩ => ⟨a, b, c, d, e, g, h, i, j, k, l, n⟩,
     fun h => ⟨h.code, h.rva, h.ria, h.rvta, h.rita, h.annotationDefault, h.access, h.mask, h.name, h.exceptions, h.params, h.unknown⟩⟩

instance (r : RecordComponent) : Decidable (RecordOk r) :=
  decidable_of_iff (AnnosOk r.rva ∧ AnnosOk r.ria ∧ TypeAnnosOk .field r.rvta ∧ TypeAnnosOk .field r.rita ∧
      ∀ a ∈ r.attrs, a.name ∉ recordAttrNames)
    ⟨fun ⟨a, b, c, d, e⟩ => ⟨a, b, c, d, e⟩, fun h => ⟨h.rva, h.ria, h.rvta, h.rita, h.unknown⟩⟩

instance (m : Module) : Decidable (ModuleOk m) :=
  decidable_of_iff ((m.flags < 65536 ∧ m.flags &&& maskModule = m.flags) ∧
      (∀ r ∈ m.requires, r.flags < 65536 ∧ r.flags &&& maskRequires = r.flags) ∧
      (∀ e ∈ m.exports, e.flags < 65536 ∧ e.flags &&& maskExports = e.flags) ∧
      (∀ e ∈ m.opens, e.flags < 65536 ∧ e.flags &&& maskExports = e.flags) ∧
      (∀ c ∈ m.uses, validClassName c = true) ∧
      ∀ e ∈ m.provides, validClassName e.name = true ∧ ∀ c ∈ e.with_, validClassName c = true)
    ⟨fun ⟨a, b, c, d, e, f⟩ => ⟨a, b, c, d, e, f⟩, fun h => ⟨h.flags, h.requires, h.exports, h.opens, h.uses, h.provides⟩⟩

instance (e : InnerClass) : Decidable (InnerOk e) := by unfold InnerOk; infer_instance

instance (t : ClassFacts) : Decidable (ClassOk t) :=
  decidable_of_iff ((t.minor < 65536 ∧ t.major < 65536 ∧ (t.major < 67 ∨ (t.major = 67 ∧ t.minor = 0))) ∧ t.access < 65536 ∧
      t.access &&& maskClass = t.access ∧ validObjClassName t.name = true ∧ (∀ s, t.super = some s → validObjClassName s = true) ∧
      (∀ i ∈ t.interfaces, validObjClassName i = true) ∧ (∀ f ∈ t.fields, FieldOk f) ∧ (∀ m ∈ t.methods, MethodOk m) ∧
      (∀ es, t.innerClasses = some es → ∀ e ∈ es, InnerOk e) ∧
      (∀ em, t.enclosingMethod = some em → validClassName em.1 = true ∧ ∀ nd, em.2 = some nd → validMethodName nd.1 = true) ∧
      (∀ s, t.sourceDebugExtension = some s → Mutf8.Encodable s = true) ∧
      AnnosOk t.rva ∧ AnnosOk t.ria ∧ TypeAnnosOk .cls t.rvta ∧ TypeAnnosOk .cls t.rita ∧ (∀ m, t.module = some m → ModuleOk m) ∧
      (∀ c, t.moduleMainClass = some c → validClassName c = true) ∧ (∀ c, t.nestHost = some c → validClassName c = true) ∧
      (∀ cs, t.nestMembers = some cs → ∀ c ∈ cs, validClassName c = true) ∧
      (∀ cs, t.permittedSubclasses = some cs → ∀ c ∈ cs, validClassName c = true) ∧
      (∀ r ∈ t.recordComponents, RecordOk r) ∧ ∀ a ∈ t.attrs, a.name ∉ classAttrNames)
    ⟨fun ⟨a1, a2, a3, a4, a5, a6, a7, a8, a9, a10, a11, a12, a13, a14, a15, a16, a17, a18, a19, a20, a21, a22⟩ =>
      ⟨a1, a2, a3, a4, a5, a6, a7, a8, a9, a10, a11, a12, a13, a14, a15, a16, a17, a18, a19, a20, a21, a22⟩,
     fun h => ⟨h.version, h.access, h.mask, h.name, h.super, h.interfaces, h.fields, h.methods, h.inner, h.enclosing, h.sde,
       h.rva, h.ria, h.rvta, h.rita, h.module, h.mainClass, h.nestHost, h.nestMembers, h.permitted, h.record, h.unknown⟩⟩

instance (e : PoolEntry) : Decidable (PoolEntryOk e) := by
  cases e <;> simp only [PoolEntryOk, inI32, inI64] <;> infer_instance

instance (p : Pool) : Decidable (PoolAllOk p) := by unfold PoolAllOk; infer_instance

instance (t : ClassFacts) : Decidable (PoolOkOf t) := by
  unfold PoolOkOf
  split <;> infer_instance

instance (t : ClassFacts) : Decidable (InWriterFragment t) := by unfold InWriterFragment; infer_instance

end ClassWriteFull
