import FeatherModel.Lemmas.ClassWriteFullMain

/-!
# C02 (whole writer) — the fragment predicate is decidable
-/

namespace ClassWriteFull
open ClassRead ClassRead.Spec

instance (f : FieldFacts) : Decidable (FieldOk f) :=
  decidable_of_iff (AnnosOk f.rva ∧ AnnosOk f.ria ∧ TypeAnnosOk .field f.rvta ∧ TypeAnnosOk .field f.rita ∧ f.access < 65536 ∧
      f.access &&& maskField = f.access ∧ validUnqualified f.name = true ∧ ∀ a ∈ f.attrs, a.name ∉ fieldAttrNames)
    ⟨fun ⟨a, b, c, d, e, g, h, i⟩ => ⟨a, b, c, d, e, g, h, i⟩, fun h => ⟨h.rva, h.ria, h.rvta, h.rita, h.access, h.mask, h.name, h.unknown⟩⟩

instance (m : MethodFacts) : Decidable (MethodOk m) :=
  decidable_of_iff (m.code = none ∧ AnnosOk m.rva ∧ AnnosOk m.ria ∧ TypeAnnosOk .method m.rvta ∧ TypeAnnosOk .method m.rita ∧
      (∀ v, m.annotationDefault = some v → v.ok ∧ v.depth ≤ 255) ∧
      m.access < 65536 ∧ m.access &&& maskMethod = m.access ∧ validMethodName m.name = true ∧
      (∀ es, m.exceptions = some es → ∀ e ∈ es, validClassName e = true) ∧
      (∀ ps, m.params = some ps → ∀ q ∈ ps, q.flags < 65536 ∧ q.flags &&& maskParam = q.flags ∧
        ∀ n, q.name = some n → validUnqualified n = true) ∧
      ∀ a ∈ m.attrs, a.name ∉ methodAttrNames)
    ⟨fun ⟨a, b, c, d, e, g, h, i, j, k, l, n⟩ => ⟨a, b, c, d, e, g, h, i, j, k, l, n⟩,
     fun h => ⟨h.code, h.rva, h.ria, h.rvta, h.rita, h.annotationDefault, h.access, h.mask, h.name, h.exceptions, h.params, h.unknown⟩⟩

instance (e : InnerClass) : Decidable (InnerOk e) := by unfold InnerOk; infer_instance

instance (t : ClassFacts) : Decidable (ClassOk t) :=
  decidable_of_iff ((t.minor < 65536 ∧ t.major < 65536 ∧ (t.major < 67 ∨ (t.major = 67 ∧ t.minor = 0))) ∧ t.access < 65536 ∧
      t.access &&& maskClass = t.access ∧ validObjClassName t.name = true ∧ (∀ s, t.super = some s → validObjClassName s = true) ∧
      (∀ i ∈ t.interfaces, validObjClassName i = true) ∧ (∀ f ∈ t.fields, FieldOk f) ∧ (∀ m ∈ t.methods, MethodOk m) ∧
      (∀ es, t.innerClasses = some es → ∀ e ∈ es, InnerOk e) ∧
      (∀ em, t.enclosingMethod = some em → validClassName em.1 = true ∧ ∀ nd, em.2 = some nd → validMethodName nd.1 = true) ∧
      (∀ s, t.sourceDebugExtension = some s → Mutf8.Encodable s = true) ∧
      AnnosOk t.rva ∧ AnnosOk t.ria ∧ TypeAnnosOk .cls t.rvta ∧ TypeAnnosOk .cls t.rita ∧ t.module = none ∧
      (∀ c, t.moduleMainClass = some c → validClassName c = true) ∧ (∀ c, t.nestHost = some c → validClassName c = true) ∧
      (∀ cs, t.nestMembers = some cs → ∀ c ∈ cs, validClassName c = true) ∧
      (∀ cs, t.permittedSubclasses = some cs → ∀ c ∈ cs, validClassName c = true) ∧
      t.recordComponents = [] ∧ ∀ a ∈ t.attrs, a.name ∉ classAttrNames)
    ⟨fun ⟨a1, a2, a3, a4, a5, a6, a7, a8, a9, a10, a11, a12, a13, a14, a15, a16, a17, a18, a19, a20, a21, a22⟩ =>
      ⟨a1, a2, a3, a4, a5, a6, a7, a8, a9, a10, a11, a12, a13, a14, a15, a16, a17, a18, a19, a20, a21, a22⟩,
     fun h => ⟨h.version, h.access, h.mask, h.name, h.super, h.interfaces, h.fields, h.methods, h.inner, h.enclosing, h.sde,
       h.rva, h.ria, h.rvta, h.rita, h.module, h.mainClass, h.nestHost, h.nestMembers, h.permitted, h.record, h.unknown⟩⟩

instance (e : PoolEntry) : Decidable (PoolEntryOk e) := by
  cases e <;> simp only [PoolEntryOk, inI32, inI64] <;> infer_instance

instance (p : Pool) : Decidable (PoolAllOk p) := by unfold PoolAllOk; infer_instance

instance (t : ClassFacts) : Decidable (PoolOkOf t) := by
  unfold PoolOkOf
  split <;> infer_instance

instance (t : ClassFacts) : Decidable (InWriterFragment t) := by unfold InWriterFragment; infer_instance

end ClassWriteFull
