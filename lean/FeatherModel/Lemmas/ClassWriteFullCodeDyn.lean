import FeatherModel.Lemmas.ClassWriteFullCodePool
import FeatherModel.Lemmas.BootstrapWrite

/-!
# C02 (whole writer) — `Dynamic` constants, `invokedynamic` and the bootstrap-method table

`put_bootstrap_method` collects `(handle, argument indices)` rows while the members are written; the row index goes into
the `Dynamic` / `InvokeDynamic` pool entry, the handles enter the pool only when the `BootstrapMethods` attribute is
written.  `bsTable bs` is the table the reader gets from that attribute; the rows only ever grow at the end (`BsExt`),
so an index handed out keeps its row in the final table.
-/

namespace ClassWriteFull
open PoolWrite (Entry)
open FramePool (Good Le)
open ClassRead ClassRead.Spec

/-- the handle of a row as the reader resolves it -/
def rdHandle (h : BootstrapWrite.Handle) : ClassRead.Handle :=
  ⟨h.kind, ⟨h.cls, h.name, h.desc⟩, decide ((h.kind = 6 ∨ h.kind = 7) ∧ h.refKind = 11)⟩

theorem rdHandle_handleOf {h : ClassRead.Handle} (hok : handleOk h) : rdHandle (handleOf h) = h := by
  obtain ⟨kind, ⟨cls, name, desc⟩, itf⟩ := h
  obtain ⟨h1, h9, hitf, _⟩ := hok
  simp only at h1 h9 hitf
  simp only [rdHandle, handleOf]
  congr 1
  by_cases h67 : kind = 6 ∨ kind = 7
  · have h4 : ¬ kind ≤ 4 := by omega
    have h9' : ¬ kind = 9 := by omega
    cases itf <;> simp [h67, h4, h9']
  · have := hitf (by omega)
    subst this
    simp [h67]

def rdBsm (b : Bsm) : ClassRead.Bsm := ⟨rdHandle b.handle, b.args⟩

/-- the bootstrap table the reader has: `none` without a `BootstrapMethods` attribute (written only when a row exists) -/
def bsTable (bs : List Bsm) : Option (List ClassRead.Bsm) := if bs.isEmpty then none else some (bs.map rdBsm)

/-- the table only grows at the end -/
def BsExt (bs bs' : List Bsm) : Prop := ∃ r, bs' = bs ++ r

theorem BsExt.refl (bs : List Bsm) : BsExt bs bs := ⟨[], by simp⟩
theorem BsExt.trans {a b c : List Bsm} : BsExt a b → BsExt b c → BsExt a c
  | ⟨r, hr⟩, ⟨s, hs⟩ => ⟨r ++ s, by rw [hs, hr, List.append_assoc]⟩
theorem BsExt.get {bs bs' : List Bsm} (h : BsExt bs bs') {i : Nat} {b : Bsm} (hi : bs[i]? = some b) : bs'[i]? = some b := by
  obtain ⟨r, rfl⟩ := h
  have hlt : i < bs.length := (List.getElem?_eq_some_iff.mp hi).1
  rw [List.getElem?_append_left hlt]
  exact hi

/-- rows the reader accepts: at most 65536 of them, handles of the tree (`handleOk`), argument indices in `u16` -/
structure BsOk (bs : List Bsm) : Prop where
  len : bs.length ≤ 65536
  handles : ∀ b ∈ bs, ∃ h : ClassRead.Handle, handleOk h ∧ b.handle = handleOf h
  args : ∀ b ∈ bs, ∀ a ∈ b.args, a < 65536

theorem bsOk_nil : BsOk [] := ⟨by simp, by simp, by simp⟩

theorem bput_spec {bs bs' : List Bsm} {b : Bsm} {i : Nat} (hok : BsOk bs) (hh : ∃ h, handleOk h ∧ b.handle = handleOf h)
    (ha : ∀ a ∈ b.args, a < 65536) (h : BootstrapWrite.put bs b = some (i, bs')) :
    BsExt bs bs' ∧ BsOk bs' ∧ bs'[i]? = some b ∧ i < 65536 := by
  have hg := BootstrapWrite.put_get h
  have hr := BootstrapWrite.put_range hok.len h
  unfold BootstrapWrite.put at h
  split at h
  · cases h
    exact ⟨BsExt.refl _, hok, hg, by omega⟩
  · split at h
    · cases h
    · cases h
      refine ⟨⟨[b], rfl⟩, ⟨hr.2, ?_, ?_⟩, hg, by omega⟩
      · intro x hx
        rcases List.mem_append.mp hx with hx | hx
        · exact hok.handles x hx
        · simp at hx; subst hx; exact hh
      · intro x hx
        rcases List.mem_append.mp hx with hx | hx
        · exact hok.args x hx
        · simp at hx; subst hx; exact ha

theorem bsTable_get {bs : List Bsm} {i : Nat} {b : Bsm} (h : bs[i]? = some b) :
    Pool.bsmAt (bsTable bs) i = .ok (rdBsm b) := by
  have hne : bs.isEmpty = false := by
    cases bs with
    | nil => simp at h
    | cons _ _ => rfl
  simp [bsTable, hne, Pool.bsmAt, h, Outcome.ofOption]

/-! ## loadable constants, `Dynamic` included -/

mutual
/-- nesting of `Dynamic` constants through bootstrap arguments -/
def ldepth : Loadable → Nat
  | .dyn _ _ _ args => ldepths args + 1
  | .int _ => 0 | .float _ => 0 | .long _ => 0 | .double _ => 0 | .cls _ => 0 | .str _ => 0 | .handle _ => 0 | .mtype _ => 0
def ldepths : List Loadable → Nat
  | [] => 0
  | a :: as => max (ldepth a) (ldepths as)
end

mutual
/-- names the reader validates inside a loadable constant -/
def loadableOk2 : Loadable → Prop
  | .cls c => validClassName c = true
  | .handle h => handleOk h
  | .dyn name _ h args => validUnqualified name = true ∧ handleOk h ∧ loadablesOk2 args
  | .int _ => True | .float _ => True | .long _ => True | .double _ => True | .str _ => True | .mtype _ => True
def loadablesOk2 : List Loadable → Prop
  | [] => True
  | a :: as => loadableOk2 a ∧ loadablesOk2 as
end

mutual
/-- what pool index `i` holds for a loadable constant, given the bootstrap rows so far -/
def LoadableAt2 (p : Pool) (bs : List Bsm) : Nat → Loadable → Prop
  | i, .dyn name desc h args => ∃ b nt as, p.get i = some (.dynamic b nt) ∧ NatAt p nt name desc ∧
      bs[b]? = some ⟨handleOf h, as⟩ ∧ LoadablesAt2 p bs as args
  | i, .int v => LoadableAt p i (.int v)
  | i, .float v => LoadableAt p i (.float v)
  | i, .long v => LoadableAt p i (.long v)
  | i, .double v => LoadableAt p i (.double v)
  | i, .cls c => LoadableAt p i (.cls c)
  | i, .str s => LoadableAt p i (.str s)
  | i, .handle h => LoadableAt p i (.handle h)
  | i, .mtype d => LoadableAt p i (.mtype d)
def LoadablesAt2 (p : Pool) (bs : List Bsm) : List Nat → List Loadable → Prop
  | [], [] => True
  | a :: as, c :: cs => LoadableAt2 p bs a c ∧ LoadablesAt2 p bs as cs
  | [], _ :: _ => False
  | _ :: _, [] => False
end

mutual
theorem LoadableAt2.mono {p q : Pool} {bs bs' : List Bsm} (hl : Le p q) (hb : BsExt bs bs') :
    ∀ {i : Nat} (c : Loadable), LoadableAt2 p bs i c → LoadableAt2 q bs' i c
  | i, .dyn name desc h args, ha => by
    simp only [LoadableAt2] at ha ⊢
    obtain ⟨b, nt, as, h1, h2, h3, h4⟩ := ha
    exact ⟨b, nt, as, hl _ _ h1, h2.mono hl, hb.get h3, LoadablesAt2.mono hl hb as args h4⟩
  | i, .int v, ha => by simp only [LoadableAt2] at ha ⊢; exact ha.mono hl
  | i, .float v, ha => by simp only [LoadableAt2] at ha ⊢; exact ha.mono hl
  | i, .long v, ha => by simp only [LoadableAt2] at ha ⊢; exact ha.mono hl
  | i, .double v, ha => by simp only [LoadableAt2] at ha ⊢; exact ha.mono hl
  | i, .cls c, ha => by simp only [LoadableAt2] at ha ⊢; exact ha.mono hl
  | i, .str s, ha => by simp only [LoadableAt2] at ha ⊢; exact ha.mono hl
  | i, .handle h, ha => by simp only [LoadableAt2] at ha ⊢; exact ha.mono hl
  | i, .mtype d, ha => by simp only [LoadableAt2] at ha ⊢; exact ha.mono hl
theorem LoadablesAt2.mono {p q : Pool} {bs bs' : List Bsm} (hl : Le p q) (hb : BsExt bs bs') :
    ∀ (as : List Nat) (cs : List Loadable), LoadablesAt2 p bs as cs → LoadablesAt2 q bs' as cs
  | [], [], _ => by simp only [LoadablesAt2]
  | a :: as, c :: cs, ha => by
    simp only [LoadablesAt2] at ha ⊢
    exact ⟨LoadableAt2.mono hl hb c ha.1, LoadablesAt2.mono hl hb as cs ha.2⟩
  | [], _ :: _, ha => by simp only [LoadablesAt2] at ha
  | _ :: _, [], ha => by simp only [LoadablesAt2] at ha
end

/-- a loadable constant that is not `Dynamic`: the statements of `ClassWriteFullCodePool` apply -/
theorem loadable_base {c : Loadable} (hd : ldepth c = 0) : (loadableOk2 c ↔ loadableOk c) ∧
    ∀ p bs i, (LoadableAt2 p bs i c ↔ LoadableAt p i c) := by
  cases c with
  | dyn n d h args => simp [ldepth] at hd
  | int v => exact ⟨by simp [loadableOk2, loadableOk], fun _ _ _ => by simp [LoadableAt2]⟩
  | float v => exact ⟨by simp [loadableOk2, loadableOk], fun _ _ _ => by simp [LoadableAt2]⟩
  | long v => exact ⟨by simp [loadableOk2, loadableOk], fun _ _ _ => by simp [LoadableAt2]⟩
  | double v => exact ⟨by simp [loadableOk2, loadableOk], fun _ _ _ => by simp [LoadableAt2]⟩
  | cls v => exact ⟨by simp [loadableOk2, loadableOk], fun _ _ _ => by simp [LoadableAt2]⟩
  | str v => exact ⟨by simp [loadableOk2, loadableOk], fun _ _ _ => by simp [LoadableAt2]⟩
  | handle v => exact ⟨by simp [loadableOk2, loadableOk], fun _ _ _ => by simp [LoadableAt2]⟩
  | mtype v => exact ⟨by simp [loadableOk2, loadableOk], fun _ _ _ => by simp [LoadableAt2]⟩

/-! ## the puts -/

mutual
/-- **`put_loadable`**, `Dynamic` constants included: the returned index holds the constant, new bootstrap rows are
appended, every row stays acceptable -/
theorem putLoadable_spec2 : ∀ (c : Loadable) {p p' : Pool} {bs bs' : List Bsm} {i : Nat}, Good p → BsOk bs → loadableOk2 c →
    putLoadable p bs c = .ok (i, p', bs') →
    Step p p' ∧ BsExt bs bs' ∧ BsOk bs' ∧ LoadableAt2 p' bs' i c ∧ i < 65536
  | .dyn name desc h args, p, p', bs, bs', i, hg, hb, hok, hp => by
    simp only [loadableOk2] at hok
    rw [putLoadable] at hp
    split at hp
    · cases hp
    · rename_i nt p1 h1
      split at hp
      · cases hp
      · rename_i as p2 bs2 h2
        split at hp
        · cases hp
        · rename_i b bs3 h3
          split at hp
          · cases hp
          · rename_i i' p3 h4
            have := ok_inj.mp hp
            simp only [Prod.mk.injEq] at this
            obtain ⟨rfl, rfl, rfl⟩ := this
            obtain ⟨s1, a1, _⟩ := putNameAndType_spec hg h1
            obtain ⟨s2, e2, o2, a2, hlt2⟩ := putLoadables_spec2 args s1.good hb hok.2.2 h2
            obtain ⟨e3, o3, g3, hb3⟩ := bput_spec (b := ⟨handleOf h, as⟩) o2 ⟨h, hok.2.1, rfl⟩ hlt2 h3
            obtain ⟨s4, a4, hi4⟩ := put_spec s2.good h4
            refine ⟨s1.trans (s2.trans s4), e2.trans e3, o3, ?_, hi4⟩
            simp only [LoadableAt2]
            exact ⟨b, nt, as, a4, a1.mono (s2.trans s4).le, g3, LoadablesAt2.mono s4.le e3 as args a2⟩
  | .int v, p, p', bs, bs', i, hg, hb, hok, hp => by
    obtain ⟨rfl, s, a, hi⟩ := putLoadable_spec hg ((loadable_base rfl).1.mp hok) hp
    exact ⟨s, BsExt.refl _, hb, ((loadable_base rfl).2 _ _ _).mpr a, hi⟩
  | .float v, p, p', bs, bs', i, hg, hb, hok, hp => by
    obtain ⟨rfl, s, a, hi⟩ := putLoadable_spec hg ((loadable_base rfl).1.mp hok) hp
    exact ⟨s, BsExt.refl _, hb, ((loadable_base rfl).2 _ _ _).mpr a, hi⟩
  | .long v, p, p', bs, bs', i, hg, hb, hok, hp => by
    obtain ⟨rfl, s, a, hi⟩ := putLoadable_spec hg ((loadable_base rfl).1.mp hok) hp
    exact ⟨s, BsExt.refl _, hb, ((loadable_base rfl).2 _ _ _).mpr a, hi⟩
  | .double v, p, p', bs, bs', i, hg, hb, hok, hp => by
    obtain ⟨rfl, s, a, hi⟩ := putLoadable_spec hg ((loadable_base rfl).1.mp hok) hp
    exact ⟨s, BsExt.refl _, hb, ((loadable_base rfl).2 _ _ _).mpr a, hi⟩
  | .cls v, p, p', bs, bs', i, hg, hb, hok, hp => by
    obtain ⟨rfl, s, a, hi⟩ := putLoadable_spec hg ((loadable_base rfl).1.mp hok) hp
    exact ⟨s, BsExt.refl _, hb, ((loadable_base rfl).2 _ _ _).mpr a, hi⟩
  | .str v, p, p', bs, bs', i, hg, hb, hok, hp => by
    obtain ⟨rfl, s, a, hi⟩ := putLoadable_spec hg ((loadable_base rfl).1.mp hok) hp
    exact ⟨s, BsExt.refl _, hb, ((loadable_base rfl).2 _ _ _).mpr a, hi⟩
  | .handle v, p, p', bs, bs', i, hg, hb, hok, hp => by
    obtain ⟨rfl, s, a, hi⟩ := putLoadable_spec hg ((loadable_base rfl).1.mp hok) hp
    exact ⟨s, BsExt.refl _, hb, ((loadable_base rfl).2 _ _ _).mpr a, hi⟩
  | .mtype v, p, p', bs, bs', i, hg, hb, hok, hp => by
    obtain ⟨rfl, s, a, hi⟩ := putLoadable_spec hg ((loadable_base rfl).1.mp hok) hp
    exact ⟨s, BsExt.refl _, hb, ((loadable_base rfl).2 _ _ _).mpr a, hi⟩
theorem putLoadables_spec2 : ∀ (cs : List Loadable) {p p' : Pool} {bs bs' : List Bsm} {is : List Nat}, Good p → BsOk bs →
    loadablesOk2 cs → putLoadables p bs cs = .ok (is, p', bs') →
    Step p p' ∧ BsExt bs bs' ∧ BsOk bs' ∧ LoadablesAt2 p' bs' is cs ∧ ∀ i ∈ is, i < 65536
  | [], p, p', bs, bs', is, hg, hb, _, hp => by
    rw [putLoadables] at hp
    have := ok_inj.mp hp
    simp only [Prod.mk.injEq] at this
    obtain ⟨rfl, rfl, rfl⟩ := this
    exact ⟨Step.refl hg, BsExt.refl _, hb, by simp only [LoadablesAt2], by simp⟩
  | c :: cs, p, p', bs, bs', is, hg, hb, hok, hp => by
    simp only [loadablesOk2] at hok
    rw [putLoadables] at hp
    split at hp
    · cases hp
    · rename_i i p1 bs1 h1
      split at hp
      · cases hp
      · rename_i is' p2 bs2 h2
        have := ok_inj.mp hp
        simp only [Prod.mk.injEq] at this
        obtain ⟨rfl, rfl, rfl⟩ := this
        obtain ⟨s1, e1, o1, a1, hi1⟩ := putLoadable_spec2 c hg hb hok.1 h1
        obtain ⟨s2, e2, o2, a2, hi2⟩ := putLoadables_spec2 cs s1.good o1 hok.2 h2
        refine ⟨s1.trans s2, e1.trans e2, o2, ?_, ?_⟩
        · simp only [LoadablesAt2]
          exact ⟨LoadableAt2.mono s2.le e2 c a1, a2⟩
        · intro x hx
          rcases List.mem_cons.mp hx with rfl | hx
          · exact hi1
          · exact hi2 x hx
end

/-! ## the reader's resolution -/

theorem getFieldNameAndType_of {q : Pool} (hq : Good q) {i : Nat} {n d : JStr} (h : NatAt q i n d)
    (hv : validUnqualified n = true) : (rpool q).getFieldNameAndType i = .ok (n, d) := by
  simp [Pool.getFieldNameAndType, getNameAndType_of hq h, checked, hv, bind, Outcome.bind]

mutual
/-- **`get_loadable`** with enough depth budget resolves a written index to the constant it was put for, bootstrap
arguments included -/
theorem getLoadableFuel_of2 {q : Pool} {bs : List Bsm} (hq : Good q) : ∀ (c : Loadable) {i : Nat} (fuel : Nat),
    LoadableAt2 q bs i c → loadableOk2 c → ldepth c < fuel → (rpool q).getLoadableFuel (bsTable bs) fuel i = .ok c
  | .dyn name desc h args, i, fuel, ha, hok, hd => by
    simp only [LoadableAt2] at ha
    simp only [loadableOk2] at hok
    simp only [ldepth] at hd
    obtain ⟨b, nt, as, h1, h2, h3, h4⟩ := ha
    cases fuel with
    | zero => omega
    | succ fuel =>
      rw [getLoadableFuel_succ]
      have hargs := mapArgs_of2 hq args as fuel h4 hok.2.2 (by omega)
      simp [rget_of_get hq.1 h1, conv, getFieldNameAndType_of hq h2 hok.1, bsTable_get h3, rdBsm, rdHandle_handleOf hok.2.1,
        hargs, bind, Outcome.bind]
  | .int v, i, fuel, ha, hok, hd => by
    cases fuel with
    | zero => omega
    | succ fuel =>
      have := getLoadable_of hq (bsTable bs) (((loadable_base rfl).2 _ _ _).mp ha) ((loadable_base rfl).1.mp hok)
      simp only [LoadableAt2, LoadableAt] at ha
      rw [getLoadableFuel_succ]
      simp [rget_of_get hq.1 ha, conv, bind, Outcome.bind]
  | .float v, i, fuel, ha, hok, hd => by
    cases fuel with
    | zero => omega
    | succ fuel =>
      simp only [LoadableAt2, LoadableAt] at ha
      rw [getLoadableFuel_succ]
      simp [rget_of_get hq.1 ha, conv, bind, Outcome.bind]
  | .long v, i, fuel, ha, hok, hd => by
    cases fuel with
    | zero => omega
    | succ fuel =>
      simp only [LoadableAt2, LoadableAt] at ha
      rw [getLoadableFuel_succ]
      simp [rget_of_get hq.1 ha, conv, bind, Outcome.bind]
  | .double v, i, fuel, ha, hok, hd => by
    cases fuel with
    | zero => omega
    | succ fuel =>
      simp only [LoadableAt2, LoadableAt] at ha
      rw [getLoadableFuel_succ]
      simp [rget_of_get hq.1 ha, conv, bind, Outcome.bind]
  | .cls c, i, fuel, ha, hok, hd => by
    cases fuel with
    | zero => omega
    | succ fuel =>
      simp only [LoadableAt2, LoadableAt] at ha
      simp only [loadableOk2] at hok
      have hc := getClass_of hq ha hok
      obtain ⟨u, a, b⟩ := ha
      rw [getLoadableFuel_succ]
      simp [rget_of_get hq.1 a, conv, hc, bind, Outcome.bind]
  | .str s, i, fuel, ha, hok, hd => by
    cases fuel with
    | zero => omega
    | succ fuel =>
      simp only [LoadableAt2, LoadableAt] at ha
      obtain ⟨u, a, b⟩ := ha
      rw [getLoadableFuel_succ]
      simp [rget_of_get hq.1 a, conv, getUtf8_of hq b, bind, Outcome.bind]
  | .handle h, i, fuel, ha, hok, hd => by
    cases fuel with
    | zero => omega
    | succ fuel =>
      simp only [LoadableAt2, LoadableAt] at ha
      simp only [loadableOk2] at hok
      have hc := getMethodHandle_of hq ha hok
      obtain ⟨ri, a, b⟩ := ha
      rw [getLoadableFuel_succ]
      simp [rget_of_get hq.1 a, conv, hc, bind, Outcome.bind]
  | .mtype d, i, fuel, ha, hok, hd => by
    cases fuel with
    | zero => omega
    | succ fuel =>
      simp only [LoadableAt2, LoadableAt] at ha
      obtain ⟨u, a, b⟩ := ha
      rw [getLoadableFuel_succ]
      simp [rget_of_get hq.1 a, conv, getUtf8_of hq b, bind, Outcome.bind]
theorem mapArgs_of2 {q : Pool} {bs : List Bsm} (hq : Good q) : ∀ (cs : List Loadable) (as : List Nat) (fuel : Nat),
    LoadablesAt2 q bs as cs → loadablesOk2 cs → ldepths cs < fuel →
    Pool.mapArgs ((rpool q).getLoadableFuel (bsTable bs) fuel) as = .ok cs
  | [], [], _, _, _, _ => rfl
  | c :: cs, a :: as, fuel, ha, hok, hd => by
    simp only [LoadablesAt2] at ha
    simp only [loadablesOk2] at hok
    simp only [ldepths] at hd
    have h1 := getLoadableFuel_of2 hq c fuel ha.1 hok.1 (by omega)
    have h2 := mapArgs_of2 hq cs as fuel ha.2 hok.2 (by omega)
    simp [Pool.mapArgs, h1, h2, bind, Outcome.bind]
  | [], _ :: _, _, ha, _, _ => by simp only [LoadablesAt2] at ha
  | _ :: _, [], _, ha, _, _ => by simp only [LoadablesAt2] at ha
end

/-! ## `invokedynamic` -/

def IndyAt (p : Pool) (bs : List Bsm) (i : Nat) (d : ClassRead.InvokeDynamic) : Prop :=
  ∃ b nt as, p.get i = some (.invokeDynamic b nt) ∧ NatAt p nt d.name d.desc ∧ bs[b]? = some ⟨handleOf d.handle, as⟩ ∧
    LoadablesAt2 p bs as d.args

theorem IndyAt.mono {p q : Pool} {bs bs' : List Bsm} (hl : Le p q) (hb : BsExt bs bs') {i : Nat} {d : ClassRead.InvokeDynamic} :
    IndyAt p bs i d → IndyAt q bs' i d
  | ⟨b, nt, as, h1, h2, h3, h4⟩ => ⟨b, nt, as, hl _ _ h1, h2.mono hl, hb.get h3, LoadablesAt2.mono hl hb as d.args h4⟩

/-- an `invokedynamic` call site the reader accepts: a valid method name, a handle of the tree, bootstrap arguments
nested at most 15 levels below the call site (the reader's `MAX_BOOTSTRAP_ARGUMENT_DEPTH`) -/
def indyOk (d : ClassRead.InvokeDynamic) : Prop :=
  validMethodName d.name = true ∧ handleOk d.handle ∧ loadablesOk2 d.args ∧ ldepths d.args < 16

theorem putInvokeDynamic_spec {p p' : Pool} {bs bs' : List Bsm} {d : ClassRead.InvokeDynamic} {i : Nat} (hg : Good p)
    (hb : BsOk bs) (hok : indyOk d) (h : putInvokeDynamic p bs d = .ok (i, p', bs')) :
    Step p p' ∧ BsExt bs bs' ∧ BsOk bs' ∧ IndyAt p' bs' i d ∧ i < 65536 := by
  obtain ⟨⟨nt, p1⟩, h1, h⟩ := bind_eq_ok.mp h
  obtain ⟨⟨as, p2, bs2⟩, h2, h⟩ := bind_eq_ok.mp h
  obtain ⟨⟨b, bs3⟩, h3, h⟩ := bind_eq_ok.mp h
  obtain ⟨⟨i', p3⟩, h4, h⟩ := bind_eq_ok.mp h
  have := pure_eq_ok.mp h
  simp only [Prod.mk.injEq] at this
  obtain ⟨rfl, rfl, rfl⟩ := this
  obtain ⟨s1, a1, _⟩ := putNameAndType_spec hg h1
  obtain ⟨s2, e2, o2, a2, hlt2⟩ := putLoadables_spec2 d.args s1.good hb hok.2.2.1 h2
  obtain ⟨e3, o3, g3, hb3⟩ := bput_spec (b := ⟨handleOf d.handle, as⟩) o2 ⟨d.handle, hok.2.1, rfl⟩ hlt2 (opt_eq_ok.mp h3)
  obtain ⟨s4, a4, hi4⟩ := put_spec s2.good h4
  exact ⟨s1.trans (s2.trans s4), e2.trans e3, o3,
    ⟨b, nt, as, a4, a1.mono (s2.trans s4).le, g3, LoadablesAt2.mono s4.le e3 as d.args a2⟩, hi4⟩

theorem getInvokeDynamic_of {q : Pool} {bs : List Bsm} (hq : Good q) {i : Nat} {d : ClassRead.InvokeDynamic}
    (ha : IndyAt q bs i d) (hok : indyOk d) : (rpool q).getInvokeDynamic (bsTable bs) i = .ok d := by
  obtain ⟨b, nt, as, h1, h2, h3, h4⟩ := ha
  have hargs := mapArgs_of2 hq d.args as 16 h4 hok.2.2.1 hok.2.2.2
  obtain ⟨name, desc, handle, args⟩ := d
  simp only at h2 h3 h4 hargs hok
  simp [Pool.getInvokeDynamic, rget_of_get hq.1 h1, conv, getMethodNameAndType_of' hq h2 hok.1, bsTable_get h3, rdBsm,
    rdHandle_handleOf hok.2.1, hargs, bind, Outcome.bind]
where
  getMethodNameAndType_of' {q : Pool} (hq : Good q) {i : Nat} {n d : JStr} (h : NatAt q i n d)
      (hv : validMethodName n = true) : (rpool q).getMethodNameAndType i = .ok (n, d) := by
    simp [Pool.getMethodNameAndType, getNameAndType_of hq h, checked, hv, bind, Outcome.bind]

end ClassWriteFull
