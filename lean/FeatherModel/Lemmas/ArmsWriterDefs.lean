import FeatherModel.Lemmas.ArmsDefs
import FeatherModel.Gen.WriterArms
import FeatherModel.Model.ClassWriteFull
import FeatherModel.Spec.CodeDecode

/-!
# Vocabulary of the translator tie (C02, writer side)

How `Gen/WriterArms.lean` (written by `translate/insn_arms_to_lean.py` from `write_code`) is read, and which JVMS instruction
a value of the writer model's instruction type stands for. Part of what the theorems of `Thm/C02.lean`, section
"generated tables", mean.
-/

namespace Arms

open JvmsTables

/-- what `write_code` does for one `Instruction` constructor -/
inductive WArm where
  /-- `Instruction::Y => w.write_u8(opcode::X)?` -/
  | unit (op : Nat)
  /-- opcode, then operands of the given widths; `put` = the pool function (same numbering as the reader's resolvers) -/
  | operands (op : Nat) (put : Nat) (widths : List Nat)
  /-- `if_helper`: the opcode and the opcode of the inverted condition (used in front of a `goto_w` when the offset is wide) -/
  | cond (op opposite : Nat)
  /-- `goto_helper`: narrow and wide opcode -/
  | jump (op wideOp : Nat)
  /-- local-variable family: `index < limit` → `((base - sub) << shift | index) + add`; index fits `u8` → `base index`;
  else `wide base index16` -/
  | local_ (limit sub shift add wide base : Nat)
  /-- form-choosing arm: the opcodes written as the instruction's own opcode, and (prefix, opcode) pairs -/
  | forms (plain : List Nat) (prefixed : List (Nat × Nat))
  | switch (op kind : Nat)
  | none
  deriving DecidableEq, Repr

def wArmOf (e : Nat × Nat × Nat × List Nat) : WArm :=
  match e with
  | (0, op, _, _) => .unit op
  | (1, op, put, ws) => .operands op put ws
  | (2, op, opp, _) => .cond op opp
  | (3, op, wop, _) => .jump op wop
  | (4, f, base, _) =>
    match Gen.WriterArms.families[f]? with
    | some fam => .local_ fam.limit fam.sub fam.shift fam.add fam.wide base
    | none => .none
  | (5, k, _, _) =>
    match Gen.WriterArms.formArms[k]? with
    | some fm => .forms fm.2.1 fm.2.2
    | none => .none
  | (6, op, kind, _) => .switch op kind
  | _ => .none

/-- the arm of `write_code` for the constructor with declaration index `c` -/
def wArm (c : Nat) : WArm := wArmOf (Gen.WriterArms.wDense.getD c (7, 0, 0, []))

/-- the opcodes an arm may write as the instruction's own opcode (not behind a prefix; not the inverted condition of the
`if` trampoline) -/
def WArm.plain : WArm → List Nat
  | .unit op => [op]
  | .operands op _ _ => [op]
  | .cond op _ => [op]
  | .jump op wop => [op, wop]
  | .local_ limit sub shift add _ base => base :: (List.range limit).map fun i => (((base - sub) <<< shift) ||| i) + add
  | .forms p _ => p
  | .switch op _ => [op]
  | .none => []

/-- (prefix, opcode) pairs an arm may write -/
def WArm.prefixed : WArm → List (Nat × Nat)
  | .local_ _ _ _ _ wide base => [(wide, base)]
  | .forms _ w => w
  | _ => []

/-- reader arm and writer arm lay the operands out alike (where both are mechanical) -/
def sameLayout : RArm → WArm → Bool
  | .straight _ [] 0, .unit _ => true
  | .straight _ [8] 9, .cond _ _ => true
  | .straight _ [8] 9, .jump _ _ => true
  | .straight _ [9] 9, .jump _ _ => true
  | .straight _ rs rv, .operands _ put ws => rs.map readWidth == ws && rv == put
  | .switch _ k, .switch _ k' => k == k'
  | .localN _ i, .local_ limit _ _ _ _ _ => decide (i < limit)
  | .straight _ [6] 0, .local_ _ _ _ _ _ _ => true
  | .straight _ _ _, .forms _ _ => true
  | _, _ => false

/-- what the first bytes of an encoded instruction must look like for an arm: its own opcode; or a prefix and the
opcode behind it; or (conditional branch with a wide offset) the inverted condition jumping over a `trampoline` jump -/
def headOk (a : WArm) (trampoline : Nat) (bytes : Bytes) : Bool :=
  match bytes with
  | [] => false
  | b :: rest =>
    a.plain.contains b ||
    (match rest with | w :: _ => a.prefixed.contains (b, w) | [] => false) ||
    (match a, rest with
      | .cond _ opp, _ :: _ :: t :: _ => b == opp && t == trampoline
      | _, _ => false)

/-! ## what the JVMS demands of a writer arm -/

/-- the constructor `c` is named like the mnemonic of the general form of `op` -/
def namedLike (c : Nat) (op : Nat) : Bool := (mnemonic? (baseOf op)).map squash == some (squash (ctorName c))

def jvmsWriterCheck (c : Nat) (e : Nat × Nat × Nat × List Nat) : Bool :=
  match wArmOf e with
  | .unit op => namedLike c op && operands? op == some (.bytes 0)
  | .operands op _ ws => namedLike c op && operands? op == some (.bytes ws.sum)
  | .cond op opp => namedLike c op && negations.lookup op == some opp
  | .jump op wop => namedLike c op && baseOf wop == op && operands? op == some .branch16 && operands? wop == some .branch32
  | .local_ limit _ _ _ wide base =>
    namedLike c base && operands? base == some (.bytes 1) && operands? wide == some .wide && wideForms.lookup base == some 2 &&
      ((List.range limit).all fun i => forms.lookup ((wArmOf e).plain.getD (i + 1) 0) == some (base, some i))
  | .forms plain pre =>
    (plain.all fun op => namedLike c op) &&
      (pre.all fun pw => operands? pw.1 == some .wide && (wideForms.lookup pw.2).isSome && namedLike c pw.2)
  | .switch op k => namedLike c op && operands? op == some (if k = 0 then .tableswitch else .lookupswitch)
  | .none => false

/-! ## which instruction a value of the writer model's `Insn` stands for -/

def condName : CodeWrite.Cond → JStr
  | .eq => jstr "ifeq" | .ne => jstr "ifne" | .lt => jstr "iflt" | .ge => jstr "ifge" | .gt => jstr "ifgt" | .le => jstr "ifle"
  | .icmpeq => jstr "if_icmpeq" | .icmpne => jstr "if_icmpne" | .icmplt => jstr "if_icmplt" | .icmpge => jstr "if_icmpge"
  | .icmpgt => jstr "if_icmpgt" | .icmple => jstr "if_icmple" | .acmpeq => jstr "if_acmpeq" | .acmpne => jstr "if_acmpne"
  | .null => jstr "ifnull" | .nonnull => jstr "ifnonnull"

/-- JVMS mnemonic of the general form; `simple` / `cp` carry their opcode, `load` / `store` the kind 0..4 = i l f d a -/
def cwMnemonic : CodeWrite.Insn → JStr
  | .simple op => (mnemonic? op).getD []
  | .bipush _ => jstr "bipush"
  | .sipush _ => jstr "sipush"
  | .ldc _ _ => jstr "ldc"
  | .load k _ => (mnemonic? (0x15 + k)).getD []
  | .store k _ => (mnemonic? (0x36 + k)).getD []
  | .iinc _ _ => jstr "iinc"
  | .ret _ => jstr "ret"
  | .ifc c _ => condName c
  | .goto _ => jstr "goto"
  | .jsr _ => jstr "jsr"
  | .tableswitch _ _ _ _ => jstr "tableswitch"
  | .lookupswitch _ _ => jstr "lookupswitch"
  | .cp op _ => (mnemonic? op).getD []
  | .invokeinterface _ _ => jstr "invokeinterface"
  | .newarray _ => jstr "newarray"
  | .multianewarray _ _ => jstr "multianewarray"
  | .invokedynamic _ => jstr "invokedynamic"

/-- the values of the writer model's instruction type that stand for an instruction: the opcode of `simple` is one of
the operand-less instructions, the opcode of `cp` one of the eleven instructions with a two-byte pool index, the kind of
`load` / `store` is 0..4 -/
def CwDomain : CodeWrite.Insn → Prop
  | .simple op => ClassRead.isSimpleOp op = true
  | .cp op _ => CodeDecode.isCp op = true
  | .load k _ => k < 5
  | .store k _ => k < 5
  | _ => True

end Arms
