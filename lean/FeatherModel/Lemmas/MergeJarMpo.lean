import FeatherModel.Model.MergeJar

/-!
Lemmas for C13, part 1: `merge_preserve_order`.
The three-loop model is related to a single-step run relation `Run`; the theorems are rule inductions over `Run`
with the cursor invariant `Inv` ("common elements are consumed simultaneously").
-/
set_option linter.unusedSectionVars false
namespace MergeJar

theorem dropWhile_head_false {α : Type} (p : α → Bool) (l : List α) (x : α) (h : (l.dropWhile p).head? = some x) : p x = false := by
  induction l with
  | nil => simp at h
  | cons y l ih =>
    simp only [List.dropWhile_cons] at h
    by_cases hy : p y = true
    · simp only [hy, if_true] at h; exact ih h
    · simp only [hy] at h; simp at h; subst h; simpa using hy

theorem mem_takeWhile_true {α : Type} (p : α → Bool) (l : List α) (x : α) (h : x ∈ l.takeWhile p) : p x = true := by
  induction l with
  | nil => simp at h
  | cons y l ih =>
    simp only [List.takeWhile_cons] at h
    by_cases hy : p y = true
    · simp only [hy, if_true, List.mem_cons] at h
      cases h with
      | inl h => subst h; exact hy
      | inr h => exact ih h
    · simp [hy] at h

variable {α : Type} [BEq α] [LawfulBEq α]

theorem loop1_spec (ra rb : List α) :
    ra = (loop1 ra rb).1 ++ (loop1 ra rb).2.1 ∧ rb = (loop1 ra rb).1 ++ (loop1 ra rb).2.2 ∧
    (∀ x, (loop1 ra rb).2.1.head? = some x → (loop1 ra rb).2.2.head? = some x → False) := by
  induction ra generalizing rb with
  | nil => simp [loop1]
  | cons x ra ih =>
    cases rb with
    | nil => simp [loop1]
    | cons y rb =>
      by_cases h : (y == x) = true
      · have hxy : y = x := by simpa using h
        subst hxy
        obtain ⟨h1, h2, h3⟩ := ih rb
        simp only [loop1, beq_self_eq_true, if_true]
        refine ⟨?_, ?_, h3⟩
        · simp only [List.cons_append]; rw [← h1]
        · simp only [List.cons_append]; rw [← h2]
      · simp only [loop1, h]
        simp
        intro hxy; subst hxy; simp at h

/-- no inner loop can fire: heads differ, the client head is known to the server, the server head to the client -/
def Stalled (a b ra rb : List α) : Prop :=
  (∀ x, ra.head? = some x → rb.head? = some x → False) ∧
  (∀ x, ra.head? = some x → x ∈ b) ∧ (∀ y, rb.head? = some y → y ∈ a)

/-- runs of the algorithm as single steps; `Q` = states in which the run may stop and emit the tail -/
inductive Run (a b : List α) (Q : List α → List α → Prop) : List α → List α → List α → Prop where
  | stop (ra rb) : Q ra rb → Run a b Q ra rb (mpoTail a ra rb)
  | both (x ra rb out) : Run a b Q ra rb out → Run a b Q (x :: ra) (x :: rb) (x :: out)
  | left (x ra rb out) : x ∉ b → Run a b Q ra rb out → Run a b Q (x :: ra) rb (x :: out)
  | right (y ra rb out) : y ∉ a → Run a b Q ra rb out → Run a b Q ra (y :: rb) (y :: out)

theorem Run.boths {a b : List α} {Q} (p : List α) {ra rb out} (h : Run a b Q ra rb out) :
    Run a b Q (p ++ ra) (p ++ rb) (p ++ out) := by
  induction p with
  | nil => exact h
  | cons x p ih => exact Run.both x _ _ _ ih

theorem Run.lefts {a b : List α} {Q} (p : List α) (hp : ∀ x ∈ p, x ∉ b) {ra rb out} (h : Run a b Q ra rb out) :
    Run a b Q (p ++ ra) rb (p ++ out) := by
  induction p with
  | nil => exact h
  | cons x p ih =>
    exact Run.left x _ _ _ (hp x List.mem_cons_self) (ih (fun y hy => hp y (List.mem_cons_of_mem _ hy)))

theorem Run.rights {a b : List α} {Q} (p : List α) (hp : ∀ x ∈ p, x ∉ a) {ra rb out} (h : Run a b Q ra rb out) :
    Run a b Q ra (p ++ rb) (p ++ out) := by
  induction p with
  | nil => exact h
  | cons x p ih =>
    exact Run.right x _ _ _ (hp x List.mem_cons_self) (ih (fun y hy => hp y (List.mem_cons_of_mem _ hy)))

theorem mpoLoop_run (a b : List α) (C : Prop) :
    ∀ (fuel : Nat) (ra rb : List α), (C ∨ ra.length + rb.length < fuel) →
      Run a b (fun ra' rb' => Stalled a b ra' rb' ∨ C) ra rb (mpoLoop a b fuel ra rb) := by
  intro fuel
  induction fuel with
  | zero =>
    intro ra rb h
    have hc : C := by cases h with | inl h => exact h | inr h => omega
    exact Run.stop _ _ (Or.inr hc)
  | succ fuel ih =>
    intro ra rb h
    simp only [mpoLoop]
    by_cases he : (ra.isEmpty && rb.isEmpty) = true
    · simp only [he, if_true]
      apply Run.stop
      left
      simp only [Bool.and_eq_true, List.isEmpty_iff] at he
      obtain ⟨h1, h2⟩ := he
      subst h1; subst h2
      simp [Stalled]
    · simp only [he, Bool.false_eq_true, if_false]
      obtain ⟨h1, h2, h3⟩ := loop1_spec ra rb
      generalize loop1 ra rb = r at h1 h2 h3
      obtain ⟨p1, ra1, rb1⟩ := r
      simp only at h1 h2 h3 ⊢
      have ha2 := List.takeWhile_append_dropWhile (p := fun x => !b.contains x) (l := ra1)
      have hb3 := List.takeWhile_append_dropWhile (p := fun y => !a.contains y) (l := rb1)
      have hp2 : ∀ x ∈ ra1.takeWhile (fun x => !b.contains x), x ∉ b := by
        intro x hx; have := mem_takeWhile_true _ _ _ hx; simpa using this
      have hp3 : ∀ y ∈ rb1.takeWhile (fun y => !a.contains y), y ∉ a := by
        intro y hy; have := mem_takeWhile_true _ _ _ hy; simpa using this
      have hd2 : ∀ x, (ra1.dropWhile (fun x => !b.contains x)).head? = some x → x ∈ b := by
        intro x hx; have := dropWhile_head_false _ _ _ hx; simpa using this
      have hd3 : ∀ y, (rb1.dropWhile (fun y => !a.contains y)).head? = some y → y ∈ a := by
        intro y hy; have := dropWhile_head_false _ _ _ hy; simpa using this
      generalize ra1.takeWhile (fun x => !b.contains x) = p2 at *
      generalize ra1.dropWhile (fun x => !b.contains x) = ra2 at *
      generalize rb1.takeWhile (fun y => !a.contains y) = p3 at *
      generalize rb1.dropWhile (fun y => !a.contains y) = rb3 at *
      by_cases hs : (p1.isEmpty && p2.isEmpty && p3.isEmpty) = true
      · simp only [hs, if_true]
        simp only [Bool.and_eq_true, List.isEmpty_iff] at hs
        obtain ⟨⟨e1, e2⟩, e3⟩ := hs
        subst e1; subst e2; subst e3
        simp only [List.nil_append] at ha2 hb3 h1 h2
        subst ha2; subst hb3
        subst h1; subst h2
        apply Run.stop
        left
        exact ⟨h3, hd2, hd3⟩
      · simp only [hs, Bool.false_eq_true, if_false]
        have hlen : C ∨ ra2.length + rb3.length < fuel := by
          cases h with
          | inl h => exact Or.inl h
          | inr h =>
            right
            have l1 : ra.length = p1.length + (p2.length + ra2.length) := by
              rw [h1, ← ha2]; simp
            have l2 : rb.length = p1.length + (p3.length + rb3.length) := by
              rw [h2, ← hb3]; simp
            have : p1.length + p2.length + p3.length > 0 := by
              cases p1 with
              | cons _ _ => simp; omega
              | nil =>
                cases p2 with
                | cons _ _ => simp; omega
                | nil =>
                  cases p3 with
                  | cons _ _ => simp
                  | nil => simp at hs
            omega
        have hrec := ih ra2 rb3 hlen
        have := Run.boths p1 (Run.lefts p2 hp2 (Run.rights p3 hp3 hrec))
        rw [ha2, hb3, ← h1, ← h2] at this
        exact this
end MergeJar

namespace MergeJar
variable {α : Type} [BEq α] [LawfulBEq α]

theorem Run.client_sublist {a b : List α} {Q} {ra rb out} (h : Run a b Q ra rb out) : ra.Sublist out := by
  induction h with
  | stop ra rb _ => exact List.sublist_append_left _ _
  | both x ra rb out _ ih => exact List.Sublist.cons_cons x ih
  | left x ra rb out _ _ ih => exact List.Sublist.cons_cons x ih
  | right y ra rb out _ _ ih => exact List.Sublist.cons y ih

/-- invariant of the cursors: suffix-like facts plus "common elements are consumed simultaneously" -/
structure Inv (a b ra rb : List α) : Prop where
  nda : ra.Nodup
  ndb : rb.Nodup
  suba : ∀ x ∈ ra, x ∈ a
  subb : ∀ y ∈ rb, y ∈ b
  ca : ∀ x ∈ ra, x ∈ b → x ∈ rb
  cb : ∀ y ∈ rb, y ∈ a → y ∈ ra

theorem Inv.init {a b : List α} (ha : a.Nodup) (hb : b.Nodup) : Inv a b a b :=
  ⟨ha, hb, fun _ h => h, fun _ h => h, fun _ _ h => h, fun _ _ h => h⟩

theorem Inv.both {a b : List α} {x ra rb} (h : Inv a b (x :: ra) (x :: rb)) : Inv a b ra rb := by
  obtain ⟨nda, ndb, suba, subb, ca, cb⟩ := h
  simp only [List.nodup_cons] at nda ndb
  refine ⟨nda.2, ndb.2, ?_, ?_, ?_, ?_⟩
  · intro y hy; exact suba y (List.mem_cons_of_mem _ hy)
  · intro y hy; exact subb y (List.mem_cons_of_mem _ hy)
  · intro y hy hyb
    have := ca y (List.mem_cons_of_mem _ hy) hyb
    simp only [List.mem_cons] at this
    cases this with
    | inl e => subst e; exact absurd hy nda.1
    | inr e => exact e
  · intro y hy hya
    have := cb y (List.mem_cons_of_mem _ hy) hya
    simp only [List.mem_cons] at this
    cases this with
    | inl e => subst e; exact absurd hy ndb.1
    | inr e => exact e

theorem Inv.left {a b : List α} {x ra rb} (h : Inv a b (x :: ra) rb) (hx : x ∉ b) : Inv a b ra rb := by
  obtain ⟨nda, ndb, suba, subb, ca, cb⟩ := h
  simp only [List.nodup_cons] at nda
  refine ⟨nda.2, ndb, ?_, subb, ?_, ?_⟩
  · intro y hy; exact suba y (List.mem_cons_of_mem _ hy)
  · intro y hy hyb; exact ca y (List.mem_cons_of_mem _ hy) hyb
  · intro y hy hya
    have := cb y hy hya
    simp only [List.mem_cons] at this
    cases this with
    | inl e => subst e; exact absurd (subb y hy) hx
    | inr e => exact e

theorem Inv.right {a b : List α} {y ra rb} (h : Inv a b ra (y :: rb)) (hy : y ∉ a) : Inv a b ra rb := by
  obtain ⟨nda, ndb, suba, subb, ca, cb⟩ := h
  simp only [List.nodup_cons] at ndb
  refine ⟨nda, ndb.2, suba, ?_, ?_, ?_⟩
  · intro z hz; exact subb z (List.mem_cons_of_mem _ hz)
  · intro z hz hzb
    have := ca z hz hzb
    simp only [List.mem_cons] at this
    cases this with
    | inl e => subst e; exact absurd (suba z hz) hy
    | inr e => exact e
  · intro z hz hza; exact cb z (List.mem_cons_of_mem _ hz) hza

theorem Run.exactly_once {a b : List α} {Q} {ra rb out} (h : Run a b Q ra rb out) (hi : Inv a b ra rb) :
    out.Nodup ∧ ∀ x, x ∈ out ↔ x ∈ ra ∨ x ∈ rb := by
  induction h with
  | stop ra rb _ =>
    obtain ⟨nda, ndb, suba, subb, ca, cb⟩ := hi
    constructor
    · unfold mpoTail
      rw [List.nodup_append]
      refine ⟨nda, ndb.filter _, ?_⟩
      intro x hx y hy hxy
      subst hxy
      simp only [List.mem_filter, Bool.not_eq_eq_eq_not, Bool.not_true, List.contains_eq_mem, decide_eq_false_iff_not] at hy
      exact hy.2 (suba x hx)
    · intro x
      unfold mpoTail
      simp only [List.mem_append, List.mem_filter, Bool.not_eq_eq_eq_not, Bool.not_true, List.contains_eq_mem, decide_eq_false_iff_not]
      constructor
      · intro h; cases h with
        | inl h => exact Or.inl h
        | inr h => exact Or.inr h.1
      · intro h; cases h with
        | inl h => exact Or.inl h
        | inr h =>
          by_cases hxa : x ∈ a
          · exact Or.inl (cb x h hxa)
          · exact Or.inr ⟨h, hxa⟩
  | both x ra rb out _ ih =>
    obtain ⟨ihn, ihm⟩ := ih hi.both
    have nda := hi.nda; have ndb := hi.ndb
    simp only [List.nodup_cons] at nda ndb
    constructor
    · simp only [List.nodup_cons]
      refine ⟨?_, ihn⟩
      rw [ihm]; intro h; cases h with
      | inl h => exact nda.1 h
      | inr h => exact ndb.1 h
    · intro z; simp only [List.mem_cons, ihm]
      constructor
      · intro h; rcases h with h | h | h
        · exact Or.inl (Or.inl h)
        · exact Or.inl (Or.inr h)
        · exact Or.inr (Or.inr h)
      · intro h; rcases h with (h | h) | (h | h)
        · exact Or.inl h
        · exact Or.inr (Or.inl h)
        · exact Or.inl h
        · exact Or.inr (Or.inr h)
  | left x ra rb out hx _ ih =>
    obtain ⟨ihn, ihm⟩ := ih (hi.left hx)
    have nda := hi.nda
    simp only [List.nodup_cons] at nda
    constructor
    · simp only [List.nodup_cons]
      refine ⟨?_, ihn⟩
      rw [ihm]; intro h; cases h with
      | inl h => exact nda.1 h
      | inr h => exact hx (hi.subb x h)
    · intro z; simp only [List.mem_cons, ihm]
      constructor
      · intro h; rcases h with h | h | h
        · exact Or.inl (Or.inl h)
        · exact Or.inl (Or.inr h)
        · exact Or.inr h
      · intro h; rcases h with (h | h) | h
        · exact Or.inl h
        · exact Or.inr (Or.inl h)
        · exact Or.inr (Or.inr h)
  | right y ra rb out hy _ ih =>
    obtain ⟨ihn, ihm⟩ := ih (hi.right hy)
    have ndb := hi.ndb
    simp only [List.nodup_cons] at ndb
    constructor
    · simp only [List.nodup_cons]
      refine ⟨?_, ihn⟩
      rw [ihm]; intro h; cases h with
      | inl h => exact hy (hi.suba y h)
      | inr h => exact ndb.1 h
    · intro z; simp only [List.mem_cons, ihm]
      constructor
      · intro h; rcases h with h | h | h
        · exact Or.inr (Or.inl h)
        · exact Or.inl h
        · exact Or.inr (Or.inr h)
      · intro h; rcases h with h | (h | h)
        · exact Or.inr (Or.inl h)
        · exact Or.inl h
        · exact Or.inr (Or.inr h)
end MergeJar

namespace MergeJar
variable {α : Type} [BEq α] [LawfulBEq α]

/-- the common elements appear in the same relative order (Prop form of `compatibleB`) -/
def Compat (ra rb : List α) : Prop := ra.filter (fun x => rb.contains x) = rb.filter (fun y => ra.contains y)

theorem compatibleB_iff (a b : List α) : compatibleB a b = true ↔ Compat a b := by
  simp [compatibleB, Compat]

theorem filter_contains_cons_of_not_mem (x : α) (l m : List α) (h : x ∉ m) :
    m.filter (fun y => (x :: l).contains y) = m.filter (fun y => l.contains y) := by
  apply List.filter_congr
  intro y hy
  have : y ≠ x := fun e => h (e ▸ hy)
  simp [this]

theorem Compat.both {x : α} {ra rb} (hxa : x ∉ ra) (hxb : x ∉ rb) (h : Compat (x :: ra) (x :: rb)) : Compat ra rb := by
  unfold Compat at *
  have h1 : (x :: rb).contains x = true := by simp
  have h2 : (x :: ra).contains x = true := by simp
  simp only [List.filter_cons, h1, h2, if_true] at h
  rw [filter_contains_cons_of_not_mem x rb ra hxa, filter_contains_cons_of_not_mem x ra rb hxb] at h
  exact List.tail_eq_of_cons_eq h

theorem Compat.left {x : α} {ra rb} (hxb : x ∉ rb) (h : Compat (x :: ra) rb) : Compat ra rb := by
  unfold Compat at *
  have hc : rb.contains x = false := by simpa using hxb
  simp only [List.filter_cons, hc] at h
  rw [filter_contains_cons_of_not_mem x ra rb hxb] at h
  simpa using h

theorem Compat.right {y : α} {ra rb} (hya : y ∉ ra) (h : Compat ra (y :: rb)) : Compat ra rb := by
  unfold Compat at *
  have hc : ra.contains y = false := by simpa using hya
  simp only [List.filter_cons, hc] at h
  rw [filter_contains_cons_of_not_mem y rb ra hya] at h
  simpa using h
end MergeJar

namespace MergeJar
variable {α : Type} [BEq α] [LawfulBEq α]
theorem stalled_nil {a b ra rb : List α} (hi : Inv a b ra rb) (hc : Compat ra rb) (hs : Stalled a b ra rb) : rb = [] := by
  cases rb with
  | nil => rfl
  | cons y rb' =>
    exfalso
    obtain ⟨s1, s2, s3⟩ := hs
    have hya : y ∈ a := s3 y rfl
    have hyra := hi.cb y List.mem_cons_self hya
    cases ra with
    | nil => simp at hyra
    | cons x ra' =>
      have hxb : x ∈ b := s2 x rfl
      have hxrb := hi.ca x List.mem_cons_self hxb
      have hne : x ≠ y := fun e => s1 x rfl (by simp [e])
      unfold Compat at hc
      have h1 : (y :: rb').contains x = true := by simpa using hxrb
      have h2 : (x :: ra').contains y = true := by simpa using hyra
      simp only [List.filter_cons, h1, h2, if_true] at hc
      exact hne (List.head_eq_of_cons_eq hc)

theorem Run.server_sublist {a b : List α} {ra rb out} (h : Run a b (Stalled a b) ra rb out)
    (hi : Inv a b ra rb) (hc : Compat ra rb) : rb.Sublist out := by
  induction h with
  | stop ra rb hs =>
    rw [stalled_nil hi hc hs]; exact List.nil_sublist _
  | both x ra rb out _ ih =>
    have nda := hi.nda; have ndb := hi.ndb
    simp only [List.nodup_cons] at nda ndb
    exact List.Sublist.cons_cons x (ih hi.both (hc.both nda.1 ndb.1))
  | left x ra rb out hx _ ih =>
    exact List.Sublist.cons x (ih (hi.left hx) (hc.left (fun h => hx (hi.subb x h))))
  | right y ra rb out hy _ ih =>
    exact List.Sublist.cons_cons y (ih (hi.right hy) (hc.right (fun h => hy (hi.suba y h))))
end MergeJar

namespace MergeJar
variable {α : Type} [BEq α] [LawfulBEq α]

/-- an outer iteration that is not a stall consumes at least one element -/
theorem loop_progress (a b ra rb : List α)
    (hs : ¬ ((loop1 ra rb).1.isEmpty && ((loop1 ra rb).2.1.takeWhile (fun x => !b.contains x)).isEmpty &&
        ((loop1 ra rb).2.2.takeWhile (fun y => !a.contains y)).isEmpty) = true) :
    ((loop1 ra rb).2.1.dropWhile (fun x => !b.contains x)).length +
      ((loop1 ra rb).2.2.dropWhile (fun y => !a.contains y)).length < ra.length + rb.length := by
  obtain ⟨h1, h2, _⟩ := loop1_spec ra rb
  generalize loop1 ra rb = r at h1 h2 hs
  obtain ⟨p1, ra1, rb1⟩ := r
  simp only at h1 h2 hs ⊢
  have ha2 := List.takeWhile_append_dropWhile (p := fun x => !b.contains x) (l := ra1)
  have hb3 := List.takeWhile_append_dropWhile (p := fun y => !a.contains y) (l := rb1)
  generalize ra1.takeWhile (fun x => !b.contains x) = p2 at *
  generalize ra1.dropWhile (fun x => !b.contains x) = ra2 at *
  generalize rb1.takeWhile (fun y => !a.contains y) = p3 at *
  generalize rb1.dropWhile (fun y => !a.contains y) = rb3 at *
  have l1 : ra.length = p1.length + (p2.length + ra2.length) := by rw [h1, ← ha2]; simp
  have l2 : rb.length = p1.length + (p3.length + rb3.length) := by rw [h2, ← hb3]; simp
  have : p1.length + p2.length + p3.length > 0 := by
    cases p1 with
    | cons _ _ => simp; omega
    | nil =>
      cases p2 with
      | cons _ _ => simp; omega
      | nil =>
        cases p3 with
        | cons _ _ => simp
        | nil => simp at hs
  omega

/-- the fuel is never exhausted: any two sufficient amounts give the same result -/
theorem mpoLoop_fuel (a b : List α) :
    ∀ (f1 f2 : Nat) (ra rb : List α), ra.length + rb.length < f1 → ra.length + rb.length < f2 →
      mpoLoop a b f1 ra rb = mpoLoop a b f2 ra rb := by
  intro f1
  induction f1 with
  | zero => intro f2 ra rb h; omega
  | succ f1 ih =>
    intro f2 ra rb h1 h2
    cases f2 with
    | zero => omega
    | succ f2 =>
      simp only [mpoLoop]
      by_cases he : (ra.isEmpty && rb.isEmpty) = true
      · simp only [he, if_true]
      · simp only [he, Bool.false_eq_true, if_false]
        by_cases hs : ((loop1 ra rb).1.isEmpty && ((loop1 ra rb).2.1.takeWhile (fun x => !b.contains x)).isEmpty &&
            ((loop1 ra rb).2.2.takeWhile (fun y => !a.contains y)).isEmpty) = true
        · simp only [hs, if_true]
        · simp only [hs, Bool.false_eq_true, if_false]
          have := loop_progress a b ra rb hs
          rw [ih f2 _ _ (by omega) (by omega)]
end MergeJar
