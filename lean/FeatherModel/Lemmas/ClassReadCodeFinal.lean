import FeatherModel.Lemmas.ClassReadResolveLemmas

/-! C01: `read_code` on an encoded layout, with label ids read back as instruction positions, is the layout's facts. -/

namespace ClassRead
open Outcome Spec

theorem linesRaw_eq (lf : Labels) (pos : Nat → Nat) (as : List SCodeAttr) :
    linesRaw lf pos as = (linesOf as).map (List.map (fun e => (labOf lf pos e.1, e.2))) := by
  induction as with
  | nil => rfl
  | cons a as ih =>
    cases a <;> simp [linesRaw, linesOf, ih]
    case lines nc es => cases linesOf as <;> simp

theorem localsRaw_eq (lf : Labels) (pos : Nat → Nat) (as : List SCodeAttr) :
    localsRaw lf pos as = (localsOf as).map (List.map (fun (v : Lv) => { v with start := labOf lf pos v.start, end_ := labOf lf pos v.end_ })) := by
  induction as with
  | nil => rfl
  | cons a as ih =>
    cases a with
    | lvt nc es =>
      simp only [localsRaw, localsOf, Option.map_some, List.map_append, List.map_map, ih]
      congr 2
      all_goals first
        | (cases localsOf as <;> simp)
        | (apply List.map_congr_left; intro v _; simp [lvRaw, SLv.fact])
    | lvtt nc es =>
      simp only [localsRaw, localsOf, Option.map_some, List.map_append, List.map_map, ih]
      congr 2
      all_goals first
        | (cases localsOf as <;> simp)
        | (apply List.map_congr_left; intro v _; simp [lvRaw, SLv.fact])
    | lines _ _ => simp [localsRaw, localsOf, ih]
    | frames _ _ => simp [localsRaw, localsOf, ih]
    | unknown _ _ _ => simp [localsRaw, localsOf, ih]
    | typeAnnos _ _ _ => simp [localsRaw, localsOf, ih]

theorem mem_linesOf (as : List SCodeAttr) (ls : List (Nat × Nat)) (h : linesOf as = some ls) (e : Nat × Nat) (he : e ∈ ls) :
    ∃ nc es, SCodeAttr.lines nc es ∈ as ∧ e ∈ es := by
  induction as generalizing ls with
  | nil => simp [linesOf] at h
  | cons a as ih =>
    cases a with
    | lines nc es =>
      simp only [linesOf, Option.some.injEq] at h
      subst h
      rcases List.mem_append.mp he with h1 | h1
      · exact ⟨nc, es, by simp, h1⟩
      · cases hl : linesOf as with
        | none => simp [hl] at h1
        | some ls' =>
          simp only [hl, Option.getD_some] at h1
          obtain ⟨nc', es', hm, he'⟩ := ih ls' hl h1
          exact ⟨nc', es', by simp [hm], he'⟩
    | lvt _ _ => simp only [linesOf] at h; obtain ⟨nc', es', hm, he'⟩ := ih ls h he; exact ⟨nc', es', by simp [hm], he'⟩
    | lvtt _ _ => simp only [linesOf] at h; obtain ⟨nc', es', hm, he'⟩ := ih ls h he; exact ⟨nc', es', by simp [hm], he'⟩
    | unknown _ _ _ => simp only [linesOf] at h; obtain ⟨nc', es', hm, he'⟩ := ih ls h he; exact ⟨nc', es', by simp [hm], he'⟩
    | frames _ _ => simp only [linesOf] at h; obtain ⟨nc', es', hm, he'⟩ := ih ls h he; exact ⟨nc', es', by simp [hm], he'⟩
    | typeAnnos _ _ _ => simp only [linesOf] at h; obtain ⟨nc', es', hm, he'⟩ := ih ls h he; exact ⟨nc', es', by simp [hm], he'⟩

theorem mem_localsOf (as : List SCodeAttr) (ls : List Lv) (h : localsOf as = some ls) (v : Lv) (hv : v ∈ ls) :
    ∃ nc es sv, (SCodeAttr.lvt nc es ∈ as ∨ SCodeAttr.lvtt nc es ∈ as) ∧ sv ∈ es ∧ v.start = sv.start ∧ v.end_ = sv.end_ := by
  induction as generalizing ls with
  | nil => simp [localsOf] at h
  | cons a as ih =>
    have tail : ∀ ls', localsOf as = some ls' → v ∈ ls' →
        ∃ nc es sv, (SCodeAttr.lvt nc es ∈ a :: as ∨ SCodeAttr.lvtt nc es ∈ a :: as) ∧ sv ∈ es ∧ v.start = sv.start ∧ v.end_ = sv.end_ := by
      intro ls' hl hv'
      obtain ⟨nc', es', sv, hm, hs, e1, e2⟩ := ih ls' hl hv'
      exact ⟨nc', es', sv, by rcases hm with hm | hm <;> simp [hm], hs, e1, e2⟩
    cases a with
    | lvt nc es =>
      simp only [localsOf, Option.some.injEq] at h
      subst h
      rcases List.mem_append.mp hv with h1 | h1
      · obtain ⟨sv, hsv, rfl⟩ := List.mem_map.mp h1
        exact ⟨nc, es, sv, by simp, hsv, by simp [SLv.fact], by simp [SLv.fact]⟩
      · cases hl : localsOf as with
        | none => simp [hl] at h1
        | some ls' => simp only [hl, Option.getD_some] at h1; exact tail ls' hl h1
    | lvtt nc es =>
      simp only [localsOf, Option.some.injEq] at h
      subst h
      rcases List.mem_append.mp hv with h1 | h1
      · obtain ⟨sv, hsv, rfl⟩ := List.mem_map.mp h1
        exact ⟨nc, es, sv, by simp, hsv, by simp [SLv.fact], by simp [SLv.fact]⟩
      · cases hl : localsOf as with
        | none => simp [hl] at h1
        | some ls' => simp only [hl, Option.getD_some] at h1; exact tail ls' hl h1
    | lines _ _ => simp only [localsOf] at h; exact tail ls h hv
    | frames _ _ => simp only [localsOf] at h; exact tail ls h hv
    | unknown _ _ _ => simp only [localsOf] at h; exact tail ls h hv
    | typeAnnos _ _ _ => simp only [localsOf] at h; exact tail ls h hv

/-! ### type annotations -/

/-- the type annotations of one visibility, flattened in file order -/
def codeAnnosOf (visible : Bool) : List SCodeAttr → List SCodeTypeAnno
  | [] => []
  | .typeAnnos _ v as :: r => (if v = visible then as else []) ++ codeAnnosOf visible r
  | _ :: r => codeAnnosOf visible r

theorem tAnnosRaw_eq (lf : Labels) (pos : Nat → Nat) (v : Bool) (as : List SCodeAttr) :
    tAnnosRaw lf pos v as = (codeAnnosOf v as).map (typeAnnoRaw lf pos) := by
  induction as with
  | nil => rfl
  | cons a as ih =>
    cases a <;> simp only [tAnnosRaw, codeAnnosOf, ih]
    case typeAnnos nc v' xs => by_cases h : v' = v <;> simp [h]

theorem typeAnnosOf_eq (v : Bool) (as : List SCodeAttr) : typeAnnosOf v as = (codeAnnosOf v as).map SCodeTypeAnno.fact := by
  induction as with
  | nil => rfl
  | cons a as ih =>
    cases a <;> simp only [typeAnnosOf, codeAnnosOf, ih]
    case typeAnnos nc v' xs => by_cases h : v' = v <;> simp [h]

theorem mem_codeAnnosOf (v : Bool) (as : List SCodeAttr) (a : SCodeTypeAnno) (h : a ∈ codeAnnosOf v as) :
    ∃ nc xs, SCodeAttr.typeAnnos nc v xs ∈ as ∧ a ∈ xs := by
  induction as with
  | nil => simp [codeAnnosOf] at h
  | cons b as ih =>
    have tail : a ∈ codeAnnosOf v as → ∃ nc xs, SCodeAttr.typeAnnos nc v xs ∈ b :: as ∧ a ∈ xs := by
      intro h'
      obtain ⟨nc, xs, hm, hx⟩ := ih h'
      exact ⟨nc, xs, by simp [hm], hx⟩
    cases b with
    | typeAnnos nc v' xs =>
      simp only [codeAnnosOf, List.mem_append] at h
      rcases h with h | h
      · by_cases hv : v' = v
        · subst hv
          simp only [if_true] at h
          exact ⟨nc, xs, by simp, h⟩
        · simp [hv] at h
      · exact tail h
    | frames _ _ => exact tail (by simpa [codeAnnosOf] using h)
    | lines _ _ => exact tail (by simpa [codeAnnosOf] using h)
    | lvt _ _ => exact tail (by simpa [codeAnnosOf] using h)
    | lvtt _ _ => exact tail (by simpa [codeAnnosOf] using h)
    | unknown _ _ _ => exact tail (by simpa [codeAnnosOf] using h)

/-- the instruction indices a target names -/
def targetIdx : Target → List Nat
  | .localVar _ tbl => tbl.flatMap (fun e => [e.1, e.2.1])
  | .offset _ t => [t]
  | .offsetArg _ t _ => [t]
  | _ => []

theorem targetIdx_refs (pos : Nat → Nat) (t : Target) : (targetIdx t).map pos = targetRefs pos t := by
  cases t <;> simp [targetIdx, targetRefs, List.map_flatMap]

theorem targetIdx_le (n : Nat) (t : Target) (h : codeTargetOk n t) (i : Nat) (hi : i ∈ targetIdx t) : i ≤ n := by
  cases t <;> simp only [codeTargetOk] at h <;> simp only [targetIdx, List.mem_flatMap, List.mem_cons, List.not_mem_nil, or_false] at hi
  case localVar tag tbl =>
    obtain ⟨e, he, hi⟩ := hi
    have := h.2.2 e he
    rcases hi with rfl | rfl <;> omega
  case offset tag t => subst hi; omega
  case offsetArg tag t x => subst hi; omega

theorem target_resolve (m : List (Nat × Nat)) (lf : Labels) (pos : Nat → Nat) (N : Nat) (hr : Resolves m lf pos N) (t : Target)
    (ht : ∀ i ∈ targetIdx t, i ≤ N ∧ (lf.get (pos i)).isSome = true) : Target.resolve m (targetRaw lf pos t) = some t := by
  cases t with
  | localVar tag tbl =>
    have := mapM'_map (fun (x : Nat × Nat × Nat) => (do
        let a ← lookupLabel m x.1; let b ← lookupLabel m x.2.1; pure (a, b, x.2.2) : Option (Nat × Nat × Nat)))
      (fun e : Nat × Nat × Nat => (labOf lf pos e.1, labOf lf pos e.2.1, e.2.2)) id tbl (fun e he => by
        have h1 := ht e.1 (by simp only [targetIdx, List.mem_flatMap]; exact ⟨e, he, by simp⟩)
        have h2 := ht e.2.1 (by simp only [targetIdx, List.mem_flatMap]; exact ⟨e, he, by simp⟩)
        simp [hr.ok _ h1.1 h1.2, hr.ok _ h2.1 h2.2])
    simp only [List.map_id] at this
    simp only [Target.resolve, targetRaw]
    rw [this]; rfl
  | offset tag t =>
    have h1 := ht t (by simp [targetIdx])
    simp [Target.resolve, targetRaw, hr.ok _ h1.1 h1.2]
  | offsetArg tag t i =>
    have h1 := ht t (by simp [targetIdx])
    simp [Target.resolve, targetRaw, hr.ok _ h1.1 h1.2]
  | _ => rfl

def svTargets : SVType → List Nat
  | .uninit t => [t]
  | _ => []

def kindTargets : SFrameKind → List Nat
  | .same1 v => svTargets v
  | .append vs => vs.flatMap svTargets
  | .full ls ss => ls.flatMap svTargets ++ ss.flatMap svTargets
  | _ => []

theorem vtype_resolve (m : List (Nat × Nat)) (lf : Labels) (pos : Nat → Nat) (N : Nat) (hr : Resolves m lf pos N) (v : SVType)
    (hv : ∀ t ∈ svTargets v, t ≤ N ∧ (lf.get (pos t)).isSome = true) : VType.resolve m (v.raw lf pos) = some v.fact := by
  cases v with
  | uninit t =>
    have := hv t (by simp [svTargets])
    simp [VType.resolve, SVType.raw, SVType.fact, hr.ok t this.1 this.2]
  | _ => simp [VType.resolve, SVType.raw, SVType.fact]

theorem vtypes_resolve (m : List (Nat × Nat)) (lf : Labels) (pos : Nat → Nat) (N : Nat) (hr : Resolves m lf pos N) (vs : List SVType)
    (hv : ∀ t ∈ vs.flatMap svTargets, t ≤ N ∧ (lf.get (pos t)).isSome = true) :
    mapM' (VType.resolve m) (vs.map (SVType.raw lf pos)) = some (vs.map SVType.fact) :=
  mapM'_map _ _ _ vs (fun v hvm => vtype_resolve m lf pos N hr v (fun t ht => hv t (by
    simp only [List.mem_flatMap]; exact ⟨v, hvm, ht⟩)))

theorem frame_resolve (m : List (Nat × Nat)) (lf : Labels) (pos : Nat → Nat) (N : Nat) (hr : Resolves m lf pos N) (k : SFrameKind)
    (hk : ∀ t ∈ kindTargets k, t ≤ N ∧ (lf.get (pos t)).isSome = true) : Frame.resolve m (k.raw lf pos) = some k.fact := by
  cases k with
  | same => rfl
  | chop k => rfl
  | same1 v => simp [Frame.resolve, SFrameKind.raw, SFrameKind.fact, vtype_resolve m lf pos N hr v hk]
  | append vs => simp [Frame.resolve, SFrameKind.raw, SFrameKind.fact, vtypes_resolve m lf pos N hr vs hk]
  | full ls ss =>
    have h1 := vtypes_resolve m lf pos N hr ls (fun t ht => hk t (by simp [kindTargets, ht]))
    have h2 := vtypes_resolve m lf pos N hr ss (fun t ht => hk t (by simp [kindTargets, ht]))
    simp [Frame.resolve, SFrameKind.raw, SFrameKind.fact, h1, h2]

theorem entries_resolve (m : List (Nat × Nat)) (lf : Labels) (pos : Nat → Nat) (N : Nat) (hr : Resolves m lf pos N)
    (xs : List SInsn) (k : Nat) (rem : List SFrame)
    (ht : ∀ si ∈ xs, ∀ t ∈ targetsOf si.insn, t ≤ N ∧ (lf.get (pos t)).isSome = true)
    (hf : ∀ f ∈ rem, ∀ t ∈ kindTargets f.kind, t ≤ N ∧ (lf.get (pos t)).isSome = true) :
    mapM' (InsnEntry.resolve m) (entriesFrom lf pos rem k xs) = some (factEntries rem k xs) := by
  induction xs generalizing k rem with
  | nil => cases rem <;> rfl
  | cons x xs ih =>
    have h1 := insn_resolve m lf pos N hr x.insn (ht x (by simp))
    have ht' : ∀ si ∈ xs, ∀ t ∈ targetsOf si.insn, t ≤ N ∧ (lf.get (pos t)).isSome = true := fun si hsi => ht si (by simp [hsi])
    cases rem with
    | nil =>
      have h2 := ih (k + 1) [] ht' (by simp)
      simp [entriesFrom, factEntries, mapM', InsnEntry.resolve, h1, h2]
    | cons f rest =>
      by_cases hfk : f.at_ = k
      · have h2 := ih (k + 1) rest ht' (fun g hg => hf g (by simp [hg]))
        have h3 := frame_resolve m lf pos N hr f.kind (hf f (by simp))
        simp [entriesFrom, factEntries, mapM', InsnEntry.resolve, h1, h2, h3, hfk]
      · have h2 := ih (k + 1) (f :: rest) ht' hf
        simp [entriesFrom, factEntries, mapM', InsnEntry.resolve, h1, h2, hfk]

theorem svTargets_refs (pos : Nat → Nat) (v : SVType) : (svTargets v).map pos = v.refs pos := by
  cases v <;> simp [svTargets, SVType.refs]

theorem kindTargets_refs (pos : Nat → Nat) (k : SFrameKind) : (kindTargets k).map pos = k.refs pos := by
  cases k with
  | same => rfl
  | chop _ => rfl
  | same1 v => exact svTargets_refs pos v
  | append vs =>
    simp only [kindTargets, SFrameKind.refs, List.map_flatMap]
    congr 1; funext v; exact svTargets_refs pos v
  | full ls ss =>
    simp only [kindTargets, SFrameKind.refs, List.map_append, List.map_flatMap]
    congr 1 <;> (congr 1; funext v; exact svTargets_refs pos v)

theorem svTargets_lt (p : Pool) (n : Nat) (v : SVType) (hv : v.Legal p n) (t : Nat) (ht : t ∈ svTargets v) : t < n := by
  cases v <;> simp [svTargets] at ht
  subst ht; exact hv

theorem kindTargets_lt (p : Pool) (n : Nat) (k : SFrameKind) (hk : k.Legal p n) (t : Nat) (ht : t ∈ kindTargets k) : t < n := by
  cases k with
  | same => simp [kindTargets] at ht
  | chop _ => simp [kindTargets] at ht
  | same1 v => exact svTargets_lt p n v hk t ht
  | append vs =>
    simp only [kindTargets, List.mem_flatMap] at ht
    obtain ⟨v, hv, ht⟩ := ht
    exact svTargets_lt p n v (hk.2.2 v hv) t ht
  | full ls ss =>
    simp only [kindTargets, List.mem_append, List.mem_flatMap] at ht
    rcases ht with ⟨v, hv, ht⟩ | ⟨v, hv, ht⟩
    · exact svTargets_lt p n v (hk.2.2.1 v hv) t ht
    · exact svTargets_lt p n v (hk.2.2.2 v hv) t ht

theorem framesLegal_kind (p : Pool) (n : Nat) (pos : Nat → Nat) (prev : Option Nat) (fs : List SFrame)
    (h : framesLegal p n pos prev fs) : ∀ f ∈ fs, f.kind.Legal p n := by
  induction fs generalizing prev with
  | nil => simp
  | cons f fs ih =>
    obtain ⟨_, _, h3, _, h5⟩ := h
    intro g hg
    rcases List.mem_cons.mp hg with rfl | hg
    · exact h3
    · exact ih (some f.at_) h5 g hg

/-- **Code fidelity**: every legal encoding of a method body is read back, after label resolution, as exactly the
description it was made from. -/
theorem readCode_resolve (p : Pool) (bsms : Option (List Bsm)) (c : CodeLayout) (hleg : c.Legal p bsms) (r : Bytes) :
    ∃ raw, readCode p bsms (c.encode ++ r) = ok (raw, r) ∧ raw.resolve = some c.facts := by
  obtain ⟨lf, hwf, hcl, hrefs, hread⟩ := readCode_encode p bsms c hleg r
  refine ⟨c.raw lf, hread, ?_⟩
  have hr : Resolves (labelIndex (entriesFrom lf c.pos (framesOf c.attrs) 0 c.insns) (lf.get (c.pos c.insns.length))) lf c.pos c.insns.length :=
    resolves_of_wf lf hwf c.insns (framesOf c.attrs)
  have hN : ∀ t, t < c.insns.length → t ≤ c.insns.length := fun t h => Nat.le_of_lt h
  -- instructions
  have hins : mapM' (InsnEntry.resolve (labelIndex (entriesFrom lf c.pos (framesOf c.attrs) 0 c.insns) (lf.get (c.pos c.insns.length))))
      (entriesFrom lf c.pos (framesOf c.attrs) 0 c.insns) = some (factEntries (framesOf c.attrs) 0 c.insns) :=
    entries_resolve _ lf c.pos c.insns.length hr c.insns 0 (framesOf c.attrs) (fun si hsi t ht => by
      obtain ⟨i, hi, rfl⟩ := List.getElem_of_mem hsi
      refine ⟨hN t (legal_targets_lt p bsms _ _ _ _ (hleg.code.legal i hi) t ht), hrefs _ ?_⟩
      simp only [CodeLayout.refOffsets, List.mem_append, targetOffsets, List.mem_flatMap, List.mem_map]
      exact Or.inl (Or.inl ⟨c.insns[i], List.getElem_mem hi, t, ht, rfl⟩))
      (fun f hf t ht => by
        obtain ⟨nc, fs, hm, hfm, _⟩ := framesOf_mem c.attrs f hf
        have hla := hleg.attrs _ hm
        simp only [SCodeAttr.Legal] at hla
        have hk := framesLegal_kind p c.insns.length c.pos none fs hla.2.2.2.1 f hfm
        refine ⟨hN t (kindTargets_lt p _ f.kind hk t ht), hrefs _ ?_⟩
        simp only [CodeLayout.refOffsets, List.mem_append, List.mem_flatMap]
        refine Or.inr ⟨_, hm, ?_⟩
        simp only [attrRefs, List.mem_flatMap, List.mem_append]
        refine ⟨f, hfm, Or.inl ?_⟩
        rw [← kindTargets_refs]
        exact List.mem_map.mpr ⟨t, ht, rfl⟩)
  -- exception table
  have hexc : resolveExceptions (labelIndex (entriesFrom lf c.pos (framesOf c.attrs) 0 c.insns) (lf.get (c.pos c.insns.length)))
      (c.exceptions.map (fun e => (⟨labOf lf c.pos e.start, labOf lf c.pos e.end_, labOf lf c.pos e.handler, e.catch_⟩ : ExceptionEntry)))
      = some (c.exceptions.map (fun e => ⟨e.start, e.end_, e.handler, e.catch_⟩)) :=
    mapM'_map _ _ _ c.exceptions (fun e he => by
      obtain ⟨hs, hen, hh, _, _⟩ := hleg.exc e he
      have m1 : c.pos e.start ∈ c.refOffsets := by
        simp only [CodeLayout.refOffsets, List.mem_append, List.mem_flatMap]
        exact Or.inl (Or.inr ⟨e, he, by simp⟩)
      have m2 : c.pos e.end_ ∈ c.refOffsets := by
        simp only [CodeLayout.refOffsets, List.mem_append, List.mem_flatMap]
        exact Or.inl (Or.inr ⟨e, he, by simp⟩)
      have m3 : c.pos e.handler ∈ c.refOffsets := by
        simp only [CodeLayout.refOffsets, List.mem_append, List.mem_flatMap]
        exact Or.inl (Or.inr ⟨e, he, by simp⟩)
      simp [hr.ok e.start (hN _ hs) (hrefs _ m1), hr.ok e.end_ hen (hrefs _ m2), hr.ok e.handler (hN _ hh) (hrefs _ m3)])
  -- line numbers
  have hlines : resolveLines (labelIndex (entriesFrom lf c.pos (framesOf c.attrs) 0 c.insns) (lf.get (c.pos c.insns.length)))
      (linesRaw lf c.pos c.attrs) = some (linesOf c.attrs) := by
    rw [linesRaw_eq]
    cases hl : linesOf c.attrs with
    | none => rfl
    | some ls =>
      simp only [Option.map_some, resolveLines]
      rw [mapM'_map _ _ id ls (fun e he => by
        obtain ⟨nc, es, hm, hes⟩ := mem_linesOf c.attrs ls hl e he
        have hla := hleg.attrs _ hm
        simp only [SCodeAttr.Legal] at hla
        have hlt := (hla.2.2.2 e hes).1
        have m1 : c.pos e.1 ∈ c.refOffsets := by
          simp only [CodeLayout.refOffsets, List.mem_append, List.mem_flatMap]
          exact Or.inr ⟨_, hm, by simp only [attrRefs, List.mem_flatMap]; exact ⟨e, hes, by simp⟩⟩
        simp [hr.ok e.1 (hN _ hlt) (hrefs _ m1)])]
      simp
  -- local variables
  have hlocals : resolveLocals (labelIndex (entriesFrom lf c.pos (framesOf c.attrs) 0 c.insns) (lf.get (c.pos c.insns.length)))
      (localsRaw lf c.pos c.attrs) = some (localsOf c.attrs) := by
    rw [localsRaw_eq]
    cases hl : localsOf c.attrs with
    | none => rfl
    | some ls =>
      simp only [Option.map_some, resolveLocals]
      rw [mapM'_map _ _ id ls (fun v hv => by
        obtain ⟨nc, es, sv, hm, hsv, e1, e2⟩ := mem_localsOf c.attrs ls hl v hv
        have hsl : sv.Legal p c.insns.length := by
          rcases hm with hm | hm
          · have hla := hleg.attrs _ hm
            simp only [SCodeAttr.Legal] at hla
            exact hla.2.2.2 sv hsv
          · have hla := hleg.attrs _ hm
            simp only [SCodeAttr.Legal] at hla
            exact hla.2.2.2 sv hsv
        have m12 : c.pos sv.start ∈ c.refOffsets ∧ c.pos sv.end_ ∈ c.refOffsets := by
          simp only [CodeLayout.refOffsets, List.mem_append, List.mem_flatMap]
          rcases hm with hm | hm
          · exact ⟨Or.inr ⟨_, hm, by simp only [attrRefs, List.mem_flatMap]; exact ⟨sv, hsv, by simp⟩⟩,
              Or.inr ⟨_, hm, by simp only [attrRefs, List.mem_flatMap]; exact ⟨sv, hsv, by simp⟩⟩⟩
          · exact ⟨Or.inr ⟨_, hm, by simp only [attrRefs, List.mem_flatMap]; exact ⟨sv, hsv, by simp⟩⟩,
              Or.inr ⟨_, hm, by simp only [attrRefs, List.mem_flatMap]; exact ⟨sv, hsv, by simp⟩⟩⟩
        obtain ⟨hs, _, hen, _⟩ := hsl
        have k1 := hr.ok sv.start (hN _ hs) (hrefs _ m12.1)
        have k2 := hr.ok sv.end_ hen (hrefs _ m12.2)
        rw [← e1] at k1
        rw [← e2] at k2
        simp [k1, k2])]
      simp
  -- type annotations
  have htas : ∀ v, mapM' (TypeAnno.resolve (labelIndex (entriesFrom lf c.pos (framesOf c.attrs) 0 c.insns) (lf.get (c.pos c.insns.length))))
      (tAnnosRaw lf c.pos v c.attrs) = some (typeAnnosOf v c.attrs) := by
    intro v
    rw [tAnnosRaw_eq, typeAnnosOf_eq]
    exact mapM'_map _ _ _ _ (fun a ha => by
      obtain ⟨nc, xs, hm, hx⟩ := mem_codeAnnosOf v c.attrs a ha
      have hla := hleg.attrs _ hm
      simp only [SCodeAttr.Legal] at hla
      have hal := (hla.2.2.2.1 a hx).1
      have := target_resolve _ lf c.pos c.insns.length hr a.target (fun i hi => by
        refine ⟨targetIdx_le _ _ hal i hi, hrefs _ ?_⟩
        simp only [CodeLayout.refOffsets, List.mem_append, List.mem_flatMap]
        refine Or.inr ⟨_, hm, ?_⟩
        simp only [attrRefs, List.mem_flatMap]
        refine ⟨a, hx, ?_⟩
        rw [← targetIdx_refs]
        exact List.mem_map.mpr ⟨i, hi, rfl⟩)
      simp [TypeAnno.resolve, typeAnnoRaw, this, SCodeTypeAnno.fact])
  simp only [Code.resolve, CodeLayout.raw, CodeLayout.facts, hins, hexc, hlines, hlocals, htas, Option.bind_eq_bind,
    Option.bind_some, Option.pure_def]

end ClassRead
