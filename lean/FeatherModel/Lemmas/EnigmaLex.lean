import FeatherModel.Model.Enigma

/-!
# C12, layer 1: physical lines and the `EnigmaLine` tokeniser
`lexText (render lines) = lines.filterMap lexLine`, and what `lexLine` makes of the lines the writer produces:
keyword lines made of tokens, `COMMENT` lines, the `#` file headers.
-/

namespace Enigma

/-! ## `BufRead::lines` undoes `writeln!` -/

/-- a physical line that survives `BufRead::lines` unchanged: no LF inside, no CR at the end -/
def LineOk (l : Text) : Prop := LF ∉ l ∧ l.getLast? ≠ some CR

theorem splitLines_line (l : Text) (h : LF ∉ l) (rest : Text) :
    ∀ cur : Text, splitLines (l ++ LF :: rest) cur = endLine (l.reverse ++ cur) :: splitLines rest [] := by
  induction l with
  | nil => intro cur; simp [splitLines]
  | cons c l ih =>
    intro cur
    have hc : c ≠ LF := fun e => h (by simp [e])
    have hl : LF ∉ l := fun e => h (by simp [e])
    simp only [List.cons_append, splitLines, hc, if_false, ih hl, List.reverse_cons, List.append_assoc,
      List.nil_append]

theorem endLine_reverse (l : Text) (h : l.getLast? ≠ some CR) : endLine l.reverse = l := by
  cases hr : l.reverse with
  | nil => simp only [List.reverse_eq_nil_iff] at hr; simp [hr, endLine]
  | cons x cur =>
    have hl : l = cur.reverse ++ [x] := by
      have := congrArg List.reverse hr
      simpa using this
    have hx : x ≠ CR := by
      intro e
      apply h
      rw [hl, e]; simp
    simp only [endLine, hx, if_false, hl, List.reverse_cons]

theorem splitLines_render : ∀ lines : List Text, (∀ l ∈ lines, LineOk l) → splitLines (render lines) [] = lines
  | [], _ => by simp [render, splitLines]
  | l :: ls, h => by
    have hl := h l List.mem_cons_self
    have ih := splitLines_render ls (fun x hx => h x (List.mem_cons_of_mem _ hx))
    have hr : render (l :: ls) = l ++ LF :: render ls := by simp [render]
    rw [hr, splitLines_line l hl.1, List.append_nil, endLine_reverse l hl.2, ih]

theorem lexText_render (lines : List Text) (h : ∀ l ∈ lines, LineOk l) :
    lexText (render lines) = lines.filterMap lexLine := by
  unfold lexText
  rw [splitLines_render lines h]

/-- the written lines `ls` are read as the `EnigmaLine`s `els` -/
def Lexes (ls : List Text) (els : List ELine) : Prop := (∀ l ∈ ls, LineOk l) ∧ ls.filterMap lexLine = els

theorem Lexes.nil : Lexes [] [] := ⟨by simp, rfl⟩

theorem Lexes.append {a b : List Text} {x y : List ELine} (h1 : Lexes a x) (h2 : Lexes b y) : Lexes (a ++ b) (x ++ y) := by
  refine ⟨?_, by rw [List.filterMap_append, h1.2, h2.2]⟩
  intro l hl
  rcases List.mem_append.mp hl with hl | hl
  · exact h1.1 l hl
  · exact h2.1 l hl

theorem Lexes.cons {l : Text} {e : ELine} {b : List Text} {y : List ELine}
    (hl : LineOk l) (he : lexLine l = some e) (h2 : Lexes b y) : Lexes (l :: b) (e :: y) := by
  refine ⟨?_, by rw [List.filterMap_cons, he, h2.2]⟩
  intro x hx
  rcases List.mem_cons.mp hx with rfl | hx
  · exact hl
  · exact h2.1 x hx

theorem Lexes.skip {l : Text} {b : List Text} {y : List ELine}
    (hl : LineOk l) (he : lexLine l = none) (h2 : Lexes b y) : Lexes (l :: b) y := by
  refine ⟨?_, by rw [List.filterMap_cons, he, h2.2]⟩
  intro x hx
  rcases List.mem_cons.mp hx with rfl | hx
  · exact hl
  · exact h2.1 x hx

theorem Lexes.text {ls : List Text} {els : List ELine} (h : Lexes ls els) : lexText (render ls) = els := by
  rw [lexText_render ls h.1, h.2]

/-! ## `str::split` -/

theorem splitOn_ne_nil (p : Nat → Bool) : ∀ l : Text, splitOn p l ≠ []
  | [] => by simp [splitOn]
  | c :: rest => by
    simp only [splitOn]
    split
    · simp
    · split <;> simp

theorem splitOn_cons_false {p : Nat → Bool} {c : Nat} (hc : p c = false) (rest : Text) :
    ∃ h t, splitOn p rest = h :: t ∧ splitOn p (c :: rest) = (c :: h) :: t := by
  cases hs : splitOn p rest with
  | nil => exact absurd hs (splitOn_ne_nil p rest)
  | cons h t => exact ⟨h, t, rfl, by simp [splitOn, hc, hs]⟩

/-- a piece without separator characters, followed by a separator -/
theorem splitOn_piece {p : Nat → Bool} (t : Text) (ht : ∀ c ∈ t, p c = false) {s : Nat} (hs : p s = true) (rest : Text) :
    splitOn p (t ++ s :: rest) = t :: splitOn p rest := by
  induction t with
  | nil => simp [splitOn, hs]
  | cons c t ih =>
    have hc : p c = false := ht c List.mem_cons_self
    have iht := ih (fun x hx => ht x (List.mem_cons_of_mem _ hx))
    simp only [List.cons_append, splitOn, hc, iht]
    simp

theorem splitOn_single {p : Nat → Bool} (t : Text) (ht : ∀ c ∈ t, p c = false) : splitOn p t = [t] := by
  induction t with
  | nil => simp [splitOn]
  | cons c t ih =>
    have hc : p c = false := ht c List.mem_cons_self
    have iht := ih (fun x hx => ht x (List.mem_cons_of_mem _ hx))
    simp only [splitOn, hc, iht]
    simp

/-- every piece consists of non-separator characters of the input -/
theorem mem_splitOn {p : Nat → Bool} : ∀ {l x : Text}, x ∈ splitOn p l → ∀ c ∈ x, c ∈ l ∧ p c = false
  | [], x, hx => by
    simp only [splitOn, List.mem_singleton] at hx
    subst hx; intro c hc; simp at hc
  | a :: rest, x, hx => by
    by_cases ha : p a = true
    · simp only [splitOn, ha, if_true, List.mem_cons] at hx
      rcases hx with rfl | hx
      · intro c hc; simp at hc
      · intro c hc
        obtain ⟨h1, h2⟩ := mem_splitOn hx c hc
        exact ⟨List.mem_cons_of_mem _ h1, h2⟩
    · have ha' : p a = false := by simpa using ha
      obtain ⟨h, t, e1, e2⟩ := splitOn_cons_false ha' rest
      rw [e2] at hx
      rcases List.mem_cons.mp hx with rfl | hx
      · intro c hc
        rcases List.mem_cons.mp hc with rfl | hc
        · exact ⟨List.mem_cons_self, ha'⟩
        · obtain ⟨h1, h2⟩ := mem_splitOn (l := rest) (x := h) (by rw [e1]; exact List.mem_cons_self) c hc
          exact ⟨List.mem_cons_of_mem _ h1, h2⟩
      · intro c hc
        obtain ⟨h1, h2⟩ := mem_splitOn (l := rest) (x := x) (by rw [e1]; exact List.mem_cons_of_mem _ hx) c hc
        exact ⟨List.mem_cons_of_mem _ h1, h2⟩

/-- `[String]::join(sep)` in closed form -/
def joinWith (sep : Nat) : List JStr → JStr
  | [] => []
  | t :: ts => t ++ ts.flatMap (sep :: ·)

theorem joinSp_eq : ∀ ts : List JStr, joinSp ts = joinWith SP ts
  | [] => rfl
  | [x] => by simp [joinSp, joinWith]
  | x :: y :: rest => by
    have ih := joinSp_eq (y :: rest)
    simp only [joinSp, ih, joinWith, List.flatMap_cons, List.cons_append]

theorem joinWith_cons_cons (sep c : Nat) (h : JStr) (t : List JStr) :
    joinWith sep ((c :: h) :: t) = c :: joinWith sep (h :: t) := by
  simp [joinWith]

/-- splitting at characters that are all equal to `sep`, then joining with `sep`, is the identity -/
theorem joinWith_splitOn (sep : Nat) (p : Nat → Bool) : ∀ l : Text, (∀ c ∈ l, p c = true → c = sep) →
    joinWith sep (splitOn p l) = l
  | [], _ => by simp [splitOn, joinWith]
  | a :: rest, h => by
    have ih := joinWith_splitOn sep p rest (fun c hc => h c (List.mem_cons_of_mem _ hc))
    by_cases ha : p a = true
    · have : a = sep := h a List.mem_cons_self ha
      subst this
      cases hs : splitOn p rest with
      | nil => exact absurd hs (splitOn_ne_nil p rest)
      | cons x xs =>
        rw [hs] at ih
        simp only [splitOn, ha, if_true, hs]
        simp only [joinWith, List.flatMap_cons, List.nil_append, List.cons_append] at ih ⊢
        rw [ih]
    · have ha' : p a = false := by simpa using ha
      obtain ⟨x, xs, e1, e2⟩ := splitOn_cons_false ha' rest
      rw [e2, joinWith_cons_cons, ← e1, ih]

/-! ## tokens -/

/-- a token: not empty, no `White_Space`, no `#` -/
def Tok (s : JStr) : Prop := s ≠ [] ∧ ∀ c ∈ s, isWhite c = false ∧ c ≠ HASH

theorem tokOk_tok {s : JStr} (h : tokOk s = true) : Tok s := by
  simp only [tokOk, Bool.and_eq_true, bne_iff_ne, ne_eq, List.all_eq_true,
    Bool.not_eq_eq_eq_not, Bool.not_true] at h
  refine ⟨h.1, fun c hc => ?_⟩
  have := h.2 c hc
  exact ⟨this.1.1, this.1.2⟩

theorem tokOk_noSurrogate {s : JStr} (h : tokOk s = true) : disp s = some s := by
  simp only [tokOk, Bool.and_eq_true, List.all_eq_true, Bool.not_eq_true'] at h
  have : s.any isSurrogate = false := by
    rw [List.any_eq_false]
    intro c hc
    simpa using (h.2 c hc).2
  simp [disp, this]

theorem isJavaWs_isWhite {c : Nat} (h : isWhite c = false) : isJavaWs c = false := by
  simp only [isWhite, Bool.or_eq_false_iff, Bool.and_eq_false_iff, decide_eq_false_iff_not, beq_eq_false_iff_ne] at h
  simp only [isJavaWs, Bool.or_eq_false_iff, beq_eq_false_iff_ne]
  omega

theorem isJavaWs_SP : isJavaWs SP = true := by decide
theorem isWhite_TAB : isWhite TAB = true := by decide

theorem Tok.noWs {s : JStr} (h : Tok s) : ∀ c ∈ s, isJavaWs c = false :=
  fun c hc => isJavaWs_isWhite (h.2 c hc).1

theorem Tok.suffix {s p i : JStr} {x : Nat} (h : Tok s) (e : s = p ++ x :: i) (hi : i ≠ []) : Tok i :=
  ⟨hi, fun c hc => h.2 c (by rw [e]; simp [hc])⟩

/-- the body of a keyword line: keyword and tokens joined by single spaces -/
def lineBody (kw : JStr) (toks : List JStr) : Text := joinWith SP (kw :: toks)

theorem mem_lineBody {kw : JStr} {toks : List JStr} {c : Nat} (h : c ∈ lineBody kw toks) :
    c = SP ∨ c ∈ kw ∨ ∃ t ∈ toks, c ∈ t := by
  simp only [lineBody, joinWith, List.mem_append, List.mem_flatMap, List.mem_cons] at h
  rcases h with h | ⟨t, ht, h | h⟩
  · exact Or.inr (Or.inl h)
  · exact Or.inl h
  · exact Or.inr (Or.inr ⟨t, ht, h⟩)

theorem takeWhile_all {p : Nat → Bool} : ∀ l : Text, (∀ c ∈ l, p c = true) → l.takeWhile p = l
  | [], _ => rfl
  | a :: l, h => by
    simp only [List.takeWhile, h a List.mem_cons_self]
    rw [takeWhile_all l (fun c hc => h c (List.mem_cons_of_mem _ hc))]

theorem trim_of_ends (l : Text) (h1 : ∀ c, l.head? = some c → isWhite c = false)
    (h2 : ∀ c, l.getLast? = some c → isWhite c = false) : trim l = l := by
  unfold trim
  have e1 : l.dropWhile isWhite = l := by
    cases l with
    | nil => rfl
    | cons a l => simp [List.dropWhile, h1 a rfl]
  rw [e1]
  have e2 : l.reverse.dropWhile isWhite = l.reverse := by
    cases hr : l.reverse with
    | nil => rfl
    | cons a r =>
      have : l.getLast? = some a := by
        rw [← List.head?_reverse, hr]; rfl
      simp [List.dropWhile, h2 a this]
  rw [e2, List.reverse_reverse]

/-- last character of a body made of tokens -/
theorem joinWith_getLast (sep : Nat) : ∀ (t : JStr) (ts : List JStr), (∀ x ∈ t :: ts, x ≠ []) →
    ∃ u ∈ t :: ts, (joinWith sep (t :: ts)).getLast? = u.getLast?
  | t, [], _ => ⟨t, List.mem_cons_self, by simp [joinWith]⟩
  | t, u :: us, h => by
    obtain ⟨w, hw, e⟩ := joinWith_getLast sep u us (fun x hx => h x (List.mem_cons_of_mem _ hx))
    refine ⟨w, List.mem_cons_of_mem _ hw, ?_⟩
    have hne : joinWith sep (u :: us) ≠ [] := by
      have := h u (by simp)
      cases u with
      | nil => exact absurd rfl this
      | cons a u => simp [joinWith]
    have e' : joinWith sep (t :: u :: us) = t ++ sep :: joinWith sep (u :: us) := by
      simp [joinWith]
    rw [e', List.getLast?_append, List.getLast?_cons_of_ne_nil hne, e]
    have hw' : w ≠ [] := h w (List.mem_cons_of_mem _ hw)
    cases hg : w.getLast? with
    | none => simp [List.getLast?_eq_none_iff] at hg; exact absurd hg hw'
    | some z => simp

theorem splitOn_lineBody {p : Nat → Bool} (hsp : p SP = true) : ∀ (t : JStr) (ts : List JStr),
    (∀ x ∈ t :: ts, ∀ c ∈ x, p c = false) → splitOn p (joinWith SP (t :: ts)) = t :: ts
  | t, [], h => by
    simp only [joinWith, List.flatMap_nil, List.append_nil]
    exact splitOn_single t (h t List.mem_cons_self)
  | t, u :: us, h => by
    have e' : joinWith SP (t :: u :: us) = t ++ SP :: joinWith SP (u :: us) := by
      simp [joinWith]
    rw [e', splitOn_piece t (h t List.mem_cons_self) hsp,
      splitOn_lineBody hsp u us (fun x hx => h x (List.mem_cons_of_mem _ hx))]

/-- a keyword line is tokenised into its tokens -/
theorem lexBody_tokens (n : Nat) (kw : JStr) (toks : List JStr) (hkw : Tok kw)
    (hnc : kwCOMMENT.isPrefixOf (lineBody kw toks) = false) (ht : ∀ t ∈ toks, Tok t) :
    lexBody n (lineBody kw toks) = some { idents := n, first := kw, fields := toks } := by
  have hall : ∀ x ∈ kw :: toks, Tok x := by
    intro x hx
    rcases List.mem_cons.mp hx with rfl | hx
    · exact hkw
    · exact ht x hx
  have hnohash : ∀ c ∈ lineBody kw toks, (c != HASH) = true := by
    intro c hc
    rcases mem_lineBody hc with rfl | h | ⟨t, htm, h⟩
    · decide
    · simpa using (hkw.2 c h).2
    · simpa using ((ht t htm).2 c h).2
  have hhead : ∀ c, (lineBody kw toks).head? = some c → isWhite c = false := by
    intro c hc
    obtain ⟨hne, hk⟩ := hkw
    cases kw with
    | nil => exact absurd rfl hne
    | cons a kw =>
      simp only [lineBody, joinWith, List.cons_append, List.head?_cons, Option.some.injEq] at hc
      subst hc
      exact (hk a List.mem_cons_self).1
  have hlast : ∀ c, (lineBody kw toks).getLast? = some c → isWhite c = false := by
    intro c hc
    obtain ⟨u, hu, e⟩ := joinWith_getLast SP kw toks (fun x hx => (hall x hx).1)
    unfold lineBody at hc
    rw [e] at hc
    exact ((hall u hu).2 c (List.mem_of_getLast? hc)).1
  have hne : lineBody kw toks ≠ [] := by
    obtain ⟨hne, _⟩ := hkw
    cases kw with
    | nil => exact absurd rfl hne
    | cons a kw => simp [lineBody, joinWith]
  unfold lexBody
  simp only [hnc, Bool.false_eq_true, if_false]
  rw [takeWhile_all _ hnohash, trim_of_ends _ hhead hlast]
  simp only [hne, if_false]
  have := splitOn_lineBody isJavaWs_SP kw toks (fun x hx => (hall x hx).noWs)
  unfold lineBody
  rw [this]

/-- leading tabs are counted and cut off -/
theorem lexLine_tabs (n : Nat) (body : Text) (h : ∀ c, body.head? = some c → c ≠ TAB) :
    lexLine (tabs n ++ body) = lexBody n body := by
  have e1 : ∀ n, ((tabs n ++ body).takeWhile (· == TAB)) = tabs n := by
    intro n
    induction n with
    | zero =>
      simp only [tabs, List.replicate_zero, List.nil_append]
      cases body with
      | nil => rfl
      | cons a b =>
        have : (a == TAB) = false := beq_eq_false_iff_ne.mpr (h a rfl)
        simp [this]
    | succ n ih =>
      simp only [tabs, List.replicate_succ, List.cons_append, List.takeWhile, beq_self_eq_true] at ih ⊢
      rw [ih]
  have e2 : (tabs n).length = n := by simp [tabs]
  have e3 : (tabs n ++ body).drop n = body := by
    have := List.drop_left (l₁ := tabs n) (l₂ := body)
    rw [e2] at this
    exact this
  unfold lexLine
  simp only [e1, e2, e3]

theorem tabs_lineOk_aux (n : Nat) : LF ∉ tabs n := by
  simp [tabs, List.mem_replicate, TAB, LF]

/-- a written keyword line -/
theorem lexLine_tokens (n : Nat) (kw : JStr) (toks : List JStr) (hkw : Tok kw)
    (hnc : kwCOMMENT.isPrefixOf (lineBody kw toks) = false) (ht : ∀ t ∈ toks, Tok t) :
    LineOk (tabs n ++ lineBody kw toks) ∧
    lexLine (tabs n ++ lineBody kw toks) = some { idents := n, first := kw, fields := toks } := by
  have hall : ∀ x ∈ kw :: toks, Tok x := by
    intro x hx
    rcases List.mem_cons.mp hx with rfl | hx
    · exact hkw
    · exact ht x hx
  have hnw : ∀ c ∈ lineBody kw toks, c = SP ∨ isWhite c = false := by
    intro c hc
    rcases mem_lineBody hc with rfl | h | ⟨t, htm, h⟩
    · exact Or.inl rfl
    · exact Or.inr (hkw.2 c h).1
    · exact Or.inr ((ht t htm).2 c h).1
  have hne : lineBody kw toks ≠ [] := by
    obtain ⟨hne, _⟩ := hkw
    cases kw with
    | nil => exact absurd rfl hne
    | cons a kw => simp [lineBody, joinWith]
  refine ⟨⟨?_, ?_⟩, ?_⟩
  · intro hm
    rcases List.mem_append.mp hm with hm | hm
    · exact tabs_lineOk_aux n hm
    · rcases hnw LF hm with h | h
      · exact absurd h (by decide)
      · exact absurd h (by decide)
  · rw [List.getLast?_append]
    obtain ⟨u, hu, e⟩ := joinWith_getLast SP kw toks (fun x hx => (hall x hx).1)
    unfold lineBody
    rw [e]
    cases hg : u.getLast? with
    | none =>
      simp [List.getLast?_eq_none_iff] at hg
      exact absurd hg (hall u hu).1
    | some z =>
      simp only [Option.some_or, ne_eq, Option.some.injEq]
      intro hz
      have := ((hall u hu).2 z (List.mem_of_getLast? hg)).1
      rw [hz] at this
      exact absurd this (by decide)
  · rw [lexLine_tabs, lexBody_tokens n kw toks hkw hnc ht]
    intro c hc
    obtain ⟨hne', hk⟩ := hkw
    cases kw with
    | nil => exact absurd rfl hne'
    | cons a kw =>
      simp only [lineBody, joinWith, List.cons_append, List.head?_cons, Option.some.injEq] at hc
      subst hc
      intro e
      have := (hk a List.mem_cons_self).1
      rw [e] at this
      exact absurd this (by decide)

/-! ## `COMMENT` lines -/

/-- the characters a javadoc line may contain: space is the only Java whitespace -/
def DocLine (l : Text) : Prop := ∀ c ∈ l, c ≠ 9 ∧ c ≠ 10 ∧ c ≠ 11 ∧ c ≠ 12 ∧ c ≠ 13

theorem DocLine.ws {l : Text} (h : DocLine l) : ∀ c ∈ l, isJavaWs c = true → c = SP := by
  intro c hc hw
  have := h c hc
  simp only [isJavaWs, Bool.or_eq_true, beq_iff_eq] at hw
  simp only [SP]
  omega

theorem lexLine_comment (n : Nat) (l : Text) (h : DocLine l) :
    LineOk (tabs n ++ kwCOMMENT ++ SP :: l) ∧
    lexLine (tabs n ++ kwCOMMENT ++ SP :: l) = some { idents := n, first := kwCOMMENT, fields := splitOn isJavaWs l } := by
  refine ⟨⟨?_, ?_⟩, ?_⟩
  · intro hm
    simp only [List.mem_append, List.mem_cons] at hm
    rcases hm with (hm | hm) | hm | hm
    · exact tabs_lineOk_aux n hm
    · revert hm; decide
    · revert hm; decide
    · exact (h LF hm).2.1 rfl
  · rw [List.getLast?_append]
    cases l with
    | nil => simp [SP, CR]
    | cons a l =>
      rw [List.getLast?_cons_of_ne_nil (by simp)]
      cases hg : (a :: l).getLast? with
      | none => simp [List.getLast?_eq_none_iff] at hg
      | some z =>
        simp only [Option.some_or, ne_eq, Option.some.injEq]
        intro hz
        exact (h z (List.mem_of_getLast? hg)).2.2.2.2 (by rw [hz]; rfl)
  · rw [List.append_assoc, lexLine_tabs]
    · have hp : kwCOMMENT.isPrefixOf (kwCOMMENT ++ SP :: l) = true := by rfl
      have hne : (kwCOMMENT ++ SP :: l) ≠ [] := by simp [kwCOMMENT]
      have hs : splitOn isJavaWs (kwCOMMENT ++ SP :: l) = kwCOMMENT :: splitOn isJavaWs l :=
        splitOn_piece kwCOMMENT (by decide) isJavaWs_SP l
      unfold lexBody
      simp only [hp, if_true, hne, if_false, hs]
    · intro c hc
      simp only [kwCOMMENT, List.cons_append, List.head?_cons, Option.some.injEq] at hc
      subst hc; decide

/-! ## file headers -/

theorem lexLine_header1 : LineOk [HASH] ∧ lexLine [HASH] = none := by
  refine ⟨⟨by decide, by decide⟩, by decide⟩

theorem lexLine_header2 (fname : JStr) (h : Tok fname) :
    LineOk (HASH :: SP :: fname) ∧ lexLine (HASH :: SP :: fname) = none := by
  refine ⟨⟨?_, ?_⟩, ?_⟩
  · intro hm
    simp only [List.mem_cons] at hm
    rcases hm with hm | hm | hm
    · revert hm; decide
    · revert hm; decide
    · exact absurd (h.2 LF hm).1 (by decide)
  · obtain ⟨hne, hk⟩ := h
    rw [List.getLast?_cons_of_ne_nil (by simp), List.getLast?_cons_of_ne_nil hne]
    intro hz
    exact absurd (hk CR (List.mem_of_getLast? hz)).1 (by decide)
  · have e0 : ((HASH :: SP :: fname).takeWhile (· == TAB)) = [] := by
      simp [List.takeWhile, HASH, TAB]
    unfold lexLine
    simp only [e0, List.length_nil, List.drop_zero]
    unfold lexBody
    have hp : kwCOMMENT.isPrefixOf (HASH :: SP :: fname) = false := by rfl
    simp only [hp, Bool.false_eq_true, if_false]
    have : (HASH :: SP :: fname).takeWhile (· != HASH) = [] := by simp [List.takeWhile]
    rw [this]
    rfl

end Enigma
