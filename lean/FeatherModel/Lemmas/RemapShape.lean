import FeatherModel.Model.RemapSpec

/-!
# Lemmas for C07: `remap.rs` preserves the shape (everything that is not a reference position)
-/

namespace RemapTree

theorem omapM_erase2 {α : Type} (rm : α → Option α) (er er' : α → α) (xs : List α) :
    ∀ ys, omapM rm xs = some ys → (∀ x ∈ xs, ∀ y, rm x = some y → er y = er' x) → ys.map er = xs.map er' := by
  induction xs with
  | nil => intro ys h _; simp [omapM] at h; subst h; rfl
  | cons x xs ih =>
    intro ys h hx
    simp only [omapM] at h
    split at h
    · simp at h
    · split at h
      · simp at h
      · rename_i _ y hy _ zs hzs
        simp at h; subst h
        simp [hx x (by simp) y hy, ih zs hzs (fun a ha => hx a (by simp [ha]))]

theorem omapM_erase {α : Type} (rm : α → Option α) (er : α → α) (xs : List α) :
    ∀ ys, omapM rm xs = some ys → (∀ x ∈ xs, ∀ y, rm x = some y → er y = er x) → ys.map er = xs.map er :=
  omapM_erase2 rm er er xs

theorem omapM_length {α β : Type} (rm : α → Option β) (xs : List α) :
    ∀ ys, omapM rm xs = some ys → ys.length = xs.length := by
  induction xs with
  | nil => intro ys h; simp [omapM] at h; subst h; rfl
  | cons x xs ih =>
    intro ys h
    simp only [omapM] at h
    split at h
    · simp at h
    · split at h
      · simp at h
      · rename_i _ y hy _ zs hzs
        simp at h; subst h
        simp [ih zs hzs]

/-- names only: the result is a list of blanks of the same length -/
theorem omapM_blank {α β : Type} (rm : α → Option β) (xs : List α) (ys : List β) (h : omapM rm xs = some ys)
    {γ : Type} (b : γ) : ys.map (fun _ => b) = xs.map (fun _ => b) := by
  have := omapM_length rm xs ys h
  simp [List.map_const', this]

theorem ooptM_erase {α : Type} (rm : α → Option α) (er : α → α) (x y : Option α)
    (h : ooptM rm x = some y) (hx : ∀ a b, x = some a → rm a = some b → er b = er a) : y.map er = x.map er := by
  cases x with
  | none => simp [ooptM] at h; subst h; rfl
  | some a =>
    simp only [ooptM] at h
    split at h
    · simp at h
    · rename_i b hb
      simp at h; subst h
      simp [hx a b rfl hb]

theorem ooptM_blank {α β : Type} (rm : α → Option β) (x : Option α) (y : Option β)
    (h : ooptM rm x = some y) {γ : Type} (b : γ) : y.map (fun _ => b) = x.map (fun _ => b) := by
  cases x with
  | none => simp [ooptM] at h; subst h; rfl
  | some a =>
    simp only [ooptM] at h
    split at h
    · simp at h
    · simp at h; subst h; rfl

section
variable (r : Remapper)

mutual
  theorem annotation_shape : ∀ a b : Annotation, remapAnnotation r a = some b → eraseAnnotation b = eraseAnnotation a
    | .mk t ps, b, h => by
      simp only [remapAnnotation] at h
      split at h
      · simp at h
      · split at h
        · simp at h
        · rename_i ps' hps
          simp at h; subst h
          simp [eraseAnnotation, pairs_shape ps ps' hps]
  theorem pairs_shape : ∀ ps qs : List Pair, remapPairs r ps = some qs → erasePairs qs = erasePairs ps
    | [], qs, h => by simp [remapPairs] at h; subst h; rfl
    | p :: ps, qs, h => by
      simp only [remapPairs] at h
      split at h
      · simp at h
      · split at h
        · simp at h
        · rename_i _ p' hp _ ps' hps
          simp at h; subst h
          simp [erasePairs, pair_shape p p' hp, pairs_shape ps ps' hps]
  theorem pair_shape : ∀ p q : Pair, remapPair r p = some q → erasePair q = erasePair p
    | .mk n v, q, h => by
      simp only [remapPair] at h
      split at h
      · simp at h
      · rename_i v' hv
        simp at h; subst h
        simp [erasePair, elementValue_shape v v' hv]
  theorem elementValue_shape : ∀ v w : ElementValue, remapElementValue r v = some w →
      eraseElementValue w = eraseElementValue v
    | .object o, w, h => by simp [remapElementValue] at h; subst h; rfl
    | .enum t c, w, h => by
      simp only [remapElementValue] at h
      split at h
      · simp at h
      · split at h
        · simp at h
        · simp at h; subst h; rfl
    | .cls d, w, h => by
      simp only [remapElementValue] at h
      split at h
      · simp at h
      · simp at h; subst h; rfl
    | .ann a, w, h => by
      simp only [remapElementValue] at h
      split at h
      · simp at h
      · rename_i a' ha
        simp at h; subst h
        simp [eraseElementValue, annotation_shape a a' ha]
    | .array vs, w, h => by
      simp only [remapElementValue] at h
      split at h
      · simp at h
      · rename_i vs' hvs
        simp at h; subst h
        simp [eraseElementValue, elementValues_shape vs vs' hvs]
  theorem elementValues_shape : ∀ vs ws : List ElementValue, remapElementValues r vs = some ws →
      eraseElementValues ws = eraseElementValues vs
    | [], ws, h => by simp [remapElementValues] at h; subst h; rfl
    | v :: vs, ws, h => by
      simp only [remapElementValues] at h
      split at h
      · simp at h
      · split at h
        · simp at h
        · rename_i _ v' hv _ vs' hvs
          simp at h; subst h
          simp [eraseElementValues, elementValue_shape v v' hv, elementValues_shape vs vs' hvs]
end


/-- one step of a `?` chain in a hypothesis `h : (match e with | none => none | some v => …) = some _` -/
syntax "osplit " ident " with " Lean.binderIdent Lean.binderIdent : tactic
macro_rules
  | `(tactic| osplit $h:ident with $v:binderIdent $hv:binderIdent) =>
    `(tactic| (split at $h:ident; (· simp at $h:ident); rename_i _ $v $hv))

theorem typeAnnotation_shape (t u : TypeAnnotation) (h : remapTypeAnnotation r t = some u) :
    eraseTypeAnnotation u = eraseTypeAnnotation t := by
  simp only [remapTypeAnnotation] at h
  osplit h with a ha
  simp at h; subst h
  simp [eraseTypeAnnotation, annotation_shape r _ _ ha]

theorem handle_shape (h k : Handle) (hh : remapHandle r h = some k) : eraseHandle k = eraseHandle h := by
  cases h with
  | field kind f =>
    simp only [remapHandle] at hh
    cases hf : mapFieldRef r f <;> simp [hf] at hh
    subst hh; rfl
  | method kind m =>
    simp only [remapHandle] at hh
    cases hm : mapMethodRef r m <;> simp [hm] at hh
    subst hh; rfl

mutual
  theorem loadable_shape : ∀ l m : Loadable, remapLoadable r l = some m → eraseLoadable m = eraseLoadable l
    | .const o, m, h => by simp [remapLoadable] at h; subst h; rfl
    | .cls n, m, h => by
      simp only [remapLoadable] at h
      cases hn : mapClassAny r n <;> simp [hn] at h
      subst h; rfl
    | .handle hd, m, h => by
      simp only [remapLoadable] at h
      cases hn : remapHandle r hd <;> simp [hn] at h
      subst h; simp [eraseLoadable, handle_shape r _ _ hn]
    | .methodType d, m, h => by
      simp only [remapLoadable] at h
      cases hn : r.mapDesc d <;> simp [hn] at h
      subst h; rfl
    | .dynamic c, m, h => by
      simp only [remapLoadable] at h
      cases hn : remapConstDyn r c <;> simp [hn] at h
      subst h; simp [eraseLoadable, constDyn_shape c _ hn]
  theorem constDyn_shape : ∀ c d : ConstDyn, remapConstDyn r c = some d → eraseConstDyn d = eraseConstDyn c
    | .mk n ds hd args, d, h => by
      simp only [remapConstDyn] at h
      osplit h with ds' hds
      osplit h with hd' hhd
      osplit h with args' hargs
      simp at h; subst h
      simp [eraseConstDyn, handle_shape r _ _ hhd, loadables_shape args _ hargs]
  theorem loadables_shape : ∀ ls ms : List Loadable, remapLoadables r ls = some ms →
      eraseLoadables ms = eraseLoadables ls
    | [], ms, h => by simp [remapLoadables] at h; subst h; rfl
    | l :: ls, ms, h => by
      simp only [remapLoadables] at h
      osplit h with l' hl
      osplit h with ls' hls
      simp at h; subst h
      simp [eraseLoadables, loadable_shape l _ hl, loadables_shape ls _ hls]
end

theorem vtype_shape (v w : VType) (h : remapVType r v = some w) : eraseVType w = eraseVType v := by
  cases v with
  | plain o => simp [remapVType] at h; subst h; rfl
  | object n =>
    simp only [remapVType] at h
    cases hn : mapClassAny r n <;> simp [hn] at h
    subst h; rfl

theorem vtypes_shape (vs ws : List VType) (h : omapM (remapVType r) vs = some ws) :
    ws.map eraseVType = vs.map eraseVType :=
  omapM_erase _ _ vs ws h (fun x _ y hy => vtype_shape r x y hy)

theorem frame_shape (f g : Frame) (h : remapFrame r f = some g) : eraseFrame g = eraseFrame f := by
  cases f with
  | plain o => simp [remapFrame] at h; subst h; rfl
  | same1 s =>
    simp only [remapFrame] at h
    cases hn : remapVType r s <;> simp [hn] at h
    subst h; simp [eraseFrame, vtype_shape r _ _ hn]
  | append ls =>
    simp only [remapFrame] at h
    cases hn : omapM (remapVType r) ls <;> simp [hn] at h
    subst h; simp [eraseFrame, vtypes_shape r _ _ hn]
  | full ls ss =>
    simp only [remapFrame] at h
    osplit h with ls' hls
    osplit h with ss' hss
    simp at h; subst h
    simp [eraseFrame, vtypes_shape r _ _ hls, vtypes_shape r _ _ hss]

theorem insn_shape (i j : Insn) (h : remapInsn r i = some j) : eraseInsn j = eraseInsn i := by
  cases i with
  | plain o => simp [remapInsn] at h; subst h; rfl
  | ldc l =>
    simp only [remapInsn] at h
    cases hn : remapLoadable r l <;> simp [hn] at h
    subst h; simp [eraseInsn, loadable_shape r _ _ hn]
  | field op f =>
    simp only [remapInsn] at h
    cases hn : mapFieldRef r f <;> simp [hn] at h
    subst h; rfl
  | method op m =>
    simp only [remapInsn] at h
    cases hn : mapMethodRef r m <;> simp [hn] at h
    subst h; rfl
  | indy n d hd args =>
    simp only [remapInsn] at h
    osplit h with d' hd0
    osplit h with hd' hhd
    osplit h with args' hargs
    simp at h; subst h
    simp [eraseInsn, handle_shape r _ _ hhd, loadables_shape r _ _ hargs]
  | cls op n =>
    simp only [remapInsn] at h
    cases hn : mapClassAny r n <;> simp [hn] at h
    subst h; rfl

theorem insnEntry_shape (e f : InsnEntry) (h : remapInsnEntry r e = some f) : eraseInsnEntry f = eraseInsnEntry e := by
  simp only [remapInsnEntry] at h
  osplit h with fr hfr
  osplit h with i hi
  simp at h; subst h
  simp [eraseInsnEntry, insn_shape r _ _ hi, ooptM_erase _ eraseFrame _ _ hfr (fun a b _ hb => frame_shape r a b hb)]

theorem exc_shape (e f : ExcEntry) (h : remapExc r e = some f) : eraseExc f = eraseExc e := by
  simp only [remapExc] at h
  osplit h with c hc
  simp at h; subst h
  simp [eraseExc, ooptM_blank _ _ _ hc]

theorem lv_shape (l m : Lv) (h : remapLv r l = some m) : eraseLv m = eraseLv l := by
  simp only [remapLv] at h
  osplit h with d hd
  simp at h; subst h
  simp [eraseLv, ooptM_blank _ _ _ hd]

theorem annotations_shape (as bs : List Annotation) (h : omapM (remapAnnotation r) as = some bs) :
    bs.map eraseAnnotation = as.map eraseAnnotation :=
  omapM_erase _ _ as bs h (fun x _ y hy => annotation_shape r x y hy)

theorem typeAnnotations_shape (as bs : List TypeAnnotation) (h : omapM (remapTypeAnnotation r) as = some bs) :
    bs.map eraseTypeAnnotation = as.map eraseTypeAnnotation :=
  omapM_erase _ _ as bs h (fun x _ y hy => typeAnnotation_shape r x y hy)

theorem code_shape (c d : Code) (h : remapCode r c = some d) : eraseCode d = eraseCode c := by
  simp only [remapCode] at h
  osplit h with insns hinsns
  osplit h with excs hexcs
  osplit h with lvs hlvs
  osplit h with rvta hrvta
  osplit h with rita hrita
  simp at h; subst h
  simp [eraseCode, typeAnnotations_shape r _ _ hrvta, typeAnnotations_shape r _ _ hrita,
    omapM_erase _ eraseInsnEntry _ _ hinsns (fun x _ y hy => insnEntry_shape r x y hy),
    omapM_erase _ eraseExc _ _ hexcs (fun x _ y hy => exc_shape r x y hy),
    ooptM_erase _ (List.map eraseLv) _ _ hlvs
      (fun a b _ hb => omapM_erase _ eraseLv _ _ hb (fun x _ y hy => lv_shape r x y hy))]


theorem field_shape (o : JStr) (f g : Field) (h : remapField r o f = some g) :
    eraseField g = eraseField f := by
  simp only [remapField] at h
  split at h
  · simp at h
  rename_i _ n d hnd
  osplit h with rva hrva
  osplit h with ria hria
  osplit h with rvta hrvta
  osplit h with rita hrita
  simp at h; subst h
  simp [eraseField, typeAnnotations_shape r _ _ hrvta, typeAnnotations_shape r _ _ hrita,
    annotations_shape r _ _ hrva, annotations_shape r _ _ hria]

theorem method_shape (o : JStr) (m n : Method) (h : remapMethod r o m = some n) :
    eraseMethod n = eraseMethod m := by
  simp only [remapMethod] at h
  split at h
  · simp at h
  rename_i _ nm d hnd
  osplit h with code hcode
  osplit h with excs hexcs
  osplit h with rva hrva
  osplit h with ria hria
  osplit h with rvta hrvta
  osplit h with rita hrita
  osplit h with ad had
  simp at h; subst h
  have hc : code.map eraseCode = m.code.map eraseCode := by
    cases hm : m.code with
    | none => simp [hm, ooptM] at hcode; subst hcode; rfl
    | some c =>
      simp only [hm, ooptM] at hcode
      split at hcode
      · simp at hcode
      · rename_i c' hc'
        simp at hcode; subst hcode
        simp [code_shape r _ _ hc']
  have he : excs.map (·.map fun _ => ([] : JStr)) = m.exceptions.map (·.map fun _ => ([] : JStr)) := by
    cases hm : m.exceptions with
    | none => simp [hm, ooptM] at hexcs; subst hexcs; rfl
    | some es =>
      simp only [hm, ooptM] at hexcs
      split at hexcs
      · simp at hexcs
      · rename_i es' hes'
        simp at hexcs; subst hexcs
        simp [omapM_blank _ _ _ hes']
  simp [eraseMethod, typeAnnotations_shape r _ _ hrvta, typeAnnotations_shape r _ _ hrita,
    annotations_shape r _ _ hrva, annotations_shape r _ _ hria, hc, he,
    ooptM_erase _ eraseElementValue _ _ had (fun a b _ hb => elementValue_shape r a b hb)]

theorem innerClass_shape (i j : InnerClass) (h : remapInnerClass r i = some j) :
    eraseInnerClass j = eraseInnerClass i := by
  simp only [remapInnerClass] at h
  osplit h with inner hinner
  osplit h with outer houter
  simp at h; subst h
  simp [eraseInnerClass, ooptM_blank _ _ _ houter, Function.comp_def]

theorem enclosing_shape (e f : Enclosing) (h : remapEnclosing r e = some f) :
    eraseEnclosing f = eraseEnclosing e := by
  obtain ⟨c, m⟩ := e
  cases m with
  | none =>
    simp only [remapEnclosing] at h
    osplit h with c' hc
    simp at h; subst h; rfl
  | some nd =>
    obtain ⟨n, d⟩ := nd
    simp only [remapEnclosing] at h
    osplit h with m' hm
    simp at h; subst h; rfl

theorem recordComponent_shape (o : JStr) (c d : RecordComponent) (h : remapRecordComponent r o c = some d) :
    eraseRecordComponent d = eraseRecordComponent c := by
  simp only [remapRecordComponent] at h
  split at h
  · simp at h
  rename_i _ n ds hnd
  osplit h with rva hrva
  osplit h with ria hria
  osplit h with rvta hrvta
  osplit h with rita hrita
  simp at h; subst h
  simp [eraseRecordComponent, typeAnnotations_shape r _ _ hrvta, typeAnnotations_shape r _ _ hrita,
    annotations_shape r _ _ hrva, annotations_shape r _ _ hria]

theorem moduleProvides_shape (p q : ModuleProvides) (h : remapModuleProvides r p = some q) :
    eraseModuleProvides q = eraseModuleProvides p := by
  simp only [remapModuleProvides] at h
  osplit h with n hn
  osplit h with ws hws
  simp at h; subst h
  simp [eraseModuleProvides, omapM_blank _ _ _ hws]

theorem module_shape (m n : Module) (h : remapModule r m = some n) : eraseModule n = eraseModule m := by
  simp only [remapModule] at h
  osplit h with uses huses
  osplit h with provides hprov
  simp at h; subst h
  simp [eraseModule, omapM_blank _ _ _ huses,
    omapM_erase _ eraseModuleProvides _ _ hprov (fun x _ y hy => moduleProvides_shape r x y hy)]

/-- **shape**: what `remap.rs` returns has the shape of the class it was given -/
theorem class_shape (c d : ClassFile) (h : remapClass r c = some d) : eraseClass d = eraseClass c := by
  simp only [remapClass] at h
  osplit h with name hname
  osplit h with superClass hsuper
  osplit h with interfaces hitfs
  osplit h with fields hfields
  osplit h with methods hmethods
  osplit h with innerClasses hinner
  osplit h with enclosingMethod hencl
  osplit h with rva hrva
  osplit h with ria hria
  osplit h with rvta hrvta
  osplit h with rita hrita
  osplit h with module hmodule
  osplit h with mainClass hmain
  osplit h with nestHost hnh
  osplit h with nestMembers hnm
  osplit h with permitted hps
  osplit h with records hrcs
  simp at h; subst h
  have hf : fields.map eraseField = c.fields.map eraseField :=
    omapM_erase (remapField r c.name) eraseField c.fields fields hfields (fun x _ y hy => field_shape r c.name x y hy)
  have hm : methods.map eraseMethod = c.methods.map eraseMethod :=
    omapM_erase (remapMethod r c.name) eraseMethod c.methods methods hmethods
      (fun x _ y hy => method_shape r c.name x y hy)
  have hr : records.map eraseRecordComponent = c.recordComponents.map eraseRecordComponent :=
    omapM_erase (remapRecordComponent r c.name) eraseRecordComponent c.recordComponents records hrcs
      (fun x _ y hy => recordComponent_shape r c.name x y hy)
  have hnm' : nestMembers.map (·.map fun _ => ([] : JStr)) = c.nestMembers.map (·.map fun _ => ([] : JStr)) := by
    cases hc : c.nestMembers with
    | none => simp [hc, ooptM] at hnm; subst hnm; rfl
    | some es =>
      simp only [hc, ooptM] at hnm
      split at hnm
      · simp at hnm
      · rename_i es' hes'
        simp at hnm; subst hnm
        simp [omapM_blank _ _ _ hes']
  have hps' : permitted.map (·.map fun _ => ([] : JStr)) = c.permittedSubclasses.map (·.map fun _ => ([] : JStr)) := by
    cases hc : c.permittedSubclasses with
    | none => simp [hc, ooptM] at hps; subst hps; rfl
    | some es =>
      simp only [hc, ooptM] at hps
      split at hps
      · simp at hps
      · rename_i es' hes'
        simp at hps; subst hps
        simp [omapM_blank _ _ _ hes']
  simp [eraseClass, hf, hm, hr, hnm', hps', typeAnnotations_shape r _ _ hrvta, typeAnnotations_shape r _ _ hrita,
    annotations_shape r _ _ hrva, annotations_shape r _ _ hria, ooptM_blank _ _ _ hsuper, omapM_blank _ _ _ hitfs,
    ooptM_blank _ _ _ hnh, ooptM_blank _ _ _ hmain,
    ooptM_erase _ eraseModule _ _ hmodule (fun a b _ hb => module_shape r a b hb),
    ooptM_erase _ eraseEnclosing _ _ hencl (fun a b _ hb => enclosing_shape r a b hb),
    ooptM_erase _ (List.map eraseInnerClass) _ _ hinner
      (fun a b _ hb => omapM_erase _ eraseInnerClass _ _ hb (fun x _ y hy => innerClass_shape r x y hy))]

end

end RemapTree
