import FeatherModel.Model.RawLayout

/-! C20 helper lemmas: induction principle for `Val`, big-endian codec, lengths. -/

namespace RawLayout

/-- structural induction over the nested inductive `Val` -/
theorem Val.ind {P : Val → Prop} (hnum : ∀ n, P (.num n))
    (hlist : ∀ vs, (∀ v ∈ vs, P v) → P (.list vs))
    (hnode : ∀ k fs, (∀ v ∈ fs, P v) → P (.node k fs)) : ∀ v, P v := by
  intro v
  refine Val.rec (motive_1 := P) (motive_2 := fun l => ∀ v ∈ l, P v) hnum hlist hnode ?_ ?_ v
  · intro v hv; cases hv
  · intro h t ih1 ih2 v hv
    cases hv with
    | head => exact ih1
    | tail _ hm => exact ih2 v hm

theorem Val.beqList_iff (as : List Val) (ih : ∀ a ∈ as, ∀ b, Val.beq a b = true ↔ a = b) :
    ∀ bs, Val.beqList as bs = true ↔ as = bs := by
  induction as with
  | nil => intro bs; cases bs <;> simp [Val.beqList]
  | cons a as iha =>
    intro bs
    cases bs with
    | nil => simp [Val.beqList]
    | cons b bs =>
      simp [Val.beqList, ih a (by simp) b, iha (fun x hx => ih x (by simp [hx])) bs]

theorem Val.beq_iff : ∀ a b, Val.beq a b = true ↔ a = b := by
  intro a
  induction a using Val.ind with
  | hnum n => intro b; cases b <;> simp [Val.beq]
  | hlist vs ih => intro b; cases b <;> simp [Val.beq, Val.beqList_iff vs ih]
  | hnode k fs ih => intro b; cases b <;> simp [Val.beq, Val.beqList_iff fs ih]

/-- decidable equality of values (the executable comparison of the model is correct) -/
instance : DecidableEq Val := fun a b => decidable_of_iff _ (Val.beq_iff a b)

/-! ## big-endian numbers -/

theorem be_length (p : Prim) (n : Nat) : (be p n).length = p.bytes := by
  cases p <;> rfl

theorem takeBE_be (p : Prim) (n : Nat) (r : Bytes) (h : n < p.bound) : takeBE p (be p n ++ r) = some (n, r) := by
  cases p <;> simp [be, takeBE, Prim.bound] at * <;> omega

/-- what `takeBE` returns is below the bound and re-encodes to the bytes consumed, provided they are bytes -/
theorem be_takeBE (p : Prim) (bs r : Bytes) (n : Nat) (hb : ∀ x ∈ bs, x < 256) (h : takeBE p bs = some (n, r)) :
    n < p.bound ∧ be p n ++ r = bs := by
  cases p with
  | u8 =>
    match bs, h with
    | a :: r', h =>
      simp [takeBE] at h
      obtain ⟨rfl, rfl⟩ := h
      have := hb a (by simp)
      simp [be, Prim.bound]; omega
  | u16 =>
    match bs, h with
    | a :: b :: r', h =>
      simp [takeBE] at h
      obtain ⟨rfl, rfl⟩ := h
      have := hb a (by simp); have := hb b (by simp)
      simp [be, Prim.bound]; omega
  | u32 =>
    match bs, h with
    | a :: b :: c :: d :: r', h =>
      simp [takeBE] at h
      obtain ⟨rfl, rfl⟩ := h
      have := hb a (by simp); have := hb b (by simp); have := hb c (by simp); have := hb d (by simp)
      simp [be, Prim.bound]; omega

theorem takeBE_suffix (p : Prim) (bs r : Bytes) (n : Nat) (h : takeBE p bs = some (n, r)) :
    ∃ pre, bs = pre ++ r ∧ pre.length = p.bytes := by
  cases p with
  | u8 =>
    match bs, h with
    | a :: r', h => simp [takeBE] at h; exact ⟨[a], by simp [h.2], rfl⟩
  | u16 =>
    match bs, h with
    | a :: b :: r', h => simp [takeBE] at h; exact ⟨[a, b], by simp [h.2], rfl⟩
  | u32 =>
    match bs, h with
    | a :: b :: c :: d :: r', h => simp [takeBE] at h; exact ⟨[a, b, c, d], by simp [h.2], rfl⟩

theorem be_bytes (p : Prim) (n : Nat) : ∀ x ∈ be p n, x < 256 := by
  cases p <;> simp [be] <;> omega

end RawLayout
