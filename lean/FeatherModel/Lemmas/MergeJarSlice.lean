import FeatherModel.Lemmas.MergeJarMpo

/-! Lemmas for C13, part 2: the Outcome monad, `collect`/`get`, `merge_slice` on fields and methods. -/
set_option linter.unusedSectionVars false
namespace MergeJar
open Outcome

/-! ### results of a run contain nothing but what the cursors still hold -/
theorem Run.mem_subset {α : Type} [BEq α] [LawfulBEq α] {a b : List α} {Q} {ra rb out} (h : Run a b Q ra rb out) :
    ∀ x, x ∈ out → x ∈ ra ∨ x ∈ rb := by
  induction h with
  | stop ra rb _ =>
    intro x hx
    unfold mpoTail at hx
    simp only [List.mem_append, List.mem_filter] at hx
    cases hx with
    | inl h => exact Or.inl h
    | inr h => exact Or.inr h.1
  | both x ra rb out _ ih =>
    intro z hz
    simp only [List.mem_cons] at hz ⊢
    cases hz with
    | inl h => exact Or.inl (Or.inl h)
    | inr h => cases ih z h with
      | inl h => exact Or.inl (Or.inr h)
      | inr h => exact Or.inr (Or.inr h)
  | left x ra rb out _ _ ih =>
    intro z hz
    simp only [List.mem_cons] at hz ⊢
    cases hz with
    | inl h => exact Or.inl (Or.inl h)
    | inr h => cases ih z h with
      | inl h => exact Or.inl (Or.inr h)
      | inr h => exact Or.inr h
  | right y ra rb out _ _ ih =>
    intro z hz
    simp only [List.mem_cons] at hz ⊢
    cases hz with
    | inl h => exact Or.inr (Or.inl h)
    | inr h => cases ih z h with
      | inl h => exact Or.inl h
      | inr h => exact Or.inr (Or.inr h)

theorem mpo_mem_subset {α : Type} [BEq α] [LawfulBEq α] (a b : List α) (x : α) (h : x ∈ mergePreserveOrder a b) :
    x ∈ a ∨ x ∈ b :=
  (mpoLoop_run a b True _ a b (Or.inl trivial)).mem_subset x h

/-! ### the Outcome monad -/
@[simp] theorem ok_bind {α β : Type} (a : α) (f : α → Outcome β) : (Outcome.ok a >>= f) = f a := rfl
@[simp] theorem err_bind {α β : Type} (f : α → Outcome β) : (Outcome.err >>= f) = Outcome.err := rfl
@[simp] theorem panic_bind {α β : Type} (s : String) (f : α → Outcome β) : (Outcome.panic s >>= f) = Outcome.panic s := rfl
@[simp] theorem pure_eq_ok {α : Type} (a : α) : (pure a : Outcome α) = Outcome.ok a := rfl

/-! ### mapM' -/
section MapM
variable {α β γ : Type}

theorem mapM'_ok_cons {f : α → Outcome β} {x : α} {xs : List α} {r : List β} (h : mapM' f (x :: xs) = ok r) :
    ∃ y ys, f x = ok y ∧ mapM' f xs = ok ys ∧ r = y :: ys := by
  simp only [mapM'] at h
  cases hf : f x with
  | ok y =>
    rw [hf] at h
    cases hr : mapM' f xs with
    | ok ys => rw [hr] at h; simp only [Outcome.ok.injEq] at h; exact ⟨y, ys, rfl, rfl, h.symm⟩
    | err => rw [hr] at h; simp at h
    | panic s => rw [hr] at h; simp at h
  | err => rw [hf] at h; simp at h
  | panic s => rw [hf] at h; simp at h

theorem mapM'_ok_map {f : α → Outcome β} (g : β → α) {l : List α} {r : List β} (h : mapM' f l = ok r)
    (hg : ∀ k ∈ l, ∀ m, f k = ok m → g m = k) : r.map g = l := by
  induction l generalizing r with
  | nil => simp only [mapM', Outcome.ok.injEq] at h; subst h; rfl
  | cons x xs ih =>
    obtain ⟨y, ys, hy, hys, hr⟩ := mapM'_ok_cons h
    subst hr
    simp only [List.map_cons]
    rw [hg x List.mem_cons_self y hy, ih hys (fun k hk => hg k (List.mem_cons_of_mem _ hk))]

theorem mapM'_ok_mem {f : α → Outcome β} {l : List α} {r : List β} (h : mapM' f l = ok r) :
    ∀ m ∈ r, ∃ k ∈ l, f k = ok m := by
  induction l generalizing r with
  | nil => simp only [mapM', Outcome.ok.injEq] at h; subst h; simp
  | cons x xs ih =>
    obtain ⟨y, ys, hy, hys, hr⟩ := mapM'_ok_cons h
    subst hr
    intro m hm
    simp only [List.mem_cons] at hm
    cases hm with
    | inl e => subst e; exact ⟨x, List.mem_cons_self, hy⟩
    | inr e =>
      obtain ⟨k, hk, hf⟩ := ih hys m e
      exact ⟨k, List.mem_cons_of_mem _ hk, hf⟩

theorem mapM'_total {f : α → Outcome β} {l : List α} (h : ∀ k ∈ l, ∃ m, f k = ok m) : ∃ r, mapM' f l = ok r := by
  induction l with
  | nil => exact ⟨[], rfl⟩
  | cons x xs ih =>
    obtain ⟨y, hy⟩ := h x List.mem_cons_self
    obtain ⟨ys, hys⟩ := ih (fun k hk => h k (List.mem_cons_of_mem _ hk))
    exact ⟨y :: ys, by simp only [mapM', hy, hys]⟩
end MapM

/-! ### collect / get -/
section Collect
variable {T K : Type} [BEq K] [LawfulBEq K]

theorem get_upsert (k k' : K) (v : T) (m : List (K × T)) :
    get k (upsert k' v m) = if k' == k then some v else get k m := by
  induction m with
  | nil => simp [upsert, get]
  | cons e rest ih =>
    obtain ⟨k0, v0⟩ := e
    simp only [upsert]
    by_cases h0 : (k0 == k') = true
    · have e0 : k0 = k' := by simpa using h0
      subst e0
      simp only [beq_self_eq_true, if_true, get]
      by_cases h1 : (k0 == k) = true <;> simp [h1]
    · simp only [h0, Bool.false_eq_true, if_false, get, ih]
      by_cases h1 : (k0 == k) = true
      · have e1 : k0 = k := by simpa using h1
        subst e1
        have : (k' == k0) = false := by
          simp only [beq_eq_false_iff_ne, ne_eq]; intro e; subst e; simp at h0
        simp [this]
      · simp only [h1, Bool.false_eq_true, if_false]

theorem get_foldl_some (key : T → K) (k : K) (v : T) :
    ∀ (ms : List T) (acc : List (K × T)),
      get k (ms.foldl (fun m x => upsert (key x) x m) acc) = some v → (v ∈ ms ∧ key v = k) ∨ get k acc = some v := by
  intro ms
  induction ms with
  | nil => intro acc h; exact Or.inr h
  | cons x xs ih =>
    intro acc h
    simp only [List.foldl_cons] at h
    cases ih _ h with
    | inl h => exact Or.inl ⟨List.mem_cons_of_mem _ h.1, h.2⟩
    | inr h =>
      rw [get_upsert] at h
      by_cases hk : (key x == k) = true
      · simp only [hk, if_true, Option.some.injEq] at h
        subst h
        exact Or.inl ⟨List.mem_cons_self, by simpa using hk⟩
      · simp only [hk, Bool.false_eq_true, if_false] at h
        exact Or.inr h

theorem get_foldl_none (key : T → K) (k : K) :
    ∀ (ms : List T) (acc : List (K × T)),
      get k (ms.foldl (fun m x => upsert (key x) x m) acc) = none → (∀ m ∈ ms, key m ≠ k) ∧ get k acc = none := by
  intro ms
  induction ms with
  | nil => intro acc h; exact ⟨by simp, h⟩
  | cons x xs ih =>
    intro acc h
    simp only [List.foldl_cons] at h
    obtain ⟨h1, h2⟩ := ih _ h
    rw [get_upsert] at h2
    by_cases hk : (key x == k) = true
    · simp [hk] at h2
    · simp only [hk, Bool.false_eq_true, if_false] at h2
      refine ⟨?_, h2⟩
      intro m hm
      simp only [List.mem_cons] at hm
      cases hm with
      | inl e => subst e; intro e; exact hk (by simp [e])
      | inr e => exact h1 m e

theorem get_collect_some {key : T → K} {k : K} {v : T} {ms : List T} (h : get k (collect key ms) = some v) :
    v ∈ ms ∧ key v = k := by
  cases get_foldl_some key k v ms [] h with
  | inl h => exact h
  | inr h => simp [get] at h

theorem get_collect_none {key : T → K} {k : K} {ms : List T} (h : get k (collect key ms) = none) :
    ∀ m ∈ ms, key m ≠ k := (get_foldl_none key k ms [] h).1
end Collect

/-! ### fields and methods -/


def markMember (m : Member) (s : Side) : Member := { m with anns := m.anns ++ [Ann.env s] }

theorem innerMember_ok {c s m : Member} (h : innerMember c s = ok m) : m = c := by
  unfold innerMember mergeEq mergeFromClient at h
  by_cases h1 : (c.name != s.name) = true
  · simp [h1] at h
  · simp only [h1, Bool.false_eq_true, if_false] at h
    by_cases h2 : (c.desc != s.desc) = true
    · simp [h2] at h
    · simp only [h2, Bool.false_eq_true, if_false] at h
      by_cases h3 : (c.deprecated != s.deprecated) = true
      · simp [h3] at h
      · simp only [h3, Bool.false_eq_true, if_false] at h
        by_cases h4 : (c.synthetic != s.synthetic) = true
        · simp [h4] at h
        · simp only [h4, Bool.false_eq_true, if_false, ok_bind, pure_eq_ok, Outcome.ok.injEq] at h
          exact h.symm

theorem innerMember_total {c s : Member} (hk : memberKey c = memberKey s) (hd : c.deprecated = s.deprecated)
    (hs : c.synthetic = s.synthetic) : innerMember c s = ok c := by
  cases c with
  | mk n d a dep syn p an =>
    cases s with
    | mk n' d' a' dep' syn' p' an' =>
      simp only [memberKey, Prod.mk.injEq] at hk
      simp only at hd hs
      obtain ⟨h1, h2⟩ := hk
      subst h1 h2 hd hs
      simp [innerMember, mergeEq, mergeFromClient]

/-- what `merge_slice` computes for one key -/
def memberElem (c s : List Member) (i : JStr × JStr) : Outcome Member :=
  match get i (collect memberKey c), get i (collect memberKey s) with
  | some ec, some es => if ec == es then ok ec else innerMember ec es
  | some ec, none => sideMember ec Side.client
  | none, some es => sideMember es Side.server
  | none, none => Outcome.panic "unreachable"

theorem mergeMembers_eq (c s : List Member) :
    mergeMembers c s = mapM' (memberElem c s) (mergePreserveOrder (c.map memberKey) (s.map memberKey)) := by
  unfold mergeMembers mergeSlice
  simp only []
  congr
  funext i
  unfold memberElem
  cases get i (collect memberKey c) <;> cases get i (collect memberKey s) <;> rfl

theorem memberElem_ok {c s : List Member} {i : JStr × JStr} {m : Member} (h : memberElem c s i = ok m) :
    memberKey m = i ∧
    ((∃ mc ∈ c, memberKey mc = i ∧
        (((∃ ms ∈ s, memberKey ms = i) ∧ m = mc) ∨ ((∀ ms ∈ s, memberKey ms ≠ i) ∧ m = markMember mc Side.client)))
     ∨ ((∀ mc ∈ c, memberKey mc ≠ i) ∧ ∃ ms ∈ s, memberKey ms = i ∧ m = markMember ms Side.server)) := by
  unfold memberElem at h
  cases hc : get i (collect memberKey c) with
  | some ec =>
    obtain ⟨hec, hkc⟩ := get_collect_some hc
    cases hs : get i (collect memberKey s) with
    | some es =>
      obtain ⟨hes, hks⟩ := get_collect_some hs
      rw [hc, hs] at h
      simp only at h
      have hm : m = ec := by
        by_cases he : (ec == es) = true
        · simp only [he, if_true, Outcome.ok.injEq] at h; exact h.symm
        · simp only [he, Bool.false_eq_true, if_false] at h; exact innerMember_ok h
      subst hm
      exact ⟨hkc, Or.inl ⟨m, hec, hkc, Or.inl ⟨⟨es, hes, hks⟩, rfl⟩⟩⟩
    | none =>
      have hns := get_collect_none hs
      rw [hc, hs] at h
      simp only [sideMember, Outcome.ok.injEq] at h
      subst h
      exact ⟨hkc, Or.inl ⟨ec, hec, hkc, Or.inr ⟨hns, rfl⟩⟩⟩
  | none =>
    have hnc := get_collect_none hc
    cases hs : get i (collect memberKey s) with
    | some es =>
      obtain ⟨hes, hks⟩ := get_collect_some hs
      rw [hc, hs] at h
      simp only [sideMember, Outcome.ok.injEq] at h
      subst h
      exact ⟨hks, Or.inr ⟨hnc, es, hes, hks, rfl⟩⟩
    | none =>
      rw [hc, hs] at h
      simp at h

theorem mergeMembers_keys {c s r : List Member} (h : mergeMembers c s = ok r) :
    r.map memberKey = mergePreserveOrder (c.map memberKey) (s.map memberKey) := by
  rw [mergeMembers_eq] at h
  exact mapM'_ok_map memberKey h (fun k _ m hm => (memberElem_ok hm).1)

theorem memberElem_total {c s : List Member} (hf : sharedFlagsOk c s = true) {i : JStr × JStr}
    (hi : i ∈ mergePreserveOrder (c.map memberKey) (s.map memberKey)) : ∃ m, memberElem c s i = ok m := by
  unfold memberElem
  cases hc : get i (collect memberKey c) with
  | some ec =>
    obtain ⟨hec, hkc⟩ := get_collect_some hc
    cases hs : get i (collect memberKey s) with
    | some es =>
      obtain ⟨hes, hks⟩ := get_collect_some hs
      simp only
      by_cases he : (ec == es) = true
      · exact ⟨ec, by simp only [he, if_true]⟩
      · simp only [he, Bool.false_eq_true, if_false]
        unfold sharedFlagsOk at hf
        simp only [List.all_eq_true] at hf
        have := hf ec hec es hes
        have hk : memberKey ec = memberKey es := by rw [hkc, hks]
        simp only [hk, bne_self_eq_false, Bool.false_or, Bool.and_eq_true, beq_iff_eq] at this
        exact ⟨ec, innerMember_total hk this.1 this.2⟩
    | none => exact ⟨_, rfl⟩
  | none =>
    have hnc := get_collect_none hc
    cases hs : get i (collect memberKey s) with
    | some es => exact ⟨_, rfl⟩
    | none =>
      have hns := get_collect_none hs
      exfalso
      cases mpo_mem_subset _ _ i hi with
      | inl h =>
        simp only [List.mem_map] at h
        obtain ⟨m, hm, hk⟩ := h
        exact hnc m hm hk
      | inr h =>
        simp only [List.mem_map] at h
        obtain ⟨m, hm, hk⟩ := h
        exact hns m hm hk

theorem mergeMembers_total {c s : List Member} (hf : sharedFlagsOk c s = true) : ∃ r, mergeMembers c s = ok r := by
  rw [mergeMembers_eq]
  exact mapM'_total (fun k hk => memberElem_total hf hk)
end MergeJar
