import FeatherModel.Spec.ClassEncode

/-!
# C02 (whole writer) — what a list of `Code` attributes denotes: every kind of attribute is looked at by its own
projection only
-/

namespace ClassWriteFull
open ClassRead ClassRead.Spec

/-- the kind of an attribute of `Code` -/
def ctag : SCodeAttr → Nat
  | .frames .. => 0
  | .lines .. => 1
  | .lvt .. => 2
  | .lvtt .. => 3
  | .typeAnnos .. => 4
  | .unknown .. => 5

theorem framesOf_skip : ∀ (xs r : List SCodeAttr), (∀ a ∈ xs, ctag a ≠ 0) → framesOf (xs ++ r) = framesOf r
  | [], _, _ => rfl
  | a :: xs, r, h => by
    have ha := h a List.mem_cons_self
    have ih := framesOf_skip xs r (fun b hb => h b (List.mem_cons_of_mem _ hb))
    cases a <;> simp_all [framesOf, ctag]

theorem linesOf_skip : ∀ (xs r : List SCodeAttr), (∀ a ∈ xs, ctag a ≠ 1) → linesOf (xs ++ r) = linesOf r
  | [], _, _ => rfl
  | a :: xs, r, h => by
    have ha := h a List.mem_cons_self
    have ih := linesOf_skip xs r (fun b hb => h b (List.mem_cons_of_mem _ hb))
    cases a <;> simp_all [linesOf, ctag]

theorem localsOf_skip : ∀ (xs r : List SCodeAttr), (∀ a ∈ xs, ctag a ≠ 2 ∧ ctag a ≠ 3) → localsOf (xs ++ r) = localsOf r
  | [], _, _ => rfl
  | a :: xs, r, h => by
    have ha := h a List.mem_cons_self
    have ih := localsOf_skip xs r (fun b hb => h b (List.mem_cons_of_mem _ hb))
    cases a <;> simp_all [localsOf, ctag]

theorem typeAnnosOf_skip (v : Bool) : ∀ (xs r : List SCodeAttr), (∀ a ∈ xs, ctag a ≠ 4) →
    typeAnnosOf v (xs ++ r) = typeAnnosOf v r
  | [], _, _ => rfl
  | a :: xs, r, h => by
    have ha := h a List.mem_cons_self
    have ih := typeAnnosOf_skip v xs r (fun b hb => h b (List.mem_cons_of_mem _ hb))
    cases a <;> simp_all [typeAnnosOf, ctag]

theorem unknownsOf_skip : ∀ (xs r : List SCodeAttr), (∀ a ∈ xs, ctag a ≠ 5) → unknownsOf (xs ++ r) = unknownsOf r
  | [], _, _ => rfl
  | a :: xs, r, h => by
    have ha := h a List.mem_cons_self
    have ih := unknownsOf_skip xs r (fun b hb => h b (List.mem_cons_of_mem _ hb))
    cases a <;> simp_all [unknownsOf, ctag]

/-- an optional attribute of one kind -/
theorem tag_toList {o : Option SCodeAttr} {k : Nat} (h : ∀ a ∈ o, ctag a = k) : ∀ a ∈ o.toList, ctag a = k :=
  fun a ha => h a (Option.mem_toList.mp ha)

end ClassWriteFull
