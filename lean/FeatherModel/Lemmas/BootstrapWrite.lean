import FeatherModel.Model.BootstrapWrite

/-! # De-duplicated bootstrap method table -/

namespace BootstrapWrite

theorem indexOf_some {b : Bsm} {bs : List Bsm} {i : Nat} (h : indexOf b bs = some i) : bs[i]? = some b := by
  induction bs generalizing i with
  | nil => simp [indexOf] at h
  | cons x xs ih =>
    simp only [indexOf] at h
    split at h
    · rename_i hx; cases h; simp [hx]
    · cases hi : indexOf b xs with
      | none => simp [hi] at h
      | some j =>
        simp only [hi, Option.map_some, Option.some.injEq] at h
        subst h
        simpa using ih hi

theorem indexOf_append_self {b : Bsm} {bs : List Bsm} (h : indexOf b bs = none) :
    indexOf b (bs ++ [b]) = some bs.length := by
  induction bs with
  | nil => simp [indexOf]
  | cons x xs ih =>
    simp only [indexOf] at h
    split at h
    · cases h
    · rename_i hx
      cases hi : indexOf b xs with
      | some j => simp [hi] at h
      | none => simp [indexOf, hx, ih hi]

/-- the returned index designates the bootstrap method in the table -/
theorem put_get {bs bs' : List Bsm} {b : Bsm} {i : Nat} (h : put bs b = some (i, bs')) : bs'[i]? = some b := by
  unfold put at h
  split at h
  · rename_i j hj; cases h; exact indexOf_some hj
  · split at h
    · cases h
    · cases h; simp

/-- entries handed out earlier keep their index -/
theorem put_stable {bs bs' : List Bsm} {b b' : Bsm} {i j : Nat} (h : put bs b = some (i, bs'))
    (hj : bs[j]? = some b') : bs'[j]? = some b' := by
  unfold put at h
  split at h
  · cases h; exact hj
  · split at h
    · cases h
    · cases h
      have hlt : j < bs.length := (List.getElem?_eq_some_iff.mp hj).1
      rw [List.getElem?_append_left hlt]; exact hj

/-- de-duplication: the same (handle, arguments) pair gets the same index and the table does not grow -/
theorem put_idem {bs bs' : List Bsm} {b : Bsm} {i : Nat} (h : put bs b = some (i, bs')) : put bs' b = some (i, bs') := by
  unfold put at h
  split at h
  · rename_i j hj; cases h; simp [put, hj]
  · rename_i hn
    split at h
    · cases h
    · cases h
      simp [put, indexOf_append_self hn]

/-- indices fit `u16`: the table never has more than 65536 entries -/
theorem put_range {bs bs' : List Bsm} {b : Bsm} {i : Nat} (hl : bs.length ≤ 65536) (h : put bs b = some (i, bs')) :
    i ≤ 65535 ∧ bs'.length ≤ 65536 := by
  have hg := put_get h
  have hlt : i < bs'.length := (List.getElem?_eq_some_iff.mp hg).1
  unfold put at h
  split at h
  · cases h; exact ⟨by omega, hl⟩
  · split at h
    · cases h
    · cases h; simp at hlt ⊢; omega

end BootstrapWrite
