import FeatherModel.Lemmas.BridgeIndex

/-! The method table and the call sets of the index (`ofJar`) in terms of the jar description (C15). -/

namespace Bridge

/-- a method description of the jar with reference `b` has a body containing an invoke instruction (on an object
class) of `t` -/
def Invoked (jar : JarDesc) (b t : MRef) : Prop :=
  ∃ cd, cd ∈ jar ∧ ∃ md, md ∈ cd.methods ∧ b = ⟨cd.name, md.name, md.desc⟩ ∧
    ∃ code, md.code = some code ∧ ∃ i, i ∈ code ∧ i.target? = some t

/-- the jar declares a method with reference `b` and access flags `acc` -/
def Declared (jar : JarDesc) (b : MRef) (acc : Access) : Prop :=
  ∃ cd, cd ∈ jar ∧ ∃ md, md ∈ cd.methods ∧ b = ⟨cd.name, md.name, md.desc⟩ ∧ acc = Access.ofFlags md.flags

def callsOf (idx : Index) (m : MRef) : List MRef := (AList.lookup m idx.refs).getD []

theorem lookup_entryModify {K V : Type} [BEq K] [LawfulBEq K] [DecidableEq K] (k k' : K) (d : V) (f : V → V) (m : AList K V) :
    AList.lookup k' (entryModify k d f m) = if k' = k then some (f ((AList.lookup k m).getD d)) else AList.lookup k' m := by
  unfold entryModify
  rw [lookup_upsert]

theorem visitMethod_calls (cls : JStr) (idx : Index) (md : MethodDesc) (m t : MRef) :
    t ∈ callsOf (visitMethod cls idx md) m ↔
      t ∈ callsOf idx m ∨ (m = ⟨cls, md.name, md.desc⟩ ∧ ∃ code, md.code = some code ∧ t ∈ code.filterMap Insn.target?) := by
  unfold visitMethod callsOf
  cases hc : md.code with
  | none => simp
  | some code =>
    simp only
    rw [lookup_entryModify]
    by_cases hm : m = ⟨cls, md.name, md.desc⟩
    · subst hm
      simp [mem_setExtend]
    · simp [hm]

theorem visitClass_calls (idx : Index) (cd : ClassDesc) (m t : MRef) :
    t ∈ callsOf (visitClass idx cd) m ↔
      t ∈ callsOf idx m ∨ ∃ md, md ∈ cd.methods ∧ m = ⟨cd.name, md.name, md.desc⟩ ∧
        ∃ code, md.code = some code ∧ t ∈ code.filterMap Insn.target? := by
  rw [visitClass_eq]
  have := foldl_accum (visitMethod cd.name) (fun i (x : MRef × MRef) => x.2 ∈ callsOf i x.1)
    (fun md x => x.1 = ⟨cd.name, md.name, md.desc⟩ ∧ ∃ code, md.code = some code ∧ x.2 ∈ code.filterMap Insn.target?)
    (by intro b a x; exact visitMethod_calls cd.name b a x.1 x.2) cd.methods (headerOf idx cd) (m, t)
  rw [this]
  apply or_congr
  · show t ∈ (AList.lookup m (headerOf idx cd).refs).getD [] ↔ _
    rw [headerOf_refs]; rfl
  · exact Iff.rfl

theorem ofJar_calls (jar : JarDesc) (m t : MRef) : t ∈ callsOf (ofJar jar) m ↔ Invoked jar m t := by
  unfold ofJar
  have := foldl_accum visitClass (fun i (x : MRef × MRef) => x.2 ∈ callsOf i x.1)
    (fun cd x => ∃ md, md ∈ cd.methods ∧ x.1 = ⟨cd.name, md.name, md.desc⟩ ∧
        ∃ code, md.code = some code ∧ x.2 ∈ code.filterMap Insn.target?)
    (by intro b a x; exact visitClass_calls b a x.1 x.2) jar Index.empty (m, t)
  rw [this]
  unfold Invoked
  constructor
  · rintro (h | ⟨cd, hcd, md, hmd, h1, code, h2, h3⟩)
    · simp [callsOf, Index.empty, AList.lookup] at h
    · obtain ⟨i, hi, hit⟩ := List.mem_filterMap.mp h3
      exact ⟨cd, hcd, md, hmd, h1, code, h2, i, hi, hit⟩
  · rintro ⟨cd, hcd, md, hmd, h1, code, h2, i, hi, hit⟩
    exact Or.inr ⟨cd, hcd, md, hmd, h1, code, h2, List.mem_filterMap.mpr ⟨i, hi, hit⟩⟩

/-- call sets are duplicate free -/
def RefsNodup (idx : Index) : Prop := ∀ m l, AList.lookup m idx.refs = some l → l.Nodup

theorem visitMethod_refsNodup (cls : JStr) (idx : Index) (md : MethodDesc) (h : RefsNodup idx) :
    RefsNodup (visitMethod cls idx md) := by
  unfold visitMethod
  cases hc : md.code with
  | none => exact h
  | some code =>
    intro m l hl
    simp only at hl
    rw [lookup_entryModify] at hl
    by_cases hm : m = ⟨cls, md.name, md.desc⟩
    · simp only [hm, if_true, Option.some.injEq] at hl
      rw [← hl]
      apply nodup_setExtend
      cases h0 : AList.lookup (⟨cls, md.name, md.desc⟩ : MRef) idx.refs with
      | none => simp
      | some l0 => simpa using h _ l0 h0
    · simp only [hm, if_false] at hl
      exact h m l hl

theorem ofJar_refsNodup (jar : JarDesc) : RefsNodup (ofJar jar) := by
  unfold ofJar
  apply foldl_pred visitClass RefsNodup
  · intro cd _ b hb
    rw [visitClass_eq]
    apply foldl_pred (visitMethod cd.name) RefsNodup
    · intro md _ b' hb'; exact visitMethod_refsNodup cd.name b' md hb'
    · intro m l hl
      rw [headerOf_refs] at hl
      exact hb m l hl
  · intro m l hl
    simp [Index.empty, AList.lookup] at hl

theorem eq_singleton_of_nodup {α : Type} {l : List α} {s : α} (hnd : l.Nodup) (h : ∀ t, t ∈ l ↔ t = s) : l = [s] := by
  cases l with
  | nil => exact absurd ((h s).mpr rfl) (by simp)
  | cons a rest =>
    have ha : a = s := (h a).mp (by simp)
    subst ha
    cases rest with
    | nil => rfl
    | cons b rest' =>
      have hb : b = a := (h b).mp (by simp)
      subst hb
      simp at hnd

/-- the call set of `b` is the singleton `[s]` iff the bodies recorded for `b` invoke `s` and nothing else -/
theorem ofJar_refs_single (jar : JarDesc) (b s : MRef) :
    AList.lookup b (ofJar jar).refs = some [s] ↔ ∀ t, Invoked jar b t ↔ t = s := by
  constructor
  · intro h t
    rw [← ofJar_calls]
    simp [callsOf, h]
  · intro h
    have hs : s ∈ callsOf (ofJar jar) b := (ofJar_calls jar b s).mpr ((h s).mpr rfl)
    unfold callsOf at hs
    cases hl : AList.lookup b (ofJar jar).refs with
    | none => simp [hl] at hs
    | some l =>
      have hnd := ofJar_refsNodup jar b l hl
      have : ∀ t, t ∈ l ↔ t = s := by
        intro t
        rw [← h t, ← ofJar_calls]
        simp [callsOf, hl]
      rw [eq_singleton_of_nodup hnd this]

/-! ## method table -/

theorem ofJar_methods_declared (jar : JarDesc) (b : MRef) (acc : Access)
    (h : AList.lookup b (ofJar jar).methods = some acc) : Declared jar b acc := by
  have key : ∀ m a, AList.lookup m (ofJar jar).methods = some a → Declared jar m a := by
    unfold ofJar
    apply foldl_pred visitClass (fun i => ∀ m a, AList.lookup m i.methods = some a → Declared jar m a)
    · intro cd hcd idx hidx
      rw [visitClass_eq]
      apply foldl_pred (visitMethod cd.name) (fun i => ∀ m a, AList.lookup m i.methods = some a → Declared jar m a)
      · intro md hmd idx' hidx' m a hl
        rw [visitMethod_methods, lookup_upsert] at hl
        by_cases hm : m = ⟨cd.name, md.name, md.desc⟩
        · simp only [hm, if_true, Option.some.injEq] at hl
          exact ⟨cd, hcd, md, hmd, hm, hl.symm⟩
        · simp only [hm, if_false] at hl
          exact hidx' m a hl
      · intro m a hl
        rw [headerOf_methods] at hl
        exact hidx m a hl
    · intro m a hl
      simp [Index.empty, AList.lookup] at hl
  exact key b acc h

end Bridge
