import FeatherModel.Lemmas.ClassWriteFullGen

/-!
# C02 (whole writer) — `write_field`: the bytes are the encoding of a legal `FieldLayout` denoting the field
-/

namespace ClassWriteFull
open PoolWrite (Entry)
open FramePool (Good Le)
open ClassRead ClassRead.Spec

/-- what a pool index holds for a `ConstantValue` -/
def ConstAt (p : Pool) (i : Nat) : ConstantValue → Prop
  | .int v => p.get i = some (.int v)
  | .float b => p.get i = some (.float b)
  | .long v => p.get i = some (.long v)
  | .double b => p.get i = some (.double b)
  | .str s => StrAt p i s

theorem ConstAt.mono {p q : Pool} (h : Le p q) {i : Nat} {v : ConstantValue} (a : ConstAt p i v) : ConstAt q i v := by
  cases v <;> simp only [ConstAt] at a ⊢
  · exact h _ _ a
  · exact h _ _ a
  · exact h _ _ a
  · exact h _ _ a
  · exact a.mono h

theorem getConstantValue_of {q : Pool} (hq : Good q) {i : Nat} {v : ConstantValue} (h : ConstAt q i v) :
    (rpool q).getConstantValue i = .ok v := by
  cases v <;> simp only [ConstAt] at h
  · simp [Pool.getConstantValue, rget_of_get hq.1 h, conv, bind, Outcome.bind]
  · simp [Pool.getConstantValue, rget_of_get hq.1 h, conv, bind, Outcome.bind]
  · simp [Pool.getConstantValue, rget_of_get hq.1 h, conv, bind, Outcome.bind]
  · simp [Pool.getConstantValue, rget_of_get hq.1 h, conv, bind, Outcome.bind]
  · obtain ⟨u, a, b⟩ := h
    simp [Pool.getConstantValue, rget_of_get hq.1 a, conv, getUtf8_of hq b, bind, Outcome.bind]

theorem putConstantValue_spec {p p' : Pool} {v : ConstantValue} {i : Nat} (hg : Good p)
    (h : putConstantValue p v = .ok (i, p')) : Step p p' ∧ ConstAt p' i v ∧ i < 65536 := by
  cases v <;> simp only [putConstantValue] at h
  · exact put_spec hg h
  · exact put_spec hg h
  · exact put_spec hg h
  · exact put_spec hg h
  · exact putString_spec hg h

/-- an attribute of the layout as it is framed in the file -/
def SFieldAttr.frame (a : SFieldAttr) : Bytes := attrFrame a.raw.1 a.raw.2

/-- fields: framing, legality, effect on the facts -/
def ownField : Own SFieldAttr FieldFacts :=
  ⟨SFieldAttr.frame, fun q a => Sound q (fun rp => a.Legal rp), fun hl h => h.mono hl, SFieldAttr.apply⟩

/-- conditions on a field of the proved fragment that do not depend on the pool: flags within the mask, a valid name,
well-typed annotations within the reader's nesting limit, unknown attributes not named like a known one -/
structure FieldOk (f : FieldFacts) : Prop where
  rva : AnnosOk f.rva
  ria : AnnosOk f.ria
  rvta : TypeAnnosOk .field f.rvta
  rita : TypeAnnosOk .field f.rita
  access : f.access < 65536
  mask : f.access &&& maskField = f.access
  name : validUnqualified f.name = true
  unknown : ∀ a ∈ f.attrs, a.name ∉ fieldAttrNames

theorem applyAll_field_unknown (st : FieldFacts) : ∀ (ncs : List Nat) (as : List Attr), ncs.length = as.length →
    applyAll SFieldAttr.apply st ((ncs.zip as).map fun x => SFieldAttr.unknown x.1 x.2.name x.2.bytes)
      = some { st with attrs := st.attrs ++ as } := by
  intro ncs as
  induction as generalizing ncs st with
  | nil => intro _; cases ncs <;> simp [applyAll]
  | cons a as ih =>
    intro hl
    cases ncs with
    | nil => simp at hl
    | cons n ncs =>
      simp only [List.zip_cons_cons, List.map_cons, applyAll, SFieldAttr.apply]
      rw [ih _ ncs (by simpa using hl)]
      simp

theorem fblock_deprecated {f : FieldFacts} {o : Option Bytes} {q : Pool}
    (c : (f.deprecated = false ∧ o = none) ∨ (f.deprecated = true ∧ Present o q sDeprecated [])) :
    GBlock ownField o q (fun _ => True) (fun c => { c with deprecated := c.deprecated || f.deprecated }) := by
  rcases c with ⟨hf, rfl⟩ | ⟨hf, nc, rfl, hn, a⟩
  · exact gblock_absent (fun c _ => by simp [hf])
  · exact gblock_present (O := ownField) (.deprecated nc) (fun q' hq => ⟨hn, getUtf8_of hq.good (a.mono hq.le)⟩)
      (fun st _ => by simp [ownField, SFieldAttr.apply, hf])

theorem fblock_synthetic {f : FieldFacts} {o : Option Bytes} {q : Pool}
    (c : (f.synthetic = false ∧ o = none) ∨ (f.synthetic = true ∧ Present o q sSynthetic [])) :
    GBlock ownField o q (fun _ => True) (fun c => { c with synthetic := c.synthetic || f.synthetic }) := by
  rcases c with ⟨hf, rfl⟩ | ⟨hf, nc, rfl, hn, a⟩
  · exact gblock_absent (fun c _ => by simp [hf])
  · exact gblock_present (O := ownField) (.synthetic nc) (fun q' hq => ⟨hn, getUtf8_of hq.good (a.mono hq.le)⟩)
      (fun st _ => by simp [ownField, SFieldAttr.apply, hf])

theorem fblock_constant {f : FieldFacts} {o : Option Bytes} {q : Pool}
    (c : (f.constant = none ∧ o = none) ∨
      (∃ v cp, f.constant = some v ∧ Present o q sConstantValue (be16 cp) ∧ cp < 65536 ∧ ConstAt q cp v)) :
    GBlock ownField o q (fun c => c.constant = none) (fun c => { c with constant := f.constant }) := by
  rcases c with ⟨hf, rfl⟩ | ⟨v, cp, hf, ⟨nc, rfl, hn, a⟩, hc, ac⟩
  · exact gblock_absent (fun c hc => by cases c; simp_all)
  · exact gblock_present (O := ownField) (.constantValue nc cp v)
      (fun q' hq => ⟨hn, getUtf8_of hq.good (a.mono hq.le), hc, getConstantValue_of hq.good (ac.mono hq.le)⟩)
      (fun st hst => by simp [ownField, SFieldAttr.apply, hst, hf])

theorem fblock_signature {f : FieldFacts} {o : Option Bytes} {q : Pool}
    (c : (f.signature = none ∧ o = none) ∨
      (∃ s cp, f.signature = some s ∧ Present o q sSignature (be16 cp) ∧ cp < 65536 ∧ Utf8At q cp s)) :
    GBlock ownField o q (fun c => c.signature = none) (fun c => { c with signature := f.signature }) := by
  rcases c with ⟨hf, rfl⟩ | ⟨s, cp, hf, ⟨nc, rfl, hn, a⟩, hc, ac⟩
  · exact gblock_absent (fun c hc => by cases c; simp_all)
  · exact gblock_present (O := ownField) (.signature nc cp s)
      (fun q' hq => ⟨hn, getUtf8_of hq.good (a.mono hq.le), hc, getUtf8_of hq.good (ac.mono hq.le)⟩)
      (fun st hst => by simp [ownField, SFieldAttr.apply, hst, hf])

theorem fblock_annos (visible : Bool) {as : List Annotation} {o : Option Bytes} {q : Pool}
    (c : (as = [] ∧ o = none) ∨
      ∃ sas : List SAnno, Present o q (if visible then sRVA else sRIA) (encAnnos sas) ∧ sas.map SAnno.fact = as ∧
        sas.length < 65536 ∧ (encAnnos sas).length < 4294967296 ∧ ∀ sa ∈ sas, Sound q (fun rp => sa.Ok rp)) :
    GBlock ownField o q (fun _ => True)
      (fun c => if visible then { c with rva := c.rva ++ as } else { c with ria := c.ria ++ as }) := by
  rcases c with ⟨rfl, rfl⟩ | ⟨sas, ⟨nc, rfl, hn, a⟩, hm, hl, hb, hs⟩
  · exact gblock_absent (fun c _ => by cases visible <;> simp)
  · exact gblock_present (O := ownField) (.annotations nc visible sas)
      (fun q' hq => ⟨hn, getUtf8_of hq.good (a.mono hq.le), hl, fun sa hsa => hs sa hsa q' hq, hb⟩)
      (fun st _ => by cases visible <;> simp [ownField, SFieldAttr.apply, hm])

theorem fblock_typeAnnos (visible : Bool) {as : List TypeAnno} {o : Option Bytes} {q : Pool}
    (c : (as = [] ∧ o = none) ∨
      ∃ sas : List STypeAnno, Present o q (if visible then sRVTA else sRITA) (encTypeAnnos sas) ∧ sas.map STypeAnno.fact = as ∧
        sas.length < 65536 ∧ (encTypeAnnos sas).length < 4294967296 ∧ ∀ sa ∈ sas, Sound q (fun rp => sa.Legal rp .field)) :
    GBlock ownField o q (fun _ => True)
      (fun c => if visible then { c with rvta := c.rvta ++ as } else { c with rita := c.rita ++ as }) := by
  rcases c with ⟨rfl, rfl⟩ | ⟨sas, ⟨nc, rfl, hn, a⟩, hm, hl, hb, hs⟩
  · exact gblock_absent (fun c _ => by cases visible <;> simp)
  · exact gblock_present (O := ownField) (.typeAnnotations nc visible sas)
      (fun q' hq => ⟨hn, getUtf8_of hq.good (a.mono hq.le), hl, fun sa hsa => hs sa hsa q' hq, hb⟩)
      (fun st _ => by cases visible <;> simp [ownField, SFieldAttr.apply, hm])

theorem fblocks_unknown {f : FieldFacts} (hok : ∀ a ∈ f.attrs, a.name ∉ fieldAttrNames) {q : Pool} {ncs : List Nat}
    (hlen : ncs.length = f.attrs.length)
    (hunk : ∀ x ∈ ncs.zip f.attrs, x.1 < 65536 ∧ Utf8At q x.1 x.2.name ∧ x.2.bytes.length < 4294967296) :
    GBlocks ownField ((ncs.zip f.attrs).map (fun x => attrFrame x.1 x.2.bytes)) q (fun _ => True)
      (fun c => { c with attrs := c.attrs ++ f.attrs }) := by
  refine ⟨(ncs.zip f.attrs).map fun x => SFieldAttr.unknown x.1 x.2.name x.2.bytes, ?_, ?_, ?_⟩
  · simp [List.map_map, Function.comp_def, ownField, SFieldAttr.frame, SFieldAttr.raw]
  · intro a ha q' hq
    obtain ⟨x, hx, rfl⟩ := List.mem_map.mp ha
    obtain ⟨hn, hu, hb⟩ := hunk x hx
    exact ⟨hn, getUtf8_of hq.good (hu.mono hq.le), hok x.2 (List.of_mem_zip hx).2, hb⟩
  · intro st _
    exact applyAll_field_unknown st ncs f.attrs hlen

theorem writeField_spec {p p' : Pool} {f : FieldFacts} {b : Bytes} (hg : Good p) (hok : FieldOk f)
    (h : writeField p f = .ok (b, p')) :
    Step p p' ∧ ∃ l : FieldLayout, b = l.encode ∧ Sound p' (fun rp => l.Legal rp) ∧ l.facts = some f := by
  obtain ⟨⟨ni, p1⟩, h1, h⟩ := bind_eq_ok.mp h
  obtain ⟨⟨di, p2⟩, h2, h⟩ := bind_eq_ok.mp h
  obtain ⟨⟨as, p3⟩, h3, h⟩ := bind_eq_ok.mp h
  obtain ⟨ab, h4, h⟩ := bind_eq_ok.mp h
  have := pure_eq_ok.mp h
  cases this
  obtain ⟨s1, a1, hni⟩ := putUtf8_spec hg h1
  obtain ⟨s2, a2, hdi⟩ := putUtf8_spec s1.good h2
  simp only [List.cons_append, List.nil_append] at h3
  obtain ⟨o1, q1, r1, e1, k1, rfl⟩ := runAttrs_cons_inv h3
  obtain ⟨o2, q2, r2, e2, k2, rfl⟩ := runAttrs_cons_inv k1
  obtain ⟨o3, q3, r3, e3, k3, rfl⟩ := runAttrs_cons_inv k2
  obtain ⟨o4, q4, r4, e4, k4, rfl⟩ := runAttrs_cons_inv k3
  obtain ⟨r5, q8, r6, e5, k5, rfl⟩ := runAttrs_append_inv k4
  obtain ⟨o5, q5, o6, q6, o7, q7, o8, e5a, e6, e7, e8, rfl⟩ := annoBlocks_inv e5
  obtain ⟨t1, c1⟩ := flagAttr_spec s2.good e1
  obtain ⟨t2, c2⟩ := flagAttr_spec t1.good e2
  have t3 : Step q2 q3 ∧ ((f.constant = none ∧ o3 = none) ∨
      (∃ v cp, f.constant = some v ∧ Present o3 q3 sConstantValue (be16 cp) ∧ cp < 65536 ∧ ConstAt q3 cp v)) := by
    rcases ifSome_inv e3 with ⟨v, b, hv, hb, rfl⟩ | ⟨hv, rfl, rfl⟩
    · obtain ⟨nc, p1', cp, s1', a1', hn, h3', rfl⟩ := fix2_spec t2.good hb
      obtain ⟨s2', a2', hc⟩ := putConstantValue_spec s1'.good h3'
      exact ⟨s1'.trans s2', Or.inr ⟨v, cp, hv, ⟨nc, rfl, hn, a1'.mono s2'.le⟩, hc, a2'⟩⟩
    · exact ⟨Step.refl t2.good, Or.inl ⟨hv, rfl⟩⟩
  obtain ⟨t3, c3⟩ := t3
  obtain ⟨t4, c4⟩ := sigAttr_spec t3.good e4
  obtain ⟨t5, c5⟩ := annosAttr_spec t4.good hok.rva e5a
  obtain ⟨t6, c6⟩ := annosAttr_spec t5.good hok.ria e6
  obtain ⟨t7, c7⟩ := typeAnnosAttr_spec writeTargetField_eq t6.good hok.rvta e7
  obtain ⟨t8, c8⟩ := typeAnnosAttr_spec writeTargetField_eq t7.good hok.rita e8
  obtain ⟨t9, ncs, hlen, rfl, hunk⟩ := unknownAttrs_spec f.attrs t8.good k5
  obtain ⟨hcount, rfl⟩ := attrsBytes_inv h4
  have s8 := t9
  have s7 := t8.trans s8
  have s6 := t7.trans s7
  have s5 := t6.trans s6
  have s4 := t5.trans s5
  have s3 := t4.trans s4
  have s2' := t3.trans s3
  have s1' := t2.trans s2'
  have s0 := t1.trans s1'
  refine ⟨s1.trans (s2.trans s0), ?_⟩
  have B := GBlocks.cons' (fblock_deprecated c1) s1'.le
    (GBlocks.cons' (fblock_synthetic c2) s2'.le
    (GBlocks.cons (fblock_constant c3) s3.le
    (GBlocks.cons (fblock_signature c4) s4.le
    (GBlocks.cons' (fblock_annos true c5) s5.le
    (GBlocks.cons' (fblock_annos false c6) s6.le
    (GBlocks.cons' (fblock_typeAnnos true c7) s7.le
    (GBlocks.cons' (fblock_typeAnnos false c8) s8.le
      (fblocks_unknown hok.unknown hlen hunk)
      (fun _ _ => trivial)) (fun _ _ => trivial)) (fun _ _ => trivial)) (fun _ _ => trivial))
      (pre := fun c : FieldFacts => c.signature = none) (fun c h => ⟨h, trivial⟩))
      (pre := fun c : FieldFacts => c.constant = none ∧ c.signature = none) (fun c h => ⟨h.1, h.2⟩))
      (pre2 := fun c : FieldFacts => c.constant = none ∧ c.signature = none) (fun c h => ⟨h.1, h.2⟩))
      (pre2 := fun c : FieldFacts => c.constant = none ∧ c.signature = none) (fun c h => ⟨h.1, h.2⟩)
  obtain ⟨attrs, hbytes, hsound, hfacts⟩ := B
  refine ⟨⟨f.access, ni, f.name, di, f.desc, attrs⟩, ?_, ?_, ?_⟩
  · simp only [FieldLayout.encode, encAttrs_eq]
    have hb' : o1.toList ++ (o2.toList ++ (o3.toList ++ (o4.toList ++ (o5.toList ++ (o6.toList ++ (o7.toList ++ (o8.toList ++ [])))
        ++ List.map (fun x => attrFrame x.fst x.snd.bytes) (ncs.zip f.attrs))))) = attrs.map SFieldAttr.frame := by
      rw [show attrs.map SFieldAttr.frame = attrs.map ownField.frame from rfl, ← hbytes]; simp [List.append_assoc]
    rw [hb', List.length_map]
    rfl
  · intro q hq
    have hq1 : Ext p1 q := hq.of_le (s2.trans s0).le
    have hq2 : Ext p2 q := hq.of_le s0.le
    refine ⟨hok.access, hni, hdi, getUtf8_of hq.good (a1.mono hq1.le), hok.name, getUtf8_of hq.good (a2.mono hq2.le), ?_,
      fun a ha => hsound a ha q hq⟩
    have hb' : o1.toList ++ (o2.toList ++ (o3.toList ++ (o4.toList ++ (o5.toList ++ (o6.toList ++ (o7.toList ++ (o8.toList ++ [])))
        ++ List.map (fun x => attrFrame x.fst x.snd.bytes) (ncs.zip f.attrs))))) = attrs.map SFieldAttr.frame := by
      rw [show attrs.map SFieldAttr.frame = attrs.map ownField.frame from rfl, ← hbytes]; simp [List.append_assoc]
    rw [hb', List.length_map] at hcount
    show attrs.length < 65536
    omega
  · have := hfacts ⟨f.access &&& maskField, f.name, f.desc, false, false, none, none, [], [], [], [], []⟩ ⟨rfl, rfl⟩
    simp only [FieldLayout.facts]
    show applyAll ownField.apply _ attrs = some f
    rw [this]
    have hm := hok.mask
    cases f
    simp_all

end ClassWriteFull
