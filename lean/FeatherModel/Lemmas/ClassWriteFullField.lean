import FeatherModel.Lemmas.ClassWriteFullBlocks

/-!
# C02 (whole writer) — `write_field`: the bytes are the encoding of a legal `FieldLayout` denoting the field
-/

namespace ClassWriteFull
open PoolWrite (Entry)
open FramePool (Good Le)
open ClassRead ClassRead.Spec

/-- what a pool index holds for a `ConstantValue` -/
def ConstAt (p : Pool) (i : Nat) : ConstantValue → Prop
  | .int v => p.get i = some (.int v)
  | .float b => p.get i = some (.float b)
  | .long v => p.get i = some (.long v)
  | .double b => p.get i = some (.double b)
  | .str s => StrAt p i s

theorem ConstAt.mono {p q : Pool} (h : Le p q) {i : Nat} {v : ConstantValue} (a : ConstAt p i v) : ConstAt q i v := by
  cases v <;> simp only [ConstAt] at a ⊢
  · exact h _ _ a
  · exact h _ _ a
  · exact h _ _ a
  · exact h _ _ a
  · exact a.mono h

theorem getConstantValue_of {q : Pool} (hq : Good q) {i : Nat} {v : ConstantValue} (h : ConstAt q i v) :
    (rpool q).getConstantValue i = .ok v := by
  cases v <;> simp only [ConstAt] at h
  · simp [Pool.getConstantValue, rget_of_get hq.1 h, conv, bind, Outcome.bind]
  · simp [Pool.getConstantValue, rget_of_get hq.1 h, conv, bind, Outcome.bind]
  · simp [Pool.getConstantValue, rget_of_get hq.1 h, conv, bind, Outcome.bind]
  · simp [Pool.getConstantValue, rget_of_get hq.1 h, conv, bind, Outcome.bind]
  · obtain ⟨u, a, b⟩ := h
    simp [Pool.getConstantValue, rget_of_get hq.1 a, conv, getUtf8_of hq b, bind, Outcome.bind]

theorem putConstantValue_spec {p p' : Pool} {v : ConstantValue} {i : Nat} (hg : Good p)
    (h : putConstantValue p v = .ok (i, p')) : Step p p' ∧ ConstAt p' i v ∧ i < 65536 := by
  cases v <;> simp only [putConstantValue] at h
  · exact put_spec hg h
  · exact put_spec hg h
  · exact put_spec hg h
  · exact put_spec hg h
  · exact putString_spec hg h

/-- an attribute of the layout as it is framed in the file -/
def SFieldAttr.frame (a : SFieldAttr) : Bytes := attrFrame a.raw.1 a.raw.2

theorem toList_map {α β : Type} (f : α → β) (o : Option α) : (o.map f).toList = o.toList.map f := by
  cases o <;> rfl

/-- conditions on a field of the proved fragment that do not depend on the pool: no annotations (yet), flags within
the mask, a valid name, unknown attributes not named like a known one -/
structure FieldOk (f : FieldFacts) : Prop where
  rva : f.rva = []
  ria : f.ria = []
  rvta : f.rvta = []
  rita : f.rita = []
  access : f.access < 65536
  mask : f.access &&& maskField = f.access
  name : validUnqualified f.name = true
  unknown : ∀ a ∈ f.attrs, a.name ∉ fieldAttrNames

theorem applyAll_field_unknown (st : FieldFacts) : ∀ (ncs : List Nat) (as : List Attr), ncs.length = as.length →
    applyAll SFieldAttr.apply st ((ncs.zip as).map fun x => SFieldAttr.unknown x.1 x.2.name x.2.bytes)
      = some { st with attrs := st.attrs ++ as } := by
  intro ncs as
  induction as generalizing ncs st with
  | nil => intro _; cases ncs <;> simp [applyAll]
  | cons a as ih =>
    intro hl
    cases ncs with
    | nil => simp at hl
    | cons n ncs =>
      simp only [List.zip_cons_cons, List.map_cons, applyAll, SFieldAttr.apply]
      rw [ih _ ncs (by simpa using hl)]
      simp

theorem writeField_spec {p p' : Pool} {f : FieldFacts} {b : Bytes} (hg : Good p) (hok : FieldOk f)
    (h : writeField p f = .ok (b, p')) :
    Step p p' ∧ ∃ l : FieldLayout, b = l.encode ∧ Sound p' (fun rp => l.Legal rp) ∧ l.facts = some f := by
  obtain ⟨⟨ni, p1⟩, h1, h⟩ := bind_eq_ok.mp h
  obtain ⟨⟨di, p2⟩, h2, h⟩ := bind_eq_ok.mp h
  obtain ⟨⟨as, p3⟩, h3, h⟩ := bind_eq_ok.mp h
  obtain ⟨ab, h4, h⟩ := bind_eq_ok.mp h
  have := pure_eq_ok.mp h
  cases this
  obtain ⟨s1, a1, hni⟩ := putUtf8_spec hg h1
  obtain ⟨s2, a2, hdi⟩ := putUtf8_spec s1.good h2
  rw [hok.rva, hok.ria, hok.rvta, hok.rita] at h3
  -- the blocks
  simp only [List.cons_append, List.nil_append] at h3
  obtain ⟨o1, q1, r1, e1, k1, rfl⟩ := runAttrs_cons_inv h3
  obtain ⟨o2, q2, r2, e2, k2, rfl⟩ := runAttrs_cons_inv k1
  obtain ⟨o3, q3, r3, e3, k3, rfl⟩ := runAttrs_cons_inv k2
  obtain ⟨o4, q4, r4, e4, k4, rfl⟩ := runAttrs_cons_inv k3
  obtain ⟨r5, q5, r6, e5, k5, rfl⟩ := runAttrs_append_inv k4
  rw [annoBlocks_nil] at e5
  have := ok_inj.mp e5
  cases this
  obtain ⟨t1, c1⟩ := flagAttr_spec s2.good e1
  obtain ⟨t2, c2⟩ := flagAttr_spec t1.good e2
  obtain ⟨t4, c4⟩ := sigAttr_spec (p := q3) (by
    rcases ifSome_inv e3 with ⟨v, b, _, hb, _⟩ | ⟨_, _, rfl⟩
    · obtain ⟨nc, p1', cp, s1', _, _, h3', _⟩ := fix2_spec t2.good hb
      exact ((putConstantValue_spec s1'.good h3').1).good
    · exact t2.good) e4
  have t3 : Step q2 q3 ∧ ((f.constant = none ∧ o3 = none) ∨
      (∃ v cp, f.constant = some v ∧ Present o3 q3 sConstantValue (be16 cp) ∧ cp < 65536 ∧ ConstAt q3 cp v)) := by
    rcases ifSome_inv e3 with ⟨v, b, hv, hb, rfl⟩ | ⟨hv, rfl, rfl⟩
    · obtain ⟨nc, p1', cp, s1', a1', hn, h3', rfl⟩ := fix2_spec t2.good hb
      obtain ⟨s2', a2', hc⟩ := putConstantValue_spec s1'.good h3'
      exact ⟨s1'.trans s2', Or.inr ⟨v, cp, hv, ⟨nc, rfl, hn, a1'.mono s2'.le⟩, hc, a2'⟩⟩
    · exact ⟨Step.refl t2.good, Or.inl ⟨hv, rfl⟩⟩
  obtain ⟨t3, c3⟩ := t3
  obtain ⟨t5, ncs, hlen, rfl, hunk⟩ := unknownAttrs_spec f.attrs t4.good k5
  obtain ⟨hcount, rfl⟩ := attrsBytes_inv h4
  have stepAll : Step p p' := s1.trans (s2.trans (t1.trans (t2.trans (t3.trans (t4.trans t5)))))
  refine ⟨stepAll, ?_⟩
  -- the layout attributes, block by block
  have L1 : ∃ lo : Option SFieldAttr, o1 = lo.map SFieldAttr.frame ∧
      (∀ a ∈ lo, Sound q1 (fun rp => a.Legal rp)) ∧
      ∀ st : FieldFacts, applyAll SFieldAttr.apply st lo.toList = some { st with deprecated := st.deprecated || f.deprecated } := by
    rcases c1 with ⟨hf, rfl⟩ | ⟨hf, nc, rfl, hn, a⟩
    · exact ⟨none, rfl, by simp, fun st => by simp [applyAll, hf]⟩
    · refine ⟨some (.deprecated nc), rfl, ?_, fun st => by simp [applyAll, SFieldAttr.apply, hf]⟩
      intro x hx q hq
      cases Option.mem_some_iff.mp hx
      exact ⟨hn, getUtf8_of hq.good (a.mono hq.le)⟩
  have L2 : ∃ lo : Option SFieldAttr, o2 = lo.map SFieldAttr.frame ∧
      (∀ a ∈ lo, Sound q2 (fun rp => a.Legal rp)) ∧
      ∀ st : FieldFacts, applyAll SFieldAttr.apply st lo.toList = some { st with synthetic := st.synthetic || f.synthetic } := by
    rcases c2 with ⟨hf, rfl⟩ | ⟨hf, nc, rfl, hn, a⟩
    · exact ⟨none, rfl, by simp, fun st => by simp [applyAll, hf]⟩
    · refine ⟨some (.synthetic nc), rfl, ?_, fun st => by simp [applyAll, SFieldAttr.apply, hf]⟩
      intro x hx q hq
      cases Option.mem_some_iff.mp hx
      exact ⟨hn, getUtf8_of hq.good (a.mono hq.le)⟩
  have L3 : ∃ lo : Option SFieldAttr, o3 = lo.map SFieldAttr.frame ∧
      (∀ a ∈ lo, Sound q3 (fun rp => a.Legal rp)) ∧
      ∀ st : FieldFacts, st.constant = none → applyAll SFieldAttr.apply st lo.toList = some { st with constant := f.constant } := by
    rcases c3 with ⟨hf, rfl⟩ | ⟨v, cp, hf, ⟨nc, rfl, hn, a⟩, hc, ac⟩
    · exact ⟨none, rfl, by simp, fun st hst => by cases st; simp_all [applyAll]⟩
    · refine ⟨some (.constantValue nc cp v), rfl, ?_, fun st hst => by simp [applyAll, SFieldAttr.apply, hf, hst]⟩
      intro x hx q hq
      cases Option.mem_some_iff.mp hx
      exact ⟨hn, getUtf8_of hq.good (a.mono hq.le), hc, getConstantValue_of hq.good (ac.mono hq.le)⟩
  have L4 : ∃ lo : Option SFieldAttr, o4 = lo.map SFieldAttr.frame ∧
      (∀ a ∈ lo, Sound q4 (fun rp => a.Legal rp)) ∧
      ∀ st : FieldFacts, st.signature = none → applyAll SFieldAttr.apply st lo.toList = some { st with signature := f.signature } := by
    rcases c4 with ⟨hf, rfl⟩ | ⟨v, cp, hf, ⟨nc, rfl, hn, a⟩, hc, ac⟩
    · exact ⟨none, rfl, by simp, fun st hst => by cases st; simp_all [applyAll]⟩
    · refine ⟨some (.signature nc cp v), rfl, ?_, fun st hst => by simp [applyAll, SFieldAttr.apply, hf, hst]⟩
      intro x hx q hq
      cases Option.mem_some_iff.mp hx
      exact ⟨hn, getUtf8_of hq.good (a.mono hq.le), hc, getUtf8_of hq.good (ac.mono hq.le)⟩
  obtain ⟨l1, rfl, sd1, f1⟩ := L1
  obtain ⟨l2, rfl, sd2, f2⟩ := L2
  obtain ⟨l3, rfl, sd3, f3⟩ := L3
  obtain ⟨l4, rfl, sd4, f4⟩ := L4
  let unk : List SFieldAttr := (ncs.zip f.attrs).map fun x => SFieldAttr.unknown x.1 x.2.name x.2.bytes
  let attrs : List SFieldAttr := l1.toList ++ (l2.toList ++ (l3.toList ++ (l4.toList ++ unk)))
  have hmap : attrs.map SFieldAttr.frame
      = (l1.map SFieldAttr.frame).toList ++ ((l2.map SFieldAttr.frame).toList ++ ((l3.map SFieldAttr.frame).toList ++
          ((l4.map SFieldAttr.frame).toList ++ ([] ++ (ncs.zip f.attrs).map fun x => attrFrame x.1 x.2.bytes)))) := by
    simp only [attrs, unk, List.map_append, List.map_map, List.nil_append, toList_map]
    rfl
  refine ⟨⟨f.access, ni, f.name, di, f.desc, attrs⟩, ?_, ?_, ?_⟩
  · -- bytes
    simp only [FieldLayout.encode, encAttrs_eq]
    rw [← hmap, List.length_map]
    rfl
  · -- legality in every pool still reachable
    intro q hq
    have hq1 : Ext p1 q := hq.of_le (s2.trans (t1.trans (t2.trans (t3.trans (t4.trans t5))))).le
    have hq2 : Ext p2 q := hq.of_le (t1.trans (t2.trans (t3.trans (t4.trans t5)))).le
    refine ⟨hok.access, hni, hdi, getUtf8_of hq.good (a1.mono hq1.le), hok.name, getUtf8_of hq.good (a2.mono hq2.le), ?_, ?_⟩
    · have : attrs.length = (attrs.map SFieldAttr.frame).length := by simp
      rw [this, hmap]
      omega
    · intro a ha
      simp only [attrs, List.mem_append, Option.mem_toList] at ha
      rcases ha with ha | ha | ha | ha | ha
      · exact sd1 a ha q (hq.of_le (t2.trans (t3.trans (t4.trans t5))).le)
      · exact sd2 a ha q (hq.of_le (t3.trans (t4.trans t5)).le)
      · exact sd3 a ha q (hq.of_le (t4.trans t5).le)
      · exact sd4 a ha q (hq.of_le t5.le)
      · simp only [unk, List.mem_map] at ha
        obtain ⟨x, hx, rfl⟩ := ha
        obtain ⟨hn, hu, hb⟩ := hunk x hx
        exact ⟨hn, getUtf8_of hq.good (hu.mono hq.le), hok.unknown x.2 (List.of_mem_zip hx).2, hb⟩
  · -- the facts
    simp only [FieldLayout.facts, attrs, applyAll_append, f1, f2, Option.bind_some]
    rw [f3 _ rfl]
    simp only [Option.bind_some]
    rw [f4 _ rfl]
    simp only [Option.bind_some, unk]
    rw [applyAll_field_unknown _ ncs f.attrs hlen]
    have hm := hok.mask
    have g1 := hok.rva
    have g2 := hok.ria
    have g3 := hok.rvta
    have g4 := hok.rita
    cases f
    simp_all

end ClassWriteFull
