import FeatherModel.Model.VisitTree
import FeatherModel.Lemmas.VisitProj3

/-!
# C17 lemmas — a masked / declining replay delivers the projection of the full replay

`projA cfg` is the projection `ClassFile::accept` realises: like `proj` (the reader's) except that it honours
`ClassInterests.fields / .methods`, never strips stack map frames, and hands out the whole local variable table as soon
as one of the two local-variable interests is set.
-/

set_option linter.unusedSimpArgs false

namespace Visit

section projAEqs
variable (cfg : Cfg)
@[simp] theorem projA_classBegin (h : Nat) : projA cfg (.classBegin h) = some (.classBegin h) := rfl
@[simp] theorem projA_cAttr (unk : Bool) (k : K) (pay : Pay) : projA cfg (.cAttr unk k pay) =
    (match cfg.cls with | some m => keepIf (m (evBit unk k)) (.cAttr unk k pay) | none => none) := rfl
@[simp] theorem projA_recBegin (r h : Nat) : projA cfg (.recBegin r h) =
    (match cfg.cls with | some m => keepIf (m .record) (.recBegin r h) | none => none) := rfl
@[simp] theorem projA_rAttr (r : Nat) (unk : Bool) (k : K) (pay : Pay) : projA cfg (.rAttr r unk k pay) =
    (match recMaskOf cfg r with | some rm => keepIf (rm (evBit unk k)) (.rAttr r unk k pay) | none => none) := rfl
@[simp] theorem projA_recEnd (r : Nat) : projA cfg (.recEnd r) = keepIf (recMaskOf cfg r).isSome (.recEnd r) := rfl
@[simp] theorem projA_classFlags (d s : Bool) : projA cfg (.classFlags d s) = keepIf cfg.cls.isSome (.classFlags d s) := rfl
@[simp] theorem projA_classEnd : projA cfg .classEnd = keepIf cfg.cls.isSome .classEnd := rfl
@[simp] theorem projA_fieldBegin (i h : Nat) : projA cfg (.fieldBegin i h) =
    keepIf (cfg.cls.isSome && cfg.fieldsI) (.fieldBegin i h) := rfl
@[simp] theorem projA_fAttr (i : Nat) (unk : Bool) (k : K) (pay : Pay) : projA cfg (.fAttr i unk k pay) =
    (match fieldMaskOfA cfg i with | some fm => keepIf (fm (evBit unk k)) (.fAttr i unk k pay) | none => none) := rfl
@[simp] theorem projA_fieldFlags (i : Nat) (d s : Bool) : projA cfg (.fieldFlags i d s) =
    keepIf (fieldMaskOfA cfg i).isSome (.fieldFlags i d s) := rfl
@[simp] theorem projA_fieldEnd (i : Nat) : projA cfg (.fieldEnd i) = keepIf (fieldMaskOfA cfg i).isSome (.fieldEnd i) := rfl
@[simp] theorem projA_methodBegin (i h : Nat) : projA cfg (.methodBegin i h) =
    keepIf (cfg.cls.isSome && cfg.methodsI) (.methodBegin i h) := rfl
@[simp] theorem projA_mAttr (i : Nat) (unk : Bool) (k : K) (pay : Pay) : projA cfg (.mAttr i unk k pay) =
    (match methodCfgOfA cfg i with | some mc => keepIf (mc.mask (evBit unk k)) (.mAttr i unk k pay) | none => none) := rfl
@[simp] theorem projA_methodFlags (i : Nat) (d s : Bool) : projA cfg (.methodFlags i d s) =
    keepIf (methodCfgOfA cfg i).isSome (.methodFlags i d s) := rfl
@[simp] theorem projA_methodEnd (i : Nat) : projA cfg (.methodEnd i) = keepIf (methodCfgOfA cfg i).isSome (.methodEnd i) := rfl
@[simp] theorem projA_codeBegin (i : Nat) : projA cfg (.codeBegin i) =
    (match methodCfgOfA cfg i with | some mc => keepIf mc.code (.codeBegin i) | none => none) := rfl
@[simp] theorem projA_codeMaxs (i h : Nat) : projA cfg (.codeMaxs i h) = keepIf (codeMaskOfA cfg i).isSome (.codeMaxs i h) := rfl
@[simp] theorem projA_codeExc (i h : Nat) : projA cfg (.codeExc i h) = keepIf (codeMaskOfA cfg i).isSome (.codeExc i h) := rfl
@[simp] theorem projA_codeEnd (i : Nat) : projA cfg (.codeEnd i) = keepIf (codeMaskOfA cfg i).isSome (.codeEnd i) := rfl
@[simp] theorem projA_codeInsns (i : Nat) (fr : Option Pay) (h : Nat) : projA cfg (.codeInsns i fr h) =
    keepIf (codeMaskOfA cfg i).isSome (.codeInsns i fr h) := rfl
@[simp] theorem projA_kAttr (i : Nat) (unk : Bool) (k : K) (pay : Pay) : projA cfg (.kAttr i unk k pay) =
    (match codeMaskOfA cfg i with | some cm => keepIf (cm (evBit unk k)) (.kAttr i unk k pay) | none => none) := rfl
@[simp] theorem projA_codeLines (i : Nat) (parts : List Pay) : projA cfg (.codeLines i parts) =
    (match codeMaskOfA cfg i with | some cm => keepIf (cm .lineNumberTable) (.codeLines i parts) | none => none) := rfl
@[simp] theorem projA_codeLocals (i : Nat) (parts : List (Bool × Pay)) : projA cfg (.codeLocals i parts) =
    (match codeMaskOfA cfg i with | some cm => keepIf (cm .lvt || cm .lvtt) (.codeLocals i parts) | none => none) := rfl
end projAEqs

/-! ## attribute slots -/

theorem filterMap_all_some {α β : Type} (f : α → Option β) (g : α → β) (h : ∀ a, f a = some (g a)) :
    ∀ l : List α, l.filterMap f = l.map g := by
  intro l; induction l with
  | nil => rfl
  | cons a l ih => simp [List.filterMap_cons, h, ih]

theorem filterMap_all_none {α β : Type} (f : α → Option β) (h : ∀ a, f a = none) :
    ∀ l : List α, l.filterMap f = [] := by
  intro l; induction l with
  | nil => rfl
  | cons a l ih => simp [List.filterMap_cons, h, ih]

theorem emitKinds_proj {m : Mask} {mk : Bool → K → Pay → Ev} (P : Ev → Option Ev)
    (hP : ∀ unk k pay, P (mk unk k pay) = keepIf (m (evBit unk k)) (mk unk k pay)) (ord : List K) (s : Slots) :
    (emitKinds allMask ord mk s).filterMap P = emitKinds m ord mk s := by
  unfold emitKinds kindItems
  rw [List.filterMap_map, List.filterMap_filterMap, List.map_filterMap]
  congr 1
  funext k
  simp only [kindItem, allMask, if_true]
  by_cases hm : m k = true
  · simp only [hm, if_true]
    cases hmu : isMulti k
    · cases hs : s.single k <;> simp [toEv, hP, keepIf, evBit, hm]
    · cases he : (s.multi k).isEmpty <;> simp [toEv, hP, keepIf, evBit, hm]
  · simp only [hm, Bool.false_eq_true, if_false]
    cases hmu : isMulti k
    · cases hs : s.single k <;> simp [toEv, hP, keepIf, evBit, hm]
    · cases he : (s.multi k).isEmpty <;> simp [toEv, hP, keepIf, evBit, hm]

theorem emitUnknown_proj {m : Mask} {mk : Bool → K → Pay → Ev} (P : Ev → Option Ev)
    (hP : ∀ unk k pay, P (mk unk k pay) = keepIf (m (evBit unk k)) (mk unk k pay)) (s : Slots) :
    (emitUnknown allMask mk s).filterMap P = emitUnknown m mk s := by
  unfold emitUnknown unkItems
  simp only [allMask, if_true, List.map_map]
  rw [List.filterMap_map]
  by_cases hm : m .other = true
  · simp only [hm, if_true, List.map_map]
    exact filterMap_all_some _ _ (by intro a; simp [toEv, hP, keepIf, evBit, hm]) _
  · simp only [hm, Bool.false_eq_true, if_false, List.map_nil]
    exact filterMap_all_none _ (by intro a; simp [toEv, hP, keepIf, evBit, hm]) _

theorem emitKinds_drop {m0 : Mask} {mk : Bool → K → Pay → Ev} (P : Ev → Option Ev)
    (hP : ∀ unk k pay, P (mk unk k pay) = none) (ord : List K) (s : Slots) :
    (emitKinds m0 ord mk s).filterMap P = [] := by
  unfold emitKinds
  rw [List.filterMap_map]
  exact filterMap_all_none _ (by intro a; simp [toEv, hP]) _

theorem emitUnknown_drop {m0 : Mask} {mk : Bool → K → Pay → Ev} (P : Ev → Option Ev)
    (hP : ∀ unk k pay, P (mk unk k pay) = none) (s : Slots) :
    (emitUnknown m0 mk s).filterMap P = [] := by
  unfold emitUnknown
  rw [List.filterMap_map]
  exact filterMap_all_none _ (by intro a; simp [toEv, hP]) _

/-! ## record components -/

theorem full_recc (r : Nat) : full.recc r = some allMask := rfl
theorem full_field (i : Nat) : full.field i = some allMask := rfl
theorem full_method' (i : Nat) : full.method i = some { mask := allMask, code := true, codeV := some allMask } := rfl

theorem acceptRecs_proj {cfg : Cfg} {m : Mask} (hc : cfg.cls = some m) (hr : m .record = true) :
    ∀ (ts : List RecTree) (r : Nat), (acceptRecs full r ts).filterMap (projA cfg) = acceptRecs cfg r ts := by
  intro ts
  induction ts with
  | nil => intro r; rfl
  | cons t ts ih =>
    intro r
    simp only [acceptRecs, List.filterMap_append, ih, acceptRec, full_recc]
    congr 1
    cases hcr : cfg.recc r with
    | none =>
      have h1 := emitKinds_drop (m0 := allMask) (mk := Ev.rAttr r) (projA cfg)
        (by intro unk k pay; simp [recMaskOf, hc, hr, hcr]) recOrder t.slots
      have h2 := emitUnknown_drop (m0 := allMask) (mk := Ev.rAttr r) (projA cfg)
        (by intro unk k pay; simp [recMaskOf, hc, hr, hcr]) t.slots
      simp [List.filterMap_append, h1, h2, hc, hr, keepIf, recMaskOf, hcr]
    | some rm =>
      have h1 := emitKinds_proj (m := rm) (mk := Ev.rAttr r) (projA cfg)
        (by intro unk k pay; simp [recMaskOf, hc, hr, hcr]) recOrder t.slots
      have h2 := emitUnknown_proj (m := rm) (mk := Ev.rAttr r) (projA cfg)
        (by intro unk k pay; simp [recMaskOf, hc, hr, hcr]) t.slots
      simp [List.filterMap_append, h1, h2, hc, hr, keepIf, recMaskOf, hcr]

theorem acceptRecs_drop {cfg : Cfg} (hb : ∀ r h, projA cfg (.recBegin r h) = none) (hm : ∀ r, recMaskOf cfg r = none) :
    ∀ (ts : List RecTree) (r : Nat), (acceptRecs full r ts).filterMap (projA cfg) = [] := by
  intro ts
  induction ts with
  | nil => intro r; rfl
  | cons t ts ih =>
    intro r
    have h1 := emitKinds_drop (m0 := allMask) (mk := Ev.rAttr r) (projA cfg)
      (by intro unk k pay; simp [hm]) recOrder t.slots
    have h2 := emitUnknown_drop (m0 := allMask) (mk := Ev.rAttr r) (projA cfg)
      (by intro unk k pay; simp [hm]) t.slots
    simp only [acceptRecs, List.filterMap_append, ih, acceptRec, full_recc, List.filterMap_cons, hb, h1, h2,
      projA_recEnd, hm, Option.isSome_none, keepIf]
    simp

/-! ## fields -/

theorem acceptFields_proj {cfg : Cfg} {m : Mask} (hc : cfg.cls = some m) (hf : cfg.fieldsI = true) :
    ∀ (ts : List FieldTree) (i : Nat), (acceptFields full i ts).filterMap (projA cfg) = acceptFields cfg i ts := by
  intro ts
  induction ts with
  | nil => intro i; rfl
  | cons t ts ih =>
    intro i
    simp only [acceptFields, List.filterMap_append, ih, acceptField, full_field]
    congr 1
    cases hcf : cfg.field i with
    | none =>
      have h1 := emitKinds_drop (m0 := allMask) (mk := Ev.fAttr i) (projA cfg)
        (by intro unk k pay; simp [fieldMaskOfA, hc, hf, hcf]) fieldOrder t.slots
      have h2 := emitUnknown_drop (m0 := allMask) (mk := Ev.fAttr i) (projA cfg)
        (by intro unk k pay; simp [fieldMaskOfA, hc, hf, hcf]) t.slots
      simp [List.filterMap_append, h1, h2, hc, hf, keepIf, fieldMaskOfA, hcf]
    | some fm =>
      have h1 := emitKinds_proj (m := fm) (mk := Ev.fAttr i) (projA cfg)
        (by intro unk k pay; simp [fieldMaskOfA, hc, hf, hcf]) fieldOrder t.slots
      have h2 := emitUnknown_proj (m := fm) (mk := Ev.fAttr i) (projA cfg)
        (by intro unk k pay; simp [fieldMaskOfA, hc, hf, hcf]) t.slots
      simp [List.filterMap_append, h1, h2, hc, hf, keepIf, fieldMaskOfA, hcf]

theorem acceptFields_drop {cfg : Cfg} (hb : ∀ i h, projA cfg (.fieldBegin i h) = none)
    (hm : ∀ i, fieldMaskOfA cfg i = none) :
    ∀ (ts : List FieldTree) (i : Nat), (acceptFields full i ts).filterMap (projA cfg) = [] := by
  intro ts
  induction ts with
  | nil => intro i; rfl
  | cons t ts ih =>
    intro i
    have h1 := emitKinds_drop (m0 := allMask) (mk := Ev.fAttr i) (projA cfg)
      (by intro unk k pay; simp [hm]) fieldOrder t.slots
    have h2 := emitUnknown_drop (m0 := allMask) (mk := Ev.fAttr i) (projA cfg)
      (by intro unk k pay; simp [hm]) t.slots
    simp only [acceptFields, List.filterMap_append, ih, acceptField, full_field, List.filterMap_cons, hb, h1, h2,
      projA_fieldFlags, projA_fieldEnd, hm, Option.isSome_none, keepIf]
    simp

/-! ## code and methods -/

theorem acceptCode_proj {cfg : Cfg} {i : Nat} {mc : MethodCfg} (hmc : methodCfgOfA cfg i = some mc) (t : CodeTree) :
    (acceptCode i fullMc t).filterMap (projA cfg) = acceptCode i mc t := by
  unfold acceptCode
  simp only [fullMc, if_true, allMask, Bool.or_self]
  cases hcode : mc.code with
  | false =>
    have hn : codeMaskOfA cfg i = none := by simp [codeMaskOfA, hmc, hcode]
    have h1 := emitKinds_drop (m0 := allMask) (mk := Ev.kAttr i) (projA cfg)
      (by intro unk k pay; simp [hn]) codeOrder t.slots
    have h2 := emitUnknown_drop (m0 := allMask) (mk := Ev.kAttr i) (projA cfg)
      (by intro unk k pay; simp [hn]) t.slots
    have h3 : (t.insns.map (fun x => Ev.codeInsns i x.1 x.2)).filterMap (projA cfg) = [] := by
      rw [List.filterMap_map]; exact filterMap_all_none _ (by intro a; simp [hn, keepIf]) _
    cases t.maxs <;> cases t.lines <;> cases t.locals <;>
      simp [List.filterMap_append, hmc, hcode, hn, keepIf, h1, h2, h3]
  | true =>
    cases hcv : mc.codeV with
    | none =>
      have hn : codeMaskOfA cfg i = none := by simp [codeMaskOfA, hmc, hcode, hcv]
      have h1 := emitKinds_drop (m0 := allMask) (mk := Ev.kAttr i) (projA cfg)
        (by intro unk k pay; simp [hn]) codeOrder t.slots
      have h2 := emitUnknown_drop (m0 := allMask) (mk := Ev.kAttr i) (projA cfg)
        (by intro unk k pay; simp [hn]) t.slots
      have h3 : (t.insns.map (fun x => Ev.codeInsns i x.1 x.2)).filterMap (projA cfg) = [] := by
        rw [List.filterMap_map]; exact filterMap_all_none _ (by intro a; simp [hn, keepIf]) _
      cases t.maxs <;> cases t.lines <;> cases t.locals <;>
        simp [List.filterMap_append, hmc, hcode, hn, keepIf, h1, h2, h3]
    | some cm =>
      have hn : codeMaskOfA cfg i = some cm := by simp [codeMaskOfA, hmc, hcode, hcv]
      have h1 := emitKinds_proj (m := cm) (mk := Ev.kAttr i) (projA cfg)
        (by intro unk k pay; simp [hn]) codeOrder t.slots
      have h2 := emitUnknown_proj (m := cm) (mk := Ev.kAttr i) (projA cfg)
        (by intro unk k pay; simp [hn]) t.slots
      have h3 : (t.insns.map (fun x => Ev.codeInsns i x.1 x.2)).filterMap (projA cfg)
          = t.insns.map (fun x => Ev.codeInsns i x.1 x.2) := by
        rw [List.filterMap_map]; exact filterMap_all_some _ _ (by intro a; simp [hn, keepIf]) _
      cases t.maxs <;> cases t.lines <;> cases t.locals <;> cases hl : cm .lineNumberTable <;>
        cases hv : cm .lvt <;> cases hw : cm .lvtt <;>
        simp [List.filterMap_append, hmc, hcode, hn, keepIf, h1, h2, h3, hl, hv, hw]

theorem acceptCode_drop {cfg : Cfg} {i : Nat} (hb : projA cfg (.codeBegin i) = none)
    (hn : codeMaskOfA cfg i = none) (t : CodeTree) :
    (acceptCode i fullMc t).filterMap (projA cfg) = [] := by
  unfold acceptCode
  simp only [fullMc, if_true, allMask, Bool.or_self]
  have h1 := emitKinds_drop (m0 := allMask) (mk := Ev.kAttr i) (projA cfg)
    (by intro unk k pay; simp [hn]) codeOrder t.slots
  have h2 := emitUnknown_drop (m0 := allMask) (mk := Ev.kAttr i) (projA cfg)
    (by intro unk k pay; simp [hn]) t.slots
  have h3 : (t.insns.map (fun x => Ev.codeInsns i x.1 x.2)).filterMap (projA cfg) = [] := by
    rw [List.filterMap_map]; exact filterMap_all_none _ (by intro a; simp [hn, keepIf]) _
  cases t.maxs <;> cases t.lines <;> cases t.locals <;>
    simp [List.filterMap_append, hb, hn, keepIf, h1, h2, h3]

theorem acceptMethods_proj {cfg : Cfg} {m : Mask} (hc : cfg.cls = some m) (hf : cfg.methodsI = true) :
    ∀ (ts : List MethodTree) (i : Nat), (acceptMethods full i ts).filterMap (projA cfg) = acceptMethods cfg i ts := by
  intro ts
  induction ts with
  | nil => intro i; rfl
  | cons t ts ih =>
    intro i
    simp only [acceptMethods, List.filterMap_append, ih, acceptMethod, full_method']
    congr 1
    cases hcm : cfg.method i with
    | none =>
      have hmc : methodCfgOfA cfg i = none := by simp [methodCfgOfA, hc, hf, hcm]
      have hn : codeMaskOfA cfg i = none := by simp [codeMaskOfA, hmc]
      have h1 := emitKinds_drop (m0 := allMask) (mk := Ev.mAttr i) (projA cfg)
        (by intro unk k pay; simp [hmc]) methodOrder t.slots
      have h2 := emitUnknown_drop (m0 := allMask) (mk := Ev.mAttr i) (projA cfg)
        (by intro unk k pay; simp [hmc]) t.slots
      have h3 : ∀ k, (acceptCode i fullMc k).filterMap (projA cfg) = [] :=
        fun k => acceptCode_drop (by simp [hmc]) hn k
      cases htc : t.code with
      | none => simp [List.filterMap_append, h1, h2, hc, hf, keepIf, hmc]
      | some k =>
        have := h3 k
        simp only [fullMc] at this
        simp [List.filterMap_append, h1, h2, hc, hf, keepIf, hmc, this]
    | some mc =>
      have hmc : methodCfgOfA cfg i = some mc := by simp [methodCfgOfA, hc, hf, hcm]
      have h1 := emitKinds_proj (m := mc.mask) (mk := Ev.mAttr i) (projA cfg)
        (by intro unk k pay; simp [hmc]) methodOrder t.slots
      have h2 := emitUnknown_proj (m := mc.mask) (mk := Ev.mAttr i) (projA cfg)
        (by intro unk k pay; simp [hmc]) t.slots
      cases htc : t.code with
      | none => simp [List.filterMap_append, h1, h2, hc, hf, keepIf, hmc]
      | some k =>
        have := acceptCode_proj hmc k
        simp only [fullMc] at this
        simp [List.filterMap_append, h1, h2, hc, hf, keepIf, hmc, this]

theorem acceptMethods_drop {cfg : Cfg} (hb : ∀ i h, projA cfg (.methodBegin i h) = none)
    (hm : ∀ i, methodCfgOfA cfg i = none) :
    ∀ (ts : List MethodTree) (i : Nat), (acceptMethods full i ts).filterMap (projA cfg) = [] := by
  intro ts
  induction ts with
  | nil => intro i; rfl
  | cons t ts ih =>
    intro i
    have hn : codeMaskOfA cfg i = none := by simp [codeMaskOfA, hm]
    have h1 := emitKinds_drop (m0 := allMask) (mk := Ev.mAttr i) (projA cfg)
      (by intro unk k pay; simp [hm]) methodOrder t.slots
    have h2 := emitUnknown_drop (m0 := allMask) (mk := Ev.mAttr i) (projA cfg)
      (by intro unk k pay; simp [hm]) t.slots
    have h3 : ∀ k, (acceptCode i fullMc k).filterMap (projA cfg) = [] :=
      fun k => acceptCode_drop (by simp [hm]) hn k
    simp only [acceptMethods, List.filterMap_append, ih, acceptMethod, full_method']
    cases htc : t.code with
    | none => simp [List.filterMap_append, h1, h2, hb, keepIf, hm]
    | some k =>
      have := h3 k
      simp only [fullMc] at this
      simp [List.filterMap_append, h1, h2, hb, keepIf, hm, this]

/-! ## the class -/

/-- **masked replay = projection of the full replay** -/
theorem accept_proj (cfg : Cfg) (t : ClassTree) : accept cfg t = (accept full t).filterMap (projA cfg) := by
  have hfull : accept full t = Ev.classBegin t.h :: Ev.classFlags t.dep t.syn ::
      emitKinds allMask classOrder Ev.cAttr t.slots ++ acceptRecs full 0 t.recs ++ emitUnknown allMask Ev.cAttr t.slots
      ++ acceptFields full 0 t.fields ++ acceptMethods full 0 t.methods ++ [Ev.classEnd] := by
    simp [accept, full, allMask]
  rw [hfull]
  cases hc : cfg.cls with
  | none =>
    have h1 := emitKinds_drop (m0 := allMask) (mk := Ev.cAttr) (projA cfg)
      (by intro unk k pay; simp [hc]) classOrder t.slots
    have h2 := emitUnknown_drop (m0 := allMask) (mk := Ev.cAttr) (projA cfg)
      (by intro unk k pay; simp [hc]) t.slots
    have h3 := acceptRecs_drop (cfg := cfg) (by intro r h; simp [hc]) (by intro r; simp [recMaskOf, hc]) t.recs 0
    have h4 := acceptFields_drop (cfg := cfg) (by intro i h; simp [hc, keepIf])
      (by intro i; simp [fieldMaskOfA, hc]) t.fields 0
    have h5 := acceptMethods_drop (cfg := cfg) (by intro i h; simp [hc, keepIf])
      (by intro i; simp [methodCfgOfA, hc]) t.methods 0
    simp [accept, hc, List.filterMap_append, h1, h2, h3, h4, h5, keepIf]
  | some m =>
    have h1 := emitKinds_proj (m := m) (mk := Ev.cAttr) (projA cfg)
      (by intro unk k pay; simp [hc]) classOrder t.slots
    have h2 := emitUnknown_proj (m := m) (mk := Ev.cAttr) (projA cfg)
      (by intro unk k pay; simp [hc]) t.slots
    have h3 : (acceptRecs full 0 t.recs).filterMap (projA cfg) = if m .record then acceptRecs cfg 0 t.recs else [] := by
      cases hr : m .record with
      | true => simpa using acceptRecs_proj hc hr t.recs 0
      | false =>
        simpa using acceptRecs_drop (cfg := cfg) (by intro r h; simp [hc, hr, keepIf])
          (by intro r; simp [recMaskOf, hc, hr]) t.recs 0
    have h4 : (acceptFields full 0 t.fields).filterMap (projA cfg)
        = if cfg.fieldsI then acceptFields cfg 0 t.fields else [] := by
      cases hf : cfg.fieldsI with
      | true => simpa using acceptFields_proj hc hf t.fields 0
      | false =>
        simpa using acceptFields_drop (cfg := cfg) (by intro i h; simp [hc, hf, keepIf])
          (by intro i; simp [fieldMaskOfA, hc, hf]) t.fields 0
    have h5 : (acceptMethods full 0 t.methods).filterMap (projA cfg)
        = if cfg.methodsI then acceptMethods cfg 0 t.methods else [] := by
      cases hf : cfg.methodsI with
      | true => simpa using acceptMethods_proj hc hf t.methods 0
      | false =>
        simpa using acceptMethods_drop (cfg := cfg) (by intro i h; simp [hc, hf, keepIf])
          (by intro i; simp [methodCfgOfA, hc, hf]) t.methods 0
    simp [accept, hc, List.filterMap_append, h1, h2, h3, h4, h5, keepIf]

/-! ## where the replay's projection is the reader's -/

theorem projA_eq_proj (cfg : Cfg) (hf : cfg.fieldsI = true) (hm : cfg.methodsI = true)
    (hcode : ∀ i cm, codeMaskOf cfg i = some cm → cm .stackMapTable = true ∧ cm .lvt = cm .lvtt)
    (e : Ev) (hne : ∀ i, e ≠ .codeLocals i []) : projA cfg e = proj cfg e := by
  have hcmA : ∀ i, codeMaskOfA cfg i = codeMaskOf cfg i := by
    intro i
    simp only [codeMaskOfA, methodCfgOfA, codeMaskOf, hm, if_true]
    cases cfg.cls <;> cases cfg.method i <;> simp
  have hfm : ∀ i, fieldMaskOfA cfg i = (match cfg.cls with | some _ => cfg.field i | none => none) := by
    intro i; simp only [fieldMaskOfA, hf, if_true]; cases cfg.cls <;> rfl
  have hmm : ∀ i, methodCfgOfA cfg i = (match cfg.cls with | some _ => cfg.method i | none => none) := by
    intro i; simp only [methodCfgOfA, hm, if_true]; cases cfg.cls <;> rfl
  cases e with
  | fieldBegin i h => simp [hf]
  | fAttr i unk k pay => simp only [projA_fAttr, proj_fAttr, hfm]; cases cfg.cls <;> cases cfg.field i <;> simp
  | fieldFlags i d s => simp only [projA_fieldFlags, proj_fieldFlags, hfm]; cases cfg.cls <;> cases cfg.field i <;> simp
  | fieldEnd i => simp only [projA_fieldEnd, proj_fieldEnd, hfm]; cases cfg.cls <;> cases cfg.field i <;> simp
  | methodBegin i h => simp [hm]
  | mAttr i unk k pay => simp only [projA_mAttr, proj_mAttr, hmm]; cases cfg.cls <;> cases cfg.method i <;> simp
  | methodFlags i d s => simp only [projA_methodFlags, proj_methodFlags, hmm]; cases cfg.cls <;> cases cfg.method i <;> simp
  | methodEnd i => simp only [projA_methodEnd, proj_methodEnd, hmm]; cases cfg.cls <;> cases cfg.method i <;> simp
  | codeBegin i => simp only [projA_codeBegin, proj_codeBegin, hmm]; cases cfg.cls <;> cases cfg.method i <;> simp
  | codeMaxs i h => simp [hcmA]
  | codeExc i h => simp [hcmA]
  | codeEnd i => simp [hcmA]
  | kAttr i unk k pay => simp only [projA_kAttr, proj_kAttr, hcmA]; cases codeMaskOf cfg i <;> rfl
  | codeLines i parts => simp only [projA_codeLines, proj_codeLines, hcmA]; cases codeMaskOf cfg i <;> rfl
  | codeInsns i fr h =>
    simp only [projA_codeInsns, proj_codeInsns, hcmA]
    cases hcm : codeMaskOf cfg i with
    | none => simp [keepIf]
    | some cm => simp [keepIf, (hcode i cm hcm).1]
  | codeLocals i parts =>
    simp only [projA_codeLocals, proj_codeLocals, hcmA]
    cases hcm : codeMaskOf cfg i with
    | none => rfl
    | some cm =>
      have hl := (hcode i cm hcm).2
      have hp : parts ≠ [] := by intro h; exact hne i (by rw [h])
      cases hv : cm .lvtt with
      | false =>
        have : parts.filter (fun x => if x.1 = true then cm .lvt else cm .lvtt) = [] := by
          simp [hl, hv]
        simp only [this]
        simp [keepIf, hl, hv]
      | true =>
        have : parts.filter (fun x => if x.1 = true then cm .lvt else cm .lvtt) = parts := by
          simp [hl, hv]
        simp only [this]
        simp [keepIf, hl, hv, hp]
  | _ => rfl

theorem filterMap_projA_eq_proj (cfg : Cfg) (hf : cfg.fieldsI = true) (hm : cfg.methodsI = true)
    (hcode : ∀ i cm, codeMaskOf cfg i = some cm → cm .stackMapTable = true ∧ cm .lvt = cm .lvtt)
    (evs : List Ev) (hne : ∀ i, Ev.codeLocals i [] ∉ evs) :
    evs.filterMap (projA cfg) = evs.filterMap (proj cfg) := by
  induction evs with
  | nil => rfl
  | cons e evs ih =>
    have he : ∀ i, e ≠ .codeLocals i [] := by
      intro i h; exact hne i (by simp [h])
    have ht : ∀ i, Ev.codeLocals i [] ∉ evs := by
      intro i h; exact hne i (by simp [h])
    simp only [List.filterMap_cons, projA_eq_proj cfg hf hm hcode e he, ih ht]

end Visit
