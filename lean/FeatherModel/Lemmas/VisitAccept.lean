import FeatherModel.Model.VisitTree
import FeatherModel.Lemmas.VisitProj3

/-!
# C17 lemmas — a masked / declining replay delivers the projection of the full replay

`projA cfg` is the projection `ClassFile::accept` realises: like `proj` (the reader's) except for local variable vectors
without entries (`Some(vec![])`: handed to every visitor interested in one of the two tables, the tree cannot tell which
table was the empty one).
-/

set_option linter.unusedSimpArgs false

namespace Visit

section projAEqs
variable (cfg : Cfg)
@[simp] theorem projA_classBegin (h : Nat) : projA cfg (.classBegin h) = some (.classBegin h) := rfl
@[simp] theorem projA_cAttr (unk : Bool) (k : K) (pay : Pay) : projA cfg (.cAttr unk k pay) =
    (match cfg.cls with | some m => keepIf (m (evBit unk k)) (.cAttr unk k pay) | none => none) := rfl
@[simp] theorem projA_recBegin (r h : Nat) : projA cfg (.recBegin r h) =
    (match cfg.cls with | some m => keepIf (m .record) (.recBegin r h) | none => none) := rfl
@[simp] theorem projA_rAttr (r : Nat) (unk : Bool) (k : K) (pay : Pay) : projA cfg (.rAttr r unk k pay) =
    (match recMaskOf cfg r with | some rm => keepIf (rm (evBit unk k)) (.rAttr r unk k pay) | none => none) := rfl
@[simp] theorem projA_recEnd (r : Nat) : projA cfg (.recEnd r) = keepIf (recMaskOf cfg r).isSome (.recEnd r) := rfl
@[simp] theorem projA_classFlags (d s : Bool) : projA cfg (.classFlags d s) = keepIf cfg.cls.isSome (.classFlags d s) := rfl
@[simp] theorem projA_classEnd : projA cfg .classEnd = keepIf cfg.cls.isSome .classEnd := rfl
@[simp] theorem projA_fieldBegin (i h : Nat) : projA cfg (.fieldBegin i h) =
    keepIf (cfg.cls.isSome && cfg.fieldsI) (.fieldBegin i h) := rfl
@[simp] theorem projA_fAttr (i : Nat) (unk : Bool) (k : K) (pay : Pay) : projA cfg (.fAttr i unk k pay) =
    (match fieldMaskOfA cfg i with | some fm => keepIf (fm (evBit unk k)) (.fAttr i unk k pay) | none => none) := rfl
@[simp] theorem projA_fieldFlags (i : Nat) (d s : Bool) : projA cfg (.fieldFlags i d s) =
    keepIf (fieldMaskOfA cfg i).isSome (.fieldFlags i d s) := rfl
@[simp] theorem projA_fieldEnd (i : Nat) : projA cfg (.fieldEnd i) = keepIf (fieldMaskOfA cfg i).isSome (.fieldEnd i) := rfl
@[simp] theorem projA_methodBegin (i h : Nat) : projA cfg (.methodBegin i h) =
    keepIf (cfg.cls.isSome && cfg.methodsI) (.methodBegin i h) := rfl
@[simp] theorem projA_mAttr (i : Nat) (unk : Bool) (k : K) (pay : Pay) : projA cfg (.mAttr i unk k pay) =
    (match methodCfgOfA cfg i with | some mc => keepIf (mc.mask (evBit unk k)) (.mAttr i unk k pay) | none => none) := rfl
@[simp] theorem projA_methodFlags (i : Nat) (d s : Bool) : projA cfg (.methodFlags i d s) =
    keepIf (methodCfgOfA cfg i).isSome (.methodFlags i d s) := rfl
@[simp] theorem projA_methodEnd (i : Nat) : projA cfg (.methodEnd i) = keepIf (methodCfgOfA cfg i).isSome (.methodEnd i) := rfl
@[simp] theorem projA_codeBegin (i : Nat) : projA cfg (.codeBegin i) =
    (match methodCfgOfA cfg i with | some mc => keepIf mc.code (.codeBegin i) | none => none) := rfl
@[simp] theorem projA_codeMaxs (i h : Nat) : projA cfg (.codeMaxs i h) = keepIf (codeMaskOfA cfg i).isSome (.codeMaxs i h) := rfl
@[simp] theorem projA_codeExc (i h : Nat) : projA cfg (.codeExc i h) = keepIf (codeMaskOfA cfg i).isSome (.codeExc i h) := rfl
@[simp] theorem projA_codeEnd (i : Nat) : projA cfg (.codeEnd i) = keepIf (codeMaskOfA cfg i).isSome (.codeEnd i) := rfl
@[simp] theorem projA_codeInsns (i : Nat) (fr : Option Pay) (h : Nat) : projA cfg (.codeInsns i fr h) =
    (match codeMaskOfA cfg i with
      | some cm => some (.codeInsns i (if cm .stackMapTable then fr else none) h) | none => none) := rfl
@[simp] theorem projA_kAttr (i : Nat) (unk : Bool) (k : K) (pay : Pay) : projA cfg (.kAttr i unk k pay) =
    (match codeMaskOfA cfg i with | some cm => keepIf (cm (evBit unk k)) (.kAttr i unk k pay) | none => none) := rfl
@[simp] theorem projA_codeLines (i : Nat) (parts : List Pay) : projA cfg (.codeLines i parts) =
    (match codeMaskOfA cfg i with | some cm => keepIf (cm .lineNumberTable) (.codeLines i parts) | none => none) := rfl
@[simp] theorem projA_codeLocals (i : Nat) (parts : List LvPart) : projA cfg (.codeLocals i parts) =
    (match codeMaskOfA cfg i with
      | some cm =>
        if (cm .lvt || cm .lvtt) && (lvNone parts || !lvNone (lvProj cm parts)) then some (.codeLocals i (lvProj cm parts))
        else none
      | none => none) := rfl
end projAEqs

/-! ## attribute slots -/

theorem filterMap_all_some {α β : Type} (f : α → Option β) (g : α → β) (h : ∀ a, f a = some (g a)) :
    ∀ l : List α, l.filterMap f = l.map g := by
  intro l; induction l with
  | nil => rfl
  | cons a l ih => simp [List.filterMap_cons, h, ih]

theorem filterMap_all_none {α β : Type} (f : α → Option β) (h : ∀ a, f a = none) :
    ∀ l : List α, l.filterMap f = [] := by
  intro l; induction l with
  | nil => rfl
  | cons a l ih => simp [List.filterMap_cons, h, ih]

theorem emitKinds_proj {m : Mask} {mk : Bool → K → Pay → Ev} (P : Ev → Option Ev)
    (hP : ∀ unk k pay, P (mk unk k pay) = keepIf (m (evBit unk k)) (mk unk k pay)) (ord : List K) (s : Slots) :
    (emitKinds allMask ord mk s).filterMap P = emitKinds m ord mk s := by
  unfold emitKinds kindItems
  rw [List.filterMap_map, List.filterMap_filterMap, List.map_filterMap]
  congr 1
  funext k
  simp only [kindItem, allMask, if_true]
  by_cases hm : m k = true
  · simp only [hm, if_true]
    cases hmu : isMulti k
    · cases hs : s.single k <;> simp [toEv, hP, keepIf, evBit, hm]
    · cases he : (s.multi k).isEmpty <;> simp [toEv, hP, keepIf, evBit, hm]
  · simp only [hm, Bool.false_eq_true, if_false]
    cases hmu : isMulti k
    · cases hs : s.single k <;> simp [toEv, hP, keepIf, evBit, hm]
    · cases he : (s.multi k).isEmpty <;> simp [toEv, hP, keepIf, evBit, hm]

theorem emitUnknown_proj {m : Mask} {mk : Bool → K → Pay → Ev} (P : Ev → Option Ev)
    (hP : ∀ unk k pay, P (mk unk k pay) = keepIf (m (evBit unk k)) (mk unk k pay)) (s : Slots) :
    (emitUnknown allMask mk s).filterMap P = emitUnknown m mk s := by
  unfold emitUnknown unkItems
  simp only [allMask, if_true, List.map_map]
  rw [List.filterMap_map]
  by_cases hm : m .other = true
  · simp only [hm, if_true, List.map_map]
    exact filterMap_all_some _ _ (by intro a; simp [toEv, hP, keepIf, evBit, hm]) _
  · simp only [hm, Bool.false_eq_true, if_false, List.map_nil]
    exact filterMap_all_none _ (by intro a; simp [toEv, hP, keepIf, evBit, hm]) _

theorem emitKinds_drop {m0 : Mask} {mk : Bool → K → Pay → Ev} (P : Ev → Option Ev)
    (hP : ∀ unk k pay, P (mk unk k pay) = none) (ord : List K) (s : Slots) :
    (emitKinds m0 ord mk s).filterMap P = [] := by
  unfold emitKinds
  rw [List.filterMap_map]
  exact filterMap_all_none _ (by intro a; simp [toEv, hP]) _

theorem emitUnknown_drop {m0 : Mask} {mk : Bool → K → Pay → Ev} (P : Ev → Option Ev)
    (hP : ∀ unk k pay, P (mk unk k pay) = none) (s : Slots) :
    (emitUnknown m0 mk s).filterMap P = [] := by
  unfold emitUnknown
  rw [List.filterMap_map]
  exact filterMap_all_none _ (by intro a; simp [toEv, hP]) _

/-! ## record components -/

theorem full_recc (r : Nat) : full.recc r = some allMask := rfl
theorem full_field (i : Nat) : full.field i = some allMask := rfl
theorem full_method' (i : Nat) : full.method i = some { mask := allMask, code := true, codeV := some allMask } := rfl

theorem acceptRecs_proj {cfg : Cfg} {m : Mask} (hc : cfg.cls = some m) (hr : m .record = true) :
    ∀ (ts : List RecTree) (r : Nat), (acceptRecs full r ts).filterMap (projA cfg) = acceptRecs cfg r ts := by
  intro ts
  induction ts with
  | nil => intro r; rfl
  | cons t ts ih =>
    intro r
    simp only [acceptRecs, List.filterMap_append, ih, acceptRec, full_recc]
    congr 1
    cases hcr : cfg.recc r with
    | none =>
      have h1 := emitKinds_drop (m0 := allMask) (mk := Ev.rAttr r) (projA cfg)
        (by intro unk k pay; simp [recMaskOf, hc, hr, hcr]) recOrder t.slots
      have h2 := emitUnknown_drop (m0 := allMask) (mk := Ev.rAttr r) (projA cfg)
        (by intro unk k pay; simp [recMaskOf, hc, hr, hcr]) t.slots
      simp [List.filterMap_append, h1, h2, hc, hr, keepIf, recMaskOf, hcr]
    | some rm =>
      have h1 := emitKinds_proj (m := rm) (mk := Ev.rAttr r) (projA cfg)
        (by intro unk k pay; simp [recMaskOf, hc, hr, hcr]) recOrder t.slots
      have h2 := emitUnknown_proj (m := rm) (mk := Ev.rAttr r) (projA cfg)
        (by intro unk k pay; simp [recMaskOf, hc, hr, hcr]) t.slots
      simp [List.filterMap_append, h1, h2, hc, hr, keepIf, recMaskOf, hcr]

theorem acceptRecs_drop {cfg : Cfg} (hb : ∀ r h, projA cfg (.recBegin r h) = none) (hm : ∀ r, recMaskOf cfg r = none) :
    ∀ (ts : List RecTree) (r : Nat), (acceptRecs full r ts).filterMap (projA cfg) = [] := by
  intro ts
  induction ts with
  | nil => intro r; rfl
  | cons t ts ih =>
    intro r
    have h1 := emitKinds_drop (m0 := allMask) (mk := Ev.rAttr r) (projA cfg)
      (by intro unk k pay; simp [hm]) recOrder t.slots
    have h2 := emitUnknown_drop (m0 := allMask) (mk := Ev.rAttr r) (projA cfg)
      (by intro unk k pay; simp [hm]) t.slots
    simp only [acceptRecs, List.filterMap_append, ih, acceptRec, full_recc, List.filterMap_cons, hb, h1, h2,
      projA_recEnd, hm, Option.isSome_none, keepIf]
    simp

/-! ## fields -/

theorem acceptFields_proj {cfg : Cfg} {m : Mask} (hc : cfg.cls = some m) (hf : cfg.fieldsI = true) :
    ∀ (ts : List FieldTree) (i : Nat), (acceptFields full i ts).filterMap (projA cfg) = acceptFields cfg i ts := by
  intro ts
  induction ts with
  | nil => intro i; rfl
  | cons t ts ih =>
    intro i
    simp only [acceptFields, List.filterMap_append, ih, acceptField, full_field]
    congr 1
    cases hcf : cfg.field i with
    | none =>
      have h1 := emitKinds_drop (m0 := allMask) (mk := Ev.fAttr i) (projA cfg)
        (by intro unk k pay; simp [fieldMaskOfA, hc, hf, hcf]) fieldOrder t.slots
      have h2 := emitUnknown_drop (m0 := allMask) (mk := Ev.fAttr i) (projA cfg)
        (by intro unk k pay; simp [fieldMaskOfA, hc, hf, hcf]) t.slots
      simp [List.filterMap_append, h1, h2, hc, hf, keepIf, fieldMaskOfA, hcf]
    | some fm =>
      have h1 := emitKinds_proj (m := fm) (mk := Ev.fAttr i) (projA cfg)
        (by intro unk k pay; simp [fieldMaskOfA, hc, hf, hcf]) fieldOrder t.slots
      have h2 := emitUnknown_proj (m := fm) (mk := Ev.fAttr i) (projA cfg)
        (by intro unk k pay; simp [fieldMaskOfA, hc, hf, hcf]) t.slots
      simp [List.filterMap_append, h1, h2, hc, hf, keepIf, fieldMaskOfA, hcf]

theorem acceptFields_drop {cfg : Cfg} (hb : ∀ i h, projA cfg (.fieldBegin i h) = none)
    (hm : ∀ i, fieldMaskOfA cfg i = none) :
    ∀ (ts : List FieldTree) (i : Nat), (acceptFields full i ts).filterMap (projA cfg) = [] := by
  intro ts
  induction ts with
  | nil => intro i; rfl
  | cons t ts ih =>
    intro i
    have h1 := emitKinds_drop (m0 := allMask) (mk := Ev.fAttr i) (projA cfg)
      (by intro unk k pay; simp [hm]) fieldOrder t.slots
    have h2 := emitUnknown_drop (m0 := allMask) (mk := Ev.fAttr i) (projA cfg)
      (by intro unk k pay; simp [hm]) t.slots
    simp only [acceptFields, List.filterMap_append, ih, acceptField, full_field, List.filterMap_cons, hb, h1, h2,
      projA_fieldFlags, projA_fieldEnd, hm, Option.isSome_none, keepIf]
    simp

/-! ## code and methods -/

theorem acceptLocals_all (i : Nat) (p : List LvPart) : acceptLocals i allMask p = [Ev.codeLocals i p] := by
  simp only [acceptLocals, lvProj_all]
  cases lvNone p <;> simp

theorem acceptLocals_proj {cfg : Cfg} {i : Nat} {cm : Mask} (hn : codeMaskOfA cfg i = some cm) (p : List LvPart) :
    [Ev.codeLocals i p].filterMap (projA cfg) = if cm .lvt || cm .lvtt then acceptLocals i cm p else [] := by
  simp only [List.filterMap_cons, List.filterMap_nil, projA_codeLocals, hn, acceptLocals]
  cases cm .lvt <;> cases cm .lvtt <;> cases lvNone p <;> cases lvNone (lvProj cm p) <;> simp

theorem acceptLocals_proj_cons {cfg : Cfg} {i : Nat} {cm : Mask} (hn : codeMaskOfA cfg i = some cm) (p : List LvPart)
    (rest : List Ev) :
    (Ev.codeLocals i p :: rest).filterMap (projA cfg)
      = (if cm .lvt || cm .lvtt then acceptLocals i cm p else []) ++ rest.filterMap (projA cfg) := by
  have h : Ev.codeLocals i p :: rest = [Ev.codeLocals i p] ++ rest := rfl
  rw [h, List.filterMap_append, acceptLocals_proj hn]

theorem acceptLocals_drop {cfg : Cfg} {i : Nat} (hn : codeMaskOfA cfg i = none) (p : List LvPart) :
    [Ev.codeLocals i p].filterMap (projA cfg) = [] := by
  simp [hn]

theorem acceptCode_proj {cfg : Cfg} {i : Nat} {mc : MethodCfg} (hmc : methodCfgOfA cfg i = some mc) (t : CodeTree) :
    (acceptCode i fullMc t).filterMap (projA cfg) = acceptCode i mc t := by
  unfold acceptCode
  simp only [fullMc, if_true, allMask, Bool.or_self, ↓reduceIte]
  cases hcode : mc.code with
  | false =>
    have hn : codeMaskOfA cfg i = none := by simp [codeMaskOfA, hmc, hcode]
    have h1 := emitKinds_drop (m0 := allMask) (mk := Ev.kAttr i) (projA cfg)
      (by intro unk k pay; simp [hn]) codeOrder t.slots
    have h2 := emitUnknown_drop (m0 := allMask) (mk := Ev.kAttr i) (projA cfg)
      (by intro unk k pay; simp [hn]) t.slots
    have h3 : (t.insns.map (fun x => Ev.codeInsns i x.1 x.2)).filterMap (projA cfg) = [] := by
      rw [List.filterMap_map]; exact filterMap_all_none _ (by intro a; simp [hn, keepIf]) _
    cases t.maxs <;> cases t.lines <;> cases t.locals <;>
      simp [List.filterMap_append, hmc, hcode, hn, keepIf, h1, h2, h3, acceptLocals_all]
  | true =>
    cases hcv : mc.codeV with
    | none =>
      have hn : codeMaskOfA cfg i = none := by simp [codeMaskOfA, hmc, hcode, hcv]
      have h1 := emitKinds_drop (m0 := allMask) (mk := Ev.kAttr i) (projA cfg)
        (by intro unk k pay; simp [hn]) codeOrder t.slots
      have h2 := emitUnknown_drop (m0 := allMask) (mk := Ev.kAttr i) (projA cfg)
        (by intro unk k pay; simp [hn]) t.slots
      have h3 : (t.insns.map (fun x => Ev.codeInsns i x.1 x.2)).filterMap (projA cfg) = [] := by
        rw [List.filterMap_map]; exact filterMap_all_none _ (by intro a; simp [hn, keepIf]) _
      cases t.maxs <;> cases t.lines <;> cases t.locals <;>
        simp [List.filterMap_append, hmc, hcode, hn, keepIf, h1, h2, h3, acceptLocals_all]
    | some cm =>
      have hn : codeMaskOfA cfg i = some cm := by simp [codeMaskOfA, hmc, hcode, hcv]
      have h1 := emitKinds_proj (m := cm) (mk := Ev.kAttr i) (projA cfg)
        (by intro unk k pay; simp [hn]) codeOrder t.slots
      have h2 := emitUnknown_proj (m := cm) (mk := Ev.kAttr i) (projA cfg)
        (by intro unk k pay; simp [hn]) t.slots
      have h3 : (t.insns.map (fun x => Ev.codeInsns i x.1 x.2)).filterMap (projA cfg)
          = t.insns.map (fun x => Ev.codeInsns i (if cm .stackMapTable then x.1 else none) x.2) := by
        rw [List.filterMap_map]; exact filterMap_all_some _ _ (by intro a; simp [hn, keepIf]) _
      have h4 := acceptLocals_proj_cons hn
      cases t.maxs <;> cases t.lines <;> cases t.locals <;> cases hl : cm .lineNumberTable <;>
        simp [List.filterMap_append, hmc, hcode, hn, keepIf, h1, h2, h3, hl, acceptLocals_all, h4]

theorem acceptCode_drop {cfg : Cfg} {i : Nat} (hb : projA cfg (.codeBegin i) = none)
    (hn : codeMaskOfA cfg i = none) (t : CodeTree) :
    (acceptCode i fullMc t).filterMap (projA cfg) = [] := by
  unfold acceptCode
  simp only [fullMc, if_true, allMask, Bool.or_self, ↓reduceIte]
  have h1 := emitKinds_drop (m0 := allMask) (mk := Ev.kAttr i) (projA cfg)
    (by intro unk k pay; simp [hn]) codeOrder t.slots
  have h2 := emitUnknown_drop (m0 := allMask) (mk := Ev.kAttr i) (projA cfg)
    (by intro unk k pay; simp [hn]) t.slots
  have h3 : (t.insns.map (fun x => Ev.codeInsns i x.1 x.2)).filterMap (projA cfg) = [] := by
    rw [List.filterMap_map]; exact filterMap_all_none _ (by intro a; simp [hn, keepIf]) _
  cases t.maxs <;> cases t.lines <;> cases t.locals <;>
    simp [List.filterMap_append, hb, hn, keepIf, h1, h2, h3, acceptLocals_all]

theorem acceptMethods_proj {cfg : Cfg} {m : Mask} (hc : cfg.cls = some m) (hf : cfg.methodsI = true) :
    ∀ (ts : List MethodTree) (i : Nat), (acceptMethods full i ts).filterMap (projA cfg) = acceptMethods cfg i ts := by
  intro ts
  induction ts with
  | nil => intro i; rfl
  | cons t ts ih =>
    intro i
    simp only [acceptMethods, List.filterMap_append, ih, acceptMethod, full_method']
    congr 1
    cases hcm : cfg.method i with
    | none =>
      have hmc : methodCfgOfA cfg i = none := by simp [methodCfgOfA, hc, hf, hcm]
      have hn : codeMaskOfA cfg i = none := by simp [codeMaskOfA, hmc]
      have h1 := emitKinds_drop (m0 := allMask) (mk := Ev.mAttr i) (projA cfg)
        (by intro unk k pay; simp [hmc]) methodOrder t.slots
      have h2 := emitUnknown_drop (m0 := allMask) (mk := Ev.mAttr i) (projA cfg)
        (by intro unk k pay; simp [hmc]) t.slots
      have h3 : ∀ k, (acceptCode i fullMc k).filterMap (projA cfg) = [] :=
        fun k => acceptCode_drop (by simp [hmc]) hn k
      cases htc : t.code with
      | none => simp [List.filterMap_append, h1, h2, hc, hf, keepIf, hmc]
      | some k =>
        have := h3 k
        simp only [fullMc] at this
        simp [List.filterMap_append, h1, h2, hc, hf, keepIf, hmc, this]
    | some mc =>
      have hmc : methodCfgOfA cfg i = some mc := by simp [methodCfgOfA, hc, hf, hcm]
      have h1 := emitKinds_proj (m := mc.mask) (mk := Ev.mAttr i) (projA cfg)
        (by intro unk k pay; simp [hmc]) methodOrder t.slots
      have h2 := emitUnknown_proj (m := mc.mask) (mk := Ev.mAttr i) (projA cfg)
        (by intro unk k pay; simp [hmc]) t.slots
      cases htc : t.code with
      | none => simp [List.filterMap_append, h1, h2, hc, hf, keepIf, hmc]
      | some k =>
        have := acceptCode_proj hmc k
        simp only [fullMc] at this
        simp [List.filterMap_append, h1, h2, hc, hf, keepIf, hmc, this]

theorem acceptMethods_drop {cfg : Cfg} (hb : ∀ i h, projA cfg (.methodBegin i h) = none)
    (hm : ∀ i, methodCfgOfA cfg i = none) :
    ∀ (ts : List MethodTree) (i : Nat), (acceptMethods full i ts).filterMap (projA cfg) = [] := by
  intro ts
  induction ts with
  | nil => intro i; rfl
  | cons t ts ih =>
    intro i
    have hn : codeMaskOfA cfg i = none := by simp [codeMaskOfA, hm]
    have h1 := emitKinds_drop (m0 := allMask) (mk := Ev.mAttr i) (projA cfg)
      (by intro unk k pay; simp [hm]) methodOrder t.slots
    have h2 := emitUnknown_drop (m0 := allMask) (mk := Ev.mAttr i) (projA cfg)
      (by intro unk k pay; simp [hm]) t.slots
    have h3 : ∀ k, (acceptCode i fullMc k).filterMap (projA cfg) = [] :=
      fun k => acceptCode_drop (by simp [hm]) hn k
    simp only [acceptMethods, List.filterMap_append, ih, acceptMethod, full_method']
    cases htc : t.code with
    | none => simp [List.filterMap_append, h1, h2, hb, keepIf, hm]
    | some k =>
      have := h3 k
      simp only [fullMc] at this
      simp [List.filterMap_append, h1, h2, hb, keepIf, hm, this]

/-! ## the class -/

/-- **masked replay = projection of the full replay** -/
theorem accept_proj (cfg : Cfg) (t : ClassTree) : accept cfg t = (accept full t).filterMap (projA cfg) := by
  have hfull : accept full t = Ev.classBegin t.h :: Ev.classFlags t.dep t.syn ::
      emitKinds allMask classOrder Ev.cAttr t.slots ++ acceptRecs full 0 t.recs ++ emitUnknown allMask Ev.cAttr t.slots
      ++ acceptFields full 0 t.fields ++ acceptMethods full 0 t.methods ++ [Ev.classEnd] := by
    simp [accept, full, allMask]
  rw [hfull]
  cases hc : cfg.cls with
  | none =>
    have h1 := emitKinds_drop (m0 := allMask) (mk := Ev.cAttr) (projA cfg)
      (by intro unk k pay; simp [hc]) classOrder t.slots
    have h2 := emitUnknown_drop (m0 := allMask) (mk := Ev.cAttr) (projA cfg)
      (by intro unk k pay; simp [hc]) t.slots
    have h3 := acceptRecs_drop (cfg := cfg) (by intro r h; simp [hc]) (by intro r; simp [recMaskOf, hc]) t.recs 0
    have h4 := acceptFields_drop (cfg := cfg) (by intro i h; simp [hc, keepIf])
      (by intro i; simp [fieldMaskOfA, hc]) t.fields 0
    have h5 := acceptMethods_drop (cfg := cfg) (by intro i h; simp [hc, keepIf])
      (by intro i; simp [methodCfgOfA, hc]) t.methods 0
    simp [accept, hc, List.filterMap_append, h1, h2, h3, h4, h5, keepIf]
  | some m =>
    have h1 := emitKinds_proj (m := m) (mk := Ev.cAttr) (projA cfg)
      (by intro unk k pay; simp [hc]) classOrder t.slots
    have h2 := emitUnknown_proj (m := m) (mk := Ev.cAttr) (projA cfg)
      (by intro unk k pay; simp [hc]) t.slots
    have h3 : (acceptRecs full 0 t.recs).filterMap (projA cfg) = if m .record then acceptRecs cfg 0 t.recs else [] := by
      cases hr : m .record with
      | true => simpa using acceptRecs_proj hc hr t.recs 0
      | false =>
        simpa using acceptRecs_drop (cfg := cfg) (by intro r h; simp [hc, hr, keepIf])
          (by intro r; simp [recMaskOf, hc, hr]) t.recs 0
    have h4 : (acceptFields full 0 t.fields).filterMap (projA cfg)
        = if cfg.fieldsI then acceptFields cfg 0 t.fields else [] := by
      cases hf : cfg.fieldsI with
      | true => simpa using acceptFields_proj hc hf t.fields 0
      | false =>
        simpa using acceptFields_drop (cfg := cfg) (by intro i h; simp [hc, hf, keepIf])
          (by intro i; simp [fieldMaskOfA, hc, hf]) t.fields 0
    have h5 : (acceptMethods full 0 t.methods).filterMap (projA cfg)
        = if cfg.methodsI then acceptMethods cfg 0 t.methods else [] := by
      cases hf : cfg.methodsI with
      | true => simpa using acceptMethods_proj hc hf t.methods 0
      | false =>
        simpa using acceptMethods_drop (cfg := cfg) (by intro i h; simp [hc, hf, keepIf])
          (by intro i; simp [methodCfgOfA, hc, hf]) t.methods 0
    simp [accept, hc, List.filterMap_append, h1, h2, h3, h4, h5, keepIf]

/-! ## where the replay's projection is the reader's -/

theorem fieldMaskOfA_eq (cfg : Cfg) (i : Nat) : fieldMaskOfA cfg i =
    (match cfg.cls, cfg.field i with | some _, some fm => if cfg.fieldsI then some fm else none | _, _ => none) := by
  simp only [fieldMaskOfA]; cases cfg.cls <;> cases cfg.field i <;> cases cfg.fieldsI <;> rfl

theorem methodCfgOfA_eq (cfg : Cfg) (i : Nat) : methodCfgOfA cfg i =
    (match cfg.cls, cfg.method i with | some _, some mc => if cfg.methodsI then some mc else none | _, _ => none) := by
  simp only [methodCfgOfA]; cases cfg.cls <;> cases cfg.method i <;> cases cfg.methodsI <;> rfl

theorem codeMaskOfA_eq (cfg : Cfg) (i : Nat) : codeMaskOfA cfg i = codeMaskOf cfg i := by
  simp only [codeMaskOfA, methodCfgOfA, codeMaskOf]
  cases cfg.cls <;> cases cfg.method i <;> cases cfg.methodsI <;> simp

def Ev.isLocals : Ev → Bool
  | .codeLocals _ _ => true
  | _ => false

/-- replay and read project every event but `visit_local_variables` alike, whatever the visitor's interests -/
theorem projA_eq_proj_of_not_locals (cfg : Cfg) (e : Ev) (hl : e.isLocals = false) : projA cfg e = proj cfg e := by
  have hcmA := codeMaskOfA_eq cfg
  cases e with
  | fieldBegin i h => simp
  | fAttr i unk k pay =>
    simp only [projA_fAttr, proj_fAttr, fieldMaskOfA_eq]
    cases cfg.cls <;> cases cfg.field i <;> cases cfg.fieldsI <;> simp [keepIf]
  | fieldFlags i d s =>
    simp only [projA_fieldFlags, proj_fieldFlags, fieldMaskOfA_eq]
    cases cfg.cls <;> cases cfg.field i <;> cases cfg.fieldsI <;> simp
  | fieldEnd i =>
    simp only [projA_fieldEnd, proj_fieldEnd, fieldMaskOfA_eq]
    cases cfg.cls <;> cases cfg.field i <;> cases cfg.fieldsI <;> simp
  | methodBegin i h => simp
  | mAttr i unk k pay =>
    simp only [projA_mAttr, proj_mAttr, methodCfgOfA_eq]
    cases cfg.cls <;> cases cfg.method i <;> cases cfg.methodsI <;> simp [keepIf]
  | methodFlags i d s =>
    simp only [projA_methodFlags, proj_methodFlags, methodCfgOfA_eq]
    cases cfg.cls <;> cases cfg.method i <;> cases cfg.methodsI <;> simp
  | methodEnd i =>
    simp only [projA_methodEnd, proj_methodEnd, methodCfgOfA_eq]
    cases cfg.cls <;> cases cfg.method i <;> cases cfg.methodsI <;> simp
  | codeBegin i =>
    simp only [projA_codeBegin, proj_codeBegin, methodCfgOfA_eq]
    cases cfg.cls <;> cases cfg.method i <;> cases cfg.methodsI <;> simp [keepIf]
  | codeMaxs i h => simp [hcmA]
  | codeExc i h => simp [hcmA]
  | codeEnd i => simp [hcmA]
  | kAttr i unk k pay => simp only [projA_kAttr, proj_kAttr, hcmA]; cases codeMaskOf cfg i <;> rfl
  | codeLines i parts => simp only [projA_codeLines, proj_codeLines, hcmA]; cases codeMaskOf cfg i <;> rfl
  | codeInsns i fr h => simp only [projA_codeInsns, proj_codeInsns, hcmA]; cases codeMaskOf cfg i <;> rfl
  | codeLocals i parts => simp [Ev.isLocals] at hl
  | _ => rfl

/-! ### local variable vectors -/

theorem lvNone_lvProj (cm : Mask) : ∀ p : List LvPart, lvNone p = true → lvNone (lvProj cm p) = true := by
  intro p
  induction p with
  | nil => intro _; rfl
  | cons x xs ih =>
    intro h
    simp only [lvNone, List.all_cons, Bool.and_eq_true] at h ih ⊢
    simp only [lvProj, List.filterMap_cons]
    cases hs : x.1.strip cm with
    | none => simpa [lvProj] using ih h.2
    | some k =>
      simp only [Option.map_some, List.all_cons, Bool.and_eq_true]
      exact ⟨h.1, by simpa [lvProj] using ih h.2⟩

theorem lvProj_no_interest {cm : Mask} (h1 : cm .lvt = false) (h2 : cm .lvtt = false) (p : List LvPart) :
    lvProj cm p = [] := by
  induction p with
  | nil => rfl
  | cons x xs ih =>
    simp only [lvProj, List.filterMap_cons] at ih ⊢
    have : x.1.strip cm = none := by cases x.1 <;> simp [LvK.strip, h1, h2]
    simp [this, ih]

/-- when every part has entries, what is left of them has entries unless nothing is left -/
theorem lvNone_lvProj_of_entries (cm : Mask) : ∀ p : List LvPart, (∀ x ∈ p, x.2.sum ≠ 0) →
    lvNone (lvProj cm p) = (lvProj cm p).isEmpty := by
  intro p
  induction p with
  | nil => intro _; rfl
  | cons x xs ih =>
    intro h
    have hx := h x (by simp)
    have ih' := ih (fun y hy => h y (by simp [hy]))
    simp only [lvProj, List.filterMap_cons] at ih' ⊢
    cases hs : x.1.strip cm with
    | none => simpa using ih'
    | some k => simp [lvNone, hx]

/-- replay and read project every event alike up to local variable events without entries -/
theorem projA_eq_proj_up_to_vacuous (cfg : Cfg) (e : Ev) :
    (projA cfg e).filter (fun e' => !e'.vacuous) = (proj cfg e).filter (fun e' => !e'.vacuous) := by
  cases hl : e.isLocals with
  | false => rw [projA_eq_proj_of_not_locals cfg e hl]
  | true =>
    cases e with
    | codeLocals i parts =>
      simp only [projA_codeLocals, proj_codeLocals, codeMaskOfA_eq]
      cases hcm : codeMaskOf cfg i with
      | none => rfl
      | some cm =>
        simp only []
        cases hq : lvNone (lvProj cm parts) with
        | true =>
          have hp : ∀ b : Bool, (if b = true then some (Ev.codeLocals i (lvProj cm parts)) else none).filter
              (fun e' => !e'.vacuous) = none := by
            intro b; cases b <;> simp [Option.filter, Ev.vacuous, hq]
          have hp' : ∀ b : Bool, (if b = true then none else some (Ev.codeLocals i (lvProj cm parts))).filter
              (fun e' => !e'.vacuous) = none := by
            intro b; cases b <;> simp [Option.filter, Ev.vacuous, hq]
          rw [hp, hp']
        | false =>
          have hne : (lvProj cm parts).isEmpty = false := by
            cases h : lvProj cm parts with
            | nil => rw [h] at hq; simp [lvNone] at hq
            | cons _ _ => rfl
          have hi : (cm .lvt || cm .lvtt) = true := by
            cases h1 : cm .lvt <;> cases h2 : cm .lvtt <;> simp
            rw [lvProj_no_interest h1 h2] at hne; simp at hne
          simp [hne, hi]
    | _ => simp [Ev.isLocals] at hl

/-- replay and read project every event alike, except a local variable event without entries: such a vector (an empty
`Some(vec![])`, or parts that count no entry) does not say which table it came from -/
theorem projA_eq_proj (cfg : Cfg) (e : Ev)
    (hne : ∀ i parts, e = .codeLocals i parts → parts ≠ [] ∧ ∀ x ∈ parts, x.2.sum ≠ 0) : projA cfg e = proj cfg e := by
  cases hl : e.isLocals with
  | false => exact projA_eq_proj_of_not_locals cfg e hl
  | true =>
    cases e with
    | codeLocals i parts =>
      obtain ⟨hp, hx⟩ := hne i parts rfl
      simp only [projA_codeLocals, proj_codeLocals, codeMaskOfA_eq]
      cases hcm : codeMaskOf cfg i with
      | none => rfl
      | some cm =>
        simp only []
        have hnp : lvNone parts = false := by
          cases parts with
          | nil => exact absurd rfl hp
          | cons y ys => simp [lvNone, hx y (by simp)]
        rw [hnp, lvNone_lvProj_of_entries cm parts hx]
        cases hq : (lvProj cm parts).isEmpty with
        | true => simp
        | false =>
          have hi : (cm .lvt || cm .lvtt) = true := by
            cases h1 : cm .lvt <;> cases h2 : cm .lvtt <;> simp
            rw [lvProj_no_interest h1 h2] at hq; simp at hq
          simp [hi]
    | _ => simp [Ev.isLocals] at hl

theorem filterMap_projA_eq_proj (cfg : Cfg) (evs : List Ev)
    (hne : ∀ i parts, Ev.codeLocals i parts ∈ evs → parts ≠ [] ∧ ∀ x ∈ parts, x.2.sum ≠ 0) :
    evs.filterMap (projA cfg) = evs.filterMap (proj cfg) := by
  induction evs with
  | nil => rfl
  | cons e evs ih =>
    have he : ∀ i parts, e = .codeLocals i parts → parts ≠ [] ∧ ∀ x ∈ parts, x.2.sum ≠ 0 := by
      intro i parts h; exact hne i parts (by simp [h])
    have ht : ∀ i parts, Ev.codeLocals i parts ∈ evs → parts ≠ [] ∧ ∀ x ∈ parts, x.2.sum ≠ 0 := by
      intro i parts h; exact hne i parts (by simp [h])
    simp only [List.filterMap_cons, projA_eq_proj cfg e he, ih ht]

theorem localsHaveEntries_spec {evs : List Ev} (h : localsHaveEntries evs = true) :
    ∀ i parts, Ev.codeLocals i parts ∈ evs → parts ≠ [] ∧ ∀ x ∈ parts, x.2.sum ≠ 0 := by
  intro i parts hm
  have := (List.all_eq_true.mp h) _ hm
  simp only [Bool.and_eq_true, Bool.not_eq_true', List.isEmpty_eq_false_iff, List.all_eq_true, bne_iff_ne, ne_eq] at this
  exact this

/-- filtering after two projections that agree up to the filter -/
theorem filterMap_filter_congr {f g : Ev → Option Ev} {q : Ev → Bool}
    (h : ∀ e, (f e).filter q = (g e).filter q) :
    ∀ l : List Ev, (l.filterMap f).filter q = (l.filterMap g).filter q := by
  intro l
  induction l with
  | nil => rfl
  | cons e l ih =>
    have he := h e
    cases hf : f e with
    | none =>
      cases hg : g e with
      | none => simp [List.filterMap_cons, hf, hg, ih]
      | some b =>
        rw [hf, hg] at he
        have hb : q b = false := by
          cases hq : q b
          · rfl
          · simp [Option.filter, hq] at he
        simp [List.filterMap_cons, hf, hg, List.filter_cons, hb, ih]
    | some a =>
      cases hg : g e with
      | none =>
        rw [hf, hg] at he
        have ha : q a = false := by
          cases hq : q a
          · rfl
          · simp [Option.filter, hq] at he
        simp [List.filterMap_cons, hf, hg, List.filter_cons, ha, ih]
      | some b =>
        rw [hf, hg] at he
        cases hqa : q a <;> cases hqb : q b <;> simp [Option.filter, hqa, hqb] at he <;>
          simp [List.filterMap_cons, hf, hg, List.filter_cons, hqa, hqb, ih, he]

end Visit
