import FeatherModel.Lemmas.RemapperB
import FeatherModel.Lemmas.MapDesc
import FeatherModel.Model.RemapperSpec

/-!
# C06 helper lemmas, part 3
`getD` forms of the class round trip, `dfsAll` versus `dfs`, the automaton of accepted strings.
-/

namespace Remapper

variable {K : Type}

theorem mapClass_eq_getD (t : ATable) (c : JStr) : mapClass t c = (mapClassFail t c).getD c := by
  unfold mapClass
  cases mapClassFail t c <;> rfl

/-- `roundtrip_core` with `Option.getD` instead of `match` -/
theorem roundtrip_getD [BEq K] [LawfulBEq K] (pairs : List (K × K)) (c : K)
    (h : injOn pairs ((lastPair pairs c).getD c) c = true) :
    (lastPair (pairs.map swap) ((lastPair pairs c).getD c)).getD ((lastPair pairs c).getD c) = c := by
  cases h1 : lastPair pairs c with
  | none =>
    rw [h1] at h
    simp only [Option.getD_none] at h ⊢
    have key := roundtrip_core pairs c (by rw [h1]; exact h)
    rw [h1] at key
    simp only at key
    cases h2 : lastPair (pairs.map swap) c with
    | none => rfl
    | some v => rw [h2] at key; simpa using key
  | some y =>
    rw [h1] at h
    simp only [Option.getD_some] at h ⊢
    have key := roundtrip_core pairs c (by rw [h1]; exact h)
    rw [h1] at key
    simp only at key
    cases h2 : lastPair (pairs.map swap) y with
    | none => rw [h2] at key; simpa using key
    | some v => rw [h2] at key; simpa using key

/-! ## `dfsAll` -/

theorem allMapped_spec {r : BTable} {l : List JStr} (h : allMapped r l = true) :
    ∀ c ∈ l, ∃ cls, AList.lookup c r = some cls := by
  intro c hc
  unfold allMapped at h
  have := List.all_eq_true.mp h c hc
  cases hl : AList.lookup c r with
  | none => rw [hl] at this; simp at this
  | some cls => exact ⟨cls, rfl⟩

theorem allMapped_append {r : BTable} {a b : List JStr} :
    allMapped r (a ++ b) = (allMapped r a && allMapped r b) := by
  simp [allMapped, List.all_append]

theorem concatM_dfsAll (r : BTable) (sup : Supers) (n : Nat)
    (ih : ∀ (o : JStr) (order : List JStr), dfsAll sup n o = some order → allMapped r order = true →
      dfs r sup n o = some order) :
    ∀ (ss : List JStr) (l : List JStr), concatM (fun s => dfsAll sup n s) ss = some l → allMapped r l = true →
      concatM (fun s => dfs r sup n s) ss = some l := by
  intro ss
  induction ss with
  | nil => intro l h _; simpa [concatM] using h
  | cons s rest ihl =>
    intro l h hm
    simp only [concatM] at h ⊢
    cases hd : dfsAll sup n s with
    | none => rw [hd] at h; simp at h
    | some a =>
      rw [hd] at h
      simp only at h
      cases hc : concatM (fun s => dfsAll sup n s) rest with
      | none => rw [hc] at h; simp at h
      | some b =>
        rw [hc] at h
        simp only [Option.some.injEq] at h
        subst h
        rw [allMapped_append, Bool.and_eq_true] at hm
        rw [ih s a hd hm.1, ihl b hc hm.2]

/-- when every class of the provider's pre-order has a mapping, the search order of the code is that pre-order -/
theorem dfs_eq_dfsAll (r : BTable) (sup : Supers) :
    ∀ (fuel : Nat) (o : JStr) (order : List JStr), dfsAll sup fuel o = some order → allMapped r order = true →
      dfs r sup fuel o = some order := by
  intro fuel
  induction fuel with
  | zero => intro o order h; simp [dfsAll] at h
  | succ n ih =>
    intro o order h hm
    rw [dfsAll] at h
    rw [dfs]
    cases hs : AList.lookup o sup with
    | none =>
      rw [hs] at h
      simp only [Option.some.injEq] at h
      subst h
      obtain ⟨cls, hcls⟩ := allMapped_spec hm o (by simp)
      rw [hcls]
    | some ss =>
      rw [hs] at h
      simp only at h
      cases hc : concatM (fun s => dfsAll sup n s) ss with
      | none => rw [hc] at h; simp at h
      | some l =>
        rw [hc] at h
        simp only [Option.some.injEq] at h
        subst h
        obtain ⟨cls, hcls⟩ := allMapped_spec hm o (by simp)
        rw [hcls]
        simp only
        have hl : allMapped r l = true := by
          have : allMapped r ([o] ++ l) = true := hm
          rw [allMapped_append, Bool.and_eq_true] at this
          exact this.2
        rw [concatM_dfsAll r sup n ih ss l hc hl]

end Remapper

namespace MapDesc

def stOf : Mode → St
  | .copy => .copy
  | .first => .first
  | .name _ => .name

/-- `map_desc` succeeds exactly on the strings the automaton accepts, from every scanner state -/
theorem go_isSome_run (f : JStr → JStr) (s : List Nat) (mode : Mode) (out : List Nat) :
    (go f s mode out).isSome = run s (stOf mode) := by
  induction s generalizing mode out with
  | nil => cases mode <;> simp [go, run, stOf]
  | cons c rest ih =>
    cases mode with
    | copy =>
      simp only [go, run, stOf]
      split
      · rw [ih]; rfl
      · rw [ih]; rfl
    | first =>
      simp only [go, run, stOf]
      split
      · rfl
      · rw [ih]; rfl
    | name acc =>
      simp only [go, run, stOf]
      split
      · rw [ih]; rfl
      · rw [ih]; rfl

theorem mapDesc_isSome_accepts (f : JStr → JStr) (s : List Nat) : (mapDesc f s).isSome = accepts s :=
  go_isSome_run f s .copy []

end MapDesc
