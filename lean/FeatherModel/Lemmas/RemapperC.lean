import FeatherModel.Lemmas.RemapperB
import FeatherModel.Lemmas.MapDesc
import FeatherModel.Model.RemapperSpec

/-!
# C06 helper lemmas, part 3
`getD` forms of the class round trip, the automaton of accepted strings.
-/

namespace Remapper

variable {K : Type}

theorem mapClass_eq_getD (t : ATable) (c : JStr) : mapClass t c = (mapClassFail t c).getD c := by
  unfold mapClass
  cases mapClassFail t c <;> rfl

/-- `roundtrip_core` with `Option.getD` instead of `match` -/
theorem roundtrip_getD [BEq K] [LawfulBEq K] (pairs : List (K × K)) (c : K)
    (h : injOn pairs ((lastPair pairs c).getD c) c = true) :
    (lastPair (pairs.map swap) ((lastPair pairs c).getD c)).getD ((lastPair pairs c).getD c) = c := by
  cases h1 : lastPair pairs c with
  | none =>
    rw [h1] at h
    simp only [Option.getD_none] at h ⊢
    have key := roundtrip_core pairs c (by rw [h1]; exact h)
    rw [h1] at key
    simp only at key
    cases h2 : lastPair (pairs.map swap) c with
    | none => rfl
    | some v => rw [h2] at key; simpa using key
  | some y =>
    rw [h1] at h
    simp only [Option.getD_some] at h ⊢
    have key := roundtrip_core pairs c (by rw [h1]; exact h)
    rw [h1] at key
    simp only at key
    cases h2 : lastPair (pairs.map swap) y with
    | none => rw [h2] at key; simpa using key
    | some v => rw [h2] at key; simpa using key

end Remapper

namespace MapDesc

def stOf : Mode → St
  | .copy => .copy
  | .first => .first
  | .name _ => .name

/-- `map_desc` succeeds exactly on the strings the automaton accepts, from every scanner state -/
theorem go_isSome_run (f : JStr → JStr) (s : List Nat) (mode : Mode) (out : List Nat) :
    (go f s mode out).isSome = run s (stOf mode) := by
  induction s generalizing mode out with
  | nil => cases mode <;> simp [go, run, stOf]
  | cons c rest ih =>
    cases mode with
    | copy =>
      simp only [go, run, stOf]
      split
      · rw [ih]; rfl
      · rw [ih]; rfl
    | first =>
      simp only [go, run, stOf]
      split
      · rfl
      · rw [ih]; rfl
    | name acc =>
      simp only [go, run, stOf]
      split
      · rw [ih]; rfl
      · rw [ih]; rfl

theorem mapDesc_isSome_accepts (f : JStr → JStr) (s : List Nat) : (mapDesc f s).isSome = accepts s :=
  go_isSome_run f s .copy []

end MapDesc
