import FeatherModel.Lemmas.BridgeWalk

/-! The bridge predicate and the selection loop of `get_specialized_methods` against their declarative reading (C15). -/

namespace Bridge

theorem ancestors_mem (idx : Index) (fuel : Nat) (s : JStr) (as : List JStr)
    (h : ancestors idx fuel s = some as) (a : JStr) : a ∈ as ↔ Reach idx.parents s a := by
  have := walk_mem idx.parents fuel [s] [] as h a
  simpa using this

theorem descendants_mem (idx : Index) (fuel : Nat) (s : JStr) (ds : List JStr)
    (h : descendants idx fuel s = some ds) (a : JStr) : a ∈ ds ↔ Reach idx.children s a := by
  have := walk_mem idx.children fuel [s] [] ds h a
  simpa using this

theorem typesCompat_spec (idx : Index) (fuel : Nat) (tb ts : Ty) (r : Bool)
    (h : typesCompat idx (walksOf idx fuel) tb ts = some r) : r = true ↔ Compat idx tb ts := by
  unfold typesCompat at h
  by_cases heq : tb = ts
  · simp [heq] at h
    subst h
    simp [Compat, heq]
  · simp only [heq, if_false] at h
    cases tb with
    | obj b =>
      cases ts with
      | obj s =>
        simp only at h
        by_cases hb : b = JLO
        · simp [hb] at h; subst h
          simp [Compat, hb]
        · simp only [hb, if_false] at h
          by_cases hc : b ∈ idx.classes
          · simp [hc] at h
            cases hw : (walksOf idx fuel).anc s with
            | none => simp [hw] at h
            | some as =>
              simp [hw] at h
              subst h
              have hm := ancestors_mem idx fuel s as hw
              simp only [Compat, List.any_eq_true]
              constructor
              · rintro ⟨a, ha, hp⟩
                refine Or.inr ⟨b, s, rfl, rfl, Or.inr (Or.inr ⟨a, (hm a).mp ha, ?_⟩)⟩
                simp at hp
                rcases hp with hp | hp
                · exact Or.inl hp.symm
                · exact Or.inr hp
              · rintro (h1 | ⟨b', s', h1, h2, h3⟩)
                · exact absurd h1 heq
                · cases h1; cases h2
                  rcases h3 with h3 | h3 | ⟨a, ha, h3⟩
                  · exact absurd h3 hb
                  · exact absurd hc h3
                  · refine ⟨a, (hm a).mpr ha, ?_⟩
                    simp
                    rcases h3 with h3 | h3
                    · exact Or.inl h3.symm
                    · exact Or.inr h3
          · simp [hc] at h; subst h
            simp only [Compat, true_iff]
            exact Or.inr ⟨b, s, rfl, rfl, Or.inr (Or.inl hc)⟩
      | prim p => simp at h; subst h; simp [Compat, heq]
      | arr d e => simp at h; subst h; simp [Compat, heq]
    | prim p => simp at h; subst h; simp [Compat, heq]
    | arr d e => simp at h; subst h; simp [Compat, heq]

theorem allCompat_spec (idx : Index) (fuel : Nat) :
    ∀ (bs ss : List Ty) (r : Bool), allCompat idx (walksOf idx fuel) bs ss = some r →
      (r = true ↔ ∀ p, p ∈ List.zip bs ss → Compat idx p.1 p.2) := by
  intro bs
  induction bs with
  | nil => intro ss r h; simp [allCompat] at h; subst h; simp
  | cons b bs ih =>
    intro ss r h
    cases ss with
    | nil => simp [allCompat] at h; subst h; simp
    | cons s ss =>
      simp only [allCompat] at h
      cases ht : typesCompat idx (walksOf idx fuel) b s with
      | none => simp [ht] at h
      | some t =>
        have hs := typesCompat_spec idx fuel b s t ht
        cases t with
        | false =>
          simp [ht] at h; subst h
          simp only [Bool.false_eq_true, false_iff]
          intro hall
          have := hall (b, s) (by simp)
          exact absurd (hs.mpr this) (by simp)
        | true =>
          simp [ht] at h
          rw [ih ss r h]
          constructor
          · intro hall p hp
            simp only [List.zip_cons_cons, List.mem_cons] at hp
            rcases hp with hp | hp
            · subst hp; exact hs.mp rfl
            · exact hall p hp
          · intro hall p hp
            exact hall p (by simp [hp])

theorem isPotentialBridge_spec (idx : Index) (fuel : Nat) (b : MRef) (acc : Access) (s : MRef) (r : Bool)
    (h : isPotentialBridge idx (walksOf idx fuel) b acc s = some r) : r = true ↔ Potential idx b acc s := by
  unfold isPotentialBridge at h
  by_cases hflags : (acc.priv || acc.final || acc.static) = true
  · simp [hflags] at h; subst h
    simp only [Bool.false_eq_true, false_iff]
    rintro ⟨h1, h2, h3, _⟩
    simp [h1, h2, h3] at hflags
  · simp only [hflags] at h
    have hf : acc.priv = false ∧ acc.static = false ∧ acc.final = false := by
      cases hp : acc.priv <;> cases hs : acc.static <;> cases hfi : acc.final <;> simp [hp, hs, hfi] at hflags ⊢
    cases hpb : parseMethodDesc b.desc with
    | none =>
      simp [hpb] at h; subst h
      simp only [Bool.false_eq_true, false_iff]
      rintro ⟨_, _, _, pb, rb, ps, rs, h1, _⟩
      simp [hpb] at h1
    | some vb =>
      obtain ⟨pb, rb⟩ := vb
      cases hps : parseMethodDesc s.desc with
      | none =>
        simp [hpb, hps] at h; subst h
        simp only [Bool.false_eq_true, false_iff]
        rintro ⟨_, _, _, pb', rb', ps, rs, _, h2, _⟩
        simp [hps] at h2
      | some vs =>
        obtain ⟨ps, rs⟩ := vs
        simp only [hpb, hps] at h
        have key : ∀ (P : Prop), (r = true ↔ (pb.length = ps.length ∧ (∀ p, p ∈ List.zip pb ps → Compat idx p.1 p.2) ∧ RetCompat idx rb rs)) →
            (r = true ↔ Potential idx b acc s) := by
          intro _ hiff
          rw [hiff]
          constructor
          · rintro ⟨h1, h2, h3⟩
            exact ⟨hf.1, hf.2.1, hf.2.2, pb, rb, ps, rs, hpb, hps, h1, h2, h3⟩
          · rintro ⟨_, _, _, pb', rb', ps', rs', h1, h2, h3, h4, h5⟩
            rw [hpb] at h1; rw [hps] at h2
            cases h1; cases h2
            exact ⟨h3, h4, h5⟩
        apply key True
        by_cases hlen : pb.length = ps.length
        · simp [hlen] at h
          cases hall : allCompat idx (walksOf idx fuel) pb ps with
          | none => simp [hall] at h
          | some t =>
            have hs := allCompat_spec idx fuel pb ps t hall
            cases t with
            | false =>
              simp [hall] at h; subst h
              simp only [Bool.false_eq_true, false_iff]
              rintro ⟨_, h2, _⟩
              exact absurd (hs.mpr h2) (by simp)
            | true =>
              simp [hall] at h
              have h2 := hs.mp rfl
              cases rb with
              | none =>
                cases rs with
                | none =>
                  simp at h; subst h; simp [RetCompat, hlen]
                  exact fun a b hab => h2 (a, b) hab
                | some y => simp at h; subst h; simp [RetCompat]
              | some x =>
                cases rs with
                | none => simp at h; subst h; simp [RetCompat]
                | some y =>
                  simp at h
                  have := typesCompat_spec idx fuel x y r h
                  simp [RetCompat, hlen, this]
                  intro _ a b hab
                  exact h2 (a, b) hab
        · simp [hlen] at h; subst h
          simp [hlen]

theorem higher_spec (idx : Index) (fuel : Nat) (b1 b2 r : MRef)
    (h : higher (walksOf idx fuel) b1 b2 = some r) :
    (Reach idx.children b1.cls b2.cls → r = b1) ∧ (¬ Reach idx.children b1.cls b2.cls → r = b2) := by
  unfold higher at h
  cases hd : (walksOf idx fuel).desc b1.cls with
  | none => simp [hd] at h
  | some ds =>
    simp [hd] at h
    have hm := descendants_mem idx fuel b1.cls ds hd b2.cls
    by_cases hc : b2.cls ∈ ds
    · simp [hc] at h
      exact ⟨fun _ => h.symm, fun hn => absurd (hm.mp hc) hn⟩
    · simp [hc] at h
      exact ⟨fun hr => absurd (hm.mpr hr) hc, fun _ => h.symm⟩

/-! ## the iterator chain -/

theorem candidate_spec (idx : Index) (fuel : Nat) (m : MRef) (acc : Access) (c : Option (MRef × MRef))
    (h : candidate idx (walksOf idx fuel) m acc = some c) (b s : MRef) :
    c = some (b, s) ↔ b = m ∧ acc.synthetic = true ∧ AList.lookup m idx.refs = some [s] ∧
      (acc.bridge = true ∨ Potential idx m acc s) := by
  unfold candidate at h
  by_cases hsyn : acc.synthetic = true
  · simp only [hsyn, Bool.not_true, Bool.false_eq_true, if_false] at h
    cases hr : AList.lookup m idx.refs with
    | none => simp [hr] at h; subst h; simp
    | some l =>
      cases l with
      | nil => simp [hr] at h; subst h; simp
      | cons s0 tl =>
        cases tl with
        | cons _ _ => simp [hr] at h; subst h; simp
        | nil =>
          simp only [hr] at h
          by_cases hb : acc.bridge = true
          · simp [hb] at h; subst h
            simp [hsyn, hb]
            intro _
            exact eq_comm
          · simp only [hb, if_false] at h
            cases hp : isPotentialBridge idx (walksOf idx fuel) m acc s0 with
            | none => simp [hp] at h
            | some t =>
              have hs := isPotentialBridge_spec idx fuel m acc s0 t hp
              cases t with
              | true =>
                simp [hp] at h; subst h
                have := hs.mp rfl
                simp [hsyn]
                constructor
                · rintro ⟨h1, h2⟩; subst h1; subst h2; exact ⟨rfl, rfl, Or.inr this⟩
                · rintro ⟨h1, h2, _⟩; exact ⟨h1.symm, h2⟩
              | false =>
                simp [hp] at h; subst h
                simp [hsyn, hb]
                intro _ h2
                subst h2
                intro hpot
                exact absurd (hs.mpr hpot) (by simp)
  · simp [hsyn] at h; subst h
    simp [hsyn]

theorem candidates_mem (idx : Index) (fuel : Nat) :
    ∀ (ms : AList MRef Access) (cs : List (MRef × MRef)), candidates idx (walksOf idx fuel) ms = some cs →
      ∀ b s, (b, s) ∈ cs ↔ ∃ acc, (b, acc) ∈ ms ∧ acc.synthetic = true ∧ AList.lookup b idx.refs = some [s] ∧
        (acc.bridge = true ∨ Potential idx b acc s) := by
  intro ms
  induction ms with
  | nil => intro cs h b s; simp [candidates] at h; subst h; simp
  | cons e rest ih =>
    obtain ⟨m, acc⟩ := e
    intro cs h b s
    simp only [candidates] at h
    cases hc : candidate idx (walksOf idx fuel) m acc with
    | none => simp [hc] at h
    | some c =>
      cases hr : candidates idx (walksOf idx fuel) rest with
      | none => simp [hc, hr] at h
      | some cs' =>
        simp [hc, hr] at h
        subst h
        have hspec := candidate_spec idx fuel m acc c hc b s
        rw [List.mem_append, ih cs' hr b s]
        constructor
        · rintro (h1 | ⟨acc', h1, h2⟩)
          · have : c = some (b, s) := by
              cases c with
              | none => simp at h1
              | some v => simp at h1; simp [h1]
            obtain ⟨hb, h2, h3, h4⟩ := hspec.mp this
            subst hb
            exact ⟨acc, by simp, h2, h3, h4⟩
          · exact ⟨acc', List.mem_cons_of_mem _ h1, h2⟩
        · rintro ⟨acc', h1, h2⟩
          rcases List.mem_cons.mp h1 with h1 | h1
          · cases h1
            have := hspec.mpr ⟨rfl, h2⟩
            exact Or.inl (by simp [this])
          · exact Or.inr ⟨acc', h1, h2⟩

/-- the keys of the candidates are a sublist of the method keys -/
theorem candidates_keys (idx : Index) (w : Walks) :
    ∀ (ms : AList MRef Access) (cs : List (MRef × MRef)), candidates idx w ms = some cs →
      (cs.map Prod.fst).Sublist (ms.map Prod.fst) := by
  intro ms
  induction ms with
  | nil => intro cs h; simp [candidates] at h; subst h; simp
  | cons e rest ih =>
    obtain ⟨m, acc⟩ := e
    intro cs h
    simp only [candidates] at h
    cases hc : candidate idx w m acc with
    | none => simp [hc] at h
    | some c =>
      cases hr : candidates idx w rest with
      | none => simp [hc, hr] at h
      | some cs' =>
        simp [hc, hr] at h
        subst h
        have hsub := ih cs' hr
        cases c with
        | none => simpa using List.Sublist.cons _ hsub
        | some p =>
          have hp : p.1 = m := by
            unfold candidate at hc
            by_cases hsyn : acc.synthetic = true
            · simp only [hsyn, Bool.not_true, Bool.false_eq_true, if_false] at hc
              split at hc
              · split at hc
                · simp at hc; rw [← hc]
                · split at hc <;> simp at hc
                  rw [← hc]
              · simp at hc
            · simp [hsyn] at hc
          simp only [Option.toList, List.map_append, List.map_cons, List.map_nil, List.singleton_append]
          rw [hp]
          exact List.Sublist.cons_cons _ hsub

/-! ## the loop -/

theorem foldSel_fst (w : Walks) :
    ∀ (cs : List (MRef × MRef)) (st st' : SelState), foldSel w cs st = some st' →
      st'.1 = cs.foldl (fun acc p => upsert p.1 p.2 acc) st.1 := by
  intro cs
  induction cs with
  | nil => intro st st' h; simp [foldSel] at h; subst h; rfl
  | cons p rest ih =>
    intro st st' h
    simp only [foldSel] at h
    cases hs : stepSel w st p with
    | none => simp [hs] at h
    | some st1 =>
      simp [hs] at h
      rw [ih st1 st' h]
      have : st1.1 = upsert p.1 p.2 st.1 := by
        unfold stepSel at hs
        split at hs
        · split at hs
          · simp at hs
          · simp at hs; rw [← hs]
        · simp at hs; rw [← hs]
      simp [List.foldl_cons, this]

theorem foldl_upsert_nodup :
    ∀ (cs acc : List (MRef × MRef)), ((acc ++ cs).map Prod.fst).Nodup →
      cs.foldl (fun acc p => upsert p.1 p.2 acc) acc = acc ++ cs := by
  intro cs
  induction cs with
  | nil => intro acc _; simp
  | cons p rest ih =>
    intro acc hnd
    simp only [List.foldl_cons]
    have hnone : AList.lookup p.1 acc = none := by
      apply lookup_none_of_not_mem_keys
      intro hm
      simp only [List.map_append, List.map_cons] at hnd
      have := (List.nodup_append.mp hnd).2.2 p.1 hm p.1 (by simp)
      exact this rfl
    rw [upsert_of_none p.2 hnone]
    rw [ih (acc ++ [(p.1, p.2)])]
    · simp
    · simpa using hnd

/-- with unique method keys `bridge_to_specialized` is the list of candidates, in order -/
theorem select_fst (idx : Index) (w : Walks) (hnd : (idx.methods.map Prod.fst).Nodup) (st : SelState)
    (h : selectWith idx w = some st) : candidates idx w idx.methods = some st.1 := by
  unfold selectWith at h
  cases hc : candidates idx w idx.methods with
  | none => simp [hc] at h
  | some cs =>
    simp [hc] at h
    have h1 := foldSel_fst w cs ([], []) st h
    have hsub := candidates_keys idx w idx.methods cs hc
    rw [foldl_upsert_nodup cs [] (by simpa using hsub.nodup hnd)] at h1
    simp at h1
    rw [h1]

/-- the second component of the loop state: a fold of `get_higher_method` per specialized method -/
theorem foldSel_snd (w : Walks) (s : MRef) :
    ∀ (cs : List (MRef × MRef)) (st st' : SelState), foldSel w cs st = some st' →
      foldHigher w (AList.lookup s st.2) ((cs.filter fun p => p.2 == s).map Prod.fst) = some (AList.lookup s st'.2) := by
  intro cs
  induction cs with
  | nil => intro st st' h; simp [foldSel] at h; subst h; simp [foldHigher]
  | cons p rest ih =>
    intro st st' h
    simp only [foldSel] at h
    cases hs : stepSel w st p with
    | none => simp [hs] at h
    | some st1 =>
      simp [hs] at h
      have ih' := ih st1 st' h
      by_cases hp : p.2 = s
      · subst hp
        simp only [List.filter_cons, beq_self_eq_true, if_true, List.map_cons]
        unfold stepSel at hs
        cases ho : AList.lookup p.2 st.2 with
        | none =>
          simp [ho] at hs
          rw [← hs] at ih'
          simp only [lookup_upsert_self] at ih'
          simpa [foldHigher] using ih'
        | some o =>
          simp only [ho] at hs
          cases hh : higher w p.1 o with
          | none => simp [hh] at hs
          | some hi =>
            simp [hh] at hs
            rw [← hs] at ih'
            simp only [lookup_upsert_self] at ih'
            simpa [foldHigher, hh] using ih'
      · have hne : (p.2 == s) = false := by simpa using hp
        simp only [List.filter_cons, hne]
        have : AList.lookup s st1.2 = AList.lookup s st.2 := by
          unfold stepSel at hs
          have hne' : s ≠ p.2 := fun e => hp e.symm
          split at hs
          · split at hs
            · simp at hs
            · simp at hs; rw [← hs]; exact lookup_upsert_ne _ _ hne'
          · simp at hs; rw [← hs]; exact lookup_upsert_ne _ _ hne'
        rw [this] at ih'
        simpa using ih'

end Bridge
