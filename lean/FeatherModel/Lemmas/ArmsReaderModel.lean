import FeatherModel.Lemmas.ArmsDefs
import FeatherModel.Lemmas.ClassReadCursor

/-!
# What the hand-written reader model does per arm of its opcode dispatch (all inputs, by cases on the arm)

`decodeInsn_kind`: for every arm `k` of the model's second loop, whatever the pool, the label table and the bytes are, a
successful decode builds an instruction with the mnemonic `kindMnemonic k op`, consumes `kindBytes k` operand bytes (where
that is fixed) and, for the `*load_<n>` / `*store_<n>` arms, carries the index `kindLocal k`.
`decodeWide_kind`, `pass1Step_wide`: the same for the two `wide` sub-dispatches.
The finite comparison of these descriptions with the generated tables is in `ArmsReader.lean`.
-/

namespace Arms

open ClassRead ClassRead.Outcome JvmsTables

theorem bind_eq_ok {α β : Type} {x : Outcome α} {f : α → Outcome β} {b : β} :
    (x >>= f) = ok b ↔ ∃ a, x = ok a ∧ f a = ok b := by
  cases x <;> simp [Bind.bind, Outcome.bind]

/-- a cursor primitive that advances the position by exactly `n` whenever it succeeds -/
def Adv {α : Type} (f : Cur → Outcome (α × Cur)) (n : Nat) : Prop := ∀ c v c', f c = ok (v, c') → c'.1 = c.1 + n

theorem adv_of_rd {α : Type} (rd : Rd α) (n : Nat) :
    Adv (fun c => do let (v, r) ← rd c.2; pure (v, (c.1 + n, r))) n := by
  intro c v c' h
  simp only [bind_eq_ok, Prod.exists, pure_eq, ok.injEq, Prod.mk.injEq] at h
  obtain ⟨_, _, _, _, rfl⟩ := h
  rfl

theorem cU8_adv : Adv cU8 1 := adv_of_rd u8 1
theorem cU16_adv : Adv cU16 2 := adv_of_rd u16 2
theorem cI8_adv : Adv cI8 1 := adv_of_rd i8 1
theorem cI16_adv : Adv cI16 2 := adv_of_rd i16 2
theorem cI32_adv : Adv cI32 4 := adv_of_rd i32 4

theorem cBranch16_adv (pos : Nat) : Adv (cBranch16 pos) 2 := by
  intro c v c' h
  simp only [cBranch16, bind_eq_ok, Prod.exists, pure_eq, ok.injEq, Prod.mk.injEq] at h
  obtain ⟨_, _, _, h1, _, _, _, rfl⟩ := h
  exact cI16_adv _ _ _ h1

theorem cBranch32_adv (pos : Nat) : Adv (cBranch32 pos) 4 := by
  intro c v c' h
  simp only [cBranch32, bind_eq_ok, Prod.exists, pure_eq, ok.injEq, Prod.mk.injEq] at h
  obtain ⟨_, _, _, h1, _, _, _, rfl⟩ := h
  exact cI32_adv _ _ _ h1

theorem cSkip_adv (n : Nat) {c c' : Cur} (h : cSkip n c = ok c') : c'.1 = c.1 + n := by
  unfold cSkip at h
  split at h
  · injection h with h; rw [← h]
  · exact absurd h (by simp)

/-! ## the second loop -/

/-- mnemonic of the instruction the arm `k` builds for opcode `op` -/
def kindMnemonic (k : OpKind) (op : Nat) : JStr :=
  match k with
  | .simple | .cond | .field => (mnemonic? op).getD []
  | .bipush => jstr "bipush"
  | .sipush => jstr "sipush"
  | .ldc | .ldcW => jstr "ldc"
  | .load j | .loadN j _ => (mnemonic? (0x15 + j)).getD []
  | .store j | .storeN j _ => (mnemonic? (0x36 + j)).getD []
  | .iinc => jstr "iinc"
  | .goto | .gotoW => jstr "goto"
  | .jsr | .jsrW => jstr "jsr"
  | .ret => jstr "ret"
  | .tableswitch => jstr "tableswitch"
  | .lookupswitch => jstr "lookupswitch"
  | .invokevirtual => jstr "invokevirtual"
  | .invokespecial => jstr "invokespecial"
  | .invokestatic => jstr "invokestatic"
  | .invokeinterface => jstr "invokeinterface"
  | .invokedynamic => jstr "invokedynamic"
  | .new => jstr "new"
  | .newarray => jstr "newarray"
  | .anewarray => jstr "anewarray"
  | .checkcast => jstr "checkcast"
  | .instanceof => jstr "instanceof"
  | .multianewarray => jstr "multianewarray"
  | .wide | .invalid => []

/-- operand bytes the arm consumes after the opcode (`none`: depends on the input) -/
def kindBytes : OpKind → Option Nat
  | .simple | .loadN _ _ | .storeN _ _ => some 0
  | .bipush | .ldc | .load _ | .store _ | .ret | .newarray => some 1
  | .sipush | .ldcW | .iinc | .cond | .goto | .jsr | .field | .invokevirtual | .invokespecial | .invokestatic | .new
  | .anewarray | .checkcast | .instanceof => some 2
  | .multianewarray => some 3
  | .invokeinterface | .invokedynamic | .gotoW | .jsrW => some 4
  | .tableswitch | .lookupswitch | .wide | .invalid => none

/-- the index the `*load_<n>` / `*store_<n>` arms take from the opcode -/
def kindLocal : OpKind → Option Nat
  | .loadN _ i | .storeN _ i => some i
  | _ => none

/-- the opcode / kind an instruction value carries: (0, op) simple, (1, k) load, (2, k) store, (3, op) branch, (4, op) field -/
def insnCarrier : Insn → Nat × Nat
  | .simple op => (0, op)
  | .load k _ => (1, k)
  | .store k _ => (2, k)
  | .branch op _ => (3, op)
  | .field op _ => (4, op)
  | _ => (5, 0)

def kindCarrier (k : OpKind) (op : Nat) : Nat × Nat :=
  match k with
  | .simple => (0, op)
  | .load j | .loadN j _ => (1, j)
  | .store j | .storeN j _ => (2, j)
  | .cond => (3, op)
  | .field => (4, op)
  | _ => (5, 0)

def carrierOk : Nat × Nat → Bool
  | (0, op) => isSimpleOp op
  | (1, k) => decide (k < 5)
  | (2, k) => decide (k < 5)
  | (3, op) => isCondBranchOp op
  | (4, op) => decide (0xb2 ≤ op ∧ op ≤ 0xb5)
  | _ => true

theorem rdDomain_of_carrier (i : Insn) (h : carrierOk (insnCarrier i) = true) : RdDomain i := by
  cases i <;> simp_all [RdDomain, insnCarrier, carrierOk]

theorem decodeInsn_invalid (p : Pool) (bsms : Option (List Bsm)) (l : Labels) (pc op : Nat) (rest : Bytes)
    (hk : opKind op = .invalid) : decodeInsn p bsms l (pc, op :: rest) = err := by
  simp only [decodeInsn, cU8_cons, ok_bind, hk]

theorem decodeInsn_kind (p : Pool) (bsms : Option (List Bsm)) (l : Labels) (pc op : Nat) (rest : Bytes) (i : Insn) (c' : Cur)
    (hw : opKind op ≠ .wide) (h : decodeInsn p bsms l (pc, op :: rest) = ok (i, c')) :
    insnMnemonic i = kindMnemonic (opKind op) op ∧ (∀ n, kindBytes (opKind op) = some n → c'.1 = pc + 1 + n) ∧
      (∀ j, kindLocal (opKind op) = some j → insnLocal? i = some j) ∧ insnCarrier i = kindCarrier (opKind op) op := by
  simp only [decodeInsn, cU8_cons, ok_bind] at h
  cases hk : opKind op <;> rw [hk] at h <;>
    simp only [bind_eq_ok, Prod.exists, pure_eq, ok.injEq, Prod.mk.injEq, reduceCtorEq] at h
  case simple => obtain ⟨rfl, rfl⟩ := h; exact ⟨rfl, by intro n hn; cases hn; rfl, (by intro j hj; cases hj), rfl⟩
  case bipush =>
    obtain ⟨_, _, _, h1, rfl, rfl⟩ := h
    exact ⟨rfl, by intro n hn; cases hn; exact cI8_adv _ _ _ h1, (by intro j hj; cases hj), rfl⟩
  case sipush =>
    obtain ⟨_, _, _, h1, rfl, rfl⟩ := h
    exact ⟨rfl, by intro n hn; cases hn; exact cI16_adv _ _ _ h1, (by intro j hj; cases hj), rfl⟩
  case ldc =>
    obtain ⟨_, _, _, h1, _, _, rfl, rfl⟩ := h
    exact ⟨rfl, by intro n hn; cases hn; exact cU8_adv _ _ _ h1, (by intro j hj; cases hj), rfl⟩
  case ldcW =>
    obtain ⟨_, _, _, h1, _, _, rfl, rfl⟩ := h
    exact ⟨rfl, by intro n hn; cases hn; exact cU16_adv _ _ _ h1, (by intro j hj; cases hj), rfl⟩
  case load k =>
    obtain ⟨_, _, _, h1, rfl, rfl⟩ := h
    exact ⟨rfl, by intro n hn; cases hn; exact cU8_adv _ _ _ h1, (by intro j hj; cases hj), rfl⟩
  case loadN k j0 => obtain ⟨rfl, rfl⟩ := h; exact ⟨rfl, by intro n hn; cases hn; rfl, (by intro j hj; cases hj; rfl), rfl⟩
  case store k =>
    obtain ⟨_, _, _, h1, rfl, rfl⟩ := h
    exact ⟨rfl, by intro n hn; cases hn; exact cU8_adv _ _ _ h1, (by intro j hj; cases hj), rfl⟩
  case storeN k j0 => obtain ⟨rfl, rfl⟩ := h; exact ⟨rfl, by intro n hn; cases hn; rfl, (by intro j hj; cases hj; rfl), rfl⟩
  case iinc =>
    obtain ⟨_, _, _, h1, _, _, _, h2, rfl, rfl⟩ := h
    refine ⟨rfl, ?_, (by intro j hj; cases hj), rfl⟩
    intro n hn; cases hn
    have e1 := cU8_adv _ _ _ h1; have e2 := cI8_adv _ _ _ h2
    simp only at e1 e2 ⊢; omega
  case cond =>
    obtain ⟨_, _, _, h1, _, _, rfl, rfl⟩ := h
    exact ⟨rfl, by intro n hn; cases hn; exact cBranch16_adv _ _ _ _ h1, (by intro j hj; cases hj), rfl⟩
  case goto =>
    obtain ⟨_, _, _, h1, _, _, rfl, rfl⟩ := h
    exact ⟨rfl, by intro n hn; cases hn; exact cBranch16_adv _ _ _ _ h1, (by intro j hj; cases hj), rfl⟩
  case jsr =>
    obtain ⟨_, _, _, h1, _, _, rfl, rfl⟩ := h
    exact ⟨rfl, by intro n hn; cases hn; exact cBranch16_adv _ _ _ _ h1, (by intro j hj; cases hj), rfl⟩
  case ret =>
    obtain ⟨_, _, _, h1, rfl, rfl⟩ := h
    exact ⟨rfl, by intro n hn; cases hn; exact cU8_adv _ _ _ h1, (by intro j hj; cases hj), rfl⟩
  case tableswitch =>
    obtain ⟨_, _, _, _, _, _, _, _, _, _, _, _, _, _, _, _, _, _, _, _, _, _, _, rfl, rfl⟩ := h
    exact ⟨rfl, (by intro n hn; cases hn), (by intro j hj; cases hj), rfl⟩
  case lookupswitch =>
    obtain ⟨_, _, _, _, _, _, _, _, _, _, _, _, _, h⟩ := h
    split at h
    · exact absurd h (by simp)
    · simp only [bind_eq_ok, Prod.exists, ok.injEq, Prod.mk.injEq] at h
      obtain ⟨_, _, _, _, rfl, rfl⟩ := h
      exact ⟨rfl, (by intro n hn; cases hn), (by intro j hj; cases hj), rfl⟩
  case field =>
    obtain ⟨_, _, _, h1, _, _, rfl, rfl⟩ := h
    exact ⟨rfl, by intro n hn; cases hn; exact cU16_adv _ _ _ h1, (by intro j hj; cases hj), rfl⟩
  case invokevirtual =>
    obtain ⟨_, _, _, h1, _, _, rfl, rfl⟩ := h
    exact ⟨rfl, by intro n hn; cases hn; exact cU16_adv _ _ _ h1, (by intro j hj; cases hj), rfl⟩
  case invokespecial =>
    obtain ⟨_, _, _, h1, _, _, _, rfl, rfl⟩ := h
    exact ⟨rfl, by intro n hn; cases hn; exact cU16_adv _ _ _ h1, (by intro j hj; cases hj), rfl⟩
  case invokestatic =>
    obtain ⟨_, _, _, h1, _, _, _, rfl, rfl⟩ := h
    exact ⟨rfl, by intro n hn; cases hn; exact cU16_adv _ _ _ h1, (by intro j hj; cases hj), rfl⟩
  case invokeinterface =>
    obtain ⟨_, _, _, h1, _, _, _, _, _, h2, _, _, _, h3, rfl, rfl⟩ := h
    refine ⟨rfl, ?_, (by intro j hj; cases hj), rfl⟩
    intro n hn; cases hn
    have e1 := cU16_adv _ _ _ h1; have e2 := cU8_adv _ _ _ h2; have e3 := cU8_adv _ _ _ h3
    simp only at e1 e2 e3 ⊢; omega
  case invokedynamic =>
    obtain ⟨_, _, _, h1, _, _, _, _, _, h2, _, _, _, h3, rfl, rfl⟩ := h
    refine ⟨rfl, ?_, (by intro j hj; cases hj), rfl⟩
    intro n hn; cases hn
    have e1 := cU16_adv _ _ _ h1; have e2 := cU8_adv _ _ _ h2; have e3 := cU8_adv _ _ _ h3
    simp only at e1 e2 e3 ⊢; omega
  case new =>
    obtain ⟨_, _, _, h1, _, _, rfl, rfl⟩ := h
    exact ⟨rfl, by intro n hn; cases hn; exact cU16_adv _ _ _ h1, (by intro j hj; cases hj), rfl⟩
  case newarray =>
    obtain ⟨_, _, _, h1, h⟩ := h
    split at h
    · simp only [ok.injEq, Prod.mk.injEq] at h
      obtain ⟨rfl, rfl⟩ := h
      exact ⟨rfl, by intro n hn; cases hn; exact cU8_adv _ _ _ h1, (by intro j hj; cases hj), rfl⟩
    · exact absurd h (by simp)
  case anewarray =>
    obtain ⟨_, _, _, h1, _, _, rfl, rfl⟩ := h
    exact ⟨rfl, by intro n hn; cases hn; exact cU16_adv _ _ _ h1, (by intro j hj; cases hj), rfl⟩
  case checkcast =>
    obtain ⟨_, _, _, h1, _, _, rfl, rfl⟩ := h
    exact ⟨rfl, by intro n hn; cases hn; exact cU16_adv _ _ _ h1, (by intro j hj; cases hj), rfl⟩
  case instanceof =>
    obtain ⟨_, _, _, h1, _, _, rfl, rfl⟩ := h
    exact ⟨rfl, by intro n hn; cases hn; exact cU16_adv _ _ _ h1, (by intro j hj; cases hj), rfl⟩
  case wide => exact absurd hk hw
  case multianewarray =>
    obtain ⟨_, _, _, h1, _, _, _, _, _, h2, rfl, rfl⟩ := h
    refine ⟨rfl, ?_, (by intro j hj; cases hj), rfl⟩
    intro n hn; cases hn
    have e1 := cU16_adv _ _ _ h1; have e2 := cU8_adv _ _ _ h2
    simp only at e1 e2 ⊢; omega
  case gotoW =>
    obtain ⟨_, _, _, h1, _, _, rfl, rfl⟩ := h
    exact ⟨rfl, by intro n hn; cases hn; exact cBranch32_adv _ _ _ _ h1, (by intro j hj; cases hj), rfl⟩
  case jsrW =>
    obtain ⟨_, _, _, h1, _, _, rfl, rfl⟩ := h
    exact ⟨rfl, by intro n hn; cases hn; exact cBranch32_adv _ _ _ _ h1, (by intro j hj; cases hj), rfl⟩

/-! ## the `wide` sub-dispatches -/

/-- the `wide` arm of the model's second loop as a table: (mnemonic, bytes after the modified opcode) -/
def wideModel (w : Nat) : Option (JStr × Nat) :=
  if 0x15 ≤ w && w ≤ 0x19 then some ((mnemonic? (0x15 + (w - 0x15))).getD [], 2)
  else if 0x36 ≤ w && w ≤ 0x3a then some ((mnemonic? (0x36 + (w - 0x36))).getD [], 2)
  else if w == 0xa9 then some (jstr "ret", 2)
  else if w == 0x84 then some (jstr "iinc", 4)
  else none

theorem decodeWide_kind (pc w : Nat) (rest : Bytes) (i : Insn) (c' : Cur) (h : decodeWide (pc, w :: rest) = ok (i, c')) :
    ∃ n, wideModel w = some (insnMnemonic i, n) ∧ c'.1 = pc + 1 + n ∧ RdDomain i := by
  simp only [decodeWide, cU8_cons, ok_bind] at h
  unfold wideModel
  split at h
  · rename_i hc; rw [if_pos hc]
    simp only [bind_eq_ok, Prod.exists, pure_eq, ok.injEq, Prod.mk.injEq] at h
    obtain ⟨_, _, _, h1, rfl, rfl⟩ := h
    refine ⟨2, rfl, cU16_adv _ _ _ h1, ?_⟩
    simp only [Bool.and_eq_true, decide_eq_true_eq] at hc
    show w - 0x15 < 5
    omega
  · rename_i hc; rw [if_neg hc]
    split at h
    · rename_i hc2; rw [if_pos hc2]
      simp only [bind_eq_ok, Prod.exists, pure_eq, ok.injEq, Prod.mk.injEq] at h
      obtain ⟨_, _, _, h1, rfl, rfl⟩ := h
      refine ⟨2, rfl, cU16_adv _ _ _ h1, ?_⟩
      simp only [Bool.and_eq_true, decide_eq_true_eq] at hc2
      show w - 0x36 < 5
      omega
    · rename_i hc2; rw [if_neg hc2]
      split at h
      · rename_i hc3; rw [if_pos hc3]
        simp only [bind_eq_ok, Prod.exists, pure_eq, ok.injEq, Prod.mk.injEq] at h
        obtain ⟨_, _, _, h1, rfl, rfl⟩ := h
        exact ⟨2, rfl, cU16_adv _ _ _ h1, trivial⟩
      · rename_i hc3; rw [if_neg hc3]
        split at h
        · rename_i hc4; rw [if_pos hc4]
          simp only [bind_eq_ok, Prod.exists, pure_eq, ok.injEq, Prod.mk.injEq] at h
          obtain ⟨_, _, _, h1, _, _, _, h2, rfl, rfl⟩ := h
          refine ⟨4, rfl, ?_, trivial⟩
          have e1 := cU16_adv _ _ _ h1; have e2 := cI16_adv _ _ _ h2
          simp only at e1 e2 ⊢; omega
        · exact absurd h (by simp)

theorem decodeWide_none (pc w : Nat) (rest : Bytes) (h : wideModel w = none) : decodeWide (pc, w :: rest) = err := by
  simp only [decodeWide, cU8_cons, ok_bind]
  unfold wideModel at h
  split at h; · cases h
  split at h; · cases h
  split at h; · cases h
  split at h; · cases h
  rename_i h1 h2 h3 h4
  simp only [h1, h2, h3, h4, Bool.false_eq_true, ↓reduceIte]

/-- the `wide` arm of the model's first loop as a table: bytes skipped after the modified opcode -/
def wideSkipModel (w : Nat) : Option Nat :=
  if (0x15 ≤ w && w ≤ 0x19) || (0x36 ≤ w && w ≤ 0x3a) || w == 0xa9 then some 2
  else if w == 0x84 then some 4
  else none

theorem pass1Step_wide (l : Labels) (pc w : Nat) (rest : Bytes) :
    pass1Step l (pc, 0xc4 :: w :: rest) =
      match wideSkipModel w with
      | some n => (do let c ← cSkip n (pc + 2, rest); pure (l, c))
      | none => err := by
  have hk : p1Kind 0xc4 = .wide := by decide
  simp only [pass1Step, cU8_cons, ok_bind, hk]
  unfold wideSkipModel
  split
  · rfl
  · split <;> rfl

end Arms
