import FeatherModel.Lemmas.CodeLayout

/-!
# The successful attempt of `write_code`, end to end
-/

namespace CodeWrite
open CodeDecode CodeDenote

/-- a successful `write` ends with an attempt whose pass and patch loop both complete -/
theorem write_ok_attempt (is : List Insn) : ∀ (fuel : Nat) (wide : List Nat) (res : Result),
    write is fuel wide = .ok res →
    ∃ (wide' : List Nat) (s : St) (w' : Array Nat), pass wide' is St.init = .ok s ∧
      resolve (labelPos s.pos s.w.size) s.unw.toList s.w = .done w' ∧ w'.size ≠ 0 ∧ w'.size ≤ 65535 ∧
      res = ⟨w'.toList, s.pos, wide'⟩ := by
  intro fuel
  induction fuel with
  | zero => intro wide res h; simp [write] at h
  | succ fuel ih =>
    intro wide res h
    simp only [write] at h
    cases hs : pass wide is St.init with
    | error e => rw [hs] at h; cases e <;> simp at h
    | ok s =>
      rw [hs] at h
      simp only [] at h
      cases hres : resolve (labelPos s.pos s.w.size) s.unw.toList s.w with
      | fail => rw [hres] at h; simp at h
      | retry idx => rw [hres] at h; exact ih _ _ h
      | done w =>
        rw [hres] at h
        simp only [] at h
        split at h
        · cases h
        · rename_i hsz
          cases h
          exact ⟨wide, s, w, hs, hres, by omega, by omega, rfl⟩

/-- every instruction position recorded by an attempt is a `u16` -/
theorem chunks_pos_le {wide : List Nat} {pos : Array Nat} {k p : Nat} {is : List Insn}
    {cs : List (Bytes × List Unwritten)} (hc : Chunks wide pos k p is cs) :
    ∀ j x, k ≤ j → j < k + is.length → pos[j]? = some x → x ≤ 65535 := by
  induction hc with
  | nil k p => intro j x h1 h2; simp at h2; omega
  | @cons k p i is r cs hp hk _ _ ih =>
    intro j x h1 h2 hj
    by_cases hjk : j = k
    · subst hjk; rw [hk] at hj; cases hj; exact hp
    · exact ih j x (by omega) (by simp at h2; omega) hj

theorem labelPos_sub (pos : Array Nat) (len t x : Nat) (h : pos[t]? = some x) : labelPos pos len t = some x := by
  simp [labelPos, h]

theorem labelPos_last (pos : Array Nat) (len : Nat) : labelPos pos len pos.size = some (len % 65536) := by
  simp [labelPos]

/-- **main lemma**: the code array of a successful `write_code`, decoded front to back by the independent decoder,
denotes the instruction list: instruction `k` sits at `pos[k]`, every jump and switch arm lands on the position of
its label, long forms (`goto_w`, `jsr_w`, inverted-condition trampoline) included -/
theorem writeCode_denotes (is : List Insn) (hwt : ∀ i ∈ is, wt i = true) (res : Result)
    (h : writeCode is = .ok res) :
    ∃ ds, decode res.code = some ds ∧ matchAll res.label (fun k => res.pos[k]?) 0 is ds = true := by
  obtain ⟨wide', s, w', hs, hres, _, hle, rfl⟩ := write_ok_attempt is _ _ res h
  obtain ⟨cs, hc, hw, hu, hsz, _⟩ := pass_chunks wide' is St.init s hs
  simp only [St.init, List.size_toArray, List.length_nil, Nat.zero_add, Array.toList_empty, List.nil_append,
    List.toList_toArray] at hc hw hu hsz
  have hd := resolve_done _ _ _ _ hres
  rw [hu, hw] at hd
  have hlen : w'.toList.length = s.w.toList.length := by
    rw [hw]; exact resolveAt_length _ _ _ _ _ hd
  have hsize : w'.size = s.w.size := by simpa using hlen
  have hsub : ∀ t x, s.pos[t]? = some x → labelPos s.pos s.w.size t = some x := fun t x => labelPos_sub _ _ _ _
  have hbound : ∀ t x, labelPos s.pos s.w.size t = some x → x ≤ 65535 := by
    intro t x ht
    unfold labelPos at ht
    split at ht
    · rename_i p hp
      cases ht
      have hlt : t < s.pos.size := by
        have := Array.getElem?_eq_some_iff.mp hp
        exact this.1
      exact chunks_pos_le hc t _ (Nat.zero_le _) (by omega) hp
    · split at ht
      · cases ht; omega
      · cases ht
  obtain ⟨fins, hcf, hl⟩ := chunks_layout hsub hbound hc hwt [] w'.toList rfl (by simpa using hle)
    (by simpa using hd)
  simp only [List.nil_append] at hcf
  obtain ⟨ds, hds, hm⟩ := layout_decode hl fins.flatten.length (Nat.le_refl _)
  refine ⟨ds, ?_, ?_⟩
  · simp only [decode, hcf]
    exact hds
  · have : (Result.label ⟨w'.toList, s.pos, wide'⟩) = labelPos s.pos s.w.size := by
      funext t
      simp only [Result.label, Array.length_toList, hsize]
    rw [this]
    exact hm

/-- random access into a layout: instruction number `k + j` with its address and final bytes -/
theorem layout_nth {lp pos : Nat → Option Nat} {k p : Nat} {is : List Insn} {fins : List Bytes}
    (hl : Layout lp pos k p is fins) :
    ∀ (j : Nat) (i : Insn), is[j]? = some i → ∃ p' fin rest, pos (k + j) = some p' ∧ Decoded lp p' i fin ∧
      ∀ X : Bytes, X.length = p → (X ++ fins.flatten).drop p' = fin ++ rest := by
  induction hl with
  | nil k p => intro j i h; simp at h
  | @cons k p i0 is fin fins hk hd _ ih =>
    intro j i h
    cases j with
    | zero =>
      simp only [List.getElem?_cons_zero, Option.some.injEq] at h
      subst h
      refine ⟨p, fin, fins.flatten, by simpa using hk, hd, fun X hx => ?_⟩
      rw [← hx, List.flatten_cons, List.drop_left]
    | succ j =>
      simp only [List.getElem?_cons_succ] at h
      obtain ⟨p', fin', rest, h1, h2, h3⟩ := ih j i h
      refine ⟨p', fin', rest, by rw [← h1]; congr 1; omega, h2, fun X hx => ?_⟩
      have := h3 (X ++ fin) (by simp [hx])
      rw [List.flatten_cons, ← List.append_assoc]
      exact this

/-- **random access form of the main lemma**: instruction `k` sits at `pos[k]`, and what is written there decodes
to it (or to its trampoline) -/
theorem writeCode_insn_at (is : List Insn) (hwt : ∀ i ∈ is, wt i = true) (res : Result)
    (h : writeCode is = .ok res) (k : Nat) (i : Insn) (hk : is[k]? = some i) :
    ∃ pc fin rest, res.pos[k]? = some pc ∧ Decoded res.label pc i fin ∧ res.code.drop pc = fin ++ rest := by
  obtain ⟨wide', s, w', hs, hres, _, hle, rfl⟩ := write_ok_attempt is _ _ res h
  obtain ⟨cs, hc, hw, hu, hsz, _⟩ := pass_chunks wide' is St.init s hs
  simp only [St.init, List.size_toArray, List.length_nil, Nat.zero_add, List.nil_append,
    List.toList_toArray] at hc hw hu hsz
  have hd := resolve_done _ _ _ _ hres
  rw [hu, hw] at hd
  have hlen : w'.toList.length = s.w.toList.length := by
    rw [hw]; exact resolveAt_length _ _ _ _ _ hd
  have hsize : w'.size = s.w.size := by simpa using hlen
  have hsub : ∀ t x, s.pos[t]? = some x → labelPos s.pos s.w.size t = some x := fun t x => labelPos_sub _ _ _ _
  have hbound : ∀ t x, labelPos s.pos s.w.size t = some x → x ≤ 65535 := by
    intro t x ht
    unfold labelPos at ht
    split at ht
    · rename_i p hp
      cases ht
      have hlt : t < s.pos.size := (Array.getElem?_eq_some_iff.mp hp).1
      exact chunks_pos_le hc t _ (Nat.zero_le _) (by omega) hp
    · split at ht
      · cases ht; omega
      · cases ht
  obtain ⟨fins, hcf, hl⟩ := chunks_layout hsub hbound hc hwt [] w'.toList rfl (by simpa using hle)
    (by simpa using hd)
  obtain ⟨p', fin, rest, h1, h2, h3⟩ := layout_nth hl k i hk
  have hlab : (Result.label ⟨w'.toList, s.pos, wide'⟩) = labelPos s.pos s.w.size := by
    funext t
    simp only [Result.label, Array.length_toList, hsize]
  refine ⟨p', fin, rest, by simpa using h1, by rw [hlab]; exact h2, ?_⟩
  have := h3 [] rfl
  rw [← hcf] at this
  exact this

/-- the position table of a successful result has one entry per instruction -/
theorem writeCode_pos_size (is : List Insn) (res : Result) (h : writeCode is = .ok res) :
    res.pos.size = is.length := by
  obtain ⟨wide', s, w', hs, _, _, _, rfl⟩ := write_ok_attempt is _ _ res h
  have := (pass_inv wide' is St.init s hs (by intro u hu; simp [St.init] at hu)).1
  simpa [St.init] using this

theorem writeCode_code_length (is : List Insn) (res : Result) (h : writeCode is = .ok res) :
    1 ≤ res.code.length ∧ res.code.length ≤ 65535 := by
  obtain ⟨wide', s, w', _, _, h0, hle, rfl⟩ := write_ok_attempt is _ _ res h
  simp only [Array.length_toList]
  omega

/-- where the next instruction starts: right behind the final bytes of this one (or the code ends there) -/
theorem layout_next {lp pos : Nat → Option Nat} {k p : Nat} {is : List Insn} {fins : List Bytes}
    (hl : Layout lp pos k p is fins) :
    ∀ (j : Nat) (i : Insn), is[j]? = some i → ∃ p' fin, pos (k + j) = some p' ∧
      (∀ X : Bytes, X.length = p → ∃ rest, (X ++ fins.flatten).drop p' = fin ++ rest) ∧ 1 ≤ fin.length ∧
      (if j + 1 < is.length then pos (k + j + 1) = some (p' + fin.length)
       else ∀ X : Bytes, X.length = p → (X ++ fins.flatten).length = p' + fin.length) := by
  induction hl with
  | nil k p => intro j i h; simp at h
  | @cons k p i0 is fin fins hk hd hrest ih =>
    intro j i h
    cases j with
    | zero =>
      have hlen : 1 ≤ fin.length := by
        cases hd with
        | single d hl _ _ => exact hl
        | tramp c t g _ hl _ _ _ => omega
      refine ⟨p, fin, by simpa using hk, fun X hx => ⟨fins.flatten, by rw [← hx, List.flatten_cons, List.drop_left]⟩,
        hlen, ?_⟩
      cases hrest with
      | nil k' p' => simp only [List.length_cons, List.length_nil]; intro X hx; simp [hx]
      | @cons _ _ i1 is' fin' fins' hk' _ _ =>
        have : 0 + 1 < (i0 :: i1 :: is').length := by simp
        simp only [this, if_true]
        simpa using hk'
    | succ j =>
      simp only [List.getElem?_cons_succ] at h
      obtain ⟨p', fin', h1, h2, h3, h4⟩ := ih j i h
      have e1 : k + (j + 1) = k + 1 + j := by omega
      refine ⟨p', fin', by rw [e1]; exact h1, fun X hx => ?_, h3, ?_⟩
      · obtain ⟨rest, hr⟩ := h2 (X ++ fin) (by simp [hx])
        exact ⟨rest, by rw [List.flatten_cons, ← List.append_assoc]; exact hr⟩
      · by_cases hlt : j + 1 < is.length
        · have hlt' : j + 1 + 1 < (i0 :: is).length := by simp; omega
          simp only [hlt, if_true] at h4
          simp only [hlt', if_true]
          have e3 : k + (j + 1) + 1 = k + 1 + j + 1 := by omega
          rw [e3]; exact h4
        · have hlt' : ¬ j + 1 + 1 < (i0 :: is).length := by simp; omega
          simp only [hlt, if_false] at h4
          simp only [hlt', if_false]
          intro X hx
          have := h4 (X ++ fin) (by simp [hx])
          rw [List.flatten_cons, ← List.append_assoc]
          exact this

/-- **positions**: the label after instruction `k` (the next instruction, or the end of the code) is the position
of `k` plus the number of bytes written for `k` -/
theorem writeCode_positions (is : List Insn) (hwt : ∀ i ∈ is, wt i = true) (res : Result)
    (h : writeCode is = .ok res) (k : Nat) (i : Insn) (hk : is[k]? = some i) :
    ∃ pc fin rest, res.pos[k]? = some pc ∧ res.code.drop pc = fin ++ rest ∧ 1 ≤ fin.length ∧
      res.label (k + 1) = some (pc + fin.length) := by
  have hposz := writeCode_pos_size is res h
  have hcl := writeCode_code_length is res h
  obtain ⟨wide', s, w', hs, hres, _, hle, rfl⟩ := write_ok_attempt is _ _ res h
  obtain ⟨cs, hc, hw, hu, hsz, _⟩ := pass_chunks wide' is St.init s hs
  simp only [St.init, List.size_toArray, List.length_nil, Nat.zero_add, List.nil_append,
    List.toList_toArray] at hc hw hu hsz
  have hd := resolve_done _ _ _ _ hres
  rw [hu, hw] at hd
  have hlen : w'.toList.length = s.w.toList.length := by
    rw [hw]; exact resolveAt_length _ _ _ _ _ hd
  have hsub : ∀ t x, s.pos[t]? = some x → labelPos s.pos s.w.size t = some x := fun t x => labelPos_sub _ _ _ _
  have hbound : ∀ t x, labelPos s.pos s.w.size t = some x → x ≤ 65535 := by
    intro t x ht
    unfold labelPos at ht
    split at ht
    · rename_i p hp
      cases ht
      have hlt : t < s.pos.size := (Array.getElem?_eq_some_iff.mp hp).1
      exact chunks_pos_le hc t _ (Nat.zero_le _) (by omega) hp
    · split at ht
      · cases ht; omega
      · cases ht
  obtain ⟨fins, hcf, hl⟩ := chunks_layout hsub hbound hc hwt [] w'.toList rfl (by simpa using hle)
    (by simpa using hd)
  obtain ⟨p', fin, h1, h2, h3, h4⟩ := layout_next hl k i hk
  obtain ⟨rest, hr⟩ := h2 [] rfl
  rw [← hcf] at hr
  refine ⟨p', fin, rest, by simpa using h1, hr, h3, ?_⟩
  simp only [Result.label, labelPos]
  simp only at hposz
  split at h4
  · rename_i hlt
    simp only [Nat.zero_add] at h4
    simp [h4]
  · rename_i hlt
    have hk' : k < is.length := by
      have := List.getElem?_eq_some_iff.mp hk
      exact this.1
    have hkk : k + 1 = is.length := by omega
    have hnone : s.pos[is.length]? = none := by apply Array.getElem?_eq_none; omega
    have := h4 [] rfl
    rw [← hcf] at this
    simp only [hkk, hnone, hposz, if_true]
    simp only [Array.length_toList] at this hcl ⊢
    congr 1
    omega

end CodeWrite
