import FeatherModel.Spec.DescGrammar
import FeatherModel.Lemmas.MapDesc

/-!
# The JVMS descriptor grammar as token lists; soundness of the driver-side recogniser
-/

namespace Spec.Desc
open MapDesc (Tok render)

def toksField : FieldTy → List Tok
  | .prim p => [.ch p.char]
  | .obj n => [.cls n]
  | .arr e => .ch LBRACK :: toksField e

def toksParams : List FieldTy → List Tok
  | [] => []
  | p :: ps => toksField p ++ toksParams ps

def toksReturn : Option FieldTy → List Tok
  | none => [.ch CH_V]
  | some t => toksField t

def toks : Desc → List Tok
  | .field t => toksField t
  | .method m => .ch LPAREN :: toksParams m.params ++ .ch RPAREN :: toksReturn m.ret
  | .ret r => toksReturn r

theorem prim_ne_L (p : Prim) : p.char ≠ MapDesc.CH_L := by cases p <;> decide

/-! ### rendering = printing -/

theorem render_toksField (t : FieldTy) : render (toksField t) = printField t := by
  induction t with
  | prim p => rfl
  | obj n => simp [toksField, render, Tok.render, printField]; exact ⟨rfl, rfl⟩
  | arr e ih => simp [toksField, render, Tok.render, printField, ih]

theorem render_toksParams (ps : List FieldTy) : render (toksParams ps) = printParams ps := by
  induction ps with
  | nil => rfl
  | cons p ps ih => simp [toksParams, printParams, MapDesc.render_append, render_toksField, ih]

theorem render_toksReturn (r : Option FieldTy) : render (toksReturn r) = printReturn r := by
  cases r with
  | none => rfl
  | some t => exact render_toksField t

theorem render_toks (d : Desc) : render (toks d) = print d := by
  cases d with
  | field t => exact render_toksField t
  | ret r => exact render_toksReturn r
  | method m =>
    simp only [toks, print, printMethod, render, Tok.render, MapDesc.render_append, render_toksParams,
      render_toksReturn]
    simp

/-! ### well-formedness -/

theorem wf_toksField (t : FieldTy) (h : t.WF) : ∀ k ∈ toksField t, k.WF := by
  induction t with
  | prim p => intro k hk; simp [toksField] at hk; subst hk; exact prim_ne_L p
  | obj n =>
    intro k hk; simp [toksField] at hk; subst hk
    exact h
  | arr e ih =>
    intro k hk
    simp only [toksField, List.mem_cons] at hk
    rcases hk with rfl | hk
    · show LBRACK ≠ MapDesc.CH_L; decide
    · exact ih h k hk

theorem wf_toksParams (ps : List FieldTy) (h : ∀ p ∈ ps, p.WF) : ∀ k ∈ toksParams ps, k.WF := by
  induction ps with
  | nil => intro k hk; simp [toksParams] at hk
  | cons p ps ih =>
    intro k hk
    simp only [toksParams, List.mem_append] at hk
    rcases hk with hk | hk
    · exact wf_toksField p (h p List.mem_cons_self) k hk
    · exact ih (fun q hq => h q (List.mem_cons_of_mem _ hq)) k hk

theorem wf_toksReturn (r : Option FieldTy) (h : ∀ t, r = some t → t.WF) : ∀ k ∈ toksReturn r, k.WF := by
  cases r with
  | none => intro k hk; simp [toksReturn] at hk; subst hk; show CH_V ≠ MapDesc.CH_L; decide
  | some t => exact wf_toksField t (h t rfl)

theorem wf_toks (d : Desc) (h : d.WF) : ∀ k ∈ toks d, k.WF := by
  cases d with
  | field t => exact wf_toksField t h
  | ret r => exact wf_toksReturn r h
  | method m =>
    intro k hk
    simp only [toks, List.mem_cons, List.mem_append] at hk
    rcases hk with (rfl | hk) | rfl | hk
    · show LPAREN ≠ MapDesc.CH_L; decide
    · exact wf_toksParams m.params h.1 k hk
    · show RPAREN ≠ MapDesc.CH_L; decide
    · exact wf_toksReturn m.ret h.2 k hk

/-! ### renaming commutes -/

theorem map_toksField (f : JStr → JStr) (t : FieldTy) : (toksField t).map (Tok.map f) = toksField (t.map f) := by
  induction t with
  | prim p => rfl
  | obj n => rfl
  | arr e ih => simp [toksField, FieldTy.map, Tok.map, ih]

theorem map_toksParams (f : JStr → JStr) (ps : List FieldTy) :
    (toksParams ps).map (Tok.map f) = toksParams (ps.map (FieldTy.map f)) := by
  induction ps with
  | nil => rfl
  | cons p ps ih => simp [toksParams, map_toksField, ih]

theorem map_toksReturn (f : JStr → JStr) (r : Option FieldTy) :
    (toksReturn r).map (Tok.map f) = toksReturn (r.map (FieldTy.map f)) := by
  cases r with
  | none => rfl
  | some t => exact map_toksField f t

theorem map_toks (f : JStr → JStr) (d : Desc) : (toks d).map (Tok.map f) = toks (d.map f) := by
  cases d with
  | field t => exact map_toksField f t
  | ret r => exact map_toksReturn f r
  | method m => simp [toks, Desc.map, MethodTy.map, Tok.map, map_toksParams, map_toksReturn]

/-- `mapDesc` on a grammatical descriptor -/
theorem mapDesc_print (f : JStr → JStr) (d : Desc) (h : d.WF) :
    MapDesc.mapDesc f (print d) = some (print (d.map f)) := by
  rw [← render_toks d, MapDesc.mapDesc_render f (toks d) (wf_toks d h), map_toks, render_toks]

/-! ### renaming: composition, identity on the names -/

theorem FieldTy.map_map (f g : JStr → JStr) (t : FieldTy) : (t.map f).map g = t.map (g ∘ f) := by
  induction t with
  | prim p => rfl
  | obj n => rfl
  | arr e ih => simp [FieldTy.map, ih]

theorem FieldTy.map_id_on (f : JStr → JStr) (t : FieldTy) (h : ∀ n ∈ t.names, f n = n) : t.map f = t := by
  induction t with
  | prim p => rfl
  | obj n => simp [FieldTy.map, h n (by simp [FieldTy.names])]
  | arr e ih => simp [FieldTy.map, ih (by simpa [FieldTy.names] using h)]

theorem mapList_id_on (f : JStr → JStr) (ps : List FieldTy) (h : ∀ n ∈ namesOfList ps, f n = n) :
    ps.map (FieldTy.map f) = ps := by
  induction ps with
  | nil => rfl
  | cons p ps ih =>
    simp only [namesOfList, List.mem_append] at h
    simp only [List.map_cons]
    rw [FieldTy.map_id_on f p (fun n hn => h n (Or.inl hn)), ih (fun n hn => h n (Or.inr hn))]

theorem mapOpt_id_on (f : JStr → JStr) (r : Option FieldTy) (h : ∀ n ∈ namesOfOpt r, f n = n) :
    r.map (FieldTy.map f) = r := by
  cases r with
  | none => rfl
  | some t => simp [FieldTy.map_id_on f t (by simpa [namesOfOpt] using h)]

theorem Desc.map_id_on (f : JStr → JStr) (d : Desc) (h : ∀ n ∈ d.names, f n = n) : d.map f = d := by
  cases d with
  | field t => simp [Desc.map, FieldTy.map_id_on f t (by simpa [Desc.names] using h)]
  | ret r => simp [Desc.map, mapOpt_id_on f r (by simpa [Desc.names] using h)]
  | method m =>
    simp only [Desc.names, List.mem_append] at h
    simp only [Desc.map, MethodTy.map]
    rw [mapList_id_on f m.params (fun n hn => h n (Or.inl hn)), mapOpt_id_on f m.ret (fun n hn => h n (Or.inr hn))]

theorem Desc.map_map (f g : JStr → JStr) (d : Desc) : (d.map f).map g = d.map (g ∘ f) := by
  cases d with
  | field t => simp [Desc.map, FieldTy.map_map]
  | ret r => cases r <;> simp [Desc.map, FieldTy.map_map]
  | method m =>
    simp only [Desc.map, MethodTy.map, List.map_map]
    congr 2
    · congr 1; funext t; exact FieldTy.map_map f g t
    · cases m.ret <;> simp [FieldTy.map_map]

/-- names of the renamed descriptor -/
theorem FieldTy.names_map (f : JStr → JStr) (t : FieldTy) : (t.map f).names = t.names.map f := by
  induction t with
  | prim p => rfl
  | obj n => rfl
  | arr e ih => simpa [FieldTy.map, FieldTy.names] using ih

theorem FieldTy.wf_iff (t : FieldTy) : t.WF ↔ ∀ n ∈ t.names, validName n := by
  induction t with
  | prim p => simp [FieldTy.WF, FieldTy.names]
  | obj n => simp [FieldTy.WF, FieldTy.names]
  | arr e ih => simpa [FieldTy.WF, FieldTy.names] using ih

theorem FieldTy.wf_map (f : JStr → JStr) (t : FieldTy) (h : ∀ n ∈ t.names, validName (f n)) : (t.map f).WF := by
  rw [FieldTy.wf_iff, FieldTy.names_map]
  intro n hn
  obtain ⟨a, ha, rfl⟩ := List.mem_map.mp hn
  exact h a ha

theorem names_mem_list {ps : List FieldTy} {q : FieldTy} {n : JStr} (hq : q ∈ ps) (hn : n ∈ q.names) :
    n ∈ namesOfList ps := by
  induction ps with
  | nil => simp at hq
  | cons a as ih =>
    simp only [namesOfList, List.mem_append]
    rcases List.mem_cons.mp hq with rfl | hq
    · exact Or.inl hn
    · exact Or.inr (ih hq)

theorem Desc.wf_map (f : JStr → JStr) (d : Desc) (h : ∀ n ∈ d.names, validName (f n)) : (d.map f).WF := by
  cases d with
  | field t => exact FieldTy.wf_map f t (by simpa [Desc.names] using h)
  | ret r =>
    intro t ht
    cases r with
    | none => simp at ht
    | some t0 =>
      simp only [Option.map_some, Option.some.injEq] at ht
      subst ht
      exact FieldTy.wf_map f t0 (by simpa [Desc.names, namesOfOpt] using h)
  | method m =>
    simp only [Desc.names, List.mem_append] at h
    constructor
    · intro p hp
      simp only [MethodTy.map, List.mem_map] at hp
      obtain ⟨q, hq, rfl⟩ := hp
      apply FieldTy.wf_map
      intro n hn
      exact h n (Or.inl (names_mem_list hq hn))
    · intro t ht
      cases hr : m.ret with
      | none => simp [MethodTy.map, hr] at ht
      | some t0 =>
        simp only [MethodTy.map, hr, Option.map_some, Option.some.injEq] at ht
        subst ht
        exact FieldTy.wf_map f t0 (fun n hn => h n (Or.inr (by simp [hr, namesOfOpt, hn])))

/-! ### recogniser soundness: what `parse?` accepts is in the grammar -/

theorem splitSemi_eq (s : List Nat) : splitSemi s = MapDesc.splitSemi s := by
  induction s with
  | nil => rfl
  | cons c rest ih => simp only [splitSemi, MapDesc.splitSemi, ih]; rfl

theorem primOfChar_some {c : Nat} {p : Prim} (h : primOfChar c = some p) : p.char = c := by
  unfold primOfChar at h
  repeat' split at h
  all_goals first | (simp only [Option.some.injEq] at h; subst h; simp [Prim.char, *]) | simp at h

theorem parseFieldPrefix_sound {s : List Nat} {t : FieldTy} {r : List Nat}
    (h : parseFieldPrefix s = some (t, r)) : s = printField t ++ r ∧ t.WF := by
  induction s generalizing t r with
  | nil => simp [parseFieldPrefix] at h
  | cons c rest ih =>
    simp only [parseFieldPrefix] at h
    split at h
    · rename_i hc
      split at h
      · rename_i t' r' hp
        simp only [Option.some.injEq, Prod.mk.injEq] at h
        obtain ⟨rfl, rfl⟩ := h
        obtain ⟨h1, h2⟩ := ih hp
        exact ⟨by simp [printField, hc, h1], h2⟩
      · simp at h
    · split at h
      · rename_i hc
        split at h
        · rename_i n r' hp
          split at h
          · simp at h
          · rename_i hne
            simp only [Option.some.injEq, Prod.mk.injEq] at h
            obtain ⟨rfl, rfl⟩ := h
            rw [splitSemi_eq] at hp
            obtain ⟨h1, h2⟩ := MapDesc.splitSemi_some hp
            refine ⟨?_, hne, h2⟩
            simp only [printField, hc, h1, List.cons_append, List.append_assoc]
            rfl
        · simp at h
      · split at h
        · rename_i p hp
          simp only [Option.some.injEq, Prod.mk.injEq] at h
          obtain ⟨rfl, rfl⟩ := h
          exact ⟨by simp [printField, primOfChar_some hp], trivial⟩
        · simp at h

theorem parseField?_sound {s : List Nat} {t : FieldTy} (h : parseField? s = some t) : s = printField t ∧ t.WF := by
  unfold parseField? at h
  split at h
  · rename_i t' hp
    simp only [Option.some.injEq] at h; subst h
    simpa using parseFieldPrefix_sound hp
  · simp at h

theorem parseReturn?_sound {s : List Nat} {r : Option FieldTy} (h : parseReturn? s = some r) :
    s = printReturn r ∧ ∀ t, r = some t → t.WF := by
  unfold parseReturn? at h
  split at h
  · rename_i hs
    simp only [Option.some.injEq] at h; subst h
    exact ⟨hs, by simp⟩
  · cases hp : parseField? s with
    | none => simp [hp] at h
    | some t =>
      simp only [hp, Option.map_some, Option.some.injEq] at h; subst h
      obtain ⟨h1, h2⟩ := parseField?_sound hp
      exact ⟨h1, by intro t' ht; simp only [Option.some.injEq] at ht; subst ht; exact h2⟩

theorem parseParams_sound : ∀ (fuel : Nat) (s : List Nat) (ps : List FieldTy) (r : List Nat),
    parseParams fuel s = some (ps, r) → s = printParams ps ++ RPAREN :: r ∧ ∀ p ∈ ps, p.WF := by
  intro fuel
  induction fuel with
  | zero => intro s ps r h; simp [parseParams] at h
  | succ fuel ih =>
    intro s ps r h
    cases s with
    | nil => simp [parseParams] at h
    | cons c rest =>
      simp only [parseParams] at h
      split at h
      · rename_i hc
        simp only [Option.some.injEq, Prod.mk.injEq] at h
        obtain ⟨rfl, rfl⟩ := h
        exact ⟨by simp [printParams, hc], by simp⟩
      · split at h
        · simp at h
        · rename_i t r1 hp
          split at h
          · simp at h
          · rename_i ts r2 hps
            simp only [Option.some.injEq, Prod.mk.injEq] at h
            obtain ⟨rfl, rfl⟩ := h
            obtain ⟨h1, h2⟩ := parseFieldPrefix_sound hp
            obtain ⟨h3, h4⟩ := ih r1 ts _ hps
            refine ⟨by rw [h1, h3]; simp [printParams], ?_⟩
            intro p hp'
            rcases List.mem_cons.mp hp' with rfl | hp'
            · exact h2
            · exact h4 p hp'

theorem parseMethod?_sound {s : List Nat} {m : MethodTy} (h : parseMethod? s = some m) :
    s = printMethod m ∧ m.WF := by
  unfold parseMethod? at h
  cases s with
  | nil => simp at h
  | cons c rest =>
    simp only at h
    split at h
    · rename_i hc
      split at h
      · simp at h
      · rename_i ps r hps
        split at h
        · simp at h
        · rename_i ret hret
          simp only [Option.some.injEq] at h; subst h
          obtain ⟨h1, h2⟩ := parseParams_sound _ _ _ _ hps
          obtain ⟨h3, h4⟩ := parseReturn?_sound hret
          exact ⟨by simp [printMethod, hc, h1, h3], h2, h4⟩
    · simp at h

/-- everything the recogniser accepts is a string of the grammar, and the tree it returns prints to it -/
theorem parse?_sound {s : List Nat} {d : Desc} (h : parse? s = some d) : s = print d ∧ d.WF := by
  unfold parse? at h
  split at h
  · rename_i m hm
    simp only [Option.some.injEq] at h; subst h
    exact parseMethod?_sound hm
  · split at h
    · rename_i hr
      simp only [Option.some.injEq] at h; subst h
      obtain ⟨h1, h2⟩ := parseReturn?_sound hr
      exact ⟨h1, h2⟩
    · rename_i t hr
      simp only [Option.some.injEq] at h; subst h
      obtain ⟨h1, h2⟩ := parseReturn?_sound hr
      exact ⟨h1, h2 t rfl⟩
    · simp at h

end Spec.Desc
