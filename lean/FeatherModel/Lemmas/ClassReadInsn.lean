import FeatherModel.Lemmas.ClassReadCursor
import FeatherModel.Lemmas.ClassReadOpKind

/-! C01 lemmas: the second pass decodes every legal encoding of every instruction, at any offset. -/

namespace ClassRead
open Outcome Spec

/-- the label id the table holds for instruction `t` -/
def labOf (l : Labels) (pos : Nat → Nat) (t : Nat) : Nat := (l.get (pos t)).getD 0

def Spec.SVType.raw (lf : Labels) (pos : Nat → Nat) : SVType → VType
  | .top => .top | .int => .int | .float => .float | .double => .double | .long => .long | .null => .null
  | .uninitThis => .uninitThis
  | .object _ c => .object c
  | .uninit t => .uninit (labOf lf pos t)

def Spec.SVType.refs (pos : Nat → Nat) : SVType → List Nat
  | .uninit t => [pos t]
  | _ => []

def Spec.SFrameKind.raw (lf : Labels) (pos : Nat → Nat) : SFrameKind → Frame
  | .same => .same
  | .same1 v => .same1 (v.raw lf pos)
  | .chop k => .chop k
  | .append vs => .append (vs.map (SVType.raw lf pos))
  | .full ls ss => .full (ls.map (SVType.raw lf pos)) (ss.map (SVType.raw lf pos))

def Spec.SFrameKind.refs (pos : Nat → Nat) : SFrameKind → List Nat
  | .same1 v => v.refs pos
  | .append vs => vs.flatMap (SVType.refs pos)
  | .full ls ss => ls.flatMap (SVType.refs pos) ++ ss.flatMap (SVType.refs pos)
  | _ => []

/-- the frames as the reader holds them: (label of the instruction, frame with label ids) -/
def framesRaw (lf : Labels) (pos : Nat → Nat) (fs : List SFrame) : List (Nat × Frame) :=
  fs.map (fun f => (labOf lf pos f.at_, f.kind.raw lf pos))

theorem tryGet_labOf (l : Labels) (pos : Nat → Nat) (t : Nat) (h : (l.get (pos t)).isSome = true) :
    l.tryGet (pos t) = ok (labOf l pos t) := by
  unfold Labels.tryGet labOf
  cases hg : l.get (pos t) with
  | none => simp [hg] at h
  | some id => simp

theorem pass2Table_enc (l : Labels) (pos : Nat → Nat) (a c : Nat) (ha : a ≤ 65535) (tbl : List Nat)
    (ht : ∀ t ∈ tbl, pos t ≤ 65535 ∧ (l.get (pos t)).isSome = true) (r : Bytes) :
    pass2Table l a tbl.length (c, tbl.flatMap (fun t => be32 (ofI32 (relOff pos a t))) ++ r)
      = ok (tbl.map (labOf l pos), (c + 4 * tbl.length, r)) := by
  induction tbl generalizing c with
  | nil => simp [pass2Table]
  | cons t ts ih =>
    have h1 := ht t (by simp)
    have ih' := ih (c + 4) (fun x hx => ht x (by simp [hx]))
    simp only [List.flatMap_cons, List.append_assoc, List.length_cons, pass2Table,
      cBranch32_rel pos a c t ha h1.1, ok_bind, tryGet_labOf l pos t h1.2, ih', pure_eq, List.map_cons]
    congr 3; omega

theorem pass2Pairs_enc (l : Labels) (pos : Nat → Nat) (a c : Nat) (ha : a ≤ 65535) (pairs : List (Int × Nat))
    (ht : ∀ kt ∈ pairs, pos kt.2 ≤ 65535 ∧ (l.get (pos kt.2)).isSome = true ∧ inI32 kt.1) (r : Bytes) :
    pass2Pairs l a pairs.length
        (c, pairs.flatMap (fun kt => be32 (ofI32 kt.1) ++ be32 (ofI32 (relOff pos a kt.2))) ++ r)
      = ok (pairs.map (fun kt => (kt.1, labOf l pos kt.2)), (c + 8 * pairs.length, r)) := by
  induction pairs generalizing c with
  | nil => simp [pass2Pairs]
  | cons kt ts ih =>
    have h1 := ht kt (by simp)
    have ih' := ih (c + 4 + 4) (fun x hx => ht x (by simp [hx]))
    simp only [List.flatMap_cons, List.append_assoc, List.length_cons, pass2Pairs,
      cI32_of c kt.1 h1.2.2, cBranch32_rel pos a (c + 4) kt.2 ha h1.1, ok_bind, tryGet_labOf l pos kt.2 h1.2.1, ih',
      pure_eq, List.map_cons]
    congr 3; omega

theorem tableCount_ok (lo hi : Int) (n : Nat) (h1 : lo ≤ hi) (h2 : (n : Int) = hi - lo + 1) (h3 : inI32 lo) (h4 : inI32 hi)
    (hn : n < 2147483647) : tableCount lo hi = ok n := by
  unfold tableCount
  have a : ¬ lo > hi := by omega
  have b : ¬ hi - lo > 2147483646 := by omega
  simp only [a, b, if_false]
  congr 1; omega

end ClassRead
