import FeatherModel.Lemmas.EnigmaWrite

/-!
# C12: write, then read — the stream form and the directory form
-/

namespace Enigma

/-- the classes of the trees of a list of `file_map` entries, in the order in which the reader adds them (per tree in
post-order: nested classes before the class that contains them), each in canonical form -/
def postOf (m : Mappings) (fm : List (JStr × (JStr × Class))) : AList JStr Class :=
  (fm.flatMap fun x => postRaw m.classes (treeFuel m.classes) x.2.1 x.2.2).map canonE

theorem canonClasses_eq (cs : AList JStr Class) : canonClasses cs = cs.map canonE := rfl

theorem postOf_eq (m : Mappings) (fm : List (JStr × (JStr × Class))) :
    postOf m fm = ((fm.map Prod.snd).flatMap fun e => postRaw m.classes (treeFuel m.classes) e.1 e.2).map canonE := by
  rw [postOf, List.flatMap_map]

/-- whatever the order of the files, the classes read back are the classes of the set (in canonical form) -/
theorem postOf_perm {m : Mappings} (hnd : (m.classes.map Prod.fst).Nodup) (fm : List (JStr × (JStr × Class)))
    (hfm : (fm.map Prod.snd).Perm (rootsOf m.classes)) : (postOf m fm).Perm (canonClasses m.classes) := by
  rw [postOf_eq, canonClasses_eq]
  exact (forest_perm hnd _ hfm).map canonE

theorem finish_of_settle {s s0 : St} (h : Settle 0 s s0) : finish s = some s0.classes := by
  simp only [finish, h.2]

/-- reading the lines of some trees of classes without present parent into `cs` -/
theorem readEL_roots {m : Mappings} (hok : ∀ e ∈ m.classes, classOk m.classes e = true)
    (hnd : (m.classes.map Prod.fst).Nodup) (nodes : List (JStr × Class))
    (hn : ∀ e ∈ nodes, e ∈ m.classes ∧ parentInSet m.classes e.1 = none) (cs : AList JStr Class)
    (hfresh : (cs.map Prod.fst ++ (nodes.flatMap fun e => postRaw m.classes (treeFuel m.classes) e.1 e.2).map Prod.fst).Nodup) :
    (run (nodes.flatMap fun e => treeEL m.classes (treeFuel m.classes) e.1 e.2 0) ⟨cs, [], .idle⟩).bind finish =
      some (cs ++ (nodes.flatMap fun e => postRaw m.classes (treeFuel m.classes) e.1 e.2).map canonE) := by
  obtain ⟨s', hr, hs'⟩ := run_forest m.classes (treeFuel m.classes) (treeRun m.classes hok hnd _) [] nodes
    (fun e he => ⟨(hn e he).1, (hn e he).2⟩) cs ⟨cs, [], .idle⟩ (Settle.of_depth rfl) hfresh
  simp only [List.length_nil] at hr hs'
  rw [hr, Option.bind_some, finish_of_settle hs']

/-! ## the stream -/

theorem fileEntries_roots {m : Mappings} : ∀ e ∈ (fileEntries m).map Prod.snd, e ∈ m.classes ∧ parentInSet m.classes e.1 = none := by
  intro e he
  obtain ⟨x, hx, rfl⟩ := List.mem_map.mp he
  exact ⟨(mem_fileEntries hx).1, (mem_fileEntries hx).2.1⟩

theorem readClasses_writeAll {m : Mappings} (h : writableB m = true) :
    ∃ t, writeAll m = some t ∧ readClasses t [] = some (postOf m (fileEntries m)) := by
  obtain ⟨hok, hnd, _⟩ := writableB_spec h
  obtain ⟨ls, hw, lx⟩ := writeAll_lex h
  refine ⟨render ls, hw, ?_⟩
  have hperm := forest_perm hnd _ (fileEntries_snd_perm m)
  have hfresh : ((([] : AList JStr Class)).map Prod.fst ++
      (((fileEntries m).map Prod.snd).flatMap fun e => postRaw m.classes (treeFuel m.classes) e.1 e.2).map Prod.fst).Nodup := by
    simp only [List.map_nil, List.nil_append]
    exact (hperm.map Prod.fst).nodup_iff.mpr hnd
  have := readEL_roots hok hnd ((fileEntries m).map Prod.snd) fileEntries_roots [] hfresh
  rw [List.flatMap_map, List.flatMap_map, List.nil_append] at this
  unfold readClasses
  rw [lx.text]
  cases hrun : run (allEL m) ⟨[], [], .idle⟩ with
  | none => simp only [allEL] at hrun; rw [hrun] at this; simp at this
  | some s =>
    simp only [allEL] at hrun
    rw [hrun, Option.bind_some] at this
    simp only [this, postOf]

/-! ## the directory -/

theorem readClasses_treeText {m : Mappings} (hok : ∀ e ∈ m.classes, classOk m.classes e = true)
    (hnd : (m.classes.map Prod.fst).Nodup) (node : JStr × Class) (hin : node ∈ m.classes)
    (hroot : parentInSet m.classes node.1 = none) (cs : AList JStr Class)
    (hfresh : (cs.map Prod.fst ++ (postRaw m.classes (treeFuel m.classes) node.1 node.2).map Prod.fst).Nodup) :
    readClasses (treeText m node) cs = some (cs ++ (postRaw m.classes (treeFuel m.classes) node.1 node.2).map canonE) := by
  obtain ⟨ls, hl, lx⟩ := fileTree_lex hok hin
  have := readEL_roots hok hnd [node] (by intro e he; simp only [List.mem_singleton] at he; subst he; exact ⟨hin, hroot⟩) cs
    (by simpa using hfresh)
  simp only [List.flatMap_cons, List.flatMap_nil, List.append_nil] at this
  unfold readClasses treeText
  rw [hl, Option.getD_some, lx.text]
  cases hrun : run (treeEL m.classes (treeFuel m.classes) node.1 node.2 0) ⟨cs, [], .idle⟩ with
  | none => rw [hrun] at this; simp at this
  | some s =>
    rw [hrun, Option.bind_some] at this
    simp only [this]

theorem readFiles_spec {m : Mappings} (hok : ∀ e ∈ m.classes, classOk m.classes e = true)
    (hnd : (m.classes.map Prod.fst).Nodup) : ∀ (fm : List (JStr × (JStr × Class))),
    (∀ x ∈ fm, x.2 ∈ m.classes ∧ parentInSet m.classes x.2.1 = none) → ∀ cs : AList JStr Class,
    (cs.map Prod.fst ++ (postOf m fm).map Prod.fst).Nodup →
    readFiles (fm.map (fileOf m)) cs = some (cs ++ postOf m fm)
  | [], _, cs, _ => by simp [readFiles, postOf]
  | x :: fm, hx, cs, hfresh => by
    obtain ⟨hin, hroot⟩ := hx x List.mem_cons_self
    have e1 : postOf m (x :: fm) = (postRaw m.classes (treeFuel m.classes) x.2.1 x.2.2).map canonE ++ postOf m fm := by
      simp [postOf, List.flatMap_cons]
    rw [e1, List.map_append, canonE_fst, ← List.append_assoc] at hfresh
    have h1 := readClasses_treeText hok hnd x.2 hin hroot cs (List.nodup_append.mp hfresh).1
    have h2 := readFiles_spec hok hnd fm (fun y hy => hx y (List.mem_cons_of_mem _ hy))
      (cs ++ (postRaw m.classes (treeFuel m.classes) x.2.1 x.2.2).map canonE)
      (by rw [List.map_append, canonE_fst]; exact hfresh)
    simp only [List.map_cons, readFiles, fileOf, h1]
    rw [e1, ← List.append_assoc]
    exact h2

/-- the order in which `enigma_dir::read` visits the written files (sorted walk) -/
def dirEntries (m : Mappings) : List (JStr × (JStr × Class)) :=
  isort (fun a b => pathLe (fileOf m a) (fileOf m b)) (fileEntries m)

theorem dirEntries_perm (m : Mappings) : (dirEntries m).Perm (fileEntries m) := isort_perm _ _

theorem dirEntries_files (m : Mappings) : isort pathLe ((fileEntries m).map (fileOf m)) = (dirEntries m).map (fileOf m) :=
  (isort_map (fileOf m) (fun _ _ => rfl) (fileEntries m)).symm

theorem dirRoundTrip_spec {m : Mappings} (h : writableB m = true) :
    dirRoundTrip m = some { emptyLike m with classes := postOf m (dirEntries m) } := by
  obtain ⟨hok, hnd, _⟩ := writableB_spec h
  have hperm : ((dirEntries m).map Prod.snd).Perm (rootsOf m.classes) :=
    ((dirEntries_perm m).map Prod.snd).trans (fileEntries_snd_perm m)
  have hroots : ∀ x ∈ dirEntries m, x.2 ∈ m.classes ∧ parentInSet m.classes x.2.1 = none := by
    intro x hx
    have := mem_fileEntries ((dirEntries_perm m).subset hx)
    exact ⟨this.1, this.2.1⟩
  have hfresh : ((([] : AList JStr Class)).map Prod.fst ++ (postOf m (dirEntries m)).map Prod.fst).Nodup := by
    simp only [List.map_nil, List.nil_append]
    have := (postOf_perm hnd (dirEntries m) hperm).map Prod.fst
    rw [canonClasses_eq, canonE_fst] at this
    exact this.nodup_iff.mpr hnd
  have := readFiles_spec hok hnd (dirEntries m) hroots [] hfresh
  simp only [dirRoundTrip, files_spec h, dirEntries_files, this, List.nil_append]

/-! ## content equality -/

theorem lookup_map_canonE (k : JStr) : ∀ cs : AList JStr Class,
    AList.lookup k (cs.map canonE) = (AList.lookup k cs).map canonClass
  | [] => rfl
  | (k', c) :: rest => by
    simp only [List.map_cons, canonE, AList.lookup]
    split
    · rfl
    · exact lookup_map_canonE k rest

/-- a permutation of the canonical classes has the canonical class of every key -/
theorem lookup_of_perm_canon {cs : AList JStr Class} (hnd : (cs.map Prod.fst).Nodup) {r : AList JStr Class}
    (hp : r.Perm (canonClasses cs)) (k : JStr) : AList.lookup k r = (AList.lookup k cs).map canonClass := by
  have hnd' : ((canonClasses cs).map Prod.fst).Nodup := by rw [canonClasses_eq, canonE_fst]; exact hnd
  have hndr : (r.map Prod.fst).Nodup := (hp.map Prod.fst).nodup_iff.mpr hnd'
  rw [lookup_perm hndr hp k, canonClasses_eq, lookup_map_canonE]

end Enigma
