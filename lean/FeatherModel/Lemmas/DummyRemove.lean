import FeatherModel.Lemmas.DummyList

/-! C10 helper lemmas: the children-first model of `remove_dummy` equals the top-down specification. -/

namespace DummyRemove
open Dummy DummySpec DummyList

theorem keepParam_eq (ns : Nat) (p : Param) : keepParam ns p = survivesParam ns p := rfl
theorem keepField_eq (ns : Nat) (f : Field) : keepField ns f = survivesField ns f := rfl
theorem filterMethod_eq (ns : Nat) (m : Method) : filterMethod ns m = pruneMethod ns m := rfl

theorem keepMethod_filter (ns : Nat) (m : Method) : keepMethod ns (filterMethod ns m) = survivesMethod ns m := by
  unfold keepMethod filterMethod survivesMethod
  simp only [not_isEmpty_filter]
  rfl

theorem pruneClass_eq' (ns : Nat) (c : Class) :
    pruneClass ns c = { c with
      fields := c.fields.filter (fun e => survivesField ns e.2)
      methods := pruneBy (survivesMethod ns) (pruneMethod ns) c.methods } := rfl

theorem filterClass_eq (ns : Nat) (c : Class) : filterClass ns c = pruneClass ns c := by
  rw [pruneClass_eq']
  unfold filterClass
  rw [retainMap_eq]
  rw [pruneBy_congr (keepMethod_filter ns) (filterMethod_eq ns)]
  rfl

theorem keepClass_filter (ns : Nat) (c : Class) : keepClass ns (filterClass ns c) = survivesClass ns c := by
  rw [filterClass_eq, pruneClass_eq']
  unfold keepClass survivesClass
  simp only [not_isEmpty_filter, not_isEmpty_pruneBy]

theorem removeSpecAt_eq' (m : Mappings) (ns : Nat) :
    removeSpecAt m ns = { m with classes := pruneBy (survivesClass ns) (pruneClass ns) m.classes } := rfl

theorem removeDummyAt_eq (m : Mappings) (ns : Nat) : removeDummyAt m ns = removeSpecAt m ns := by
  rw [removeSpecAt_eq']
  unfold removeDummyAt
  rw [retainMap_eq, pruneBy_congr (keepClass_filter ns) (filterClass_eq ns)]

/-! ### the rules are stable under pruning (idempotence) -/

theorem pruneMethod_idem (ns : Nat) (m : Method) : pruneMethod ns (pruneMethod ns m) = pruneMethod ns m := by
  unfold pruneMethod
  simp only [filter_idem]

theorem survivesMethod_prune (ns : Nat) (m : Method) : survivesMethod ns (pruneMethod ns m) = survivesMethod ns m := by
  unfold survivesMethod pruneMethod
  simp only [any_filter_self (fun e : Nat × Param => survivesParam ns e.2)]

theorem pruneClass_idem (ns : Nat) (c : Class) : pruneClass ns (pruneClass ns c) = pruneClass ns c := by
  rw [pruneClass_eq' ns c, pruneClass_eq']
  simp only [filter_idem]
  rw [pruneBy_idem _ _ (survivesMethod_prune ns) (fun v _ => pruneMethod_idem ns v)]

theorem survivesClass_prune (ns : Nat) (c : Class) : survivesClass ns (pruneClass ns c) = survivesClass ns c := by
  rw [pruneClass_eq']
  unfold survivesClass
  simp only [any_filter_self (fun e : MemberKey × Field => survivesField ns e.2)]
  rw [pruneBy_any _ _ (survivesMethod_prune ns)]

theorem removeSpecAt_idem (m : Mappings) (ns : Nat) : removeSpecAt (removeSpecAt m ns) ns = removeSpecAt m ns := by
  rw [removeSpecAt_eq' m ns, removeSpecAt_eq']
  simp only
  rw [pruneBy_idem _ _ (survivesClass_prune ns) (fun v _ => pruneClass_idem ns v)]

/-! ### the Boolean rules are the documented ones -/

theorem nameIs_iff {names : Names} {ns : Nat} {p : JStr → Bool} :
    nameIs names ns p = true ↔ ∃ n, names[ns]? = some (some n) ∧ p n = true := by
  unfold nameIs
  cases h : names[ns]? with
  | none => simp
  | some o =>
    cases o with
    | none => simp
    | some n => simp

theorem startsWith_iff {pfx s : JStr} : startsWith pfx s = true ↔ pfx <+: s := by
  unfold startsWith
  exact List.isPrefixOf_iff_prefix

theorem pfxC_eq : pfxC = jstr "C_" := by decide
theorem pfxNMU_eq : pfxNMU = jstr "net/minecraft/unmapped/C_" := by decide
theorem pfxF_eq : pfxF = jstr "f_" := by decide
theorem pfxM_eq : pfxM = jstr "m_" := by decide
theorem pfxP_eq : pfxP = jstr "p_" := by decide
theorem nameInit_eq : nameInit = jstr "<init>" := by decide
theorem nameClinit_eq : nameClinit = jstr "<clinit>" := by decide

end DummyRemove

namespace DummyRemove
open Dummy DummySpec DummyList

/-! ### `get_namespace` -/

theorem getNamespace_go_none (name : JStr) : ∀ (l : List JStr) (i : Nat),
    Mappings.getNamespace.go name l i = none ↔ name ∉ l := by
  intro l
  induction l with
  | nil => intro i; simp [Mappings.getNamespace.go]
  | cons a l ih =>
    intro i
    simp only [Mappings.getNamespace.go, List.mem_cons, not_or]
    by_cases h : a = name
    · simp [h]
    · have h' : ¬ name = a := fun e => h e.symm
      simp [h, h', ih]

theorem getNamespace_go_some (name : JStr) : ∀ (l : List JStr) (i j : Nat),
    Mappings.getNamespace.go name l i = some j → i ≤ j ∧ l[j - i]? = some name := by
  intro l
  induction l with
  | nil => intro i j h; simp [Mappings.getNamespace.go] at h
  | cons a l ih =>
    intro i j h
    simp only [Mappings.getNamespace.go] at h
    by_cases hk : (a == name) = true
    · simp only [hk, if_true, Option.some.injEq] at h
      subst h
      have : a = name := by simpa using hk
      simp [this]
    · simp only [hk] at h
      obtain ⟨h1, h2⟩ := ih (i + 1) j h
      refine ⟨by omega, ?_⟩
      have : j - i = (j - (i + 1)) + 1 := by omega
      rw [this, List.getElem?_cons_succ]
      exact h2

end DummyRemove
