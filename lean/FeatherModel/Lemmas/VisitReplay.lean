import FeatherModel.Lemmas.VisitAccept
import FeatherModel.Lemmas.VisitRebuild2

/-! # C17 lemmas — replay (`accept` / `build`): everything `Thm/C17.lean` needs -/
