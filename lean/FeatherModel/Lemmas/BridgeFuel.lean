import FeatherModel.Lemmas.BridgeWalk

/-! Fuel independence and sufficiency for `get_specialized_methods` (C15): the fuel only bounds the hierarchy walks. -/

namespace Bridge

/-- `w'` answers everything `w` answers, identically -/
def Walks.le (w w' : Walks) : Prop :=
  (∀ c r, w.anc c = some r → w'.anc c = some r) ∧ (∀ c r, w.desc c = some r → w'.desc c = some r)

/-- every walk terminates -/
def Walks.total (w : Walks) : Prop := (∀ c, ∃ r, w.anc c = some r) ∧ (∀ c, ∃ r, w.desc c = some r)

theorem walksOf_le (idx : Index) {f f' : Nat} (h : f ≤ f') : (walksOf idx f).le (walksOf idx f') :=
  ⟨fun c r hr => walk_mono idx.parents f f' _ _ r hr h, fun c r hr => walk_mono idx.children f f' _ _ r hr h⟩

/-! ## monotonicity -/

theorem typesCompat_mono (idx : Index) {w w' : Walks} (hle : w.le w') (tb ts : Ty) (r : Bool)
    (h : typesCompat idx w tb ts = some r) : typesCompat idx w' tb ts = some r := by
  unfold typesCompat at h ⊢
  by_cases heq : tb = ts
  · simpa [heq] using h
  · simp only [heq, if_false] at h ⊢
    cases tb <;> cases ts <;> try exact h
    rename_i b s
    simp only at h ⊢
    by_cases hb : b = JLO
    · simpa [hb] using h
    · simp only [hb, if_false] at h ⊢
      by_cases hc : b ∈ idx.classes
      · simp only [List.contains_iff_mem.mpr hc, Bool.not_true, Bool.false_eq_true, if_false] at h ⊢
        cases hw : w.anc s with
        | none => simp [hw] at h
        | some as => rw [hle.1 s as hw]; simpa [hw] using h
      · simp [hc] at h ⊢
        exact h

theorem allCompat_mono (idx : Index) {w w' : Walks} (hle : w.le w') :
    ∀ (bs ss : List Ty) (r : Bool), allCompat idx w bs ss = some r → allCompat idx w' bs ss = some r := by
  intro bs
  induction bs with
  | nil => intro ss r h; simpa [allCompat] using h
  | cons b bs ih =>
    intro ss r h
    cases ss with
    | nil => simpa [allCompat] using h
    | cons s ss =>
      simp only [allCompat] at h ⊢
      cases ht : typesCompat idx w b s with
      | none => simp [ht] at h
      | some t =>
        rw [typesCompat_mono idx hle b s t ht]
        cases t with
        | false => simpa [ht] using h
        | true => simp [ht] at h; simpa using ih ss r h

theorem isPotentialBridge_mono (idx : Index) {w w' : Walks} (hle : w.le w') (m : MRef) (acc : Access) (s : MRef)
    (r : Bool) (h : isPotentialBridge idx w m acc s = some r) : isPotentialBridge idx w' m acc s = some r := by
  unfold isPotentialBridge at h ⊢
  by_cases hflags : (acc.priv || acc.final || acc.static) = true
  · simpa [hflags] using h
  · simp only [hflags] at h ⊢
    cases hpb : parseMethodDesc m.desc with
    | none => simpa [hpb] using h
    | some vb =>
      cases hps : parseMethodDesc s.desc with
      | none => simpa [hpb, hps] using h
      | some vs =>
        simp only [hpb, hps] at h ⊢
        by_cases hlen : (vb.1.length != vs.1.length) = true
        · simpa [hlen] using h
        · simp only [hlen] at h ⊢
          cases hall : allCompat idx w vb.1 vs.1 with
          | none => simp [hall] at h
          | some t =>
            rw [allCompat_mono idx hle _ _ t hall]
            cases t with
            | false => simpa [hall] using h
            | true =>
              simp only [hall] at h ⊢
              obtain ⟨pb, rb⟩ := vb
              obtain ⟨ps, rs⟩ := vs
              cases rb <;> cases rs <;> try exact h
              exact typesCompat_mono idx hle _ _ r h

theorem higher_mono {w w' : Walks} (hle : w.le w') (b1 b2 r : MRef) (h : higher w b1 b2 = some r) :
    higher w' b1 b2 = some r := by
  unfold higher at h ⊢
  cases hd : w.desc b1.cls with
  | none => simp [hd] at h
  | some ds => rw [hle.2 _ ds hd]; simpa [hd] using h

theorem candidate_mono (idx : Index) {w w' : Walks} (hle : w.le w') (m : MRef) (acc : Access)
    (c : Option (MRef × MRef)) (h : candidate idx w m acc = some c) : candidate idx w' m acc = some c := by
  unfold candidate at h ⊢
  by_cases hsyn : acc.synthetic = true
  · simp only [hsyn, Bool.not_true, Bool.false_eq_true, if_false] at h ⊢
    cases hr : AList.lookup m idx.refs with
    | none => simpa [hr] using h
    | some l =>
      cases l with
      | nil => simpa [hr] using h
      | cons s tl =>
        cases tl with
        | cons _ _ => simpa [hr] using h
        | nil =>
          simp only [hr] at h ⊢
          by_cases hb : acc.bridge = true
          · simpa [hb] using h
          · simp only [hb, if_false] at h ⊢
            cases hp : isPotentialBridge idx w m acc s with
            | none => simp [hp] at h
            | some t => rw [isPotentialBridge_mono idx hle m acc s t hp]; simpa [hp] using h
  · simpa [hsyn] using h

theorem candidates_mono (idx : Index) {w w' : Walks} (hle : w.le w') :
    ∀ (ms : AList MRef Access) (cs : List (MRef × MRef)), candidates idx w ms = some cs →
      candidates idx w' ms = some cs := by
  intro ms
  induction ms with
  | nil => intro cs h; simpa [candidates] using h
  | cons e rest ih =>
    obtain ⟨m, acc⟩ := e
    intro cs h
    simp only [candidates] at h ⊢
    cases hc : candidate idx w m acc with
    | none => simp [hc] at h
    | some c =>
      cases hr : candidates idx w rest with
      | none => simp [hc, hr] at h
      | some cs' =>
        rw [candidate_mono idx hle m acc c hc, ih cs' hr]
        simpa [hc, hr] using h

theorem stepSel_mono {w w' : Walks} (hle : w.le w') (st : SelState) (p : MRef × MRef) (st' : SelState)
    (h : stepSel w st p = some st') : stepSel w' st p = some st' := by
  unfold stepSel at h ⊢
  cases ho : AList.lookup p.2 st.2 with
  | none => simpa [ho] using h
  | some o =>
    simp only [ho] at h ⊢
    cases hh : higher w p.1 o with
    | none => simp [hh] at h
    | some hi => rw [higher_mono hle _ _ hi hh]; simpa [hh] using h

theorem foldSel_mono {w w' : Walks} (hle : w.le w') :
    ∀ (cs : List (MRef × MRef)) (st st' : SelState), foldSel w cs st = some st' → foldSel w' cs st = some st' := by
  intro cs
  induction cs with
  | nil => intro st st' h; simpa [foldSel] using h
  | cons p rest ih =>
    intro st st' h
    simp only [foldSel] at h ⊢
    cases hs : stepSel w st p with
    | none => simp [hs] at h
    | some st1 =>
      rw [stepSel_mono hle st p st1 hs]
      simp [hs] at h
      simpa using ih st1 st' h

theorem selectWith_mono (idx : Index) {w w' : Walks} (hle : w.le w') (st : SelState)
    (h : selectWith idx w = some st) : selectWith idx w' = some st := by
  unfold selectWith at h ⊢
  cases hc : candidates idx w idx.methods with
  | none => simp [hc] at h
  | some cs =>
    rw [candidates_mono idx hle _ cs hc]
    simp [hc] at h
    simpa using foldSel_mono hle cs _ st h

/-! ## totality -/

theorem typesCompat_total (idx : Index) {w : Walks} (ht : w.total) (tb ts : Ty) :
    ∃ r, typesCompat idx w tb ts = some r := by
  unfold typesCompat
  by_cases heq : tb = ts
  · exact ⟨true, by simp [heq]⟩
  · simp only [heq, if_false]
    cases tb <;> cases ts <;> try exact ⟨false, rfl⟩
    rename_i b s
    simp only
    by_cases hb : b = JLO
    · exact ⟨true, by simp [hb]⟩
    · simp only [hb, if_false]
      by_cases hc : b ∈ idx.classes
      · simp only [List.contains_iff_mem.mpr hc, Bool.not_true, Bool.false_eq_true, if_false]
        obtain ⟨as, has⟩ := ht.1 s
        exact ⟨_, by rw [has]⟩
      · exact ⟨true, by simp [hc]⟩

theorem allCompat_total (idx : Index) {w : Walks} (ht : w.total) :
    ∀ (bs ss : List Ty), ∃ r, allCompat idx w bs ss = some r := by
  intro bs
  induction bs with
  | nil => intro ss; exact ⟨true, by simp [allCompat]⟩
  | cons b bs ih =>
    intro ss
    cases ss with
    | nil => exact ⟨true, by simp [allCompat]⟩
    | cons s ss =>
      simp only [allCompat]
      obtain ⟨t, ht'⟩ := typesCompat_total idx ht b s
      rw [ht']
      cases t with
      | false => exact ⟨false, rfl⟩
      | true => exact ih ss

theorem isPotentialBridge_total (idx : Index) {w : Walks} (ht : w.total) (m : MRef) (acc : Access) (s : MRef) :
    ∃ r, isPotentialBridge idx w m acc s = some r := by
  unfold isPotentialBridge
  by_cases hflags : (acc.priv || acc.final || acc.static) = true
  · exact ⟨false, by simp [hflags]⟩
  · simp only [hflags]
    cases hpb : parseMethodDesc m.desc with
    | none => exact ⟨false, by simp⟩
    | some vb =>
      cases hps : parseMethodDesc s.desc with
      | none => exact ⟨false, by simp⟩
      | some vs =>
        simp only
        by_cases hlen : (vb.1.length != vs.1.length) = true
        · exact ⟨false, by simp [hlen]⟩
        · simp only [hlen]
          obtain ⟨t, hall⟩ := allCompat_total idx ht vb.1 vs.1
          rw [hall]
          cases t with
          | false => exact ⟨false, by simp⟩
          | true =>
            obtain ⟨pb, rb⟩ := vb
            obtain ⟨ps, rs⟩ := vs
            cases rb <;> cases rs
            · exact ⟨true, by simp⟩
            · exact ⟨false, by simp⟩
            · exact ⟨false, by simp⟩
            · simpa using typesCompat_total idx ht _ _

theorem candidate_total (idx : Index) {w : Walks} (ht : w.total) (m : MRef) (acc : Access) :
    ∃ c, candidate idx w m acc = some c := by
  unfold candidate
  by_cases hsyn : acc.synthetic = true
  · simp only [hsyn, Bool.not_true, Bool.false_eq_true, if_false]
    cases hr : AList.lookup m idx.refs with
    | none => exact ⟨none, rfl⟩
    | some l =>
      cases l with
      | nil => exact ⟨none, rfl⟩
      | cons s tl =>
        cases tl with
        | cons _ _ => exact ⟨none, rfl⟩
        | nil =>
          simp only
          by_cases hb : acc.bridge = true
          · exact ⟨some (m, s), by simp [hb]⟩
          · simp only [hb, if_false]
            obtain ⟨t, hp⟩ := isPotentialBridge_total idx ht m acc s
            rw [hp]
            cases t
            · exact ⟨none, rfl⟩
            · exact ⟨_, rfl⟩
  · exact ⟨none, by simp [hsyn]⟩

theorem candidates_total (idx : Index) {w : Walks} (ht : w.total) :
    ∀ (ms : AList MRef Access), ∃ cs, candidates idx w ms = some cs := by
  intro ms
  induction ms with
  | nil => exact ⟨[], by simp [candidates]⟩
  | cons e rest ih =>
    obtain ⟨m, acc⟩ := e
    obtain ⟨c, hc⟩ := candidate_total idx ht m acc
    obtain ⟨cs, hcs⟩ := ih
    exact ⟨c.toList ++ cs, by simp [candidates, hc, hcs]⟩

theorem foldSel_total {w : Walks} (ht : w.total) :
    ∀ (cs : List (MRef × MRef)) (st : SelState), ∃ st', foldSel w cs st = some st' := by
  intro cs
  induction cs with
  | nil => intro st; exact ⟨st, by simp [foldSel]⟩
  | cons p rest ih =>
    intro st
    have : ∃ st1, stepSel w st p = some st1 := by
      unfold stepSel
      cases ho : AList.lookup p.2 st.2 with
      | none => exact ⟨_, rfl⟩
      | some o =>
        simp only
        obtain ⟨ds, hd⟩ := ht.2 p.1.cls
        simp [higher, hd]
    obtain ⟨st1, hs⟩ := this
    obtain ⟨st', h⟩ := ih st1
    exact ⟨st', by simp [foldSel, hs, h]⟩

theorem selectWith_total (idx : Index) {w : Walks} (ht : w.total) : ∃ st, selectWith idx w = some st := by
  unfold selectWith
  obtain ⟨cs, hc⟩ := candidates_total idx ht idx.methods
  rw [hc]
  exact foldSel_total ht cs _

/-- acyclic hierarchy (one rank decreasing along the parent edges, one along the child edges): some fuel is enough for
every walk -/
theorem walksOf_total (idx : Index) (rankP rankC : JStr → Nat)
    (hp : ∀ c p, p ∈ nexts idx.parents c → rankP p < rankP c)
    (hc : ∀ p c, c ∈ nexts idx.children p → rankC c < rankC p) :
    ∃ F, (walksOf idx F).total := by
  obtain ⟨F1, h1⟩ := walk_uniform_fuel idx.parents rankP hp
  obtain ⟨F2, h2⟩ := walk_uniform_fuel idx.children rankC hc
  refine ⟨F1 + F2, ?_, ?_⟩
  · intro c
    obtain ⟨r, hr⟩ := h1 c
    exact ⟨r, walk_mono idx.parents F1 _ _ _ r hr (by omega)⟩
  · intro c
    obtain ⟨r, hr⟩ := h2 c
    exact ⟨r, walk_mono idx.children F2 _ _ _ r hr (by omega)⟩

end Bridge
