import FeatherModel.Lemmas.ClassWriteFullCodeLegal
import FeatherModel.Lemmas.ClassWriteFullCodeTables
import FeatherModel.Lemmas.ClassWriteFullCodeFrameBlock

/-!
# C02 (whole writer) — `write_code`: the body of the `Code` attribute is the encoding of a legal `CodeLayout` whose facts
are the method body with its labels resolved

Proved fragment of method bodies (`CodeOk`): see `RCodeOk`.
-/

namespace ClassWriteFull
open PoolWrite (Entry)
open FramePool (Good Le)
open ClassRead ClassRead.Spec
open FrameReadBack (posOf)

deriving instance DecidableEq for ClassRead.Lv

/-- a local-variable entry of the fragment: exactly one of descriptor / signature (what one row of one of the two
tables gives), a live range of instructions, a valid name -/
def lvOk (n : Nat) (v : Lv) : Prop :=
  v.desc.isSome ≠ v.sig.isSome ∧ v.start < n ∧ v.start ≤ v.end_ ∧ v.end_ ≤ n ∧ v.index < 65536 ∧ validUnqualified v.name = true

/-- label look-ups the reader performs for one stack map frame: its own offset and one per `Uninitialized` type -/
def frameRefs (f : ClassRead.Frame) : Nat := FrameReadBack.labelDemand (frameOf id f)

def frameRefsO : Option ClassRead.Frame → Nat
  | some f => frameRefs f
  | none => 0

/-- number of label references of a (label-free) method body: what the reader's `u16` label counter must hold -/
def codeRefs (c : Code) : Nat :=
  (c.insns.map fun e => (targetsOf e.insn).length).sum + 3 * c.exceptions.length + (c.lines.getD []).length
    + 2 * (c.locals.getD []).length + (c.rvta.map fun a => codeTargetRefs a.target).sum
    + (c.ritva.map fun a => codeTargetRefs a.target).sum
    + (c.insns.map fun e => frameRefsO e.frame).sum

/-- conditions on a method body **with its labels resolved** (targets, ranges and table entries are instruction
indices, `n` = number of instructions):

* every instruction `insnOk` (operand ranges of duke's tree types, valid names, **no `invokedynamic`, no `Dynamic`
  constant**), every target an instruction; stack map frames with valid class names in `Object` types and
  `Uninitialized` labels on instructions (`frameOkR`; chop / append counts and the sizes are checked by the writer);
* **at most 32767 bytes of code by the syntactic bound `maxSizeR`** (the longest form of every instruction): no jump is
  widened, no conditional branch becomes an inverted-condition trampoline (a trampoline is read back as two instructions);
* exception ranges `start < n`, `end ≤ n`, `handler < n`, valid catch types; line entries on instructions;
* local variables: `none`, or a non-empty list in which every entry has exactly one of descriptor / signature and all
  descriptor entries precede all signature entries (the order in which `LocalVariableTable` and
  `LocalVariableTypeTable` are written and read back);
* type annotations with targets admissible inside `Code` on instructions; unknown attributes whose names are not
  names of attributes the reader interprets inside `Code` (`codeAttrNames`; written since the repair, regression theorem
  `code_unknown_attributes_written`); fewer than 65535 label references. -/
structure RCodeOk (c : Code) : Prop where
  insns : ∀ e ∈ c.insns, insnOk e.insn ∧ (∀ t ∈ targetsOf e.insn, t < c.insns.length) ∧
    ∀ f, e.frame = some f → frameOkR c.insns.length f
  size : (c.insns.map fun e => maxSizeR e.insn).sum ≤ 32767
  maxStack : c.maxStack < 65536
  maxLocals : c.maxLocals < 65536
  exceptions : ∀ e ∈ c.exceptions, e.start < c.insns.length ∧ e.end_ ≤ c.insns.length ∧ e.handler < c.insns.length ∧
    ∀ cl, e.catch_ = some cl → validClassName cl = true
  lines : ∀ ls, c.lines = some ls → ∀ e ∈ ls, e.1 < c.insns.length ∧ e.2 < 65536
  locals : ∀ vs, c.locals = some vs → vs ≠ [] ∧
    vs = (vs.filter fun v => v.desc.isSome) ++ (vs.filter fun v => v.sig.isSome) ∧ ∀ v ∈ vs, lvOk c.insns.length v
  rvta : CodeTypeAnnosOk id c.insns.length c.rvta
  ritva : CodeTypeAnnosOk id c.insns.length c.ritva
  attrs : ∀ a ∈ c.attrs, a.name ∉ codeAttrNames
  refs : codeRefs c < 65535

/-- the proved fragment of method bodies: the labels resolve (`Code.resolve`, C01) and the resolved body is `RCodeOk` -/
def CodeOk (c : Code) : Prop :=
  match c.resolve with
  | some c' => RCodeOk c'
  | none => False

/-! ## small facts -/

theorem tgMapL_id (t : Target) : tgMapL id t = t := by
  cases t <;> simp [tgMapL]

theorem collect_none : ∀ (ps : List Nat) (fs : List (Option FrameWrite.Frame)), (∀ f ∈ fs, f = none) →
    FrameWrite.collect ps fs = []
  | [], _, _ => by simp [FrameWrite.collect]
  | _ :: _, [], _ => by simp [FrameWrite.collect]
  | q :: ps, f :: fs, h => by
    have := h f List.mem_cons_self
    subst this
    simp only [FrameWrite.collect]
    exact collect_none ps fs (fun g hg => h g (List.mem_cons_of_mem _ hg))

theorem factEntries_nil : ∀ (sis : List SInsn) (k : Nat), factEntries [] k sis = sis.map (fun si => ⟨none, none, si.insn⟩)
  | [], _ => rfl
  | si :: r, k => by simp [factEntries, factEntries_nil r (k + 1)]

/-- one written attribute of `Code`, lifted to the layout -/
def CBlock (o : Option Bytes) (q : Pool) (cpos : Nat → Nat) (n : Nat) (lo : Option SCodeAttr) : Prop :=
  o = lo.map (SCodeAttr.encode cpos) ∧ ∀ a ∈ lo, Sound q (fun rp => a.Legal rp n cpos)

theorem CBlock.mono {o : Option Bytes} {q q' : Pool} {cpos : Nat → Nat} {n : Nat} {lo : Option SCodeAttr}
    (h : CBlock o q cpos n lo) (hl : Le q q') : CBlock o q' cpos n lo :=
  ⟨h.1, fun a ha => (h.2 a ha).mono hl⟩

theorem cblock_none (q : Pool) (cpos : Nat → Nat) (n : Nat) : CBlock none q cpos n none := ⟨rfl, by simp⟩

/-! ## the attribute blocks of `write_code` -/

theorem linesBlock_spec {lp : Nat → Option Nat} {lab cpos : Nat → Nat} (hlp : LpEq lp lab cpos) {n : Nat}
    {lines : Option (List (Nat × Nat))} {p p' : Pool} {o : Option Bytes} (hg : Good p)
    (hok : ∀ ls, lines = some ls → ∀ e ∈ ls, lab e.1 < n ∧ e.2 < 65536)
    (h : ifSome lines (fun ls => attrBuf sLineNumberTable (fun p => writeSlice16 (writeLine lp) p ls)) p = .ok (o, p')) :
    Step p p' ∧ ∃ nc, CBlock o p' cpos n (lines.map fun ls => .lines nc (ls.map fun e => (lab e.1, e.2))) := by
  rcases ifSome_inv h with ⟨ls, b, rfl, hb, rfl⟩ | ⟨rfl, rfl, rfl⟩
  · obtain ⟨bb, p1, i, h1, h2, _, rfl⟩ := attrBuf_inv hb
    obtain ⟨hl, bb', h3, rfl⟩ := writeSlice16_inv h1
    obtain ⟨rfl, rfl⟩ := writeLines_spec hlp ls h3
    obtain ⟨s2, a2, hi⟩ := putUtf8_spec hg h2
    refine ⟨s2, i, by simp [SCodeAttr.encode], ?_⟩
    intro a ha q hq
    cases Option.mem_some_iff.mp ha
    refine ⟨hi, getUtf8_of hq.good (a2.mono hq.le), by simp; omega, ?_⟩
    intro e he
    obtain ⟨x, hx, rfl⟩ := List.mem_map.mp he
    exact hok ls rfl x hx
  · exact ⟨Step.refl hg, 0, cblock_none _ _ _⟩

theorem lvCount_eq (sig : Bool) (vs : List Lv) : lvCount sig vs = (vs.filter fun v => (lvText sig v).isSome).length := rfl

theorem lvBlock_spec {lp : Nat → Option Nat} {lab cpos : Nat → Nat} (hlp : LpEq lp lab cpos) {n : Nat} (sig : Bool)
    {vs : List Lv} {p p' : Pool} {o : Option Bytes} (hg : Good p)
    (hok : ∀ v ∈ vs, lab v.start < n ∧ lab v.start ≤ lab v.end_ ∧ lab v.end_ ≤ n ∧ v.index < 65536 ∧
      validUnqualified v.name = true)
    (h : lvAttr lp sig (if sig then sLocalVariableTypeTable else sLocalVariableTable) (some vs) p = .ok (o, p')) :
    Step p p' ∧ ∃ (nc : Nat) (ls : List SLv),
      CBlock o p' cpos n (if 0 < lvCount sig vs then some (if sig then .lvtt nc ls else .lvt nc ls) else none) ∧
      ls.length = lvCount sig vs ∧
      ∀ x ∈ ls.zip (vs.filter fun v => (lvText sig v).isSome), x.1.start = lab x.2.start ∧ x.1.end_ = lab x.2.end_ ∧
        x.1.name = x.2.name ∧ lvText sig x.2 = some x.1.desc ∧ x.1.index = x.2.index := by
  simp only [lvAttr] at h
  rcases onlyIf_inv h with ⟨hc, b, hb, rfl⟩ | ⟨hc, rfl, rfl⟩
  · have hpos : 0 < lvCount sig vs := by simpa using hc
    obtain ⟨bb, p1, i, h1, h2, _, rfl⟩ := attrBuf_inv hb
    obtain ⟨c, hc1, h1⟩ := bind_eq_ok.mp h1
    obtain ⟨hl16, rfl⟩ := cnt16_eq_ok.mp hc1
    obtain ⟨⟨rows, p2⟩, h3, h1⟩ := bind_eq_ok.mp h1
    have := pure_eq_ok.mp h1
    simp only [Prod.mk.injEq] at this
    obtain ⟨rfl, rfl⟩ := this
    obtain ⟨s1, ls, rfl, hlen, hr, hm⟩ := writeLvs_spec hlp sig vs hg h3
    obtain ⟨s2, a2, hi⟩ := putUtf8_spec s1.good h2
    rw [← lvCount_eq] at hlen
    refine ⟨s1.trans s2, i, ls, ⟨?_, ?_⟩, hlen, fun x hx => ?_⟩
    · simp only [hpos, if_true, Option.map_some]
      cases sig <;> simp [SCodeAttr.encode, hlen]
    · intro a ha q hq
      simp only [hpos, if_true] at ha
      cases Option.mem_some_iff.mp ha
      have hleg : ∀ l ∈ ls, l.Legal (rpool q) n := by
        refine forall_of_zip (xs := vs.filter fun v => (lvText sig v).isSome) (Q := fun l => SLv.Legal (rpool q) n l)
          (by rw [hlen, lvCount_eq]) ?_
        intro x hx
        have hx2 : x.2 ∈ vs := (List.mem_filter.mp (List.of_mem_zip hx).2).1
        exact lv_legal hq.good (((hr x hx).mono s2.le).mono hq.le) (hok x.2 hx2)
      cases sig
      · exact ⟨hi, getUtf8_of hq.good (a2.mono hq.le), by omega, hleg⟩
      · exact ⟨hi, getUtf8_of hq.good (a2.mono hq.le), by omega, hleg⟩
    · obtain ⟨a1, a2', a3, a4, a5, _⟩ := hr x hx
      exact ⟨a1, a2', a3, a4, a5⟩
  · have hz : ¬ 0 < lvCount sig vs := by simpa using hc
    refine ⟨Step.refl hg, 0, [], by simp only [hz, if_false]; exact cblock_none _ _ _, by simp only [List.length_nil]; omega, ?_⟩
    intro x hx
    simp at hx

theorem taBlock_spec {lp : Nat → Option Nat} {lab cpos : Nat → Nat} (hlp : LpEq lp lab cpos) {n : Nat} (visible : Bool)
    {as : List TypeAnno} {p p' : Pool} {o : Option Bytes} (hg : Good p) (hok : CodeTypeAnnosOk lab n as)
    (h : typeAnnosAttr (writeTargetCode lp) (if visible then sRVTA else sRITA) as p = .ok (o, p')) :
    Step p p' ∧ ∃ (nc : Nat) (sas : List SCodeTypeAnno),
      CBlock o p' cpos n (if as = [] then none else some (.typeAnnos nc visible sas)) ∧
      sas.map SCodeTypeAnno.fact = as.map (fun a => { a with target := tgMapL lab a.target }) := by
  obtain ⟨s, c⟩ := codeTypeAnnosAttr_spec hlp hg hok h
  rcases c with ⟨rfl, rfl⟩ | ⟨sas, hne, ⟨nc, rfl, hn, a⟩, hm, hl, hb, hs⟩
  · exact ⟨s, 0, [], by simp only [if_true]; exact cblock_none _ _ _, rfl⟩
  · refine ⟨s, nc, sas, ⟨by simp [hne, SCodeAttr.encode, attrFrame], ?_⟩, hm⟩
    intro a' ha q hq
    simp only [hne, if_false] at ha
    cases Option.mem_some_iff.mp ha
    exact ⟨hn, getUtf8_of hq.good (a.mono hq.le), hl, fun sa hsa => hs sa hsa q hq, hb⟩

/-! ## `write_code` -/

/-- the components of a successful `write_code` -/
theorem writeCode_inv {c : Code} {p p' : Pool} {bs bs' : List Bsm} {b : Bytes} {lab : Nat → Nat}
    (hlab : labOf (labelIndex c.insns c.lastLabel) c.insns.length = lab)
    (h : writeCode c p bs = .ok (b, p', bs')) :
    ∃ is p1 res eb p2 smt p3 as ab,
      putInsns lab p bs c.insns = .ok (is, p1, bs') ∧ CodeWrite.writeCode is = .ok res ∧
      writeSlice16 (writeException (fun id => res.label (lab id))) p1 c.exceptions = .ok (eb, p2) ∧
      FrameWrite.attr res.label p2 (FrameWrite.framesOf res (c.insns.map fun e => e.frame.map (frameOf lab))) = .ok (smt, p3) ∧
      runAttrs
        ([ifSome c.lines (fun ls => attrBuf sLineNumberTable (fun p => writeSlice16 (writeLine (fun id => res.label (lab id))) p ls)),
         lvAttr (fun id => res.label (lab id)) false sLocalVariableTable c.locals,
         lvAttr (fun id => res.label (lab id)) true sLocalVariableTypeTable c.locals,
         typeAnnosAttr (writeTargetCode (fun id => res.label (lab id))) sRVTA c.rvta,
         typeAnnosAttr (writeTargetCode (fun id => res.label (lab id))) sRITA c.ritva] ++ unknownAttrs c.attrs) p3 = .ok (as, p') ∧
      attrsBytes (smtBytes smt ++ as) = .ok ab ∧
      b = be16 c.maxStack ++ be16 c.maxLocals ++ be32 res.code.length ++ res.code ++ eb ++ ab := by
  unfold writeCode at h
  simp only [hlab] at h
  obtain ⟨⟨is, p1, bs1⟩, h1, h⟩ := bind_eq_ok.mp h
  simp only at h
  cases hres : CodeWrite.writeCode is with
  | outOfFuel => rw [hres] at h; cases h
  | err => rw [hres] at h; cases h
  | panic => rw [hres] at h; cases h
  | ok res =>
    rw [hres] at h
    simp only at h
    obtain ⟨⟨eb, p2⟩, h2, h⟩ := bind_eq_ok.mp h
    obtain ⟨⟨smt, p3⟩, h3, h⟩ := bind_eq_ok.mp h
    obtain ⟨⟨as, p4⟩, h4, h⟩ := bind_eq_ok.mp h
    obtain ⟨ab, h5, h⟩ := bind_eq_ok.mp h
    have := pure_eq_ok.mp h
    simp only [Prod.mk.injEq] at this
    obtain ⟨rfl, rfl, rfl⟩ := this
    have h5' : attrsBytes (smtBytes smt ++ as) = .ok ab := by
      cases smt with
      | none => exact h5
      | some ib => obtain ⟨i, b⟩ := ib; exact h5
    exact ⟨is, p1, res, eb, p2, smt, p3, as, ab, h1, hres, h2, h3, h4, h5', rfl⟩

/-- the loop over unknown attributes, without any assumption on the pool: one framed attribute per entry, in order -/
theorem unknownAttrs_shape : ∀ (as : List Attr) {p p' : Pool} {bs : List Bytes},
    runAttrs (unknownAttrs as) p = .ok (bs, p') →
    ∃ ncs : List Nat, ncs.length = as.length ∧ bs = (ncs.zip as).map (fun x => attrFrame x.1 x.2.bytes) ∧
      ∀ x ∈ ncs.zip as, x.2.bytes.length < 4294967296 := by
  intro as
  induction as with
  | nil =>
    intro p p' bs h
    obtain ⟨rfl, rfl⟩ := runAttrs_nil_inv h
    exact ⟨[], rfl, rfl, by simp⟩
  | cons a as ih =>
    intro p p' bs h
    obtain ⟨o, p1, bs1, h1, h2, rfl⟩ := runAttrs_cons_inv h
    obtain ⟨b, hb, rfl⟩ := always_inv h1
    obtain ⟨i, _, hl, rfl⟩ := unknownAttr_inv hb
    obtain ⟨ncs, hlen, rfl, hr⟩ := ih h2
    refine ⟨i :: ncs, by simp [hlen], by simp, ?_⟩
    intro x hx
    simp only [List.zip_cons_cons, List.mem_cons] at hx
    rcases hx with rfl | hx
    · simp only; omega
    · exact hr x hx

/-- **the unknown attributes of a method body are written** (every successful `write_code`, no fragment): the
attribute table of `Code` is the count of the known attributes that were written plus `Code.attributes.length`, the
known attributes, and then — last, as at class / field / method / record-component level — each unknown attribute as
name index, `u32` length, bytes; the name indices are the ones the loop's `put_utf8` calls returned -/
theorem writeCode_unknown_written {c : Code} {p p' : Pool} {bs bs' : List Bsm} {b : Bytes}
    (h : writeCode c p bs = .ok (b, p', bs')) :
    ∃ (pre : Bytes) (known : List Bytes) (q : Pool) (ncs : List Nat), ncs.length = c.attrs.length ∧
      runAttrs (unknownAttrs c.attrs) q = .ok ((ncs.zip c.attrs).map (fun x => attrFrame x.1 x.2.bytes), p') ∧
      known.length + c.attrs.length ≤ 65535 ∧ (∀ a ∈ c.attrs, a.bytes.length < 4294967296) ∧
      b = pre ++ be16 (known.length + c.attrs.length) ++ known.flatten ++
        ((ncs.zip c.attrs).map fun x => be16 x.1 ++ be32 x.2.bytes.length ++ x.2.bytes).flatten := by
  obtain ⟨is, p1, res, eb, p2, smt, p3, as, ab, _, _, _, _, h4, h5, rfl⟩ := writeCode_inv rfl h
  obtain ⟨r0, q5, ru, _, ku, rfl⟩ := runAttrs_append_inv h4
  obtain ⟨ncs, hlen, rfl, hb⟩ := unknownAttrs_shape c.attrs ku
  obtain ⟨hcount, rfl⟩ := attrsBytes_inv h5
  have hz : (ncs.zip c.attrs).length = c.attrs.length := by simp [List.length_zip, hlen]
  refine ⟨be16 c.maxStack ++ be16 c.maxLocals ++ be32 res.code.length ++ res.code ++ eb, smtBytes smt ++ r0, q5, ncs,
    hlen, ku, ?_, ?_, ?_⟩
  · simp only [List.length_append, List.length_map, hz] at hcount ⊢
    omega
  · intro a ha
    obtain ⟨i, hi⟩ : ∃ i, (i, a) ∈ ncs.zip c.attrs := by
      obtain ⟨k, hk, rfl⟩ := List.getElem_of_mem ha
      exact ⟨ncs[k]'(by omega), by
        rw [List.mem_iff_getElem]
        exact ⟨k, by simp [hlen, hk], by simp⟩⟩
    exact hb _ hi
  · simp only [List.length_append, List.length_map, hz, List.flatten_append, attrFrame, List.append_assoc, Nat.add_assoc]

end ClassWriteFull
