import FeatherModel.Lemmas.ClassWriteFullCodeFrames
import FeatherModel.Lemmas.ClassReadLayout

/-!
# C02 (whole writer) — the `StackMapTable` block of `write_code`
-/

namespace ClassWriteFull
open PoolWrite (Entry)
open FramePool (Good Le)
open ClassRead ClassRead.Spec
open FrameReadBack (posOf sFrames IdxIncr collectIdx atPositions)

/-- the buffered `StackMapTable` attribute, if one was written -/
def smtBytes : Option (Nat × Bytes) → List Bytes
  | none => []
  | some (i, b) => [be16 i ++ be32 b.length ++ b]

theorem sStackMapTable_eq : FrameWrite.sStackMapTable = ClassRead.sStackMapTable := rfl

/-- **the `StackMapTable` block**: written exactly when an instruction carries a frame; the attribute is the
specification's encoding (positions = `cpos`) of a frame table that is legal in every later pool and denotes the frames
of the instructions they were collected from -/
theorem framesBlock_spec {res : CodeWrite.Result} {n : Nat} {cpos : Nat → Nat} (hsz : res.pos.size = n)
    (hlabel : ∀ j, j ≤ n → res.label j = some (cpos j))
    (hmono : ∀ a b, a < b → b ≤ n → cpos a < cpos b) (hsmall : cpos n ≤ 32767)
    {fs : List (Option FrameWrite.Frame)} (hok : ∀ f, some f ∈ fs → frameOkR n (rdFrame f))
    {p p' : Pool} {smt : Option (Nat × Bytes)} (hg : Good p)
    (h : FrameWrite.attr res.label p (FrameWrite.framesOf res fs) = .ok (smt, p')) :
    Step p p' ∧ ∃ (nc : Nat) (sfs : List SFrame),
      smtBytes smt =
        ((if sfs = [] then none else some (SCodeAttr.frames nc sfs)).map (SCodeAttr.encode cpos)).toList ∧
      (∀ a ∈ (if sfs = [] then none else some (SCodeAttr.frames nc sfs)), Sound p' (fun rp => a.Legal rp n cpos)) ∧
      sfs.map (fun f => (f.at_, f.kind.fact)) = (collectIdx 0 res.pos.toList fs).map (fun x => (x.1, rdFrame x.2)) ∧
      (sfs.map (fun f => f.kind.labelRefs + 1)).sum =
        ((collectIdx 0 res.pos.toList fs).map (fun x => FrameReadBack.labelDemand x.2)).sum := by
  have hposeq : ∀ t, t ≤ n → posOf res.label t = cpos t := fun t ht => by simp [posOf, hlabel t ht]
  have hP : ∀ (j : Nat) (v : Nat), res.pos.toList[j]? = some v → posOf res.label (0 + j) = v := by
    intro j v hj
    have hj' : res.pos[j]? = some v := by simpa using hj
    simp [posOf, CodeWrite.Result.label, CodeWrite.labelPos, hj']
  have heq : FrameWrite.framesOf res fs = atPositions res.label (collectIdx 0 res.pos.toList fs) :=
    FrameReadBack.collect_eq res.label _ fs 0 hP
  have hbound := FrameReadBack.collectIdx_bound res.pos.toList fs 0
  have hplen : res.pos.toList.length = n := by simpa using hsz
  generalize hifs : collectIdx 0 res.pos.toList fs = ifs at heq hbound
  rw [heq] at h
  unfold FrameWrite.attr at h
  by_cases hemp : ifs = []
  · subst hemp
    simp only [atPositions, List.map_nil, List.isEmpty_nil, if_true] at h
    have := ok_inj.mp h
    simp only [Prod.mk.injEq] at this
    obtain ⟨rfl, rfl⟩ := this
    exact ⟨Step.refl hg, 0, [], by simp [smtBytes], by simp, rfl, rfl⟩
  · have hne : (atPositions res.label ifs).isEmpty = false := by
      cases ifs with
      | nil => exact absurd rfl hemp
      | cons _ _ => simp [atPositions]
    simp only [hne, Bool.false_eq_true, if_false] at h
    cases hb : FrameWrite.body res.label p (atPositions res.label ifs) with
    | error e => rw [hb] at h; cases h
    | ok bp =>
      obtain ⟨b, p1⟩ := bp
      rw [hb] at h
      simp only at h
      cases hu : PoolWrite.putUtf8 p1 FrameWrite.sStackMapTable with
      | none => rw [hu] at h; cases h
      | some ip =>
        obtain ⟨i, p2⟩ := ip
        rw [hu] at h
        simp only at h
        split at h
        · cases h
        · rename_i hblen
          have := ok_inj.mp h
          simp only [Prod.mk.injEq] at this
          obtain ⟨rfl, rfl⟩ := this
          -- the body
          unfold FrameWrite.body at hb
          split at hb
          · cases hb
          · rename_i hcnt
            cases hw : FrameWrite.writeFrames res.label p none (atPositions res.label ifs) with
            | error e => rw [hw] at hb; cases hb
            | ok bp' =>
              obtain ⟨bs, p1'⟩ := bp'
              rw [hw] at hb
              have := ok_inj.mp hb
              simp only [Prod.mk.injEq] at this
              obtain ⟨rfl, rfl⟩ := this
              have hmono' : ∀ a b, a < b → b ≤ n → posOf res.label a < posOf res.label b := by
                intro a b hab hbn
                rw [hposeq a (by omega), hposeq b hbn]
                exact hmono a b hab hbn
              have hinc : IdxIncr res.label none ifs := by
                rw [← hifs]
                exact FrameReadBack.collectIdx_incr res.label n hmono' (by rw [hposeq n (Nat.le_refl _)]; omega) _ fs 0 none
                  (by omega) trivial
              obtain ⟨sfs, hs, hbs, hl⟩ := FrameReadBack.writeFrames_enc ifs none hinc hw
              have hfok : ∀ x ∈ ifs, FrameDenote.frameOk res.label x.2 = true := by
                have := FrameWrite.writeFrames_ok_imp (atPositions res.label ifs) hw
                intro x hx
                simp only [atPositions, List.all_map, List.all_eq_true] at this
                exact this x hx
              have hidx : ∀ x ∈ ifs, x.1 < n := by
                intro x hx
                have := (hbound x hx).2.1
                omega
              have hR : ∀ x ∈ ifs, frameOkR n (rdFrame x.2) := by
                intro x hx
                have := (hbound x hx).2.2
                exact hok x.2 (List.mem_of_getElem? (by simpa using this))
              obtain ⟨s1, hfact, hsound⟩ := sFrames_sound (n := n) ifs none hg hs hinc hidx hfok hR
              obtain ⟨s2, a2, hi⟩ := putUtf8_spec s1.good (opt_eq_ok.mpr hu)
              have hsne : sfs ≠ [] := by
                intro hnil
                subst hnil
                simp at hl
                exact hemp (List.eq_nil_of_length_eq_zero hl.symm)
              have hcong := fun (q : Pool) (hq : Ext p1' q) =>
                frames_congr (rp := rpool q) (n := n) (pos := posOf res.label) (pos' := cpos)
                  (fun t ht => hposeq t (by omega)) sfs none (by intro i hi'; cases hi') (hsound q hq)
              have henc : encFrames (posOf res.label) none sfs = encFrames cpos none sfs :=
                (hcong p1' (Ext.refl s1.good)).2
              have hlen : (atPositions res.label ifs).length = sfs.length := by simp [atPositions, hl]
              refine ⟨s1.trans s2, i, sfs, ?_, ?_, hfact, FrameReadBack.sFrames_refs ifs none hs⟩
              · simp only [smtBytes, hsne, if_false, Option.map_some, Option.toList, SCodeAttr.encode, attrFrame]
                rw [hbs, hlen, FrameReadBack.u16b_be16]
                simp only [Option.map_none]
                rw [henc]
              · intro a ha q hq
                simp only [hsne, if_false] at ha
                cases Option.mem_some_iff.mp ha
                refine ⟨hi, ?_, by omega, (hcong q (hq.of_le s2.le)).1, ?_⟩
                · rw [← sStackMapTable_eq]; exact getUtf8_of hq.good (a2.mono hq.le)
                · have : (be16 sfs.length ++ encFrames cpos none sfs).length =
                      (CodeWrite.u16b (atPositions res.label ifs).length ++ bs).length := by
                    rw [hbs, hlen, FrameReadBack.u16b_be16]
                    simp only [Option.map_none]
                    rw [henc]
                  rw [this]
                  omega

end ClassWriteFull
