import FeatherModel.Lemmas.ReorderList

/-!
# The relational specification of `reorder` and its equivalence with the model

`Spec m req m'` says, without mentioning how the result is built: entry `i` of every map of `m'` comes from entry `i` of
the corresponding map of `m` (order preserved); its name row is the old row read through the lookup table; its
descriptor is the old one rewritten by the class map `0 → table[0]`; comments and parameter indices are equal; it is
stored under the key derived from its *new* info; the keys of every result map are pairwise different.
-/

namespace Reorder
open MapDesc

def ParamRel (table : List Nat) (e e' : Nat × Param) : Prop :=
  e'.1 = e.2.index ∧ e'.2.index = e.2.index ∧ e'.2.names = reorderNames table e.2.names ∧ e'.2.doc = e.2.doc

def FieldRel (f : JStr → JStr) (table : List Nat) (e e' : MemberKey × Field) : Prop :=
  mapDesc f e.2.desc = some e'.2.desc ∧ e'.2.names = reorderNames table e.2.names ∧ e'.2.doc = e.2.doc ∧
  e'.2.names.head? = some (some e'.1.1) ∧ e'.1.2 = e'.2.desc

def MethodRel (f : JStr → JStr) (table : List Nat) (e e' : MemberKey × Method) : Prop :=
  mapDesc f e.2.desc = some e'.2.desc ∧ e'.2.names = reorderNames table e.2.names ∧ e'.2.doc = e.2.doc ∧
  e'.2.names.head? = some (some e'.1.1) ∧ e'.1.2 = e'.2.desc ∧
  ListRel (ParamRel table) e.2.params e'.2.params ∧ (AList.keys e'.2.params).Nodup

def ClassRel (f : JStr → JStr) (table : List Nat) (e e' : JStr × Class) : Prop :=
  e'.2.names = reorderNames table e.2.names ∧ e'.2.doc = e.2.doc ∧ e'.2.names.head? = some (some e'.1) ∧
  ListRel (FieldRel f table) e.2.fields e'.2.fields ∧ (AList.keys e'.2.fields).Nodup ∧
  ListRel (MethodRel f table) e.2.methods e'.2.methods ∧ (AList.keys e'.2.methods).Nodup

def Spec (m : Mappings) (req : List JStr) (m' : Mappings) : Prop :=
  req.length = m.ns.length ∧ ∃ t0 rest, tableOf m req = some (t0 :: rest) ∧
    m'.ns = (t0 :: rest).map (fun i => m.ns.getD i []) ∧ m'.doc = m.doc ∧
    ListRel (ClassRel (mapClass (rows m t0)) (t0 :: rest)) m.classes m'.classes ∧ (AList.keys m'.classes).Nodup

theorem ListRel.congr {α β : Type} {R S : α → β → Prop} (h : ∀ a b, R a b ↔ S a b) {l : List α} {l' : List β} :
    ListRel R l l' ↔ ListRel S l l' :=
  ⟨fun hr => hr.imp_mem (fun a _ b _ => (h a b).mp), fun hs => hs.imp_mem (fun a _ b _ => (h a b).mpr)⟩

/-- `map_with_key_from_result_iter(map.values().map(mk))` -/
theorem buildVals_iff {K0 K V W : Type} [BEq K] [LawfulBEq K] {mk : V → Option (K × W)}
    {R : K0 × V → K × W → Prop} (hR : ∀ e e', mk e.2 = some e' ↔ R e e') {l : AList K0 V} {l' : AList K W} :
    buildMap mk (AList.values l) [] = some l' ↔ ListRel R l l' ∧ (AList.keys l').Nodup := by
  rw [buildMap_iff, mapOpt_iff]
  unfold AList.values
  rw [ListRel.map_left, ListRel.congr hR]

theorem firstName_iff {names : Names} {n : JStr} : firstName names = some n ↔ names.head? = some (some n) := by
  unfold firstName
  cases names.head? with
  | none => simp
  | some o => cases o <;> simp

theorem reorderParam_iff {table : List Nat} (e e' : Nat × Param) :
    reorderParam table e.2 = some e' ↔ ParamRel table e e' := by
  obtain ⟨k', p'⟩ := e'
  cases p'
  simp only [reorderParam, ParamRel, Option.some.injEq, Prod.mk.injEq, Param.mk.injEq]
  constructor
  · rintro ⟨a, b, c, d⟩; exact ⟨a.symm, b.symm, c.symm, d.symm⟩
  · rintro ⟨a, b, c, d⟩; exact ⟨a.symm, b.symm, c.symm, d.symm⟩

theorem reorderField_iff {f : JStr → JStr} {table : List Nat} (e e' : MemberKey × Field) :
    reorderField f table e.2 = some e' ↔ FieldRel f table e e' := by
  obtain ⟨⟨n', kd'⟩, fl'⟩ := e'
  cases fl' with
  | mk desc' names' doc' =>
  simp only [reorderField, FieldRel]
  constructor
  · intro h
    split at h
    · simp at h
    · rename_i d hd
      split at h
      · simp at h
      · rename_i n hn
        simp only [Option.some.injEq, Prod.mk.injEq, Field.mk.injEq] at h
        obtain ⟨⟨h1, h2⟩, h3, h4, h5⟩ := h
        subst h1 h2 h3 h4 h5
        exact ⟨hd, rfl, rfl, firstName_iff.mp hn, rfl⟩
  · rintro ⟨h1, h2, h3, h4, h5⟩
    subst h2 h3 h5
    rw [h1]
    simp only
    rw [firstName_iff.mpr h4]

theorem reorderMethod_iff {f : JStr → JStr} {table : List Nat} (e e' : MemberKey × Method) :
    reorderMethod f table e.2 = some e' ↔ MethodRel f table e e' := by
  obtain ⟨⟨n', kd'⟩, mt'⟩ := e'
  cases mt' with
  | mk desc' names' doc' params' =>
  simp only [reorderMethod, MethodRel]
  constructor
  · intro h
    split at h
    · simp at h
    · rename_i d hd
      split at h
      · simp at h
      · rename_i ps hps
        split at h
        · simp at h
        · rename_i n hn
          simp only [Option.some.injEq, Prod.mk.injEq, Method.mk.injEq] at h
          obtain ⟨⟨h1, h2⟩, h3, h4, h5, h6⟩ := h
          subst h1 h2 h3 h4 h5 h6
          have := (buildVals_iff (R := ParamRel table) (fun a b => reorderParam_iff a b)).mp hps
          exact ⟨hd, rfl, rfl, firstName_iff.mp hn, rfl, this.1, this.2⟩
  · rintro ⟨h1, h2, h3, h4, h5, h6, h7⟩
    subst h2 h3 h5
    rw [h1]
    simp only
    rw [(buildVals_iff (R := ParamRel table) (fun a b => reorderParam_iff a b)).mpr ⟨h6, h7⟩]
    simp only
    rw [firstName_iff.mpr h4]

theorem reorderClass_iff {f : JStr → JStr} {table : List Nat} (e e' : JStr × Class) :
    reorderClass f table e.2 = some e' ↔ ClassRel f table e e' := by
  obtain ⟨n', c'⟩ := e'
  cases c' with
  | mk names' doc' fields' methods' =>
  simp only [reorderClass, ClassRel]
  constructor
  · intro h
    split at h
    · simp at h
    · rename_i fs hfs
      split at h
      · simp at h
      · rename_i ms hms
        split at h
        · simp at h
        · rename_i n hn
          simp only [Option.some.injEq, Prod.mk.injEq, Class.mk.injEq] at h
          obtain ⟨h1, h3, h4, h5, h6⟩ := h
          subst h1 h3 h4 h5 h6
          have hf := (buildVals_iff (R := FieldRel f table) (fun a b => reorderField_iff a b)).mp hfs
          have hm := (buildVals_iff (R := MethodRel f table) (fun a b => reorderMethod_iff a b)).mp hms
          exact ⟨rfl, rfl, firstName_iff.mp hn, hf.1, hf.2, hm.1, hm.2⟩
  · rintro ⟨h1, h2, h3, h4, h5, h6, h7⟩
    subst h1 h2
    rw [(buildVals_iff (R := FieldRel f table) (fun a b => reorderField_iff a b)).mpr ⟨h4, h5⟩]
    simp only
    rw [(buildVals_iff (R := MethodRel f table) (fun a b => reorderMethod_iff a b)).mpr ⟨h6, h7⟩]
    simp only
    rw [firstName_iff.mpr h3]

/-- the model computes exactly the specified result, and fails exactly when no such result exists -/
theorem reorder_iff_spec {m m' : Mappings} {req : List JStr} : reorder m req = some m' ↔ Spec m req m' := by
  unfold reorder Spec
  constructor
  · intro h
    split at h
    · simp at h
    · rename_i hlen
      have hlen' : req.length = m.ns.length := by simpa using hlen
      split at h
      · simp at h
      · rename_i table htab
        split at h
        · simp at h
        · rename_i t0 rest
          simp only at h
          split at h
          · simp at h
          · rename_i cs hcs
            simp only [Option.some.injEq] at h
            subst h
            have hc := (buildVals_iff (R := ClassRel (mapClass (rows m t0)) (t0 :: rest))
              (fun a b => reorderClass_iff a b)).mp hcs
            exact ⟨hlen', t0, rest, htab, rfl, rfl, hc.1, hc.2⟩
  · rintro ⟨hlen, t0, rest, htab, hns, hdoc, hrel, hnd⟩
    have hlen' : ¬ req.length ≠ m.ns.length := by simp [hlen]
    simp only [hlen', if_false, htab]
    rw [(buildVals_iff (R := ClassRel (mapClass (rows m t0)) (t0 :: rest))
      (fun a b => reorderClass_iff a b)).mpr ⟨hrel, hnd⟩]
    simp only
    cases m'
    simp only at hns hdoc
    subst hns hdoc
    rfl

end Reorder
