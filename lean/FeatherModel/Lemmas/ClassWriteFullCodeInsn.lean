import FeatherModel.Model.ClassWriteFull
import FeatherModel.Lemmas.CodeSwitchDecode
import FeatherModel.Lemmas.FrameReadBackCode
import FeatherModel.Spec.ClassEncode

/-!
# C02 (whole writer) — one instruction of `write_code` as C01's specification encodes it

`CodeWrite` names constants by pool index and labels by instruction index; C01's specification (`Spec.SInsn`) carries
the symbolic operand, the pool index used and the *form* chosen.  For an attempt in which no jump was widened
(`isWide = false`, every offset fits 16 bits) the final bytes of instruction `i` are `SInsn.encode` of `sinsnOf cp ri`:
the form is the writer's own choice (shortest: `xload_n` / `xload` / `wide xload`, `ldc` / `ldc_w` / `ldc2_w`,
`iinc` / `wide iinc`, `ret` / `wide ret`), switch padding is zero, the `count` of `invokeinterface` is
`get_arguments_size`.
-/

namespace ClassWriteFull
open ClassRead ClassRead.Spec
open CodeWrite (encInsn resolveAt LabelsOk offs fitsI16 Unwritten)
open FrameReadBack (posOf)

/-- what `putInsn` makes of a tree instruction whose labels are instruction indices and whose constant got the pool
index `cp` -/
def cw (cp : Nat) : ClassRead.Insn → Option CodeWrite.Insn
  | .simple op => some (.simple op)
  | .bipush v => some (.bipush v)
  | .sipush v => some (.sipush v)
  | .ldc c => some (.ldc cp (isTwoSlot c))
  | .load k i => some (.load k i)
  | .store k i => some (.store k i)
  | .iinc i v => some (.iinc i v)
  | .branch op t => (condOfOp op).map (fun c => .ifc c t)
  | .goto t => some (.goto t)
  | .jsr t => some (.jsr t)
  | .ret i => some (.ret i)
  | .tableswitch d lo hi tbl => some (.tableswitch d lo hi tbl)
  | .lookupswitch d ps => some (.lookupswitch d ps)
  | .field op _ => some (.cp op cp)
  | .invokevirtual _ => some (.cp 0xb6 cp)
  | .invokespecial _ _ => some (.cp 0xb7 cp)
  | .invokestatic _ _ => some (.cp 0xb8 cp)
  | .invokeinterface m => some (.invokeinterface cp m.desc)
  | .invokedynamic _ => some (.invokedynamic cp)
  | .new _ => some (.cp 0xbb cp)
  | .newarray a => some (.newarray a)
  | .anewarray _ => some (.cp 0xbd cp)
  | .checkcast _ => some (.cp 0xc0 cp)
  | .instanceof _ => some (.cp 0xc1 cp)
  | .multianewarray _ d => some (.multianewarray cp d)

def localForm (i : Nat) : Form := if i < 4 then .short else if i ≤ 255 then .plain else .wide

/-- the form the writer chooses (no widened jumps) -/
def formOf (cp : Nat) : ClassRead.Insn → Form
  | .ldc c => if isTwoSlot c then .wide else if cp ≤ 255 then .short else .plain
  | .load _ i => localForm i
  | .store _ i => localForm i
  | .iinc i v => if i ≤ 255 ∧ -128 ≤ v ∧ v ≤ 127 then .plain else .wide
  | .ret i => if i ≤ 255 then .plain else .wide
  | _ => .plain

/-- switch padding bytes are zero; the `count` of `invokeinterface` is `get_arguments_size` -/
def padOf : ClassRead.Insn → Nat
  | .invokeinterface m => match CodeWrite.argsSize m.desc with | .ok c => c | .error _ => 0
  | _ => 0

def sinsnOf (cp : Nat) (ri : ClassRead.Insn) : SInsn := ⟨ri, formOf cp ri, cp, padOf ri⟩

theorem i16b_be16 (v : Int) : CodeWrite.i16b v = be16 (ofI16 v) := rfl
theorem i32b_be32 (v : Int) : CodeWrite.i32b v = be32 (ofI32 v) := rfl
theorem u16b_be16' (n : Nat) : CodeWrite.u16b n = be16 n := rfl

/-- an `if op = k₁ then some v₁ else if …` chain as a table look-up -/
def lookupIf {α : Type} : List (Nat × α) → Nat → Option α
  | [], _ => none
  | (k, v) :: rest, op => if op = k then some v else lookupIf rest op

theorem lookupIf_some {α : Type} : ∀ (tbl : List (Nat × α)) {op : Nat} {v : α}, lookupIf tbl op = some v → (op, v) ∈ tbl
  | [], _, _, h => by cases h
  | (k, w) :: rest, op, v, h => by
    simp only [lookupIf] at h
    by_cases hk : op = k
    · rw [if_pos hk] at h
      cases h
      subst hk
      exact List.mem_cons_self
    · rw [if_neg hk] at h
      exact List.mem_cons_of_mem _ (lookupIf_some rest h)

theorem condOfOp_table (op : Nat) : condOfOp op = lookupIf
    [(0x99, .eq), (0x9a, .ne), (0x9b, .lt), (0x9c, .ge), (0x9d, .gt), (0x9e, .le), (0x9f, .icmpeq), (0xa0, .icmpne),
     (0xa1, .icmplt), (0xa2, .icmpge), (0xa3, .icmpgt), (0xa4, .icmple), (0xa5, .acmpeq), (0xa6, .acmpne), (0xc6, .null),
     (0xc7, .nonnull)] op := rfl

theorem condOfOp_opcode {op : Nat} {c : CodeWrite.Cond} (h : condOfOp op = some c) : c.opcode = op := by
  rw [condOfOp_table] at h
  have hm := lookupIf_some _ h
  simp only [List.mem_cons, Prod.mk.injEq, List.not_mem_nil, or_false] at hm
  rcases hm with ⟨rfl, rfl⟩ | ⟨rfl, rfl⟩ | ⟨rfl, rfl⟩ | ⟨rfl, rfl⟩ | ⟨rfl, rfl⟩ | ⟨rfl, rfl⟩ | ⟨rfl, rfl⟩ | ⟨rfl, rfl⟩ |
    ⟨rfl, rfl⟩ | ⟨rfl, rfl⟩ | ⟨rfl, rfl⟩ | ⟨rfl, rfl⟩ | ⟨rfl, rfl⟩ | ⟨rfl, rfl⟩ | ⟨rfl, rfl⟩ | ⟨rfl, rfl⟩ <;> rfl

/-- the opcode of a tree branch instruction the writer accepts is one of the 16 conditional branches -/
theorem condOfOp_isCond {op : Nat} {c : CodeWrite.Cond} (h : condOfOp op = some c) : isCondBranchOp op = true := by
  rw [condOfOp_table] at h
  have hm := lookupIf_some _ h
  simp only [List.mem_cons, Prod.mk.injEq, List.not_mem_nil, or_false] at hm
  rcases hm with ⟨rfl, rfl⟩ | ⟨rfl, rfl⟩ | ⟨rfl, rfl⟩ | ⟨rfl, rfl⟩ | ⟨rfl, rfl⟩ | ⟨rfl, rfl⟩ | ⟨rfl, rfl⟩ | ⟨rfl, rfl⟩ |
    ⟨rfl, rfl⟩ | ⟨rfl, rfl⟩ | ⟨rfl, rfl⟩ | ⟨rfl, rfl⟩ | ⟨rfl, rfl⟩ | ⟨rfl, rfl⟩ | ⟨rfl, rfl⟩ | ⟨rfl, rfl⟩ <;> rfl

theorem be32_ofI32_nat (n : Nat) : be32 (ofI32 (n : Int)) = be32 n := by
  have : ofI32 (n : Int) = n % 4294967296 := by unfold ofI32; omega
  rw [this]
  simp only [be32, List.cons.injEq, and_true]
  omega

theorem relOff_eq {lp : Nat → Option Nat} {t tp : Nat} (h : lp t = some tp) (p : Nat) :
    relOff (posOf lp) p t = offs p tp := by
  simp [relOff, posOf, h, offs]

/-- a forward / backward narrow jump in an attempt without widened jumps -/
theorem narrow_jump {lbl lp : Nat → Option Nat} {op wop p k t : Nat} {r : Bytes × List Unwritten} {fin : Bytes}
    (hok : LabelsOk lbl lp) (hfit : ∀ t tp, lp t = some tp → fitsI16 (offs p tp) = true)
    (henc : CodeWrite.encGoto op wop false lbl p k t = .ok r) (hres : resolveAt p lp r.2 r.1 = some fin) :
    fin = op :: be16 (ofI16 (relOff (posOf lp) p t)) := by
  unfold CodeWrite.encGoto at henc
  split at henc
  · rename_i tp htp
    have hl := hok.sub _ _ htp
    rw [hfit t tp hl] at henc
    simp only [if_true] at henc
    cases henc
    simp only [CodeWrite.resolveAt_nil, Option.some.injEq] at hres
    rw [← hres, relOff_eq hl, i16b_be16]
  · simp only [Bool.false_eq_true, if_false] at henc
    cases henc
    obtain ⟨tp, hl, _, rfl⟩ := CodeWrite.narrow_fin hres
    rw [relOff_eq hl, i16b_be16]

theorem narrow_if {lbl lp : Nat → Option Nat} {c : CodeWrite.Cond} {p k t : Nat} {r : Bytes × List Unwritten} {fin : Bytes}
    (hok : LabelsOk lbl lp) (hfit : ∀ t tp, lp t = some tp → fitsI16 (offs p tp) = true)
    (henc : CodeWrite.encIf c false lbl p k t = .ok r) (hres : resolveAt p lp r.2 r.1 = some fin) :
    fin = c.opcode :: be16 (ofI16 (relOff (posOf lp) p t)) := by
  unfold CodeWrite.encIf at henc
  split at henc
  · rename_i tp htp
    have hl := hok.sub _ _ htp
    rw [hfit t tp hl] at henc
    simp only [if_true] at henc
    cases henc
    simp only [CodeWrite.resolveAt_nil, Option.some.injEq] at hres
    rw [← hres, relOff_eq hl, i16b_be16]
  · simp only [Bool.false_eq_true, if_false] at henc
    cases henc
    obtain ⟨tp, hl, _, rfl⟩ := CodeWrite.narrow_fin hres
    rw [relOff_eq hl, i16b_be16]

theorem finTable_eq {lp : Nat → Option Nat} {p : Nat} : ∀ (ts : List Nat) {b : Bytes}, CodeWrite.finTable lp p ts = some b →
    b = ts.flatMap (fun t => be32 (ofI32 (relOff (posOf lp) p t)))
  | [], b, h => by simp only [CodeWrite.finTable, Option.some.injEq] at h; subst h; rfl
  | t :: ts, b, h => by
    simp only [CodeWrite.finTable] at h
    split at h
    · rename_i tp r' hl hr
      cases h
      rw [finTable_eq ts hr, List.flatMap_cons, relOff_eq hl, i32b_be32]
    · cases h

theorem finPairs_eq {lp : Nat → Option Nat} {p : Nat} : ∀ (ps : List (Int × Nat)) {b : Bytes},
    CodeWrite.finPairs lp p ps = some b →
    b = ps.flatMap (fun kt => be32 (ofI32 kt.1) ++ be32 (ofI32 (relOff (posOf lp) p kt.2)))
  | [], b, h => by simp only [CodeWrite.finPairs, Option.some.injEq] at h; subst h; rfl
  | kt :: ps, b, h => by
    simp only [CodeWrite.finPairs] at h
    split at h
    · rename_i tp r' hl hr
      cases h
      rw [finPairs_eq ps hr, List.flatMap_cons, relOff_eq hl, i32b_be32, i32b_be32, List.append_assoc]
    · cases h

theorem tableswitch_fin {lbl lp : Nat → Option Nat} {p k d : Nat} {lo hi : Int} {tb : List Nat}
    {r : Bytes × List Unwritten} {fin : Bytes} (hok : LabelsOk lbl lp)
    (henc : CodeWrite.encTableSwitch lbl p k d lo hi tb = .ok r) (hres : resolveAt p lp r.2 r.1 = some fin) :
    fin = 0xaa :: List.replicate (padLen p) 0 ++ be32 (ofI32 (relOff (posOf lp) p d)) ++ be32 (ofI32 lo) ++ be32 (ofI32 hi)
      ++ tb.flatMap (fun t => be32 (ofI32 (relOff (posOf lp) p t))) := by
  unfold CodeWrite.encTableSwitch at henc
  simp only at henc
  split at henc
  · cases henc
  · split at henc
    · cases henc
    · split at henc
      · cases henc
      · cases henc
        simp only at hres
        rw [CodeWrite.resolveAt_append] at hres
        have e1 : 0xaa :: List.replicate (CodeWrite.padLen p) 0 ++ (CodeWrite.swLabel lbl p k (p + 1 + CodeWrite.padLen p) d).1 ++
              CodeWrite.i32b lo ++ CodeWrite.i32b hi ++ (CodeWrite.swTable lbl p k (p + 1 + CodeWrite.padLen p + 12) tb).1 =
            (0xaa :: List.replicate (CodeWrite.padLen p) 0) ++ (CodeWrite.swLabel lbl p k (p + 1 + CodeWrite.padLen p) d).1 ++
              (CodeWrite.i32b lo ++ CodeWrite.i32b hi ++ (CodeWrite.swTable lbl p k (p + 1 + CodeWrite.padLen p + 12) tb).1) := by
          simp
        rw [e1, CodeWrite.swLabel_resolve hok p p k (p + 1 + CodeWrite.padLen p) d _ _ (by omega) (by simp; omega)] at hres
        cases hld : lp d with
        | none => simp [hld] at hres
        | some dtp =>
          simp only [hld, Option.map_some, Option.bind_some] at hres
          have e2 : (0xaa :: List.replicate (CodeWrite.padLen p) 0) ++ CodeWrite.i32b (offs p dtp) ++
                (CodeWrite.i32b lo ++ CodeWrite.i32b hi ++ (CodeWrite.swTable lbl p k (p + 1 + CodeWrite.padLen p + 12) tb).1) =
              ((0xaa :: List.replicate (CodeWrite.padLen p) 0) ++ CodeWrite.i32b (offs p dtp) ++ CodeWrite.i32b lo ++ CodeWrite.i32b hi) ++
                (CodeWrite.swTable lbl p k (p + 1 + CodeWrite.padLen p + 12) tb).1 ++ [] := by simp
          rw [e2, CodeWrite.swTable_resolve hok p p k [] tb (p + 1 + CodeWrite.padLen p + 12) _ (by omega)
            (by simp [CodeWrite.i32b_length]; omega)] at hres
          cases hft : CodeWrite.finTable lp p tb with
          | none => simp [hft] at hres
          | some b =>
            simp only [hft, Option.map_some, Option.some.injEq, List.append_nil] at hres
            subst hres
            rw [finTable_eq tb hft, relOff_eq hld, i32b_be32, i32b_be32, i32b_be32]
            rfl

theorem lookupswitch_fin {lbl lp : Nat → Option Nat} {p k d : Nat} {ps : List (Int × Nat)}
    {r : Bytes × List Unwritten} {fin : Bytes} (hok : LabelsOk lbl lp)
    (henc : CodeWrite.encLookupSwitch lbl p k d ps = .ok r) (hres : resolveAt p lp r.2 r.1 = some fin) :
    fin = 0xab :: List.replicate (padLen p) 0 ++ be32 (ofI32 (relOff (posOf lp) p d)) ++ be32 (ofI32 (ps.length : Int))
      ++ ps.flatMap (fun kt => be32 (ofI32 kt.1) ++ be32 (ofI32 (relOff (posOf lp) p kt.2))) := by
  unfold CodeWrite.encLookupSwitch at henc
  simp only at henc
  split at henc
  · cases henc
  · cases henc
    simp only at hres
    rw [CodeWrite.resolveAt_append] at hres
    have e1 : 0xab :: List.replicate (CodeWrite.padLen p) 0 ++ (CodeWrite.swLabel lbl p k (p + 1 + CodeWrite.padLen p) d).1 ++
          CodeWrite.i32b ↑ps.length ++ (CodeWrite.swPairs lbl p k (p + 1 + CodeWrite.padLen p + 8) ps).1 =
        (0xab :: List.replicate (CodeWrite.padLen p) 0) ++ (CodeWrite.swLabel lbl p k (p + 1 + CodeWrite.padLen p) d).1 ++
          (CodeWrite.i32b ↑ps.length ++ (CodeWrite.swPairs lbl p k (p + 1 + CodeWrite.padLen p + 8) ps).1) := by simp
    rw [e1, CodeWrite.swLabel_resolve hok p p k (p + 1 + CodeWrite.padLen p) d _ _ (by omega) (by simp; omega)] at hres
    cases hld : lp d with
    | none => simp [hld] at hres
    | some dtp =>
      simp only [hld, Option.map_some, Option.bind_some] at hres
      have e2 : (0xab :: List.replicate (CodeWrite.padLen p) 0) ++ CodeWrite.i32b (offs p dtp) ++
            (CodeWrite.i32b ↑ps.length ++ (CodeWrite.swPairs lbl p k (p + 1 + CodeWrite.padLen p + 8) ps).1) =
          ((0xab :: List.replicate (CodeWrite.padLen p) 0) ++ CodeWrite.i32b (offs p dtp) ++ CodeWrite.i32b ↑ps.length) ++
            (CodeWrite.swPairs lbl p k (p + 1 + CodeWrite.padLen p + 8) ps).1 ++ [] := by simp
      rw [e2, CodeWrite.swPairs_resolve hok p p k [] ps (p + 1 + CodeWrite.padLen p + 8) _ (by omega)
        (by simp [CodeWrite.i32b_length]; omega)] at hres
      cases hft : CodeWrite.finPairs lp p ps with
      | none => simp [hft] at hres
      | some b =>
        simp only [hft, Option.map_some, Option.some.injEq, List.append_nil] at hres
        subst hres
        rw [finPairs_eq ps hft, relOff_eq hld, i32b_be32, i32b_be32]
        rfl

/-- instructions that are written without looking at labels: the chunk is final as written -/
theorem plain_fin {i : CodeWrite.Insn} {lbl lp : Nat → Option Nat} {p k : Nat} {r : Bytes × List Unwritten} {fin : Bytes}
    (hnl : CodeWrite.plainInsn i = true) (henc : encInsn false lbl p k i = .ok r) (hres : resolveAt p lp r.2 r.1 = some fin) :
    fin = r.1 := by
  have hu := CodeWrite.plain_unw hnl henc
  rw [hu, CodeWrite.resolveAt_nil] at hres
  exact (Option.some.inj hres).symm

/-- **one instruction**: in an attempt without widened jumps the final bytes of instruction `i = cw cp ri` at `p` are the
specification's encoding of `sinsnOf cp ri`, every offset computed from the final label table -/
theorem encInsn_sinsn {ri : ClassRead.Insn} {cp : Nat} {i : CodeWrite.Insn} (hcw : cw cp ri = some i)
    {lbl lp : Nat → Option Nat} {p k : Nat} {r : Bytes × List Unwritten} {fin : Bytes} (hok : LabelsOk lbl lp)
    (hfit : ∀ t tp, lp t = some tp → fitsI16 (offs p tp) = true)
    (henc : encInsn false lbl p k i = .ok r) (hres : resolveAt p lp r.2 r.1 = some fin) :
    fin = (sinsnOf cp ri).encode (posOf lp) p := by
  cases ri with
  | simple op =>
    cases hcw
    rw [plain_fin rfl henc hres]
    simp only [encInsn] at henc; cases henc; rfl
  | bipush v =>
    cases hcw
    rw [plain_fin rfl henc hres]
    simp only [encInsn] at henc; cases henc; rfl
  | sipush v =>
    cases hcw
    rw [plain_fin rfl henc hres]
    simp only [encInsn] at henc; cases henc; rfl
  | ldc c =>
    cases hcw
    rw [plain_fin rfl henc hres]
    simp only [encInsn] at henc; cases henc
    simp only [CodeWrite.encLdc, sinsnOf, formOf]
    split
    · simp [SInsn.encode, u16b_be16']
    · split
      · simp [SInsn.encode]
      · simp [SInsn.encode, u16b_be16']
  | load kd ix =>
    cases hcw
    rw [plain_fin rfl henc hres]
    simp only [encInsn] at henc; cases henc
    simp only [CodeWrite.encLocal, sinsnOf, formOf, localForm]
    split
    · simp only [SInsn.encode]; congr 1; omega
    · split
      · simp [SInsn.encode]
      · simp [SInsn.encode, u16b_be16']
  | store kd ix =>
    cases hcw
    rw [plain_fin rfl henc hres]
    simp only [encInsn] at henc; cases henc
    simp only [CodeWrite.encLocal, sinsnOf, formOf, localForm]
    split
    · simp only [SInsn.encode]; congr 1; omega
    · split
      · simp [SInsn.encode]
      · simp [SInsn.encode, u16b_be16']
  | iinc ix v =>
    cases hcw
    rw [plain_fin rfl henc hres]
    simp only [encInsn] at henc; cases henc
    simp only [CodeWrite.encIinc, sinsnOf, formOf]
    split
    · simp [SInsn.encode, CodeWrite.i8b, ofI8]
    · simp [SInsn.encode, u16b_be16', i16b_be16]
  | branch op t =>
    simp only [cw, Option.map_eq_some_iff] at hcw
    obtain ⟨c, hc, rfl⟩ := hcw
    simp only [encInsn] at henc
    rw [narrow_if hok hfit henc hres, condOfOp_opcode hc]
    rfl
  | goto t =>
    cases hcw
    simp only [encInsn] at henc
    rw [narrow_jump hok hfit henc hres]
    rfl
  | jsr t =>
    cases hcw
    simp only [encInsn] at henc
    rw [narrow_jump hok hfit henc hres]
    rfl
  | ret ix =>
    cases hcw
    rw [plain_fin rfl henc hres]
    simp only [encInsn] at henc; cases henc
    simp only [CodeWrite.encRet, sinsnOf, formOf]
    split
    · simp [SInsn.encode]
    · simp [SInsn.encode, u16b_be16']
  | tableswitch d lo hi tbl =>
    cases hcw
    simp only [encInsn] at henc
    rw [tableswitch_fin hok henc hres]
    rfl
  | lookupswitch d ps =>
    cases hcw
    simp only [encInsn] at henc
    rw [lookupswitch_fin hok henc hres, be32_ofI32_nat]
    rfl
  | field op r' =>
    cases hcw
    rw [plain_fin rfl henc hres]
    simp only [encInsn] at henc; cases henc; rfl
  | invokevirtual m =>
    cases hcw
    rw [plain_fin rfl henc hres]
    simp only [encInsn] at henc; cases henc; rfl
  | invokespecial m itf =>
    cases hcw
    rw [plain_fin rfl henc hres]
    simp only [encInsn] at henc; cases henc; rfl
  | invokestatic m itf =>
    cases hcw
    rw [plain_fin rfl henc hres]
    simp only [encInsn] at henc; cases henc; rfl
  | invokeinterface m =>
    cases hcw
    rw [plain_fin rfl henc hres]
    simp only [encInsn] at henc
    split at henc
    · cases henc
    · rename_i c hc
      cases henc
      simp [sinsnOf, SInsn.encode, padOf, hc, u16b_be16', formOf]
  | invokedynamic d =>
    cases hcw
    rw [plain_fin rfl henc hres]
    simp only [encInsn] at henc; cases henc
    simp [sinsnOf, SInsn.encode, u16b_be16', formOf]
  | new c =>
    cases hcw
    rw [plain_fin rfl henc hres]
    simp only [encInsn] at henc; cases henc; rfl
  | newarray a =>
    cases hcw
    rw [plain_fin rfl henc hres]
    simp only [encInsn] at henc; cases henc; rfl
  | anewarray c =>
    cases hcw
    rw [plain_fin rfl henc hres]
    simp only [encInsn] at henc; cases henc; rfl
  | checkcast c =>
    cases hcw
    rw [plain_fin rfl henc hres]
    simp only [encInsn] at henc; cases henc; rfl
  | instanceof c =>
    cases hcw
    rw [plain_fin rfl henc hres]
    simp only [encInsn] at henc; cases henc; rfl
  | multianewarray c d =>
    cases hcw
    rw [plain_fin rfl henc hres]
    simp only [encInsn] at henc; cases henc
    simp [sinsnOf, SInsn.encode, u16b_be16', formOf]

end ClassWriteFull
