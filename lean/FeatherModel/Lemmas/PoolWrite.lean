import FeatherModel.Model.PoolWrite

/-!
# The hash-consed constant pool writer
-/

namespace PoolWrite

theorem slots_pos (e : Entry) : 1 ≤ slots e := by cases e <;> simp [slots]
theorem slots_le (e : Entry) : slots e ≤ 2 := by cases e <;> simp [slots]

/-- entries (newest first) are stacked without gaps from index 1 up to `count`, each occupying `slots` indices,
and no entry occurs twice -/
inductive WF : Nat → List (Entry × Nat) → Prop
  | nil : WF 1 []
  | cons {c : Nat} {e : Entry} {i : Nat} {rest : List (Entry × Nat)} :
      WF i rest → find e rest = none → c = i + slots e → WF c ((e, i) :: rest)

def Pool.WF (p : Pool) : Prop := PoolWrite.WF p.count p.entries

theorem wf_empty : empty.WF := WF.nil

theorem wf_count_pos {c : Nat} {es : List (Entry × Nat)} (h : WF c es) : 1 ≤ c := by
  induction h with
  | nil => omega
  | cons _ _ hc ih => have := slots_pos ‹Entry›; omega

/-- every stored index `i` satisfies `1 ≤ i` and `i + slots ≤ count` -/
theorem wf_range {c : Nat} {es : List (Entry × Nat)} (h : WF c es) :
    ∀ e i, (e, i) ∈ es → 1 ≤ i ∧ i + slots e ≤ c := by
  induction h with
  | nil => intro e i hm; cases hm
  | @cons c e0 i0 rest hw _ hc ih =>
    intro e i hm
    rcases List.mem_cons.mp hm with h | h
    · cases h; exact ⟨wf_count_pos hw, by omega⟩
    · obtain ⟨a, b⟩ := ih e i h
      have := slots_pos e0
      exact ⟨a, by omega⟩

theorem find_some_mem {e : Entry} {es : List (Entry × Nat)} {i : Nat} (h : find e es = some i) : (e, i) ∈ es := by
  induction es with
  | nil => simp [find] at h
  | cons x xs ih =>
    obtain ⟨e', j⟩ := x
    simp only [find] at h
    split at h
    · rename_i he; cases h; subst he; exact List.mem_cons_self
    · exact List.mem_cons_of_mem _ (ih h)

theorem find_none_not_mem {e : Entry} {es : List (Entry × Nat)} (h : find e es = none) : ∀ i, (e, i) ∉ es := by
  induction es with
  | nil => intro i hm; cases hm
  | cons x xs ih =>
    obtain ⟨e', j⟩ := x
    simp only [find] at h
    split at h
    · cases h
    · rename_i hne
      intro i hm
      rcases List.mem_cons.mp hm with h' | h'
      · cases h'; exact hne rfl
      · exact ih h i h'

/-- in a well-formed pool an index is used by at most one entry, and the index after a two-slot entry by none -/
theorem wf_index_unique {c : Nat} {es : List (Entry × Nat)} (h : WF c es) :
    ∀ e i e' j, (e, i) ∈ es → (e', j) ∈ es → i ≤ j → j < i + slots e → e = e' ∧ i = j := by
  induction h with
  | nil => intro e i e' j hm; cases hm
  | @cons c e0 i0 rest hw _ hc ih =>
    intro e i e' j hm hm' h1 h2
    rcases List.mem_cons.mp hm with h | h <;> rcases List.mem_cons.mp hm' with h' | h'
    · cases h; cases h'; exact ⟨rfl, rfl⟩
    · cases h
      have := (wf_range hw e' j h').2
      have := slots_pos e'
      omega
    · cases h'
      have := (wf_range hw e i h).2
      omega
    · exact ih e i e' j h h' h1 h2

theorem get_of_mem {c : Nat} {es : List (Entry × Nat)} (h : WF c es) {e : Entry} {i : Nat} (hm : (e, i) ∈ es) :
    (Pool.get ⟨c, es⟩ i) = some e := by
  unfold Pool.get
  simp only
  cases hf : es.find? (fun x => x.2 == i) with
  | none =>
    have := List.find?_eq_none.mp hf (e, i) hm
    simp at this
  | some x =>
    have hx := List.mem_of_find?_eq_some hf
    have hp := List.find?_some hf
    simp only [beq_iff_eq] at hp
    obtain ⟨e', j⟩ := x
    simp only at hp
    subst hp
    have := wf_index_unique h e' j e j hx hm (Nat.le_refl _) (by have := slots_pos e'; omega)
    simp [this.1]

theorem mem_of_get {c : Nat} {es : List (Entry × Nat)} {e : Entry} {i : Nat}
    (hg : (Pool.get ⟨c, es⟩ i) = some e) : (e, i) ∈ es := by
  unfold Pool.get at hg
  simp only at hg
  split at hg
  · rename_i x hf
    cases hg
    have hx := List.mem_of_find?_eq_some hf
    have hp := List.find?_some hf
    simp only [beq_iff_eq] at hp
    obtain ⟨e', j⟩ := x
    simp only at hp
    subst hp
    exact hx
  · cases hg

/-- `put` keeps the pool well formed -/
theorem put_wf {p p' : Pool} {e : Entry} {i : Nat} (hw : p.WF) (h : put p e = some (i, p')) : p'.WF := by
  unfold put at h
  split at h
  · cases h; exact hw
  · rename_i hf
    split at h
    · cases h
    · cases h
      exact WF.cons hw hf rfl

/-- `put` is idempotent: the same entry gets the same index and nothing is added -/
theorem put_idem {p p' : Pool} {e : Entry} {i : Nat} (h : put p e = some (i, p')) : put p' e = some (i, p') := by
  unfold put at h
  split at h
  · rename_i j hf
    cases h
    simp [put, hf]
  · rename_i hf
    split at h
    · cases h
    · cases h
      simp [put, find]

/-- the index returned for `e` denotes `e` -/
theorem put_get {p p' : Pool} {e : Entry} {i : Nat} (hw : p.WF) (h : put p e = some (i, p')) :
    p'.get i = some e := by
  have hw' := put_wf hw h
  unfold put at h
  split at h
  · rename_i j hf
    cases h
    exact get_of_mem hw (find_some_mem hf)
  · split at h
    · cases h
    · cases h
      exact get_of_mem hw' List.mem_cons_self

/-- indices handed out earlier keep denoting the same entries -/
theorem put_stable {p p' : Pool} {e e' : Entry} {i j : Nat} (hw : p.WF) (h : put p e = some (i, p'))
    (hg : p.get j = some e') : p'.get j = some e' := by
  have hw' := put_wf hw h
  unfold put at h
  split at h
  · cases h; exact hg
  · split at h
    · cases h
    · cases h
      exact get_of_mem hw' (List.mem_cons_of_mem _ (mem_of_get hg))

/-- the returned index is in `1 .. count-1`, the entry fits below `count`, and `count` stays a `u16` -/
theorem put_range {p p' : Pool} {e : Entry} {i : Nat} (hw : p.WF) (hc : p.count ≤ 65535)
    (h : put p e = some (i, p')) : 1 ≤ i ∧ i + slots e ≤ p'.count ∧ p'.count ≤ 65535 := by
  have hw' := put_wf hw h
  have hm : (e, i) ∈ p'.entries := mem_of_get (put_get hw h)
  obtain ⟨a, b⟩ := wf_range hw' e i hm
  refine ⟨a, b, ?_⟩
  unfold put at h
  split at h
  · cases h; exact hc
  · split at h
    · cases h
    · cases h; simp only; omega

/-- `constant_pool_count` = 1 + the slots of all entries (two for long and double) -/
theorem wf_count {c : Nat} {es : List (Entry × Nat)} (h : WF c es) : c = 1 + (es.map (fun x => slots x.1)).sum := by
  induction h with
  | nil => rfl
  | cons _ _ hc ih => simp only [List.map_cons, List.sum_cons]; omega

/-- the index following a long/double is never handed out -/
theorem upper_half_unused {p : Pool} (hw : p.WF) {e : Entry} {i : Nat} (hg : p.get i = some e) (h2 : slots e = 2) :
    p.get (i + 1) = none := by
  cases hn : p.get (i + 1) with
  | none => rfl
  | some e' =>
    have := wf_index_unique hw e i e' (i + 1) (mem_of_get hg) (mem_of_get hn) (by omega) (by omega)
    omega

end PoolWrite
